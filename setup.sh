#!/bin/bash
# Build the framework offline from files on disk only.
set -e
cd "$(dirname "$0")"
export CARGO_NET_OFFLINE=true
for f in spec/*.tla; do
  [ -f "$f" ] || continue
  (cd spec && tla-sany "$(basename "$f")" >/dev/null) || { echo "SANY failed on $f"; exit 2; }
done
cp /repo/Cargo.lock harness/Cargo.lock.repo 2>/dev/null || true
(cd harness && cargo build --offline 2>&1 | tail -3)
echo "setup ok"
