#!/bin/bash
# Build the framework offline from files on disk only.
cd "$(dirname "$0")"
export CARGO_NET_OFFLINE=true
fail=0
for m in Wallet WalletProps MCWallet TraceWallet Updater MCUpdater TraceUpdater Conc ConcWallet TraceConc Selection MCSelection WireGrammar Envelope TraceEnvelope; do
  (cd spec && tla-sany "$m.tla" >/dev/null 2>&1) || { echo "SANY failed on $m"; fail=1; }
done
(cd harness && cargo build --offline --lib --bin replay_wallet 2>&1 | tail -2) || fail=1
# the other replay binaries are (re)built by their own checks; pre-build them here to
# warm the cache, a failure of one of them must not block the others
(cd harness && cargo build --offline 2>&1 | tail -1) || true
[ $fail = 0 ] && echo "setup ok"
exit $fail
