//! A synchronous NodeClient over a real in-process grin chain, plus block building
//! (including forks on any known header).
use crate::libwallet;
use grin_api as api;
use grin_chain as chain;
use grin_core as core;
use grin_util as util;

use chain::types::NoopAdapter;
use chain::Chain;
use core::core::{Block, BlockHeader, Output, Transaction, TxKernel};
use core::global;
use core::{consensus, pow};
use libwallet::{NodeClient, NodeVersionInfo};
use std::collections::HashMap;
use std::sync::atomic::{AtomicBool, AtomicU64, Ordering};
use std::sync::Arc;
use util::secp::pedersen;
use util::{Mutex, ToHex};

#[derive(Clone)]
pub struct DirectNode {
	pub chain: Arc<Chain>,
	pub up: Arc<AtomicBool>,
	/// fail the n-th node call from now (0 = never)
	pub fail_at: Arc<AtomicU64>,
	pub calls: Arc<AtomicU64>,
	pub page: Arc<AtomicU64>,
	pub pool: Arc<Mutex<Vec<Transaction>>>,
}

impl DirectNode {
	pub fn new(chain: Arc<Chain>) -> DirectNode {
		DirectNode {
			chain,
			up: Arc::new(AtomicBool::new(true)),
			fail_at: Arc::new(AtomicU64::new(0)),
			calls: Arc::new(AtomicU64::new(0)),
			page: Arc::new(AtomicU64::new(1000)),
			pool: Arc::new(Mutex::new(vec![])),
		}
	}
	/// make the k-th node call from now fail (0 = none)
	pub fn arm_failure(&self, k: u64) {
		self.calls.store(0, Ordering::SeqCst);
		self.fail_at.store(k, Ordering::SeqCst);
	}
	fn chk(&self) -> Result<(), libwallet::Error> {
		let n = self.calls.fetch_add(1, Ordering::SeqCst) + 1;
		let f = self.fail_at.load(Ordering::SeqCst);
		// exactly the f-th call (counted from the last `arm_failure`) fails
		if f != 0 && n == f {
			return Err(libwallet::Error::ClientCallback("node call failed".into()));
		}
		if self.up.load(Ordering::SeqCst) {
			Ok(())
		} else {
			Err(libwallet::Error::ClientCallback("node down".into()))
		}
	}
}

impl NodeClient for DirectNode {
	fn node_url(&self) -> &str {
		"node"
	}
	fn set_node_url(&mut self, _: &str) {}
	fn node_api_secret(&self) -> Option<String> {
		None
	}
	fn set_node_api_secret(&mut self, _: Option<String>) {}
	fn post_tx(&self, tx: &Transaction, _fluff: bool) -> Result<(), libwallet::Error> {
		self.chk()?;
		self.pool.lock().push(tx.clone());
		Ok(())
	}
	fn get_version_info(&mut self) -> Option<NodeVersionInfo> {
		None
	}
	fn get_chain_tip(&self) -> Result<(u64, String), libwallet::Error> {
		self.chk()?;
		let h = self.chain.head().unwrap();
		Ok((h.height, h.last_block_h.to_hex()))
	}
	fn get_kernel(
		&mut self,
		excess: &pedersen::Commitment,
		min_height: Option<u64>,
		max_height: Option<u64>,
	) -> Result<Option<(TxKernel, u64, u64)>, libwallet::Error> {
		self.chk()?;
		Ok(self
			.chain
			.get_kernel_height(excess, min_height, max_height)
			.unwrap_or(None))
	}
	fn get_outputs_from_node(
		&self,
		wallet_outputs: Vec<pedersen::Commitment>,
	) -> Result<HashMap<pedersen::Commitment, (String, u64, u64)>, libwallet::Error> {
		self.chk()?;
		let mut res = HashMap::new();
		for c in wallet_outputs {
			if let Ok(Some(_)) = self.chain.get_unspent(c) {
				let h = self.chain.get_header_for_output(c).unwrap().height;
				let pos = self.chain.get_output_pos(&c).unwrap_or(0);
				res.insert(c, (c.to_hex(), h, pos));
			}
		}
		Ok(res)
	}
	fn get_outputs_by_pmmr_index(
		&self,
		start_index: u64,
		end_index: Option<u64>,
		max_outputs: u64,
	) -> Result<
		(
			u64,
			u64,
			Vec<(pedersen::Commitment, pedersen::RangeProof, bool, u64, u64)>,
		),
		libwallet::Error,
	> {
		self.chk()?;
		let start = std::cmp::max(start_index, 1);
		let max = std::cmp::min(max_outputs, self.page.load(Ordering::SeqCst));
		let o = self
			.chain
			.unspent_outputs_by_pmmr_index(start, max, end_index)
			.map_err(|e| libwallet::Error::ClientCallback(format!("{}", e)))?;
		let mut v = vec![];
		for x in o.2.iter() {
			let p = api::OutputPrintable::from_output(x, &self.chain, None, true, false)
				.map_err(|e| libwallet::Error::ClientCallback(format!("{}", e)))?;
			let cb = match p.output_type {
				api::OutputType::Coinbase => true,
				_ => false,
			};
			v.push((
				p.commit,
				p.range_proof().unwrap(),
				cb,
				p.block_height.unwrap(),
				p.mmr_index,
			));
		}
		Ok((o.1, o.0, v))
	}
	fn height_range_to_pmmr_indices(
		&self,
		start_height: u64,
		end_height: Option<u64>,
	) -> Result<(u64, u64), libwallet::Error> {
		self.chk()?;
		let i = self
			.chain
			.block_height_range_to_pmmr_indices(start_height, end_height)
			.map_err(|e| libwallet::Error::ClientCallback(format!("{}", e)))?;
		Ok((i.0, i.1))
	}
}

pub fn init_chain(dir: &str) -> Arc<Chain> {
	let genesis = pow::mine_genesis_block().unwrap();
	Arc::new(
		Chain::init(
			format!("{}/.grin", dir),
			Arc::new(NoopAdapter {}),
			genesis,
			pow::verify_size,
			false,
		)
		.unwrap(),
	)
}

/// Build a block on `prev` (any known header) with the given txs and coinbase.
pub fn build_block(
	chain: &Chain,
	prev: &BlockHeader,
	txs: &[Transaction],
	out: Output,
	kern: TxKernel,
) -> Result<Block, String> {
	let next = consensus::next_difficulty(
		prev.height + 1,
		chain
			.difficulty_iter()
			.map_err(|e| format!("difficulty_iter {}", e))?,
	);
	let mut b = Block::new(prev, txs, next.difficulty, (out, kern))
		.map_err(|e| format!("Block::new {:?}", e))?;
	b.header.timestamp = prev.timestamp + chrono::Duration::seconds(60);
	b.header.pow.secondary_scaling = next.secondary_scaling;
	chain
		.set_txhashset_roots(&mut b)
		.map_err(|e| format!("set_txhashset_roots {}", e))?;
	pow::pow_size(
		&mut b.header,
		next.difficulty,
		global::proofsize(),
		global::min_edge_bits(),
	)
	.map_err(|e| format!("pow {:?}", e))?;
	Ok(b)
}

pub fn process(chain: &Chain, b: Block) -> Result<(), String> {
	chain
		.process_block(b, chain::Options::MINE)
		.map(|_| ())
		.map_err(|e| format!("process_block {}", e))
}
