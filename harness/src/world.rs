//! World: real wallets over a real in-process chain, driven step by step.
//! Every operation returns a JSON event; `obs()` projects the abstract state
//! (the alpha function of DESIGN.md 3.1) in exactly the vocabulary of
//! spec/Wallet.tla.
use crate::libwallet;
use crate::node::{self, DirectNode};
use grin_chain::Chain;
use grin_core as core;
use grin_keychain::{ExtKeychain, Identifier, Keychain};
use grin_util as util;
use grin_wallet_impls::{DefaultLCProvider, DefaultWalletImpl};

use core::core::{Committed, Transaction, Weighting};
use core::global::{self, ChainTypes};
use libwallet::api_impl::{foreign, owner};
use libwallet::{
	BlockFees, InitTxArgs, IssueInvoiceTxArgs, OutputData, OutputStatus, Slate, SlateState,
	TxLogEntry, TxLogEntryType, WalletBackend, WalletInst,
};
use serde_json::{json, Map, Value};
use std::collections::{BTreeMap, BTreeSet};
use std::panic::{catch_unwind, AssertUnwindSafe};
use std::sync::atomic::Ordering;
use std::sync::Arc;
use util::secp::key::SecretKey;
use util::secp::pedersen::Commitment;
use util::{Mutex, ToHex, ZeroingString};
use uuid::Uuid;

pub type LC = DefaultLCProvider<'static, DirectNode, ExtKeychain>;
pub type W = Arc<Mutex<Box<dyn WalletInst<'static, LC, DirectNode, ExtKeychain>>>>;

/// protocol traces carry values in units of U nanogrin
pub const U: u64 = 1_000_000;

pub fn set_thread_globals(unit: u64) {
	global::set_local_chain_type(ChainTypes::AutomatedTesting);
	global::set_local_accept_fee_base(unit);
}

pub struct WalletH {
	pub name: String,
	pub dir: String,
	pub inst: Option<W>,
	pub mask: Option<SecretKey>,
	pub masked: bool,
	pub password: String,
	/// name of the wallet that first owned this seed
	pub seed: String,
	pub phrase: String,
	/// label of the active account as last set through `set_active` (per process in the real wallet)
	pub active: String,
}

#[derive(Clone, Default)]
pub struct SlateRec {
	pub id: Option<Uuid>,
	/// latest slate by stage name ("S1","S2","S3","I1","I2","I3")
	pub stage: BTreeMap<String, Slate>,
	/// every reply (S2 / I2) produced for this slate, in order
	pub replies: Vec<Slate>,
	/// known excess commitments: hex -> class ("part"|"full")
	pub final_tx: Option<Transaction>,
}

pub struct World {
	pub dir: String,
	pub unit: u64,
	pub chain: Arc<Chain>,
	pub node: DirectNode,
	pub wallets: BTreeMap<String, WalletH>,
	pub slates: BTreeMap<String, SlateRec>,
	/// commit hex -> world-wide output id "<seed>:<key>"
	pub reg: BTreeMap<String, String>,
	/// output id -> what the chain reveals to the seed owner
	pub reginfo: BTreeMap<String, Value>,
	/// excess hex -> (slate name, class)
	pub kern: BTreeMap<String, (String, String)>,
	/// model-side view of the chain: (coinbase outid, included slates) per block
	pub blocks: Vec<(String, Vec<String>)>,
	pub posted: BTreeSet<String>,
	pub nslates: usize,
	pub last_built: Option<core::core::BlockHeader>,
	/// number of values seen that are not whole units
	pub unrep: std::cell::Cell<u64>,
	/// key the next block's coinbase is (re-)requested under (a candidate of an earlier request)
	pub cb_key: Option<String>,
	/// TRUE: operations go through the structs and listeners the wallet binary serves - grin_wallet_api::Owner for
	/// owner calls, the foreign JSON-RPC listener (controller::ForeignAPIHandlerV2: request mapping of foreign_rpc.rs,
	/// the version middleware, api::Foreign) for receive_tx / build_coinbase, api::Foreign for finalize_tx - instead
	/// of libwallet::api_impl directly
	pub via_api: bool,
}
pub type OwnerApi = grin_wallet_api::Owner<LC, DirectNode, ExtKeychain>;
pub type ForeignApi = grin_wallet_api::Foreign<'static, LC, DirectNode, ExtKeychain>;

/// cut-off heights travel as they are; anything beyond 10^9 (u64::MAX in particular) is logged as 10^9, the
/// model's "far future" (TLC integers are 32 bit)
pub const TTL_FAR: u64 = 1_000_000_000;
pub fn ttlv(t: u64) -> u64 {
	t.min(TTL_FAR)
}
pub fn key_str(id: &Identifier, _mmr: &Option<u64>) -> String {
	let p = id.to_path();
	format!("a{}c{}", u32::from(p.path[0]), u32::from(p.path[2]))
}
pub fn acct_str(id: &Identifier) -> String {
	format!("a{}", u32::from(id.to_path().path[0]))
}
fn status_str(s: &OutputStatus) -> &'static str {
	match s {
		OutputStatus::Unconfirmed => "Unconfirmed",
		OutputStatus::Unspent => "Unspent",
		OutputStatus::Locked => "Locked",
		OutputStatus::Spent => "Spent",
		OutputStatus::Reverted => "Reverted",
	}
}
fn type_str(t: &TxLogEntryType) -> &'static str {
	match t {
		TxLogEntryType::ConfirmedCoinbase => "ConfirmedCoinbase",
		TxLogEntryType::TxReceived => "TxReceived",
		TxLogEntryType::TxSent => "TxSent",
		TxLogEntryType::TxReceivedCancelled => "TxReceivedCancelled",
		TxLogEntryType::TxSentCancelled => "TxSentCancelled",
		TxLogEntryType::TxReverted => "TxReverted",
	}
}

/// classify an error for the trace: a short stable class name
pub fn err_class(e: &libwallet::Error) -> String {
	use libwallet::Error::*;
	match e {
		NotEnoughFunds { .. } => "notenough".into(),
		Fee(_) => "fee".into(),
		TransactionExpired => "expired".into(),
		TransactionAlreadyReceived(_) => "already".into(),
		TransactionWasCancelled(_) => "wascancelled".into(),
		TransactionDoesntExist(_) => "notfound".into(),
		TransactionNotCancellable(_) => "notcancellable".into(),
		TransactionCancellationError(_) => "nonode".into(),
		ClientCallback(_) => "node".into(),
		InvalidKeychainMask => "mask".into(),
		KeychainDoesntExist => "closed".into(),
		PaymentProof(_) => "proof".into(),
		SlateState => "state".into(),
		Backend(m) if m.contains("verif") => "injected".into(),
		IO(m) if m.contains("verif") => "injected".into(),
		Backend(_) => "backend".into(),
		Lifecycle(_) => "lifecycle".into(),
		GenericError(_) => "generic".into(),
		StoredTx(_) => "storedtx".into(),
		_ => {
			let s = format!("{:?}", e);
			let head: String = s.chars().take_while(|c| c.is_alphanumeric()).collect();
			format!("other:{}", head)
		}
	}
}

/// the same classes for an error as the JSON-RPC listeners serialise it ("Variant" or {"Variant": payload})
pub fn err_class_json(e: &Value) -> String {
	let (name, payload) = match e {
		Value::String(s) => (s.clone(), String::new()),
		Value::Object(m) => match m.iter().next() {
			Some((k, v)) => (k.clone(), v.to_string()),
			None => ("".into(), String::new()),
		},
		_ => ("".into(), String::new()),
	};
	match name.as_str() {
		"NotEnoughFunds" => "notenough".into(),
		"Fee" => "fee".into(),
		"TransactionExpired" => "expired".into(),
		"TransactionAlreadyReceived" => "already".into(),
		"TransactionWasCancelled" => "wascancelled".into(),
		"TransactionDoesntExist" => "notfound".into(),
		"TransactionNotCancellable" => "notcancellable".into(),
		"TransactionCancellationError" => "nonode".into(),
		"ClientCallback" => "node".into(),
		"InvalidKeychainMask" => "mask".into(),
		"KeychainDoesntExist" => "closed".into(),
		"PaymentProof" => "proof".into(),
		"SlateState" => "state".into(),
		"Backend" | "IO" if payload.contains("verif") => "injected".into(),
		"Backend" => "backend".into(),
		"Lifecycle" => "lifecycle".into(),
		"GenericError" => "generic".into(),
		"StoredTx" => "storedtx".into(),
		n => format!("other:{}", n),
	}
}

/// result of running an operation on the real code
pub enum Outcome<T> {
	Ok(T),
	Err(String),
	Panic(String),
}
impl<T> Outcome<T> {
	pub fn res(&self) -> String {
		match self {
			Outcome::Ok(_) => "ok".into(),
			Outcome::Err(c) => format!("err:{}", c),
			Outcome::Panic(_) => "panic".into(),
		}
	}
	pub fn detail(&self) -> String {
		match self {
			Outcome::Ok(_) => "".into(),
			Outcome::Err(c) => c.clone(),
			Outcome::Panic(m) => m.clone(),
		}
	}
}

pub fn panic_msg(p: &Box<dyn std::any::Any + Send>) -> String {
	if let Some(s) = p.downcast_ref::<&str>() {
		s.to_string()
	} else if let Some(s) = p.downcast_ref::<String>() {
		s.clone()
	} else if let Some(s) = p.downcast_ref::<grin_wallet_util::verif::CrashSentinel>() {
		format!("CRASH:{}", s.0)
	} else {
		"panic".into()
	}
}

pub fn guarded<T, F: FnOnce() -> Result<T, libwallet::Error>>(f: F) -> Outcome<T> {
	match catch_unwind(AssertUnwindSafe(f)) {
		Ok(Ok(v)) => Outcome::Ok(v),
		Ok(Err(e)) => Outcome::Err(err_class(&e)),
		Err(p) => Outcome::Panic(panic_msg(&p)),
	}
}

impl World {
	pub fn new(dir: &str, unit: u64) -> World {
		set_thread_globals(unit);
		let _ = std::fs::remove_dir_all(dir);
		std::fs::create_dir_all(dir).unwrap();
		let chain = node::init_chain(dir);
		let nd = DirectNode::new(chain.clone());
		World {
			dir: dir.to_string(),
			unit,
			chain,
			node: nd,
			wallets: BTreeMap::new(),
			slates: BTreeMap::new(),
			reg: BTreeMap::new(),
			reginfo: BTreeMap::new(),
			kern: BTreeMap::new(),
			blocks: vec![],
			posted: BTreeSet::new(),
			nslates: 0,
			last_built: None,
			unrep: std::cell::Cell::new(0),
			cb_key: None,
			via_api: false,
		}
	}

	// ------------------------------------------------------------ wallets
	fn mk_inst(&self) -> Box<dyn WalletInst<'static, LC, DirectNode, ExtKeychain>> {
		Box::new(DefaultWalletImpl::<DirectNode>::new(self.node.clone()).unwrap())
			as Box<dyn WalletInst<'static, LC, DirectNode, ExtKeychain>>
	}

	/// `seed_of`: restore from the phrase of an existing wallet (shares its seed name)
	pub fn create_wallet(&mut self, name: &str, masked: bool, seed_of: Option<&str>) {
		let wdir = format!("{}/{}", self.dir, name);
		let mut wallet = self.mk_inst();
		let phrase_in: Option<String> = seed_of.map(|w| self.wallets[w].phrase.clone());
		let phrase = phrase_in.as_ref().map(|s| s.as_str());
		let seed_name = seed_of.map(|w| self.wallets[w].seed.clone()).unwrap_or(name.to_string());
		let mut got_phrase = String::new();
		let mask = {
			let lc = wallet.lc_provider().unwrap();
			lc.set_top_level_directory(&wdir).unwrap();
			lc.create_wallet(
				None,
				phrase.map(|p| ZeroingString::from(p)),
				32,
				ZeroingString::from(""),
				false,
			)
			.unwrap();
			let m = lc
				.open_wallet(None, ZeroingString::from(""), masked, false)
				.unwrap();
			if let Ok(p) = lc.get_mnemonic(None, ZeroingString::from("")) {
				got_phrase = (&*p).to_string();
			}
			m
		};
		self.wallets.insert(
			name.to_string(),
			WalletH {
				name: name.to_string(),
				dir: wdir,
				inst: Some(Arc::new(Mutex::new(wallet))),
				mask,
				masked,
				password: "".into(),
				seed: seed_name,
				phrase: got_phrase,
				active: "default".into(),
			},
		);
	}

	/// drop the wallet instance (as process death would) and open it again from disk
	pub fn reopen(&mut self, name: &str) -> Outcome<()> {
		let (wdir, masked, pw) = {
			let h = self.wallets.get_mut(name).unwrap();
			h.inst = None;
			(h.dir.clone(), h.masked, h.password.clone())
		};
		let mut wallet = self.mk_inst();
		let r = guarded(|| {
			let lc = wallet.lc_provider()?;
			lc.set_top_level_directory(&wdir)?;
			lc.open_wallet(None, ZeroingString::from(pw.as_str()), masked, false)
		});
		match r {
			Outcome::Ok(mask) => {
				let h = self.wallets.get_mut(name).unwrap();
				h.inst = Some(Arc::new(Mutex::new(wallet)));
				h.mask = mask;
				h.active = "default".into();
				Outcome::Ok(())
			}
			Outcome::Err(e) => Outcome::Err(e),
			Outcome::Panic(p) => Outcome::Panic(p),
		}
	}

	pub fn inst(&self, w: &str) -> W {
		self.wallets[w].inst.as_ref().unwrap().clone()
	}
	pub fn mask(&self, w: &str) -> Option<SecretKey> {
		self.wallets[w].mask.clone()
	}

	/// run `f` on the backend under the wallet mutex, catching errors and panics
	pub fn with<T, F>(&self, w: &str, f: F) -> Outcome<T>
	where
		F: FnOnce(
			&mut (dyn WalletBackend<'static, DirectNode, ExtKeychain> + 'static),
			Option<&SecretKey>,
		) -> Result<T, libwallet::Error>,
	{
		let inst = self.inst(w);
		let mask = self.mask(w);
		guarded(move || {
			let mut l = inst.lock();
			let wi = l.lc_provider()?.wallet_inst()?;
			f(&mut **wi, mask.as_ref())
		})
	}

	pub fn owner_api(&self, w: &str) -> OwnerApi {
		grin_wallet_api::Owner::new(self.inst(w), None)
	}
	pub fn foreign_api(&self, w: &str) -> ForeignApi {
		grin_wallet_api::Foreign::new(self.inst(w), self.mask(w), None, false)
	}
	/// one request to the wallet's foreign JSON-RPC listener; Ok(result.Ok) | Err(class of result.Err / of the RPC error)
	pub fn foreign_rpc(&self, w: &str, method: &str, params: Value) -> Outcome<Value> {
		use grin_wallet_controller::controller::ForeignAPIHandlerV2;
		let h: ForeignAPIHandlerV2<LC, DirectNode, ExtKeychain> =
			ForeignAPIHandlerV2::new(self.inst(w), Arc::new(Mutex::new(self.mask(w))), false, Mutex::new(None));
		let body = json!({"jsonrpc": "2.0", "id": 1, "method": method, "params": params}).to_string().into_bytes();
		let r = catch_unwind(AssertUnwindSafe(|| {
			use grin_api::Handler;
			let req = hyper::Request::builder().method("POST").uri("/v2/foreign").body(hyper::Body::from(body)).unwrap();
			let resp = futures::executor::block_on(h.post(req)).map_err(|_| "rpc:transport".to_string())?;
			let b = futures::executor::block_on(hyper::body::to_bytes(resp.into_body())).map_err(|_| "rpc:body".to_string())?;
			serde_json::from_slice::<Value>(&b).map_err(|_| "rpc:notjson".to_string())
		}));
		match r {
			Err(p) => Outcome::Panic(panic_msg(&p)),
			Ok(Err(c)) => Outcome::Err(c),
			Ok(Ok(v)) => {
				if let Some(ok) = v["result"].get("Ok") {
					Outcome::Ok(ok.clone())
				} else if let Some(e) = v["result"].get("Err") {
					Outcome::Err(err_class_json(e))
				} else {
					Outcome::Err("rpc:error".into())
				}
			}
		}
	}

	// ------------------------------------------------------------- slates
	pub fn slate_name(&self, id: &Uuid) -> String {
		for (n, r) in self.slates.iter() {
			if r.id.as_ref() == Some(id) {
				return n.clone();
			}
		}
		format!("?{}", id)
	}
	fn record_excess(&mut self, name: &str, slate: &Slate, class: &str) {
		let secp = util::static_secp_instance();
		let secp = secp.lock();
		if let Ok(e) = slate.calc_excess(&secp) {
			self.kern
				.entry(e.0.to_vec().to_hex())
				.or_insert((name.to_string(), class.to_string()));
		}
	}
	/// the latest reply of `name` has just been pushed: record its full excess
	fn record_full_excess(&mut self, name: &str) {
		let rec = self.slates.get(name).cloned().unwrap_or_default();
		let nrep = rec.replies.len();
		let pairs = ["S1", "I1"];
		for a in pairs.iter() {
			if let (Some(sa), Some(sb)) = (rec.stage.get(*a), rec.replies.last()) {
				let mut t = sa.clone();
				for p in sb.participant_data.iter() {
					if !t
						.participant_data
						.iter()
						.any(|q| q.public_blind_excess == p.public_blind_excess)
					{
						t.participant_data.push(p.clone());
					}
				}
				let secp = util::static_secp_instance();
				let secp = secp.lock();
				if let Ok(e) = t.calc_excess(&secp) {
					// full overrides a partial with the same bytes (cannot happen) only if absent
					self.kern.insert(
						e.0.to_vec().to_hex(),
						(name.to_string(), format!("full:{}#{}", name, nrep)),
					);
				}
			}
		}
	}

	// ------------------------------------------------------------ projection
	fn val(&self, v: u64) -> Value {
		if v % self.unit == 0 && v / self.unit < (1u64 << 31) {
			json!(v / self.unit)
		} else {
			// not representable in units: flagged, the runner reports NONCONFORMANCE
			self.unrep.set(self.unrep.get() + 1);
			json!(std::cmp::min(v / self.unit, (1u64 << 31) - 1))
		}
	}

	fn register_outputs(&mut self, w: &str, outs: &[OutputData]) {
		let seed = self.wallets[w].seed.clone();
		for o in outs {
			if let Some(c) = &o.commit {
				let id = format!("{}:{}", seed, key_str(&o.key_id, &None));
				if !self.reg.contains_key(c) {
					self.reg.insert(c.clone(), id.clone());
				}
				let v = self.val(o.value);
				self.reginfo.insert(
					id,
					json!({"seed": seed, "key": key_str(&o.key_id, &None),
						"pa": acct_str(&o.key_id.parent_path()), "n": o.n_child, "v": v, "cb": o.is_coinbase}),
				);
			}
		}
	}
	/// register planned change outputs of a context (they have a key and a value but
	/// no record yet)
	fn register_ctx_outputs(&mut self, w: &str, ctx: &libwallet::Context) {
		let seed = self.wallets[w].seed.clone();
		let commits = self.with(w, |wi, mask| {
			let mut v = vec![];
			for (k, _, val) in ctx.output_ids.iter() {
				v.push((k.clone(), *val, wi.calc_commit_for_cache(mask, *val, k)?));
			}
			Ok(v)
		});
		if let Outcome::Ok(v) = commits {
			for (k, val, c) in v {
				if let Some(c) = c {
					let id = format!("{}:{}", seed, key_str(&k, &None));
					self.reg.entry(c).or_insert(id.clone());
					let vv = self.val(val);
					self.reginfo.entry(id).or_insert(
						json!({"seed": seed, "key": key_str(&k, &None), "pa": acct_str(&k.parent_path()),
							"n": k.to_path().last_path_index(), "v": vv, "cb": false}),
					);
				}
			}
		}
	}

	pub fn obs_wallet(&mut self, w: &str) -> Value {
		if self.wallets[w].inst.is_none() {
			return json!({"closed": true});
		}
		let known: Vec<(String, Uuid)> = self
			.slates
			.iter()
			.filter_map(|(n, r)| r.id.map(|i| (n.clone(), i)))
			.collect();
		let unit = self.unit;
		let dir = self.wallets[w].dir.clone();
		let r = self.with(w, |wi, mask| {
			let outs: Vec<OutputData> = wi.iter().collect();
			let txs: Vec<TxLogEntry> = wi.tx_log_iter().collect();
			let accts: Vec<libwallet::AcctPathMapping> = wi.acct_path_iter().collect();
			let active = wi.parent_key_id();
			let mut idx = Map::new();
			for a in accts.iter() {
				let child = wi.current_child_index(&a.path)?;
				wi.set_parent_key_id(a.path.clone());
				let confh = wi.last_confirmed_height()?;
				let log = {
					let mut b = wi.batch_no_mask()?;
					b.next_tx_log_id(&a.path)?
					// batch dropped without commit: read-only
				};
				idx.insert(
					acct_str(&a.path),
					json!({"child": child, "log": log, "confh": confh, "label": a.label}),
				);
			}
			wi.set_parent_key_id(active.clone());
			let mut ctxs = Map::new();
			let mut rawctx = vec![];
			for (n, id) in known.iter() {
				if let Ok(c) = wi.get_private_context(mask, id.as_bytes()) {
					ctxs.insert(n.clone(), ctx_json(&c, unit));
					rawctx.push(c);
				}
			}
			let scanned = wi.last_scanned_block()?;
			let init = format!("{:?}", wi.init_status()?);
			Ok((outs, txs, idx, ctxs, acct_str(&active), scanned.height, init, rawctx))
		});
		let (outs, txs, idx, ctxs, active, scanned, init, rawctx) = match r {
			Outcome::Ok(v) => v,
			Outcome::Err(e) => return json!({"unreadable": format!("err:{}", e)}),
			Outcome::Panic(p) => return json!({"unreadable": format!("panic:{}", p)}),
		};
		self.register_outputs(w, &outs);
		for c in rawctx.iter() {
			self.register_ctx_outputs(w, c);
		}
		// classify the stored excess of contexts
		let mut ctxs = ctxs;
		for (_, c) in ctxs.iter_mut() {
			let hex = c["calc"].as_str().unwrap_or("").to_string();
			c["calc"] = if hex.is_empty() {
				json!("")
			} else {
				json!(self.kern.get(&hex).map(|x| x.1.clone()).unwrap_or("other".to_string()))
			};
		}
		let mut jo = Map::new();
		for o in outs.iter() {
			let mut k = key_str(&o.key_id, &o.mmr_index);
			if jo.contains_key(&k) {
				k = format!("{}+m", k);
			}
			jo.insert(
				k,
				json!({
					"pa": acct_str(&o.key_id.parent_path()), "m": o.mmr_index.is_some(),
					"v": self.val(o.value), "st": status_str(&o.status), "h": o.height,
					"lk": o.lock_height, "cb": o.is_coinbase,
					"tx": o.tx_log_entry.map(|x| x as i64).unwrap_or(-1),
					"acct": acct_str(&o.root_key_id), "n": o.n_child,
				}),
			);
		}
		let mut jt = Map::new();
		for t in txs.iter() {
			let slate = match &t.tx_slate_id {
				Some(id) => self.slate_name(id),
				None => "".to_string(),
			};
			let kern = match &t.kernel_excess {
				None => "".to_string(),
				Some(k) => {
					if t.tx_type == TxLogEntryType::ConfirmedCoinbase {
						"cb".to_string()
					} else {
						match self.kern.get(&k.0.to_vec().to_hex()) {
							Some((_, c)) => c.clone(),
							None => "other".to_string(),
						}
					}
				}
			};
			let proof = match &t.payment_proof {
				None => "none",
				Some(p) => match (p.receiver_signature.is_some(), p.sender_signature.is_some()) {
					(false, false) => "nosig",
					(true, false) => "rsig",
					(false, true) => "ssig",
					(true, true) => "both",
				},
			};
			jt.insert(
				format!("{}i{}", acct_str(&t.parent_key_id), t.id),
				json!({
					"acct": acct_str(&t.parent_key_id), "id": t.id, "ty": type_str(&t.tx_type),
					"conf": t.confirmed, "cr": self.val(t.amount_credited), "db": self.val(t.amount_debited),
					"fee": t.fee.map(|f| self.val(f.fee())).unwrap_or(json!(-1)),
					"slate": slate, "ttl": ttlv(t.ttl_cutoff_height.unwrap_or(0)), "kern": kern,
					"minh": t.kernel_lookup_min_height.map(|x| x as i64).unwrap_or(-1),
					"nin": t.num_inputs, "nout": t.num_outputs, "proof": proof,
				}),
			);
		}
		// side files
		let mut files = Map::new();
		if let Ok(rd) = std::fs::read_dir(format!("{}/wallet_data/saved_txs", dir)) {
			for e in rd.flatten() {
				let fname = e.file_name().to_string_lossy().to_string();
				if let Some(stem) = fname.strip_suffix(".grintx") {
					let name = match Uuid::parse_str(stem) {
						Ok(id) => self.slate_name(&id),
						Err(_) => format!("?{}", stem),
					};
					let class = match std::fs::read_to_string(e.path()) {
						Ok(content) => classify_stored_tx(&content),
						Err(_) => "unreadable".to_string(),
					};
					files.insert(name, json!(class));
				}
			}
		}
		json!({"seed": self.wallets[w].seed, "outs": jo, "txs": jt, "ctxs": ctxs, "idx": idx, "files": files,
			"active": active, "scanned": scanned, "init": init})
	}

	/// full observed world
	pub fn obs(&mut self) -> Value {
		let names: Vec<String> = self.wallets.keys().cloned().collect();
		let mut jw = Map::new();
		for n in names.iter() {
			let v = self.obs_wallet(n);
			jw.insert(n.clone(), v);
		}
		// ground truth from the real chain: registered outputs that are unspent
		let mut utxo = vec![];
		for (c, id) in self.reg.iter() {
			if let Ok(bytes) = util::from_hex(c) {
				let commit = Commitment::from_vec(bytes);
				if let Ok(Some(_)) = self.chain.get_unspent(commit) {
					utxo.push(id.clone());
				}
			}
		}
		utxo.sort();
		utxo.dedup();
		let head = self.chain.head().unwrap().height;
		let blocks: Vec<Value> = self
			.blocks
			.iter()
			.map(|(cb, txs)| json!({"cb": cb, "txs": txs}))
			.collect();
		let mut body = Map::new();
		for (n, r) in self.slates.iter() {
			if let Some(tx) = &r.final_tx {
				let ins: Vec<String> = tx
					.inputs_committed()
					.iter()
					.map(|c| self.name_of_commit(c))
					.collect();
				let outs: Vec<String> = tx
					.outputs_committed()
					.iter()
					.map(|c| self.name_of_commit(c))
					.collect();
				let kern = tx
					.kernels()
					.get(0)
					.and_then(|k| self.kern.get(&k.excess.0.to_vec().to_hex()))
					.map(|x| x.1.clone())
					.unwrap_or("other".to_string());
				body.insert(
					n.clone(),
					json!({"ins": ins, "outs": outs, "fee": self.val(tx.fee()), "kern": kern}),
				);
			}
		}
		let posted: Vec<String> = self.posted.iter().cloned().collect();
		let reg: Map<String, Value> = self.reginfo.iter().map(|(k, v)| (k.clone(), v.clone())).collect();
		let nrep: Map<String, Value> = self
			.slates
			.iter()
			.filter(|(_, r)| !r.replies.is_empty())
			.map(|(k, r)| (k.clone(), json!(r.replies.len())))
			.collect();
		json!({"w": jw, "height": head, "chain": blocks, "utxo": utxo, "body": body, "pool": posted, "reg": reg, "nrep": nrep,
			"unrep": self.unrep.get()})
	}

	pub fn name_of_commit(&self, c: &Commitment) -> String {
		let h = c.0.to_vec().to_hex();
		self.reg.get(&h).cloned().unwrap_or(format!("?{}", &h[0..8]))
	}

	// ------------------------------------------------------------ chain ops
	/// mine one block; coinbase to wallet `to` (or to a throw-away keychain when None)
	pub fn mine(&mut self, to: Option<&str>, include: &[String]) -> Value {
		let prev = self.chain.head_header().unwrap();
		self.mine_on(prev, to, include)
	}

	/// replace the last `depth` blocks by `depth + 1` new ones (coinbases to nobody);
	/// the first new block includes those of `keep` whose transactions are valid there
	pub fn fork(&mut self, depth: u64, keep: &[String]) -> Value {
		let head = self.chain.head_header().unwrap();
		if depth == 0 || depth >= head.height {
			return json!({"ev": "fork", "depth": depth, "keep": keep, "res": "skip"});
		}
		let base = match self.chain.get_header_by_height(head.height - depth) {
			Ok(h) => h,
			Err(e) => return json!({"ev": "fork", "depth": depth, "res": "err:block", "detail": format!("{}", e)}),
		};
		let removed: Vec<(String, Vec<String>)> = self.blocks.split_off((head.height - depth) as usize);
		let mut results = vec![];
		let mut prev = base;
		let mut kept: Vec<String> = vec![];
		for i in 0..=depth {
			let inc: Vec<String> = if i == 0 { keep.to_vec() } else { vec![] };
			let r = self.mine_on(prev.clone(), None, &inc);
			if r["res"] != "ok" {
				// put the model view back as far as possible
				results.push(r);
				break;
			}
			if i == 0 {
				kept = r["txs"].as_array().map(|a| a.iter().filter_map(|x| x.as_str().map(|s| s.to_string())).collect()).unwrap_or_default();
			}
			// the block we just processed: find it by height on whichever branch it is
			prev = match self.last_built.clone() {
				Some(h) => h,
				None => break,
			};
			results.push(r);
		}
		let ok = results.iter().all(|r| r["res"] == "ok");
		let head2 = self.chain.head_header().unwrap();
		let switched = head2.height == head.height + 1;
		// transactions of removed blocks that were not kept go back to "posted" (the node's pool
		// would re-add them); the model does the same
		for (_, txs) in removed.iter() {
			for t in txs {
				if !kept.contains(t) {
					self.posted.insert(t.clone());
				}
			}
		}
		json!({"ev": "fork", "depth": depth, "keep": keep, "kept": kept, "res": if ok && switched {"ok"} else {"err:fork"},
			"removed": removed.iter().map(|(c, t)| json!({"cb": c, "txs": t})).collect::<Vec<_>>()})
	}

	pub fn mine_on(&mut self, prev: core::core::BlockHeader, to: Option<&str>, include: &[String]) -> Value {
		let mut txs = vec![];
		let mut included = vec![];
		for n in include {
			if let Some(tx) = self.slates.get(n).and_then(|r| r.final_tx.clone()) {
				txs.push(tx);
				included.push(n.clone());
			}
		}
		let requested = include;
		let include = &included[..];
		let fees: u64 = txs.iter().map(|t| t.fee()).sum();
		let height = prev.height + 1;
		// the coinbase is re-requested under the key of an earlier candidate
		let cbk = self.cb_key.as_ref().and_then(|k| parse_key(k));
		let (cbname, out, kern) = match to {
			Some(w) => {
				let bf = BlockFees {
					fees,
					key_id: cbk.clone(),
					height,
				};
				let r = if self.via_api {
					// the mining node asks over the foreign listener
					match self.foreign_rpc(w, "build_coinbase", json!([bf])) {
						Outcome::Ok(v) => {
							let k = v["key_id"].as_str().and_then(|h| Identifier::from_hex(h).ok());
							let o = serde_json::from_value::<core::core::Output>(v["output"].clone());
							let kn = serde_json::from_value::<core::core::TxKernel>(v["kernel"].clone());
							match (k, o, kn) {
								(Some(k), Ok(o), Ok(kn)) => Outcome::Ok((k, o, kn)),
								_ => Outcome::Err("rpc:reply".into()),
							}
						}
						Outcome::Err(c) => Outcome::Err(c),
						Outcome::Panic(m) => Outcome::Panic(m),
					}
				} else {
					self.with(w, |wi, mask| {
						foreign::build_coinbase(wi, mask, &bf, false).map(|cb| (cb.key_id.clone().unwrap(), cb.output, cb.kernel))
					})
				};
				match r {
					Outcome::Ok((key, output, kernel)) => {
						(
							format!("{}:{}", self.wallets[w].seed, key_str(&key, &None)),
							output,
							kernel,
						)
					}
					o => {
						return json!({"ev": "mine", "to": w, "txs": include, "res": o.res(), "detail": o.detail()})
					}
				}
			}
			None => {
				let kc = ExtKeychain::from_random_seed(false).unwrap();
				let key_id = ExtKeychain::derive_key_id(1, height as u32, 0, 0, 0);
				let (o, k) = core::libtx::reward::output(
					&kc,
					&core::libtx::ProofBuilder::new(&kc),
					&key_id,
					fees,
					false,
				)
				.unwrap();
				("".to_string(), o, k)
			}
		};
		let res = node::build_block(&self.chain, &prev, &txs, out, kern).and_then(|b| {
			let h = b.header.clone();
			node::process(&self.chain, b).map(|_| h)
		});
		match res {
			Ok(h) => {
				self.last_built = Some(h);
				self.blocks.push((cbname.clone(), include.to_vec()));
				for n in include {
					self.posted.remove(n);
				}
				json!({"ev": "mine", "to": to.unwrap_or(""), "cb": cbname, "txs": include, "requested": requested, "res": "ok"})
			}
			Err(e) => {
				json!({"ev": "mine", "to": to.unwrap_or(""), "cb": cbname, "txs": include, "res": "err:block", "detail": e})
			}
		}
	}

	pub fn node_up(&mut self, up: bool) -> Value {
		self.node.up.store(up, Ordering::SeqCst);
		json!({"ev": if up {"node_up"} else {"node_down"}, "res": "ok"})
	}

	// ----------------------------------------------------------- wallet ops
	pub fn refresh(&mut self, w: &str, minconf: u64) -> Value {
		let inst = self.inst(w);
		let mask = self.mask(w);
		let via = self.via_api;
		let api = self.owner_api(w);
		let r = guarded(|| {
			if via {
				api.retrieve_summary_info(mask.as_ref(), true, minconf)
			} else {
				owner::retrieve_summary_info(inst, mask.as_ref(), &None, true, minconf)
			}
		});
		match r {
			Outcome::Ok((validated, info)) => json!({
				"ev": "refresh", "w": w, "res": "ok", "refreshed": validated, "minconf": minconf,
				"info": {
					"confh": info.last_confirmed_height,
					"total": self.val(info.total),
					"awaitfin": self.val(info.amount_awaiting_finalization),
					"awaitconf": self.val(info.amount_awaiting_confirmation),
					"immature": self.val(info.amount_immature),
					"locked": self.val(info.amount_locked),
					"spendable": self.val(info.amount_currently_spendable),
					"reverted": self.val(info.amount_reverted),
				}
			}),
			o => json!({"ev": "refresh", "w": w, "res": o.res(), "detail": o.detail(), "refreshed": false, "minconf": minconf}),
		}
	}

	pub fn new_slate_name(&mut self) -> String {
		self.nslates += 1;
		format!("s{}", self.nslates)
	}

	/// args: amt (units), src, minconf, maxouts, nchange, useall, late, incfee, ttlb, proof (recipient wallet name)
	pub fn init_send(&mut self, w: &str, name: &str, a: &Value) -> Value {
		let amt = a["amt"].as_u64().unwrap_or(0) * self.unit + a["amt_raw"].as_u64().unwrap_or(0);
		let proof_addr = match a["proof"].as_str() {
			Some(rw) if !rw.is_empty() => {
				let inst = self.inst(rw);
				let m = self.mask(rw);
				owner::get_slatepack_address(inst, m.as_ref(), 0).ok()
			}
			_ => None,
		};
		let hasproof = proof_addr.is_some();
		let args = InitTxArgs {
			src_acct_name: a["src"].as_str().filter(|s| !s.is_empty()).map(|s| s.to_string()),
			amount: amt,
			amount_includes_fee: a["incfee"].as_bool(),
			minimum_confirmations: a["minconf"].as_u64().unwrap_or(1),
			max_outputs: a["maxouts"].as_u64().unwrap_or(500) as u32,
			num_change_outputs: a["nchange"].as_u64().unwrap_or(1) as u32,
			selection_strategy_is_use_all: a["useall"].as_bool().unwrap_or(false),
			ttl_blocks: a["ttlb"].as_u64().filter(|x| *x > 0),
			late_lock: a["late"].as_bool(),
			payment_proof_recipient_address: proof_addr,
			..Default::default()
		};
		let r = if self.via_api {
			let (api, m) = (self.owner_api(w), self.mask(w));
			guarded(|| api.init_send_tx(m.as_ref(), args))
		} else {
			self.with(w, |wi, mask| owner::init_send_tx(wi, mask, args, false))
		};
		let mut ev = json!({"ev": "init_send", "w": w, "sl": name, "args": a, "res": r.res(), "detail": r.detail(), "hasproof": hasproof});
		if let Outcome::Ok(slate) = r {
			let rec = self.slates.entry(name.to_string()).or_default();
			rec.id = Some(slate.id);
			rec.stage.insert("S1".into(), slate.clone());
			self.record_excess(name, &slate, "part");
			ev["ret"] = json!({"amt": self.val(slate.amount), "fee": self.val(slate.fee_fields.fee()), "ttl": ttlv(slate.ttl_cutoff_height)});
		}
		ev
	}

	pub fn pick(&self, name: &str, stage: &str, rep: usize) -> Option<Slate> {
		let r = self.slates.get(name)?;
		if (stage == "S2" || stage == "I2") && rep >= 1 {
			return r.replies.get(rep - 1).cloned();
		}
		r.stage.get(stage).cloned()
	}

	pub fn lock(&mut self, w: &str, name: &str, stage: &str, rep: usize) -> Value {
		let slate = match self.pick(name, stage, rep) {
			Some(s) => s,
			None => return json!({"ev": "lock", "w": w, "sl": name, "stage": stage, "res": "skip"}),
		};
		let r = if self.via_api {
			let (api, m) = (self.owner_api(w), self.mask(w));
			guarded(|| api.tx_lock_outputs(m.as_ref(), &slate))
		} else {
			self.with(w, |wi, mask| owner::tx_lock_outputs(wi, mask, &slate))
		};
		json!({"ev": "lock", "w": w, "sl": name, "stage": stage, "ttl": ttlv(slate.ttl_cutoff_height),
			"hasproof": slate.payment_proof.is_some(), "res": r.res(), "detail": r.detail()})
	}

	/// deliver slate `name` at `stage` ("S1") to wallet w's foreign receive
	pub fn receive(&mut self, w: &str, name: &str, dest: &str, slate_override: Option<Slate>) -> Value {
		let slate = match slate_override
			.or_else(|| self.slates.get(name).and_then(|r| r.stage.get("S1")).cloned())
		{
			Some(s) => s,
			None => return json!({"ev": "receive", "w": w, "sl": name, "res": "skip"}),
		};
		let d = if dest.is_empty() { None } else { Some(dest.to_string()) };
		let r = if self.via_api {
			// the request as a counter-party sends it: V4 JSON over the foreign listener
			match libwallet::VersionedSlate::into_version(slate.clone(), libwallet::SlateVersion::V4) {
				Err(_) => Outcome::Err("rpc:unencodable".into()),
				Ok(vs) => match self.foreign_rpc(w, "receive_tx", json!([vs, d, Value::Null])) {
					Outcome::Ok(v) => match serde_json::from_value::<libwallet::VersionedSlate>(v) {
						Ok(vs) => Outcome::Ok(Slate::from(vs)),
						Err(_) => Outcome::Err("rpc:reply".into()),
					},
					Outcome::Err(c) => Outcome::Err(c),
					Outcome::Panic(m) => Outcome::Panic(m),
				},
			}
		} else {
			self.with(w, |wi, mask| {
				foreign::receive_tx(wi, mask, &slate, d.as_ref().map(|s| s.as_str()), false)
			})
		};
		let kernin = {
			let secp = util::static_secp_instance();
			let secp = secp.lock();
			if slate.calc_excess(&secp).is_ok() { "part" } else { "" }
		};
		let mut ev = json!({"ev": "receive", "w": w, "sl": name, "dest": dest, "amt": self.val(slate.amount),
			"ttl": ttlv(slate.ttl_cutoff_height), "hasproof": slate.payment_proof.is_some(), "kernin": kernin,
			"res": r.res(), "detail": r.detail()});
		if let Outcome::Ok(s2) = r {
			let only_own = s2.participant_data.len() == 1;
			let rec = self.slates.entry(name.to_string()).or_default();
			rec.stage.insert("S2".into(), s2.clone());
			rec.replies.push(s2.clone());
			let nrep = rec.replies.len();
			self.record_excess(name, &s2, "rpart");
			self.record_full_excess(name);
			ev["rep"] = json!(nrep);
			ev["ret"] = json!({"own_only": only_own, "amt": self.val(s2.amount), "state": format!("{}", s2.state)});
		}
		ev
	}

	pub fn finalize(&mut self, w: &str, name: &str, stage: &str, rep: usize, slate_override: Option<Slate>, foreign_api: bool) -> Value {
		let rep = if rep == 0 { self.slates.get(name).map(|r| r.replies.len()).unwrap_or(0) } else { rep };
		let slate = match slate_override.or_else(|| self.pick(name, stage, rep)) {
			Some(s) => s,
			None => return json!({"ev": "finalize", "w": w, "sl": name, "stage": stage, "res": "skip"}),
		};
		let r = if self.via_api {
			let m = self.mask(w);
			if foreign_api {
				let api = self.foreign_api(w);
				guarded(|| api.finalize_tx(&slate, false))
			} else {
				let api = self.owner_api(w);
				guarded(|| api.finalize_tx(m.as_ref(), &slate))
			}
		} else {
			self.with(w, |wi, mask| {
				if foreign_api {
					foreign::finalize_tx(wi, mask, &slate, false)
				} else {
					owner::finalize_tx(wi, mask, &slate)
				}
			})
		};
		let mut ev = json!({"ev": "finalize", "w": w, "sl": name, "stage": stage, "rep": rep, "ttl": ttlv(slate.ttl_cutoff_height),
			"hasproof": slate.payment_proof.is_some(), "foreign": foreign_api, "res": r.res(), "detail": r.detail()});
		if let Outcome::Ok(s3) = r {
			let tx = s3.tx.clone();
			let mut ret = json!({"state": format!("{}", s3.state)});
			if let Some(tx) = tx {
				ret["valid"] = json!(tx.validate(Weighting::AsTransaction).is_ok());
				// stored copy must be byte-identical
				let stored = self.with(w, |wi, _| wi.get_stored_tx(&format!("{}", s3.id)));
				ret["stored_equal"] = match stored {
					Outcome::Ok(Some(st)) => json!(st == tx),
					_ => json!(false),
				};
				let rec = self.slates.entry(name.to_string()).or_default();
				rec.final_tx = Some(tx);
				let fin = if stage == "I2" { "I3" } else { "S3" };
				rec.stage.insert(fin.into(), s3.clone());
			}
			ev["ret"] = ret;
		}
		ev
	}

	pub fn post(&mut self, name: &str) -> Value {
		let tx = self.slates.get(name).and_then(|r| r.final_tx.clone());
		match tx {
			None => json!({"ev": "post", "sl": name, "res": "skip"}),
			Some(tx) => {
				let r = guarded(|| owner::post_tx(&self.node, &tx, true));
				if let Outcome::Ok(_) = r {
					self.posted.insert(name.to_string());
				}
				json!({"ev": "post", "sl": name, "res": r.res()})
			}
		}
	}

	pub fn cancel(&mut self, w: &str, id: Option<u32>, slate: Option<&str>) -> Value {
		let sid = slate.and_then(|n| self.slates.get(n)).and_then(|r| r.id);
		if slate.is_some() && sid.is_none() {
			return json!({"ev": "cancel", "w": w, "id": -1, "sl": slate.unwrap_or(""), "res": "skip"});
		}
		let inst = self.inst(w);
		let mask = self.mask(w);
		let via = self.via_api;
		let api = self.owner_api(w);
		let r = guarded(|| {
			if via {
				api.cancel_tx(mask.as_ref(), id, sid)
			} else {
				owner::cancel_tx(inst, mask.as_ref(), &None, id, sid)
			}
		});
		json!({"ev": "cancel", "w": w, "id": id.map(|x| x as i64).unwrap_or(-1), "sl": slate.unwrap_or(""),
			"res": r.res(), "detail": r.detail()})
	}

	pub fn create_account(&mut self, w: &str, label: &str) -> Value {
		let r = if self.via_api {
			let (api, m) = (self.owner_api(w), self.mask(w));
			guarded(|| api.create_account_path(m.as_ref(), label))
		} else {
			self.with(w, |wi, mask| owner::create_account_path(wi, mask, label))
		};
		let path = match &r {
			Outcome::Ok(p) => acct_str(p),
			_ => "".into(),
		};
		json!({"ev": "create_account", "w": w, "label": label, "name": path, "res": r.res()})
	}
	pub fn set_active(&mut self, w: &str, label: &str) -> Value {
		let r = if self.via_api {
			let (api, m) = (self.owner_api(w), self.mask(w));
			guarded(|| api.set_active_account(m.as_ref(), label))
		} else {
			self.with(w, |wi, _| owner::set_active_account(wi, label))
		};
		if r.res() == "ok" {
			if let Some(h) = self.wallets.get_mut(w) {
				h.active = label.to_string();
			}
		}
		json!({"ev": "set_active", "w": w, "label": label, "res": r.res()})
	}

	pub fn issue_invoice(&mut self, w: &str, name: &str, a: &Value) -> Value {
		let amt = a["amt"].as_u64().unwrap_or(0) * self.unit;
		let args = IssueInvoiceTxArgs {
			dest_acct_name: a["dest"].as_str().filter(|s| !s.is_empty()).map(|s| s.to_string()),
			amount: amt,
			target_slate_version: None,
		};
		let r = if self.via_api {
			let (api, m) = (self.owner_api(w), self.mask(w));
			guarded(|| api.issue_invoice_tx(m.as_ref(), args))
		} else {
			self.with(w, |wi, mask| owner::issue_invoice_tx(wi, mask, args, false))
		};
		let mut ev = json!({"ev": "issue_invoice", "w": w, "sl": name, "args": a, "res": r.res(), "detail": r.detail()});
		if let Outcome::Ok(slate) = r {
			let rec = self.slates.entry(name.to_string()).or_default();
			rec.id = Some(slate.id);
			rec.stage.insert("I1".into(), slate.clone());
			self.record_excess(name, &slate, "part");
			ev["ret"] = json!({"amt": self.val(slate.amount)});
		}
		ev
	}

	pub fn process_invoice(&mut self, w: &str, name: &str, a: &Value, slate_override: Option<Slate>) -> Value {
		let slate = match slate_override
			.or_else(|| self.slates.get(name).and_then(|r| r.stage.get("I1")).cloned())
		{
			Some(s) => s,
			None => return json!({"ev": "process_invoice", "w": w, "sl": name, "res": "skip"}),
		};
		let args = InitTxArgs {
			src_acct_name: a["src"].as_str().filter(|s| !s.is_empty()).map(|s| s.to_string()),
			amount: slate.amount,
			minimum_confirmations: a["minconf"].as_u64().unwrap_or(1),
			max_outputs: a["maxouts"].as_u64().unwrap_or(500) as u32,
			num_change_outputs: a["nchange"].as_u64().unwrap_or(1) as u32,
			selection_strategy_is_use_all: a["useall"].as_bool().unwrap_or(false),
			ttl_blocks: a["ttlb"].as_u64().filter(|x| *x > 0),
			..Default::default()
		};
		let r = if self.via_api {
			let (api, m) = (self.owner_api(w), self.mask(w));
			guarded(|| api.process_invoice_tx(m.as_ref(), &slate, args))
		} else {
			self.with(w, |wi, mask| owner::process_invoice_tx(wi, mask, &slate, args, false))
		};
		let mut ev = json!({"ev": "process_invoice", "w": w, "sl": name, "args": a, "amt": self.val(slate.amount),
			"ttl": ttlv(slate.ttl_cutoff_height), "res": r.res(), "detail": r.detail()});
		if let Outcome::Ok(s2) = r {
			let rec = self.slates.entry(name.to_string()).or_default();
			rec.stage.insert("I2".into(), s2.clone());
			rec.replies.push(s2.clone());
			let nrep = rec.replies.len();
			self.record_full_excess(name);
			ev["rep"] = json!(nrep);
			ev["ret"] = json!({"ttl": ttlv(s2.ttl_cutoff_height), "fee": self.val(s2.fee_fields.fee())});
		}
		ev
	}

	pub fn build_coinbase(&mut self, w: &str, key: Option<&str>, height: u64, fees: u64) -> Value {
		let key_id = key.and_then(|k| parse_key(k));
		let bf = BlockFees {
			fees,
			key_id: key_id.clone(),
			height,
		};
		let r = if self.via_api {
			match self.foreign_rpc(w, "build_coinbase", json!([bf])) {
				Outcome::Ok(v) => Outcome::Ok(v["key_id"].as_str().and_then(|h| Identifier::from_hex(h).ok())),
				Outcome::Err(c) => Outcome::Err(c),
				Outcome::Panic(m) => Outcome::Panic(m),
			}
		} else {
			self.with(w, |wi, mask| foreign::build_coinbase(wi, mask, &bf, false).map(|cb| cb.key_id))
		};
		let ret = match &r {
			Outcome::Ok(k) => k.as_ref().map(|k| key_str(k, &None)).unwrap_or_default(),
			_ => "".into(),
		};
		json!({"ev": "build_coinbase", "w": w, "key": key.unwrap_or(""), "h": height,
			"fees": self.val(fees), "res": r.res(), "retkey": ret})
	}

	/// owner::get_rewind_hash + owner::scan_rewind_hash: what a view wallet of w's seed is shown
	pub fn view_scan(&mut self, w: &str, start: u64) -> Value {
		let inst = self.inst(w);
		let mask = self.mask(w);
		let r = guarded(|| {
			let rh = owner::get_rewind_hash(inst.clone(), mask.as_ref())?;
			owner::scan_rewind_hash(inst.clone(), rh, Some(start), &None)
		});
		let mut ev = json!({"ev": "view_scan", "w": w, "start": start, "res": r.res(), "detail": r.detail(), "outs": [], "total": 0});
		if let Outcome::Ok(v) = r {
			let mut outs = vec![];
			for o in v.output_result.iter() {
				let name = self.reg.get(&o.commit).cloned().unwrap_or_else(|| format!("?{}", o.commit));
				outs.push(json!({"o": name, "v": self.val(o.value), "h": o.height, "cb": o.is_coinbase, "lk": o.lock_height}));
			}
			ev["outs"] = json!(outs);
			ev["total"] = self.val(v.total_balance);
		}
		ev
	}

	/// owner::build_output: an output built for the caller with the next key of the active account
	pub fn build_output(&mut self, w: &str, amount_units: u64) -> Value {
		let amount = amount_units * self.unit;
		let r = self.with(w, |wi, mask| {
			owner::build_output(wi, mask, core::core::OutputFeatures::Plain, amount)
		});
		let key = match &r {
			Outcome::Ok(b) => key_str(&b.key_id, &None),
			_ => "".into(),
		};
		json!({"ev": "build_output", "w": w, "bkey": key, "res": r.res(), "detail": r.detail()})
	}

	/// owner::create_mwixnet_req for the record stored under `key` (named by its commitment, as the API wants it)
	pub fn mwix_req(&mut self, w: &str, key: &str, lock: bool) -> Value {
		let kid = parse_key(key);
		let unit = self.unit;
		let before = self.with(w, |wi, _| {
			let parent = wi.parent_key_id();
			Ok(wi.current_child_index(&parent).unwrap_or(0))
		});
		let r = self.with(w, |wi, mask| {
			let outs: Vec<OutputData> = wi.iter().collect();
			let target = outs
				.iter()
				.find(|o| Some(&o.key_id) == kid.as_ref())
				.cloned()
				.ok_or_else(|| libwallet::Error::GenericError("no such record".into()))?;
			let commit = match &target.commit {
				Some(c) => Commitment::from_vec(util::from_hex(c).unwrap()),
				None => {
					let k = wi.keychain(mask)?;
					k.commit(target.value, &target.key_id, grin_keychain::SwitchCommitmentType::Regular)?
				}
			};
			let secp = util::static_secp_instance();
			let secp = secp.lock();
			let sk = |b: u8| SecretKey::from_slice(&secp, &[b; 32]).unwrap();
			let params = libwallet::mwixnet::MixnetReqCreationParams {
				server_keys: vec![sk(1), sk(2)],
				fee_per_hop: 25 * unit,
			};
			drop(secp);
			owner::create_mwixnet_req(wi, mask, &params, &commit, lock, false).map(|_| ())
		});
		// the key handed to the swapped output: the active account's index before the call
		let bkey = match (&r, &before) {
			(_, Outcome::Ok(n)) => {
				let act = self.with(w, |wi, _| Ok(wi.parent_key_id()));
				match act {
					Outcome::Ok(p) => format!("{}c{}", acct_str(&p), n),
					_ => "".into(),
				}
			}
			_ => "".into(),
		};
		json!({"ev": "mwix_req", "w": w, "key": key, "lock": lock, "bkey": bkey, "res": r.res(), "detail": r.detail()})
	}

	/// inject a divergence into the wallet's records (what a bug, a restore from an old
	/// backup or an interrupted operation could leave): kind in
	/// delete | spent | unspent | lock | stale
	pub fn diverge(&mut self, w: &str, kind: &str, key: &str) -> Value {
		let kid = parse_key(key);
		let kind_s = kind.to_string();
		let r = self.with(w, |wi, mask| {
			let outs: Vec<OutputData> = wi.iter().collect();
			let target = outs.iter().find(|o| Some(&o.key_id) == kid.as_ref()).cloned();
			let mut batch = wi.batch(mask)?;
			match (kind_s.as_str(), target) {
				("delete", Some(o)) => batch.delete(&o.key_id, &o.mmr_index)?,
				("spent", Some(mut o)) => {
					o.status = OutputStatus::Spent;
					batch.save(o)?
				}
				("unspent", Some(mut o)) => {
					o.status = OutputStatus::Unspent;
					batch.save(o)?
				}
				("lock", Some(mut o)) => {
					o.status = OutputStatus::Locked;
					batch.save(o)?
				}
				_ => return Err(libwallet::Error::GenericError("no such output".into())),
			}
			batch.commit()?;
			Ok(())
		});
		json!({"ev": "diverge", "w": w, "kind": kind, "key": key, "res": r.res()})
	}

	pub fn scan(&mut self, w: &str, start: Option<u64>, del: bool) -> Value {
		let inst = self.inst(w);
		let mask = self.mask(w);
		let via = self.via_api;
		let api = self.owner_api(w);
		let r = guarded(|| {
			if via {
				api.scan(mask.as_ref(), start, del)
			} else {
				owner::scan(inst, mask.as_ref(), start, del, &None)
			}
		});
		json!({"ev": "scan", "w": w, "start": start.map(|x| x as i64).unwrap_or(-1), "del": del,
			"res": r.res(), "detail": r.detail()})
	}
}

/// registries of the world that must travel with a directory snapshot
#[derive(Clone)]
pub struct Regs {
	pub slates: BTreeMap<String, SlateRec>,
	pub reg: BTreeMap<String, String>,
	pub reginfo: BTreeMap<String, Value>,
	pub kern: BTreeMap<String, (String, String)>,
	pub blocks: Vec<(String, Vec<String>)>,
	pub posted: BTreeSet<String>,
	pub nslates: usize,
}
pub struct Snapshot {
	pub dir: String,
	pub regs: Regs,
	pub active: BTreeMap<String, String>,
}

fn copy_dir(from: &std::path::Path, to: &std::path::Path) -> std::io::Result<()> {
	std::fs::create_dir_all(to)?;
	for e in std::fs::read_dir(from)? {
		let e = e?;
		let p = e.path();
		let t = to.join(e.file_name());
		if p.is_dir() {
			copy_dir(&p, &t)?;
		} else {
			std::fs::copy(&p, &t)?;
		}
	}
	Ok(())
}

impl World {
	pub fn regs(&self) -> Regs {
		Regs {
			slates: self.slates.clone(),
			reg: self.reg.clone(),
			reginfo: self.reginfo.clone(),
			kern: self.kern.clone(),
			blocks: self.blocks.clone(),
			posted: self.posted.clone(),
			nslates: self.nslates,
		}
	}
	pub fn set_regs(&mut self, r: &Regs) {
		self.slates = r.slates.clone();
		self.reg = r.reg.clone();
		self.reginfo = r.reginfo.clone();
		self.kern = r.kern.clone();
		self.blocks = r.blocks.clone();
		self.posted = r.posted.clone();
		self.nslates = r.nslates;
	}
	/// drop every wallet instance (what process death does to the open LMDB environment)
	pub fn close_wallets(&mut self) {
		for (_, h) in self.wallets.iter_mut() {
			h.inst = None;
		}
	}
	pub fn reopen_all(&mut self) -> Vec<(String, String)> {
		let names: Vec<String> = self.wallets.keys().cloned().collect();
		names
			.iter()
			.map(|n| {
				let r = self.reopen(n);
				(n.clone(), r.res())
			})
			.collect()
	}
	/// re-open every wallet and select the account that was active before (closing the wallets
	/// to copy their directories is the harness' doing, not a restart of the wallet under test)
	pub fn reopen_all_keep(&mut self, active: &BTreeMap<String, String>) {
		self.reopen_all();
		for (n, a) in active.iter() {
			if a != "default" && self.wallets.get(n).map(|h| h.inst.is_some()).unwrap_or(false) {
				let _ = self.set_active(n, a);
			}
		}
	}
	pub fn actives(&self) -> BTreeMap<String, String> {
		self.wallets.iter().map(|(n, h)| (n.clone(), h.active.clone())).collect()
	}
	/// copy of every wallet directory (wallets closed while copying) + registries
	pub fn snapshot(&mut self, tag: &str) -> Snapshot {
		let act = self.actives();
		self.close_wallets();
		let sdir = format!("{}/snap_{}", self.dir, tag);
		let _ = std::fs::remove_dir_all(&sdir);
		for (n, h) in self.wallets.iter() {
			copy_dir(std::path::Path::new(&h.dir), &std::path::Path::new(&sdir).join(n)).unwrap();
		}
		self.reopen_all_keep(&act);
		Snapshot {
			dir: sdir,
			regs: self.regs(),
			active: act,
		}
	}
	pub fn restore(&mut self, snap: &Snapshot) {
		self.close_wallets();
		for (n, h) in self.wallets.iter() {
			let _ = std::fs::remove_dir_all(&h.dir);
			copy_dir(&std::path::Path::new(&snap.dir).join(n), std::path::Path::new(&h.dir)).unwrap();
		}
		self.set_regs(&snap.regs);
		let act = snap.active.clone();
		self.reopen_all_keep(&act);
	}
}

pub fn parse_key(k: &str) -> Option<Identifier> {
	// "a<acct>c<child>[m]"
	let k = k.trim_end_matches('m');
	let rest = k.strip_prefix('a')?;
	let mut it = rest.split('c');
	let a: u32 = it.next()?.parse().ok()?;
	let c: u32 = it.next()?.parse().ok()?;
	Some(ExtKeychain::derive_key_id(3, a, 0, c, 0))
}

pub fn ctx_json(c: &libwallet::Context, unit: u64) -> Value {
	let v = |x: u64| -> Value { json!(std::cmp::min(x / unit, (1u64 << 31) - 1)) };
	let ins: Vec<String> = c.input_ids.iter().map(|(k, m, _)| key_str(k, m)).collect();
	let outs: Vec<Value> = c
		.output_ids
		.iter()
		.map(|(k, m, val)| json!({"k": key_str(k, m), "v": v(*val)}))
		.collect();
	let late = match &c.late_lock_args {
		None => json!({"on": false, "minconf": 0, "maxouts": 0, "nchange": 0, "useall": false}),
		Some(a) => json!({"on": true, "minconf": a.minimum_confirmations, "maxouts": a.max_outputs,
			"nchange": a.num_change_outputs, "useall": a.selection_strategy_is_use_all}),
	};
	let invals: Vec<Value> = c.input_ids.iter().map(|(_, _, val)| v(*val)).collect();
	json!({
		"acct": acct_str(&c.parent_key_id), "ins": ins, "invals": invals, "outs": outs, "amt": v(c.amount),
		"fee": c.fee.map(|f| v(f.fee())).unwrap_or(json!(-1)),
		"late": late, "pidx": c.payment_proof_derivation_index.map(|x| x as i64).unwrap_or(-1),
		"calc": c.calculated_excess.map(|e| e.0.to_vec().to_hex()).unwrap_or_default(),
	})
}

/// "final" if the stored tx parses and its kernel signature verifies, "part" if it
/// parses, "corrupt" otherwise (never panics: does its own parsing)
pub fn classify_stored_tx(content: &str) -> String {
	let bin = match util::from_hex(content) {
		Ok(b) => b,
		Err(_) => return "corrupt".into(),
	};
	let tx: Result<Transaction, _> = core::ser::deserialize(
		&mut &bin[..],
		core::ser::ProtocolVersion(1),
		core::ser::DeserializationMode::default(),
	);
	match tx {
		Err(_) => "corrupt".into(),
		Ok(tx) => {
			if !tx.kernels().is_empty() && tx.kernels().iter().all(|k| k.verify().is_ok()) {
				"final".into()
			} else {
				"part".into()
			}
		}
	}
}

/// helper for slate state comparisons in drivers
pub fn is_s2(s: &Slate) -> bool {
	s.state == SlateState::Standard2
}
