//! verification harness library: real wallets over a real chain, projected
//! into the vocabulary of the TLA+ specification (spec/Wallet.tla)
pub use grin_wallet_libwallet as libwallet;
pub mod node;
pub mod world;
pub mod driver;
pub mod crash;
