//! verification harness library
