//! Replays abstract behaviours (sequences of events as emitted by TLC from the
//! `hist` variable of the MC specs, or produced by random drivers) on real
//! wallets and records one ndjson line per step: the event, its result, and
//! the projected abstract state after it.
use crate::world::{World, U};
use serde_json::{json, Value};
use std::sync::atomic::{AtomicUsize, Ordering};
use std::sync::{Arc, Mutex};

pub fn tmp_root() -> String {
	let base = std::env::var("VERIF_TMP").unwrap_or_else(|_| {
		let exe = std::env::current_exe().unwrap();
		// harness/target/debug/<bin> -> harness/target/tmp
		let t = exe.parent().unwrap().parent().unwrap().join("tmp");
		t.to_string_lossy().to_string()
	});
	format!("{}/{}", base, std::process::id())
}

/// standard funded start: `nfund` coinbases to w1, then `pad` foreign blocks,
/// then a refresh of both wallets
pub fn setup_world(dir: &str, setup: &Value) -> World {
	let mut w = World::new(dir, U);
	w.via_api = setup["api"].as_bool().unwrap_or(false);
	w.create_wallet("w1", setup["masked"].as_bool().unwrap_or(false), None);
	w.create_wallet("w2", false, None);
	let nfund = setup["nfund"].as_u64().unwrap_or(2);
	let pad = setup["pad"].as_u64().unwrap_or(3);
	for _ in 0..nfund {
		w.mine(Some("w1"), &[]);
	}
	// a second funded account on w1 (model constant FundAcct2)
	let fund2 = setup["fund2"].as_bool().unwrap_or(false);
	if fund2 {
		w.create_account("w1", "acct1");
		w.set_active("w1", "acct1");
		for _ in 0..nfund {
			w.mine(Some("w1"), &[]);
		}
		w.set_active("w1", "default");
	}
	for _ in 0..pad {
		w.mine(None, &[]);
	}
	w.refresh("w1", 1);
	if fund2 {
		w.set_active("w1", "acct1");
		w.refresh("w1", 1);
		w.set_active("w1", "default");
	}
	// (norefresh2: the peer has never looked at the chain - its observed height is still 0)
	if !setup["norefresh2"].as_bool().unwrap_or(false) {
		w.refresh("w2", 1);
	}
	w
}

pub fn strs(v: &Value) -> Vec<String> {
	v.as_array()
		.map(|a| a.iter().filter_map(|x| x.as_str().map(|s| s.to_string())).collect())
		.unwrap_or_default()
}

/// execute one abstract event
pub fn step(w: &mut World, e: &Value) -> Value {
	let ev = e["ev"].as_str().unwrap_or("");
	let wn = e["w"].as_str().unwrap_or("w1").to_string();
	let sl = e["sl"].as_str().unwrap_or("").to_string();
	match ev {
		"init_send" => {
			let mut a = e.clone();
			if a.get("args").is_some() {
				a = a["args"].clone();
			}
			w.init_send(&wn, &sl, &a)
		}
		"lock" => w.lock(&wn, &sl, e["stage"].as_str().unwrap_or("S1"), e["rep"].as_u64().unwrap_or(0) as usize),
		"receive" => {
			let tamper = e["tamper"].as_str().unwrap_or("");
			if tamper == "feat1" {
				// the S1 slate asking for the kernel features of a coinbase: cannot be served
				let s = w.pick(&sl, "S1", 0).map(|mut s| {
					s.kernel_features = 1;
					s
				});
				if s.is_none() {
					return json!({"ev": "receive", "w": wn, "sl": sl, "res": "skip"});
				}
				let mut r = w.receive(&wn, &sl, e["dest"].as_str().unwrap_or(""), s);
				r["tamper"] = json!("feat1");
				r
			} else if tamper == "ttl_max" {
				// the slate as delivered claims the largest cut-off height there is: never a reason to refuse
				let s = w.pick(&sl, "S1", 0).map(|mut s| {
					s.ttl_cutoff_height = u64::MAX;
					s
				});
				if s.is_none() {
					return json!({"ev": "receive", "w": wn, "sl": sl, "res": "skip"});
				}
				let mut r = w.receive(&wn, &sl, e["dest"].as_str().unwrap_or(""), s);
				r["tamper"] = json!("ttl_max");
				r
			} else {
				w.receive(&wn, &sl, e["dest"].as_str().unwrap_or(""), None)
			}
		}
		"finalize" => {
			let tamper = e["tamper"].as_str().unwrap_or("");
			if tamper == "bogus" || tamper == "bogus_expired" {
				// the initiator's own S1 slate relabelled as a reply
				// (bogus_expired: and claiming a cut-off height that has long passed)
				let s = w.pick(&sl, "S1", 0).map(|mut s| {
					s.state = crate::libwallet::SlateState::Standard2;
					if tamper == "bogus_expired" {
						s.ttl_cutoff_height = 1;
					}
					s
				});
				let mut r = w.finalize(&wn, &sl, "S2", 0, s, e["foreign"].as_bool().unwrap_or(true));
				r["tamper"] = json!(tamper);
				r
			} else if tamper == "nosig" {
				// the genuine reply with the counter-party's partial signature removed
				let rep = e["rep"].as_u64().unwrap_or(0) as usize;
				let s = w.pick(&sl, "S2", rep).map(|mut s| {
					for p in s.participant_data.iter_mut() {
						p.part_sig = None;
					}
					s
				});
				let mut r = w.finalize(&wn, &sl, "S2", rep, s, e["foreign"].as_bool().unwrap_or(true));
				r["tamper"] = json!(tamper);
				r
			} else {
				w.finalize(
					&wn,
					&sl,
					e["stage"].as_str().unwrap_or("S2"),
					e["rep"].as_u64().unwrap_or(0) as usize,
					None,
					e["foreign"].as_bool().unwrap_or(false),
				)
			}
		}
		"post" => w.post(&sl),
		"mine" => {
			let to = e["to"].as_str().filter(|s| !s.is_empty()).map(|s| s.to_string());
			w.cb_key = e["key"].as_str().filter(|s| !s.is_empty()).map(|s| s.to_string());
			let r = w.mine(to.as_ref().map(|s| s.as_str()), &strs(&e["txs"]));
			w.cb_key = None;
			r
		}
		"refresh" => w.refresh(&wn, e["minconf"].as_u64().unwrap_or(1)),
		"cancel" => {
			let id = e["id"].as_i64().filter(|x| *x >= 0).map(|x| x as u32);
			let by = e["by"].as_str().filter(|s| !s.is_empty());
			let mut r = w.cancel(&wn, id, by);
			r["raw"] = json!(e["raw"].as_bool().unwrap_or(false));
			r
		}
		"create_account" => w.create_account(&wn, e["label"].as_str().unwrap_or("acct")),
		"set_active" => w.set_active(&wn, e["label"].as_str().unwrap_or("default")),
		"issue_invoice" => {
			let mut a = e.clone();
			if a.get("args").is_some() {
				a = a["args"].clone();
			}
			w.issue_invoice(&wn, &sl, &a)
		}
		"process_invoice" => {
			let mut a = e.clone();
			if a.get("args").is_some() {
				a = a["args"].clone();
			}
			let ov = if e["tamper"] == "ttl_past" {
				// the invoice as delivered claims a cut-off height that has long passed
				w.pick(&sl, "I1", 0).map(|mut s| {
					s.ttl_cutoff_height = 1;
					s
				})
			} else {
				None
			};
			w.process_invoice(&wn, &sl, &a, ov)
		}
		"build_coinbase" => w.build_coinbase(
			&wn,
			e["key"].as_str().filter(|s| !s.is_empty()),
			e["h"].as_u64().unwrap_or(1),
			e["fees"].as_u64().unwrap_or(0) * w.unit,
		),
		"view_scan" => w.view_scan(&wn, e["start"].as_u64().unwrap_or(1)),
		"build_output" => w.build_output(&wn, e["amt"].as_u64().unwrap_or(7)),
		"mwix_req" => w.mwix_req(&wn, e["key"].as_str().unwrap_or(""), e["lock"].as_bool().unwrap_or(false)),
		"scan" => w.scan(&wn, e["start"].as_i64().filter(|x| *x >= 0).map(|x| x as u64), e["del"].as_bool().unwrap_or(false)),
		"fork" => w.fork(e["depth"].as_u64().unwrap_or(1), &strs(&e["keep"])),
		"diverge" => w.diverge(&wn, e["kind"].as_str().unwrap_or(""), e["key"].as_str().unwrap_or("")),
		"restore" => {
			// a new wallet `w` from the recovery phrase of `from`
			let from = e["from"].as_str().unwrap_or("w1").to_string();
			if w.wallets.contains_key(&wn) {
				json!({"ev": "restore", "w": wn, "from": from, "res": "skip"})
			} else {
				w.create_wallet(&wn, false, Some(&from));
				json!({"ev": "restore", "w": wn, "from": from, "res": "ok"})
			}
		}
		"node_down" => w.node_up(false),
		"node_up" => w.node_up(true),
		"reopen" => {
			let r = w.reopen(&wn);
			json!({"ev": "reopen", "w": wn, "res": r.res()})
		}
		_ => json!({"ev": ev, "res": "unknown-event"}),
	}
}

/// run one behaviour in a fresh world; returns ndjson lines
/// a behaviour may start with {"ev": "setup", ..}: its fields override the run's setup
/// (behaviours generated from model configurations with different initial worlds)
pub fn own_setup(setup: &Value, beh: &[Value]) -> (Value, usize) {
	match beh.first() {
		Some(f) if f["ev"] == "setup" => {
			let mut s = setup.clone();
			if let (Some(m), Some(o)) = (s.as_object_mut(), f.as_object()) {
				for (k, v) in o.iter() {
					if k != "ev" && k != "eff" {
						m.insert(k.clone(), v.clone());
					}
				}
			}
			(s, 1)
		}
		_ => (setup.clone(), 0),
	}
}

pub fn run_behaviour(dir: &str, setup: &Value, beh: &[Value], bid: usize) -> Vec<String> {
	let mut out = vec![];
	let (setup, skip) = own_setup(setup, beh);
	let setup = &setup;
	let beh = &beh[skip..];
	let mut w = setup_world(dir, setup);
	let obs = w.obs();
	out.push(json!({"ev": "reset", "b": bid, "setup": setup, "res": "ok", "obs": obs}).to_string());
	for e in beh {
		if e["ev"] == "cancel" && !e["raw"].as_bool().unwrap_or(false) {
			// (raw: the cancel is called as an API user calls it, with NO refresh of ours before it - what the
			// wallet's own refresh inside cancel_tx finds is then part of the step)
			// owner::cancel_tx refreshes first; make that refresh observable on its own so
			// that the rollback can be judged against the state right before the cancel batch
			let wn = e["w"].as_str().unwrap_or("w1").to_string();
			let mut r = w.refresh(&wn, 1);
			r["auto"] = json!(true);
			r["b"] = json!(bid);
			r["obs"] = w.obs();
			out.push(r.to_string());
		}
		if e["ev"] == "scan" || (e["ev"] == "refresh" && setup["fault_refresh"].as_bool().unwrap_or(false)) {
			// a node that fails exactly one call during a scan / refresh: the same operation is
			// first run with its k-th node call failing, for k = 1..fault_scans, then healthy
			let k_max = setup["fault_scans"].as_u64().unwrap_or(0);
			for k in 1..=k_max {
				w.node.arm_failure(k);
				let mut r = step(&mut w, e);
				w.node.arm_failure(0);
				r["ev"] = json!(format!("faulty_{}", e["ev"].as_str().unwrap_or("")));
				r["failcall"] = json!(k);
				r["b"] = json!(bid);
				r["obs"] = w.obs();
				out.push(r.to_string());
			}
		}
		let mut r = step(&mut w, e);
		r["b"] = json!(bid);
		r["obs"] = w.obs();
		out.push(r.to_string());
	}
	drop(w);
	let _ = std::fs::remove_dir_all(dir);
	out
}

/// run all behaviours on `jobs` threads; output in behaviour order
pub fn run_all(setup: &Value, behs: &[Vec<Value>], jobs: usize) -> Vec<String> {
	let root = tmp_root();
	let next = Arc::new(AtomicUsize::new(0));
	let results: Arc<Mutex<Vec<Option<Vec<String>>>>> = Arc::new(Mutex::new(vec![None; behs.len()]));
	let behs = Arc::new(behs.to_vec());
	let mut handles = vec![];
	for j in 0..jobs.max(1) {
		let next = next.clone();
		let results = results.clone();
		let behs = behs.clone();
		let setup = setup.clone();
		let root = root.clone();
		handles.push(
			std::thread::Builder::new()
				.stack_size(64 << 20)
				.spawn(move || loop {
					let i = next.fetch_add(1, Ordering::SeqCst);
					if i >= behs.len() {
						break;
					}
					let dir = format!("{}/j{}_b{}", root, j, i);
					let lines = match std::panic::catch_unwind(std::panic::AssertUnwindSafe(|| {
						run_behaviour(&dir, &setup, &behs[i], i)
					})) {
						Ok(l) => l,
						Err(p) => vec![json!({"ev": "harness_panic", "b": i, "res": "panic",
							"detail": crate::world::panic_msg(&p)})
						.to_string()],
					};
					results.lock().unwrap()[i] = Some(lines);
				})
				.unwrap(),
		);
	}
	for h in handles {
		let _ = h.join();
	}
	let _ = std::fs::remove_dir_all(&root);
	let mut out = vec![];
	for r in results.lock().unwrap().iter_mut() {
		if let Some(l) = r.take() {
			out.extend(l);
		}
	}
	out
}
