//! replay_envelope --in cases.json --out events.ndjson [--jobs N]
//!
//! Executes the stimulus TLC generated from spec/MCEnvelope.tla (property C10)
//! on the REAL slatepack code of /repo and records what happened.  This
//! program never judges: it packs, opens, edits and decodes, and writes facts
//! (who could open, was the opened slate/sender the original, which needles
//! are visible in which encoded form, what did each edit decode to).  TLC
//! judges them under spec/TraceEnvelope.tla.
//!
//! cases.json:
//!   { "seed": n,
//!     "keys":  { "k1": {"w": "w1", "idx": 0}, ... },      (KeyHome of the spec)
//!     "extra_wrong": n,                                    (extra wrong keys per encrypted case)
//!     "cases": [ { "id": "c1", "s": "s1", "snd": "k1"|"none", "R": ["k1",..],
//!                  "openers": [["k1"], ["k1","k2"], [] ...],
//!                  "armor": "none" | "all" | {"n": 200} | {"list": [{"k":"sub","pos":3,"ch":"x"}]},
//!                  "bin":   same } ] }
mod edits;

use edits::{BinLayout, JsonLayout, TextLayout};
use grin_wallet_util::byte_ser;
use serde_json::{json, Map, Value};
use std::collections::{BTreeMap, HashSet};
use std::convert::TryFrom;
use std::io::Write;
use std::panic::{catch_unwind, AssertUnwindSafe};
use std::sync::atomic::{AtomicUsize, Ordering};
use std::sync::{Arc, Mutex};
use vharness::driver;
use vharness::libwallet::api_impl::owner;
use vharness::libwallet::{
	self, Slate, SlateVersion, Slatepack, SlatepackAddress, SlatepackBin, Slatepacker, SlatepackerArgs,
	VersionedBinSlate, VersionedSlate,
};
use grin_util::{ToHex, ZeroingString};
use grin_wallet_impls::DefaultWalletImpl;
use vharness::libwallet::WalletInst;
use vharness::node::DirectNode;
use vharness::world::{err_class, panic_msg, set_thread_globals, WalletH, World, LC, U, W};

type Mask = Option<grin_util::secp::key::SecretKey>;

/// the V4 binary encoding of a slate: what the slatepack payload carries
fn slate_bin(s: &Slate) -> Option<Vec<u8>> {
	let v = VersionedSlate::into_version(s.clone(), SlateVersion::V4).ok()?;
	let b = VersionedBinSlate::try_from(v).ok()?;
	byte_ser::to_bytes(&b).ok()
}
fn slate_json(s: &Slate) -> String {
	VersionedSlate::into_version(s.clone(), SlateVersion::V4)
		.ok()
		.and_then(|v| serde_json::to_string(&v).ok())
		.unwrap_or_default()
}

/// result of an attempt to obtain a slate from some bytes
pub struct Opened {
	pub res: String,    // ok | err:<class> | panic
	pub detail: String, // panic message / error class
	pub bin: Option<Vec<u8>>,
	pub json: String,
}
pub fn run_open<F: FnOnce() -> Result<Slate, libwallet::Error>>(f: F) -> Opened {
	match catch_unwind(AssertUnwindSafe(f)) {
		Ok(Ok(s)) => Opened { res: "ok".into(), detail: "".into(), bin: slate_bin(&s), json: slate_json(&s) },
		Ok(Err(e)) => {
			let c = err_class(&e);
			Opened { res: format!("err:{}", c), detail: c, bin: None, json: String::new() }
		}
		Err(p) => Opened { res: "panic".into(), detail: panic_msg(&p), bin: None, json: String::new() },
	}
}

#[derive(Clone)]
pub struct KeyInfo {
	pub name: String,
	pub wallet: String,
	pub idx: u32,
	pub addr: SlatepackAddress,
	pub addr_str: String,
	pub pk: Vec<u8>,
}

/// which needles are visible in a haystack (facts for ClearAtoms)
fn scan(hay: &[u8], needle_bin: &[u8], snd: Option<&KeyInfo>, uuid: &str) -> Value {
	let mut set: HashSet<&[u8]> = HashSet::new();
	if hay.len() >= 16 {
		for i in 0..=hay.len() - 16 {
			set.insert(&hay[i..i + 16]);
		}
	}
	let mut win = 0usize;
	let mut first = -1i64;
	if needle_bin.len() >= 16 {
		for i in 0..=needle_bin.len() - 16 {
			if set.contains(&needle_bin[i..i + 16]) {
				win += 1;
				if first < 0 {
					first = i as i64;
				}
			}
		}
	}
	let contains = |n: &[u8]| !n.is_empty() && hay.windows(n.len()).any(|w| w == n);
	let (s_str, s_pk) = match snd {
		Some(k) => (contains(k.addr_str.as_bytes()), contains(&k.pk)),
		None => (false, false),
	};
	json!({"len": hay.len(), "win": win, "first": first, "uuid": contains(uuid.as_bytes()),
		"snd_str": s_str, "snd_pk": s_pk})
}

/// the harness's own, independent reading of an armored text: strip frame and
/// whitespace, base58-decode (its own bs58), drop the 4 check bytes
fn own_dearmor(msg: &str) -> Option<Vec<u8>> {
	let a = msg.find('.')?;
	let rest = &msg[a + 1..];
	let b = rest.find('.')?;
	let clean: String = rest[..b].chars().filter(|c| !" \n\r\t>".contains(*c)).collect();
	let v = bs58::decode(clean.as_bytes()).into_vec().ok()?;
	if v.len() < 4 {
		return None;
	}
	Some(v[4..].to_vec())
}

struct Ctx {
	world: World,
	keys: BTreeMap<String, KeyInfo>,
	slates: BTreeMap<String, Slate>,
}

fn key_info(w: &World, name: &str, wallet: &str, idx: u32) -> KeyInfo {
	let addr = owner::get_slatepack_address(w.inst(wallet), w.mask(wallet).as_ref(), idx).expect("address");
	let addr_str = String::try_from(&addr).expect("addr str");
	KeyInfo { name: name.into(), wallet: wallet.into(), idx, pk: addr.pub_key.to_bytes().to_vec(), addr, addr_str }
}

/// a wallet whose seed is a function of (VERIF_SEED, name): the keys of a run can be
/// re-derived when a finding is replayed (world.rs::create_wallet only makes random seeds)
fn create_wallet_det(w: &mut World, name: &str, seed: u64) {
	use sha2::{Digest, Sha256};
	let mut h = Sha256::new();
	h.update(format!("verif-C10/{}/{}", seed, name).as_bytes());
	let ent = h.finalize();
	let phrase = grin_keychain::mnemonic::from_entropy(&ent[..]).expect("mnemonic");
	let wdir = format!("{}/{}", w.dir, name);
	let mut wallet = Box::new(DefaultWalletImpl::<DirectNode>::new(w.node.clone()).unwrap())
		as Box<dyn WalletInst<'static, LC, DirectNode, grin_keychain::ExtKeychain>>;
	let mask = {
		let lc = wallet.lc_provider().unwrap();
		lc.set_top_level_directory(&wdir).unwrap();
		lc.create_wallet(None, Some(ZeroingString::from(phrase.as_str())), 32, ZeroingString::from(""), false).unwrap();
		lc.open_wallet(None, ZeroingString::from(""), false, false).unwrap()
	};
	w.wallets.insert(
		name.to_string(),
		WalletH { name: name.to_string(), dir: wdir, inst: Some(Arc::new(grin_util::Mutex::new(wallet))), mask, masked: false,
			password: "".into(), seed: name.to_string(), phrase, active: "default".into() },
	);
}

fn setup(dir: &str, inp: &Value) -> Ctx {
	let seed = inp["seed"].as_u64().unwrap_or(1);
	let mut w = World::new(dir, U);
	for n in ["w1", "w2", "w3"].iter() {
		create_wallet_det(&mut w, n, seed);
	}
	for _ in 0..2 { w.mine(Some("w1"), &[]); }
	for _ in 0..3 { w.mine(None, &[]); }
	w.refresh("w1", 1);
	w.refresh("w2", 1);
	// three real slates: the stages of one real transaction
	let r1 = w.init_send("w1", "t1", &json!({"amt": 1000}));
	let rl = w.lock("w1", "t1", "S1", 0);
	let r2 = w.receive("w2", "t1", "", None);
	let r3 = w.finalize("w1", "t1", "S2", 0, None, false);
	for r in [&r1, &rl, &r2, &r3].iter() {
		if r["res"] != "ok" {
			panic!("setup transaction failed: {}", r);
		}
	}
	let mut slates = BTreeMap::new();
	let rec = w.slates.get("t1").expect("slate rec").clone();
	slates.insert("s1".to_string(), rec.stage["S1"].clone());
	slates.insert("s2".to_string(), rec.stage["S2"].clone());
	slates.insert("s3".to_string(), rec.stage["S3"].clone());
	let mut keys = BTreeMap::new();
	if let Some(m) = inp["keys"].as_object() {
		for (n, v) in m {
			let wn = v["w"].as_str().unwrap_or("w1");
			let idx = v["idx"].as_u64().unwrap_or(0) as u32;
			keys.insert(n.clone(), key_info(&w, n, wn, idx));
		}
	}
	Ctx { world: w, keys, slates }
}

fn key_name_of(ctx: &Ctx, a: &Option<SlatepackAddress>) -> String {
	match a {
		None => "none".into(),
		Some(a) => {
			for k in ctx.keys.values() {
				if &k.addr == a {
					return k.name.clone();
				}
			}
			"other".into()
		}
	}
}

fn guarded_sp<F: FnOnce() -> Result<Slatepack, libwallet::Error>>(f: F) -> (String, Option<Slatepack>) {
	match catch_unwind(AssertUnwindSafe(f)) {
		Ok(Ok(s)) => ("ok".into(), Some(s)),
		Ok(Err(e)) => (format!("err:{}", err_class(&e)), None),
		Err(_) => ("panic".into(), None),
	}
}

/// one edit task for the pool
struct Task {
	sweep: usize,
	case: String,
	form: &'static str, // "armor" | "bin" | "json"
	enc: bool,
	msg: Arc<Vec<u8>>,
	positions: Vec<usize>,
	explicit: Vec<edits::Edit>,
	inst: W,
	mask: Mask,
	idx: Vec<u32>,
	dec_key: Option<[u8; 32]>,
	orig_bin: Arc<Vec<u8>>,
	deep: bool,
	seed: u64,
	/// encrypted armored edits: every api_every-th edit goes through the owner API (which
	/// takes the wallet lock and clones the keychain, ~8 ms, serial); the others go to the
	/// packer with the same key (what the owner function calls after fetching the key)
	api_every: usize,
}

fn run_task(t: &Task) -> BTreeMap<String, edits::Agg> {
	set_thread_globals(U);
	let mut agg: BTreeMap<String, edits::Agg> = BTreeMap::new();
	let decode_text = |bytes: &[u8]| -> Opened {
		match String::from_utf8(bytes.to_vec()) {
			Ok(s) => {
				let inst = t.inst.clone();
				let mask = t.mask.clone();
				let idx = t.idx.clone();
				run_open(move || owner::slate_from_slatepack_message(inst, mask.as_ref(), s, idx))
			}
			// the owner API takes a String: a non-UTF-8 edit cannot be delivered through it;
			// deliver the bytes to the packer instead
			Err(_) => decode_bin(t, bytes),
		}
	};
	if t.form == "armor" {
		let lay = TextLayout::of(&t.msg);
		let list = if t.explicit.is_empty() { edits::text_edits(&t.msg, &t.positions, t.deep, t.seed) } else { t.explicit.clone() };
		for (i, e) in list.into_iter().enumerate() {
			let edited = e.apply(&t.msg);
			let lbl = lay.label(&t.msg, &e);
			let via_api = !t.enc || t.api_every <= 1 || i % t.api_every == 0;
			let o = if via_api { decode_text(&edited) } else { decode_bin(t, &edited) };
			edits::record(&mut agg, lbl, &e, &t.msg, &o, &t.orig_bin, via_api, t.sweep);
		}
	} else if t.form == "json" {
		let lay = JsonLayout::of(&t.msg);
		let list = if t.explicit.is_empty() { edits::json_edits(&t.msg, &t.positions, t.deep, t.seed) } else { t.explicit.clone() };
		for e in list {
			let edited = e.apply(&t.msg);
			let lbl = lay.label(&t.msg, &e);
			let o = decode_bin(t, &edited);
			edits::record(&mut agg, lbl, &e, &t.msg, &o, &t.orig_bin, false, t.sweep);
		}
	} else {
		let lay = BinLayout::of(&t.msg);
		let list = if t.explicit.is_empty() { edits::bin_edits(&t.msg, &t.positions, &lay, t.deep, t.seed) } else { t.explicit.clone() };
		for e in list {
			let edited = e.apply(&t.msg);
			let lbl = lay.label(&t.msg, &e);
			let o = decode_bin(t, &edited);
			edits::record(&mut agg, lbl, &e, &t.msg, &o, &t.orig_bin, false, t.sweep);
		}
	}
	agg
}

fn decode_bin(t: &Task, bytes: &[u8]) -> Opened {
	let dk = t.dec_key.and_then(|b| ed25519_dalek::SecretKey::from_bytes(&b).ok());
	let data = bytes.to_vec();
	run_open(move || {
		let packer = Slatepacker::new(SlatepackerArgs { sender: None, recipients: vec![], dec_key: dk.as_ref() });
		let sp = packer.deser_slatepack(&data, true)?;
		packer.get_slate(&sp)
	})
}

fn positions_for(spec: &Value, len: usize, fixed: &[usize], seed: u64) -> (Vec<usize>, bool) {
	// returns positions and whether this is the complete set
	if spec == "all" || spec["all"].as_bool().unwrap_or(false) {
		return ((0..len).collect(), true);
	}
	let n = spec["n"].as_u64().unwrap_or(0) as usize;
	let mut set: std::collections::BTreeSet<usize> = fixed.iter().cloned().filter(|p| *p < len).collect();
	let mut rng = edits::Rng::new(seed);
	let mut guard = 0;
	while set.len() < fixed.len() + n && set.len() < len && guard < 100 * (n + 1) {
		set.insert(rng.below(len as u64) as usize);
		guard += 1;
	}
	(set.into_iter().collect(), false)
}

fn main() {
	let args: Vec<String> = std::env::args().collect();
	let (mut inp, mut out, mut jobs) = (String::new(), String::new(), 12usize);
	let mut i = 1;
	while i < args.len() {
		match args[i].as_str() {
			"--in" => { inp = args[i + 1].clone(); i += 1; }
			"--out" => { out = args[i + 1].clone(); i += 1; }
			"--jobs" => { jobs = args[i + 1].parse().unwrap(); i += 1; }
			_ => {}
		}
		i += 1;
	}
	let v: Value = serde_json::from_str(&std::fs::read_to_string(&inp).expect("read input")).expect("json");
	let seed = v["seed"].as_u64().unwrap_or(1);
	let dir = format!("{}/env", driver::tmp_root());
	let ctx = setup(&dir, &v);
	// from here on a panic of the code under test is data; keep the harness's own visible
	std::panic::set_hook(Box::new(|i| {
		if std::env::var("VERIF_SHOW_PANICS").is_ok() { eprintln!("panic: {}", i); }
	}));
	let mut lines: Vec<String> = vec![];

	// ---- keys
	{
		let mut m = Map::new();
		for k in ctx.keys.values() {
			m.insert(k.name.clone(), json!({"w": k.wallet, "idx": k.idx, "addr": k.addr_str}));
		}
		let mut sl = Map::new();
		for (n, s) in ctx.slates.iter() {
			sl.insert(n.clone(), json!({"state": format!("{}", s.state), "binlen": slate_bin(s).map(|b| b.len()).unwrap_or(0)}));
		}
		lines.push(json!({"ev": "keys", "c": "", "keys": Value::Object(m), "slates": Value::Object(sl)}).to_string());
	}

	let mut tasks: Vec<Task> = vec![];
	let mut key_cache: BTreeMap<(String, u32), Option<[u8; 32]>> = BTreeMap::new();
	let mut nsweeps = 0usize;
	let mut rng = edits::Rng::new(seed.wrapping_mul(0x9E37_79B9).wrapping_add(7));
	let extra_wrong = v["extra_wrong"].as_u64().unwrap_or(0) as usize;
	let empty = vec![];
	for c in v["cases"].as_array().unwrap_or(&empty) {
		let cid = c["id"].as_str().unwrap_or("").to_string();
		let sname = c["s"].as_str().unwrap_or("s1").to_string();
		let slate = ctx.slates[&sname].clone();
		let orig_bin = Arc::new(slate_bin(&slate).expect("slate bin"));
		let orig_json = slate_json(&slate);
		let uuid = format!("{}", slate.id);
		let snd_name = c["snd"].as_str().unwrap_or("none").to_string();
		let snd = ctx.keys.get(&snd_name).cloned();
		let rnames: Vec<String> = driver::strs(&c["R"]);
		let recips: Vec<SlatepackAddress> = rnames.iter().map(|n| ctx.keys[n].addr.clone()).collect();
		let enc = !recips.is_empty();
		let pack_w = snd.as_ref().map(|k| k.wallet.clone()).unwrap_or("w1".to_string());

		// ---- pack through the owner API (armored message)
		let (pres, msg) = {
			let inst = ctx.world.inst(&pack_w);
			let mask = ctx.world.mask(&pack_w);
			let sidx = snd.as_ref().map(|k| k.idx);
			let sl = slate.clone();
			let rc = recips.clone();
			match catch_unwind(AssertUnwindSafe(move || owner::create_slatepack_message(inst, mask.as_ref(), &sl, sidx, rc))) {
				Ok(Ok(m)) => ("ok".to_string(), Some(m)),
				Ok(Err(e)) => (format!("err:{}", err_class(&e)), None),
				Err(_) => ("panic".to_string(), None),
			}
		};
		// ---- the other encoded forms, through the packer (what PathToSlatepack::put_tx writes)
		let packer = Slatepacker::new(SlatepackerArgs { sender: snd.as_ref().map(|k| k.addr.clone()), recipients: recips.clone(), dec_key: None });
		let (sres, sp) = guarded_sp(|| packer.create_slatepack(&slate));
		let sp_bin: Option<Vec<u8>> = sp.as_ref().and_then(|s| byte_ser::to_bytes(&SlatepackBin(s.clone())).ok());
		let sp_json: Option<String> = sp.as_ref().and_then(|s| serde_json::to_string_pretty(s).ok());
		let mut forms = Map::new();
		if let Some(m) = &msg {
			forms.insert("armor".into(), scan(m.as_bytes(), &orig_bin, snd.as_ref(), &uuid));
			match own_dearmor(m) {
				Some(d) => { forms.insert("dec".into(), scan(&d, &orig_bin, snd.as_ref(), &uuid)); }
				None => {}
			}
		}
		if let Some(b) = &sp_bin {
			forms.insert("bin".into(), scan(b, &orig_bin, snd.as_ref(), &uuid));
		}
		let mut json_keys: Vec<String> = vec![];
		if let Some(j) = &sp_json {
			forms.insert("json".into(), scan(j.as_bytes(), &orig_bin, snd.as_ref(), &uuid));
			if let Ok(Value::Object(o)) = serde_json::from_str::<Value>(j) {
				json_keys = o.keys().cloned().collect();
				if let Some(p) = o.get("payload").and_then(|p| p.as_str()) {
					if let Ok(raw) = base64::decode(p) {
						forms.insert("jsonpl".into(), scan(&raw, &orig_bin, snd.as_ref(), &uuid));
					}
				}
			}
		}
		// what a keyless reader of the message is told
		let (hres, hdr) = match &msg {
			Some(m) => {
				let inst = ctx.world.inst("w3");
				let mask = ctx.world.mask("w3");
				let m = m.clone();
				guarded_sp(move || owner::decode_slatepack_message(inst, mask.as_ref(), m, vec![]))
			}
			None => ("skip".to_string(), None),
		};
		lines.push(json!({"ev": "pack", "c": cid, "s": sname, "snd": snd_name, "R": rnames, "res": pres, "pres": sres,
			"len": msg.as_ref().map(|m| m.len()).unwrap_or(0), "nwin": if orig_bin.len() >= 16 { orig_bin.len() - 15 } else { 0 },
			"forms": Value::Object(forms), "json_keys": json_keys,
			"hdr": {"res": hres, "mode": hdr.as_ref().map(|h| h.mode as i64).unwrap_or(-1),
				"sender": key_name_of(&ctx, &hdr.as_ref().and_then(|h| h.sender.clone()))}})
		.to_string());
		let msg = match msg { Some(m) => m, None => continue };

		// ---- opens
		let mut openers: Vec<(Vec<String>, String, Vec<u32>)> = vec![]; // names, wallet, indices
		for o in c["openers"].as_array().unwrap_or(&empty) {
			let names = driver::strs(o);
			let wn = names.first().map(|n| ctx.keys[n].wallet.clone()).unwrap_or("w3".to_string());
			let idx: Vec<u32> = names.iter().map(|n| ctx.keys[n].idx).collect();
			openers.push((names, wn, idx));
		}
		if enc {
			for _ in 0..extra_wrong {
				let wn = ["w1", "w2", "w3"][rng.below(3) as usize].to_string();
				let idx = (rng.below(1 << 20) as u32) + 16;
				openers.push((vec![format!("x:{}:{}", wn, idx)], wn, vec![idx]));
			}
		}
		for (names, wn, idx) in openers.iter() {
			// owner::slate_from_slatepack_message
			let o = {
				let inst = ctx.world.inst(wn);
				let mask = ctx.world.mask(wn);
				let (m, ix) = (msg.clone(), idx.clone());
				run_open(move || owner::slate_from_slatepack_message(inst, mask.as_ref(), m, ix))
			};
			lines.push(json!({"ev": "open", "c": cid, "api": "slate", "by": names, "res": o.res,
				"same": o.bin.as_ref().map(|b| **b == **orig_bin).unwrap_or(false), "json_eq": o.res == "ok" && o.json == orig_json,
				"sender": "", "mode": -1}).to_string());
			// owner::decode_slatepack_message, then the slate out of the returned slatepack
			let (dres, dsp) = {
				let inst = ctx.world.inst(wn);
				let mask = ctx.world.mask(wn);
				let (m, ix) = (msg.clone(), idx.clone());
				guarded_sp(move || owner::decode_slatepack_message(inst, mask.as_ref(), m, ix))
			};
			let inner = match &dsp {
				Some(sp) => {
					let sp = sp.clone();
					run_open(move || Slatepacker::new(SlatepackerArgs { sender: None, recipients: vec![], dec_key: None }).get_slate(&sp))
				}
				None => Opened { res: dres.clone(), detail: String::new(), bin: None, json: String::new() },
			};
			// "res" = could the slate be obtained; "dres" = what decode itself answered
			lines.push(json!({"ev": "open", "c": cid, "api": "decode", "by": names, "res": inner.res, "dres": dres,
				"same": inner.bin.as_ref().map(|b| **b == **orig_bin).unwrap_or(false), "json_eq": inner.res == "ok" && inner.json == orig_json,
				"sender": key_name_of(&ctx, &dsp.as_ref().and_then(|s| s.sender.clone())),
				"mode": dsp.as_ref().map(|s| s.mode as i64).unwrap_or(-1)}).to_string());
			// the binary and JSON forms through the packer with the first key of the opener
			let dk: Option<[u8; 32]> = idx.first().and_then(|i| {
				*key_cache.entry((wn.clone(), *i)).or_insert_with(|| {
					owner::get_slatepack_secret_key(ctx.world.inst(wn), ctx.world.mask(wn).as_ref(), *i).ok().map(|k| k.to_bytes())
				})
			});
			if names.len() <= 1 {
				for (api, data) in [("packer_bin", sp_bin.clone()), ("packer_json", sp_json.clone().map(|j| j.into_bytes()))].iter() {
					if let Some(data) = data {
						let dkc = dk.and_then(|b| ed25519_dalek::SecretKey::from_bytes(&b).ok());
						let data = data.clone();
						let mut got_sender = String::new();
						let mut got_mode = -1i64;
						let o = run_open(|| {
							let p = Slatepacker::new(SlatepackerArgs { sender: None, recipients: vec![], dec_key: dkc.as_ref() });
							let sp = p.deser_slatepack(&data, true)?;
							got_sender = key_name_of(&ctx, &sp.sender);
							got_mode = sp.mode as i64;
							p.get_slate(&sp)
						});
						lines.push(json!({"ev": "open", "c": cid, "api": api, "by": names, "res": o.res,
							"same": o.bin.as_ref().map(|b| **b == **orig_bin).unwrap_or(false), "json_eq": o.res == "ok" && o.json == orig_json,
							"sender": got_sender, "mode": got_mode}).to_string());
					}
				}
			}
		}

		// ---- forged clear header: the header of an encrypted pack is not covered by the encryption; somebody relaying
		// the message plants a sender address of their own there (binary: optional field + flag bit, JSON: a "sender"
		// member, armor: re-armored with a fresh check code).  A recipient that opens it must still be told the
		// sender sealed inside the ciphertext, and get the original slate - or be refused.
		if enc {
			if let (Some(spc), Some(first)) = (sp.as_ref(), rnames.first()) {
				let fk = ctx.keys[first].clone();
				// an address that is neither the sender's nor the opener's
				let planted = ctx.keys.values().find(|k| Some(&k.name) != snd.as_ref().map(|s| &s.name) && k.name != fk.name).map(|k| k.addr.clone());
				if let Some(pl) = planted {
					let mut forged = spc.clone();
					forged.sender = Some(pl);
					let dk: Option<[u8; 32]> =
						owner::get_slatepack_secret_key(ctx.world.inst(&fk.wallet), ctx.world.mask(&fk.wallet).as_ref(), fk.idx).ok().map(|k| k.to_bytes());
					let forms: Vec<(&str, Option<Vec<u8>>)> = vec![
						("bin", byte_ser::to_bytes(&SlatepackBin(forged.clone())).ok()),
						("json", serde_json::to_string(&forged).ok().map(|j| j.into_bytes())),
						("armor", libwallet::SlatepackArmor::encode(&forged).ok().map(|a| a.into_bytes())),
					];
					for (form, data) in forms {
						if let Some(data) = data {
							let dkc = dk.and_then(|b| ed25519_dalek::SecretKey::from_bytes(&b).ok());
							let mut got_sender = String::new();
							let o = run_open(|| {
								let p = Slatepacker::new(SlatepackerArgs { sender: None, recipients: vec![], dec_key: dkc.as_ref() });
								let sp = p.deser_slatepack(&data, true)?;
								got_sender = key_name_of(&ctx, &sp.sender);
								p.get_slate(&sp)
							});
							lines.push(json!({"ev": "forged_open", "c": cid, "form": form, "edit": "header_sender", "by": [first], "res": o.res,
								"same": o.bin.as_ref().map(|b| **b == **orig_bin).unwrap_or(false), "sender": got_sender}).to_string());
						}
					}
				}
			}
		}

		// ---- edit sweeps (executed below, in parallel)
		let first_r = rnames.first().map(|n| ctx.keys[n].clone());
		let (ow, oidx) = match &first_r { Some(k) => (k.wallet.clone(), vec![k.idx]), None => ("w3".to_string(), vec![]) };
		let dec_key: Option<[u8; 32]> = first_r.as_ref().and_then(|k| {
			owner::get_slatepack_secret_key(ctx.world.inst(&k.wallet), ctx.world.mask(&k.wallet).as_ref(), k.idx).ok().map(|s| s.to_bytes())
		});
		for form in ["armor", "bin", "json"].iter() {
			let spec = &c[*form];
			if spec.is_null() || spec == "none" { continue; }
			// the message to edit: the one just produced, or (replay of a finding) the recorded one
			let mut data: Option<Vec<u8>> = if *form == "armor" { Some(msg.clone().into_bytes()) }
				else if !enc { None }
				else if *form == "bin" { sp_bin.clone() }
				else { sp_json.clone().map(|j| j.into_bytes()) };
			let mut sweep_orig = orig_bin.clone();
			let mut given = false;
			if c["given"]["form"] == *form {
				if let Ok(b) = grin_util::from_hex(c["given"]["hex"].as_str().unwrap_or("")) {
					// the reference is what the unedited recorded message decodes to
					let dk = dec_key.and_then(|b| ed25519_dalek::SecretKey::from_bytes(&b).ok());
					let bb = b.clone();
					let o = run_open(move || {
						let p = Slatepacker::new(SlatepackerArgs { sender: None, recipients: vec![], dec_key: dk.as_ref() });
						let sp = p.deser_slatepack(&bb, true)?;
						p.get_slate(&sp)
					});
					match o.bin {
						Some(ob) => { sweep_orig = Arc::new(ob); data = Some(b); given = true; }
						None => { lines.push(json!({"ev": "given_unreadable", "c": cid, "form": form, "res": o.res}).to_string()); continue; }
					}
				}
			}
			let mut variants: Vec<(Arc<Vec<u8>>, bool)> = vec![];
			if let Some(d) = data { variants.push((Arc::new(d), false)); }
			// directed stimulus: a container whose header MAC ends in a zero byte (the base64 text
			// of the MAC then ends in a digit with no payload bits)
			if *form == "bin" && enc && !given && spec["probe_mac"].as_bool().unwrap_or(false) {
				for _ in 0..20000 {
					let (_, sp2) = guarded_sp(|| packer.create_slatepack(&slate));
					let b2 = match sp2.and_then(|s| byte_ser::to_bytes(&SlatepackBin(s)).ok()) { Some(b) => b, None => break };
					if BinLayout::of(&b2).mac_ends_in_zero_byte(&b2) { variants.push((Arc::new(b2), true)); break; }
				}
			}
			for (data, probe) in variants {
				let mut explicit = vec![];
				if let Some(l) = spec["list"].as_array() {
					for e in l { if let Some(ed) = edits::Edit::from_json(e) { explicit.push(ed); } }
				}
				let sweep = nsweeps;
				nsweeps += 1;
				let (pos, complete) = if !explicit.is_empty() { (vec![], false) }
					else if probe { (BinLayout::of(&data).region_positions(&data, "age_mac"), false) }
					else {
						let fixed = if *form == "armor" { TextLayout::of(&data).frame_positions(&data) }
							else if *form == "bin" { BinLayout::of(&data).frame_positions(&data) }
							else { JsonLayout::of(&data).frame_positions(&data) };
						positions_for(spec, data.len() + 1, &fixed, seed ^ (sweep as u64 * 7919))
					};
				lines.push(json!({"ev": "sweep", "c": cid, "id": sweep, "form": form, "enc": enc, "len": data.len(), "npos": pos.len(),
					"complete": complete, "probe": probe, "given": given, "msg": data.to_hex()}).to_string());
				let deep = probe || spec == "all" || spec["all"].as_bool().unwrap_or(false) || spec["deep"].as_bool().unwrap_or(false);
				let chunks: Vec<Vec<usize>> = if explicit.is_empty() { pos.chunks(64).map(|c| c.to_vec()).collect() } else { vec![vec![]] };
				for ch in chunks {
					tasks.push(Task { sweep, case: cid.clone(), form: if *form == "armor" { "armor" } else if *form == "bin" { "bin" } else { "json" }, enc, msg: data.clone(), positions: ch,
						explicit: explicit.clone(), inst: ctx.world.inst(&ow), mask: ctx.world.mask(&ow), idx: oidx.clone(), dec_key,
						orig_bin: sweep_orig.clone(), deep, seed,
						api_every: if explicit.is_empty() { spec["api_every"].as_u64().unwrap_or(25) as usize } else { 1 } });
				}
			}
		}
	}

	// ---- run the edit tasks
	let tasks = Arc::new(tasks);
	let next = Arc::new(AtomicUsize::new(0));
	let merged: Arc<Mutex<BTreeMap<(String, String, bool), BTreeMap<String, edits::Agg>>>> = Arc::new(Mutex::new(BTreeMap::new()));
	let mut hs = vec![];
	for _ in 0..jobs.max(1) {
		let (tasks, next, merged) = (tasks.clone(), next.clone(), merged.clone());
		hs.push(std::thread::Builder::new().stack_size(32 << 20).spawn(move || loop {
			let i = next.fetch_add(1, Ordering::SeqCst);
			if i >= tasks.len() { break; }
			let t = &tasks[i];
			let a = run_task(t);
			let mut m = merged.lock().unwrap();
			let slot = m.entry((t.case.clone(), t.form.to_string(), t.enc)).or_default();
			for (k, v) in a { slot.entry(k).or_default().merge(v); }
		}).unwrap());
	}
	for h in hs { let _ = h.join(); }
	let mut nedits = 0u64;
	for ((case, form, enc), m) in merged.lock().unwrap().iter() {
		for (_, a) in m.iter() {
			nedits += a.n;
			lines.push(a.to_json(case, form, *enc).to_string());
		}
	}
	drop(ctx);
	let _ = std::fs::remove_dir_all(driver::tmp_root());
	let mut f = std::io::BufWriter::new(std::fs::File::create(&out).expect("create out"));
	for l in lines.iter() { writeln!(f, "{}", l).unwrap(); }
	eprintln!("envelope: {} lines, {} edits executed", lines.len(), nedits);
}
