//! Single-character / single-byte edits of an encoded slatepack and their
//! labels.  A label names the *class* of an edit in the vocabulary of
//! spec/Envelope.tla (region of the position, kind, character classes); it is a
//! fact about the stimulus, not a judgement about the outcome.
use crate::Opened;
use serde_json::{json, Value};
use std::collections::BTreeMap;

pub const B58: &[u8] = b"123456789ABCDEFGHJKLMNPQRSTUVWXYZabcdefghijkmnopqrstuvwxyz";
pub const WS: &[u8] = b" \n\r\t>";
pub const NONB58: &[u8] = b"0OIl_-#@";

pub struct Rng(u64);
impl Rng {
	pub fn new(seed: u64) -> Rng {
		Rng(seed.wrapping_mul(0x9E37_79B9_7F4A_7C15).wrapping_add(0xD1B5_4A32_D192_ED03))
	}
	pub fn next(&mut self) -> u64 {
		self.0 = self.0.wrapping_add(0x9E37_79B9_7F4A_7C15);
		let mut z = self.0;
		z = (z ^ (z >> 30)).wrapping_mul(0xBF58_476D_1CE4_E5B9);
		z = (z ^ (z >> 27)).wrapping_mul(0x94D0_49BB_1331_11EB);
		z ^ (z >> 31)
	}
	pub fn below(&mut self, n: u64) -> u64 {
		if n == 0 { 0 } else { self.next() % n }
	}
}

#[derive(Clone, Copy, PartialEq, Debug)]
pub enum Kind { Sub, Del, Ins, Swap }
impl Kind {
	pub fn name(&self) -> &'static str {
		match self { Kind::Sub => "sub", Kind::Del => "del", Kind::Ins => "ins", Kind::Swap => "swap" }
	}
}

#[derive(Clone, Debug)]
pub struct Edit {
	pub kind: Kind,
	pub pos: usize,
	/// bytes substituted / inserted (one character; several bytes when not ASCII)
	pub ch: Vec<u8>,
}
impl Edit {
	pub fn apply(&self, m: &[u8]) -> Vec<u8> {
		let mut v = Vec::with_capacity(m.len() + 4);
		let p = self.pos.min(m.len());
		match self.kind {
			Kind::Sub => { v.extend_from_slice(&m[..p]); v.extend_from_slice(&self.ch); if p < m.len() { v.extend_from_slice(&m[p + 1..]); } }
			Kind::Del => { v.extend_from_slice(&m[..p]); if p < m.len() { v.extend_from_slice(&m[p + 1..]); } }
			Kind::Ins => { v.extend_from_slice(&m[..p]); v.extend_from_slice(&self.ch); v.extend_from_slice(&m[p..]); }
			Kind::Swap => { v.extend_from_slice(m); if p + 1 < m.len() { v.swap(p, p + 1); } }
		}
		v
	}
	pub fn to_json(&self, m: &[u8]) -> Value {
		let old = if self.pos < m.len() { m[self.pos] as i64 } else { -1 };
		json!({"k": self.kind.name(), "pos": self.pos, "ch": self.ch, "old": old})
	}
	pub fn from_json(v: &Value) -> Option<Edit> {
		let kind = match v["k"].as_str()? { "sub" => Kind::Sub, "del" => Kind::Del, "ins" => Kind::Ins, "swap" => Kind::Swap, _ => return None };
		let ch = v["ch"].as_array().map(|a| a.iter().filter_map(|x| x.as_u64().map(|b| b as u8)).collect()).unwrap_or_default();
		Some(Edit { kind, pos: v["pos"].as_u64()? as usize, ch })
	}
}

pub fn cls(b: &[u8]) -> &'static str {
	if b.len() != 1 { return "x"; }
	let c = b[0];
	if c == b'.' { "d" } else if WS.contains(&c) { "w" } else if B58.contains(&c) { "b" } else { "x" }
}

// ------------------------------------------------------------------ armored text
/// positions of the three frame dots and of the footer word in a produced message
pub struct TextLayout { pub hd: usize, pub fd: usize, pub fw: usize, pub ed: usize, pub ok: bool }
impl TextLayout {
	pub fn of(m: &[u8]) -> TextLayout {
		let dots: Vec<usize> = m.iter().enumerate().filter(|(_, c)| **c == b'.').map(|(i, _)| i).collect();
		if dots.len() != 3 {
			return TextLayout { hd: 0, fd: 0, fw: 0, ed: 0, ok: false };
		}
		let mut fw = dots[1] + 1;
		while fw < dots[2] && WS.contains(&m[fw]) { fw += 1; }
		TextLayout { hd: dots[0], fd: dots[1], fw, ed: dots[2], ok: true }
	}
	/// region of the character at p
	pub fn reg(&self, p: usize) -> &'static str {
		if !self.ok { return "?"; }
		if p < self.hd { "hw" } else if p == self.hd { "hd" } else if p < self.fd { "pay" } else if p == self.fd { "fd" }
		else if p < self.fw { "fs" } else if p < self.ed { "fw" } else if p == self.ed { "ed" } else { "tr" }
	}
	/// slot of an insertion before the character at p
	pub fn slot(&self, p: usize) -> &'static str {
		if !self.ok { return "?"; }
		if p <= self.hd { "hdr" } else if p <= self.fd { "pay" } else if p <= self.fw { "fpre" } else if p < self.ed { "fw" }
		else if p == self.ed { "fpost" } else { "tr" }
	}
	pub fn label(&self, m: &[u8], e: &Edit) -> Value {
		let at = |p: usize| if p < m.len() { cls(&m[p..p + 1]) } else { "" };
		match e.kind {
			Kind::Sub => json!({"k": "sub", "r": self.reg(e.pos), "r2": "", "o": at(e.pos), "n": cls(&e.ch), "eq": false}),
			Kind::Del => json!({"k": "del", "r": self.reg(e.pos), "r2": "", "o": at(e.pos), "n": "", "eq": false}),
			Kind::Ins => json!({"k": "ins", "r": self.slot(e.pos), "r2": "", "o": "", "n": cls(&e.ch), "eq": false}),
			Kind::Swap => json!({"k": "swap", "r": self.reg(e.pos), "r2": self.reg(e.pos + 1), "o": at(e.pos), "n": at(e.pos + 1),
				"eq": e.pos + 1 < m.len() && m[e.pos] == m[e.pos + 1]}),
		}
	}
	/// positions always exercised, whatever the sample: the whole frame and the payload's ends
	pub fn frame_positions(&self, m: &[u8]) -> Vec<usize> {
		let mut v: Vec<usize> = (0..(self.hd + 24).min(m.len())).collect();
		let from = if self.fd > 24 { self.fd - 24 } else { 0 };
		v.extend(from..=m.len());
		v
	}
}

pub fn text_edits(m: &[u8], positions: &[usize], deep: bool, seed: u64) -> Vec<Edit> {
	let mut out = vec![];
	for &p in positions {
		let mut rng = Rng::new(seed ^ ((p as u64) << 20) ^ 0x5EED);
		let old: Option<u8> = if p < m.len() { Some(m[p]) } else { None };
		let pick = |set: &[u8], start: usize, avoid: Option<u8>| -> u8 {
			let mut i = start % set.len();
			for _ in 0..set.len() { if Some(set[i]) != avoid { break; } i = (i + 1) % set.len(); }
			set[i]
		};
		let b1 = pick(B58, rng.below(58) as usize, old);
		let w1 = pick(WS, p, old);
		let x1 = pick(NONB58, p / 3, old);
		let mut cand: Vec<Vec<u8>> = vec![vec![b1], vec![w1], vec![x1]];
		if old != Some(b'.') { cand.push(vec![b'.']); }
		if deep {
			// the neighbour in the alphabet (a one-step slip), a second whitespace kind, a control
			// character and a non-ASCII character
			if let Some(o) = old {
				if let Some(i) = B58.iter().position(|c| *c == o) { cand.push(vec![B58[(i + 1) % 58]]); }
			}
			cand.push(vec![pick(WS, p + 2, old)]);
			cand.push(vec![0x01]);
			cand.push("é".as_bytes().to_vec());
		}
		if let Some(o) = old {
			let mut seen: Vec<Vec<u8>> = vec![];
			for c in cand.iter() {
				if c.len() == 1 && c[0] == o { continue; }
				if seen.contains(c) { continue; }
				seen.push(c.clone());
				out.push(Edit { kind: Kind::Sub, pos: p, ch: c.clone() });
			}
			out.push(Edit { kind: Kind::Del, pos: p, ch: vec![] });
			if p + 1 < m.len() { out.push(Edit { kind: Kind::Swap, pos: p, ch: vec![] }); }
		}
		let mut ins: Vec<Vec<u8>> = vec![vec![pick(B58, rng.below(58) as usize, None)], vec![pick(WS, p + 1, None)], vec![pick(NONB58, p / 5, None)], vec![b'.']];
		if deep {
			if let Some(o) = old { ins.push(vec![o]); }
			ins.push("é".as_bytes().to_vec());
		}
		let mut seen: Vec<Vec<u8>> = vec![];
		for c in ins {
			if seen.contains(&c) { continue; }
			seen.push(c.clone());
			out.push(Edit { kind: Kind::Ins, pos: p, ch: c });
		}
	}
	out
}

// ------------------------------------------------------------------ binary form
/// field boundaries of a serialised SlatepackBin (types.rs Writeable) and of the age
/// container inside its payload
pub struct BinLayout { pub snd_end: usize, pub ps: usize, pub age: Vec<(usize, &'static str)>, pub len: usize }
impl BinLayout {
	pub fn of(m: &[u8]) -> BinLayout {
		let mut l = BinLayout { snd_end: 9, ps: 17, age: vec![], len: m.len() };
		if m.len() < 17 { return l; }
		let opt = ((m[5] as usize) << 24) | ((m[6] as usize) << 16) | ((m[7] as usize) << 8) | (m[8] as usize);
		l.snd_end = (9 + opt).min(m.len());
		l.ps = (l.snd_end + 8).min(m.len());
		// age v1 header: lines up to the one starting with "---", then 16 bytes nonce, then the body
		let mut p = l.ps;
		let mut first = true;
		let mut in_body = false;
		while p < m.len() {
			let e = m[p..].iter().position(|c| *c == b'\n').map(|i| p + i + 1).unwrap_or(m.len());
			let line = &m[p..e];
			if first {
				if !line.starts_with(b"age-encryption.org/") { l.age.push((p, "pl")); return l; }
				l.age.push((p, "age_v"));
				first = false;
			} else if line.starts_with(b"---") {
				l.age.push((p, "age_dash"));
				l.age.push(((p + 4).min(e), "age_mac"));
				l.age.push((e, "age_nonce"));
				l.age.push(((e + 16).min(m.len()), "age_body"));
				in_body = true;
				break;
			} else if line.starts_with(b"->") {
				l.age.push((p, "age_st"));
			} else {
				l.age.push((p, "age_sb"));
			}
			p = e;
		}
		if !in_body { l.age.push((m.len(), "age_body")); }
		l
	}
	pub fn reg(&self, p: usize) -> &'static str {
		if p >= self.len { return "end"; }
		if p < 2 { return "ver"; }
		if p == 2 { return "mode"; }
		if p == 3 { return "fl_hi"; }
		if p == 4 { return "fl_lo"; }
		if p < 9 { return "optlen"; }
		if p < self.snd_end { return "snd"; }
		if p < self.ps { return "plen"; }
		let mut r = "pl";
		for (s, n) in self.age.iter() { if *s <= p { r = n; } else { break; } }
		r
	}
	pub fn label(&self, m: &[u8], e: &Edit) -> Value {
		let valcls = |r: &str, b: u8| -> &'static str {
			match r {
				"fl_lo" => if b & 1 == 1 { "odd" } else { "even" },
				"mode" => if b == 0 { "0" } else if b == 1 { "1" } else { "big" },
				// a base64 digit of the age header replaced by the padding character
				"age_st" | "age_sb" | "age_mac" => if b == b'=' { "pad" } else { "" },
				_ => "",
			}
		};
		match e.kind {
			Kind::Sub => { let r = self.reg(e.pos); json!({"k": "sub", "r": r, "r2": "", "o": "", "n": valcls(r, e.ch[0]), "eq": false}) }
			Kind::Del => json!({"k": "del", "r": self.reg(e.pos), "r2": "", "o": "", "n": "", "eq": false}),
			// an insertion that leaves the original as a prefix is an append, wherever it was made
			Kind::Ins => json!({"k": "ins", "r": if e.apply(m).starts_with(m) { "end" } else { self.reg(e.pos) }, "r2": "", "o": "", "n": "", "eq": false}),
			Kind::Swap => json!({"k": "swap", "r": self.reg(e.pos), "r2": self.reg(e.pos + 1), "o": "", "n": "",
				"eq": e.pos + 1 < m.len() && m[e.pos] == m[e.pos + 1]}),
		}
	}
	pub fn frame_positions(&self, m: &[u8]) -> Vec<usize> {
		let body = self.age.iter().find(|(_, n)| *n == "age_body").map(|(s, _)| *s).unwrap_or(self.ps);
		let mut v: Vec<usize> = (0..(body + 24).min(m.len())).collect();
		let from = if m.len() > 40 { m.len() - 40 } else { 0 };
		v.extend(from..=m.len());
		v
	}
	pub fn region_positions(&self, m: &[u8], r: &str) -> Vec<usize> {
		(0..m.len()).filter(|p| self.reg(*p) == r).collect()
	}
	/// the base64 text of the 32-byte header MAC is 43 digits; the MAC's last byte is zero iff
	/// the last digit is 'A' and the one before it carries four zero bits
	pub fn mac_ends_in_zero_byte(&self, m: &[u8]) -> bool {
		let pos = self.region_positions(m, "age_mac");
		// digits, then the newline
		if pos.len() < 3 { return false; }
		let last = m[pos[pos.len() - 2]];
		let prev = m[pos[pos.len() - 3]];
		last == b'A' && b"AQgw".contains(&prev)
	}
	fn textual(&self, p: usize) -> bool {
		let r = self.reg(p);
		r.starts_with("age_") && r != "age_nonce" && r != "age_body"
	}
}

pub fn bin_edits(m: &[u8], positions: &[usize], lay: &BinLayout, deep: bool, seed: u64) -> Vec<Edit> {
	let mut out = vec![];
	for &p in positions {
		let mut rng = Rng::new(seed ^ ((p as u64) << 24) ^ 0xB17E);
		if p < m.len() {
			let o = m[p];
			let mut vals: Vec<u8> = vec![o ^ 0x01, o ^ 0x80, o ^ 0xff, 0x00, 0x01, rng.below(256) as u8];
			if lay.textual(p) || p < lay.ps {
				if deep {
					vals = (0..=255u8).collect();
				} else {
					// neighbours in the ASCII table: reaches "another base64 digit with the same leading bits"
					vals.extend_from_slice(&[o.wrapping_add(1), o.wrapping_sub(1), o.wrapping_add(2), o ^ 0x20, b'\n', b' ', b'=']);
				}
			}
			let mut seen = vec![false; 256];
			for v in vals {
				if v == o || seen[v as usize] { continue; }
				seen[v as usize] = true;
				out.push(Edit { kind: Kind::Sub, pos: p, ch: vec![v] });
			}
			out.push(Edit { kind: Kind::Del, pos: p, ch: vec![] });
			if p + 1 < m.len() { out.push(Edit { kind: Kind::Swap, pos: p, ch: vec![] }); }
			out.push(Edit { kind: Kind::Ins, pos: p, ch: vec![o] });
		}
		out.push(Edit { kind: Kind::Ins, pos: p, ch: vec![0x00] });
		out.push(Edit { kind: Kind::Ins, pos: p, ch: vec![(rng.below(255) + 1) as u8] });
	}
	out
}

// ------------------------------------------------------------------ JSON form
pub const B64: &[u8] = b"ABCDEFGHIJKLMNOPQRSTUVWXYZabcdefghijklmnopqrstuvwxyz0123456789+/";
/// character classes of the JSON carrier: base64 digit, padding, JSON whitespace, quote, other
pub fn jcls(b: &[u8]) -> &'static str {
	if b.len() != 1 { return "x"; }
	let c = b[0];
	if B64.contains(&c) { "g" } else if c == b'=' { "p" } else if b" \n\r\t".contains(&c) { "w" } else if c == b'"' { "q" } else { "x" }
}
/// spans of the serde_json::to_string_pretty form of a Slatepack (types.rs derive)
pub struct JsonLayout { pub spans: Vec<(usize, usize, &'static str)>, pub pl: (usize, usize) }
impl JsonLayout {
	fn find(m: &[u8], pat: &[u8], from: usize) -> Option<usize> {
		if m.len() < pat.len() { return None; }
		(from..=m.len() - pat.len()).find(|i| &m[*i..*i + pat.len()] == pat)
	}
	pub fn of(m: &[u8]) -> JsonLayout {
		let mut l = JsonLayout { spans: vec![], pl: (0, 0) };
		// value of a string field: (start, end) of the characters between the quotes
		let strval = |key: &[u8]| -> Option<(usize, usize)> {
			let k = Self::find(m, key, 0)?;
			let q1 = Self::find(m, b"\"", k + key.len())?;
			let q2 = Self::find(m, b"\"", q1 + 1)?;
			Some((q1 + 1, q2))
		};
		if let Some((a, b)) = strval(b"\"slatepack\":") { l.spans.push((a, b, "j_ver")); }
		if let Some(k) = Self::find(m, b"\"mode\":", 0) {
			let mut a = k + 7;
			while a < m.len() && m[a] == b' ' { a += 1; }
			let mut b = a;
			while b < m.len() && m[b].is_ascii_digit() { b += 1; }
			l.spans.push((a, b, "j_mode"));
		}
		if let Some(k) = Self::find(m, b"\"encrypted_meta\":", 0) {
			if let Some(o) = Self::find(m, b"{", k) {
				if let Some(c) = Self::find(m, b"}", o) { l.spans.push((o + 1, c, "j_meta")); }
			}
		}
		if let Some((a, b)) = strval(b"\"payload\":") {
			let mut d = b;
			while d > a && m[d - 1] == b'=' { d -= 1; }
			// with padding present the last digit carries 2 or 4 bits that are not payload
			if d < b && d > a {
				l.spans.push((d - 1, d, "j_last"));
				l.spans.push((a, d - 1, "j_pl"));
			} else {
				l.spans.push((a, d, "j_pl"));
			}
			l.spans.push((d, b, "j_pad"));
			l.pl = (a, d);
		}
		l
	}
	pub fn reg(&self, p: usize) -> &'static str {
		for (a, b, n) in self.spans.iter() { if p >= *a && p < *b { return n; } }
		"j_struct"
	}
	/// an insertion before p lies inside the payload digits iff both neighbours are payload digits
	pub fn slot(&self, p: usize) -> &'static str {
		if p > self.pl.0 && p < self.pl.1 { "j_pl" } else if p > 0 && self.reg(p - 1) == self.reg(p) { self.reg(p) } else { "j_struct" }
	}
	pub fn label(&self, m: &[u8], e: &Edit) -> Value {
		let at = |p: usize| if p < m.len() { jcls(&m[p..p + 1]) } else { "" };
		match e.kind {
			Kind::Sub => json!({"k": "sub", "r": self.reg(e.pos), "r2": "", "o": at(e.pos), "n": jcls(&e.ch), "eq": false}),
			Kind::Del => json!({"k": "del", "r": self.reg(e.pos), "r2": "", "o": at(e.pos), "n": "", "eq": false}),
			Kind::Ins => json!({"k": "ins", "r": self.slot(e.pos), "r2": "", "o": "", "n": jcls(&e.ch), "eq": false}),
			Kind::Swap => json!({"k": "swap", "r": self.reg(e.pos), "r2": self.reg(e.pos + 1), "o": at(e.pos), "n": at(e.pos + 1),
				"eq": e.pos + 1 < m.len() && m[e.pos] == m[e.pos + 1]}),
		}
	}
	pub fn frame_positions(&self, m: &[u8]) -> Vec<usize> {
		// everything outside the payload digits, and the payload's ends
		let mut v: Vec<usize> = (0..=m.len()).filter(|p| *p >= m.len() || self.reg(*p) != "j_pl").collect();
		// a container with padded base64 exists for two payload lengths out of three
		v.extend(self.pl.0..(self.pl.0 + 24).min(self.pl.1));
		v.extend((if self.pl.1 > 24 { self.pl.1 - 24 } else { 0 }).max(self.pl.0)..self.pl.1);
		v
	}
}

pub fn json_edits(m: &[u8], positions: &[usize], deep: bool, seed: u64) -> Vec<Edit> {
	let mut out = vec![];
	for &p in positions {
		let mut rng = Rng::new(seed ^ ((p as u64) << 22) ^ 0x150);
		let old: Option<u8> = if p < m.len() { Some(m[p]) } else { None };
		let g1 = B64[rng.below(64) as usize];
		let mut cand: Vec<u8> = vec![g1, b' ', b'"', b'=', b'0', b'x'];
		if let Some(o) = old {
			// the neighbours in the alphabet: a digit that differs in its last bits only
			if let Some(i) = B64.iter().position(|c| *c == o) { cand.push(B64[i ^ 1]); cand.push(B64[(i + 4) % 64]); }
			if deep { cand.push(b'\n'); cand.push(b'1'); cand.push(b','); cand.push(B64[rng.below(64) as usize]); }
			let mut seen = vec![false; 256];
			for c in cand.iter() {
				if *c == o || seen[*c as usize] { continue; }
				seen[*c as usize] = true;
				out.push(Edit { kind: Kind::Sub, pos: p, ch: vec![*c] });
			}
			out.push(Edit { kind: Kind::Del, pos: p, ch: vec![] });
			if p + 1 < m.len() { out.push(Edit { kind: Kind::Swap, pos: p, ch: vec![] }); }
			out.push(Edit { kind: Kind::Ins, pos: p, ch: vec![o] });
		}
		for c in [g1, b' ', b'"', b'='].iter() { out.push(Edit { kind: Kind::Ins, pos: p, ch: vec![*c] }); }
	}
	out
}

// ------------------------------------------------------------------ recording
#[derive(Default)]
pub struct Agg {
	pub label: Value,
	pub n: u64,
	pub outs: BTreeMap<String, u64>,
	pub ex: BTreeMap<String, Value>,
	pub errs: BTreeMap<String, u64>,
	pub via_api: u64,
}
impl Agg {
	pub fn merge(&mut self, o: Agg) {
		if self.n == 0 { self.label = o.label.clone(); }
		self.n += o.n;
		self.via_api += o.via_api;
		for (k, v) in o.outs { *self.outs.entry(k).or_insert(0) += v; }
		for (k, v) in o.ex { self.ex.entry(k).or_insert(v); }
		for (k, v) in o.errs { *self.errs.entry(k).or_insert(0) += v; }
	}
	pub fn to_json(&self, case: &str, form: &str, enc: bool) -> Value {
		let g = |k: &str| *self.outs.get(k).unwrap_or(&0);
		json!({"ev": "edits", "c": case, "form": form, "enc": enc, "lbl": self.label, "n": self.n,
			"same": g("same"), "err": g("err"), "diff": g("diff"), "panic": g("panic"),
			"ex": self.ex, "errs": self.errs, "via_api": self.via_api})
	}
}

pub fn record(agg: &mut BTreeMap<String, Agg>, lbl: Value, e: &Edit, m: &[u8], o: &Opened, orig_bin: &[u8], via_api: bool, sweep: usize) {
	let out = if o.res == "ok" {
		if o.bin.as_ref().map(|b| &b[..] == orig_bin).unwrap_or(false) { "same" } else { "diff" }
	} else if o.res == "panic" { "panic" } else { "err" };
	let key = lbl.to_string();
	let a = agg.entry(key).or_default();
	if a.n == 0 { a.label = lbl; }
	a.n += 1;
	if via_api { a.via_api += 1; }
	*a.outs.entry(out.to_string()).or_insert(0) += 1;
	if !a.ex.contains_key(out) {
		let mut j = e.to_json(m);
		j["detail"] = json!(o.detail);
		j["sweep"] = json!(sweep);
		a.ex.insert(out.to_string(), j);
	}
	if out == "err" { *a.errs.entry(o.detail.clone()).or_insert(0) += 1; }
}
