//! replay_wallet --in behaviours.json --out events.ndjson [--jobs N]
//! behaviours.json: {"setup": {...}, "behaviours": [[event,...],...]}
use serde_json::Value;
use std::io::Write;

fn main() {
	let args: Vec<String> = std::env::args().collect();
	let mut inp = String::new();
	let mut out = String::new();
	let mut jobs = 12usize;
	let mut i = 1;
	while i < args.len() {
		match args[i].as_str() {
			"--in" => { inp = args[i + 1].clone(); i += 1; }
			"--out" => { out = args[i + 1].clone(); i += 1; }
			"--jobs" => { jobs = args[i + 1].parse().unwrap(); i += 1; }
			_ => {}
		}
		i += 1;
	}
	// silence panic backtraces of the code under test; they are data
	std::panic::set_hook(Box::new(|_| {}));
	let v: Value = serde_json::from_str(&std::fs::read_to_string(&inp).expect("read input")).expect("json");
	let setup = v["setup"].clone();
	let behs: Vec<Vec<Value>> = v["behaviours"]
		.as_array()
		.expect("behaviours")
		.iter()
		.map(|b| b.as_array().cloned().unwrap_or_default())
		.collect();
	let lines = vharness::driver::run_all(&setup, &behs, jobs);
	let mut f = std::io::BufWriter::new(std::fs::File::create(&out).expect("create out"));
	for l in lines.iter() {
		writeln!(f, "{}", l).unwrap();
	}
	eprintln!("replayed {} behaviours, {} events", behs.len(), lines.len());
}
