//! One arm per (method, variant) of grin_wallet_api::Owner (api/src/owner.rs).  The arguments
//! are bound from the roles the scenario has established (the unlocked send context, the
//! locked send with a reply, ...); when a role is empty a blank slate / unknown id is used, so
//! that every method can be invoked at every wallet state.  The return value is normalised to
//! a JSON value without fresh randomness (ids, nonces, timestamps), so that the masked wallet
//! and its unmasked twin can be compared.
use ed25519_dalek::Signature as DalekSignature;
use grin_core::core::OutputFeatures;
use grin_keychain::ExtKeychain;
use grin_util::secp::key::SecretKey;
use grin_util::secp::pedersen::Commitment;
use grin_util::ToHex;
use serde_json::{json, Value};
use std::convert::TryFrom;
use std::time::Duration;
use uuid::Uuid;
use vharness::libwallet::mwixnet::MixnetReqCreationParams;
use vharness::libwallet::{
	StatusMessage, InitTxArgs, IssueInvoiceTxArgs, OutputStatus, PaymentProof, Slate, SlateState, SlatepackAddress,
	TxLogEntryType,
};
use vharness::node::DirectNode;
use vharness::world::{acct_str, guarded, key_str, Outcome, World, LC, U};

pub type Api = grin_wallet_api::Owner<LC, DirectNode, ExtKeychain>;

#[derive(Clone, Default)]
pub struct Roles {
	/// slate with a stored context of w1 that is not locked yet
	pub unlocked: Option<String>,
	/// locked send of w1 whose reply (S2) is available
	pub sent: Option<String>,
	/// finalized send (stored transaction)
	pub fin: Option<String>,
	/// payment received by w1 (unconfirmed TxReceived)
	pub recv: Option<String>,
	/// invoice issued by w1
	pub inv: Option<String>,
	/// invoice issued by w2 that w1 may pay
	pub pay: Option<String>,
	/// completed send with a payment proof
	pub proof_tx: Option<String>,
	pub proof: Option<PaymentProof>,
	pub rewind: String,
	pub addr1: String,
	pub addr2: String,
	pub msg_plain: String,
	pub msg_enc: String,
	pub nacct: usize,
	pub n: usize,
	/// label of the active account ("" = default)
	pub active: String,
}

fn units(v: u64) -> Value {
	if v % U == 0 {
		json!(v / U)
	} else {
		json!(format!("raw{}", v))
	}
}

fn slate_proj(s: &Slate) -> Value {
	let (ni, no, nk) = match &s.tx {
		Some(t) => (t.inputs().len(), t.outputs().len(), t.kernels().len()),
		None => (0, 0, 0),
	};
	json!({"amt": units(s.amount), "fee": units(s.fee_fields.fee()), "state": format!("{}", s.state),
		"ttl": s.ttl_cutoff_height, "npart": s.participant_data.len(), "ins": ni, "outs": no, "kern": nk,
		"proof": s.payment_proof.as_ref().map(|p| p.sender_address.to_bytes().to_vec().to_hex()).unwrap_or_default()})
}

fn fin<T, F: FnOnce(&T) -> Value>(o: &Outcome<T>, f: F) -> (String, Value, String) {
	match o {
		Outcome::Ok(v) => ("ok".into(), f(v), "".into()),
		Outcome::Err(c) => (format!("err:{}", c), Value::Null, c.clone()),
		Outcome::Panic(m) => ("panic".into(), Value::Null, m.clone()),
	}
}

fn tx_id_of(w: &World, name: &Option<String>) -> Option<u32> {
	let id = name.as_ref().and_then(|n| w.slates.get(n)).and_then(|r| r.id)?;
	match w.with("w1", |wi, _| {
		Ok(wi
			.tx_log_iter()
			.filter(|t| t.tx_slate_id == Some(id))
			.filter(|t| t.tx_type != TxLogEntryType::TxSentCancelled && t.tx_type != TxLogEntryType::TxReceivedCancelled)
			.map(|t| t.id)
			.next())
	}) {
		Outcome::Ok(x) => x,
		_ => None,
	}
}

fn slate_id_of(w: &World, name: &Option<String>) -> Option<Uuid> {
	name.as_ref().and_then(|n| w.slates.get(n)).and_then(|r| r.id)
}

fn blank(state: SlateState) -> Slate {
	let mut s = Slate::blank(2, false);
	s.state = state;
	s
}

fn stage(w: &World, name: &Option<String>, st: &[&str]) -> Option<Slate> {
	let r = name.as_ref().and_then(|n| w.slates.get(n))?;
	for s in st {
		if *s == "reply" {
			if let Some(x) = r.replies.last() {
				return Some(x.clone());
			}
		} else if let Some(x) = r.stage.get(*s) {
			return Some(x.clone());
		}
	}
	None
}

fn unspent_commit(w: &World) -> Commitment {
	let c = w.with("w1", |wi, _| {
		Ok(wi
			.iter()
			.filter(|o| o.status == OutputStatus::Unspent)
			.filter_map(|o| o.commit.clone())
			.next())
	});
	let hex = match c {
		Outcome::Ok(Some(h)) => h,
		_ => format!("08{}", "11".repeat(32)),
	};
	Commitment::from_vec(grin_util::from_hex(&hex).unwrap())
}

fn fixed_key(b: u8) -> SecretKey {
	let secp = grin_util::static_secp_instance();
	let secp = secp.lock();
	SecretKey::from_slice(&secp, &[b; 32]).unwrap()
}

/// label of the existing account that is NOT the active one (set-up creates "acct1" next to "default")
fn other_account(r: &Roles) -> String {
	if r.active == "" || r.active == "default" {
		"acct1".to_string()
	} else {
		"default".to_string()
	}
}

fn send_args(v: &str, r: &Roles) -> InitTxArgs {
	InitTxArgs {
		src_acct_name: if v == "src" { Some(other_account(r)) } else { None },
		amount: if v == "toomuch" { 1_000_000 * U } else { 1000 * U },
		minimum_confirmations: 1,
		max_outputs: 500,
		num_change_outputs: 1,
		selection_strategy_is_use_all: false,
		estimate_only: if v == "estimate" { Some(true) } else { None },
		late_lock: if v == "late" { Some(true) } else { None },
		payment_proof_recipient_address: if v == "proof" { SlatepackAddress::try_from(r.addr2.as_str()).ok() } else { None },
		..Default::default()
	}
}

fn synthetic_proof(r: &Roles) -> PaymentProof {
	let a = SlatepackAddress::try_from(r.addr1.as_str()).unwrap();
	let b = SlatepackAddress::try_from(r.addr2.as_str()).unwrap();
	PaymentProof {
		amount: 1000 * U,
		excess: Commitment::from_vec(grin_util::from_hex(&format!("09{}", "22".repeat(32))).unwrap()),
		recipient_address: b,
		recipient_sig: DalekSignature::from_bytes(&[0u8; 64]).unwrap(),
		sender_address: a,
		sender_sig: DalekSignature::from_bytes(&[0u8; 64]).unwrap(),
	}
}

/// executes `m`/`v` with token `tok`; `commit`: a success updates the roles and the world's
/// slate registry (history mode) - otherwise only the real wallet is affected
pub fn do_call(
	api: &Api,
	w: &mut World,
	r: &mut Roles,
	m: &str,
	v: &str,
	tok: Option<&SecretKey>,
	commit: bool,
) -> (String, Value, String) {
	match m {
		"accounts" => {
			let o = guarded(|| api.accounts(tok));
			fin(&o, |l| json!(l.iter().map(|a| json!([a.label, acct_str(&a.path)])).collect::<Vec<_>>()))
		}
		"create_account_path" => {
			let label = if v == "dup" { "default".to_string() } else { format!("acct{}", r.nacct + 1) };
			let o = guarded(|| api.create_account_path(tok, &label));
			if let (Outcome::Ok(_), true) = (&o, commit) {
				r.nacct += 1;
			}
			fin(&o, |p| json!(acct_str(p)))
		}
		"set_active_account" => {
			let label = match v {
				"unknown" => "nosuch",
				"second" => "acct1",
				_ => "default",
			};
			let o = guarded(|| api.set_active_account(tok, label));
			if let Outcome::Ok(_) = &o {
				r.active = label.to_string();
				if commit {
					w.wallets.get_mut("w1").unwrap().active = label.to_string();
				}
			}
			fin(&o, |_| Value::Null)
		}
		"retrieve_outputs" => {
			let o = guarded(|| api.retrieve_outputs(tok, true, v == "refresh", None));
			fin(&o, |(val, l)| {
				json!({"validated": val, "outs": l.iter().map(|x| json!([key_str(&x.output.key_id, &None), units(x.output.value),
					format!("{:?}", x.output.status), x.commit.0.to_vec().to_hex()])).collect::<Vec<_>>()})
			})
		}
		"retrieve_txs" => {
			let o = guarded(|| api.retrieve_txs(tok, v == "refresh", None, None, None));
			fin(&o, |(val, l)| {
				json!({"validated": val, "txs": l.iter().map(|t| json!([t.id, format!("{:?}", t.tx_type), units(t.amount_credited),
					units(t.amount_debited), t.confirmed])).collect::<Vec<_>>()})
			})
		}
		"retrieve_summary_info" => {
			let o = guarded(|| api.retrieve_summary_info(tok, v == "refresh", 1));
			fin(&o, |(val, i)| {
				json!({"validated": val, "h": i.last_confirmed_height, "total": units(i.total), "spendable": units(i.amount_currently_spendable),
					"locked": units(i.amount_locked), "immature": units(i.amount_immature), "awaitconf": units(i.amount_awaiting_confirmation),
					"awaitfin": units(i.amount_awaiting_finalization)})
			})
		}
		"init_send_tx" => {
			let args = send_args(v, r);
			let o = guarded(|| api.init_send_tx(tok, args));
			if let (Outcome::Ok(s), true) = (&o, v != "estimate") {
				r.n += 1;
				let name = format!("c{}", r.n);
				let rec = w.slates.entry(name.clone()).or_default();
				rec.id = Some(s.id);
				rec.stage.insert("S1".into(), s.clone());
				if commit {
					// the peer answers at once (environment step; does not touch w1)
					let _ = w.receive("w2", &name, "", None);
				}
				r.unlocked = Some(name);
			}
			fin(&o, slate_proj)
		}
		"issue_invoice_tx" => {
			let dest = if v == "dest" { Some(other_account(r)) } else { None };
			let args = IssueInvoiceTxArgs { dest_acct_name: dest, amount: 700 * U, target_slate_version: None };
			let o = guarded(|| api.issue_invoice_tx(tok, args));
			if let Outcome::Ok(s) = &o {
				r.n += 1;
				let name = format!("c{}", r.n);
				let rec = w.slates.entry(name.clone()).or_default();
				rec.id = Some(s.id);
				rec.stage.insert("I1".into(), s.clone());
				r.inv = Some(name);
			}
			fin(&o, slate_proj)
		}
		"process_invoice_tx" => {
			let sl = stage(w, &r.pay, &["I1"]).unwrap_or_else(|| blank(SlateState::Invoice1));
			let args = InitTxArgs {
				src_acct_name: if v == "src" { Some(other_account(r)) } else { None },
				amount: sl.amount,
				minimum_confirmations: 1,
				max_outputs: 500,
				num_change_outputs: 1,
				selection_strategy_is_use_all: false,
				..Default::default()
			};
			let o = guarded(|| api.process_invoice_tx(tok, &sl, args));
			if let (Outcome::Ok(s), true, Some(name)) = (&o, commit, r.pay.clone()) {
				let rec = w.slates.entry(name.clone()).or_default();
				rec.stage.insert("I2".into(), s.clone());
				rec.replies.push(s.clone());
			}
			fin(&o, slate_proj)
		}
		"tx_lock_outputs" => {
			let sl = stage(w, &r.unlocked, &["S1"]).unwrap_or_else(|| {
				let mut b = blank(SlateState::Standard1);
				b.id = Uuid::from_bytes([7u8; 16]);
				b
			});
			let o = guarded(|| api.tx_lock_outputs(tok, &sl));
			if let (Outcome::Ok(_), true) = (&o, commit) {
				r.sent = r.unlocked.take();
			}
			fin(&o, |_| Value::Null)
		}
		"finalize_tx" => {
			let sl = stage(w, &r.sent, &["reply"]).unwrap_or_else(|| {
				let mut b = blank(SlateState::Standard2);
				b.id = Uuid::from_bytes([7u8; 16]);
				b
			});
			let o = guarded(|| api.finalize_tx(tok, &sl));
			if let (Outcome::Ok(s), true, Some(name)) = (&o, commit, r.sent.clone()) {
				let rec = w.slates.entry(name.clone()).or_default();
				rec.stage.insert("S3".into(), s.clone());
				rec.final_tx = s.tx.clone();
				r.fin = Some(name);
				r.sent = None;
			}
			fin(&o, slate_proj)
		}
		"post_tx" => {
			let sl = stage(w, &r.fin, &["S3"]).unwrap_or_else(|| blank(SlateState::Standard3));
			let o = guarded(|| api.post_tx(tok, &sl, false));
			if let (Outcome::Ok(_), true, Some(name)) = (&o, commit, r.fin.clone()) {
				w.posted.insert(name);
			}
			fin(&o, |_| Value::Null)
		}
		"cancel_tx" => {
			let role = if r.sent.is_some() { r.sent.clone() } else { r.recv.clone() };
			let o = if v == "byslate" {
				let sid = slate_id_of(w, &role).unwrap_or(Uuid::from_bytes([7u8; 16]));
				guarded(|| api.cancel_tx(tok, None, Some(sid)))
			} else {
				let id = tx_id_of(w, &role).unwrap_or(99);
				guarded(|| api.cancel_tx(tok, Some(id), None))
			};
			if let (Outcome::Ok(_), true) = (&o, commit) {
				if r.sent.is_some() {
					r.sent = None;
				} else {
					r.recv = None;
				}
			}
			fin(&o, |_| Value::Null)
		}
		"get_stored_tx" => {
			let role = if r.fin.is_some() { r.fin.clone() } else { r.sent.clone() };
			let id = tx_id_of(w, &role);
			let sid = slate_id_of(w, &role).unwrap_or(Uuid::from_bytes([7u8; 16]));
			let o = guarded(|| api.get_stored_tx(tok, id, Some(&sid)));
			fin(&o, |s| match s {
				Some(s) => slate_proj(s),
				None => json!("none"),
			})
		}
		"get_rewind_hash" => {
			let o = guarded(|| api.get_rewind_hash(tok));
			fin(&o, |h| json!(h))
		}
		"scan_rewind_hash" => {
			let h = if v == "bad" { "zz".to_string() } else { r.rewind.clone() };
			let o = guarded(|| api.scan_rewind_hash(h, None));
			fin(&o, |vw| json!({"total": units(vw.total_balance), "n": vw.output_result.len()}))
		}
		"scan" => {
			let o = guarded(|| api.scan(tok, None, v == "del"));
			fin(&o, |_| Value::Null)
		}
		"node_height" => {
			let o = guarded(|| api.node_height(tok));
			fin(&o, |h| json!({"h": h.height, "node": h.updated_from_node}))
		}
		"get_top_level_directory" => {
			let o = guarded(|| api.get_top_level_directory());
			fin(&o, |_| Value::Null)
		}
		"start_updater" => {
			// An Owner of its own with OUR status channel (Owner::new's custom_channel): the updater
			// thread owns the only other sender, so the channel disconnects exactly when that thread
			// has ended - a join without a handle.  Observing the store while the thread still runs
			// would make the before/after digests of this and of the next call race with it.
			let (tx, rx) = std::sync::mpsc::channel::<StatusMessage>();
			let own: Api = grin_wallet_api::Owner::new(w.inst("w1"), Some(tx));
			let o = guarded(|| own.start_updater(tok, Duration::from_millis(10)));
			let running = own.updater_running.clone();
			drop(own);
			// let it complete one full cycle (the second "updating outputs" message opens the next
			// cycle); a thread that died (wrong token) or idles (closed wallet) is not waited for
			let t0 = std::time::Instant::now();
			let (mut cycles, mut alive) = (0, true);
			while alive && cycles < 2 && t0.elapsed() < Duration::from_millis(if cycles == 0 { 300 } else { 5000 }) {
				match rx.recv_timeout(Duration::from_millis(20)) {
					Ok(StatusMessage::UpdatingOutputs(_)) => cycles += 1,
					Ok(_) => {}
					Err(std::sync::mpsc::RecvTimeoutError::Timeout) => {}
					Err(std::sync::mpsc::RecvTimeoutError::Disconnected) => alive = false,
				}
			}
			// stop_updater is `updater_running.store(false)`; repeated because the thread sets the flag
			// itself when it starts
			let mut hung = false;
			while alive {
				running.store(false, std::sync::atomic::Ordering::Relaxed);
				match rx.recv_timeout(Duration::from_millis(10)) {
					Err(std::sync::mpsc::RecvTimeoutError::Disconnected) => alive = false,
					_ => {}
				}
				if t0.elapsed() > Duration::from_secs(30) {
					hung = true;
					break;
				}
			}
			if hung {
				("hang".into(), Value::Null, "updater thread did not end".into())
			} else {
				fin(&o, |_| Value::Null)
			}
		}
		"stop_updater" => {
			let o = guarded(|| api.stop_updater());
			fin(&o, |_| Value::Null)
		}
		"get_updater_messages" => {
			let o = guarded(|| api.get_updater_messages(10));
			fin(&o, |_| Value::Null)
		}
		"get_slatepack_address" => {
			let o = guarded(|| api.get_slatepack_address(tok, 0));
			fin(&o, |a| json!(format!("{}", a)))
		}
		"get_slatepack_secret_key" => {
			let o = guarded(|| api.get_slatepack_secret_key(tok, 0));
			fin(&o, |k| json!(crate::hex8(k.as_bytes())))
		}
		"create_slatepack_message" => {
			let sl = stage(w, &r.pay, &["I1"]).unwrap_or_else(|| blank(SlateState::Invoice1));
			let (sender, rcpt) = match v {
				"nosender" => (None, vec![]),
				"enc" => (Some(0), SlatepackAddress::try_from(r.addr2.as_str()).ok().into_iter().collect()),
				_ => (Some(0), vec![]),
			};
			let o = guarded(|| api.create_slatepack_message(tok, &sl, sender, rcpt));
			fin(&o, |s| json!(s.starts_with("BEGINSLATEPACK")))
		}
		"slate_from_slatepack_message" => {
			let (msg, idx) = match v {
				"noidx" => (r.msg_plain.clone(), vec![]),
				"enc" => (r.msg_enc.clone(), vec![0]),
				_ => (r.msg_plain.clone(), vec![0]),
			};
			let o = guarded(|| api.slate_from_slatepack_message(tok, msg, idx));
			fin(&o, slate_proj)
		}
		"decode_slatepack_message" => {
			let (msg, idx) = match v {
				"noidx" => (r.msg_plain.clone(), vec![]),
				"enc" => (r.msg_enc.clone(), vec![0]),
				_ => (r.msg_plain.clone(), vec![0]),
			};
			let o = guarded(|| api.decode_slatepack_message(tok, msg, idx));
			fin(&o, |sp| json!({"sender": sp.sender.as_ref().map(|a| format!("{}", a)).unwrap_or_default(), "mode": sp.mode}))
		}
		"retrieve_payment_proof" => {
			let role = if r.proof_tx.is_some() { r.proof_tx.clone() } else { r.sent.clone() };
			let sid = if v == "noid" { None } else { Some(slate_id_of(w, &role).unwrap_or(Uuid::from_bytes([7u8; 16]))) };
			let o = guarded(|| api.retrieve_payment_proof(tok, v == "refresh", None, sid));
			fin(&o, |p| json!({"amt": units(p.amount), "sender": format!("{}", p.sender_address), "rcpt": format!("{}", p.recipient_address)}))
		}
		"verify_payment_proof" => {
			let p = r.proof.clone().unwrap_or_else(|| synthetic_proof(r));
			let o = guarded(|| api.verify_payment_proof(tok, &p));
			fin(&o, |x| json!([x.0, x.1]))
		}
		"build_output" => {
			let o = guarded(|| api.build_output(tok, OutputFeatures::Plain, 1000 * U));
			fin(&o, |b| json!([key_str(&b.key_id, &None), b.output.identifier.commit.0.to_vec().to_hex()]))
		}
		"create_mwixnet_req" => {
			let c = unspent_commit(w);
			let params = MixnetReqCreationParams { server_keys: vec![fixed_key(1), fixed_key(2)], fee_per_hop: 25 * U };
			let o = guarded(|| api.create_mwixnet_req(tok, &params, &c, v == "lock"));
			fin(&o, |_| Value::Null)
		}
		_ => ("unknown-method".into(), Value::Null, m.to_string()),
	}
}
