//! Worlds of the C14 scenarios: three wallets created from given recovery phrases (so that the
//! masked world and its unmasked twin hold the same keys), driven with the RIGHT token through
//! the harness's World operations to one of the named wallet states.
use crate::calls::Roles;
use grin_keychain::{mnemonic, ExtKeychain};
use grin_util::{Mutex, ZeroingString};
use grin_wallet_impls::DefaultWalletImpl;
use rand::Rng;
use serde_json::{json, Value};
use std::sync::Arc;
use vharness::libwallet::api_impl::owner;
use vharness::libwallet::{WalletInitStatus, WalletInst};
use vharness::node::DirectNode;
use vharness::world::{WalletH, World, LC, U};

pub struct Phrases {
	pub w1: String,
	pub w2: String,
	pub wo: String,
}

impl Phrases {
	pub fn new(rng: &mut rand::rngs::StdRng) -> Phrases {
		let mut mk = || {
			let mut e = [0u8; 32];
			rng.fill(&mut e);
			mnemonic::from_entropy(&e).unwrap()
		};
		Phrases { w1: mk(), w2: mk(), wo: mk() }
	}
}

/// what World::create_wallet does, with a given phrase; the init status is then set to what a
/// wallet created without a phrase has (no full scan on the first refresh)
pub fn create_wallet_from(w: &mut World, name: &str, masked: bool, phrase: &str) {
	let wdir = format!("{}/{}", w.dir, name);
	let mut wallet = Box::new(DefaultWalletImpl::<DirectNode>::new(w.node.clone()).unwrap())
		as Box<dyn WalletInst<'static, LC, DirectNode, ExtKeychain>>;
	let mask = {
		let lc = wallet.lc_provider().unwrap();
		lc.set_top_level_directory(&wdir).unwrap();
		lc.create_wallet(None, Some(ZeroingString::from(phrase)), 32, ZeroingString::from(""), false)
			.unwrap();
		let m = lc.open_wallet(None, ZeroingString::from(""), masked, false).unwrap();
		{
			let wi = lc.wallet_inst().unwrap();
			let mut b = wi.batch_no_mask().unwrap();
			b.save_init_status(WalletInitStatus::InitNoScanning).unwrap();
			b.commit().unwrap();
		}
		m
	};
	w.wallets.insert(
		name.to_string(),
		WalletH {
			name: name.to_string(),
			dir: wdir,
			inst: Some(Arc::new(Mutex::new(wallet))),
			mask,
			masked,
			password: "".into(),
			seed: name.to_string(),
			phrase: phrase.to_string(),
			active: "default".into(),
		},
	);
}

fn must(ev: Value, what: &str) -> Value {
	if ev["res"] != json!("ok") {
		panic!("setup step failed: {}: {}", what, ev);
	}
	ev
}

/// init in {"fresh", "funded", "pendsend", "pendrecv", "done"}
pub fn build(dir: &str, init: &str, masked: bool, ph: &Phrases) -> (World, Roles) {
	let mut w = World::new(dir, U);
	create_wallet_from(&mut w, "w1", masked, &ph.w1);
	create_wallet_from(&mut w, "w2", false, &ph.w2);
	create_wallet_from(&mut w, "wo", true, &ph.wo);
	// one refresh per coinbase: the log ids of coinbases confirmed by the same refresh follow a
	// HashMap iteration order (updater::apply_api_outputs) and would differ between the twins
	for _ in 0..2 {
		must(w.mine(Some("w2"), &[]), "mine w2");
		must(w.refresh("w2", 1), "refresh w2");
	}
	if init != "fresh" {
		for _ in 0..2 {
			must(w.mine(Some("w1"), &[]), "mine w1");
			must(w.refresh("w1", 1), "refresh w1");
		}
	}
	for _ in 0..3 {
		must(w.mine(None, &[]), "pad");
	}
	must(w.refresh("w1", 1), "refresh w1");
	must(w.refresh("w2", 1), "refresh w2");
	// a second, empty account next to "default" in every wallet state: calls may name it
	// (src_acct_name / dest_acct_name) and set_active_account may select it
	must(w.create_account("w1", "acct1"), "create acct1");
	let mut r = Roles::default();
	r.nacct = 1;
	match init {
		"pendsend" => {
			must(w.init_send("w1", "sA", &json!({"amt": 1000, "proof": "w2"})), "init sA");
			must(w.receive("w2", "sA", "", None), "recv sA");
			must(w.lock("w1", "sA", "S1", 0), "lock sA");
			must(w.init_send("w1", "sB", &json!({"amt": 1000})), "init sB");
			must(w.receive("w2", "sB", "", None), "recv sB");
			r.sent = Some("sA".into());
			r.unlocked = Some("sB".into());
		}
		"pendrecv" => {
			must(w.init_send("w2", "rA", &json!({"amt": 1000})), "init rA");
			must(w.receive("w1", "rA", "", None), "recv rA");
			must(w.issue_invoice("w1", "iA", &json!({"amt": 700})), "invoice iA");
			r.recv = Some("rA".into());
			r.inv = Some("iA".into());
		}
		"done" => {
			must(w.init_send("w1", "sA", &json!({"amt": 1000, "proof": "w2"})), "init sA");
			must(w.receive("w2", "sA", "", None), "recv sA");
			must(w.lock("w1", "sA", "S1", 0), "lock sA");
			must(w.finalize("w1", "sA", "S2", 0, None, false), "finalize sA");
			must(w.post("sA"), "post sA");
			must(w.mine(None, &["sA".to_string()]), "mine sA");
			must(w.mine(None, &[]), "pad");
			must(w.refresh("w1", 1), "refresh w1");
			must(w.refresh("w2", 1), "refresh w2");
			r.fin = Some("sA".into());
			r.proof_tx = Some("sA".into());
			let id = w.slates["sA"].id;
			let inst = w.inst("w1");
			let m = w.mask("w1");
			r.proof = owner::retrieve_payment_proof(inst, m.as_ref(), &None, false, None, id).ok();
			if r.proof.is_none() {
				panic!("setup: no payment proof in state done");
			}
		}
		_ => {}
	}
	// an invoice of w2 that w1 may pay, and two slatepack messages (plain, encrypted to w1)
	must(w.issue_invoice("w2", "iP", &json!({"amt": 500})), "invoice iP");
	r.pay = Some("iP".into());
	{
		let (i1, m1) = (w.inst("w1"), w.mask("w1"));
		let i2 = w.inst("w2");
		r.rewind = owner::get_rewind_hash(i1.clone(), m1.as_ref()).unwrap();
		let a1 = owner::get_slatepack_address(i1.clone(), m1.as_ref(), 0).unwrap();
		let a2 = owner::get_slatepack_address(i2.clone(), None, 0).unwrap();
		r.addr1 = format!("{}", a1);
		r.addr2 = format!("{}", a2);
		let sl = w.slates["iP"].stage["I1"].clone();
		r.msg_plain = owner::create_slatepack_message(i2.clone(), None, &sl, None, vec![]).unwrap();
		r.msg_enc = owner::create_slatepack_message(i2.clone(), None, &sl, Some(0), vec![a1]).unwrap();
	}
	(w, r)
}
