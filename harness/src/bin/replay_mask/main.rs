//! replay_mask --in in.json --out events.ndjson [--jobs N]
//!
//! C14 (keychain mask).  Executes, on the REAL `grin_wallet_api::Owner`, the scenarios that
//! TLC generated from spec/OwnerMask.tla and records what happened.  Nothing is judged here.
//!
//! in.json: {"seed": n, "scenarios": [{"id": n, "init": <state>, "twin": bool, "ops": [op, ..]}]}
//!   op = {"op": "call", "mode": "hist"|"case"|"probe", "m": <method>, "v": <variant>,
//!         "tok": "right"|"absent"|"random"|"bitflip"|"other"|"stale"|"zero", "bit": 0..255}
//!      | {"op": "close"} | {"op": "reopen"} | {"op": "step", "e": <driver event>}
//!      | {"op": "node", "up": bool}
//!
//! Every scenario runs on a PAIR of worlds built from the same recovery phrases: world M
//! (wallet w1 opened with a keychain mask) and, when "twin" is set, world U (the same wallet
//! opened without a mask).  Both receive the same operations; the token handed to U is
//! right -> None, random/other -> the same kind of token (wrong for U), other kinds -> not run.
//!
//! One ndjson line per operation: the operation, and for each world the result class, a digest
//! of the normalised return value, and before/after digests of (a) every file of the wallet
//! directory (LMDB reader table excluded) and (b) each section of the projected abstract state.
mod calls;
mod setup;

use calls::{do_call, Api, Roles};
use grin_core::global;
use grin_util::secp::key::SecretKey;
use grin_util::ZeroingString;
use rand::{Rng, SeedableRng};
use serde_json::{json, Map, Value};
use sha2::{Digest, Sha256};
use std::io::Write;
use std::path::Path;
use std::sync::atomic::{AtomicUsize, Ordering};
use std::sync::{Arc, Mutex};
use vharness::driver;
use vharness::world::{guarded, Outcome, Snapshot, World, U};

pub fn hex8(bytes: &[u8]) -> String {
	let mut h = Sha256::new();
	h.update(bytes);
	h.finalize().iter().take(8).map(|b| format!("{:02x}", b)).collect()
}

fn walk(p: &Path, rel: &str, out: &mut Vec<(String, Vec<u8>)>) {
	if let Ok(rd) = std::fs::read_dir(p) {
		let mut es: Vec<_> = rd.filter_map(|e| e.ok()).collect();
		es.sort_by_key(|e| e.file_name());
		for e in es {
			let name = e.file_name().to_string_lossy().to_string();
			let r = if rel.is_empty() { name.clone() } else { format!("{}/{}", rel, name) };
			let path = e.path();
			if path.is_dir() {
				out.push((format!("{}/", r), vec![]));
				walk(&path, &r, out);
			} else if name != "lock.mdb" && !name.ends_with(".log") {
				out.push((r, std::fs::read(&path).unwrap_or_default()));
			}
		}
	}
}

fn copy_dir(from: &Path, to: &Path) {
	std::fs::create_dir_all(to).unwrap();
	for e in std::fs::read_dir(from).unwrap() {
		let e = e.unwrap();
		let (p, t) = (e.path(), to.join(e.file_name()));
		if p.is_dir() {
			copy_dir(&p, &t);
		} else {
			std::fs::copy(&p, &t).unwrap();
		}
	}
}

/// digest of everything the wallet keeps on disk (LMDB reader-lock table excluded)
fn files_digest(dir: &str) -> String {
	let mut files = vec![];
	walk(Path::new(dir), "", &mut files);
	let mut h = Sha256::new();
	for (n, b) in files.iter() {
		h.update(n.as_bytes());
		h.update(&(b.len() as u64).to_le_bytes());
		h.update(b);
	}
	h.finalize().iter().take(8).map(|b| format!("{:02x}", b)).collect()
}

pub const SECTIONS: [&str; 8] = ["outs", "txs", "ctxs", "idx", "files", "active", "scanned", "init"];

/// the IN-MEMORY state of the open wallet that an owner holding the right token can observe:
/// which keychain the right token unlocks (digest of the rewind hash = root public key; an error
/// class when it unlocks nothing), the active account as the API reports it (the account whose
/// summary / addresses the next right-token calls act on) and the account list
fn volatile_state(w: &mut World, wn: &str) -> Value {
	use vharness::libwallet::api_impl::owner;
	let inst = w.inst(wn);
	let mask = w.mask(wn);
	let kc = match guarded(|| owner::get_rewind_hash(inst.clone(), mask.as_ref())) {
		Outcome::Ok(h) => hex8(h.as_bytes()),
		o => o.res(),
	};
	let acct = w.with(wn, |wi, _| {
		let active = wi.parent_key_id();
		let l: Vec<String> = wi
			.acct_path_iter()
			.map(|a| format!("{}={}{}", a.label, vharness::world::acct_str(&a.path), if a.path == active { "*" } else { "" }))
			.collect();
		Ok(l.join(","))
	});
	let accts = match acct {
		Outcome::Ok(s) => s,
		o => o.res(),
	};
	let addr = match guarded(|| owner::get_slatepack_address(inst, mask.as_ref(), 0)) {
		Outcome::Ok(a) => hex8(format!("{}", a).as_bytes()),
		o => o.res(),
	};
	json!({"keychain": kc, "accounts": accts, "address": addr})
}

/// observed store of wallet `wn`: file digest + one digest per section of the projection
fn observe(w: &mut World, wn: &str) -> Value {
	let files = files_digest(&w.wallets[wn].dir);
	let o = w.obs_wallet(wn);
	let mut proj = Map::new();
	for s in SECTIONS.iter() {
		let v = o.get(*s).cloned().unwrap_or(Value::Null);
		proj.insert(s.to_string(), json!(hex8(v.to_string().as_bytes())));
	}
	let vol = volatile_state(w, wn);
	proj.insert("keychain".to_string(), vol["keychain"].clone());
	proj.insert("accounts".to_string(), json!(hex8(vol["accounts"].as_str().unwrap_or("").as_bytes())));
	proj.insert("address".to_string(), vol["address"].clone());
	let readable = o.get("outs").is_some();
	let full = if std::env::var("VERIF_MASK_DEBUG").is_ok() { o.clone() } else { Value::Null };
	json!({"files": files, "proj": proj, "readable": readable, "full": full, "vol": vol,
		"nouts": o["outs"].as_object().map(|m| m.len()).unwrap_or(0),
		"ntxs": o["txs"].as_object().map(|m| m.len()).unwrap_or(0),
		"nctx": o["ctxs"].as_object().map(|m| m.len()).unwrap_or(0),
		"active": o["active"].as_str().unwrap_or("")})
}

pub struct Side {
	pub w: World,
	pub roles: Roles,
	pub masked: bool,
	/// token that was valid before the latest (re)open of w1
	pub stale: Option<SecretKey>,
	pub snap: Option<(Snapshot, Roles)>,
	/// (m, v) -> result class of the right-token call at the current state
	pub rr: std::collections::BTreeMap<(String, String), String>,
}

impl Side {
	fn api(&self) -> Api {
		grin_wallet_api::Owner::new(self.w.inst("w1"), None)
	}

	/// the token of kind `kind` for this side; None = this kind is not run on this side
	fn token(&self, kind: &str, bit: usize, rng: &mut rand::rngs::StdRng) -> Option<Option<SecretKey>> {
		let right = self.w.mask("w1");
		if self.masked {
			match kind {
				"right" => Some(right),
				"absent" => Some(None),
				"random" => Some(Some(random_key(rng))),
				"bitflip" => right.map(|mut t| {
					t.0[(bit / 8) % 32] ^= 1u8 << (bit % 8);
					Some(t)
				}),
				"other" => Some(self.w.mask("wo")),
				"stale" => self.stale.clone().map(Some),
				"zero" => right.map(|mut t| {
					t.0 = [0u8; 32];
					Some(t)
				}),
				_ => None,
			}
		} else {
			// the unmasked twin: no token is the right token
			match kind {
				"right" => Some(None),
				"random" => Some(Some(random_key(rng))),
				"other" => Some(self.w.mask("wo")),
				_ => None,
			}
		}
	}
}

fn random_key(rng: &mut rand::rngs::StdRng) -> SecretKey {
	let secp = grin_util::static_secp_instance();
	let secp = secp.lock();
	loop {
		let mut b = [0u8; 32];
		rng.fill(&mut b);
		if let Ok(k) = SecretKey::from_slice(&secp, &b) {
			return k;
		}
	}
}

/// one owner call on one side; returns the per-side record
fn call_side(s: &mut Side, op: &Value, rng: &mut rand::rngs::StdRng) -> Option<Value> {
	let m = op["m"].as_str().unwrap_or("");
	let v = op["v"].as_str().unwrap_or("");
	let kind = op["tok"].as_str().unwrap_or("right");
	let mode = op["mode"].as_str().unwrap_or("case");
	let bit = op["bit"].as_u64().unwrap_or(0) as usize;
	let tok = s.token(kind, bit, rng)?;
	let tokeq = tok == s.w.mask("w1");
	let pre = observe(&mut s.w, "w1");
	let api = s.api();
	let mut roles = s.roles.clone();
	let commit = mode == "hist";
	let (res, ret, detail) = do_call(&api, &mut s.w, &mut roles, m, v, tok.as_ref(), commit);
	drop(api);
	let post = observe(&mut s.w, "w1");
	let changed = pre["files"] != post["files"] || pre["proj"] != post["proj"];
	let key = (m.to_string(), v.to_string());
	let is_right = kind == "right";
	let rr = if is_right { res.clone() } else { s.rr.get(&key).cloned().unwrap_or_default() };
	match mode {
		"hist" => {
			s.roles = roles;
			if changed {
				s.snap = None;
				s.rr.clear();
			}
		}
		"case" => {
			if is_right {
				s.rr.insert(key, res.clone());
			}
		}
		_ => {}
	}
	let retd = if ret.is_null() { "".to_string() } else { hex8(ret.to_string().as_bytes()) };
	Some(json!({"res": res, "ret": retd, "retshow": ret, "detail": detail, "pre": pre, "post": post,
		"changed": changed, "rr": rr, "tokgiven": tok.is_some(), "tokeq": tokeq}))
}

fn ensure_snapshot(s: &mut Side, tag: &str) {
	if s.snap.is_none() {
		let old = s.w.mask("w1");
		let snap = s.w.snapshot(tag);
		// snapshot() closes and reopens every wallet: the previous token is stale now
		if old.is_some() {
			s.stale = old;
		}
		s.snap = Some((snap, s.roles.clone()));
		s.rr.clear();
		reactivate(s);
	}
}

/// snapshot/restore reopen the wallet, which resets the (volatile) active account
fn reactivate(s: &mut Side) {
	if s.roles.active != "" && s.roles.active != "default" {
		let label = s.roles.active.clone();
		let _ = s.w.set_active("w1", &label);
	}
}

fn restore(s: &mut Side) {
	if let Some((snap, roles)) = s.snap.as_ref() {
		let old = s.w.mask("w1");
		// only w1 can have changed (case-mode calls never touch the other wallets): put back its
		// directory and the registries, reopen it (what World::restore does, for one wallet)
		let dir = s.w.wallets["w1"].dir.clone();
		s.w.wallets.get_mut("w1").unwrap().inst = None;
		let _ = std::fs::remove_dir_all(&dir);
		copy_dir(&Path::new(&snap.dir).join("w1"), Path::new(&dir));
		s.w.set_regs(&snap.regs);
		let _ = s.w.reopen("w1");
		if old.is_some() {
			s.stale = old;
		}
		s.roles = roles.clone();
		reactivate(s);
	}
}

fn close_side(s: &mut Side) -> Value {
	let pre = observe(&mut s.w, "w1");
	let api = s.api();
	let r = guarded(|| api.close_wallet(None));
	drop(api);
	let post = observe(&mut s.w, "w1");
	s.snap = None;
	s.rr.clear();
	json!({"res": r.res(), "pre": pre, "post": post})
}

fn reopen_side(s: &mut Side) -> Value {
	let pre = observe(&mut s.w, "w1");
	let old = s.w.mask("w1");
	let api = s.api();
	let masked = s.masked;
	let r = guarded(|| api.open_wallet(None, ZeroingString::from(""), masked));
	drop(api);
	let res = r.res();
	if let Outcome::Ok(mask) = r {
		if old.is_some() {
			s.stale = old;
		}
		s.w.wallets.get_mut("w1").unwrap().mask = mask;
		s.roles.active.clear();
	}
	let post = observe(&mut s.w, "w1");
	s.snap = None;
	s.rr.clear();
	json!({"res": res, "pre": pre, "post": post, "newtoken": s.w.mask("w1") != s.stale && s.w.mask("w1").is_some()})
}

fn step_side(s: &mut Side, e: &Value) -> Value {
	let mut r = driver::step(&mut s.w, e);
	if let Some(o) = r.as_object_mut() {
		o.remove("detail");
		o.remove("w");
	}
	let res = r["res"].as_str().unwrap_or("").to_string();
	let post = observe(&mut s.w, "w1");
	let post2 = observe(&mut s.w, "w2");
	s.snap = None;
	s.rr.clear();
	json!({"res": res, "ret": hex8(r.to_string().as_bytes()), "retshow": r, "post": post, "post2": post2})
}

fn run_scenario(root: &str, sc: &Value, seed: u64) -> Vec<String> {
	let id = sc["id"].as_u64().unwrap_or(0);
	let init = sc["init"].as_str().unwrap_or("funded");
	let twin = sc["twin"].as_bool().unwrap_or(true);
	let mut rng = rand::rngs::StdRng::seed_from_u64(seed.wrapping_mul(1_000_003).wrapping_add(id));
	let phrases = setup::Phrases::new(&mut rng);
	let mut out = vec![];
	let mut sides: Vec<Side> = vec![];
	for (k, masked) in [(0usize, true), (1usize, false)].iter() {
		if !*masked && !twin {
			continue;
		}
		let dir = format!("{}/s{}_{}", root, id, k);
		let (w, roles) = setup::build(&dir, init, *masked, &phrases);
		sides.push(Side { w, roles, masked: *masked, stale: None, snap: None, rr: Default::default() });
	}
	// a reopen at the start makes a stale token exist on the masked side (and keeps the pair symmetric)
	for s in sides.iter_mut() {
		let old = s.w.mask("w1");
		let _ = s.w.reopen("w1");
		s.stale = old;
	}
	{
		let pre: Vec<Value> = sides.iter_mut().map(|s| observe(&mut s.w, "w1")).collect();
		out.push(
			json!({"ev": "reset", "b": id, "init": init, "twin": twin, "mw": {"post": pre[0]},
				"tw": if pre.len() > 1 { json!({"post": pre[1]}) } else { Value::Null }})
			.to_string(),
		);
	}
	let ops = sc["ops"].as_array().cloned().unwrap_or_default();
	for (i, op) in ops.iter().enumerate() {
		let kind = op["op"].as_str().unwrap_or("");
		let mut line = json!({"b": id, "i": i, "init": init});
		match kind {
			"call" => {
				let mode = op["mode"].as_str().unwrap_or("case");
				if mode == "case" {
					for (k, s) in sides.iter_mut().enumerate() {
						ensure_snapshot(s, &format!("c{}", k));
					}
				}
				// the same random token bytes on both sides
				let rs: u64 = rng.gen();
				let mut recs = vec![];
				for s in sides.iter_mut() {
					let mut r2 = rand::rngs::StdRng::seed_from_u64(rs);
					recs.push(call_side(s, op, &mut r2));
				}
				if mode == "case" && recs.iter().any(|r| r.as_ref().map(|x| x["changed"] == json!(true)).unwrap_or(false)) {
					for s in sides.iter_mut() {
						restore(s);
					}
				}
				line["ev"] = json!("call");
				for f in ["m", "v", "tok", "mode", "bit"].iter() {
					line[*f] = op.get(*f).cloned().unwrap_or(Value::Null);
				}
				line["mw"] = recs[0].clone().unwrap_or(Value::Null);
				line["tw"] = recs.get(1).cloned().flatten().unwrap_or(Value::Null);
			}
			"close" => {
				line["ev"] = json!("close");
				let recs: Vec<Value> = sides.iter_mut().map(close_side).collect();
				line["mw"] = recs[0].clone();
				line["tw"] = recs.get(1).cloned().unwrap_or(Value::Null);
			}
			"reopen" => {
				line["ev"] = json!("reopen");
				let recs: Vec<Value> = sides.iter_mut().map(reopen_side).collect();
				line["mw"] = recs[0].clone();
				line["tw"] = recs.get(1).cloned().unwrap_or(Value::Null);
			}
			"step" => {
				line["ev"] = json!("step");
				line["e"] = op["e"].clone();
				let recs: Vec<Value> = sides.iter_mut().map(|s| step_side(s, &op["e"])).collect();
				line["mw"] = recs[0].clone();
				line["tw"] = recs.get(1).cloned().unwrap_or(Value::Null);
			}
			"node" => {
				let up = op["up"].as_bool().unwrap_or(true);
				for s in sides.iter_mut() {
					s.w.node_up(up);
					s.rr.clear();
				}
				line["ev"] = json!("node");
				line["up"] = json!(up);
			}
			_ => {
				line["ev"] = json!("unknown-op");
			}
		}
		out.push(line.to_string());
	}
	for s in sides.drain(..) {
		let dir = s.w.dir.clone();
		drop(s);
		let _ = std::fs::remove_dir_all(&dir);
	}
	out
}

fn main() {
	let args: Vec<String> = std::env::args().collect();
	let (mut inp, mut outp, mut jobs) = (String::new(), String::new(), 12usize);
	let mut i = 1;
	while i < args.len() {
		match args[i].as_str() {
			"--in" => {
				inp = args[i + 1].clone();
				i += 1;
			}
			"--out" => {
				outp = args[i + 1].clone();
				i += 1;
			}
			"--jobs" => {
				jobs = args[i + 1].parse().unwrap();
				i += 1;
			}
			_ => {}
		}
		i += 1;
	}
	std::panic::set_hook(Box::new(|_| {}));
	// threads spawned by the code under test (start_updater) have no thread-local chain type
	global::init_global_chain_type(global::ChainTypes::AutomatedTesting);
	global::init_global_accept_fee_base(U);
	let v: Value = serde_json::from_str(&std::fs::read_to_string(&inp).expect("read input")).expect("json");
	let seed = v["seed"].as_u64().unwrap_or(1);
	let scs: Vec<Value> = v["scenarios"].as_array().cloned().unwrap_or_default();
	let root = driver::tmp_root();
	let next = Arc::new(AtomicUsize::new(0));
	let results: Arc<Mutex<Vec<Option<Vec<String>>>>> = Arc::new(Mutex::new(vec![None; scs.len()]));
	let scs = Arc::new(scs);
	let mut handles = vec![];
	for _ in 0..jobs.max(1) {
		let (next, results, scs, root) = (next.clone(), results.clone(), scs.clone(), root.clone());
		handles.push(
			std::thread::Builder::new()
				.stack_size(64 << 20)
				.spawn(move || loop {
					let i = next.fetch_add(1, Ordering::SeqCst);
					if i >= scs.len() {
						break;
					}
					let lines = match std::panic::catch_unwind(std::panic::AssertUnwindSafe(|| run_scenario(&root, &scs[i], seed))) {
						Ok(l) => l,
						Err(p) => vec![json!({"ev": "harness_panic", "b": scs[i]["id"], "detail": vharness::world::panic_msg(&p)}).to_string()],
					};
					results.lock().unwrap()[i] = Some(lines);
				})
				.unwrap(),
		);
	}
	for h in handles {
		let _ = h.join();
	}
	let _ = std::fs::remove_dir_all(&root);
	let mut f = std::io::BufWriter::new(std::fs::File::create(&outp).expect("create out"));
	let mut n = 0;
	for r in results.lock().unwrap().iter_mut() {
		if let Some(l) = r.take() {
			for x in l {
				writeln!(f, "{}", x).unwrap();
				n += 1;
			}
		}
	}
	eprintln!("replayed {} scenarios, {} lines", scs.len(), n);
}
