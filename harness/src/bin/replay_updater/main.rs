//! replay_updater --in scripts.json --out events.ndjson
//! Life cycle of the background updater (spec/Updater.tla) on the real code: the scripts
//! (start / stop / pass, generated from the model's behaviours) drive api::Owner::start_updater
//! and stop_updater; the threads the wallet spawns itself ("wallet-updater") park in the
//! wallet_lock! hook through the process-wide default handler, so every pass of
//! Updater::run is released section by section and what the threads do (acquire the updater
//! mutex, begin a pass, end it, sleep, wake, exit, fail) is OBSERVED and logged.  TLC
//! (spec/TraceUpdater.tla) then checks that the logged sequence is a behaviour of Updater.tla.
//! One script at a time (the default handler is process wide).
use serde_json::{json, Value};
use std::collections::HashMap;
use std::io::Write;
use std::sync::atomic::{AtomicUsize, Ordering};
use std::sync::{Arc, Condvar, Mutex};
use std::time::{Duration, Instant};
use vharness::driver::{setup_world, tmp_root};
use vharness::libwallet::api_impl::owner;
use vharness::world::{guarded, set_thread_globals, World, LC, U};
use vharness::node::DirectNode;
use grin_core::global;
use grin_keychain::ExtKeychain;

type Api = grin_wallet_api::Owner<LC, DirectNode, ExtKeychain>;

struct Sched {
	/// (thread number, hits so far) of every updater thread seen, in order of first hit
	hits: Mutex<Vec<usize>>,
	permits: Mutex<HashMap<usize, usize>>,
	cv: Condvar,
	next: AtomicUsize,
	free: std::sync::atomic::AtomicBool,
}
thread_local! { static MYNUM: std::cell::Cell<usize> = std::cell::Cell::new(0); }

fn updater_threads() -> usize {
	let mut n = 0;
	if let Ok(rd) = std::fs::read_dir("/proc/self/task") {
		for e in rd.flatten() {
			if let Ok(c) = std::fs::read_to_string(e.path().join("comm")) {
				if c.trim() == "wallet-updater" {
					n += 1;
				}
			}
		}
	}
	n
}

fn wait_until<F: FnMut() -> bool>(mut f: F, ms: u64) -> bool {
	let t0 = Instant::now();
	while t0.elapsed() < Duration::from_millis(ms) {
		if f() {
			return true;
		}
		std::thread::sleep(Duration::from_millis(3));
	}
	f()
}

/// number of wallet_lock points of one pass of update_wallet_state on this (idle) wallet
fn sections_per_pass(w: &World, wn: &str) -> usize {
	let inst = w.inst(wn);
	let mask = w.mask(wn);
	let unit = w.unit;
	std::thread::spawn(move || {
		set_thread_globals(unit);
		let c = std::rc::Rc::new(std::cell::Cell::new(0usize));
		let c2 = c.clone();
		grin_wallet_util::verif::set_handler(Some(Box::new(move |n: &str| {
			if n == "wallet_lock" {
				c2.set(c2.get() + 1);
			}
			false
		})));
		let _ = guarded(|| owner::update_wallet_state(inst, mask.as_ref(), &None, false));
		grin_wallet_util::verif::set_handler(None);
		c.get()
	})
	.join()
	.unwrap_or(0)
}

fn run_script(dir: &str, script: &[Value], bid: usize, sch: &Arc<Sched>) -> Vec<String> {
	let mut out = vec![];
	let setup = json!({"nfund": 1, "pad": 3, "masked": true});
	let w = setup_world(dir, &setup);
	let n = sections_per_pass(&w, "w1");
	sch.hits.lock().unwrap().clear();
	sch.permits.lock().unwrap().clear();
	sch.next.store(0, Ordering::SeqCst);
	sch.free.store(false, Ordering::SeqCst);
	let api: Api = grin_wallet_api::Owner::new(w.inst("w1"), None);
	let mut mask = w.mask("w1");
	let mut log = |e: Value, out: &mut Vec<String>| {
		let mut e = e;
		e["b"] = json!(bid);
		out.push(e.to_string());
	};
	log(json!({"ev": "reset", "sections": n}), &mut out);
	// model thread numbers: order of start; real threads are numbered in order of their first hit
	let mut started = 0usize; // threads started
	let mut known = 0usize; // threads whose first hit was seen (= have acquired the updater mutex)
	let mut runner: Option<usize> = None; // the thread inside its run, parked at a lock point
	let mut released: usize = 0; // sections of the current pass released so far
	let observe_new = |known: &mut usize, runner: &mut Option<usize>, released: &mut usize, out: &mut Vec<String>, log: &mut dyn FnMut(Value, &mut Vec<String>)| {
		// a thread we have not seen before parks: it acquired the updater mutex and began a pass
		let k = *known;
		if wait_until(|| sch.hits.lock().unwrap().len() > k, 1500) {
			*known += 1;
			*runner = Some(*known);
			*released = 0;
			log(json!({"ev": "acquire", "t": *known}), out);
			log(json!({"ev": "begin", "t": *known}), out);
			true
		} else {
			false
		}
	};
	let obs = |api: &Api, out: &mut Vec<String>, log: &mut dyn FnMut(Value, &mut Vec<String>), runner: &Option<usize>, started: usize, known: usize| {
		log(json!({"ev": "obs", "running": api.updater_running.load(Ordering::Relaxed), "threads": updater_threads(),
			"runner": runner.unwrap_or(0), "waiting": started - known}), out);
	};
	for cmd in script {
		match cmd["ev"].as_str().unwrap_or("") {
			c @ ("start" | "start_badmask") => {
				let m = if c == "start" {
					mask.clone()
				} else {
					// a token that is not the wallet's: every pass fails with an invalid-mask error
					let secp = grin_util::static_secp_instance();
					let secp = secp.lock();
					Some(grin_util::secp::key::SecretKey::from_slice(&secp, &[7u8; 32]).unwrap())
				};
				let before = updater_threads();
				let r = api.start_updater(m.as_ref(), Duration::from_millis(60));
				started += 1;
				wait_until(|| updater_threads() > before, 1000);
				log(json!({"ev": "start", "res": if r.is_ok() { "ok" } else { "err" }}), &mut out);
				if runner.is_none() {
					observe_new(&mut known, &mut runner, &mut released, &mut out, &mut log);
				}
			}
			"stop" => {
				let _ = api.stop_updater();
				log(json!({"ev": "stop"}), &mut out);
			}
			// close_wallet under the parked pass: its next wallet_lock! finds no open wallet
			"close" => {
				let r = api.close_wallet(None);
				log(json!({"ev": "close", "res": if r.is_ok() { "ok" } else { "err" }}), &mut out);
			}
			// open_wallet (masked, as the world was set up): later starts use the new token
			"open" => {
				let r = api.open_wallet(None, grin_util::ZeroingString::from(""), true);
				let ok = r.is_ok();
				if let Ok(m) = r {
					mask = m;
				}
				log(json!({"ev": "open", "res": if ok { "ok" } else { "err" }}), &mut out);
			}
			c @ ("pass" | "pass_stop") => {
				let stop_after = c == "pass_stop";
				// let the running thread finish the pass it is in
				if let Some(t) = runner {
					let mut failed = false;
					while released < n {
						let seen = sch.hits.lock().unwrap()[t - 1];
						{
							let mut p = sch.permits.lock().unwrap();
							*p.entry(t).or_insert(0) += 1;
							sch.cv.notify_all();
						}
						released += 1;
						if released == n {
							if stop_after {
								// stop_updater right after the last section was released: it lands in the
								// thread's sleep unless the thread is slower than we are
								std::thread::sleep(Duration::from_millis(12));
								let _ = api.stop_updater();
							}
							break;
						}
						let th0 = updater_threads();
						// next lock point of the same pass, or the thread is gone (the pass failed)
						let ok = wait_until(|| sch.hits.lock().unwrap()[t - 1] > seen || updater_threads() < th0, 3000);
						if !ok || sch.hits.lock().unwrap()[t - 1] == seen {
							failed = true;
							break;
						}
					}
					if failed {
						log(json!({"ev": "fail", "t": t}), &mut out);
						runner = None;
						observe_new(&mut known, &mut runner, &mut released, &mut out, &mut log);
					} else {
						// the pass is over: the thread exits (flag down) or sleeps and begins another pass
						let seen = sch.hits.lock().unwrap()[t - 1];
						let live0 = started - (known - 1); // waiting threads + this one, roughly
						let _ = live0;
						let th0 = updater_threads();
						let gone_or_back = wait_until(|| sch.hits.lock().unwrap()[t - 1] > seen || updater_threads() < th0, 3000);
						// the flag is read once, at the end of the pass: the thread that exits saw the stop, the one
						// that sleeps did not - that is the order of the two events
						let slept = gone_or_back && sch.hits.lock().unwrap()[t - 1] > seen;
						if stop_after && !slept {
							log(json!({"ev": "stop"}), &mut out);
						}
						if slept {
							log(json!({"ev": "end", "t": t, "to": "sleep"}), &mut out);
							if stop_after {
								log(json!({"ev": "stop"}), &mut out);
							}
							log(json!({"ev": "wake", "t": t}), &mut out);
							log(json!({"ev": "begin", "t": t}), &mut out);
							released = 0;
						} else if gone_or_back {
							log(json!({"ev": "end", "t": t, "to": "exited"}), &mut out);
							runner = None;
							if started > known {
								observe_new(&mut known, &mut runner, &mut released, &mut out, &mut log);
							}
						} else {
							log(json!({"ev": "hang", "t": t}), &mut out);
							runner = None;
						}
					}
				} else {
					log(json!({"ev": "pass", "res": "skip"}), &mut out);
				}
			}
			_ => {}
		}
		obs(&api, &mut out, &mut log, &runner, started, known);
	}
	// let everything run free and end
	let _ = api.stop_updater();
	sch.free.store(true, Ordering::SeqCst);
	sch.cv.notify_all();
	let ended = wait_until(|| updater_threads() == 0, 5000);
	if !ended {
		// a thread that started after the stop (it sets the flag again): stop once more
		let _ = api.stop_updater();
		wait_until(|| updater_threads() == 0, 5000);
	}
	log(json!({"ev": "teardown", "threads_left": updater_threads()}), &mut out);
	drop(api);
	drop(w);
	let _ = std::fs::remove_dir_all(dir);
	out
}

fn main() {
	let args: Vec<String> = std::env::args().collect();
	let (mut inp, mut outp) = (String::new(), String::new());
	let mut i = 1;
	while i < args.len() {
		match args[i].as_str() {
			"--in" => { inp = args[i + 1].clone(); i += 1; }
			"--out" => { outp = args[i + 1].clone(); i += 1; }
			_ => {}
		}
		i += 1;
	}
	std::panic::set_hook(Box::new(|_| {}));
	set_thread_globals(U);
	global::init_global_chain_type(global::ChainTypes::AutomatedTesting);
	global::init_global_accept_fee_base(U);
	let v: Value = serde_json::from_str(&std::fs::read_to_string(&inp).expect("read")).expect("json");
	let scripts: Vec<Value> = v["scripts"].as_array().cloned().unwrap_or_default();
	let sch = Arc::new(Sched {
		hits: Mutex::new(vec![]),
		permits: Mutex::new(HashMap::new()),
		cv: Condvar::new(),
		next: AtomicUsize::new(0),
		free: std::sync::atomic::AtomicBool::new(false),
	});
	let s2 = sch.clone();
	grin_wallet_util::verif::set_default_handler(Some(Arc::new(move |name: &str| {
		if name != "wallet_lock" || std::thread::current().name() != Some("wallet-updater") {
			return false;
		}
		let me = MYNUM.with(|c| {
			if c.get() == 0 {
				c.set(s2.next.fetch_add(1, Ordering::SeqCst) + 1);
				s2.hits.lock().unwrap().push(0);
			}
			c.get()
		});
		{
			let mut h = s2.hits.lock().unwrap();
			if me <= h.len() {
				h[me - 1] += 1;
			}
		}
		// park until the driver grants a permit (or lets everything run free)
		let mut p = s2.permits.lock().unwrap();
		loop {
			if s2.free.load(Ordering::SeqCst) {
				break;
			}
			let e = p.entry(me).or_insert(0);
			if *e > 0 {
				*e -= 1;
				break;
			}
			let (g, _) = s2.cv.wait_timeout(p, Duration::from_millis(200)).unwrap();
			p = g;
		}
		false
	})));
	let root = tmp_root();
	let mut f = std::io::BufWriter::new(std::fs::File::create(&outp).expect("create"));
	let mut n = 0;
	for (i, s) in scripts.iter().enumerate() {
		let dir = format!("{}/u{}", root, i);
		let sc = s.as_array().cloned().unwrap_or_default();
		let lines = match std::panic::catch_unwind(std::panic::AssertUnwindSafe(|| run_script(&dir, &sc, i, &sch))) {
			Ok(l) => l,
			Err(p) => vec![json!({"ev": "harness_panic", "b": i, "detail": vharness::world::panic_msg(&p)}).to_string()],
		};
		for x in lines {
			writeln!(f, "{}", x).unwrap();
			n += 1;
		}
	}
	grin_wallet_util::verif::set_default_handler(None);
	let _ = std::fs::remove_dir_all(&root);
	eprintln!("updater: {} scripts, {} lines", scripts.len(), n);
}
