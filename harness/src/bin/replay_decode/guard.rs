//! Execution guard of the decode harness: a counting global allocator with a cap,
//! a panic hook that records where the code under test panicked, and the
//! normalisation of a panic location into a stable site name.
//! Nothing here judges: it records res = ok | err | panic (+ site), bytes allocated, time.
use std::alloc::{GlobalAlloc, Layout, System};
use std::sync::atomic::{AtomicIsize, AtomicUsize, Ordering};
use std::sync::Mutex;

pub struct CountingAlloc;

static LIVE: AtomicIsize = AtomicIsize::new(0);
static BASE: AtomicIsize = AtomicIsize::new(0);
static PEAK: AtomicIsize = AtomicIsize::new(0);
/// 0 = no cap
static CAP: AtomicIsize = AtomicIsize::new(0);
static NALLOC: AtomicUsize = AtomicUsize::new(0);

extern "C" {
	fn write(fd: i32, buf: *const u8, n: usize) -> isize;
	fn _exit(code: i32) -> !;
}

/// the process dies with exit code 97: the parent records res = "alloc" for the run in progress
fn die_alloc() -> ! {
	let m = b"\n@@A\n";
	unsafe {
		write(1, m.as_ptr(), m.len());
		_exit(97)
	}
}

#[inline]
fn add(n: usize) {
	let l = LIVE.fetch_add(n as isize, Ordering::Relaxed) + n as isize;
	NALLOC.fetch_add(1, Ordering::Relaxed);
	if l > PEAK.load(Ordering::Relaxed) {
		PEAK.store(l, Ordering::Relaxed);
	}
	let cap = CAP.load(Ordering::Relaxed);
	if cap > 0 && l - BASE.load(Ordering::Relaxed) > cap {
		die_alloc();
	}
}

unsafe impl GlobalAlloc for CountingAlloc {
	unsafe fn alloc(&self, layout: Layout) -> *mut u8 {
		let p = System.alloc(layout);
		if p.is_null() {
			if CAP.load(Ordering::Relaxed) > 0 {
				die_alloc();
			}
		} else {
			add(layout.size());
		}
		p
	}
	unsafe fn alloc_zeroed(&self, layout: Layout) -> *mut u8 {
		let p = System.alloc_zeroed(layout);
		if p.is_null() {
			if CAP.load(Ordering::Relaxed) > 0 {
				die_alloc();
			}
		} else {
			add(layout.size());
		}
		p
	}
	unsafe fn dealloc(&self, ptr: *mut u8, layout: Layout) {
		LIVE.fetch_sub(layout.size() as isize, Ordering::Relaxed);
		System.dealloc(ptr, layout)
	}
	unsafe fn realloc(&self, ptr: *mut u8, layout: Layout, new_size: usize) -> *mut u8 {
		let p = System.realloc(ptr, layout, new_size);
		if p.is_null() {
			if CAP.load(Ordering::Relaxed) > 0 {
				die_alloc();
			}
		} else {
			LIVE.fetch_sub(layout.size() as isize, Ordering::Relaxed);
			add(new_size);
		}
		p
	}
}

/// start measuring a run: allocations above `cap` bytes over the current level kill the process
pub fn arm(cap: usize) {
	let l = LIVE.load(Ordering::Relaxed);
	BASE.store(l, Ordering::Relaxed);
	PEAK.store(l, Ordering::Relaxed);
	CAP.store(cap as isize, Ordering::Relaxed);
}
/// stop measuring; returns the peak number of bytes allocated above the level at `arm`
pub fn disarm() -> usize {
	CAP.store(0, Ordering::Relaxed);
	let p = PEAK.load(Ordering::Relaxed) - BASE.load(Ordering::Relaxed);
	if p < 0 {
		0
	} else {
		p as usize
	}
}

// ------------------------------------------------------------------ panics
pub struct PanicRec {
	pub file: String,
	pub line: u32,
	pub msg: String,
}
static LAST_PANIC: Mutex<Option<PanicRec>> = Mutex::new(None);

pub fn install_hook() {
	std::panic::set_hook(Box::new(|info| {
		let (file, line) = match info.location() {
			Some(l) => (l.file().to_string(), l.line()),
			None => ("?".to_string(), 0),
		};
		let msg = if let Some(s) = info.payload().downcast_ref::<&str>() {
			s.to_string()
		} else if let Some(s) = info.payload().downcast_ref::<String>() {
			s.clone()
		} else {
			"panic".to_string()
		};
		if let Ok(mut g) = LAST_PANIC.lock() {
			*g = Some(PanicRec { file, line, msg });
		}
	}));
}

pub fn take_panic() -> Option<PanicRec> {
	LAST_PANIC.lock().ok().and_then(|mut g| g.take())
}

/// "<crate-relative file>::<container>::<fn>#<message with numbers replaced>"
pub fn site_of(p: &PanicRec) -> String {
	format!("{}::{}#{}", norm_file(&p.file), enclosing(&p.file, p.line), norm_msg(&p.msg))
}

fn norm_file(f: &str) -> String {
	if let Some(i) = f.find("/registry/src/") {
		// .../registry/src/<index>/<crate>-<version>/src/x.rs -> <crate>/src/x.rs
		let rest = &f[i + "/registry/src/".len()..];
		let rest = rest.splitn(2, '/').nth(1).unwrap_or(rest);
		let mut parts = rest.splitn(2, '/');
		let krate = parts.next().unwrap_or("");
		let tail = parts.next().unwrap_or("");
		let name = match krate.rfind('-') {
			Some(k) if krate[k + 1..].chars().next().map(|c| c.is_ascii_digit()).unwrap_or(false) => &krate[..k],
			_ => krate,
		};
		return format!("{}/{}", name, tail);
	}
	if let Some(i) = f.find("/repo/") {
		return f[i + "/repo/".len()..].to_string();
	}
	if let Some(i) = f.find("/library/") {
		return format!("std/{}", &f[i + "/library/".len()..]);
	}
	if let Some(i) = f.find("/harness/src/") {
		return format!("HARNESS/{}", &f[i + "/harness/src/".len()..]);
	}
	f.to_string()
}

fn indent_of(l: &str) -> usize {
	l.chars().take_while(|c| *c == '\t' || *c == ' ').count()
}

fn word_after<'a>(l: &'a str, kw: &str) -> Option<&'a str> {
	let i = l.find(kw)?;
	let rest = &l[i + kw.len()..];
	let rest = rest.trim_start();
	let end = rest.find(|c: char| !(c.is_alphanumeric() || c == '_')).unwrap_or(rest.len());
	if end == 0 {
		None
	} else {
		Some(&rest[..end])
	}
}

/// the function (and its impl / mod container) that encloses `line` of `file`
fn enclosing(file: &str, line: u32) -> String {
	let src = match std::fs::read_to_string(file) {
		Ok(s) => s,
		Err(_) => return "?".to_string(),
	};
	let lines: Vec<&str> = src.lines().collect();
	if line == 0 || line as usize > lines.len() {
		return "?".to_string();
	}
	let mut i = line as usize - 1;
	let mut func = String::new();
	let mut find = usize::MAX;
	loop {
		let l = lines[i];
		let t = l.trim_start();
		if func.is_empty() {
			let is_fn = t.starts_with("fn ")
				|| t.starts_with("pub fn ")
				|| t.starts_with("pub(crate) fn ")
				|| t.starts_with("async fn ")
				|| t.starts_with("pub async fn ")
				|| t.starts_with("unsafe fn ")
				|| t.starts_with("pub unsafe fn ");
			if is_fn && indent_of(l) < indent_of(lines[line as usize - 1]).max(1) + 64 {
				if let Some(w) = word_after(t, "fn ") {
					func = w.to_string();
					find = indent_of(l);
				}
			}
		} else if indent_of(l) < find {
			// container: impl X for Y / impl Y / mod Y / trait Y
			if t.starts_with("impl") || t.starts_with("pub mod ") || t.starts_with("mod ") || t.starts_with("pub trait ") || t.starts_with("trait ") {
				let name = if t.starts_with("impl") {
					if let Some(k) = t.find(" for ") {
						word_after(&t[k..], " for ")
					} else {
						// impl<..> Name<..>
						let after = t.trim_start_matches("impl");
						let after = if after.starts_with('<') {
							// skip generics
							let mut depth = 0i32;
							let mut cut = 0usize;
							for (k, c) in after.char_indices() {
								if c == '<' {
									depth += 1;
								} else if c == '>' {
									depth -= 1;
									if depth == 0 {
										cut = k + 1;
										break;
									}
								}
							}
							&after[cut..]
						} else {
							after
						};
						word_after(after, "")
					}
				} else if t.contains("mod ") {
					word_after(t, "mod ")
				} else {
					word_after(t, "trait ")
				};
				if let Some(n) = name {
					return format!("{}::{}", n, func);
				}
			}
		}
		if i == 0 {
			break;
		}
		i -= 1;
	}
	if func.is_empty() {
		"?".to_string()
	} else {
		func
	}
}

fn norm_msg(m: &str) -> String {
	let m = match m.find(" value: ") {
		Some(i) => &m[..i + " value".len()],
		None => m,
	};
	// drop the quoted data of the message (it varies with the input)
	let m = match m.find(';') {
		Some(i) => &m[..i],
		None => m,
	};
	let m = match m.find(" of `") {
		Some(i) => &m[..i],
		None => m,
	};
	let mut out = String::new();
	let mut in_num = false;
	for c in m.chars() {
		if c.is_ascii_digit() {
			if !in_num {
				out.push('N');
				in_num = true;
			}
		} else {
			in_num = false;
			if c.is_ascii_alphanumeric() || c == '_' || c == ':' {
				out.push(c);
			} else if !out.ends_with('-') {
				out.push('-');
			}
		}
		if out.len() >= 70 {
			break;
		}
	}
	out.trim_matches('-').to_string()
}
