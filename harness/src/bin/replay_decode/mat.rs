//! Materialiser: real valid encodings (produced by the real encoders from real
//! slates of a real two-wallet exchange), located field by field with the leaf
//! lists TLC printed from spec/WireGrammar.tla, mutated as the case says, and
//! re-wrapped validly (lengths, check bytes, encryption to the wallet's key).
use crate::util::*;
use grin_wallet_libwallet as libwallet;
use libwallet::slate_versions::v4::{CommitsV4, KernelFeaturesArgsV4, ParticipantDataV4, PaymentInfoV4, SlateStateV4, SlateV4};
use libwallet::slate_versions::v4_bin::SlateV4Bin;
use libwallet::{Slate, SlateVersion, Slatepack, SlatepackAddress, SlatepackArmor, SlatepackBin, VersionedBinSlate, VersionedSlate};
use grin_wallet_util::byte_ser;
use serde_json::{json, Value};
use std::collections::BTreeMap;
use std::convert::TryFrom;
use std::io::{Read, Write};

#[derive(Clone, Debug)]
pub struct Leaf {
	pub n: String,
	pub k: String,
	pub w: usize,
	pub a: String,
	pub of: String,
}
#[derive(Clone, Debug)]
pub struct LayerDesc {
	pub ly: String,
	pub leaves: Vec<Leaf>,
}
#[derive(Clone, Debug)]
pub struct Inst {
	pub chain: String,
	pub inst: String,
	pub shape: Value,
	pub slate: Value,
	pub layers: Vec<LayerDesc>,
}

pub fn parse_inst(v: &Value) -> Inst {
	let layers = v["layers"]
		.as_array()
		.map(|a| {
			a.iter()
				.map(|l| LayerDesc {
					ly: l["ly"].as_str().unwrap_or("").to_string(),
					leaves: l["leaves"]
						.as_array()
						.map(|ls| {
							ls.iter()
								.map(|x| Leaf {
									n: x["n"].as_str().unwrap_or("").to_string(),
									k: x["k"].as_str().unwrap_or("").to_string(),
									w: x["w"].as_u64().unwrap_or(0) as usize,
									a: x["a"].as_str().unwrap_or("").to_string(),
									of: x["of"].as_str().unwrap_or("").to_string(),
								})
								.collect()
						})
						.unwrap_or_default(),
				})
				.collect()
		})
		.unwrap_or_default();
	Inst {
		chain: v["chain"].as_str().unwrap_or("").to_string(),
		inst: v["inst"].as_str().unwrap_or("").to_string(),
		shape: v["shape"].clone(),
		slate: v["slate"].clone(),
		layers,
	}
}

/// real material collected from a real exchange between two real wallets
pub struct Material {
	pub s1: SlateV4,
	pub s2: SlateV4,
	pub s3: SlateV4,
	/// an S2 reply whose transaction the sender has not finalized yet
	pub s2_open: Option<SlateV4>,
	pub proof_json: String,
	pub grintx_hex: String,
	pub addr_w1: SlatepackAddress,
	pub addr_w2: SlatepackAddress,
	pub dec_key: ed25519_dalek::SecretKey,
	pub age_identity: String,
	pub other_recipient: String,
	pub shared_key: Option<grin_util::secp::key::SecretKey>,
	pub max_size: usize,
}

pub fn to_v4(s: &Slate) -> SlateV4 {
	match VersionedSlate::into_version(s.clone(), SlateVersion::V4).unwrap() {
		VersionedSlate::V4(v) => v,
	}
}

/// the x25519 identity age needs, derived from the wallet's ed25519 key exactly as
/// Slatepack::try_decrypt_payload derives it
pub fn age_identity_of(dec_key: &ed25519_dalek::SecretKey) -> String {
	use sha2::{Digest, Sha512};
	let mut b = [0u8; 32];
	b.copy_from_slice(&dec_key.as_bytes()[0..32]);
	let h = Sha512::digest(&b);
	b.copy_from_slice(&h[0..32]);
	let x = x25519_dalek::StaticSecret::from(b);
	bech32_encode("age-secret-key-", &x.to_bytes()).to_uppercase()
}

pub fn age_encrypt_to(recipient: &str, plain: &[u8]) -> Vec<u8> {
	let r: age::x25519::Recipient = recipient.parse().expect("age recipient");
	let e = age::Encryptor::with_recipients(vec![Box::new(r) as Box<dyn age::Recipient>]);
	let mut out = vec![];
	let mut w = e.wrap_output(&mut out).expect("age wrap");
	w.write_all(plain).expect("age write");
	w.finish().expect("age finish");
	out
}
pub fn age_encrypt_passphrase(plain: &[u8]) -> Vec<u8> {
	let e = age::Encryptor::with_user_passphrase(age::secrecy::Secret::new("verif".to_string()));
	let mut out = vec![];
	let mut w = e.wrap_output(&mut out).expect("age wrap");
	w.write_all(plain).expect("age write");
	w.finish().expect("age finish");
	out
}
pub fn age_decrypt(identity: &str, data: &[u8]) -> Option<Vec<u8>> {
	let id: age::x25519::Identity = identity.parse().ok()?;
	let d = match age::Decryptor::new(data).ok()? {
		age::Decryptor::Recipients(d) => d,
		_ => return None,
	};
	let mut r = d.decrypt(std::iter::once(&id as &dyn age::Identity)).ok()?;
	let mut out = vec![];
	r.read_to_end(&mut out).ok()?;
	Some(out)
}

impl Material {
	/// a V4 slate of the requested shape assembled from real parts
	pub fn build_slate(&self, name: &str, sh: &Value) -> SlateV4 {
		let mut v = self.s3.clone();
		v.sta = match name {
			"S1p" => SlateStateV4::Standard1,
			"S2p" => SlateStateV4::Standard2,
			"MIN" => SlateStateV4::Invoice1,
			"I2p" => SlateStateV4::Invoice2,
			_ => SlateStateV4::Standard3,
		};
		if !sh["off"].as_bool().unwrap_or(true) {
			v.off = grin_keychain::BlindingFactor::zero();
		}
		v.num_parts = if sh["np"].as_bool().unwrap_or(false) { 3 } else { 2 };
		v.amt = if sh["amt"].as_bool().unwrap_or(false) { self.s1.amt.max(1) } else { 0 };
		v.fee = if sh["fee"].as_bool().unwrap_or(false) {
			self.s1.fee
		} else {
			grin_core::core::FeeFields::zero()
		};
		let feat = sh["feat"].as_u64().unwrap_or(0) as u8;
		v.feat = feat;
		v.feat_args = if feat == 2 { Some(KernelFeaturesArgsV4 { lock_hgt: 123 }) } else { None };
		v.ttl = if sh["ttl"].as_bool().unwrap_or(false) { 999 } else { 0 };
		// participants
		let real: Vec<ParticipantDataV4> = self.s3.sigs.clone();
		let part_sig = real.iter().filter_map(|p| p.part).next();
		v.sigs = sh["sigs"]
			.as_array()
			.map(|a| {
				a.iter()
					.enumerate()
					.map(|(i, b)| {
						let r = &real[i % real.len()];
						ParticipantDataV4 {
							xs: r.xs,
							nonce: r.nonce,
							part: if b.as_bool().unwrap_or(false) { r.part.or(part_sig) } else { None },
						}
					})
					.collect()
			})
			.unwrap_or_default();
		// commitments
		let rc: Vec<CommitsV4> = self.s3.coms.clone().unwrap_or_default();
		let outs: Vec<CommitsV4> = rc.iter().filter(|c| c.p.is_some()).cloned().collect();
		let ins: Vec<CommitsV4> = rc.iter().filter(|c| c.p.is_none()).cloned().collect();
		v.coms = if sh["hascoms"].as_bool().unwrap_or(false) {
			Some(
				sh["coms"]
					.as_array()
					.map(|a| {
						a.iter()
							.enumerate()
							.map(|(i, b)| {
								if b.as_bool().unwrap_or(false) {
									outs[i % outs.len()]
								} else {
									ins[i % ins.len()]
								}
							})
							.collect()
					})
					.unwrap_or_default(),
			)
		} else {
			None
		};
		let rp: Option<PaymentInfoV4> = self.s3.proof.clone().or(self.s2.proof.clone());
		v.proof = match (sh["proof"].as_str().unwrap_or("none"), rp) {
			("nosig", Some(p)) => Some(PaymentInfoV4 { saddr: p.saddr, raddr: p.raddr, rsig: None }),
			("sig", Some(p)) => Some(p),
			_ => None,
		};
		v
	}

	pub fn slate_bin(v: &SlateV4) -> Vec<u8> {
		byte_ser::to_bytes(&VersionedBinSlate::V4(SlateV4Bin(v.clone()))).expect("slate bin")
	}
	pub fn slate_json(v: &SlateV4) -> String {
		serde_json::to_string(&VersionedSlate::V4(v.clone())).expect("slate json")
	}
}

/// the valid bytes of every layer of an instance, outermost first
pub struct Built {
	pub layers: Vec<Vec<u8>>,
}

fn check_pack(pack: &[u8]) -> Vec<u8> {
	let mut v = sha256d4(pack);
	v.extend_from_slice(pack);
	v
}

pub fn rpc_envelope(method: &str, mat: &Material) -> (Value, String) {
	// returns the envelope and the pointer at which the inner document is spliced ("" = none)
	let inner = "@@INNER@@";
	match method {
		"receive_tx" => (json!({"jsonrpc": "2.0", "method": "receive_tx", "id": 1, "params": [inner, null, null]}), "/params/0".into()),
		"finalize_tx" => (json!({"jsonrpc": "2.0", "method": "finalize_tx", "id": 1, "params": [inner]}), "/params/0".into()),
		"build_coinbase" => (
			json!({"jsonrpc": "2.0", "method": "build_coinbase", "id": 1,
				"params": [{"fees": 0, "height": 9, "key_id": "0300000000000000000000000900000000"}]}),
			"".into(),
		),
		"check_version" => (json!({"jsonrpc": "2.0", "method": "check_version", "id": 1, "params": []}), "".into()),
		"slate_from_slatepack_message" => (
			json!({"jsonrpc": "2.0", "method": "slate_from_slatepack_message", "id": 1,
				"params": {"token": null, "message": inner, "secret_indices": [0]}}),
			"/params/message".into(),
		),
		"decode_slatepack_message" => (
			json!({"jsonrpc": "2.0", "method": "decode_slatepack_message", "id": 1,
				"params": {"token": null, "message": inner, "secret_indices": [0]}}),
			"/params/message".into(),
		),
		"verify_payment_proof" => (
			json!({"jsonrpc": "2.0", "method": "verify_payment_proof", "id": 1, "params": {"token": null, "proof": inner}}),
			"/params/proof".into(),
		),
		"owner_finalize_tx" => (
			json!({"jsonrpc": "2.0", "method": "finalize_tx", "id": 1, "params": {"token": null, "slate": inner}}),
			"/params/slate".into(),
		),
		"get_stored_tx" => (
			json!({"jsonrpc": "2.0", "method": "get_stored_tx", "id": 1,
				"params": {"token": null, "id": null, "slate_id": format!("{}", mat.s3.id)}}),
			"".into(),
		),
		"init_send_tx" => (
			json!({"jsonrpc": "2.0", "method": "init_send_tx", "id": 1, "params": {"token": null, "args": {
				"src_acct_name": null, "amount": "100000000", "minimum_confirmations": 1, "max_outputs": 500, "num_change_outputs": 1,
				"selection_strategy_is_use_all": false, "target_slate_version": null, "ttl_blocks": 5,
				"payment_proof_recipient_address": format!("{}", mat.addr_w2), "estimate_only": true, "late_lock": false, "send_args": null}}}),
			"".into(),
		),
		"query_txs" => (
			json!({"jsonrpc": "2.0", "method": "query_txs", "id": 1, "params": {"token": null, "refresh_from_node": false, "query": {
				"min_id": 0, "limit": 5, "exclude_cancelled": false, "min_amount": "1", "min_creation_timestamp": "2019-01-15T16:01:26Z",
				"sort_field": "Id", "sort_order": "Asc"}}}),
			"".into(),
		),
		"create_slatepack_message" => (
			json!({"jsonrpc": "2.0", "method": "create_slatepack_message", "id": 1,
				"params": {"token": null, "slate": inner, "sender_index": 0, "recipients": [format!("{}", mat.addr_w2)]}}),
			"/params/slate".into(),
		),
		_ => (json!({"jsonrpc": "2.0", "method": method, "id": 1, "params": []}), "".into()),
	}
}

/// splice the inner document into the serialised envelope: as raw JSON when the
/// parameter is a structure, as a JSON string when it is a message text
pub fn splice_inner(env_text: &str, inner: &[u8], as_string: bool) -> Vec<u8> {
	let marker = "\"@@INNER@@\"";
	let mut out = vec![];
	match env_text.find(marker) {
		None => out.extend_from_slice(env_text.as_bytes()),
		Some(i) => {
			out.extend_from_slice(env_text[..i].as_bytes());
			if as_string {
				match std::str::from_utf8(inner) {
					Ok(s) => out.extend_from_slice(serde_json::to_string(s).unwrap().as_bytes()),
					Err(_) => {
						// not UTF-8: the bytes go in raw between quotes (the body as a whole is then not UTF-8)
						out.push(b'"');
						out.extend(inner.iter().filter(|b| **b != b'"' && **b != b'\\' && **b >= 0x20));
						out.push(b'"');
					}
				}
			} else {
				out.extend_from_slice(inner);
			}
			out.extend_from_slice(env_text[i + marker.len()..].as_bytes());
		}
	}
	out
}

/// AES-256-GCM body of the owner API (api/src/types.rs EncryptedBody::from_json) over raw bytes
pub fn enc_request(plain: &[u8], key: &grin_util::secp::key::SecretKey, rng: &mut Rng) -> String {
	use ring::aead;
	let mut buf = plain.to_vec();
	let nonce_b = rng.bytes(12);
	let mut nonce = [0u8; 12];
	nonce.copy_from_slice(&nonce_b);
	let unbound = aead::UnboundKey::new(&aead::AES_256_GCM, &key.0).unwrap();
	let sealing = aead::LessSafeKey::new(unbound);
	sealing
		.seal_in_place_append_tag(aead::Nonce::assume_unique_for_key(nonce), aead::Aad::from(&[]), &mut buf)
		.unwrap();
	json!({"jsonrpc": "2.0", "method": "encrypted_request_v3", "id": 1,
		"params": {"nonce": hex(&nonce), "body_enc": base64::encode(&buf)}})
	.to_string()
}
pub fn dec_response(v: &Value, key: &grin_util::secp::key::SecretKey) -> Option<Value> {
	use ring::aead;
	let body = v["result"]["Ok"]["body_enc"].as_str()?;
	let nonce = unhex(v["result"]["Ok"]["nonce"].as_str()?);
	if nonce.len() < 12 {
		return None;
	}
	let mut buf = base64::decode(body).ok()?;
	let mut n = [0u8; 12];
	n.copy_from_slice(&nonce[0..12]);
	let unbound = aead::UnboundKey::new(&aead::AES_256_GCM, &key.0).ok()?;
	let opening = aead::LessSafeKey::new(unbound);
	let plain = opening.open_in_place(aead::Nonce::assume_unique_for_key(n), aead::Aad::from(&[]), &mut buf).ok()?;
	serde_json::from_slice(plain).ok()
}

/// wrap the bytes of layer `inner_ly` into the layer outside of it
fn wrap_one(outer: &str, inner_ly: &str, inner: &[u8], inst: &Inst, mat: &Material, rng: &mut Rng) -> Vec<u8> {
	let sh = &inst.shape;
	match outer {
		"packbin" | "packjson" => {
			let mut sp = Slatepack::default();
			sp.payload = inner.to_vec();
			if inner_ly == "age" {
				sp.mode = 1;
			} else if sh["pack"]["sender"].as_bool().unwrap_or(false) {
				sp.sender = Some(mat.addr_w2.clone());
			}
			if outer == "packbin" {
				byte_ser::to_bytes(&SlatepackBin(sp)).expect("packbin")
			} else {
				serde_json::to_string_pretty(&sp).expect("packjson").into_bytes()
			}
		}
		"age" => age_encrypt_to(&mat.addr_w1.to_age_pubkey_str().expect("age pk"), inner),
		"encmeta" => {
			// inner is the slate: real metadata head + slate
			let mut v = meta_head(inst, mat);
			v.extend_from_slice(inner);
			v
		}
		"b58" => check_pack(inner),
		"armor" => armor_frame(&bs58::encode(inner).into_string()).into_bytes(),
		"rpcf" | "rpco" => {
			let (env, at) = rpc_envelope(sh["rpc"]["method"].as_str().unwrap_or(""), mat);
			let as_string = at == "/params/message";
			splice_inner(&env.to_string(), inner, as_string)
		}
		"encreq" => match &mat.shared_key {
			Some(k) => enc_request(inner, k, rng).into_bytes(),
			None => inner.to_vec(),
		},
		_ => inner.to_vec(),
	}
}

/// the real encrypted-metadata head (length, flags, sender, recipients) for the shape:
/// produced by the real encoder (Slatepack::try_encrypt_payload) and recovered by decrypting
fn meta_head(inst: &Inst, mat: &Material) -> Vec<u8> {
	let sh = &inst.shape;
	let mut sp = Slatepack::default();
	sp.payload = vec![];
	if sh["meta"]["sender"].as_bool().unwrap_or(false) {
		sp.sender = Some(mat.addr_w2.clone());
	}
	for i in 0..sh["meta"]["nrec"].as_u64().unwrap_or(0) {
		sp.add_recipient(if i % 2 == 0 { mat.addr_w1.clone() } else { mat.addr_w2.clone() });
	}
	sp.try_encrypt_payload(vec![mat.addr_w1.clone()]).expect("encrypt");
	age_decrypt(&mat.age_identity, &sp.payload).expect("decrypt own ciphertext")
}

/// valid bytes of every layer of the instance's chain
pub fn build_valid(inst: &Inst, mat: &Material, rng: &mut Rng) -> Built {
	let n = inst.layers.len();
	let mut layers: Vec<Vec<u8>> = vec![vec![]; n];
	let sh = &inst.shape;
	let slate_name = sh["slate"].as_str().unwrap_or("MIN");
	let last = inst.layers[n - 1].ly.as_str();
	// innermost layer
	layers[n - 1] = match last {
		"slatebin" => Material::slate_bin(&mat.build_slate(slate_name, &inst.slate)),
		"slatejson" => {
			// the RPC baselines use the real slates of the exchange so that the methods can run
			let v = match (inst.chain.as_str(), &mat.s2_open) {
				("rpcf_recv", _) => mat.s1.clone(),
				("rpcf_fin", Some(s)) | ("rpco_fin", Some(s)) => s.clone(),
				("rpco_cspm", _) => mat.s1.clone(),
				_ => mat.build_slate(slate_name, &inst.slate),
			};
			Material::slate_json(&v).into_bytes()
		}
		"spaddr" => String::try_from(&mat.addr_w1).expect("addr").into_bytes(),
		"onion" => grin_wallet_util::OnionV3Address::from_bytes(mat.addr_w1.pub_key.to_bytes()).to_ov3_str().into_bytes(),
		"proofjson" => mat.proof_json.clone().into_bytes(),
		"grintx" => mat.grintx_hex.clone().into_bytes(),
		"rpcf" | "rpco" => {
			let (env, _) = rpc_envelope(sh["rpc"]["method"].as_str().unwrap_or(""), mat);
			env.to_string().into_bytes()
		}
		_ => vec![],
	};
	// the slatepack family is produced by the real encoders in one go
	let names: Vec<&str> = inst.layers.iter().map(|l| l.ly.as_str()).collect();
	if let Some(pi) = names.iter().position(|x| *x == "packbin" || *x == "packjson") {
		let enc = names.contains(&"age");
		let mut sp = Slatepack::default();
		sp.payload = layers[n - 1].clone();
		if enc {
			if sh["meta"]["sender"].as_bool().unwrap_or(false) {
				sp.sender = Some(mat.addr_w2.clone());
			}
			for i in 0..sh["meta"]["nrec"].as_u64().unwrap_or(0) {
				sp.add_recipient(if i % 2 == 0 { mat.addr_w1.clone() } else { mat.addr_w2.clone() });
			}
			sp.try_encrypt_payload(vec![mat.addr_w1.clone()]).expect("encrypt");
			let ai = names.iter().position(|x| *x == "age").unwrap();
			layers[ai] = sp.payload.clone();
			layers[ai + 1] = age_decrypt(&mat.age_identity, &sp.payload).expect("decrypt own ciphertext");
		} else if sh["pack"]["sender"].as_bool().unwrap_or(false) {
			sp.sender = Some(mat.addr_w2.clone());
		}
		layers[pi] = if names[pi] == "packbin" {
			byte_ser::to_bytes(&SlatepackBin(sp.clone())).expect("packbin")
		} else {
			serde_json::to_string_pretty(&sp).expect("packjson").into_bytes()
		};
		if pi >= 2 && names[pi - 1] == "b58" && names[pi - 2] == "armor" {
			layers[pi - 1] = check_pack(&layers[pi]);
			layers[pi - 2] = SlatepackArmor::encode(&sp).expect("armor").into_bytes();
			// outer RPC layers around the armor
			let mut k = pi - 2;
			while k > 0 {
				layers[k - 1] = wrap_one(names[k - 1], names[k], &layers[k].clone(), inst, mat, rng);
				k -= 1;
			}
		}
	} else {
		let mut k = n - 1;
		while k > 0 {
			layers[k - 1] = wrap_one(names[k - 1], names[k], &layers[k].clone(), inst, mat, rng);
			k -= 1;
		}
	}
	Built { layers }
}

/// re-wrap the (mutated) bytes of layer k (0-based) validly up to the outermost layer
pub fn wrap_up(inst: &Inst, k: usize, bytes: Vec<u8>, mat: &Material, rng: &mut Rng) -> Vec<u8> {
	let names: Vec<&str> = inst.layers.iter().map(|l| l.ly.as_str()).collect();
	let mut cur = bytes;
	let mut j = k;
	while j > 0 {
		cur = wrap_one(names[j - 1], names[j], &cur, inst, mat, rng);
		j -= 1;
	}
	cur
}

// ------------------------------------------------------------------- walker
/// byte span of every leaf of a layer; None when the encoding is not in the
/// language of the leaf list
pub fn walk(layer: &LayerDesc, bytes: &[u8]) -> Option<Vec<(usize, usize)>> {
	let kind = layer_kind(&layer.ly);
	let mut spans = vec![];
	if kind == "json" {
		let v: Value = serde_json::from_slice(bytes).ok()?;
		for lf in layer.leaves.iter() {
			v.pointer(&lf.n)?;
			spans.push((0, 0));
		}
		return Some(spans);
	}
	let mut pos = 0usize;
	let mut vals: BTreeMap<String, u64> = BTreeMap::new();
	for lf in layer.leaves.iter() {
		let len = match lf.k.as_str() {
			"fix" => lf.w,
			"u" => {
				if pos + lf.w > bytes.len() {
					return None;
				}
				let mut x = 0u64;
				for b in &bytes[pos..pos + lf.w] {
					x = (x << 8) | *b as u64;
				}
				vals.insert(lf.n.clone(), x);
				lf.w
			}
			"blob" => {
				let l = *vals.get(&lf.of)? as usize;
				if lf.a == "raw" {
					l.min(675)
				} else {
					l
				}
			}
			"rest" => bytes.len().checked_sub(pos)?,
			"lit" => {
				let t = lf.a.as_bytes();
				if bytes.len() < pos + t.len() || &bytes[pos..pos + t.len()] != t {
					return None;
				}
				t.len()
			}
			"until" => {
				let d = lf.a.as_bytes().first().cloned().unwrap_or(b'.');
				bytes[pos..].iter().position(|b| *b == d).unwrap_or(bytes.len() - pos)
			}
			_ => return None,
		};
		if pos + len > bytes.len() {
			return None;
		}
		spans.push((pos, len));
		pos += len;
	}
	if pos != bytes.len() {
		return None;
	}
	Some(spans)
}

pub fn layer_kind(ly: &str) -> &'static str {
	match ly {
		"packbin" | "encmeta" | "slatebin" | "b58" => "bin",
		"slatejson" | "packjson" | "proofjson" | "rpcf" | "rpco" | "encreq" => "json",
		"armor" => "armor",
		"age" => "age",
		_ => "text",
	}
}

// ---------------------------------------------------------------- mutations
fn be(v: u64, w: usize) -> Vec<u8> {
	(0..w).map(|i| ((v >> (8 * (w - 1 - i))) & 0xff) as u8).collect()
}
fn get_be(b: &[u8]) -> u64 {
	b.iter().fold(0u64, |x, y| (x << 8) | *y as u64)
}
fn ed_nondecompressible() -> [u8; 32] {
	let mut b = [0u8; 32];
	for k in 2u8..=255 {
		b[0] = k;
		if ed25519_dalek::PublicKey::from_bytes(&b).is_err() {
			return b;
		}
	}
	b
}
const B58: &[u8] = b"123456789ABCDEFGHJKLMNPQRSTUVWXYZabcdefghijkmnopqrstuvwxyz";
const BECH: &[u8] = b"qpzry9x8gf2tvdw0s3jn54khce6mua7l";

fn other_char(c: u8, alphabet: &[u8]) -> u8 {
	let i = alphabet.iter().position(|x| *x == c).unwrap_or(0);
	alphabet[(i + 1) % alphabet.len()]
}

pub fn mutate_bin(_lf: &Leaf, span: (usize, usize), m: &str, a: &str, bytes: &[u8], rng: &mut Rng) -> Option<Vec<u8>> {
	let (s, l) = span;
	let mut v = bytes.to_vec();
	match m {
		"trunc_before" => v.truncate(s),
		"trunc_inside" => {
			if l < 2 {
				return None;
			}
			v.truncate(s + l / 2)
		}
		"delete" => {
			v.drain(s..s + l);
		}
		"dup" => {
			let piece = v[s..s + l].to_vec();
			let tail = v.split_off(s + l);
			v.extend_from_slice(&piece);
			v.extend_from_slice(&tail);
		}
		"extend" => {
			let n: usize = a.parse().unwrap_or(1);
			v.extend(rng.bytes(n));
		}
		"fill" => {
			let b = if a == "ones" { 0xff } else { 0x00 };
			for x in v[s..s + l].iter_mut() {
				*x = b;
			}
		}
		"badpoint" => match a {
			"prefix" => v[s] = 0x05,
			"offcurve" => {
				v[s] = 0x02;
				for x in v[s + 1..s + l].iter_mut() {
					*x = 0xff;
				}
			}
			"nondecomp" => v[s..s + 32].copy_from_slice(&ed_nondecompressible()),
			"highs" => v[s + l - 1] |= 0xe0,
			_ => return None,
		},
		"set" => {
			let cur = get_be(&v[s..s + l]);
			let maxv = if l >= 8 { u64::MAX } else { (1u64 << (8 * l)) - 1 };
			let nv = match a {
				"dec" => cur.wrapping_sub(1) & maxv,
				"inc" => cur.wrapping_add(1) & maxv,
				"max" => maxv,
				// values around the end of the input
				"rem" => (v.len() - (s + l)) as u64 & maxv,
				"rem1" => ((v.len() - (s + l)) as u64 + 1) & maxv,
				"tot" => (v.len() - s) as u64 & maxv,
				_ if a.starts_with('v') => a[1..].parse::<u64>().ok()? & maxv,
				_ => return None,
			};
			v[s..s + l].copy_from_slice(&be(nv, l));
		}
		"flip" => {
			let b: usize = a.parse().ok()?;
			if b >= 8 * l {
				return None;
			}
			v[s + l - 1 - b / 8] ^= 1 << (b % 8);
		}
		"nonutf8" => {
			if l == 0 {
				return None;
			}
			v[s + l / 2] = 0xff;
		}
		"char" => {
			if l == 0 {
				return None;
			}
			let i = s + l / 2;
			v[i] = other_char(v[i], BECH);
		}
		_ => return None,
	}
	Some(v)
}

pub fn mutate_armor(lf: &Leaf, span: (usize, usize), m: &str, a: &str, bytes: &[u8], mat: &Material) -> Option<Vec<u8>> {
	let (s, l) = span;
	let mut v = bytes.to_vec();
	let splice = |v: &mut Vec<u8>, s: usize, l: usize, new: &[u8]| {
		let tail = v.split_off(s + l);
		v.truncate(s);
		v.extend_from_slice(new);
		v.extend_from_slice(&tail);
	};
	match m {
		"trunc_before" => v.truncate(s),
		"trunc_inside" => v.truncate(s + (l / 2).max(1)),
		"delete" => splice(&mut v, s, l, b""),
		"dup" => {
			let p = v[s..s + l].to_vec();
			let mut pp = p.clone();
			pp.extend_from_slice(&p);
			splice(&mut v, s, l, &pp);
		}
		"case" => {
			let p: Vec<u8> = v[s..s + l].iter().map(|c| c.to_ascii_lowercase()).collect();
			splice(&mut v, s, l, &p);
		}
		"nonutf8" => v[s + l / 2] = 0xff,
		"char" => {
			// position of a non-blank character near the middle of the span
			let mid = (s + l / 2..s + l).find(|i| !b" \n\t>".contains(&v[*i])).unwrap_or(s + l / 2);
			match a {
				"ws" => splice(&mut v, mid, 0, b" \n\t> \r"),
				"bad58" => v[mid] = b'0',
				"flip" => v[mid] = other_char(v[mid], B58),
				_ => return None,
			}
		}
		// filler (discardable characters of the armor frames) ahead of the header, alone, or before a cut header
		"pad" | "padonly" | "padcut" => {
			let n: usize = a.parse().unwrap_or(1);
			let fill: Vec<u8> = b" \n>\t\r".iter().cycle().take(n.max(1)).cloned().collect();
			match m {
				"pad" => splice(&mut v, s, 0, &fill[..n]),
				"padonly" => v = fill[..n].to_vec(),
				_ => {
					// n bytes in all: filler, then the first 7 characters of the header
					let keep = 7.min(l);
					let head = v[s..s + keep].to_vec();
					v = fill[..n.saturating_sub(keep)].to_vec();
					v.extend_from_slice(&head);
				}
			}
		}
		"body" => match a {
			"empty" => splice(&mut v, s, l, b""),
			"short" => splice(&mut v, s, l, b"11 "),
			_ => return None,
		},
		"extend" => match a {
			"max" => {
				let n = (mat.max_size + 1).saturating_sub(v.len());
				v.extend(std::iter::repeat(b'x').take(n));
			}
			_ => {
				let n: usize = a.parse().unwrap_or(1);
				v.extend(std::iter::repeat(b'x').take(n));
			}
		},
		_ => return None,
	}
	let _ = lf;
	Some(v)
}

pub fn mutate_age(m: &str, a: &str, bytes: &[u8], mat: &Material, rng: &mut Rng) -> Option<Vec<u8>> {
	let mut v = bytes.to_vec();
	match (m, a) {
		("char", _) => {
			let i = v.len() - 1 - rng.below(v.len().min(16));
			v[i] ^= 0x55;
		}
		("trunc_inside", _) => v.truncate(v.len() / 2),
		("empty", _) => v.clear(),
		("age", "otherkey") => {
			let plain = age_decrypt(&mat.age_identity, bytes)?;
			v = age_encrypt_to(&mat.other_recipient, &plain);
		}
		("age", "scrypt") => {
			let plain = age_decrypt(&mat.age_identity, bytes)?;
			v = age_encrypt_passphrase(&plain);
		}
		("age", "plain0") => v = age_encrypt_to(&mat.addr_w1.to_age_pubkey_str().ok()?, b""),
		("age", "plain3") => v = age_encrypt_to(&mat.addr_w1.to_age_pubkey_str().ok()?, b"\x00\x00\x00"),
		("age", "noheader") => v = rng.bytes(48),
		_ => return None,
	}
	Some(v)
}

pub fn mutate_text(ly: &str, span: (usize, usize), m: &str, a: &str, bytes: &[u8], mat: &Material) -> Option<Vec<u8>> {
	let (s, l) = span;
	let mut v = bytes.to_vec();
	let alphabet: &[u8] = match ly {
		"spaddr" => BECH,
		"onion" => b"abcdefghijklmnopqrstuvwxyz234567",
		_ => b"0123456789abcdef",
	};
	match (m, a) {
		("trunc_inside", _) => v.truncate(s + (l / 2).max(1)),
		("empty", _) => v.clear(),
		("delete", _) => {
			v.drain(s..s + l);
		}
		("dup", _) => {
			let p = v[s..s + l].to_vec();
			let tail = v.split_off(s + l);
			v.extend_from_slice(&p);
			v.extend_from_slice(&tail);
		}
		("char", "flip") => {
			let i = s + l / 2;
			v[i] = other_char(v[i].to_ascii_lowercase(), alphabet);
		}
		("char", "bad") => v[s + l / 2] = b'!',
		("nonutf8", _) => v[s + l / 2] = 0xff,
		("nonascii", _) => {
			// a two-byte character straddling an even byte offset
			let i = s + 1;
			if i + 2 > v.len() {
				return None;
			}
			v[i] = 0xc3;
			v[i + 1] = 0xa9;
		}
		("case", _) => v = v.iter().map(|c| c.to_ascii_uppercase()).collect(),
		("extend", _) => v.push(b'a'),
		("onion", "http") => {
			let mut p = b"http://".to_vec();
			p.extend_from_slice(&v);
			v = p;
		}
		("onion", "suffix") => v.extend_from_slice(b".onion"),
		("onion", "hex") => v = hex(&mat.addr_w1.pub_key.to_bytes()).into_bytes(),
		("onion", "hexshort") => {
			v = hex(&mat.addr_w1.pub_key.to_bytes()).into_bytes();
			v.truncate(62);
		}
		("onion", "hexlong") => {
			v = hex(&mat.addr_w1.pub_key.to_bytes()).into_bytes();
			v.extend_from_slice(b"00");
		}
		("grintx", "odd") => {
			v.pop();
		}
		("grintx", "cuttx") => {
			let n = (v.len() / 2) & !1;
			v.truncate(n);
		}
		("grintx", "zeros") => v = std::iter::repeat(b'0').take(64).collect(),
		_ => return None,
	}
	Some(v)
}

fn str_variant(cls: &str, cur: &str, var: &str, mat: &Material) -> Option<Value> {
	let base: String = if cur.is_empty() {
		match cls {
			"tokenhex" => "e00dcc4a009e3427c6b1e1a550c538179d46f3827a13ed74c759c860761caf1e".into(),
			"optuuid" | "uuid" => format!("{}", mat.s3.id),
			_ => "00".into(),
		}
	} else {
		cur.to_string()
	};
	let b = base.as_bytes();
	let s = match var {
		"empty" => String::new(),
		// a well-formed slatepack address of somebody else (an optional string that may be taken for a destination)
		"spaddr" => String::try_from(&mat.addr_w2).ok()?,
		"short" => match cls {
			"b64inner" => base[..base.len().saturating_sub(4)].to_string(),
			"bech32" | "uuid" | "optuuid" => base[..base.len().saturating_sub(1)].to_string(),
			_ => base[..base.len().saturating_sub(2)].to_string(),
		},
		"long" => format!("{}00", base),
		// forms a lenient hex decoder accepts: same text length, fewer bytes - or the same bytes behind a prefix
		"lenient_0x" => {
			if base.len() < 4 {
				return None;
			}
			format!("0x{}", &base[2..])
		}
		"lenient_0x0x" => {
			if base.len() < 6 {
				return None;
			}
			format!("0x0x{}", &base[4..])
		}
		"lenient_tail" => {
			if base.len() < 4 {
				return None;
			}
			format!("{} \t", &base[..base.len() - 2])
		}
		"lenient_blank" => " ".repeat(base.len().max(2)),
		"lenient_prefixed" => format!("0x{}", base),
		"odd" => base[..base.len().saturating_sub(1)].to_string(),
		"nonhex" => {
			let mut v = b.to_vec();
			let i = v.len() / 2;
			if v.is_empty() {
				return None;
			}
			v[i] = b'g';
			String::from_utf8(v).ok()?
		}
		"nonascii" => {
			if b.len() < 4 {
				format!("a\u{e9}b{}", base)
			} else {
				format!("{}\u{e9}{}", &base[..1], &base[3..])
			}
		}
		"badpoint" => match cls {
			"secphex" => format!("05{}", &base[2..]),
			"edpkhex" => hex(&ed_nondecompressible()),
			_ => {
				// signature: set the three high bits of the last byte
				let mut v = unhex(&base);
				if v.is_empty() {
					return None;
				}
				let n = v.len();
				v[n - 1] |= 0xe0;
				hex(&v)
			}
		},
		"nosep" => base.replace(':', "").replace('.', "").replacen('1', "", if cls == "bech32" { 1 } else { 0 }),
		"twosep" => format!("{}{}1", base, if cls == "verstr" { ":" } else { "." }),
		"alpha" => format!("x{}", &base[1..]),
		"big" => format!("70000{}", &base[1..]),
		"unknown" => match cls {
			"stastr" => "S9".into(),
			"rpcver" => "1.0".into(),
			_ => "no_such_method".into(),
		},
		"flip" => {
			let mut v = b.to_vec();
			let i = v.len() - 8;
			v[i] = other_char(v[i], BECH);
			String::from_utf8(v).ok()?
		}
		"upper" => base.to_uppercase(),
		"badchar" => format!("*{}", &base[1..]),
		_ => return None,
	};
	Some(Value::String(s))
}

fn num_variant(var: &str, cur: &Value) -> Option<Value> {
	Some(match var {
		"neg" => json!(-1),
		"float" => json!(1.5),
		"big" => raw("18446744073709551616"),
		"max" => raw("18446744073709551615"),
		"v256" => json!(256),
		"zero" => json!(0),
		"asstr" => Value::String(match cur {
			Value::String(s) => s.clone(),
			other => other.to_string(),
		}),
		"strbad" => Value::String("12x".into()),
		_ => return None,
	})
}

fn deep(n: usize) -> Value {
	raw(&format!("{}{}", "[".repeat(n), "]".repeat(n)))
}

/// JSON layer: value-level mutations on the parsed document, text-level ones on its serialisation
pub fn mutate_json(lf: &Leaf, m: &str, a: &str, bytes: &[u8], mat: &Material) -> Option<Vec<u8>> {
	let mut v: Value = serde_json::from_slice(bytes).ok()?;
	let cur = v.pointer(&lf.n).cloned().unwrap_or(Value::Null);
	let mut dup: Option<String> = None;
	match m {
		"delkey" => {
			if !ptr_remove(&mut v, &lf.n) {
				return None;
			}
		}
		"dupkey" => dup = Some(lf.n.clone()),
		"null" => {
			ptr_set(&mut v, &lf.n, Value::Null);
		}
		"addkey" => {
			// an unknown member next to the leaf (or inside it when it is an object)
			// (next to the nearest enclosing object when the leaf is an array element)
			let mut at = lf.n.clone();
			loop {
				match ptr_parent(&mut v, &at) {
					Some((Value::Object(mm), _)) => {
						mm.insert("zz_unknown".into(), json!({"x": [1, 2, 3]}));
						break;
					}
					Some(_) => match at.rfind('/') {
						Some(i) if i > 0 => at.truncate(i),
						_ => return None,
					},
					None => return None,
				}
			}
		}
		"type" => {
			let nv = match a {
				"num" => match &cur {
					Value::String(s) if s.parse::<u64>().is_ok() => raw(s),
					Value::Number(_) => cur.clone(),
					_ => json!(7),
				},
				"str" => match &cur {
					Value::String(_) => json!(7),
					other => Value::String(other.to_string()),
				},
				"arr" => json!([cur.clone()]),
				"obj" => json!({"v": cur.clone()}),
				"bool" => json!(true),
				_ => return None,
			};
			// a type mutation that leaves the type alone is the identity: use a different type instead
			let nv = if std::mem::discriminant(&nv) == std::mem::discriminant(&cur) && a != "num" { json!(false) } else { nv };
			ptr_set(&mut v, &lf.n, nv);
		}
		"str" => {
			let c = cur.as_str().unwrap_or("");
			let nv = str_variant(&lf.a, c, a, mat)?;
			ptr_set(&mut v, &lf.n, nv);
		}
		"num" => {
			let nv = num_variant(a, &cur)?;
			ptr_set(&mut v, &lf.n, nv);
		}
		"deep" => {
			ptr_set(&mut v, &lf.n, deep(a.parse().unwrap_or(200)));
		}
		"arr" => {
			let nv = match a {
				"empty" => {
					if cur.is_object() {
						json!({})
					} else {
						json!([])
					}
				}
				_ => match &cur {
					Value::Array(x) => {
						let mut y = x.clone();
						if let Some(f) = x.first() {
							for _ in 0..300 {
								y.push(f.clone());
							}
						}
						Value::Array(y)
					}
					other => json!([other.clone(), other.clone()]),
				},
			};
			ptr_set(&mut v, &lf.n, nv);
		}
		"doc" => {}
		_ => return None,
	}
	let text = write_json(&v, dup.as_ref().map(|s| s.as_str()));
	let mut out = text.into_bytes();
	if m == "doc" {
		match a {
			"trunc" => out.truncate(out.len() / 2),
			"junk" => out.extend_from_slice(b"}]junk"),
			"ws" => out.extend_from_slice(b" \n\t\r\n"),
			"nonutf8" => {
				let i = out.len() / 2;
				out[i] = 0xff;
			}
			"empty" => out.clear(),
			"bom" => {
				let mut p = vec![0xef, 0xbb, 0xbf];
				p.extend_from_slice(&out);
				out = p;
			}
			"array" => {
				let mut p = b"[".to_vec();
				p.extend_from_slice(&out);
				p.push(b']');
				out = p;
			}
			"bigstr" => {
				let big = "A".repeat(1 << 20);
				out = serde_json::to_string(&big).unwrap().into_bytes();
			}
			_ => return None,
		}
	}
	Some(out)
}

/// apply the mutation of a case to the bytes of its layer
pub fn mutate_layer(layer: &LayerDesc, leaf: usize, m: &str, a: &str, bytes: &[u8], mat: &Material, rng: &mut Rng) -> Result<Vec<u8>, String> {
	let spans = walk(layer, bytes).ok_or_else(|| "walk".to_string())?;
	if leaf == 0 || leaf > layer.leaves.len() {
		return Err("leaf-index".into());
	}
	let lf = &layer.leaves[leaf - 1];
	let span = spans[leaf - 1];
	let r = match layer_kind(&layer.ly) {
		"bin" => mutate_bin(lf, span, m, a, bytes, rng),
		"armor" => mutate_armor(lf, span, m, a, bytes, mat),
		"age" => mutate_age(m, a, bytes, mat, rng),
		"json" => mutate_json(lf, m, a, bytes, mat),
		_ => mutate_text(&layer.ly, span, m, a, bytes, mat),
	};
	r.ok_or_else(|| "not-applicable".to_string())
}
