//! The decoder entry points of the wallet, each run under the guard
//! (catch_unwind + allocation cap; the watchdog is the parent process).
//! A run is recorded as {ep, res: ok|err|errm|panic, site, msg, pre, post, us, peak}.
use crate::guard;
use crate::mat::*;
use crate::util::*;
use grin_keychain::ExtKeychain;
use grin_util::secp::key::{PublicKey, SecretKey};
use grin_util::{static_secp_instance, Mutex};
use grin_wallet_api::Owner;
use grin_wallet_controller::controller::{ForeignAPIHandlerV2, OwnerAPIHandlerV3};
use grin_wallet_impls::{PathToSlate, PathToSlatepack, SlateGetter};
use grin_wallet_libwallet as libwallet;
use grin_wallet_util::{byte_ser, OnionV3Address};
use libwallet::{PaymentProof, Slate, SlatepackAddress, Slatepacker, SlatepackerArgs, VersionedBinSlate};
use serde_json::{json, Value};
use sha2::{Digest, Sha256};
use std::convert::TryFrom;
use std::panic::{catch_unwind, AssertUnwindSafe};
use std::sync::Arc;
use vharness::node::DirectNode;
use vharness::world::{World, LC};

pub const ALLOC_CAP: usize = 768 << 20;

pub struct Ctx {
	pub world: World,
	pub mat: Material,
	pub owner: Owner<LC, DirectNode, ExtKeychain>,
	pub h_owner: OwnerAPIHandlerV3<LC, DirectNode, ExtKeychain>,
	pub h_foreign: ForeignAPIHandlerV2<LC, DirectNode, ExtKeychain>,
	pub tmp: String,
}

/// what a run returned: Ok(summary) | Err(class) ; "errm" is signalled by Err("@method:...")
type Ret = Result<String, String>;

fn run_guarded<F: FnOnce() -> Ret>(ep: &str, f: F) -> Value {
	let _ = guard::take_panic();
	let t0 = std::time::Instant::now();
	guard::arm(ALLOC_CAP);
	let r = catch_unwind(AssertUnwindSafe(f));
	let peak = guard::disarm();
	let us = t0.elapsed().as_micros() as u64;
	let mut v = json!({"ep": ep, "us": us, "peak": peak, "site": "", "msg": "", "pre": "", "post": ""});
	match r {
		Ok(Ok(s)) => {
			v["res"] = json!("ok");
			v["msg"] = json!(trim(&s));
		}
		Ok(Err(e)) => {
			if e.starts_with("@method:") {
				v["res"] = json!("errm");
				v["msg"] = json!(trim(&e[8..]));
			} else {
				v["res"] = json!("err");
				v["msg"] = json!(trim(&e));
			}
		}
		Err(_) => {
			v["res"] = json!("panic");
			if let Some(p) = guard::take_panic() {
				v["site"] = json!(guard::site_of(&p));
				v["msg"] = json!(trim(&format!("{}:{}: {}", p.file, p.line, p.msg)));
			}
		}
	}
	v
}
fn trim(s: &str) -> String {
	let s: String = s.chars().take(160).collect();
	s.replace('\n', " ")
}

/// digest of the wallet store: every output, log entry, account path, stored transaction file
pub fn digest(world: &World, w: &str) -> String {
	let dir = world.wallets[w].dir.clone();
	let r = world.with(w, |wi, _| {
		let mut h = Sha256::new();
		for o in wi.iter() {
			h.update(serde_json::to_string(&o).unwrap_or_default().as_bytes());
		}
		for t in wi.tx_log_iter() {
			h.update(serde_json::to_string(&t).unwrap_or_default().as_bytes());
		}
		for a in wi.acct_path_iter() {
			h.update(serde_json::to_string(&a).unwrap_or_default().as_bytes());
		}
		Ok(h)
	});
	let mut h = match r {
		vharness::world::Outcome::Ok(h) => h,
		_ => return "unreadable".into(),
	};
	let mut files: Vec<(String, u64)> = vec![];
	if let Ok(rd) = std::fs::read_dir(format!("{}/wallet_data/saved_txs", dir)) {
		for e in rd.flatten() {
			let n = e.file_name().to_string_lossy().to_string();
			if n.starts_with("verifcase") {
				continue;
			}
			files.push((n, e.metadata().map(|m| m.len()).unwrap_or(0)));
		}
	}
	files.sort();
	for (n, l) in files {
		h.update(format!("{}:{}", n, l).as_bytes());
	}
	hex(&h.finalize()[0..8])
}

fn packer_run(bytes: &[u8], key: Option<&ed25519_dalek::SecretKey>) -> Ret {
	let p = Slatepacker::new(SlatepackerArgs { sender: None, recipients: vec![], dec_key: key });
	let sp = p.deser_slatepack(bytes, true).map_err(|e| format!("deser: {}", e))?;
	let s = p.get_slate(&sp).map_err(|e| format!("get_slate: {}", e))?;
	Ok(format!("slate {} {}", s.id, s.state))
}

fn http_post<H: grin_api::Handler>(h: &H, uri: &str, body: Vec<u8>) -> (u16, Vec<u8>) {
	let req = hyper::Request::builder().method("POST").uri(uri).body(hyper::Body::from(body)).unwrap();
	let resp = match futures::executor::block_on(h.post(req)) {
		Ok(r) => r,
		Err(_) => return (599, vec![]),
	};
	let st = resp.status().as_u16();
	let b = futures::executor::block_on(hyper::body::to_bytes(resp.into_body())).map(|b| b.to_vec()).unwrap_or_default();
	(st, b)
}

/// classify a JSON-RPC reply: decode-level rejection (err), method-level error (errm), ok
fn classify_rpc(status: u16, body: &[u8], key: Option<&SecretKey>) -> Ret {
	if status != 200 {
		return Err(format!("http {} {}", status, String::from_utf8_lossy(body)));
	}
	let v: Value = match serde_json::from_slice(body) {
		Ok(v) => v,
		Err(_) => return Err("reply is not JSON".into()),
	};
	let v = match key.and_then(|k| dec_response(&v, k)) {
		Some(inner) => inner,
		None => v,
	};
	if let Some(a) = v.as_array() {
		// a notification has no reply; a batch is answered by a list: classify its first member
		return match a.first() {
			None => Ok("noreply".into()),
			Some(first) => classify_value(first),
		};
	}
	classify_value(&v)
}
fn classify_value(v: &Value) -> Ret {
	if !v["error"].is_null() {
		// the owner listener turns a method's own Err into an error object with code -32099
		if v["error"]["code"].as_i64() == Some(-32099) {
			return Err(format!("@method:{}", v["error"]["message"]));
		}
		return Err(format!("rpc error {}", v["error"]));
	}
	if !v["result"]["Err"].is_null() {
		return Err(format!("@method:{}", v["result"]["Err"]));
	}
	Ok(format!("result {}", trim(&v["result"].to_string())))
}

pub fn ecdh_init(h: &OwnerAPIHandlerV3<LC, DirectNode, ExtKeychain>) -> Option<SecretKey> {
	let sec_hex = "e00dcc4a009e3427c6b1e1a550c538179d46f3827a13ed74c759c860761caf1e";
	let secp_inst = static_secp_instance();
	let (sk, pk_hex) = {
		let secp = secp_inst.lock();
		let sk = SecretKey::from_slice(&secp, &unhex(sec_hex)).ok()?;
		let pk = PublicKey::from_secret_key(&secp, &sk).ok()?;
		(sk, hex(&pk.serialize_vec(&secp, true)[..]))
	};
	let body = json!({"jsonrpc": "2.0", "method": "init_secure_api", "id": 1, "params": {"ecdh_pubkey": pk_hex}}).to_string();
	let (_, b) = http_post(h, "/v3/owner", body.into_bytes());
	let v: Value = serde_json::from_slice(&b).ok()?;
	let other = v["result"]["Ok"].as_str()?;
	let secp = secp_inst.lock();
	let mut shared = PublicKey::from_slice(&secp, &unhex(other)).ok()?;
	shared.mul_assign(&secp, &sk).ok()?;
	let x = shared.serialize_vec(&secp, true);
	SecretKey::from_slice(&secp, &x[1..]).ok()
}

impl Ctx {
	/// run one entry point on the materialised input; `layer1` tells how the body of an
	/// owner request has to be delivered (already an envelope, or still to be encrypted)
	pub fn run(&mut self, ep: &str, bytes: &[u8]) -> Value {
		let needs_wallet = matches!(
			ep,
			"owner_slate_noidx" | "owner_slate_idx0" | "owner_decode_noidx" | "owner_decode_idx0" | "stored_tx" | "post_foreign" | "post_owner"
		);
		let text = std::str::from_utf8(bytes).ok().map(|s| s.to_string());
		let mut stored_path: Option<String> = None;
		if ep == "stored_tx" {
			let p = format!("{}/wallet_data/saved_txs/verifcase.grintx", self.world.wallets["w1"].dir);
			let _ = std::fs::write(&p, bytes);
			stored_path = Some(p);
		}
		let pre = if needs_wallet { digest(&self.world, "w1") } else { "-".into() };
		let mask = self.world.mask("w1");
		let mut v = match ep {
			"pack_nokey" => run_guarded(ep, || packer_run(bytes, None)),
			"pack_key" => {
				let k = &self.mat.dec_key;
				run_guarded(ep, || packer_run(bytes, Some(k)))
			}
			"file_pack" => {
				let path = format!("{}/in.slatepack", self.tmp);
				let _ = std::fs::write(&path, bytes);
				let k = &self.mat.dec_key;
				run_guarded(ep, || {
					let p = Slatepacker::new(SlatepackerArgs { sender: None, recipients: vec![], dec_key: Some(k) });
					let g = PathToSlatepack::new(path.clone().into(), &p, true);
					let (s, _) = g.get_tx().map_err(|e| format!("{}", e))?;
					Ok(format!("slate {} {}", s.id, s.state))
				})
			}
			"owner_slate_noidx" | "owner_slate_idx0" => {
				let idx = if ep.ends_with("idx0") { vec![0u32] } else { vec![] };
				let t = text.clone().unwrap_or_default();
				let o = &self.owner;
				run_guarded(ep, || {
					let s = o.slate_from_slatepack_message(mask.as_ref(), t, idx).map_err(|e| format!("{}", e))?;
					Ok(format!("slate {} {}", s.id, s.state))
				})
			}
			"owner_decode_noidx" | "owner_decode_idx0" => {
				let idx = if ep.ends_with("idx0") { vec![0u32] } else { vec![] };
				let t = text.clone().unwrap_or_default();
				let o = &self.owner;
				run_guarded(ep, || {
					let s = o.decode_slatepack_message(mask.as_ref(), t, idx).map_err(|e| format!("{}", e))?;
					Ok(format!("slatepack mode {} payload {}", s.mode, s.payload.len()))
				})
			}
			"bin_slate" => run_guarded(ep, || {
				let b = byte_ser::from_bytes::<VersionedBinSlate>(bytes).map_err(|e| format!("{}", e))?;
				let s = Slate::upgrade(b.into()).map_err(|e| format!("{}", e))?;
				Ok(format!("slate {} {}", s.id, s.state))
			}),
			"json_slate" => {
				let t = text.clone().unwrap_or_default();
				run_guarded(ep, || {
					let s = Slate::deserialize_upgrade(&t).map_err(|e| format!("{}", e))?;
					Ok(format!("slate {} {}", s.id, s.state))
				})
			}
			"file_slate" => {
				let path = format!("{}/in.slate", self.tmp);
				let _ = std::fs::write(&path, bytes);
				run_guarded(ep, || {
					let (s, _) = PathToSlate(path.clone().into()).get_tx().map_err(|e| format!("{}", e))?;
					Ok(format!("slate {} {}", s.id, s.state))
				})
			}
			"addr_try_from" => {
				let t = text.clone().unwrap_or_default();
				run_guarded(ep, || {
					let a = SlatepackAddress::try_from(t.as_str()).map_err(|e| format!("{}", e))?;
					Ok(format!("addr hrp {}", a.hrp))
				})
			}
			"addr_serde" => {
				let t = serde_json::to_string(&text.clone().unwrap_or_default()).unwrap();
				run_guarded(ep, || {
					let a: SlatepackAddress = serde_json::from_str(&t).map_err(|e| format!("{}", e))?;
					Ok(format!("addr hrp {}", a.hrp))
				})
			}
			"onion_try_from" => {
				let t = text.clone().unwrap_or_default();
				run_guarded(ep, || {
					let a = OnionV3Address::try_from(t.as_str()).map_err(|e| format!("{}", e))?;
					Ok(format!("onion {}", a))
				})
			}
			"proof_serde" => {
				let t = text.clone().unwrap_or_default();
				run_guarded(ep, || {
					let p: PaymentProof = serde_json::from_str(&t).map_err(|e| format!("{}", e))?;
					Ok(format!("proof amount {}", p.amount))
				})
			}
			"stored_tx" => {
				let inst = self.world.inst("w1");
				run_guarded(ep, || {
					let mut l = inst.lock();
					let wi = l.lc_provider().map_err(|e| format!("{}", e))?.wallet_inst().map_err(|e| format!("{}", e))?;
					let t = wi.get_stored_tx("verifcase").map_err(|e| format!("{}", e))?;
					Ok(format!("tx {}", t.map(|t| t.kernels().len()).unwrap_or(0)))
				})
			}
			"post_foreign" => {
				let h = &self.h_foreign;
				run_guarded(ep, || {
					let (st, b) = http_post(h, "/v2/foreign", bytes.to_vec());
					classify_rpc(st, &b, None)
				})
			}
			"post_owner" => {
				let h = &self.h_owner;
				let k = self.mat.shared_key.clone();
				run_guarded(ep, || {
					let (st, b) = http_post(h, "/v3/owner", bytes.to_vec());
					classify_rpc(st, &b, k.as_ref())
				})
			}
			_ => json!({"ep": ep, "res": "skip", "site": "", "msg": "unknown entry point", "pre": "", "post": "", "us": 0, "peak": 0}),
		};
		let post = if needs_wallet { digest(&self.world, "w1") } else { "-".into() };
		if ep == "post_foreign" && post != pre {
			// an accepted request consumed the slate of this instance (a later delivery of it would only
			// ever meet the duplicate check): cancel what it left pending, so that every case is
			// decided on its own by the code behind the decoder
			let pending: Vec<u32> = match self.world.with("w1", |wi, _| {
				Ok(wi
					.tx_log_iter()
					.filter(|t| !t.confirmed && t.tx_type == libwallet::TxLogEntryType::TxReceived)
					.map(|t| t.id)
					.collect::<Vec<u32>>())
			}) {
				vharness::world::Outcome::Ok(v) => v,
				_ => vec![],
			};
			for id in pending {
				let _ = self.world.cancel("w1", Some(id), None);
			}
		}
		if let Some(p) = stored_path {
			let _ = std::fs::remove_file(p);
		}
		v["pre"] = json!(pre);
		v["post"] = json!(post);
		v
	}
}

pub fn make_handlers(
	world: &World,
) -> (
	Owner<LC, DirectNode, ExtKeychain>,
	OwnerAPIHandlerV3<LC, DirectNode, ExtKeychain>,
	ForeignAPIHandlerV2<LC, DirectNode, ExtKeychain>,
) {
	let w1 = world.inst("w1");
	let mask = world.mask("w1");
	let owner = Owner::new(w1.clone(), None);
	let h_owner = OwnerAPIHandlerV3::new(w1.clone(), Arc::new(Mutex::new(mask.clone())), None, false);
	let h_foreign = ForeignAPIHandlerV2::new(w1, Arc::new(Mutex::new(mask)), false, Mutex::new(None));
	(owner, h_owner, h_foreign)
}
