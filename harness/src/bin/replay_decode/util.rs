//! small helpers: deterministic rng, a JSON writer that can emit duplicate keys
//! and raw tokens, bech32 encoding (to hand age the x25519 identity the wallet
//! derives), base58check armor framing.
use serde_json::Value;
use sha2::{Digest, Sha256};

// ---------------------------------------------------------------------- rng
#[derive(Clone)]
pub struct Rng(pub u64);
impl Rng {
	pub fn new(seed: u64) -> Rng {
		Rng(seed.wrapping_mul(0x9E3779B97F4A7C15).wrapping_add(0xD1B54A32D192ED03))
	}
	pub fn next(&mut self) -> u64 {
		// splitmix64
		self.0 = self.0.wrapping_add(0x9E3779B97F4A7C15);
		let mut z = self.0;
		z = (z ^ (z >> 30)).wrapping_mul(0xBF58476D1CE4E5B9);
		z = (z ^ (z >> 27)).wrapping_mul(0x94D049BB133111EB);
		z ^ (z >> 31)
	}
	pub fn below(&mut self, n: usize) -> usize {
		if n == 0 {
			0
		} else {
			(self.next() % n as u64) as usize
		}
	}
	pub fn bytes(&mut self, n: usize) -> Vec<u8> {
		(0..n).map(|_| self.next() as u8).collect()
	}
}

// --------------------------------------------------------------- JSON writer
/// placeholders inside JSON strings that are replaced after serialisation:
/// "@@RAW:<token>@@" (with its quotes) -> <token> ; "@@HEX:<hex>@@" inside a string -> raw bytes
pub const RAW_OPEN: &str = "@@RAW:";
pub const RAW_CLOSE: &str = "@@";

fn esc(s: &str) -> String {
	serde_json::to_string(s).unwrap()
}

/// serialise `v`; the member addressed by `dup` (a JSON pointer) is written twice
pub fn write_json(v: &Value, dup: Option<&str>) -> String {
	let mut out = String::new();
	wj(v, "", dup, &mut out);
	out
}
fn wj(v: &Value, path: &str, dup: Option<&str>, out: &mut String) {
	match v {
		Value::Object(m) => {
			out.push('{');
			let mut first = true;
			for (k, x) in m.iter() {
				let p = format!("{}/{}", path, k.replace('~', "~0").replace('/', "~1"));
				let reps = if dup == Some(p.as_str()) { 2 } else { 1 };
				for _ in 0..reps {
					if !first {
						out.push(',');
					}
					first = false;
					out.push_str(&esc(k));
					out.push(':');
					wj(x, &p, dup, out);
				}
			}
			out.push('}');
		}
		Value::Array(a) => {
			out.push('[');
			for (i, x) in a.iter().enumerate() {
				if i > 0 {
					out.push(',');
				}
				let p = format!("{}/{}", path, i);
				wj(x, &p, dup, out);
				if dup == Some(p.as_str()) {
					out.push(',');
					wj(x, &p, dup, out);
				}
			}
			out.push(']');
		}
		Value::String(s) => {
			if s.starts_with(RAW_OPEN) && s.ends_with(RAW_CLOSE) && s.len() >= RAW_OPEN.len() + RAW_CLOSE.len() {
				out.push_str(&s[RAW_OPEN.len()..s.len() - RAW_CLOSE.len()]);
			} else {
				out.push_str(&esc(s));
			}
		}
		other => out.push_str(&other.to_string()),
	}
}
pub fn raw(tok: &str) -> Value {
	Value::String(format!("{}{}{}", RAW_OPEN, tok, RAW_CLOSE))
}

/// set / remove by JSON pointer (creating nothing)
pub fn ptr_parent<'a>(v: &'a mut Value, ptr: &str) -> Option<(&'a mut Value, String)> {
	let i = ptr.rfind('/')?;
	let (pp, last) = (&ptr[..i], &ptr[i + 1..]);
	let parent = if pp.is_empty() { Some(v) } else { v.pointer_mut(pp) }?;
	Some((parent, last.replace("~1", "/").replace("~0", "~")))
}
pub fn ptr_set(v: &mut Value, ptr: &str, new: Value) -> bool {
	if ptr.is_empty() {
		*v = new;
		return true;
	}
	match ptr_parent(v, ptr) {
		Some((Value::Object(m), k)) => {
			m.insert(k, new);
			true
		}
		Some((Value::Array(a), k)) => match k.parse::<usize>() {
			Ok(i) if i < a.len() => {
				a[i] = new;
				true
			}
			_ => false,
		},
		_ => false,
	}
}
pub fn ptr_remove(v: &mut Value, ptr: &str) -> bool {
	match ptr_parent(v, ptr) {
		Some((Value::Object(m), k)) => m.remove(&k).is_some(),
		Some((Value::Array(a), k)) => match k.parse::<usize>() {
			Ok(i) if i < a.len() => {
				a.remove(i);
				true
			}
			_ => false,
		},
		_ => false,
	}
}

// ------------------------------------------------------------------- bech32
const B32: &[u8] = b"qpzry9x8gf2tvdw0s3jn54khce6mua7l";
fn polymod(values: &[u8]) -> u32 {
	let gen = [0x3b6a57b2u32, 0x26508e6d, 0x1ea119fa, 0x3d4233dd, 0x2a1462b3];
	let mut chk = 1u32;
	for v in values {
		let b = chk >> 25;
		chk = ((chk & 0x1ffffff) << 5) ^ (*v as u32);
		for (i, g) in gen.iter().enumerate() {
			if (b >> i) & 1 == 1 {
				chk ^= g;
			}
		}
	}
	chk
}
pub fn bech32_encode(hrp: &str, data: &[u8]) -> String {
	// 8 -> 5 bits
	let mut five = vec![];
	let (mut acc, mut bits) = (0u32, 0u32);
	for b in data {
		acc = (acc << 8) | *b as u32;
		bits += 8;
		while bits >= 5 {
			bits -= 5;
			five.push(((acc >> bits) & 31) as u8);
		}
	}
	if bits > 0 {
		five.push(((acc << (5 - bits)) & 31) as u8);
	}
	let mut v: Vec<u8> = hrp.bytes().map(|c| c >> 5).collect();
	v.push(0);
	v.extend(hrp.bytes().map(|c| c & 31));
	v.extend(five.iter());
	v.extend([0u8; 6].iter());
	let pm = polymod(&v) ^ 1;
	let mut s = String::from(hrp);
	s.push('1');
	for d in five.iter() {
		s.push(B32[*d as usize] as char);
	}
	for i in 0..6 {
		s.push(B32[((pm >> (5 * (5 - i))) & 31) as usize] as char);
	}
	s
}

// -------------------------------------------------------------------- armor
pub fn sha256d4(data: &[u8]) -> Vec<u8> {
	let a = Sha256::digest(data);
	let b = Sha256::digest(&a);
	b[0..4].to_vec()
}
/// frame base58 text the way the wallet's encoder does (words of 15 characters)
pub fn armor_frame(b58: &str) -> String {
	let mut s = String::from("BEGINSLATEPACK.");
	for (i, c) in b58.chars().enumerate() {
		if i % 15 == 0 {
			s.push(if i > 0 && i % (15 * 200) == 0 { '\n' } else { ' ' });
		}
		s.push(c);
	}
	s.push_str(". ENDSLATEPACK.\n");
	s
}

pub fn hex(b: &[u8]) -> String {
	b.iter().map(|x| format!("{:02x}", x)).collect()
}
pub fn unhex(s: &str) -> Vec<u8> {
	(0..s.len() / 2).filter_map(|i| u8::from_str_radix(&s[2 * i..2 * i + 2], 16).ok()).collect()
}
