//! replay_decode --in cases.json --out events.ndjson [--jobs N]
//!
//! Executes the decode cases TLC generated from spec/WireGrammar.tla on the REAL
//! decoders of /repo and records, per case and entry point, whether the decoder
//! returned a value, returned an error, panicked (where), hung, exhausted the
//! allocation cap or killed the process - plus a digest of the wallet store before
//! and after.  The verdict is TLC's (spec/TraceWireGrammar.tla); nothing is judged here.
//!
//! cases.json: {"insts": [INST...], "cases": [CASE...], "nmulti": M, "njunk": J, "seed": S}
//!
//! Process model: the parent starts `jobs` workers (this binary with --worker); a
//! worker announces every run before it starts it, so that a run that kills the
//! worker (abort, stack overflow, allocation cap) or never returns (watchdog) is
//! recorded as such and the worker is restarted behind it.
mod eps;
mod guard;
mod mat;
mod util;

use mat::*;
use serde_json::{json, Value};
use std::collections::BTreeMap;
use std::io::{BufRead, BufReader, Write};
use std::sync::{Arc, Mutex};
use util::*;

#[global_allocator]
static GLOBAL: guard::CountingAlloc = guard::CountingAlloc;

const HANG_SECS: u64 = 30;
/// once a few runs have hung, further ones are given up on sooner (keeps a hanging decoder from
/// stretching the whole run to hours)
const HANG_SECS_AFTER: u64 = 6;
static HANGS: std::sync::atomic::AtomicUsize = std::sync::atomic::AtomicUsize::new(0);

struct Args {
	inp: String,
	out: String,
	jobs: usize,
	worker: Option<usize>,
	resume: (usize, usize),
}

fn parse_args() -> Args {
	let a: Vec<String> = std::env::args().collect();
	let mut r = Args { inp: String::new(), out: String::new(), jobs: 8, worker: None, resume: (0, 0) };
	let mut i = 1;
	while i < a.len() {
		match a[i].as_str() {
			"--in" => {
				r.inp = a[i + 1].clone();
				i += 1;
			}
			"--out" => {
				r.out = a[i + 1].clone();
				i += 1;
			}
			"--jobs" => {
				r.jobs = a[i + 1].parse().unwrap_or(8).max(1);
				i += 1;
			}
			"--worker" => {
				r.worker = a[i + 1].parse().ok();
				i += 1;
			}
			"--resume" => {
				let mut p = a[i + 1].split(':');
				r.resume = (p.next().and_then(|x| x.parse().ok()).unwrap_or(0), p.next().and_then(|x| x.parse().ok()).unwrap_or(0));
				i += 1;
			}
			_ => {}
		}
		i += 1;
	}
	r
}

struct Plan {
	insts: Vec<Inst>,
	inst_eps: Vec<Vec<String>>,
	cases: Vec<Value>,
	nmulti: usize,
	njunk: usize,
	raws: Vec<(Vec<u8>, Vec<String>)>,
	seed: u64,
}
impl Plan {
	fn load(path: &str) -> Plan {
		let v: Value = serde_json::from_str(&std::fs::read_to_string(path).expect("read input")).expect("input json");
		let insts: Vec<Inst> = v["insts"].as_array().map(|a| a.iter().map(parse_inst).collect()).unwrap_or_default();
		let inst_eps = v["insts"]
			.as_array()
			.map(|a| a.iter().map(|x| strs(&x["eps"])).collect())
			.unwrap_or_default();
		Plan {
			insts,
			inst_eps,
			cases: v["cases"].as_array().cloned().unwrap_or_default(),
			nmulti: v["nmulti"].as_u64().unwrap_or(0) as usize,
			njunk: v["njunk"].as_u64().unwrap_or(0) as usize,
			raws: v["raws"]
				.as_array()
				.map(|a| a.iter().map(|x| (unhex(x["hex"].as_str().unwrap_or("")), strs(&x["eps"]))).collect())
				.unwrap_or_default(),
			seed: v["seed"].as_u64().unwrap_or(1),
		}
	}
	fn nitems(&self) -> usize {
		self.insts.len() + self.cases.len() + self.nmulti + self.njunk + self.raws.len()
	}
	fn inst_index(&self, chain: &str, inst: &str) -> Option<usize> {
		self.insts.iter().position(|i| i.chain == chain && i.inst == inst)
	}
}
fn strs(v: &Value) -> Vec<String> {
	v.as_array().map(|a| a.iter().filter_map(|x| x.as_str().map(|s| s.to_string())).collect()).unwrap_or_default()
}

fn head(kind: &str) -> Value {
	json!({"kind": kind, "chain": "", "inst": "", "layer": 0, "lname": "", "leaf": 0, "ln": "", "m": "", "a": "",
		"mat": "ok", "len": 0, "hex": "", "walk": [], "muts": [], "maxsize": 0, "minsize": 0})
}
fn sample_hex(b: &[u8]) -> String {
	hex(&b[..b.len().min(96)])
}

// ------------------------------------------------------------------- worker
fn setup(tmp: &str, seed: u64) -> eps::Ctx {
	use vharness::world::Outcome;
	let wdir = format!("{}/world", tmp);
	let mut world = vharness::driver::setup_world(&wdir, &json!({"nfund": 4, "pad": 3}));
	// a complete exchange with payment proof: S1 -> S2 -> S3, posted and confirmed
	world.init_send("w1", "s1", &json!({"amt": 1000, "proof": "w2"}));
	world.receive("w2", "s1", "", None);
	world.lock("w1", "s1", "S2", 0);
	world.finalize("w1", "s1", "S2", 0, None, false);
	world.post("s1");
	world.mine(None, &["s1".to_string()]);
	world.mine(None, &[]);
	world.refresh("w1", 1);
	world.refresh("w2", 1);
	// a second exchange left open at S2 (the sender has locked, not finalized)
	world.init_send("w1", "s2", &json!({"amt": 700, "proof": "w2"}));
	world.receive("w2", "s2", "", None);
	world.lock("w1", "s2", "S2", 0);
	let pick = |n: &str, st: &str| world.slates.get(n).and_then(|r| r.stage.get(st)).cloned();
	let s1 = to_v4(&pick("s1", "S1").expect("S1"));
	let s2 = to_v4(&pick("s1", "S2").expect("S2"));
	let s3 = to_v4(&pick("s1", "S3").expect("S3"));
	let s2_open = pick("s2", "S2").map(|s| to_v4(&s));
	let inst1 = world.inst("w1");
	let inst2 = world.inst("w2");
	let m1 = world.mask("w1");
	let m2 = world.mask("w2");
	use grin_wallet_libwallet::api_impl::owner;
	let addr_w1 = owner::get_slatepack_address(inst1.clone(), m1.as_ref(), 0).expect("addr w1");
	let addr_w2 = owner::get_slatepack_address(inst2.clone(), m2.as_ref(), 0).expect("addr w2");
	let dec_key = owner::get_slatepack_secret_key(inst1.clone(), m1.as_ref(), 0).expect("dec key");
	let proof = owner::retrieve_payment_proof(inst1.clone(), m1.as_ref(), &None, true, None, Some(s3.id));
	let proof_json = match proof {
		Ok(p) => serde_json::to_string(&p).unwrap(),
		Err(e) => {
			eprintln!("replay_decode: no payment proof ({}), using a synthetic one", e);
			json!({"amount": "1000000000", "excess": "08".to_string() + &"11".repeat(32),
				"recipient_address": String::from(format!("{}", addr_w2)), "recipient_sig": "00".repeat(64),
				"sender_address": format!("{}", addr_w1), "sender_sig": "00".repeat(64)})
			.to_string()
		}
	};
	let grintx_hex = match world.with("w1", |wi, _| {
		wi.get_stored_tx(&format!("{}", s3.id))
	}) {
		Outcome::Ok(Some(tx)) => hex(&grin_core::ser::ser_vec(&tx, grin_core::ser::ProtocolVersion(1)).expect("ser tx")),
		_ => String::new(),
	};
	let mut rng = Rng::new(seed ^ 0xA6E);
	let other = {
		let sk = x25519_dalek::StaticSecret::from({
			let mut b = [0u8; 32];
			b.copy_from_slice(&rng.bytes(32));
			b
		});
		let pk = x25519_dalek::PublicKey::from(&sk);
		bech32_encode("age", pk.as_bytes())
	};
	let age_identity = age_identity_of(&dec_key);
	let (owner_api, h_owner, h_foreign) = eps::make_handlers(&world);
	let shared_key = eps::ecdh_init(&h_owner);
	if shared_key.is_none() {
		eprintln!("replay_decode: init_secure_api handshake failed");
	}
	let mat = Material {
		s1,
		s2,
		s3,
		s2_open,
		proof_json,
		grintx_hex,
		addr_w1,
		addr_w2,
		dec_key,
		age_identity,
		other_recipient: other,
		shared_key,
		max_size: grin_wallet_libwallet::slatepack::max_size() as usize,
	};
	eps::Ctx { world, mat, owner: owner_api, h_owner, h_foreign, tmp: tmp.to_string() }
}

struct Work {
	header: Value,
	runs: Vec<(String, Vec<u8>)>,
}

fn inst_item(plan: &Plan, ctx: &eps::Ctx, i: usize, rng: &mut Rng) -> Work {
	let inst = &plan.insts[i];
	let built = build_valid(inst, &ctx.mat, rng);
	let mut h = head("inst");
	h["chain"] = json!(inst.chain);
	h["inst"] = json!(inst.inst);
	h["lname"] = json!(inst.layers[0].ly);
	h["layer"] = json!(1);
	h["leaf"] = json!(1);
	h["ln"] = json!(inst.layers[0].leaves.first().map(|l| l.n.clone()).unwrap_or_default());
	h["m"] = json!("none");
	let walks: Vec<Value> = inst
		.layers
		.iter()
		.zip(built.layers.iter())
		.map(|(l, b)| json!({"ly": l.ly, "ok": walk(l, b).is_some(), "len": b.len(), "nleaves": l.leaves.len()}))
		.collect();
	h["walk"] = json!(walks);
	h["len"] = json!(built.layers[0].len());
	h["hex"] = json!(sample_hex(&built.layers[0]));
	let runs = plan.inst_eps[i].iter().map(|e| (e.clone(), built.layers[0].clone())).collect();
	Work { header: h, runs }
}

fn case_fields(h: &mut Value, c: &Value) {
	for k in ["chain", "inst", "layer", "lname", "leaf", "ln", "m", "a"].iter() {
		h[*k] = c[*k].clone();
	}
}

fn case_item(plan: &Plan, ctx: &eps::Ctx, c: &Value, rng: &mut Rng) -> Work {
	let mut h = head("case");
	case_fields(&mut h, c);
	let chain = c["chain"].as_str().unwrap_or("");
	let ii = match plan.inst_index(chain, c["inst"].as_str().unwrap_or("")) {
		Some(i) => i,
		None => {
			h["mat"] = json!("skip:no-instance");
			return Work { header: h, runs: vec![] };
		}
	};
	let inst = &plan.insts[ii];
	let k = c["layer"].as_u64().unwrap_or(1) as usize;
	if k == 0 || k > inst.layers.len() {
		h["mat"] = json!("skip:layer");
		return Work { header: h, runs: vec![] };
	}
	let built = build_valid(inst, &ctx.mat, rng);
	let r = mutate_layer(
		&inst.layers[k - 1],
		c["leaf"].as_u64().unwrap_or(0) as usize,
		c["m"].as_str().unwrap_or(""),
		c["a"].as_str().unwrap_or(""),
		&built.layers[k - 1],
		&ctx.mat,
		rng,
	);
	match r {
		Err(why) => {
			h["mat"] = json!(format!("skip:{}", why));
			Work { header: h, runs: vec![] }
		}
		Ok(bytes) => {
			let outer = wrap_up(inst, k - 1, bytes, &ctx.mat, rng);
			h["len"] = json!(outer.len());
			h["hex"] = json!(sample_hex(&outer));
			let runs = strs(&c["eps"]).into_iter().map(|e| (e, outer.clone())).collect();
			Work { header: h, runs }
		}
	}
}

fn multi_item(plan: &Plan, ctx: &eps::Ctx, rng: &mut Rng) -> Work {
	let mut h = head("multi");
	if plan.cases.is_empty() {
		h["mat"] = json!("skip:no-cases");
		return Work { header: h, runs: vec![] };
	}
	let first = &plan.cases[rng.below(plan.cases.len())];
	let same: Vec<&Value> = plan
		.cases
		.iter()
		.filter(|c| c["chain"] == first["chain"] && c["inst"] == first["inst"] && c["layer"] == first["layer"])
		.collect();
	let n = 2 + rng.below(3);
	let mut chosen: Vec<&Value> = vec![first];
	for _ in 0..n * 4 {
		if chosen.len() >= n {
			break;
		}
		let c = same[rng.below(same.len())];
		if !chosen.iter().any(|x| x["leaf"] == c["leaf"]) {
			chosen.push(c);
		}
	}
	chosen.sort_by_key(|c| std::cmp::Reverse(c["leaf"].as_u64().unwrap_or(0)));
	case_fields(&mut h, first);
	h["m"] = json!("multi");
	h["a"] = json!("");
	h["muts"] = json!(chosen.iter().map(|c| json!({"leaf": c["leaf"], "ln": c["ln"], "m": c["m"], "a": c["a"]})).collect::<Vec<_>>());
	let ii = match plan.inst_index(first["chain"].as_str().unwrap_or(""), first["inst"].as_str().unwrap_or("")) {
		Some(i) => i,
		None => {
			h["mat"] = json!("skip:no-instance");
			return Work { header: h, runs: vec![] };
		}
	};
	let inst = &plan.insts[ii];
	let k = first["layer"].as_u64().unwrap_or(1) as usize;
	let built = build_valid(inst, &ctx.mat, rng);
	let layer = &inst.layers[k - 1];
	let orig = built.layers[k - 1].clone();
	let mut cur = orig.clone();
	let is_json = layer_kind(&layer.ly) == "json";
	let spans = walk(layer, &orig);
	for c in chosen.iter() {
		let leaf = c["leaf"].as_u64().unwrap_or(0) as usize;
		let (m, a) = (c["m"].as_str().unwrap_or(""), c["a"].as_str().unwrap_or(""));
		let next = if is_json {
			mutate_layer(layer, leaf, m, a, &cur, &ctx.mat, rng).ok()
		} else {
			// spans of the original encoding stay valid because leaves are taken from the back
			match (&spans, leaf >= 1 && leaf <= layer.leaves.len()) {
				(Some(sp), true) if sp[leaf - 1].0 + sp[leaf - 1].1 <= cur.len() => {
					let lf = &layer.leaves[leaf - 1];
					match layer_kind(&layer.ly) {
						"bin" => mutate_bin(lf, sp[leaf - 1], m, a, &cur, rng),
						"armor" => mutate_armor(lf, sp[leaf - 1], m, a, &cur, &ctx.mat),
						"age" => mutate_age(m, a, &cur, &ctx.mat, rng),
						_ => mutate_text(&layer.ly, sp[leaf - 1], m, a, &cur, &ctx.mat),
					}
				}
				_ => None,
			}
		};
		if let Some(nb) = next {
			cur = nb;
		}
	}
	let outer = wrap_up(inst, k - 1, cur, &ctx.mat, rng);
	h["len"] = json!(outer.len());
	h["hex"] = json!(sample_hex(&outer));
	let runs = strs(&first["eps"]).into_iter().map(|e| (e, outer.clone())).collect();
	Work { header: h, runs }
}

fn rand_json(rng: &mut Rng, depth: usize) -> Value {
	let keys = [
		"ver", "id", "sta", "off", "amt", "fee", "sigs", "xs", "nonce", "part", "coms", "c", "p", "f", "proof", "saddr", "raddr", "rsig",
		"jsonrpc", "method", "params", "slatepack", "mode", "payload", "sender", "amount", "excess", "recipient_sig", "key_id", "fees",
		"height", "token", "nonce", "body_enc",
	];
	let strs_ = [
		"4:3", "S1", "2.0", "receive_tx", "finalize_tx", "build_coinbase", "check_version", "00", "zz", "\u{e9}\u{e9}", "", "1.0",
		"0436430c-2b02-624c-2032-570501212b00", "encrypted_request_v3", "init_secure_api", "accounts",
	];
	match rng.below(if depth == 0 { 5 } else { 8 }) {
		0 => Value::Null,
		1 => json!(rng.below(3) as u64),
		2 => json!(rng.next()),
		3 => Value::String(strs_[rng.below(strs_.len())].to_string()),
		4 => {
			let n = rng.below(70);
			Value::String(hex(&rng.bytes(n)))
		}
		5 => {
			let n = rng.below(4);
			Value::Array((0..n).map(|_| rand_json(rng, depth - 1)).collect())
		}
		_ => {
			let mut m = serde_json::Map::new();
			let n = rng.below(6);
			for _ in 0..n {
				let k = keys[rng.below(keys.len())].to_string();
				m.insert(k, rand_json(rng, depth - 1));
			}
			Value::Object(m)
		}
	}
}

fn junk_item(plan: &Plan, ctx: &eps::Ctx, rng: &mut Rng) -> Work {
	let mut h = head("junk");
	let gen = rng.below(5);
	let all_bytes_eps = ["pack_nokey", "pack_key", "file_pack", "bin_slate", "file_slate", "stored_tx", "post_foreign", "post_owner"];
	let all_text_eps = [
		"owner_slate_idx0", "owner_decode_idx0", "json_slate", "addr_try_from", "addr_serde", "onion_try_from", "proof_serde", "pack_nokey",
		"post_foreign",
	];
	let (name, bytes, eps): (&str, Vec<u8>, Vec<String>) = match gen {
		0 => {
			let lens = [0usize, 1, 3, 4, 14, 15, 16, 33, 64, 100, 300, 5000];
			let n = lens[rng.below(lens.len())] + rng.below(3);
			("bytes", rng.bytes(n), all_bytes_eps.iter().map(|s| s.to_string()).collect())
		}
		1 => {
			let n = rng.below(120);
			let alphabet: Vec<char> = "abcdefghijklmnopqrstuvwxyzABCDEFGHIJKLMNOPQRSTUVWXYZ0123456789 .:{}[]\",\n\u{e9}\u{4e16}1qpzry".chars().collect();
			let s: String = (0..n).map(|_| alphabet[rng.below(alphabet.len())]).collect();
			("text", s.into_bytes(), all_text_eps.iter().map(|s| s.to_string()).collect())
		}
		2 => {
			let n = rng.below(40);
			let b58: &[u8] = b"123456789ABCDEFGHJKLMNPQRSTUVWXYZabcdefghijkmnopqrstuvwxyz ";
			let body: String = (0..n).map(|_| b58[rng.below(b58.len())] as char).collect();
			let tails = ["", ".", ". ENDSLATEPACK.", ". ENDSLATEPACK", " ENDSLATEPACK.", ".. ENDSLATEPACK."];
			let s = format!("BEGINSLATEPACK.{}{}", body, tails[rng.below(tails.len())]);
			(
				"armorish",
				s.into_bytes(),
				["pack_nokey", "pack_key", "owner_slate_idx0", "owner_decode_idx0", "file_pack"].iter().map(|s| s.to_string()).collect(),
			)
		}
		3 => {
			let v = rand_json(rng, 4);
			(
				"jsonish",
				v.to_string().into_bytes(),
				["json_slate", "proof_serde", "post_foreign", "post_owner", "pack_nokey", "file_slate"].iter().map(|s| s.to_string()).collect(),
			)
		}
		_ => {
			// havoc on a valid outermost encoding
			if plan.insts.is_empty() {
				("bytes", rng.bytes(20), all_bytes_eps.iter().map(|s| s.to_string()).collect())
			} else {
				let i = rng.below(plan.insts.len());
				let inst = &plan.insts[i];
				let mut b = build_valid(inst, &ctx.mat, rng).layers[0].clone();
				for _ in 0..1 + rng.below(4) {
					if b.is_empty() {
						break;
					}
					let p = rng.below(b.len());
					match rng.below(3) {
						0 => b[p] ^= 1 << rng.below(8),
						1 => {
							b.remove(p);
						}
						_ => b.insert(p, rng.next() as u8),
					}
				}
				h["chain"] = json!(inst.chain);
				h["inst"] = json!(inst.inst);
				("havoc", b, plan.inst_eps[i].clone())
			}
		}
	};
	h["m"] = json!(name);
	h["len"] = json!(bytes.len());
	h["hex"] = json!(sample_hex(&bytes));
	// text entry points only get valid UTF-8
	let is_utf8 = std::str::from_utf8(&bytes).is_ok();
	let text_only = ["owner_slate_idx0", "owner_slate_noidx", "owner_decode_idx0", "owner_decode_noidx", "json_slate", "addr_try_from", "addr_serde", "onion_try_from", "proof_serde"];
	let runs = eps
		.into_iter()
		.filter(|e| is_utf8 || !text_only.contains(&e.as_str()))
		.map(|e| (e, bytes.clone()))
		.collect();
	Work { header: h, runs }
}

fn worker(args: &Args, w: usize) {
	guard::install_hook();
	let plan = Plan::load(&args.inp);
	let tmp = format!("{}/w{}_{}", vharness::driver::tmp_root(), w, args.resume.0);
	let _ = std::fs::remove_dir_all(&tmp);
	std::fs::create_dir_all(&tmp).expect("tmp dir");
	let mut ctx = setup(&tmp, plan.seed);
	let out = std::io::stdout();
	let say = |s: String| {
		let mut o = out.lock();
		let _ = writeln!(o, "{}", s);
		let _ = o.flush();
	};
	let n = plan.nitems();
	let (ni, nc, nm, nj) = (plan.insts.len(), plan.cases.len(), plan.nmulti, plan.njunk);
	for i in args.resume.0..n {
		if i % args.jobs != w {
			continue;
		}
		// every item has its own deterministic random stream
		let mut rng = Rng::new(plan.seed.wrapping_mul(1_000_003).wrapping_add(i as u64));
		let work = if i < ni {
			inst_item(&plan, &ctx, i, &mut rng)
		} else if i < ni + nc {
			case_item(&plan, &ctx, &plan.cases[i - ni], &mut rng)
		} else if i < ni + nc + nm {
			multi_item(&plan, &ctx, &mut rng)
		} else if i < ni + nc + nm + nj {
			junk_item(&plan, &ctx, &mut rng)
		} else {
			// an input given verbatim (replay of a recorded violation)
			let (bytes, eps) = &plan.raws[i - ni - nc - nm - nj];
			let mut h = head("junk");
			h["m"] = json!("raw");
			h["len"] = json!(bytes.len());
			h["hex"] = json!(sample_hex(bytes));
			Work { header: h, runs: eps.iter().map(|e| (e.clone(), bytes.clone())).collect() }
		};
		let first_run = if i == args.resume.0 { args.resume.1 } else { 0 };
		if first_run == 0 {
			let mut h = work.header.clone();
			h["maxsize"] = json!(ctx.mat.max_size);
			h["minsize"] = json!(grin_wallet_libwallet::slatepack::min_size());
			h["eps"] = json!(work.runs.iter().map(|r| r.0.clone()).collect::<Vec<_>>());
			if let Some((_, b)) = work.runs.first() {
				if b.len() <= 65536 {
					h["full"] = json!(hex(b));
				}
			}
			say(format!("@@I {} {}", i, h));
		}
		for (r, (ep, bytes)) in work.runs.iter().enumerate() {
			if r < first_run {
				continue;
			}
			say(format!("@@B {} {}", i, r));
			let v = ctx.run(ep, bytes);
			say(format!("@@R {} {} {}", i, r, v));
		}
		say(format!("@@E {}", i));
	}
	say("@@D".to_string());
	drop(ctx);
	let _ = std::fs::remove_dir_all(&tmp);
}

// ------------------------------------------------------------------- parent
#[derive(Default, Clone)]
struct ItemRec {
	header: Option<Value>,
	runs: BTreeMap<usize, Value>,
}

enum Msg {
	Line(String),
	Eof,
}

fn manage(args: Arc<Args>, w: usize, nitems: usize, results: Arc<Mutex<BTreeMap<usize, ItemRec>>>) {
	let exe = std::env::current_exe().expect("exe");
	let mut resume = (0usize, 0usize);
	let mut restarts = 0usize;
	loop {
		let mut child = match std::process::Command::new(&exe)
			.args(&["--worker", &w.to_string(), "--in", &args.inp, "--jobs", &args.jobs.to_string(), "--resume", &format!("{}:{}", resume.0, resume.1)])
			.stdout(std::process::Stdio::piped())
			.stderr(std::process::Stdio::inherit())
			.spawn()
		{
			Ok(c) => c,
			Err(e) => {
				eprintln!("replay_decode: cannot start worker: {}", e);
				return;
			}
		};
		let stdout = child.stdout.take().unwrap();
		let (tx, rx) = std::sync::mpsc::channel::<Msg>();
		let reader = std::thread::spawn(move || {
			let br = BufReader::new(stdout);
			for l in br.split(b'\n') {
				match l {
					Ok(l) => {
						if tx.send(Msg::Line(String::from_utf8_lossy(&l).to_string())).is_err() {
							break;
						}
					}
					Err(_) => break,
				}
			}
			let _ = tx.send(Msg::Eof);
		});
		let mut current: Option<(usize, usize, std::time::Instant)> = None;
		let mut last_item_done: Option<usize> = None;
		let mut done = false;
		let mut alloc_marker = false;
		let mut hung = false;
		loop {
			match rx.recv_timeout(std::time::Duration::from_millis(250)) {
				Ok(Msg::Line(l)) => {
					if !l.starts_with("@@") {
						continue;
					}
					let mut p = l.splitn(4, ' ');
					let tag = p.next().unwrap_or("");
					match tag {
						"@@I" => {
							let i: usize = p.next().and_then(|x| x.parse().ok()).unwrap_or(0);
							let rest: Vec<&str> = p.collect();
							let js = rest.join(" ");
							if let Ok(v) = serde_json::from_str::<Value>(&js) {
								results.lock().unwrap().entry(i).or_default().header = Some(v);
							}
						}
						"@@B" => {
							let i: usize = p.next().and_then(|x| x.parse().ok()).unwrap_or(0);
							let r: usize = p.next().and_then(|x| x.parse().ok()).unwrap_or(0);
							current = Some((i, r, std::time::Instant::now()));
						}
						"@@R" => {
							let i: usize = p.next().and_then(|x| x.parse().ok()).unwrap_or(0);
							let r: usize = p.next().and_then(|x| x.parse().ok()).unwrap_or(0);
							let js = p.next().unwrap_or("{}");
							if let Ok(v) = serde_json::from_str::<Value>(js) {
								results.lock().unwrap().entry(i).or_default().runs.insert(r, v);
							}
							current = None;
						}
						"@@E" => {
							last_item_done = p.next().and_then(|x| x.parse().ok());
						}
						"@@A" => alloc_marker = true,
						"@@D" => done = true,
						_ => {}
					}
				}
				Ok(Msg::Eof) => break,
				Err(std::sync::mpsc::RecvTimeoutError::Timeout) => {
					if let Some((_, _, t)) = current {
						let limit = if HANGS.load(std::sync::atomic::Ordering::Relaxed) >= 3 { HANG_SECS_AFTER } else { HANG_SECS };
						if t.elapsed().as_secs() >= limit {
							HANGS.fetch_add(1, std::sync::atomic::Ordering::Relaxed);
							hung = true;
							let _ = child.kill();
						}
					}
				}
				Err(_) => break,
			}
		}
		let child_pid = child.id();
		let status = child.wait().ok();
		let _ = reader.join();
		// whatever the worker left behind (it may have been killed)
		if let Some(base) = std::path::Path::new(&vharness::driver::tmp_root()).parent() {
			let _ = std::fs::remove_dir_all(base.join(child_pid.to_string()));
		}
		if done {
			return;
		}
		// the worker died: record what it was doing and restart behind it
		restarts += 1;
		let code = status.and_then(|s| s.code());
		match current {
			Some((i, r, _)) => {
				let res = if hung {
					"hang"
				} else if alloc_marker || code == Some(97) {
					"alloc"
				} else {
					"abort"
				};
				let ep = {
					let g = results.lock().unwrap();
					g.get(&i).and_then(|x| x.header.as_ref()).and_then(|h| h["eps"][r].as_str().map(|s| s.to_string())).unwrap_or_default()
				};
				results.lock().unwrap().entry(i).or_default().runs.insert(
					r,
					json!({"ep": ep, "res": res, "site": "", "msg": format!("worker exit {:?}", status), "pre": "", "post": "", "us": 0, "peak": 0}),
				);
				resume = (i, r + 1);
			}
			None => {
				// died outside a run (set-up or materialisation): skip the item it was at
				let next = match last_item_done {
					Some(i) => i + 1,
					None => resume.0 + if restarts > 1 { 1 } else { 0 },
				};
				eprintln!("replay_decode: worker {} died outside a run ({:?}); resuming at item {}", w, status, next);
				resume = (next, 0);
			}
		}
		if resume.0 >= nitems || restarts > 200 {
			return;
		}
	}
}

fn main() {
	let args = parse_args();
	if let Some(w) = args.worker {
		worker(&args, w);
		return;
	}
	let plan = Plan::load(&args.inp);
	let nitems = plan.nitems();
	let args = Arc::new(args);
	let results: Arc<Mutex<BTreeMap<usize, ItemRec>>> = Arc::new(Mutex::new(BTreeMap::new()));
	let mut hs = vec![];
	for w in 0..args.jobs {
		let (a, r) = (args.clone(), results.clone());
		hs.push(std::thread::spawn(move || manage(a, w, nitems, r)));
	}
	for h in hs {
		let _ = h.join();
	}
	let mut f = std::io::BufWriter::new(std::fs::File::create(&args.out).expect("create out"));
	let g = results.lock().unwrap();
	let mut nruns = 0usize;
	let mut fi = std::io::BufWriter::new(std::fs::File::create(format!("{}.inputs", args.out)).expect("create inputs"));
	for i in 0..nitems {
		let rec = g.get(&i).cloned().unwrap_or_default();
		let mut h = rec.header.unwrap_or_else(|| {
			let mut h = head("lost");
			h["mat"] = json!("skip:lost");
			h
		});
		let eps_list = strs(&h["eps"]);
		let mut runs = vec![];
		for (r, ep) in eps_list.iter().enumerate() {
			runs.push(rec.runs.get(&r).cloned().unwrap_or_else(|| {
				json!({"ep": ep, "res": "skip", "site": "", "msg": "not executed", "pre": "", "post": "", "us": 0, "peak": 0})
			}));
		}
		nruns += runs.len();
		h["i"] = json!(i);
		h["runs"] = json!(runs);
		if let Some(o) = h.as_object_mut() {
			o.remove("eps");
			if let Some(full) = o.remove("full") {
				writeln!(fi, "{}", json!({"i": i, "hex": full})).unwrap();
			}
		}
		writeln!(f, "{}", h).unwrap();
	}
	eprintln!("replay_decode: {} items, {} runs", nitems, nruns);
}
