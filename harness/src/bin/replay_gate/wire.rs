//! Wire-level helpers of the C13 harness: the client's own AES-256-GCM (ring; NOT the
//! EncryptedBody code under test), hex/base64, and the syntactic classification of replies.
use ring::aead;
use serde_json::{json, Value};

pub fn hex(b: &[u8]) -> String {
	b.iter().map(|x| format!("{:02x}", x)).collect()
}

pub fn unhex(s: &str) -> Option<Vec<u8>> {
	if s.len() % 2 != 0 || !s.is_ascii() {
		return None;
	}
	(0..s.len() / 2).map(|i| u8::from_str_radix(&s[2 * i..2 * i + 2], 16).ok()).collect()
}

/// ciphertext || tag
pub fn seal(key: &[u8], nonce: [u8; 12], plain: &[u8]) -> Vec<u8> {
	let k = aead::LessSafeKey::new(aead::UnboundKey::new(&aead::AES_256_GCM, key).unwrap());
	let mut buf = plain.to_vec();
	k.seal_in_place_append_tag(aead::Nonce::assume_unique_for_key(nonce), aead::Aad::from(&[]), &mut buf)
		.unwrap();
	buf
}

/// strict open: the nonce must be exactly 12 bytes
pub fn open(key: &[u8], nonce: &[u8], ct: &[u8]) -> Option<Vec<u8>> {
	if nonce.len() != 12 {
		return None;
	}
	let mut n = [0u8; 12];
	n.copy_from_slice(nonce);
	let k = aead::LessSafeKey::new(aead::UnboundKey::new(&aead::AES_256_GCM, key).unwrap());
	let mut buf = ct.to_vec();
	match k.open_in_place(aead::Nonce::assume_unique_for_key(n), aead::Aad::from(&[]), &mut buf) {
		Ok(p) => Some(p.to_vec()),
		Err(_) => None,
	}
}

fn is_gate_code(c: i64) -> bool {
	c == -32001 || c == -32002 || c == -32003
}

/// class of a JSON-RPC reply object/array as the client sees it after decryption
pub fn classify_inner(v: &Value) -> (String, Vec<String>) {
	match v {
		Value::Array(a) => ("batch".into(), a.iter().map(|x| classify_inner(x).0).collect()),
		Value::Object(_) => {
			if let Some(c) = v["error"]["code"].as_i64() {
				if is_gate_code(c) {
					("gate_err".into(), vec![])
				} else if c == -32099 {
					("err".into(), vec![])
				} else {
					("rpc_err".into(), vec![])
				}
			} else if v["result"].get("Ok").is_some() {
				("ok".into(), vec![])
			} else if v["result"].get("Err").is_some() {
				("err".into(), vec![])
			} else {
				("other".into(), vec![])
			}
		}
		_ => ("other".into(), vec![]),
	}
}

/// syntactic class of what came back over HTTP
pub fn classify(status: u16, text: &str) -> Value {
	let mut r = json!({"cls": "other", "code": 0, "deckey": 0, "inner": "", "items": [], "status": status});
	if status != 200 {
		r["cls"] = json!("http_err");
		r["code"] = json!(status);
		return r;
	}
	let v: Value = match serde_json::from_str(text) {
		Ok(v) => v,
		Err(_) => {
			r["cls"] = json!("notjson");
			return r;
		}
	};
	match &v {
		Value::Array(a) if a.is_empty() => r["cls"] = json!("empty"),
		Value::Array(a) => {
			r["cls"] = json!("plain_batch");
			r["items"] = json!(a.iter().map(|x| classify_inner(x).0).collect::<Vec<_>>());
		}
		Value::Object(_) => {
			if let Some(c) = v["error"]["code"].as_i64() {
				r["code"] = json!(c);
				r["cls"] = json!(if is_gate_code(c) {
					"gate_err"
				} else if c == -32099 {
					"plain_err"
				} else {
					"rpc_err"
				});
			} else if let Some(ok) = v["result"].get("Ok") {
				if ok["nonce"].is_string() && ok["body_enc"].is_string() {
					r["cls"] = json!("enc");
					r["nonce"] = ok["nonce"].clone();
					r["body_enc"] = ok["body_enc"].clone();
				} else {
					r["cls"] = json!("plain_ok");
				}
			} else if v["result"].get("Err").is_some() {
				r["cls"] = json!("plain_err");
			}
		}
		_ => {}
	}
	r
}

/// the error message of a reply (debugging aid of Layer M; never judged)
pub fn err_msg(v: &Value) -> String {
	let m = match v {
		Value::Array(a) => a.iter().map(|x| err_msg(x)).collect::<Vec<_>>().join(" | "),
		_ => {
			if let Some(s) = v["error"]["message"].as_str() {
				s.to_string()
			} else if v["result"].get("Err").is_some() {
				v["result"]["Err"].to_string()
			} else {
				String::new()
			}
		}
	};
	m.chars().take(100).collect()
}
