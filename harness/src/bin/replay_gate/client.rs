//! The client side of the owner-API session protocol, as an honest client (and an
//! attacker who has seen the client's traffic) would implement it: secp256k1 ECDH for the
//! key agreement, AES-256-GCM envelopes, and the request descriptors of spec/OwnerGate.tla
//! turned into bytes.
use crate::wire::{hex, open, seal, unhex};
use crate::{BAD_PASSWORD, PASSWORD, VAULT_LABEL};
use grin_util::secp::key::{PublicKey, SecretKey};
use grin_util::static_secp_instance;
use serde_json::{json, Value};

pub struct Rng(u64);
impl Rng {
	pub fn next(&mut self) -> u64 {
		// splitmix64
		self.0 = self.0.wrapping_add(0x9E3779B97F4A7C15);
		let mut z = self.0;
		z = (z ^ (z >> 30)).wrapping_mul(0xBF58476D1CE4E5B9);
		z = (z ^ (z >> 27)).wrapping_mul(0x94D049BB133111EB);
		z ^ (z >> 31)
	}
	pub fn bytes(&mut self, n: usize) -> Vec<u8> {
		let mut v = vec![];
		while v.len() < n {
			v.extend_from_slice(&self.next().to_le_bytes());
		}
		v.truncate(n);
		v
	}
}

pub struct Client {
	rng: Rng,
	/// session keys the client has derived, in order (index 1..)
	pub keys: Vec<Vec<u8>>,
	/// a key nobody agreed on (index -1)
	pub wrong: Vec<u8>,
	pub token: Option<String>,
	nid: u32,
	nacct: u32,
	/// everything sent in this history: (resolved descriptor, body, reply slots)
	sent: Vec<(Value, String, Vec<(String, Option<SecretKey>)>)>,
}

pub enum WireVal {
	Json(Value),
	Text(String),
}
impl WireVal {
	fn text(&self) -> String {
		match self {
			WireVal::Json(v) => v.to_string(),
			WireVal::Text(t) => t.clone(),
		}
	}
}

pub struct Built {
	pub body: String,
	pub facts: Value,
	/// one entry per JSON-RPC call that gets a reply slot (calls with an id, in order; an
	/// invalid batch member gets an anonymous slot): (abstract method, ECDH secret of an init)
	pub slots: Vec<(String, Option<SecretKey>)>,
}

impl Client {
	pub fn new(seed: u64) -> Client {
		let mut rng = Rng(seed.wrapping_mul(0x2545F4914F6CDD1D) ^ 0xC13);
		let wrong = rng.bytes(32);
		Client { rng, keys: vec![], wrong, token: None, nid: 0, nacct: 0, sent: vec![] }
	}

	/// index of a key among the client's keys: 1.. ; -1 the wrong key ; -2 unknown to the client
	pub fn key_index(&self, k: &[u8]) -> i64 {
		for (i, x) in self.keys.iter().enumerate() {
			if x.as_slice() == k {
				return i as i64 + 1;
			}
		}
		if self.wrong.as_slice() == k {
			return -1;
		}
		-2
	}

	fn key_by_index(&self, i: i64) -> Option<Vec<u8>> {
		if i >= 1 && (i as usize) <= self.keys.len() {
			Some(self.keys[i as usize - 1].clone())
		} else if i == -1 {
			Some(self.wrong.clone())
		} else {
			None
		}
	}

	fn new_secret(&mut self) -> SecretKey {
		let secp = static_secp_instance();
		let secp = secp.lock();
		loop {
			let b = self.rng.bytes(32);
			if let Ok(k) = SecretKey::from_slice(&secp, &b) {
				return k;
			}
		}
	}

	fn method_call(&mut self, m: &str, ecdh: &mut Option<SecretKey>) -> (String, Value) {
		let tok = match self.token.as_ref() {
			Some(t) => json!(t),
			None => Value::Null,
		};
		match m {
			"init" => {
				let sk = self.new_secret();
				let pk = {
					let secp = static_secp_instance();
					let secp = secp.lock();
					PublicKey::from_secret_key(&secp, &sk).unwrap().serialize_vec(&secp, true).to_vec()
				};
				*ecdh = Some(sk);
				("init_secure_api".into(), json!({"ecdh_pubkey": hex(&pk)}))
			}
			"init_bad" => ("init_secure_api".into(), json!({"ecdh_pubkey": "03abcdef"})),
			"open" => ("open_wallet".into(), json!({"name": null, "password": PASSWORD})),
			"open_badpw" => ("open_wallet".into(), json!({"name": null, "password": BAD_PASSWORD})),
			"close" => ("close_wallet".into(), json!({"name": null})),
			"create_wallet" => (
				"create_wallet".into(),
				json!({"name": null, "mnemonic": null, "mnemonic_length": 32, "password": PASSWORD}),
			),
			"accounts" => ("accounts".into(), json!({"token": tok})),
			"tld" => ("get_top_level_directory".into(), json!({})),
			"mnemonic" => ("get_mnemonic".into(), json!({"name": null, "password": PASSWORD})),
			"mnemonic_badpw" => ("get_mnemonic".into(), json!({"name": null, "password": BAD_PASSWORD})),
			"new_account" => {
				self.nacct += 1;
				("create_account_path".into(), json!({"token": tok, "label": format!("acct{}", self.nacct)}))
			}
			"set_active" => ("set_active_account".into(), json!({"token": tok, "label": VAULT_LABEL})),
			"set_default" => ("set_active_account".into(), json!({"token": tok, "label": "default"})),
			"summary" => (
				"retrieve_summary_info".into(),
				json!({"token": tok, "refresh_from_node": false, "minimum_confirmations": 1}),
			),
			"outputs" => (
				"retrieve_outputs".into(),
				json!({"token": tok, "include_spent": false, "refresh_from_node": false, "tx_id": null}),
			),
			"address" => ("get_slatepack_address".into(), json!({"token": tok, "derivation_index": 0})),
			"secret_key" => ("get_slatepack_secret_key".into(), json!({"token": tok, "derivation_index": 0})),
			"unknown" => ("no_such_method".into(), json!({})),
			other => (other.to_string(), json!({})),
		}
	}

	fn envelope(&mut self, q: &Value, inner_text: &str, facts: &mut Value) -> Value {
		let kidx = q["key"].as_i64().unwrap_or(-1);
		let key = match self.key_by_index(kidx) {
			Some(k) => k,
			None => {
				facts["nokey"] = json!(true);
				self.wrong.clone()
			}
		};
		let tamper = q["tamper"].as_str().unwrap_or("none");
		let outer = q["outer"].as_str().unwrap_or("ok");
		let mut nonce = [0u8; 12];
		nonce.copy_from_slice(&self.rng.bytes(12));
		let mut ct = seal(&key, nonce, inner_text.as_bytes());
		let mut nonce_v = nonce.to_vec();
		let mut body_override: Option<String> = None;
		match tamper {
			"none" => {}
			"body" => ct[0] ^= 0x01,
			"tag" => {
				let n = ct.len();
				ct[n - 1] ^= 0x80;
			}
			"nonce" => nonce_v[0] ^= 0x01,
			"swapnonce" => nonce_v = self.rng.bytes(12),
			"trunc" => {
				let n = ct.len();
				ct.truncate(n.saturating_sub(5));
			}
			"short" => ct.truncate(8),
			"empty" => ct.clear(),
			"nonce_short" => nonce_v.truncate(11),
			"nonce_ext" => nonce_v.push(0),
			"b64" => body_override = Some(format!("*{}", base64::encode(&ct))),
			"plainbody" => body_override = Some(base64::encode(inner_text.as_bytes())),
			_ => {}
		}
		let body_enc = body_override.unwrap_or_else(|| base64::encode(&ct));
		self.nid += 1;
		let method = match outer {
			"ok" | "noid" | "strid" | "bigid" | "seq" => "encrypted_request_v3",
			"other" => "accounts",
			"init" => "init_secure_api",
			_ => "encrypted_request_v3",
		};
		let mut env = json!({"jsonrpc": "2.0", "method": method, "id": self.nid,
			"params": {"nonce": hex(&nonce_v), "body_enc": body_enc}});
		if outer == "noid" {
			env.as_object_mut().unwrap().remove("id");
		}
		if outer == "strid" {
			env["id"] = json!(format!("{}", self.nid));
		}
		if outer == "bigid" {
			env["id"] = json!(4294967296u64);
		}
		if outer == "seq" {
			// serde accepts a sequence for a struct: jsonrpc, method, id, params
			env = json!([env["jsonrpc"], env["method"], env["id"], env["params"]]);
		}
		// is what goes on the wire a genuine AES-256-GCM message under the named key?
		let pr = if env.is_array() { env[3].clone() } else { env["params"].clone() };
		let genuine = match (unhex(pr["nonce"].as_str().unwrap_or("")), base64::decode(pr["body_enc"].as_str().unwrap_or("*"))) {
			(Some(n), Ok(c)) => open(&key, &n, &c).is_some(),
			_ => false,
		};
		facts["genuine"] = json!(genuine);
		env
	}

	fn wire(&mut self, q: &Value, slots: &mut Vec<(String, Option<SecretKey>)>, facts: &mut Value, depth: usize) -> WireVal {
		match q["k"].as_str().unwrap_or("") {
			"plain" => {
				let m = q["m"].as_str().unwrap_or("");
				let mut sk = None;
				let (method, params) = self.method_call(m, &mut sk);
				self.nid += 1;
				let mut o = json!({"jsonrpc": "2.0", "method": method, "params": params, "id": self.nid});
				if q["form"].as_str() == Some("notif") {
					o.as_object_mut().unwrap().remove("id");
				} else {
					slots.push((m.to_string(), sk));
				}
				WireVal::Json(o)
			}
			"enc" => {
				let inner = self.wire(&q["inner"], slots, facts, depth + 1).text();
				let mut f = json!({});
				let env = self.envelope(q, &inner, &mut f);
				if depth == 0 {
					for (k, v) in f.as_object().unwrap() {
						facts[k] = v.clone();
					}
				}
				WireVal::Json(env)
			}
			"batch" => {
				let mut items = vec![];
				for it in q["items"].as_array().cloned().unwrap_or_default().iter() {
					let plain = it["k"].as_str() == Some("plain");
					// a member that is not a plain call is never executed: it gets an anonymous reply slot
					let mut scratch = vec![];
					let w = if plain { self.wire(it, slots, facts, depth + 1) } else { self.wire(it, &mut scratch, facts, depth + 1) };
					match w {
						WireVal::Json(v) => items.push(v),
						WireVal::Text(t) => items.push(serde_json::from_str(&t).unwrap_or(json!(t))),
					}
					if !plain {
						slots.push((String::new(), None));
					}
				}
				WireVal::Json(Value::Array(items))
			}
			"raw" => WireVal::Text(
				match q["what"].as_str().unwrap_or("") {
					"notjson" => "{\"jsonrpc\": \"2.0\", \"method\": ",
					"empty" => "",
					"string" => "\"accounts\"",
					"number" => "42",
					"null" => "null",
					"true" => "true",
					"nomethod" => "{\"jsonrpc\": \"2.0\", \"id\": 1, \"params\": {}}",
					"emptyobj" => "{}",
					"emptyarr" => "[]",
					"nullmethod" => "{\"jsonrpc\": \"2.0\", \"id\": 1, \"method\": null, \"params\": {}}",
					"dup_init_last" => "{\"jsonrpc\": \"2.0\", \"id\": 1, \"method\": \"no_such_method\", \"params\": {\"token\": null}, \"method\": \"init_secure_api\"}",
					"dup_init_first" => "{\"jsonrpc\": \"2.0\", \"id\": 1, \"method\": \"init_secure_api\", \"params\": {\"token\": null}, \"method\": \"no_such_method\"}",
					_ => "???",
				}
				.to_string(),
			),
			_ => WireVal::Text("???".into()),
		}
	}

	/// random walks name keys symbolically ("latest", "prev", "first"): resolve them to the
	/// client's key numbers (the trace records the resolved descriptor)
	pub fn resolve(&self, q: &Value) -> Value {
		let mut r = q.clone();
		match q["k"].as_str().unwrap_or("") {
			"enc" => {
				if let Some(s) = q["key"].as_str() {
					let n = self.keys.len() as i64;
					let k = match s {
						"latest" if n >= 1 => n,
						"prev" if n >= 2 => n - 1,
						"first" if n >= 1 => 1,
						_ => -1,
					};
					r["key"] = json!(k);
				}
				r["inner"] = self.resolve(&q["inner"]);
			}
			"batch" => {
				r["items"] = json!(q["items"].as_array().cloned().unwrap_or_default().iter().map(|x| self.resolve(x)).collect::<Vec<_>>());
			}
			"replay" => {
				// the descriptor of the replayed request is the one recorded when it was sent
				let i = q["idx"].as_u64().unwrap_or(0) as usize;
				if i >= 1 && i <= self.sent.len() {
					r["of"] = self.sent[i - 1].0.clone();
				}
			}
			_ => {}
		}
		r
	}

	pub fn build(&mut self, q: &Value) -> Built {
		let mut slots = vec![];
		let mut facts = json!({});
		let body = if q["k"].as_str() == Some("replay") {
			let i = q["idx"].as_u64().unwrap_or(0) as usize;
			if i >= 1 && i <= self.sent.len() {
				slots = self.sent[i - 1].2.clone();
				self.sent[i - 1].1.clone()
			} else {
				facts["noreplay"] = json!(true);
				"null".to_string()
			}
		} else {
			self.wire(q, &mut slots, &mut facts, 0).text()
		};
		facts["len"] = json!(body.len());
		self.sent.push((q.clone(), body.clone(), slots.clone()));
		Built { body, facts, slots }
	}

	/// try every key the client has; returns (index | 0, decrypted JSON, decrypted text)
	pub fn try_open(&self, nonce: &Value, body_enc: &Value) -> (i64, Option<Value>, String) {
		let n = unhex(nonce.as_str().unwrap_or(""));
		let c = base64::decode(body_enc.as_str().unwrap_or("*"));
		if let (Some(n), Ok(c)) = (n, c) {
			let mut cands: Vec<(i64, &Vec<u8>)> = self.keys.iter().enumerate().map(|(i, k)| (i as i64 + 1, k)).collect();
			cands.push((-1, &self.wrong));
			for (i, k) in cands {
				if let Some(p) = open(k, &n, &c) {
					let txt = String::from_utf8_lossy(&p).to_string();
					return (i, serde_json::from_str(&txt).ok(), txt);
				}
			}
		}
		(0, None, String::new())
	}

	/// what an honest client does with a reply: complete the key agreement, remember the token.
	/// returns (index of the key derived from this reply | 0, was it new)
	pub fn absorb(&mut self, built: &Built, visible: Option<&Value>) -> (i64, bool) {
		let mut res = (0i64, false);
		let v = match visible {
			Some(v) => v,
			None => return res,
		};
		let items: Vec<&Value> = match v {
			Value::Array(a) => a.iter().collect(),
			o => vec![o],
		};
		for (i, it) in items.iter().enumerate() {
			let (m, sk) = match built.slots.get(i) {
				Some(x) => x,
				None => break,
			};
			let ok = match it["result"].get("Ok") {
				Some(x) => x,
				None => continue,
			};
			if m == "init" {
				if let (Some(s), Some(sk)) = (ok.as_str(), sk.as_ref()) {
					if let Some(b) = unhex(s) {
						let secp = static_secp_instance();
						let secp = secp.lock();
						if let Ok(mut pk) = PublicKey::from_slice(&secp, &b) {
							if pk.mul_assign(&secp, sk).is_ok() {
								let x = pk.serialize_vec(&secp, true)[1..].to_vec();
								let idx = self.key_index(&x);
								if idx >= 1 {
									res = (idx, false);
								} else {
									self.keys.push(x);
									res = (self.keys.len() as i64, true);
								}
							}
						}
					}
				}
			} else if m == "open" {
				self.token = ok.as_str().map(|s| s.to_string());
			}
		}
		res
	}
}
