//! replay_gate --in histories.json --out events.ndjson [--jobs N]
//!
//! C13: drives the REAL `controller::OwnerAPIHandlerV3::post` in-process with crafted
//! `hyper::Request`s.  The harness is the ECDH client: it derives the session keys with
//! secp256k1 exactly as a wallet client would, builds the AES-256-GCM envelopes itself
//! (ring, not the code under test) so that it can tamper with them, and records for
//! every request
//!   * the abstract request descriptor it was given (spec/OwnerGate.tla vocabulary),
//!   * the response class, under which of the client's keys the response decrypts, what the
//!     decrypted reply is, which wallet-data atoms occur in the clear / decrypted text,
//!   * the handler's session key (by client key index), whether the wallet is open, the
//!     active account and a digest of the wallet directory - before and after.
//! It never judges: spec/TraceOwnerGate.tla does.
//!
//! histories.json: {"setup": {"seed": n}, "behaviours": [ {"open0": bool, "foreign": bool, "reqs": [q,...]} | [q,...] , ...]}
mod client;
mod wire;

use client::Client;
use futures::executor::block_on;
use grin_api::Handler;
use grin_keychain::ExtKeychain;
use grin_util::secp::key::SecretKey;
use grin_util::{Mutex, ZeroingString};
use grin_wallet_controller::controller::OwnerAPIHandlerV3;
use grin_wallet_impls::DefaultWalletImpl;
use grin_wallet_libwallet::WalletInst;
use serde_json::{json, Value};
use sha2::{Digest, Sha256};
use std::io::Write;
use std::panic::{catch_unwind, AssertUnwindSafe};
use std::path::Path;
use std::sync::atomic::{AtomicUsize, Ordering};
use std::sync::Arc;
use vharness::node::DirectNode;
use vharness::world::{acct_str, panic_msg, set_thread_globals, World, LC, U, W};

pub const PASSWORD: &str = "";
pub const BAD_PASSWORD: &str = "not-the-password";
pub const VAULT_LABEL: &str = "vaultacct7c13";

type Handler3 = OwnerAPIHandlerV3<LC, DirectNode, ExtKeychain>;

/// what every behaviour starts from (built once)
#[derive(Clone)]
pub struct Template {
	pub dir: String,
	pub node: DirectNode,
	/// wallet-data atoms: (name, text)
	pub atoms: Vec<(String, String)>,
}

fn copy_dir(src: &Path, dst: &Path) {
	std::fs::create_dir_all(dst).unwrap();
	for e in std::fs::read_dir(src).unwrap() {
		let e = e.unwrap();
		let p = e.path();
		let d = dst.join(e.file_name());
		if p.is_dir() {
			copy_dir(&p, &d);
		} else {
			std::fs::copy(&p, &d).unwrap();
		}
	}
}

fn walk(p: &Path, rel: &str, out: &mut Vec<(String, Vec<u8>)>) {
	if let Ok(rd) = std::fs::read_dir(p) {
		let mut es: Vec<_> = rd.filter_map(|e| e.ok()).collect();
		es.sort_by_key(|e| e.file_name());
		for e in es {
			let name = e.file_name().to_string_lossy().to_string();
			let r = if rel.is_empty() { name.clone() } else { format!("{}/{}", rel, name) };
			let path = e.path();
			if path.is_dir() {
				out.push((format!("{}/", r), vec![]));
				walk(&path, &r, out);
			} else if name != "lock.mdb" && !name.ends_with(".log") {
				out.push((r, std::fs::read(&path).unwrap_or_default()));
			}
		}
	}
}

/// digest of everything the wallet keeps on disk (LMDB reader-lock table excluded)
fn store_digest(dir: &str) -> String {
	let mut files = vec![];
	walk(Path::new(dir), "", &mut files);
	let mut h = Sha256::new();
	for (n, b) in files.iter() {
		h.update(n.as_bytes());
		h.update(&(b.len() as u64).to_le_bytes());
		h.update(b);
	}
	let d = h.finalize();
	d.iter().take(8).map(|b| format!("{:02x}", b)).collect()
}

fn build_template(root: &str) -> Template {
	let wdir = format!("{}/world", root);
	let mut w = World::new(&wdir, U);
	w.create_wallet("w1", false, None);
	w.mine(Some("w1"), &[]);
	for _ in 0..3 {
		w.mine(None, &[]);
	}
	w.refresh("w1", 1);
	w.create_account("w1", VAULT_LABEL);
	let mut atoms = vec![];
	let phrase = w.wallets["w1"].phrase.clone();
	let words: Vec<&str> = phrase.split_whitespace().collect();
	if words.len() >= 6 {
		atoms.push(("mnemonic".to_string(), words[0..6].join(" ")));
	}
	atoms.push(("acct_label".to_string(), VAULT_LABEL.to_string()));
	let _ = w.obs();
	for (commit, name) in w.reg.iter() {
		if name.starts_with("w1:") {
			atoms.push(("commit".to_string(), commit.clone()));
		}
	}
	// slatepack address of the wallet
	{
		let inst = w.inst("w1");
		let api = grin_wallet_api::Owner::new(inst, None);
		if let Ok(a) = api.get_slatepack_address(None, 0) {
			atoms.push(("address".to_string(), format!("{}", a)));
		}
	}
	let node = w.node.clone();
	let dir = w.wallets["w1"].dir.clone();
	// close the template wallet: drop its instance (LMDB environment closed)
	w.wallets.get_mut("w1").unwrap().inst = None;
	// the chain must stay alive for the node client
	std::mem::forget(w);
	Template { dir, node, atoms }
}

struct Sut {
	dir: String,
	wallet: W,
	handler: Handler3,
	client: Client,
	atoms: Vec<(String, String)>,
}

fn new_sut(t: &Template, dir: &str, open0: bool, foreign: bool, seed: u64) -> Sut {
	let _ = std::fs::remove_dir_all(dir);
	copy_dir(Path::new(&t.dir), Path::new(dir));
	let mut wallet = Box::new(DefaultWalletImpl::<DirectNode>::new(t.node.clone()).unwrap())
		as Box<dyn WalletInst<'static, LC, DirectNode, ExtKeychain>>;
	let mut token: Option<SecretKey> = None;
	{
		let lc = wallet.lc_provider().unwrap();
		lc.set_top_level_directory(dir).unwrap();
		if open0 {
			token = lc.open_wallet(None, ZeroingString::from(PASSWORD), true, false).unwrap();
		}
	}
	let wallet: W = Arc::new(Mutex::new(wallet));
	// as `owner_listener` does: the mask obtained when the wallet was opened at start-up is shared
	// with the handler (it is only ever replaced when the foreign API runs on the same listener)
	let handler = OwnerAPIHandlerV3::new(wallet.clone(), Arc::new(Mutex::new(token.clone())), None, foreign);
	let mut atoms = t.atoms.clone();
	atoms.push(("tld".to_string(), dir.to_string()));
	let mut client = Client::new(seed);
	client.token = token.map(|k| wire::hex(&k.0));
	Sut { dir: dir.to_string(), wallet, handler, client, atoms }
}

impl Sut {
	fn obs(&self) -> Value {
		let sess: i64 = {
			let k = self.handler.shared_key.lock();
			match k.as_ref() {
				None => 0,
				Some(sk) => self.client.key_index(&sk.0),
			}
		};
		let (open, active) = {
			let mut l = self.wallet.lock();
			match l.lc_provider().and_then(|lc| lc.wallet_inst().map(|wi| wi.parent_key_id())) {
				Ok(p) => (true, acct_str(&p)),
				Err(_) => (false, "".to_string()),
			}
		};
		let tld = {
			let mut l = self.wallet.lock();
			l.lc_provider().and_then(|lc| lc.get_top_level_directory()).unwrap_or_default()
		};
		let mask = {
			let m = self.handler.keychain_mask.lock();
			match m.as_ref() {
				None => "".to_string(),
				Some(k) => {
					let mut h = Sha256::new();
					h.update(&k.0);
					h.finalize().iter().take(4).map(|b| format!("{:02x}", b)).collect()
				}
			}
		};
		json!({"sess": sess, "ngen": self.client.keys.len(), "mask": mask, "open": open, "active": active, "tld": tld == self.dir, "dig": store_digest(&self.dir)})
	}

	fn leaks(&self, text: &str) -> Vec<String> {
		let mut v: Vec<String> = vec![];
		for (n, a) in self.atoms.iter() {
			if !a.is_empty() && text.contains(a.as_str()) && !v.contains(n) {
				v.push(n.clone());
			}
		}
		if let Some(t) = self.client.token.as_ref() {
			if text.contains(t.as_str()) {
				v.push("token".into());
			}
		}
		v.sort();
		v
	}

	/// POST `body` to the real handler; returns (status, body text) or a panic message
	fn post(&self, body: String) -> Result<(u16, String), String> {
		let h = &self.handler;
		let r = catch_unwind(AssertUnwindSafe(|| {
			let req = hyper::Request::builder()
				.method("POST")
				.uri("/v3/owner")
				.body(hyper::Body::from(body))
				.unwrap();
			let resp = block_on(h.post(req)).map_err(|e| format!("{}", e))?;
			let status = resp.status().as_u16();
			let b = block_on(hyper::body::to_bytes(resp.into_body())).map_err(|e| format!("{}", e))?;
			Ok::<(u16, String), String>((status, String::from_utf8_lossy(&b).to_string()))
		}));
		match r {
			Ok(Ok(x)) => Ok(x),
			Ok(Err(e)) => Ok((599, e)),
			Err(p) => Err(panic_msg(&p)),
		}
	}

	/// execute one request descriptor, return the trace line
	fn step(&mut self, q: &Value) -> Value {
		let pre = self.obs();
		let q = &self.client.resolve(q);
		let built = self.client.build(q);
		let mut line = json!({"ev": "req", "q": q, "pre": pre, "sent": built.facts});
		let out = self.post(built.body.clone());
		let resp = match out {
			Err(p) => json!({"cls": "panic", "detail": p, "code": 0, "deckey": 0, "inner": "", "items": [],
				"leak_raw": [], "leak_dec": [], "newkey": 0, "fresh": false}),
			Ok((status, text)) => {
				let mut r = wire::classify(status, &text);
				r["msg"] = json!(match serde_json::from_str::<Value>(&text) {
					Ok(v) => wire::err_msg(&v),
					Err(_) => text.chars().take(100).collect(),
				});
				r["leak_raw"] = json!(self.leaks(&text));
				let mut leak_dec: Vec<String> = vec![];
				let mut dec_val: Option<Value> = None;
				if r["cls"] == "enc" {
					// under which of the client's keys does the reply open?
					let (idx, val, txt) = self.client.try_open(&r["nonce"], &r["body_enc"]);
					r["deckey"] = json!(idx);
					if let Some(v) = val {
						let (ic, items) = wire::classify_inner(&v);
						r["inner"] = json!(ic);
						r["items"] = json!(items);
						leak_dec = self.leaks(&txt);
						r["msg"] = json!(wire::err_msg(&v));
						dec_val = Some(v);
					} else if idx > 0 {
						r["inner"] = json!("notjson");
					}
				}
				r["leak_dec"] = json!(leak_dec);
				if let Some(o) = r.as_object_mut() {
					o.remove("nonce");
					o.remove("body_enc");
				}
				// the client side of the protocol: adopt a new key / token if the reply carries one
				let clear: Option<Value> = serde_json::from_str(&text).ok();
				let visible = dec_val.or(clear);
				let (nk, fresh) = self.client.absorb(&built, visible.as_ref());
				r["newkey"] = json!(nk);
				r["fresh"] = json!(fresh);
				r
			}
		};
		line["resp"] = resp;
		line["post"] = self.obs();
		line
	}
}

fn run_behaviour(t: &Template, dir: &str, beh: &Value, bid: usize, seed: u64) -> Vec<String> {
	let (open0, foreign, reqs): (bool, bool, Vec<Value>) = match beh {
		Value::Array(a) => (false, false, a.clone()),
		o => (
			o["open0"].as_bool().unwrap_or(false),
			o["foreign"].as_bool().unwrap_or(false),
			o["reqs"].as_array().cloned().unwrap_or_default(),
		),
	};
	let mut sut = new_sut(t, dir, open0, foreign, seed ^ ((bid as u64) << 20));
	let mut out = vec![];
	out.push(json!({"ev": "reset", "b": bid, "open0": open0, "foreign": foreign, "post": sut.obs()}).to_string());
	for q in reqs.iter() {
		let mut l = sut.step(q);
		l["b"] = json!(bid);
		out.push(l.to_string());
	}
	drop(sut);
	let _ = std::fs::remove_dir_all(dir);
	out
}

fn main() {
	let args: Vec<String> = std::env::args().collect();
	let (mut inp, mut outp, mut jobs) = (String::new(), String::new(), 12usize);
	let mut i = 1;
	while i < args.len() {
		match args[i].as_str() {
			"--in" => { inp = args[i + 1].clone(); i += 1; }
			"--out" => { outp = args[i + 1].clone(); i += 1; }
			"--jobs" => { jobs = args[i + 1].parse().unwrap(); i += 1; }
			_ => {}
		}
		i += 1;
	}
	std::panic::set_hook(Box::new(|_| {}));
	let v: Value = serde_json::from_str(&std::fs::read_to_string(&inp).expect("read input")).expect("json");
	let seed = v["setup"]["seed"].as_u64().unwrap_or(1);
	let behs: Vec<Value> = v["behaviours"].as_array().expect("behaviours").clone();
	let root = vharness::driver::tmp_root();
	let _ = std::fs::remove_dir_all(&root);
	std::fs::create_dir_all(&root).unwrap();
	set_thread_globals(U);
	let tmpl = build_template(&root);

	let next = Arc::new(AtomicUsize::new(0));
	let results: Arc<std::sync::Mutex<Vec<Option<Vec<String>>>>> = Arc::new(std::sync::Mutex::new(vec![None; behs.len()]));
	let behs = Arc::new(behs);
	let mut handles = vec![];
	for j in 0..jobs.max(1) {
		let (next, results, behs, tmpl, root) = (next.clone(), results.clone(), behs.clone(), tmpl.clone(), root.clone());
		handles.push(
			std::thread::Builder::new()
				.stack_size(32 << 20)
				.spawn(move || {
					set_thread_globals(U);
					loop {
						let i = next.fetch_add(1, Ordering::SeqCst);
						if i >= behs.len() {
							break;
						}
						let dir = format!("{}/j{}_b{}", root, j, i);
						let lines = match catch_unwind(AssertUnwindSafe(|| run_behaviour(&tmpl, &dir, &behs[i], i, seed))) {
							Ok(l) => l,
							Err(p) => vec![json!({"ev": "harness_panic", "b": i, "detail": panic_msg(&p)}).to_string()],
						};
						results.lock().unwrap()[i] = Some(lines);
					}
				})
				.unwrap(),
		);
	}
	for h in handles {
		let _ = h.join();
	}
	let mut f = std::io::BufWriter::new(std::fs::File::create(&outp).expect("create out"));
	let mut n = 0;
	for r in results.lock().unwrap().iter_mut() {
		if let Some(l) = r.take() {
			for x in l {
				writeln!(f, "{}", x).unwrap();
				n += 1;
			}
		}
	}
	f.flush().unwrap();
	eprintln!("replayed {} histories, {} lines", behs.len(), n);
	let _ = std::fs::remove_dir_all(&root);
	// the chain of the template world was leaked on purpose; leave without running destructors
	std::process::exit(0);
}
