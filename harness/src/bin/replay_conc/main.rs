//! replay_conc --in scenarios.json --out events.ndjson [--jobs N]
//! C20: one multi-section operation R (refresh = update_wallet_state, or scan) runs in its
//! own real thread which parks in the `wallet_lock!` hook BEFORE every acquisition of the
//! wallet mutex; the scheduler thread runs the other (single-call) operations at the lock
//! points the schedule names and releases R one section at a time.  Every schedule is
//! therefore deterministic and replayable.  For each scenario every serial order of the
//! same operations is executed as well (fresh world each time); TLC judges whether the
//! final projection of each interleaving equals that of some serial order.
//!
//! scenarios.json: {"setup": {...}, "scenarios": [{"prefix": [...], "r": {"ev": "refresh"|"scan", "w": "w1", ..},
//!    "ops": [event, ...], "schedules": [[j1, j2, ..], ...] | absent (= "count" run only)}]}
//! a schedule gives, for every op i (in order), the number j_i of lock points R has passed
//! when op i runs (ops with equal j run in the given order; j >= N means after R finished).
use serde_json::{json, Map, Value};
use std::io::Write;
use std::sync::atomic::{AtomicUsize, Ordering};
use std::sync::mpsc::{channel, Receiver, RecvTimeoutError, Sender};
use std::sync::{Arc, Mutex};
use std::time::Duration;
use vharness::driver::{setup_world, step, tmp_root};
use vharness::libwallet::api_impl::{owner, owner_updater};
use vharness::world::{guarded, set_thread_globals, Outcome, World, U};

enum Msg {
	Parked(usize),
	Done(String),
}

/// the part of the abstract state C20 compares (DESIGN Appendix B "Serial outcomes")
fn proj(w: &mut World) -> Value {
	let o = w.obs();
	let mut out = Map::new();
	if let Some(ws) = o["w"].as_object() {
		for (n, wv) in ws {
			// log ids are assigned in HashMap / commitment order when one batch creates several
			// entries (named havoc of the model): entries are compared as a multiset of their
			// contents and an output's link names the content of the entry it points to
			let ent = |acct: &Value, id: &Value| -> Value {
				let k = format!("{}i{}", acct.as_str().unwrap_or(""), id);
				match wv["txs"].get(&k) {
					Some(v) => json!({"ty": v["ty"], "conf": v["conf"], "slate": v["slate"], "cr": v["cr"], "db": v["db"]}),
					None => json!("none"),
				}
			};
			let mut outs = Map::new();
			if let Some(m) = wv["outs"].as_object() {
				for (k, v) in m {
					outs.insert(k.clone(), json!({"st": v["st"], "v": v["v"], "tx": ent(&v["pa"], &v["tx"]), "acct": v["acct"], "cb": v["cb"]}));
				}
			}
			let mut txl: Vec<String> = vec![];
			if let Some(m) = wv["txs"].as_object() {
				for (_, v) in m {
					txl.push(json!({"acct": v["acct"], "ty": v["ty"], "conf": v["conf"], "kern": v["kern"], "proof": v["proof"],
						"cr": v["cr"], "db": v["db"], "slate": v["slate"]}).to_string());
				}
			}
			txl.sort();
			let txs: Vec<Value> = txl.iter().map(|s| serde_json::from_str(s).unwrap()).collect();
			let ctxs: Vec<String> = wv["ctxs"].as_object().map(|m| m.keys().cloned().collect()).unwrap_or_default();
			let mut idx = Map::new();
			if let Some(m) = wv["idx"].as_object() {
				for (k, v) in m {
					idx.insert(k.clone(), json!({"child": v["child"], "log": v["log"]}));
				}
			}
			out.insert(n.clone(), json!({"outs": outs, "txs": txs, "ctxs": ctxs, "idx": idx, "files": wv["files"]}));
		}
	}
	json!({"w": out, "height": o["height"]})
}

fn run_prefix(dir: &str, setup: &Value, prefix: &[Value]) -> World {
	let mut w = setup_world(dir, setup);
	for e in prefix {
		if e["ev"] == "cancel" {
			let wn = e["w"].as_str().unwrap_or("w1").to_string();
			w.refresh(&wn, 1);
		}
		step(&mut w, e);
	}
	w
}

/// run R to completion in the calling thread (serial orders)
fn run_r_inline(w: &mut World, r: &Value) -> Value {
	step(w, r)
}

/// spawn R in its own thread, parked at every wallet_lock
fn spawn_r(w: &World, r: &Value, tx: Sender<Msg>, go: Receiver<()>, running: Arc<std::sync::atomic::AtomicBool>) -> std::thread::JoinHandle<()> {
	let wn = r["w"].as_str().unwrap_or("w1").to_string();
	let inst = w.inst(&wn);
	let mask = w.mask(&wn);
	let r = r.clone();
	let unit = w.unit;
	std::thread::Builder::new()
		.stack_size(64 << 20)
		.spawn(move || {
			set_thread_globals(unit);
			let tx2 = tx.clone();
			let count = std::cell::Cell::new(0usize);
			grin_wallet_util::verif::set_handler(Some(Box::new(move |name: &str| {
				if name == "wallet_lock" {
					count.set(count.get() + 1);
					let _ = tx2.send(Msg::Parked(count.get()));
					// wait for the scheduler; a closed channel means "run free"
					let _ = go.recv();
				}
				false
			})));
			let res = guarded(|| {
				if r["via"] == "updater" {
					// the background updater itself: Updater::run loops over update_wallet_state until its
					// running flag is cleared (the scheduler clears it - stop_updater - while the first pass
					// is parked at its first lock point, so the loop makes exactly one pass)
					let u = owner_updater::Updater::new(inst.clone(), running.clone());
					u.run(Duration::from_millis(1), mask.clone(), &None).map(|_| true)
				} else if r["ev"] == "scan" {
					owner::scan(
						inst.clone(),
						mask.as_ref(),
						r["start"].as_u64().or(Some(1)),
						r["del"].as_bool().unwrap_or(false),
						&None,
					)
					.map(|_| true)
				} else {
					owner::retrieve_summary_info(inst.clone(), mask.as_ref(), &None, true, 1).map(|x| x.0)
				}
			});
			grin_wallet_util::verif::set_handler(None);
			let s = match res {
				Outcome::Ok(b) => format!("ok:{}", b),
				o => o.res(),
			};
			let _ = tx.send(Msg::Done(s));
		})
		.unwrap()
}

/// returns (final projection, r result, op results, sections seen, hang)
fn run_schedule(dir: &str, setup: &Value, sc: &Value, js: &[usize]) -> Value {
	let prefix = sc["prefix"].as_array().cloned().unwrap_or_default();
	let ops = sc["ops"].as_array().cloned().unwrap_or_default();
	let mut w = run_prefix(dir, setup, &prefix);
	let (tx, rx) = channel::<Msg>();
	let (gotx, gorx) = channel::<()>();
	let running = Arc::new(std::sync::atomic::AtomicBool::new(false));
	let h = spawn_r(&w, &sc["r"], tx, gorx, running.clone());
	let mut next_op = 0usize;
	let mut opres: Vec<Value> = vec![];
	let mut passed = 0usize; // lock points R has passed
	let mut rres = String::from("?");
	let mut hang = false;
	loop {
		match rx.recv_timeout(Duration::from_secs(40)) {
			Ok(Msg::Parked(n)) => {
				// R is parked before its n-th acquisition: it has passed n-1
				passed = n - 1;
				// (stop_updater: the pass under way is the last one)
				running.store(false, Ordering::Relaxed);
				while next_op < ops.len() && js[next_op] <= passed {
					let e = step(&mut w, &ops[next_op]);
					opres.push(json!({"ev": e["ev"], "res": e["res"], "at": passed}));
					next_op += 1;
				}
				let _ = gotx.send(());
			}
			Ok(Msg::Done(s)) => {
				rres = s;
				passed += 1;
				break;
			}
			Err(RecvTimeoutError::Timeout) => {
				hang = true;
				break;
			}
			Err(RecvTimeoutError::Disconnected) => {
				rres = "disconnected".into();
				break;
			}
		}
	}
	if !hang {
		let _ = h.join();
	} else {
		// let the thread run free so that the process can finish
		drop(gotx);
	}
	while next_op < ops.len() && !hang {
		let e = step(&mut w, &ops[next_op]);
		opres.push(json!({"ev": e["ev"], "res": e["res"], "at": "end"}));
		next_op += 1;
	}
	let p = if hang { json!({}) } else { proj(&mut w) };
	drop(w);
	let _ = std::fs::remove_dir_all(dir);
	json!({"final": p, "rres": rres, "opres": opres, "sections": passed, "hang": hang})
}

fn permutations(n: usize) -> Vec<Vec<usize>> {
	fn rec(cur: &mut Vec<usize>, used: &mut Vec<bool>, n: usize, out: &mut Vec<Vec<usize>>) {
		if cur.len() == n {
			out.push(cur.clone());
			return;
		}
		for i in 0..n {
			if !used[i] {
				used[i] = true;
				cur.push(i);
				rec(cur, used, n, out);
				cur.pop();
				used[i] = false;
			}
		}
	}
	let mut out = vec![];
	rec(&mut vec![], &mut vec![false; n], n, &mut out);
	out
}

/// all serial orders of R and the ops (index ops.len() stands for R)
fn run_serials(dir: &str, setup: &Value, sc: &Value) -> Vec<Value> {
	let prefix = sc["prefix"].as_array().cloned().unwrap_or_default();
	let ops = sc["ops"].as_array().cloned().unwrap_or_default();
	let mut res = vec![];
	for (pi, perm) in permutations(ops.len() + 1).into_iter().enumerate() {
		let d = format!("{}_s{}", dir, pi);
		let mut w = run_prefix(&d, setup, &prefix);
		let mut results = vec![];
		for i in perm.iter() {
			let e = if *i == ops.len() { run_r_inline(&mut w, &sc["r"]) } else { step(&mut w, &ops[*i]) };
			results.push(json!({"ev": e["ev"], "res": e["res"]}));
		}
		let p = proj(&mut w);
		drop(w);
		let _ = std::fs::remove_dir_all(&d);
		res.push(json!({"order": perm, "results": results, "proj": p}));
	}
	res
}

fn run_scenario(dir: &str, setup: &Value, sc: &Value, bid: usize) -> Vec<String> {
	let mut out = vec![];
	let nops = sc["ops"].as_array().map(|a| a.len()).unwrap_or(0);
	// counting run: R alone (ops after R), tells the number of lock points
	let count = run_schedule(&format!("{}_c", dir), setup, sc, &vec![usize::MAX; nops]);
	let n = count["sections"].as_u64().unwrap_or(0);
	let serials = run_serials(dir, setup, sc);
	out.push(
		json!({"ev": "conc_scenario", "b": bid, "r": sc["r"], "ops": sc["ops"], "nprefix": sc["prefix"].as_array().map(|a| a.len()).unwrap_or(0),
			"sections": n, "serial_orders": serials.len(), "res": "ok",
			"serial_results": serials.iter().map(|s| json!({"order": s["order"], "results": s["results"]})).collect::<Vec<_>>()})
		.to_string(),
	);
	let sprojs: Vec<Value> = serials.iter().map(|s| s["proj"].clone()).collect();
	if let Some(scheds) = sc["schedules"].as_array() {
		for (si, s) in scheds.iter().enumerate() {
			let js: Vec<usize> = s.as_array().map(|a| a.iter().map(|x| x.as_u64().unwrap_or(0) as usize).collect()).unwrap_or_default();
			let r = run_schedule(&format!("{}_i{}", dir, si), setup, sc, &js);
			out.push(
				json!({"ev": "conc", "b": bid, "sched": js, "r": sc["r"]["ev"], "w": sc["r"]["w"], "via": sc["r"]["via"].as_str().unwrap_or(""),
					"opkinds": sc["ops"].as_array().map(|a| a.iter().map(|e| e["ev"].clone()).collect::<Vec<_>>()).unwrap_or_default(),
					"final": r["final"], "serials": sprojs, "rres": r["rres"], "opres": r["opres"], "hang": r["hang"],
					"sections": r["sections"], "res": "ok"})
				.to_string(),
			);
		}
	}
	out
}

fn main() {
	let args: Vec<String> = std::env::args().collect();
	let (mut inp, mut outp, mut jobs) = (String::new(), String::new(), 8usize);
	let mut i = 1;
	while i < args.len() {
		match args[i].as_str() {
			"--in" => { inp = args[i + 1].clone(); i += 1; }
			"--out" => { outp = args[i + 1].clone(); i += 1; }
			"--jobs" => { jobs = args[i + 1].parse().unwrap(); i += 1; }
			_ => {}
		}
		i += 1;
	}
	std::panic::set_hook(Box::new(|_| {}));
	set_thread_globals(U);
	let v: Value = serde_json::from_str(&std::fs::read_to_string(&inp).expect("read")).expect("json");
	let setup = v["setup"].clone();
	let scs: Vec<Value> = v["scenarios"].as_array().cloned().unwrap_or_default();
	// one work item per (scenario, chunk of schedules) keeps all cores busy
	let root = tmp_root();
	let next = Arc::new(AtomicUsize::new(0));
	let results: Arc<Mutex<Vec<Option<Vec<String>>>>> = Arc::new(Mutex::new(vec![None; scs.len()]));
	let scs = Arc::new(scs);
	let mut hs = vec![];
	for j in 0..jobs.max(1) {
		let (next, results, scs, setup, root) = (next.clone(), results.clone(), scs.clone(), setup.clone(), root.clone());
		hs.push(std::thread::Builder::new().stack_size(64 << 20).spawn(move || {
			set_thread_globals(U);
			loop {
				let i = next.fetch_add(1, Ordering::SeqCst);
				if i >= scs.len() { break; }
				let dir = format!("{}/k{}_{}", root, j, i);
				let lines = match std::panic::catch_unwind(std::panic::AssertUnwindSafe(|| run_scenario(&dir, &setup, &scs[i], i))) {
					Ok(l) => l,
					Err(p) => vec![json!({"ev": "harness_panic", "b": i, "res": "panic", "detail": vharness::world::panic_msg(&p)}).to_string()],
				};
				results.lock().unwrap()[i] = Some(lines);
			}
		}).unwrap());
	}
	for h in hs { let _ = h.join(); }
	let _ = std::fs::remove_dir_all(&root);
	let mut f = std::io::BufWriter::new(std::fs::File::create(&outp).expect("create"));
	let mut n = 0;
	for r in results.lock().unwrap().iter_mut() {
		if let Some(l) = r.take() {
			for x in l { writeln!(f, "{}", x).unwrap(); n += 1; }
		}
	}
	eprintln!("conc: {} scenarios, {} lines", scs.len(), n);
}
