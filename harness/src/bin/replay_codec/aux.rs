//! addresses and stored records: own encode/decode round trips
#![allow(deprecated)]
use crate::guarded;
use crate::mat::{self, tag32_val, tag_val, val_tag, val_tag32, Hasher, Pool, Rng};
use crate::slate::fee_fields;
use chrono::{TimeZone, Utc};
use ed25519_dalek::PublicKey as DalekPublicKey;
use grin_core::ser as grin_ser;
use grin_keychain::{ExtKeychain, Identifier, Keychain};
use grin_util::ToHex;
use grin_wallet_libwallet::{
	Context, InitTxArgs, InitTxSendArgs, OutputData, OutputStatus, SlatepackAddress, StoredProofInfo, TxLogEntry,
	TxLogEntryType,
};
use grin_wallet_util::OnionV3Address;
use serde_json::{json, Map, Value};
use std::convert::TryFrom;
use std::time::Duration;
use uuid::Uuid;

fn s(a: &Value, k: &str) -> String {
	a[k].as_str().unwrap_or("").to_string()
}

fn finish(mut enc: Map<String, Value>, e: &str, r: Result<(Value, String, Value), (String, String)>) -> Map<String, Value> {
	let mut m = Map::new();
	match r {
		Ok((dec, h, wire)) => {
			m.insert("res".into(), json!("ok"));
			m.insert("dec".into(), dec);
			m.insert("h".into(), json!(h));
			m.insert("wire".into(), wire);
		}
		Err((class, detail)) => {
			m.insert("res".into(), json!(class));
			m.insert("detail".into(), json!(detail));
		}
	}
	enc.insert(e.to_string(), Value::Object(m));
	enc
}

// ------------------------------------------------------------------ addresses
fn dalek_key_of_class(rng: &mut Rng, class: &str) -> DalekPublicKey {
	match class {
		// the neutral element (y = 1): the smallest valid compressed point
		"low" => {
			let mut b = [0u8; 32];
			b[0] = 1;
			DalekPublicKey::from_bytes(&b).expect("neutral point")
		}
		// sign bit of x set (top bit of the last byte)
		"high" => loop {
			let k = mat::dalek_pub(&mat::dalek_secret(rng));
			if k.as_bytes()[31] & 0x80 != 0 {
				return k;
			}
		},
		_ => mat::dalek_pub(&mat::dalek_secret(rng)),
	}
}

fn addr_alpha(orig: &SlatepackAddress, class: &str, d: &SlatepackAddress) -> (Value, String) {
	let key = if d.pub_key.as_bytes() == orig.pub_key.as_bytes() { class.to_string() } else { "other".to_string() };
	let mut h = Hasher::new();
	h.put("hrp", d.hrp.as_bytes());
	h.put("key", d.pub_key.as_bytes());
	(json!({"hrp": d.hrp, "key": key}), h.hex())
}

pub fn run_addr(rng: &mut Rng, a: &Value) -> Value {
	let class = s(a, "key");
	let addr = SlatepackAddress { hrp: s(a, "hrp"), pub_key: dalek_key_of_class(rng, &class) };
	let (orig, h0) = addr_alpha(&addr, &class, &addr);
	let mut enc = Map::new();
	for e in ["str", "json", "bin"].iter() {
		let r = guarded(|| {
			let (d, len): (SlatepackAddress, usize) = match *e {
				"str" => {
					let t = String::try_from(&addr).map_err(|e| format!("{}", e))?;
					let shown = format!("{}", addr);
					if shown != t {
						return Err("display differs from try_from".into());
					}
					(SlatepackAddress::try_from(t.as_str()).map_err(|e| format!("{}", e))?, t.len())
				}
				"json" => {
					let t = serde_json::to_string(&addr).map_err(|e| format!("{}", e))?;
					(serde_json::from_str(&t).map_err(|e| format!("{}", e))?, t.len())
				}
				_ => {
					let b = grin_ser::ser_vec(&addr, grin_ser::ProtocolVersion(1)).map_err(|e| format!("{}", e))?;
					let d = grin_ser::deserialize(&mut &b[..], grin_ser::ProtocolVersion(1), grin_ser::DeserializationMode::default())
						.map_err(|e| format!("{}", e))?;
					(d, b.len())
				}
			};
			let (dec, h) = addr_alpha(&addr, &class, &d);
			Ok((dec, h, json!({ "len": len })))
		});
		enc = finish(enc, e, r);
	}
	json!({"orig": orig, "h0": h0, "enc": Value::Object(enc)})
}

pub fn run_onion(rng: &mut Rng, a: &Value) -> Value {
	let class = s(a, "key");
	let bytes: [u8; 32] = match class.as_str() {
		"zero" => [0u8; 32],
		"ones" => [0xffu8; 32],
		// lead<i>: a key whose text form starts with the i-th base32 character (top five bits = i)
		c if c.starts_with("lead") => {
			let i: u8 = c[4..].parse().unwrap_or(0) & 31;
			let mut b = *mat::dalek_pub(&mat::dalek_secret(rng)).as_bytes();
			b[0] = (i << 3) | (b[0] & 7);
			b
		}
		_ => *mat::dalek_pub(&mat::dalek_secret(rng)).as_bytes(),
	};
	let addr = OnionV3Address::from_bytes(bytes);
	let alpha = |d: &OnionV3Address| {
		let key = if d.as_bytes() == addr.as_bytes() { class.clone() } else { "other".to_string() };
		let mut h = Hasher::new();
		h.put("key", d.as_bytes());
		(json!({ "key": key }), h.hex())
	};
	let (orig, h0) = alpha(&addr);
	let mut enc = Map::new();
	for e in ["ov3", "http", "upper", "hex", "json"].iter() {
		let r = guarded(|| {
			let (d, len): (OnionV3Address, usize) = match *e {
				"json" => {
					let t = serde_json::to_string(&addr).map_err(|e| format!("{}", e))?;
					(serde_json::from_str(&t).map_err(|e| format!("{}", e))?, 0)
				}
				_ => {
					let t = match *e {
						"ov3" => addr.to_ov3_str(),
						"http" => addr.to_http_str(),
						"upper" => addr.to_ov3_str().to_uppercase(),
						_ => addr.as_bytes().to_vec().to_hex(),
					};
					(OnionV3Address::try_from(t.as_str()).map_err(|e| format!("{}", e))?, t.len())
				}
			};
			let (dec, h) = alpha(&d);
			Ok((dec, h, json!({ "len": len })))
		});
		enc = finish(enc, e, r);
	}
	json!({"orig": orig, "h0": h0, "enc": Value::Object(enc)})
}

// -------------------------------------------------------------------- records
fn opt_tag(t: &str) -> Option<u64> {
	if t == "none" {
		None
	} else {
		Some(tag_val(t))
	}
}
fn opt_tag_name(v: &Option<u64>) -> String {
	match v {
		None => "none".into(),
		Some(x) => val_tag(*x),
	}
}
fn opt_tag32(t: &str) -> Option<u32> {
	if t == "none" {
		None
	} else {
		Some(tag32_val(t))
	}
}
fn opt_tag32_name(v: &Option<u32>) -> String {
	match v {
		None => "none".into(),
		Some(x) => val_tag32(*x),
	}
}
fn some_none<T>(v: &Option<T>) -> &'static str {
	if v.is_some() {
		"some"
	} else {
		"none"
	}
}
fn key_id(rng: &mut Rng) -> Identifier {
	ExtKeychain::derive_key_id(3, (rng.next() >> 40) as u32, 0, (rng.next() >> 40) as u32, 0)
}

/// the store writes records with grin_core::ser (impl Writeable/Readable = length-prefixed serde_json)
fn store_round_trip<T: grin_ser::Writeable + grin_ser::Readable>(r: &T) -> Result<(T, Value), String> {
	let b = grin_ser::ser_vec(r, grin_ser::ProtocolVersion(1)).map_err(|e| format!("{}", e))?;
	// u64 length prefix, then the JSON document
	let doc: Value = if b.len() > 8 { serde_json::from_slice(&b[8..]).unwrap_or(Value::Null) } else { Value::Null };
	let keys: Vec<String> = doc.as_object().map(|o| o.keys().cloned().collect()).unwrap_or_default();
	let d: T = grin_ser::deserialize(&mut &b[..], grin_ser::ProtocolVersion(1), grin_ser::DeserializationMode::default())
		.map_err(|e| format!("{}", e))?;
	Ok((d, json!({"keys": keys, "len": b.len()})))
}

fn output_status(t: &str) -> OutputStatus {
	match t {
		"Unconfirmed" => OutputStatus::Unconfirmed,
		"Unspent" => OutputStatus::Unspent,
		"Locked" => OutputStatus::Locked,
		"Spent" => OutputStatus::Spent,
		_ => OutputStatus::Reverted,
	}
}

fn output_alpha(o: &OutputData) -> (Value, String) {
	let mut h = Hasher::new();
	h.put("root", &o.root_key_id.to_bytes());
	h.put("key", &o.key_id.to_bytes());
	h.put("commit", o.commit.clone().unwrap_or_default().as_bytes());
	(
		json!({
			"commit": some_none(&o.commit), "mmr": opt_tag_name(&o.mmr_index), "value": val_tag(o.value),
			"status": format!("{}", o.status), "height": val_tag(o.height), "lockh": val_tag(o.lock_height),
			"cb": o.is_coinbase, "txlog": opt_tag32_name(&o.tx_log_entry), "nchild": val_tag32(o.n_child),
		}),
		h.hex(),
	)
}

fn txtype(t: &str) -> TxLogEntryType {
	match t {
		"ConfirmedCoinbase" => TxLogEntryType::ConfirmedCoinbase,
		"TxReceived" => TxLogEntryType::TxReceived,
		"TxSent" => TxLogEntryType::TxSent,
		"TxReceivedCancelled" => TxLogEntryType::TxReceivedCancelled,
		"TxSentCancelled" => TxLogEntryType::TxSentCancelled,
		_ => TxLogEntryType::TxReverted,
	}
}
fn txtype_name(t: &TxLogEntryType) -> &'static str {
	match t {
		TxLogEntryType::ConfirmedCoinbase => "ConfirmedCoinbase",
		TxLogEntryType::TxReceived => "TxReceived",
		TxLogEntryType::TxSent => "TxSent",
		TxLogEntryType::TxReceivedCancelled => "TxReceivedCancelled",
		TxLogEntryType::TxSentCancelled => "TxSentCancelled",
		TxLogEntryType::TxReverted => "TxReverted",
	}
}

fn txlog_alpha(t: &TxLogEntry) -> (Value, String) {
	let mut h = Hasher::new();
	h.put("parent", &t.parent_key_id.to_bytes());
	h.put("id", &t.id.to_le_bytes());
	h.put("slate", t.tx_slate_id.map(|u| u.as_bytes().to_vec()).unwrap_or_default().as_slice());
	h.put("cts", &t.creation_ts.timestamp_nanos().to_le_bytes());
	h.put("fts", &t.confirmation_ts.map(|x| x.timestamp_nanos()).unwrap_or(0).to_le_bytes());
	h.put("nout", &(t.num_outputs as u64).to_le_bytes());
	h.put("stored", t.stored_tx.clone().unwrap_or_default().as_bytes());
	h.put("excess", t.kernel_excess.map(|c| c.0.to_vec()).unwrap_or_default().as_slice());
	// option_duration_as_secs stores whole seconds (NormRec of the spec); the sub-second part is reported as a class
	h.put("reverted", &t.reverted_after.map(|d| d.as_secs()).unwrap_or(0).to_le_bytes());
	let proof = match &t.payment_proof {
		None => "none",
		Some(p) => {
			h.put("raddr", p.receiver_address.as_bytes());
			h.put("saddr", p.sender_address.as_bytes());
			h.put("path", &p.sender_address_path.to_le_bytes());
			h.put("rsig", p.receiver_signature.map(|s| s.to_bytes().to_vec()).unwrap_or_default().as_slice());
			h.put("ssig", p.sender_signature.map(|s| s.to_bytes().to_vec()).unwrap_or_default().as_slice());
			match (p.receiver_signature.is_some(), p.sender_signature.is_some()) {
				(false, false) => "bare",
				(true, false) => "rsig",
				(false, true) => "ssig",
				(true, true) => "both",
			}
		}
	};
	let reverted = match &t.reverted_after {
		None => "none",
		Some(d) if d.subsec_nanos() != 0 => "frac",
		Some(d) if d.as_secs() == 0 => "0",
		Some(_) => "whole",
	};
	(
		json!({
			"slate": some_none(&t.tx_slate_id), "ty": txtype_name(&t.tx_type), "confts": some_none(&t.confirmation_ts),
			"confirmed": t.confirmed, "nin": val_tag(t.num_inputs as u64), "credited": val_tag(t.amount_credited),
			"debited": val_tag(t.amount_debited),
			"fee": match &t.fee { None => "none".to_string(), Some(f) => val_tag(u64::from(*f)) },
			"ttl": opt_tag_name(&t.ttl_cutoff_height), "stored": some_none(&t.stored_tx), "excess": some_none(&t.kernel_excess),
			"minh": opt_tag_name(&t.kernel_lookup_min_height), "proof": proof, "reverted": reverted,
		}),
		h.hex(),
	)
}

fn ctx_alpha(c: &Context) -> (Value, String) {
	let mut h = Hasher::new();
	h.put("parent", &c.parent_key_id.to_bytes());
	h.put("sk", &c.sec_key.0);
	h.put("sn", &c.sec_nonce.0);
	h.put("isk", &c.initial_sec_key.0);
	h.put("isn", &c.initial_sec_nonce.0);
	let mut mmrs = vec![];
	for (label, ids) in [("o", &c.output_ids), ("i", &c.input_ids)].iter() {
		for (id, mmr, amt) in ids.iter() {
			h.put(label, &id.to_bytes());
			h.put("amt", &amt.to_le_bytes());
			mmrs.push(opt_tag_name(mmr));
		}
	}
	mmrs.dedup();
	let mmr = match mmrs.len() {
		0 => "none".to_string(),
		1 => mmrs[0].clone(),
		_ => "mixed".to_string(),
	};
	h.put("excess", c.calculated_excess.map(|c| c.0.to_vec()).unwrap_or_default().as_slice());
	let late = match &c.late_lock_args {
		None => "none".to_string(),
		Some(a) => {
			h.put("late", serde_json::to_string(a).unwrap_or_default().as_bytes());
			let opts = [
				a.src_acct_name.is_some(),
				a.amount_includes_fee.is_some(),
				a.target_slate_version.is_some(),
				a.ttl_blocks.is_some(),
				a.payment_proof_recipient_address.is_some(),
				a.estimate_only.is_some(),
				a.late_lock.is_some(),
				a.send_args.is_some(),
			];
			if opts.iter().all(|x| *x) {
				"full".to_string()
			} else if opts.iter().all(|x| !*x) {
				"min".to_string()
			} else {
				"partial".to_string()
			}
		}
	};
	(
		json!({
			"nout": c.output_ids.len(), "nin": c.input_ids.len(), "mmr": mmr, "amount": val_tag(c.amount),
			"fee": match &c.fee { None => "none".to_string(), Some(f) => val_tag(u64::from(*f)) },
			"pidx": opt_tag32_name(&c.payment_proof_derivation_index), "late": late, "excess": some_none(&c.calculated_excess),
		}),
		h.hex(),
	)
}

pub fn run_record(pool: &Pool, rng: &mut Rng, kind: &str, a: &Value) -> Value {
	let mut enc = Map::new();
	let (orig, h0) = match kind {
		"output" => {
			let o = OutputData {
				root_key_id: ExtKeychain::root_key_id(),
				key_id: key_id(rng),
				n_child: tag32_val(&s(a, "nchild")),
				commit: if s(a, "commit") == "some" { Some(pool.commit(rng).0.to_vec().to_hex()) } else { None },
				mmr_index: opt_tag(&s(a, "mmr")),
				value: tag_val(&s(a, "value")),
				status: output_status(&s(a, "status")),
				height: tag_val(&s(a, "height")),
				lock_height: tag_val(&s(a, "lockh")),
				is_coinbase: a["cb"].as_bool().unwrap_or(false),
				tx_log_entry: opt_tag32(&s(a, "txlog")),
			};
			let r = guarded(|| {
				let (d, wire) = store_round_trip(&o)?;
				let (dec, h) = output_alpha(&d);
				Ok((dec, h, wire))
			});
			enc = finish(enc, "store", r);
			output_alpha(&o)
		}
		"txlog" => {
			let mut t = TxLogEntry::new(key_id(rng), txtype(&s(a, "ty")), (rng.next() >> 40) as u32);
			t.tx_slate_id = if s(a, "slate") == "some" { Some(Uuid::from_bytes(rng.bytes16())) } else { None };
			t.creation_ts = Utc.timestamp(1_600_000_000 + (rng.next() % 1000) as i64, 123_456_789);
			t.confirmation_ts = if s(a, "confts") == "some" { Some(Utc.timestamp(1_600_100_000, 987_654_321)) } else { None };
			t.confirmed = a["confirmed"].as_bool().unwrap_or(false);
			let n = tag_val(&s(a, "nin")) as usize;
			t.num_inputs = n;
			t.num_outputs = n;
			t.amount_credited = tag_val(&s(a, "credited"));
			t.amount_debited = tag_val(&s(a, "debited"));
			t.fee = opt_tag(&s(a, "fee")).map(fee_fields);
			t.ttl_cutoff_height = opt_tag(&s(a, "ttl"));
			t.stored_tx = if s(a, "stored") == "some" { Some(format!("{}.grintx", rng.next())) } else { None };
			t.kernel_excess = if s(a, "excess") == "some" { Some(pool.commit(rng)) } else { None };
			t.kernel_lookup_min_height = opt_tag(&s(a, "minh"));
			t.payment_proof = match s(a, "proof").as_str() {
				"none" => None,
				p => Some(StoredProofInfo {
					receiver_address: mat::dalek_pub(&mat::dalek_secret(rng)),
					receiver_signature: if p == "rsig" || p == "both" { Some(mat::dalek_sig(rng)) } else { None },
					sender_address_path: (rng.next() >> 33) as u32,
					sender_address: mat::dalek_pub(&mat::dalek_secret(rng)),
					sender_signature: if p == "ssig" || p == "both" { Some(mat::dalek_sig(rng)) } else { None },
				}),
			};
			t.reverted_after = match s(a, "reverted").as_str() {
				"none" => None,
				"0" => Some(Duration::from_secs(0)),
				"whole" => Some(Duration::from_secs(1 + rng.next() % 100_000)),
				_ => Some(Duration::new(1 + rng.next() % 100_000, 500_000_000)),
			};
			let r = guarded(|| {
				let (d, wire) = store_round_trip(&t)?;
				let (dec, h) = txlog_alpha(&d);
				Ok((dec, h, wire))
			});
			enc = finish(enc, "store", r);
			txlog_alpha(&t)
		}
		_ => {
			let mmr = opt_tag(&s(a, "mmr"));
			let ids = |rng: &mut Rng, n: u64| -> Vec<(Identifier, Option<u64>, u64)> {
				(0..n).map(|i| (key_id(rng), mmr, if i == 0 { u64::MAX } else { rng.next() })).collect()
			};
			let sk = mat::secret(&pool.secp, rng);
			let sn = mat::secret(&pool.secp, rng);
			let late = match s(a, "late").as_str() {
				"none" => None,
				"min" => Some(InitTxArgs {
					src_acct_name: None,
					amount: rng.next(),
					amount_includes_fee: None,
					minimum_confirmations: 10,
					max_outputs: 500,
					num_change_outputs: 1,
					selection_strategy_is_use_all: false,
					target_slate_version: None,
					ttl_blocks: None,
					payment_proof_recipient_address: None,
					estimate_only: None,
					late_lock: None,
					send_args: None,
				}),
				_ => Some(InitTxArgs {
					src_acct_name: Some("account \"two\"".into()),
					amount: u64::MAX,
					amount_includes_fee: Some(true),
					minimum_confirmations: u64::MAX,
					max_outputs: u32::MAX,
					num_change_outputs: u32::MAX,
					selection_strategy_is_use_all: true,
					target_slate_version: Some(4),
					ttl_blocks: Some(u64::MAX),
					payment_proof_recipient_address: Some(SlatepackAddress::new(&mat::dalek_pub(&mat::dalek_secret(rng)))),
					estimate_only: Some(false),
					late_lock: Some(true),
					send_args: Some(InitTxSendArgs { dest: "http://dest".into(), post_tx: true, fluff: false, skip_tor: true }),
				}),
			};
			// built from Context::new and field assignments (not a struct literal) so that a field
			// added to the stored context upstream does not break the harness build
			let mut c = Context::new(&pool.secp, &ExtKeychain::derive_key_id(2, 1, 0, 0, 0), false, true);
			c.sec_key = sk.clone();
			c.sec_nonce = sn.clone();
			c.initial_sec_key = mat::secret(&pool.secp, rng);
			c.initial_sec_nonce = mat::secret(&pool.secp, rng);
			c.output_ids = ids(rng, a["nout"].as_u64().unwrap_or(0));
			c.input_ids = ids(rng, a["nin"].as_u64().unwrap_or(0));
			c.amount = tag_val(&s(a, "amount"));
			c.fee = opt_tag(&s(a, "fee")).map(fee_fields);
			c.payment_proof_derivation_index = opt_tag32(&s(a, "pidx"));
			c.late_lock_args = late;
			c.calculated_excess = if s(a, "excess") == "some" { Some(pool.commit(rng)) } else { None };
			let r = guarded(|| {
				let (d, wire) = store_round_trip(&c)?;
				let (dec, h) = ctx_alpha(&d);
				Ok((dec, h, wire))
			});
			enc = finish(enc, "store", r);
			ctx_alpha(&c)
		}
	};
	json!({"orig": orig, "h0": h0, "enc": Value::Object(enc)})
}
