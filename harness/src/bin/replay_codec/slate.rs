//! slate cases: abstract SlateV4 -> concrete SlateV4 -> Slate -> every encoding -> Slate -> projection
use crate::mat::{self, tag_val, val_tag, Hasher, Pool, Rng};
use crate::guarded;
use ed25519_dalek::SecretKey as DalekSecretKey;
use grin_core::core::transaction::{FeeFields, Inputs, KernelFeatures, OutputFeatures};
use grin_keychain::BlindingFactor;
use grin_wallet_libwallet::slate_versions::v4::{
	CommitsV4, KernelFeaturesArgsV4, OutputFeaturesV4, ParticipantDataV4, PaymentInfoV4, SlateStateV4, SlateV4,
	VersionCompatInfoV4,
};
use grin_wallet_libwallet::{
	Slate, SlateState, SlateVersion, Slatepack, SlatepackAddress, SlatepackBin, Slatepacker, SlatepackerArgs,
	VersionedBinSlate, VersionedSlate,
};
use grin_wallet_util::byte_ser;
use serde_json::{json, Map, Value};
use std::convert::TryFrom;
use uuid::Uuid;

pub fn fee_fields(v: u64) -> FeeFields {
	// the JSON deserializer of FeeFields accepts any u64 (this is how a wallet comes to hold one)
	serde_json::from_value(json!(v.to_string())).expect("fee fields")
}

fn state_of(s: &str) -> SlateStateV4 {
	match s {
		"S1" => SlateStateV4::Standard1,
		"S2" => SlateStateV4::Standard2,
		"S3" => SlateStateV4::Standard3,
		"I1" => SlateStateV4::Invoice1,
		"I2" => SlateStateV4::Invoice2,
		"I3" => SlateStateV4::Invoice3,
		_ => SlateStateV4::Unknown,
	}
}
fn state_name(s: &SlateState) -> &'static str {
	match s {
		SlateState::Unknown => "NA",
		SlateState::Standard1 => "S1",
		SlateState::Standard2 => "S2",
		SlateState::Standard3 => "S3",
		SlateState::Invoice1 => "I1",
		SlateState::Invoice2 => "I2",
		SlateState::Invoice3 => "I3",
	}
}

pub fn build_v4(pool: &Pool, rng: &mut Rng, a: &Value) -> SlateV4 {
	let s = |k: &str| a[k].as_str().unwrap_or("").to_string();
	let ver = match s("ver").as_str() {
		"odd" => VersionCompatInfoV4 { version: 65535, block_header_version: 1 },
		_ => VersionCompatInfoV4 { version: 4, block_header_version: 3 },
	};
	let off = if s("off") == "nz" {
		BlindingFactor::from_secret_key(mat::secret(&pool.secp, rng))
	} else {
		BlindingFactor::zero()
	};
	let sigs = a["sigs"]
		.as_array()
		.cloned()
		.unwrap_or_default()
		.iter()
		.map(|x| ParticipantDataV4 {
			xs: pool.pubkey(rng),
			nonce: pool.pubkey(rng),
			part: if x["part"].as_bool().unwrap_or(false) { Some(pool.sig(rng)) } else { None },
		})
		.collect();
	let coms = if a["coms"]["some"].as_bool().unwrap_or(false) {
		Some(
			a["coms"]["items"]
				.as_array()
				.cloned()
				.unwrap_or_default()
				.iter()
				.map(|x| {
					let f = OutputFeaturesV4(if x["cb"].as_bool().unwrap_or(false) { 1 } else { 0 });
					if x["k"].as_str() == Some("out") {
						let (c, p) = pool.outs[rng.below(pool.outs.len())].clone();
						CommitsV4 { f, c, p: Some(p) }
					} else {
						CommitsV4 { f, c: pool.commit(rng), p: None }
					}
				})
				.collect(),
		)
	} else {
		None
	};
	let proof = match s("proof").as_str() {
		"none" => None,
		p => Some(PaymentInfoV4 {
			saddr: mat::dalek_pub(&mat::dalek_secret(rng)),
			raddr: mat::dalek_pub(&mat::dalek_secret(rng)),
			rsig: if p == "sig" { Some(mat::dalek_sig(rng)) } else { None },
		}),
	};
	SlateV4 {
		ver,
		id: Uuid::from_bytes(rng.bytes16()),
		sta: state_of(&s("sta")),
		off,
		num_parts: a["np"].as_u64().unwrap_or(2) as u8,
		amt: tag_val(&s("amt")),
		fee: fee_fields(tag_val(&s("fee"))),
		feat: a["feat"].as_u64().unwrap_or(0) as u8,
		ttl: tag_val(&s("ttl")),
		sigs,
		coms,
		proof,
		feat_args: match s("fargs").as_str() {
			"none" => None,
			t => Some(KernelFeaturesArgsV4 { lock_hgt: tag_val(t) }),
		},
	}
}

/// alpha: the abstract slate of spec/CodecRoundTrip.tla, read from the fields of the real `Slate`
pub fn alpha(s: &Slate) -> Value {
	let ver = match (s.version_info.version, s.version_info.block_header_version) {
		(4, 3) => "std".to_string(),
		(65535, 1) => "odd".to_string(),
		(a, b) => format!("v{}:{}", a, b),
	};
	let (coms, txk) = match &s.tx {
		None => (json!({"some": false, "items": []}), "none".to_string()),
		Some(tx) => {
			let mut items = vec![];
			match tx.inputs() {
				Inputs::FeaturesAndCommit(v) => {
					for i in v.iter() {
						items.push(json!({"k": "in", "cb": i.features == OutputFeatures::Coinbase}));
					}
				}
				Inputs::CommitOnly(v) => {
					for _ in v.iter() {
						items.push(json!({"k": "commit-only", "cb": false}));
					}
				}
			}
			for o in tx.outputs().iter() {
				items.push(json!({"k": "out", "cb": o.features() == OutputFeatures::Coinbase}));
			}
			let ks = tx.kernels();
			let txk = if ks.len() != 1 {
				format!("kernels{}", ks.len())
			} else {
				match ks[0].features {
					KernelFeatures::Plain { .. } => "Plain".to_string(),
					KernelFeatures::Coinbase => "CB".to_string(),
					KernelFeatures::HeightLocked { lock_height, .. } => format!("HL:{}", val_tag(lock_height)),
					KernelFeatures::NoRecentDuplicate { relative_height, .. } => {
						format!("NRD:{}", val_tag(u64::from(relative_height)))
					}
				}
			};
			(json!({"some": true, "items": items}), txk)
		}
	};
	json!({
		"ver": ver,
		"sta": state_name(&s.state),
		"off": if s.offset == BlindingFactor::zero() { "zero" } else { "nz" },
		"np": s.num_participants,
		"amt": val_tag(s.amount),
		"fee": val_tag(u64::from(s.fee_fields)),
		"feat": s.kernel_features,
		"fargs": match &s.kernel_features_args { None => "none".to_string(), Some(a) => val_tag(a.lock_height) },
		"ttl": val_tag(s.ttl_cutoff_height),
		"sigs": s.participant_data.iter().map(|p| json!({"part": p.part_sig.is_some()})).collect::<Vec<_>>(),
		"coms": coms,
		"proof": match &s.payment_proof { None => "none", Some(p) => if p.receiver_signature.is_some() { "sig" } else { "nosig" } },
		"txk": txk,
	})
}

/// Abs_Material: everything alpha does not show (ids, keys, commitments, proofs, signatures, offset)
pub fn material(pool: &Pool, s: &Slate) -> String {
	let mut h = Hasher::new();
	h.put("id", s.id.as_bytes());
	h.put("off", s.offset.as_ref());
	for p in s.participant_data.iter() {
		h.put("xs", &p.public_blind_excess.serialize_vec(&pool.secp, true)[..]);
		h.put("nonce", &p.public_nonce.serialize_vec(&pool.secp, true)[..]);
		match &p.part_sig {
			Some(sig) => h.put("part", &sig.to_raw_data()[..]),
			None => h.put("nopart", &[]),
		}
	}
	if let Some(tx) = &s.tx {
		h.put("txoff", tx.offset.as_ref());
		if let Inputs::FeaturesAndCommit(v) = tx.inputs() {
			for i in v.iter() {
				h.put("in", i.commit.as_ref());
			}
		}
		for o in tx.outputs().iter() {
			h.put("out", o.commitment().as_ref());
			h.put("proof", o.proof().bytes());
		}
	}
	if let Some(p) = &s.payment_proof {
		h.put("saddr", p.sender_address.as_bytes());
		h.put("raddr", p.receiver_address.as_bytes());
		match &p.receiver_signature {
			Some(sig) => h.put("rsig", &sig.to_bytes()[..]),
			None => h.put("norsig", &[]),
		}
	}
	h.hex()
}

fn keys_of(v: &Value) -> Vec<String> {
	v.as_object().map(|o| o.keys().cloned().collect()).unwrap_or_default()
}

/// what the V4 JSON text contains: key sets at every level
fn json_shape(text: &[u8]) -> Value {
	let v: Value = serde_json::from_slice(text).unwrap_or(Value::Null);
	json!({
		"keys": keys_of(&v),
		"sigkeys": v["sigs"].as_array().cloned().unwrap_or_default().iter().map(keys_of).collect::<Vec<_>>(),
		"comkeys": v["coms"].as_array().cloned().unwrap_or_default().iter().map(keys_of).collect::<Vec<_>>(),
		"proofkeys": keys_of(&v["proof"]),
		"len": text.len(),
	})
}

struct Env {
	sender: Option<SlatepackAddress>,
	recipients: Vec<SlatepackAddress>,
	dec_key: DalekSecretKey,
}

fn encode(e: &str, slate: &Slate, env: &Env) -> Result<(Vec<u8>, Value), String> {
	let layer = e.split('.').next().unwrap_or("");
	let encrypted = e.ends_with(".enc");
	match layer {
		"json" => {
			// what the owner/foreign API hands out: serde on the Slate itself (goes through SlateV4::from(&Slate))
			let t = serde_json::to_vec(slate).map_err(|e| format!("{}", e))?;
			let shape = json_shape(&t);
			Ok((t, shape))
		}
		"bin" => {
			let v = VersionedSlate::into_version(slate.clone(), SlateVersion::V4).map_err(|e| format!("{}", e))?;
			let b = VersionedBinSlate::try_from(v).map_err(|e| format!("{}", e))?;
			let bytes = byte_ser::to_bytes(&b).map_err(|e| format!("{}", e))?;
			let n = bytes.len();
			Ok((bytes, json!({ "len": n })))
		}
		_ => {
			let packer = Slatepacker::new(SlatepackerArgs {
				sender: env.sender.clone(),
				recipients: if encrypted { env.recipients.clone() } else { vec![] },
				dec_key: None,
			});
			let sp: Slatepack = packer.create_slatepack(slate).map_err(|e| format!("{}", e))?;
			let mut info = Map::new();
			info.insert("mode".into(), json!(sp.mode));
			info.insert("paylen".into(), json!(sp.payload.len()));
			info.insert("clearsender".into(), json!(sp.sender.is_some()));
			let bytes = match layer {
				"pkbin" => byte_ser::to_bytes(&SlatepackBin(sp.clone())).map_err(|e| format!("{}", e))?,
				"pkjson" => {
					let t = serde_json::to_vec(&sp).map_err(|e| format!("{}", e))?;
					let v: Value = serde_json::from_slice(&t).unwrap_or(Value::Null);
					info.insert("keys".into(), json!(keys_of(&v)));
					t
				}
				"pkarmor" => packer.armor_slatepack(&sp).map_err(|e| format!("{}", e))?.into_bytes(),
				_ => return Err(format!("unknown encoding {}", e)),
			};
			info.insert("len".into(), json!(bytes.len()));
			Ok((bytes, Value::Object(info)))
		}
	}
}

fn decode(e: &str, wire: &[u8], env: &Env) -> Result<(Slate, String), String> {
	let layer = e.split('.').next().unwrap_or("");
	match layer {
		"json" => {
			let t = std::str::from_utf8(wire).map_err(|e| format!("{}", e))?;
			let s = Slate::deserialize_upgrade(t).map_err(|e| format!("{}", e))?;
			Ok((s, "none".into()))
		}
		"bin" => {
			let b = byte_ser::from_bytes::<VersionedBinSlate>(wire).map_err(|e| format!("{}", e))?;
			let s = Slate::upgrade(b.into()).map_err(|e| format!("{}", e))?;
			Ok((s, "none".into()))
		}
		_ => {
			// the receiving side: it only has its own key
			let packer = Slatepacker::new(SlatepackerArgs {
				sender: None,
				recipients: vec![],
				dec_key: Some(&env.dec_key),
			});
			let sp = packer.deser_slatepack(wire, true).map_err(|e| format!("{}", e))?;
			let sender = match (&sp.sender, &env.sender) {
				(None, _) => "none",
				(Some(a), Some(b)) if a == b => "same",
				_ => "diff",
			};
			let s = packer.get_slate(&sp).map_err(|e| format!("{}", e))?;
			Ok((s, format!("{}/mode{}", sender, sp.mode)))
		}
	}
}

pub const ENCODINGS: [&str; 8] = [
	"json", "bin", "pkbin.plain", "pkbin.enc", "pkjson.plain", "pkjson.enc", "pkarmor.plain", "pkarmor.enc",
];

pub fn run(pool: &Pool, rng: &mut Rng, a: &Value) -> Value {
	let v4 = build_v4(pool, rng, a);
	// the slate a wallet holds
	let slate: Slate = Slate::from(v4);
	let (nrec, key) = match a["rk"].as_str().unwrap_or("1of1") {
		"1of2" => (2, 1),
		"2of2" => (2, 2),
		_ => (1, 1),
	};
	let secrets: Vec<DalekSecretKey> = (0..nrec).map(|_| mat::dalek_secret(rng)).collect();
	let env = Env {
		sender: if a["snd"].as_bool().unwrap_or(false) {
			Some(SlatepackAddress::new(&mat::dalek_pub(&mat::dalek_secret(rng))))
		} else {
			None
		},
		recipients: secrets.iter().map(|s| SlatepackAddress::new(&mat::dalek_pub(s))).collect(),
		dec_key: DalekSecretKey::from_bytes(secrets[key - 1].as_bytes()).unwrap(),
	};
	let mut enc = Map::new();
	for e in ENCODINGS.iter() {
		let mut r = Map::new();
		match guarded(|| encode(e, &slate, &env)) {
			Err((class, detail)) => {
				r.insert("res".into(), json!(format!("enc-{}", class)));
				r.insert("detail".into(), json!(detail));
			}
			Ok((wire, info)) => {
				r.insert("wire".into(), info);
				match guarded(|| decode(e, &wire, &env)) {
					Err((class, detail)) => {
						r.insert("res".into(), json!(format!("dec-{}", class)));
						r.insert("detail".into(), json!(detail));
					}
					Ok((s, sender)) => {
						r.insert("res".into(), json!("ok"));
						r.insert("dec".into(), alpha(&s));
						r.insert("h".into(), json!(material(pool, &s)));
						let mut it = sender.split('/');
						r.insert("sender".into(), json!(it.next().unwrap_or("none")));
						r.insert("mode".into(), json!(it.next().unwrap_or("")));
					}
				}
			}
		}
		enc.insert(e.to_string(), Value::Object(r));
	}
	json!({
		"orig": alpha(&slate),
		"h0": material(pool, &slate),
		"hrplen": env.recipients[0].hrp.len(),
		"enc": Value::Object(enc),
	})
}
