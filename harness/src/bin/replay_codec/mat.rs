//! concrete material for the abstract cases: deterministic random keys,
//! commitments with real bulletproofs, signatures; the u64 tag map
use ed25519_dalek::{Keypair as DalekKeypair, PublicKey as DalekPublicKey, SecretKey as DalekSecretKey, Signature as DalekSignature, Signer};
use grin_core::global::{self, ChainTypes};
use grin_util::secp::key::{PublicKey, SecretKey};
use grin_util::secp::pedersen::{Commitment, RangeProof};
use grin_util::secp::{ContextFlag, Message, Secp256k1, Signature};
use sha2::{Digest, Sha256};

/// the codec cases run on Mainnet parameters: slatepack size limits are those of
/// the real network (max_tx_weight * 32), addresses default to the "grin" prefix
pub fn set_thread_globals() {
	global::set_local_chain_type(ChainTypes::Mainnet);
}

/// splitmix64: deterministic from VERIF_SEED and the case index
pub struct Rng(u64);
impl Rng {
	pub fn new(seed: u64) -> Rng {
		Rng(seed)
	}
	pub fn next(&mut self) -> u64 {
		self.0 = self.0.wrapping_add(0x9E37_79B9_7F4A_7C15);
		let mut z = self.0;
		z = (z ^ (z >> 30)).wrapping_mul(0xBF58_476D_1CE4_E5B9);
		z = (z ^ (z >> 27)).wrapping_mul(0x94D0_49BB_1331_11EB);
		z ^ (z >> 31)
	}
	pub fn bytes32(&mut self) -> [u8; 32] {
		let mut b = [0u8; 32];
		for i in 0..4 {
			b[i * 8..i * 8 + 8].copy_from_slice(&self.next().to_le_bytes());
		}
		b
	}
	pub fn bytes16(&mut self) -> [u8; 16] {
		let mut b = [0u8; 16];
		for i in 0..2 {
			b[i * 8..i * 8 + 8].copy_from_slice(&self.next().to_le_bytes());
		}
		b
	}
	pub fn below(&mut self, n: usize) -> usize {
		(self.next() % (n as u64)) as usize
	}
}

/// Abs_Tags of spec/CodecRoundTrip.tla
pub fn tag_val(t: &str) -> u64 {
	match t {
		"0" => 0,
		"1" => 1,
		"P32" => 1u64 << 32,
		"P40" => 1u64 << 40,
		"MAX" => u64::MAX,
		_ => panic!("unknown tag {}", t),
	}
}
pub fn val_tag(v: u64) -> String {
	match v {
		0 => "0".into(),
		1 => "1".into(),
		x if x == 1u64 << 32 => "P32".into(),
		x if x == 1u64 << 40 => "P40".into(),
		u64::MAX => "MAX".into(),
		x => format!("v{}", x),
	}
}
pub fn tag32_val(t: &str) -> u32 {
	match t {
		"0" => 0,
		"1" => 1,
		"MAX32" => u32::MAX,
		_ => panic!("unknown tag32 {}", t),
	}
}
pub fn val_tag32(v: u32) -> String {
	match v {
		0 => "0".into(),
		1 => "1".into(),
		u32::MAX => "MAX32".into(),
		x => format!("v{}", x),
	}
}

pub struct Hasher(Sha256);
impl Hasher {
	pub fn new() -> Hasher {
		Hasher(Sha256::new())
	}
	pub fn put(&mut self, label: &str, b: &[u8]) {
		self.0.update(label.as_bytes());
		self.0.update(&(b.len() as u64).to_le_bytes());
		self.0.update(b);
	}
	pub fn hex(self) -> String {
		let d = self.0.finalize();
		d[..12].iter().map(|b| format!("{:02x}", b)).collect()
	}
}

pub fn secret(secp: &Secp256k1, rng: &mut Rng) -> SecretKey {
	loop {
		if let Ok(k) = SecretKey::from_slice(secp, &rng.bytes32()) {
			return k;
		}
	}
}

pub struct Pool {
	pub secp: Secp256k1,
	/// commitments with their bulletproofs
	pub outs: Vec<(Commitment, RangeProof)>,
}

impl Pool {
	pub fn new(seed: u64) -> Pool {
		let secp = Secp256k1::with_caps(ContextFlag::Commit);
		let mut rng = Rng::new(seed ^ 0xC08);
		let mut outs = vec![];
		for i in 0..6u64 {
			let blind = secret(&secp, &mut rng);
			let nonce = secret(&secp, &mut rng);
			let value = 1_000_000 + i;
			let c = secp.commit(value, blind.clone()).expect("commit");
			let p = secp.bullet_proof(value, blind, nonce.clone(), nonce, None, None);
			outs.push((c, p));
		}
		Pool { secp, outs }
	}
	pub fn pubkey(&self, rng: &mut Rng) -> PublicKey {
		PublicKey::from_secret_key(&self.secp, &secret(&self.secp, rng)).expect("pubkey")
	}
	pub fn sig(&self, rng: &mut Rng) -> Signature {
		let msg = Message::from_slice(&rng.bytes32()).expect("msg");
		self.secp.sign(&msg, &secret(&self.secp, rng)).expect("sign")
	}
	pub fn commit(&self, rng: &mut Rng) -> Commitment {
		self.secp.commit(rng.next() >> 8, secret(&self.secp, rng)).expect("commit")
	}
}

pub fn dalek_secret(rng: &mut Rng) -> DalekSecretKey {
	DalekSecretKey::from_bytes(&rng.bytes32()).expect("dalek secret")
}
pub fn dalek_pub(sk: &DalekSecretKey) -> DalekPublicKey {
	DalekPublicKey::from(sk)
}
pub fn dalek_sig(rng: &mut Rng) -> DalekSignature {
	let secret = dalek_secret(rng);
	let public = dalek_pub(&secret);
	let kp = DalekKeypair { secret, public };
	kp.sign(&rng.bytes32())
}
