//! replay_codec --in cases.json --out events.ndjson [--jobs N]
//!
//! C08: executes the cases TLC generated from spec/MCCodecRoundTrip.tla on the
//! REAL encoders/decoders of grin-wallet and records what came back.  It never
//! judges: every line is the case, the projection (alpha) of the original value,
//! and per encoding the result class, the projection of the decoded value, a hash
//! of the concrete material, and what the wire form looked like (JSON keys, byte
//! length).  spec/TraceCodecRoundTrip.tla decides.
//!
//! cases.json: {"seed": n, "cases": [{"kind": "slate"|"addr"|"onion"|"output"|"txlog"|"context", "a": {...}}, ...]}
mod aux;
mod mat;
mod slate;

use serde_json::{json, Value};
use std::io::Write;
use std::panic::{catch_unwind, AssertUnwindSafe};
use std::sync::atomic::{AtomicUsize, Ordering};
use std::sync::{Arc, Mutex};

pub fn panic_msg(p: &Box<dyn std::any::Any + Send>) -> String {
	if let Some(s) = p.downcast_ref::<&str>() {
		s.to_string()
	} else if let Some(s) = p.downcast_ref::<String>() {
		s.clone()
	} else {
		"panic".into()
	}
}

/// run one step of the code under test; a panic is data
pub fn guarded<T, F: FnOnce() -> Result<T, String>>(f: F) -> Result<T, (String, String)> {
	match catch_unwind(AssertUnwindSafe(f)) {
		Ok(Ok(v)) => Ok(v),
		Ok(Err(e)) => Err(("err".into(), e)),
		Err(p) => Err(("panic".into(), panic_msg(&p))),
	}
}

fn run_case(pool: &mat::Pool, seed: u64, i: usize, case: &Value) -> Value {
	let kind = case["kind"].as_str().unwrap_or("");
	let a = &case["a"];
	let mut rng = mat::Rng::new(seed ^ ((i as u64 + 1).wrapping_mul(0x9E37_79B9_7F4A_7C15)));
	let mut line = match kind {
		"slate" => slate::run(pool, &mut rng, a),
		"addr" => aux::run_addr(&mut rng, a),
		"onion" => aux::run_onion(&mut rng, a),
		"output" | "txlog" | "context" => aux::run_record(pool, &mut rng, kind, a),
		_ => json!({"res": "unknown-kind"}),
	};
	line["ev"] = json!(kind);
	line["b"] = json!(i);
	line["in"] = a.clone();
	line
}

fn main() {
	let args: Vec<String> = std::env::args().collect();
	let mut inp = String::new();
	let mut out = String::new();
	let mut jobs = 8usize;
	let mut i = 1;
	while i < args.len() {
		match args[i].as_str() {
			"--in" => {
				inp = args[i + 1].clone();
				i += 1;
			}
			"--out" => {
				out = args[i + 1].clone();
				i += 1;
			}
			"--jobs" => {
				jobs = args[i + 1].parse().unwrap();
				i += 1;
			}
			_ => {}
		}
		i += 1;
	}
	// panics of the code under test are data, not noise
	std::panic::set_hook(Box::new(|_| {}));
	let v: Value = serde_json::from_str(&std::fs::read_to_string(&inp).expect("read input")).expect("json");
	let seed = v["seed"].as_u64().unwrap_or(1);
	let cases: Arc<Vec<Value>> = Arc::new(v["cases"].as_array().cloned().unwrap_or_default());
	mat::set_thread_globals();
	let pool = Arc::new(mat::Pool::new(seed));
	let next = Arc::new(AtomicUsize::new(0));
	let results: Arc<Mutex<Vec<Option<String>>>> = Arc::new(Mutex::new(vec![None; cases.len()]));
	let mut hs = vec![];
	for _ in 0..jobs.max(1) {
		let (cases, pool, next, results) = (cases.clone(), pool.clone(), next.clone(), results.clone());
		hs.push(std::thread::spawn(move || {
			// chain type is thread local
			mat::set_thread_globals();
			loop {
				let i = next.fetch_add(1, Ordering::SeqCst);
				if i >= cases.len() {
					break;
				}
				let line = match catch_unwind(AssertUnwindSafe(|| run_case(&pool, seed, i, &cases[i]))) {
					Ok(l) => l,
					Err(p) => json!({"ev": cases[i]["kind"], "b": i, "in": cases[i]["a"], "harness_panic": panic_msg(&p)}),
				};
				results.lock().unwrap()[i] = Some(line.to_string());
			}
		}));
	}
	for h in hs {
		h.join().unwrap();
	}
	let mut f = std::io::BufWriter::new(std::fs::File::create(&out).expect("create out"));
	let res = results.lock().unwrap();
	for l in res.iter() {
		writeln!(f, "{}", l.as_ref().expect("line")).unwrap();
	}
	eprintln!("replayed {} codec cases", res.len());
}
