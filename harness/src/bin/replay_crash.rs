//! replay_crash --in cases.json --out events.ndjson [--jobs N]
//! cases.json: {"setup": {...}, "cases": [{"prefix": [event..], "op": event, "modes": ["crash","fail"]}]}
use serde_json::{json, Value};
use std::io::Write;
use std::sync::atomic::{AtomicUsize, Ordering};
use std::sync::{Arc, Mutex};
use vharness::crash::{enumerate, Mode};
use vharness::driver::{setup_world, step, tmp_root};

fn run_case(dir: &str, setup: &Value, case: &Value, bid: usize) -> Vec<String> {
	let mut out = vec![];
	let prefix = case["prefix"].as_array().cloned().unwrap_or_default();
	let (setup, skip) = vharness::driver::own_setup(setup, &prefix);
	let setup = &setup;
	let mut w = setup_world(dir, setup);
	out.push(json!({"ev": "reset", "b": bid, "setup": setup, "res": "ok", "obs": w.obs()}).to_string());
	for e in prefix.into_iter().skip(skip) {
		if e["ev"] == "cancel" {
			let wn = e["w"].as_str().unwrap_or("w1").to_string();
			let mut r = w.refresh(&wn, 1);
			r["auto"] = json!(true);
			r["b"] = json!(bid);
			r["obs"] = w.obs();
			out.push(r.to_string());
		}
		let mut r = step(&mut w, &e);
		r["b"] = json!(bid);
		r["obs"] = w.obs();
		out.push(r.to_string());
	}
	let modes: Vec<Mode> = case["modes"]
		.as_array()
		.map(|a| {
			a.iter()
				.filter_map(|m| match m.as_str() {
					Some("crash") => Some(Mode::Crash),
					Some("fail") => Some(Mode::Fail),
					_ => None,
				})
				.collect()
		})
		.unwrap_or(vec![Mode::Crash, Mode::Fail]);
	enumerate(&mut w, &case["op"], bid, &modes, &mut out);
	drop(w);
	let _ = std::fs::remove_dir_all(dir);
	out
}

fn main() {
	let args: Vec<String> = std::env::args().collect();
	let (mut inp, mut outp, mut jobs) = (String::new(), String::new(), 12usize);
	let mut i = 1;
	while i < args.len() {
		match args[i].as_str() {
			"--in" => { inp = args[i + 1].clone(); i += 1; }
			"--out" => { outp = args[i + 1].clone(); i += 1; }
			"--jobs" => { jobs = args[i + 1].parse().unwrap(); i += 1; }
			_ => {}
		}
		i += 1;
	}
	std::panic::set_hook(Box::new(|_| {}));
	let v: Value = serde_json::from_str(&std::fs::read_to_string(&inp).expect("read")).expect("json");
	let setup = v["setup"].clone();
	let cases: Vec<Value> = v["cases"].as_array().cloned().unwrap_or_default();
	let root = tmp_root();
	let next = Arc::new(AtomicUsize::new(0));
	let results: Arc<Mutex<Vec<Option<Vec<String>>>>> = Arc::new(Mutex::new(vec![None; cases.len()]));
	let cases = Arc::new(cases);
	let mut hs = vec![];
	for j in 0..jobs.max(1) {
		let (next, results, cases, setup, root) = (next.clone(), results.clone(), cases.clone(), setup.clone(), root.clone());
		hs.push(std::thread::Builder::new().stack_size(64 << 20).spawn(move || loop {
			let i = next.fetch_add(1, Ordering::SeqCst);
			if i >= cases.len() { break; }
			let dir = format!("{}/c{}_{}", root, j, i);
			let lines = match std::panic::catch_unwind(std::panic::AssertUnwindSafe(|| run_case(&dir, &setup, &cases[i], i))) {
				Ok(l) => l,
				Err(p) => vec![json!({"ev": "harness_panic", "b": i, "res": "panic", "detail": vharness::world::panic_msg(&p)}).to_string()],
			};
			results.lock().unwrap()[i] = Some(lines);
		}).unwrap());
	}
	for h in hs { let _ = h.join(); }
	let _ = std::fs::remove_dir_all(&root);
	let mut f = std::io::BufWriter::new(std::fs::File::create(&outp).expect("create"));
	let mut n = 0;
	for r in results.lock().unwrap().iter_mut() {
		if let Some(l) = r.take() {
			for x in l { writeln!(f, "{}", x).unwrap(); n += 1; }
		}
	}
	eprintln!("crash-enumerated {} cases, {} events", cases.len(), n);
}
