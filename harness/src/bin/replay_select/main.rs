//! replay_select --in cases.json --out events.ndjson [--jobs N] [--timeout-ms T] [--budget-ms B]
//!
//! --budget-ms: stop handing out new cases after B milliseconds (the cases are
//! taken in the order given; the lines written are the cases actually run).
//!
//! Executes the C01 cases TLC generated from spec/MCSelection.tla on the REAL
//! sender-side construction code of /repo and records what happened.  It never
//! judges: every line is {i, c: <the case>, o: <the observed outcome>} and is
//! read back by TLC under spec/TraceSelection.tla.
//!
//! A case is run in a worker *process* (`--worker`, one case per line on
//! stdin/stdout) so that a hang of the code under test (an infinite loop is
//! data: res "hang") or an abort can be observed and the worker replaced.
mod fakenode;
mod worker;

use serde_json::{json, Value};
use std::io::{BufRead, BufReader, Write};
use std::process::{Child, Command, Stdio};
use std::sync::atomic::{AtomicUsize, Ordering};
use std::sync::mpsc::{channel, Receiver, RecvTimeoutError};
use std::sync::{Arc, Mutex};
use std::time::Duration;

struct Proc {
	child: Child,
	rx: Receiver<String>,
}

fn spawn_worker() -> Proc {
	let exe = std::env::current_exe().expect("current_exe");
	let mut child = Command::new(exe)
		.arg("--worker")
		.stdin(Stdio::piped())
		.stdout(Stdio::piped())
		.stderr(Stdio::null())
		.spawn()
		.expect("spawn worker");
	let out = child.stdout.take().unwrap();
	let (tx, rx) = channel();
	std::thread::spawn(move || {
		let r = BufReader::new(out);
		for l in r.lines() {
			match l {
				Ok(s) => {
					if tx.send(s).is_err() {
						break;
					}
				}
				Err(_) => break,
			}
		}
	});
	Proc { child, rx }
}

enum Try {
	Line(String),
	Timeout,
	Died,
}

fn attempt(p: &mut Proc, line: &str, t: Duration) -> Try {
	{
		let sin = p.child.stdin.as_mut().unwrap();
		if writeln!(sin, "{}", line).is_err() || sin.flush().is_err() {
			return Try::Died;
		}
	}
	match p.rx.recv_timeout(t) {
		Ok(s) => Try::Line(s),
		Err(RecvTimeoutError::Timeout) => Try::Timeout,
		Err(RecvTimeoutError::Disconnected) => Try::Died,
	}
}

fn kill(p: &mut Proc) {
	let _ = p.child.kill();
	let _ = p.child.wait();
}

fn main() {
	let args: Vec<String> = std::env::args().collect();
	let mut inp = String::new();
	let mut out = String::new();
	let mut jobs = 12usize;
	let mut timeout_ms = 4000u64;
	let mut budget_ms = u64::MAX;
	let mut is_worker = false;
	let mut i = 1;
	while i < args.len() {
		match args[i].as_str() {
			"--in" => { inp = args[i + 1].clone(); i += 1; }
			"--out" => { out = args[i + 1].clone(); i += 1; }
			"--jobs" => { jobs = args[i + 1].parse().unwrap(); i += 1; }
			"--timeout-ms" => { timeout_ms = args[i + 1].parse().unwrap(); i += 1; }
			"--budget-ms" => { budget_ms = args[i + 1].parse().unwrap(); i += 1; }
			"--worker" => is_worker = true,
			_ => {}
		}
		i += 1;
	}
	// panics of the code under test are data
	std::panic::set_hook(Box::new(|_| {}));
	if is_worker {
		worker::run();
		return;
	}
	let v: Value = serde_json::from_str(&std::fs::read_to_string(&inp).expect("read input")).expect("json");
	let cases: Vec<Value> = v["cases"].as_array().expect("cases").clone();
	let n = cases.len();
	let cases = Arc::new(cases);
	let next = Arc::new(AtomicUsize::new(0));
	let results: Arc<Mutex<Vec<Option<Value>>>> = Arc::new(Mutex::new(vec![None; n]));
	let mut handles = vec![];
	let started = std::time::Instant::now();
	for _ in 0..std::cmp::max(1, std::cmp::min(jobs, n)) {
		let cases = cases.clone();
		let next = next.clone();
		let results = results.clone();
		handles.push(std::thread::spawn(move || {
			let mut p = spawn_worker();
			loop {
				if started.elapsed().as_millis() as u64 > budget_ms {
					break;
				}
				let i = next.fetch_add(1, Ordering::SeqCst);
				if i >= cases.len() {
					break;
				}
				let line = json!({"i": i, "c": cases[i]}).to_string();
				// first try with the normal budget; a timeout is retried once in a fresh
				// worker with a generous budget so that a loaded machine is not a "hang"
				let mut res: Option<Value> = None;
				for (k, t) in [timeout_ms, timeout_ms * 4].iter().enumerate() {
					match attempt(&mut p, &line, Duration::from_millis(*t)) {
						Try::Line(s) => {
							res = serde_json::from_str(&s).ok();
							break;
						}
						Try::Timeout => {
							kill(&mut p);
							p = spawn_worker();
							if k == 1 {
								res = Some(json!({"i": i, "c": cases[i], "o": worker::blank_outcome("hang", "", "no answer within the time budget (twice)")}));
							}
						}
						Try::Died => {
							kill(&mut p);
							p = spawn_worker();
							res = Some(json!({"i": i, "c": cases[i], "o": worker::blank_outcome("panic", "", "worker process died (abort / stack overflow / out of memory)")}));
							break;
						}
					}
				}
				results.lock().unwrap()[i] = res;
			}
			kill(&mut p);
		}));
	}
	for h in handles {
		let _ = h.join();
	}
	let mut f = std::io::BufWriter::new(std::fs::File::create(&out).expect("create out"));
	let res = results.lock().unwrap();
	let handed = std::cmp::min(next.load(Ordering::SeqCst), n);
	let mut missing = 0;
	let mut done = 0;
	for (i, r) in res.iter().enumerate() {
		match r {
			Some(v) => {
				writeln!(f, "{}", v).unwrap();
				done += 1;
			}
			None => {
				if i < handed {
					missing += 1
				}
			}
		}
	}
	eprintln!("replayed {} of {} cases ({} handed out without a result)", done, n, missing);
	if missing > 0 {
		std::process::exit(3);
	}
}
