//! A static node: reports a chosen chain tip and a chosen set of unspent
//! commitments (commitment -> block height).  The worker fills `present` so that
//! the refresh every sender-side call starts with leaves the injected output
//! table exactly as the case describes it (see worker.rs).
use grin_core::core::{Transaction, TxKernel};
use grin_util::secp::pedersen;
use grin_util::ToHex;
use grin_wallet_libwallet as libwallet;
use libwallet::{NodeClient, NodeVersionInfo};
use std::collections::HashMap;
use std::sync::atomic::{AtomicU64, Ordering};
use std::sync::{Arc, Mutex};

#[derive(Clone)]
pub struct FakeNode {
	pub height: Arc<AtomicU64>,
	pub present: Arc<Mutex<HashMap<Vec<u8>, u64>>>,
}

impl FakeNode {
	pub fn new(height: u64) -> FakeNode {
		FakeNode {
			height: Arc::new(AtomicU64::new(height)),
			present: Arc::new(Mutex::new(HashMap::new())),
		}
	}
}

impl NodeClient for FakeNode {
	fn node_url(&self) -> &str {
		"fake"
	}
	fn set_node_url(&mut self, _: &str) {}
	fn node_api_secret(&self) -> Option<String> {
		None
	}
	fn set_node_api_secret(&mut self, _: Option<String>) {}
	fn post_tx(&self, _tx: &Transaction, _fluff: bool) -> Result<(), libwallet::Error> {
		Ok(())
	}
	fn get_version_info(&mut self) -> Option<NodeVersionInfo> {
		None
	}
	fn get_chain_tip(&self) -> Result<(u64, String), libwallet::Error> {
		Ok((self.height.load(Ordering::SeqCst), "00".repeat(32)))
	}
	fn get_kernel(
		&mut self,
		_excess: &pedersen::Commitment,
		_min_height: Option<u64>,
		_max_height: Option<u64>,
	) -> Result<Option<(TxKernel, u64, u64)>, libwallet::Error> {
		Ok(None)
	}
	fn get_outputs_from_node(
		&self,
		wallet_outputs: Vec<pedersen::Commitment>,
	) -> Result<HashMap<pedersen::Commitment, (String, u64, u64)>, libwallet::Error> {
		let p = self.present.lock().unwrap();
		let mut res = HashMap::new();
		for c in wallet_outputs {
			if let Some(h) = p.get(&c.0.to_vec()) {
				res.insert(c, (c.0.to_vec().to_hex(), *h, 1));
			}
		}
		Ok(res)
	}
	fn get_outputs_by_pmmr_index(
		&self,
		_start_index: u64,
		_end_index: Option<u64>,
		_max_outputs: u64,
	) -> Result<(u64, u64, Vec<(pedersen::Commitment, pedersen::RangeProof, bool, u64, u64)>), libwallet::Error> {
		Ok((0, 0, vec![]))
	}
	fn height_range_to_pmmr_indices(
		&self,
		_start_height: u64,
		_end_height: Option<u64>,
	) -> Result<(u64, u64), libwallet::Error> {
		Ok((0, 0))
	}
}
