//! One worker process: reads {"i","c"} lines, runs the case on the real code,
//! answers {"i","c","o"}.
//!
//! The wallet of a case is a real LMDBBackend over a fresh directory whose
//! output table is INJECTED (batch.save(OutputData{..})) exactly as the case
//! lists it: the i-th output gets child index i of its account, so that LMDB
//! key order (= WalletBackend::iter() order, the order the stable sort of
//! select_coins starts from) is the order of the case.  The fee base is 1, so
//! every value is nanogrin-exact.  The node is static (FakeNode): it reports the
//! case's tip and reports as unspent exactly the injected Unspent and Locked
//! outputs at their recorded height, which makes the refresh that precedes
//! every selection the identity on the injected table (Unconfirmed, Reverted
//! and Spent records are left alone by a refresh that does not see them).
use crate::fakenode::FakeNode;
use grin_core::core::Weighting;
use grin_keychain::{ExtKeychain, Identifier, Keychain};
use grin_wallet_impls::LMDBBackend;
use serde_json::{json, Value};
use std::collections::HashMap;
use std::io::{BufRead, Write};
use vharness::libwallet::api_impl::{foreign, owner};
use vharness::libwallet::{
	InitTxArgs, IssueInvoiceTxArgs, OutputData, OutputStatus, Slate, WalletBackend,
};
use vharness::world::{err_class, panic_msg, set_thread_globals, Outcome};
use std::panic::{catch_unwind, AssertUnwindSafe};

/// run the code under test: Ok / Err(class) / Panic(message); the full error text is kept
/// for the human reader (detail), the class for the trace
fn guarded<T, F: FnOnce() -> Result<T, vharness::libwallet::Error>>(f: F) -> (Outcome<T>, String) {
	match catch_unwind(AssertUnwindSafe(f)) {
		Ok(Ok(v)) => (Outcome::Ok(v), String::new()),
		Ok(Err(e)) => (Outcome::Err(err_class(&e)), format!("{}", e)),
		Err(p) => {
			let m = panic_msg(&p);
			(Outcome::Panic(panic_site(&m)), m)
		}
	}
}

type B = LMDBBackend<'static, FakeNode, ExtKeychain>;

// the two-region number map of spec/Selection.tla
const TOP: u64 = 268_435_455;
const HALF: u64 = 134_217_728;
fn dec(m: u64) -> u64 {
	if m >= HALF {
		u64::MAX - (TOP - m)
	} else {
		m
	}
}
fn enc(v: u64) -> i64 {
	if v < HALF {
		v as i64
	} else if v > u64::MAX - HALF {
		(TOP - (u64::MAX - v)) as i64
	} else {
		-1
	}
}

pub fn blank_fin() -> Value {
	json!({"on": false, "res": "", "errc": "", "detail": "", "ins": [], "invals": [], "change": [], "fee": 0,
		"valid": false, "ntxin": 0, "ntxout": 0, "ntx": 0, "nnew": 0, "nchg": 0, "recv": ""})
}
pub fn blank_outcome(res: &str, errc: &str, detail: &str) -> Value {
	json!({"res": res, "errc": errc, "detail": detail, "amt": 0, "camt": 0, "fee": 0, "cfee": 0, "ctx": false,
		"ins": [], "invals": [], "change": [], "nctx": 0, "ntx": 0, "nnew": 0, "nchg": 0, "fin": blank_fin()})
}

/// a keychain is expensive to build (secp context tables): one per worker, cloned per wallet
fn open_wallet(dir: &str, node: FakeNode, kc: &ExtKeychain) -> B {
	let mut b = B::new(dir, node).expect("backend");
	b.set_keychain(Box::new(kc.clone()), false, false).expect("set_keychain");
	b
}

fn status_of(s: &str) -> OutputStatus {
	match s {
		"Unconfirmed" => OutputStatus::Unconfirmed,
		"Unspent" => OutputStatus::Unspent,
		"Locked" => OutputStatus::Locked,
		"Spent" => OutputStatus::Spent,
		_ => OutputStatus::Reverted,
	}
}
fn acct_idx(a: &str) -> u32 {
	if a == "a1" {
		1
	} else {
		0
	}
}
fn acct_label(a: &str) -> String {
	if a == "a1" {
		"acct1".to_string()
	} else {
		"default".to_string()
	}
}

/// normalised panic site (the message of the panic, reduced to a stable class)
fn panic_site(m: &str) -> String {
	if m.contains("window size must be non-zero") {
		"windows0".into()
	} else if m.contains("divide by zero") {
		"div0".into()
	} else if m.contains("remainder with a divisor of zero") {
		"rem0".into()
	} else if m.contains("overflow") {
		"overflow".into()
	} else {
		"other".into()
	}
}

/// what the store shows after a call, relative to the injected table
struct Seen {
	/// 1-based indices of injected records that differ from what was injected
	changed: Vec<usize>,
	/// of those, the ones that are now Locked
	locked: Vec<usize>,
	/// values of the records under keys that were not injected
	newvals: Vec<u64>,
	ntx: usize,
	ok: bool,
}

fn look(w: &mut B, index: &HashMap<Identifier, usize>, injected: &[OutputData]) -> Seen {
	let r = guarded(|| {
		let outs: Vec<OutputData> = w.iter().collect();
		let ntx = w.tx_log_iter().count();
		Ok((outs, ntx))
	});
	match r.0 {
		Outcome::Ok((outs, ntx)) => {
			let mut changed = vec![];
			let mut locked = vec![];
			let mut newvals = vec![];
			let mut seen = vec![false; injected.len()];
			for o in outs.iter() {
				match index.get(&o.key_id) {
					Some(i) if o.mmr_index.is_none() => {
						seen[*i] = true;
						let same = serde_json::to_value(o).ok() == serde_json::to_value(&injected[*i]).ok();
						if !same {
							changed.push(*i + 1);
							if o.status == OutputStatus::Locked {
								locked.push(*i + 1);
							}
						}
					}
					_ => newvals.push(o.value),
				}
			}
			for (i, s) in seen.iter().enumerate() {
				if !*s {
					changed.push(i + 1);
				}
			}
			Seen { changed, locked, newvals, ntx, ok: true }
		}
		_ => Seen { changed: vec![], locked: vec![], newvals: vec![], ntx: 0, ok: false },
	}
}

/// number of private contexts in the store, read raw after the backend is closed
fn count_contexts(dir: &str) -> i64 {
	let path = format!("{}/db", dir);
	match grin_store::Store::new(&path, None, Some("db"), None) {
		Ok(s) => match s.iter(&[b'p'], |_k, _v| Ok(1u8)) {
			Ok(it) => it.count() as i64,
			Err(_) => -1,
		},
		Err(_) => -1,
	}
}

fn res_fields<T>(o: &mut Value, out: &Outcome<T>, detail: String) {
	let (r, e) = match out {
		Outcome::Ok(_) => ("ok".to_string(), "".to_string()),
		Outcome::Err(c) => ("err".to_string(), c.clone()),
		Outcome::Panic(site) => ("panic".to_string(), site.clone()),
	};
	o["res"] = json!(r);
	o["errc"] = json!(e);
	o["detail"] = json!(detail);
}

fn run_case(peer: &mut B, kc: &ExtKeychain, root: &str, n: usize, c: &Value) -> Value {
	let dir = format!("{}/c{}", root, n);
	let _ = std::fs::remove_dir_all(&dir);
	let height = c["height"].as_u64().unwrap_or(3);
	let node = FakeNode::new(height);
	let mut w = open_wallet(&dir, node.clone(), kc);
	owner::create_account_path(&mut w, None, "acct1").expect("acct1");

	// ---- inject the output table
	let outs = c["outs"].as_array().cloned().unwrap_or_default();
	let mut injected: Vec<OutputData> = vec![];
	let mut index: HashMap<Identifier, usize> = HashMap::new();
	for (i, o) in outs.iter().enumerate() {
		let a = acct_idx(o["acct"].as_str().unwrap_or("a0"));
		let key_id = ExtKeychain::derive_key_id(3, a, 0, (i + 1) as u32, 0);
		let root_key_id = ExtKeychain::derive_key_id(2, a, 0, 0, 0);
		let value = dec(o["v"].as_u64().unwrap_or(0));
		let commit = w.calc_commit_for_cache(None, value, &key_id).expect("commit");
		let od = OutputData {
			root_key_id,
			key_id: key_id.clone(),
			n_child: (i + 1) as u32,
			commit,
			mmr_index: None,
			value,
			status: status_of(o["st"].as_str().unwrap_or("Unspent")),
			height: o["h"].as_u64().unwrap_or(0),
			lock_height: o["lk"].as_u64().unwrap_or(0),
			is_coinbase: o["cb"].as_bool().unwrap_or(false),
			tx_log_entry: None,
		};
		index.insert(key_id, i);
		injected.push(od);
	}
	{
		let mut present = node.present.lock().unwrap();
		for od in injected.iter() {
			if od.status == OutputStatus::Unspent || od.status == OutputStatus::Locked {
				if let Some(c) = &od.commit {
					present.insert(grin_util::from_hex(c).unwrap(), od.height);
				}
			}
		}
	}
	{
		let mut batch = w.batch(None).expect("batch");
		for od in injected.iter() {
			batch.save(od.clone()).expect("save");
		}
		// change keys must not collide with the injected ones
		batch.save_child_index(&ExtKeychain::derive_key_id(2, 0, 0, 0, 0), 100).unwrap();
		batch.save_child_index(&ExtKeychain::derive_key_id(2, 1, 0, 0, 0), 100).unwrap();
		batch.commit().expect("commit");
	}

	let flow = c["flow"].as_str().unwrap_or("send").to_string();
	let amount = dec(c["amt"].as_u64().unwrap_or(0));
	let args = InitTxArgs {
		src_acct_name: Some(acct_label(c["src"].as_str().unwrap_or("a0"))),
		amount,
		amount_includes_fee: Some(c["incfee"].as_bool().unwrap_or(false)),
		minimum_confirmations: c["minconf"].as_u64().unwrap_or(1),
		max_outputs: c["maxouts"].as_u64().unwrap_or(500) as u32,
		num_change_outputs: c["nchange"].as_u64().unwrap_or(1) as u32,
		selection_strategy_is_use_all: c["useall"].as_bool().unwrap_or(false),
		late_lock: Some(flow == "late"),
		..Default::default()
	};
	let mut o = blank_outcome("", "", "");

	// ---- the call
	let mut invoice: Option<Slate> = None;
	if flow == "invoice" {
		let ia = IssueInvoiceTxArgs { dest_acct_name: None, amount, target_slate_version: None };
		match guarded(|| owner::issue_invoice_tx(&mut *peer, None, ia, false)) {
			(Outcome::Ok(s), _) => invoice = Some(s),
			(x, d) => {
				// the peer could not even issue the invoice: nothing of the payer ran
				o["res"] = json!("skip");
				o["detail"] = json!(format!("issue_invoice {} {}", x.res(), d));
				return o;
			}
		}
	}
	let (r, d) = match &invoice {
		Some(inv) => guarded(|| owner::process_invoice_tx(&mut w, None, inv, args.clone(), false)),
		None => guarded(|| owner::init_send_tx(&mut w, None, args.clone(), false)),
	};
	res_fields(&mut o, &r, d);
	let mut s1: Option<Slate> = None;
	if let Outcome::Ok(slate) = r {
		let id = match &invoice {
			Some(inv) => inv.id,
			None => slate.id,
		};
		o["fee"] = json!(enc(slate.fee_fields.fee()));
		o["amt"] = json!(enc(slate.amount));
		match guarded(|| w.get_private_context(None, id.as_bytes())).0 {
			Outcome::Ok(ctx) => {
				o["ctx"] = json!(true);
				o["camt"] = json!(enc(ctx.amount));
				o["cfee"] = json!(ctx.fee.map(|f| enc(f.fee())).unwrap_or(-1));
				if invoice.is_some() {
					// the reply to an invoice carries amount 0: what was agreed is in the context
					o["amt"] = json!(enc(ctx.amount));
				}
				o["ins"] = json!(ctx.input_ids.iter().map(|(k, _, _)| index.get(k).map(|i| i + 1).unwrap_or(0)).collect::<Vec<usize>>());
				o["invals"] = json!(ctx.input_ids.iter().map(|(_, _, v)| enc(*v)).collect::<Vec<i64>>());
				o["change"] = json!(ctx.output_ids.iter().map(|(_, _, v)| enc(*v)).collect::<Vec<i64>>());
				o["late"] = json!(ctx.late_lock_args.is_some());
			}
			_ => {
				o["ctx"] = json!(false);
			}
		}
		s1 = Some(slate);
	}
	let seen = look(&mut w, &index, &injected);
	o["nchg"] = json!(seen.changed.len());
	o["nnew"] = json!(seen.newvals.len());
	o["ntx"] = json!(seen.ntx);
	o["readable"] = json!(seen.ok);
	let mut seen_ok = seen.ok;

	// ---- late lock: the recipient answers, the sender finalizes (selects and locks now)
	if flow == "late" {
		if let Some(s1) = s1 {
			let mut fin = blank_fin();
			match guarded(|| foreign::receive_tx(&mut *peer, None, &s1, None, false)) {
				(Outcome::Ok(s2), _) => {
					fin["on"] = json!(true);
					let (r, d) = guarded(|| foreign::finalize_tx(&mut w, None, &s2, false));
					res_fields(&mut fin, &r, d);
					let seen = look(&mut w, &index, &injected);
					seen_ok = seen_ok && (seen.ok || matches!(r, Outcome::Panic(_)));
					fin["nchg"] = json!(seen.changed.len());
					fin["nnew"] = json!(seen.newvals.len());
					fin["ntx"] = json!(seen.ntx);
					if let Outcome::Ok(s3) = r {
						// the inputs are the injected records that are now Locked; the change is
						// what appeared under new keys
						fin["ins"] = json!(seen.locked);
						fin["invals"] = json!(seen.locked.iter().map(|i| enc(injected[*i - 1].value)).collect::<Vec<i64>>());
						fin["change"] = json!(seen.newvals.iter().map(|v| enc(*v)).collect::<Vec<i64>>());
						fin["nchg"] = json!(seen.changed.len() - seen.locked.len());
						if let Some(tx) = &s3.tx {
							fin["fee"] = json!(enc(tx.fee()));
							fin["valid"] = json!(tx.validate(Weighting::AsTransaction).is_ok());
							fin["ntxin"] = json!(tx.inputs().len());
							fin["ntxout"] = json!(tx.outputs().len());
						}
					}
				}
				(x, d) => {
					fin["recv"] = json!(format!("{} {}", x.res(), d));
				}
			}
			o["fin"] = fin;
		}
	}
	drop(w);
	let nctx = count_contexts(&dir);
	o["nctx"] = json!(nctx);
	// a store the harness cannot read back is a harness failure, never data (after a panic of
	// the code under test the store is not judged, so an unreadable one is tolerated there)
	if (nctx < 0 || !seen_ok) && o["res"] != json!("panic") {
		o["detail"] = json!(format!("store not readable after the call (nctx {}, readable {}); was: {} {}", nctx, seen_ok, o["res"], o["detail"]));
		o["res"] = json!("skip");
	}
	let _ = std::fs::remove_dir_all(&dir);
	o
}

pub fn run() {
	set_thread_globals(1);
	let root = format!("{}/sel", vharness::driver::tmp_root());
	let _ = std::fs::remove_dir_all(&root);
	std::fs::create_dir_all(&root).expect("tmp root");
	let kc = ExtKeychain::from_seed(&[7u8; 32], false).expect("keychain");
	let peer_kc = ExtKeychain::from_seed(&[9u8; 32], false).expect("keychain");
	let mut peer = open_wallet(&format!("{}/peer", root), FakeNode::new(3), &peer_kc);
	let stdin = std::io::stdin();
	let stdout = std::io::stdout();
	let mut n = 0usize;
	for line in stdin.lock().lines() {
		let line = match line {
			Ok(l) => l,
			Err(_) => break,
		};
		if line.trim().is_empty() {
			continue;
		}
		let v: Value = match serde_json::from_str(&line) {
			Ok(v) => v,
			Err(_) => continue,
		};
		n += 1;
		let c = v["c"].clone();
		let o = match std::panic::catch_unwind(std::panic::AssertUnwindSafe(|| run_case(&mut peer, &kc, &root, n, &c))) {
			Ok(o) => o,
			// a panic outside the guarded calls is a harness failure, not data
			Err(_) => blank_outcome("skip", "", "harness panic outside the call under test"),
		};
		let mut out = stdout.lock();
		let _ = writeln!(out, "{}", json!({"i": v["i"], "c": c, "o": o}));
		let _ = out.flush();
	}
	let _ = std::fs::remove_dir_all(&root);
}
