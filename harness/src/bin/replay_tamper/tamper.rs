//! Concrete tamper classes of spec/SlateAlgebra.tla, applied to the WIRE form of a
//! slate (libwallet::slate_versions::v4::SlateV4, all fields public).  Every class
//! name here is the name of a `Tamper(slate, class)` case in the TLA+ module; the
//! comments give the abstract effect the specification assumes.  Nothing in here
//! judges anything: the function only rewrites the message.
use grin_core as core;
use grin_keychain::{BlindSum, BlindingFactor, ExtKeychain, Keychain};
use grin_util as util;
use vharness::libwallet;

use core::core::FeeFields;
use core::libtx::{aggsig, build, ProofBuilder};
use ed25519_dalek::PublicKey as DalekPublicKey;
use ed25519_dalek::SecretKey as DalekSecretKey;
use ed25519_dalek::{Keypair as DalekKeypair, Signer};
use libwallet::slate_versions::v4::{
	CommitsV4, KernelFeaturesArgsV4, OutputFeaturesV4, ParticipantDataV4, PaymentInfoV4, SlateStateV4, SlateV4,
};
use libwallet::Slate;
use rand::{thread_rng, Rng};
use util::secp::key::{PublicKey, SecretKey};
use util::secp::{self, Signature};
use uuid::Uuid;

/// what the adversary may know besides the message itself
pub struct Env {
	/// the agreed fee in nanogrin (public: it is in S1 / I2)
	pub fee: u64,
	/// the agreed amount in nanogrin
	pub amount: u64,
	/// public data of the party that will finalize (it is in S1 / I1)
	pub fin_part: Option<ParticipantDataV4>,
	/// id of another transaction pending in the finalizing wallet
	pub other_id: Option<Uuid>,
	/// a genuine partial signature of the counterparty from an earlier exchange
	pub stale_sig: Option<Signature>,
	pub tip: u64,
	pub unit: u64,
	/// amount and fee of the request as the counterparty received it (for `echo`)
	pub fwd: Option<(u64, FeeFields)>,
	pub invoice: bool,
}

/// a private secp context (the process-wide one is a mutex the wallet code takes too)
fn secp_inst() -> std::rc::Rc<secp::Secp256k1> {
	thread_local! {
		static S: std::rc::Rc<secp::Secp256k1> = std::rc::Rc::new(secp::Secp256k1::with_caps(secp::ContextFlag::Commit));
	}
	S.with(|s| s.clone())
}

fn fresh_sk(s: &secp::Secp256k1) -> SecretKey {
	SecretKey::new(s, &mut thread_rng())
}
fn fresh_pk(s: &secp::Secp256k1) -> PublicKey {
	PublicKey::from_secret_key(s, &fresh_sk(s)).unwrap()
}

/// one commitment owned by the adversary: (wire form, blinding factor it adds to the
/// kernel-sum equation: +b for an output, -b for an input)
fn adv_commit(value: u64, as_input: bool) -> Result<(CommitsV4, BlindingFactor), String> {
	let kc = ExtKeychain::from_random_seed(false).map_err(|e| format!("{:?}", e))?;
	let key_id = ExtKeychain::derive_key_id(1, thread_rng().gen_range(1, 1 << 20), 0, 0, 0);
	let elems = if as_input {
		vec![build::input(value, key_id)]
	} else {
		vec![build::output(value, key_id)]
	};
	let (tx, blind) = build::partial_transaction(Slate::empty_transaction(), &elems, &kc, &ProofBuilder::new(&kc))
		.map_err(|e| format!("{:?}", e))?;
	if as_input {
		let ins: Vec<core::core::Input> = match tx.inputs() {
			core::core::Inputs::FeaturesAndCommit(v) => v,
			_ => vec![],
		};
		let i = ins.get(0).ok_or("no input built")?;
		Ok((
			CommitsV4 {
				f: OutputFeaturesV4(0),
				c: i.commitment(),
				p: None,
			},
			blind,
		))
	} else {
		let o = tx.outputs().get(0).ok_or("no output built")?.clone();
		Ok((
			CommitsV4 {
				f: OutputFeaturesV4(0),
				c: o.commitment(),
				p: Some(o.proof()),
			},
			blind,
		))
	}
}

fn add_blind(off: &BlindingFactor, b: &BlindingFactor) -> Result<BlindingFactor, String> {
	let kc = ExtKeychain::from_random_seed(false).map_err(|e| format!("{:?}", e))?;
	kc.blind_sum(
		&BlindSum::new()
			.add_blinding_factor(off.clone())
			.add_blinding_factor(b.clone()),
	)
	.map_err(|e| format!("{:?}", e))
}

fn fresh_blind() -> BlindingFactor {
	let s = secp_inst();
	BlindingFactor::from_secret_key(fresh_sk(&s))
}

fn dalek_keypair() -> DalekKeypair {
	let mut b = [0u8; 32];
	thread_rng().fill(&mut b);
	let secret = DalekSecretKey::from_bytes(&b).unwrap();
	let public: DalekPublicKey = (&secret).into();
	DalekKeypair { public, secret }
}

/// index of the first output (a commitment with a range proof) / input in `coms`
fn first_out(v: &SlateV4) -> Option<usize> {
	v.coms.as_ref()?.iter().position(|c| c.p.is_some())
}
fn first_in(v: &SlateV4) -> Option<usize> {
	v.coms.as_ref()?.iter().position(|c| c.p.is_none())
}

/// a well-formed partial signature made with the secret keys (sk, sn) over the sums of
/// every entry the slate shows plus the finalizer's own entry, and the agreed message
fn adv_part_sig(v: &SlateV4, env: &Env, sk: &SecretKey, sn: &SecretKey) -> Result<Signature, String> {
	let s = secp_inst();
	let mut nonces: Vec<&PublicKey> = v.sigs.iter().map(|p| &p.nonce).collect();
	let mut xs: Vec<&PublicKey> = v.sigs.iter().map(|p| &p.xs).collect();
	if let Some(p) = env.fin_part.as_ref() {
		nonces.push(&p.nonce);
		xs.push(&p.xs);
	}
	if nonces.is_empty() {
		return Err("no participant".into());
	}
	let nsum = PublicKey::from_combination(&s, nonces).map_err(|e| format!("{:?}", e))?;
	let xsum = PublicKey::from_combination(&s, xs).map_err(|e| format!("{:?}", e))?;
	let fee = FeeFields::new(0, env.fee.max(1)).map_err(|e| format!("{:?}", e))?;
	let msg = core::core::KernelFeatures::Plain { fee }
		.kernel_sig_msg()
		.map_err(|e| format!("{:?}", e))?;
	aggsig::calculate_partial_sig(&s, sk, sn, &nsum, Some(&xsum), &msg).map_err(|e| format!("{:?}", e))
}

/// put the commitments in the order a wallet emits them (inputs, then outputs, each sorted as
/// Transaction::validate demands): an adversary who adds or replaces a commitment would not
/// give himself away by the sort order
fn sort_coms(v: &mut SlateV4) {
	if v.coms.is_none() {
		return;
	}
	if let Some(mut tx) = Slate::from(v.clone()).tx {
		tx.body.sort();
		let mut cs: Vec<CommitsV4> = vec![];
		if let core::core::Inputs::FeaturesAndCommit(ins) = tx.inputs() {
			for i in ins.iter() {
				cs.push(i.into());
			}
		}
		for o in tx.outputs() {
			cs.push(o.into());
		}
		v.coms = Some(cs);
	}
}

/// Apply `class` to the wire slate.  Err = the class cannot be realised on this
/// message (e.g. it needs a payment proof and there is none): the case is skipped,
/// never silently replaced by something else.
pub fn apply(class: &str, v: &mut SlateV4, env: &Env) -> Result<(), String> {
	let s = secp_inst();
	match class {
		"none" => {}
		// ---- scalar fields
		"amt_set" | "pre_amt_plus" | "cc_amt_plus" => v.amt = env.amount + env.unit,
		"pre_amt_minus" | "cc_amt_minus" => v.amt = env.amount.saturating_sub(env.unit),
		// consistent counterparty: what the recipient gets is lowered by what the fee is raised (and the reverse)
		"cc_both" => {
			v.amt = env.amount.saturating_sub(env.unit);
			v.fee = FeeFields::new(0, env.fee + env.unit).map_err(|e| format!("{:?}", e))?
		}
		"cc_both_rev" => {
			v.amt = env.amount + env.unit;
			v.fee = FeeFields::new(0, env.fee.saturating_sub(env.unit).max(1)).map_err(|e| format!("{:?}", e))?
		}
		// a non-compact reply: its amount and fee fields name what the counterparty was asked (in an
		// invoice the payer sets the fee itself and the reply already names it)
		"echo" => {
			let (a, f) = env.fwd.ok_or("no request recorded")?;
			v.amt = a;
			if !env.invoice {
				v.fee = f;
			}
		}
		"fee_set" | "pre_fee_plus" | "cc_fee_plus" => {
			v.fee = FeeFields::new(0, env.fee + env.unit).map_err(|e| format!("{:?}", e))?
		}
		"fee_minus" | "pre_fee_minus" | "cc_fee_minus" => {
			v.fee = FeeFields::new(0, env.fee.saturating_sub(env.unit).max(1)).map_err(|e| format!("{:?}", e))?
		}
		"fee_zero" => v.fee = FeeFields::zero(),
		"off_shift" | "pre_off" => v.off = add_blind(&v.off, &fresh_blind())?,
		"off_zero" => {
			if v.off == BlindingFactor::zero() {
				return Err("offset already zero".into());
			}
			v.off = BlindingFactor::zero()
		}
		"feat_hl" | "pre_feat_hl" => {
			v.feat = 2;
			v.feat_args = Some(KernelFeaturesArgsV4 { lock_hgt: 1 });
		}
		"feat_hl_noargs" => {
			v.feat = 2;
			v.feat_args = None;
		}
		"feat_nrd" => {
			v.feat = 3;
			v.feat_args = Some(KernelFeaturesArgsV4 { lock_hgt: 1 });
		}
		"feat_cb" => v.feat = 1,
		"feat_unk" => v.feat = 9,
		"args_only" => v.feat_args = Some(KernelFeaturesArgsV4 { lock_hgt: 5 }),
		"ttl_past" => v.ttl = 1,
		"ttl_future" => v.ttl = env.tip + 1000,
		"id_fresh" => v.id = Uuid::new_v4(),
		"id_other" => v.id = env.other_id.ok_or("no other pending transaction")?,
		"st_S1" => v.sta = SlateStateV4::Standard1,
		"st_S3" => v.sta = SlateStateV4::Standard3,
		"st_I1" => v.sta = SlateStateV4::Invoice1,
		"st_I3" => v.sta = SlateStateV4::Invoice3,
		"st_UN" => v.sta = SlateStateV4::Unknown,
		"st_swap" => {
			v.sta = match v.sta {
				SlateStateV4::Standard2 => SlateStateV4::Invoice2,
				SlateStateV4::Invoice2 => SlateStateV4::Standard2,
				_ => return Err("not a reply".into()),
			}
		}
		"np_0" => v.num_parts = 0,
		"np_1" => v.num_parts = 1,
		"np_3" => v.num_parts = 3,
		"ver_3" => v.ver.version = 3,
		"bhv_9" => v.ver.block_header_version = 9,
		// ---- the counterparty's participant entry (the only one in a reply)
		"xs_fresh" | "pre_xs" => v.sigs.get_mut(0).ok_or("no entry")?.xs = fresh_pk(&s),
		"nonce_fresh" | "pre_nonce" => v.sigs.get_mut(0).ok_or("no entry")?.nonce = fresh_pk(&s),
		"xs_other" => v.sigs.get_mut(0).ok_or("no entry")?.xs = env.fin_part.as_ref().ok_or("no other")?.xs,
		"nonce_other" => v.sigs.get_mut(0).ok_or("no entry")?.nonce = env.fin_part.as_ref().ok_or("no other")?.nonce,
		"both_other" => {
			let o = env.fin_part.as_ref().ok_or("no other")?.clone();
			let e = v.sigs.get_mut(0).ok_or("no entry")?;
			e.xs = o.xs;
			e.nonce = o.nonce;
		}
		"part_none" => v.sigs.get_mut(0).ok_or("no entry")?.part = None,
		"part_fresh" => {
			// made with keys that are not the entry's
			let sig = adv_part_sig(v, env, &fresh_sk(&s), &fresh_sk(&s))?;
			v.sigs.get_mut(0).ok_or("no entry")?.part = Some(sig);
		}
		"part_stale" => v.sigs.get_mut(0).ok_or("no entry")?.part = Some(env.stale_sig.ok_or("no stale signature")?),
		"entry_drop" => {
			if v.sigs.is_empty() {
				return Err("no entry".into());
			}
			v.sigs.clear()
		}
		"entry_dup" => {
			let e = v.sigs.get(0).ok_or("no entry")?.clone();
			v.sigs.push(e)
		}
		"entry_add" => v.sigs.push(ParticipantDataV4 {
			xs: fresh_pk(&s),
			nonce: fresh_pk(&s),
			part: None,
		}),
		"entry_add_signed" => {
			// a third participant whose own partial signature is VALID for the sums that now
			// include it (the counterparty's signature no longer is)
			let (sk, sn) = (fresh_sk(&s), fresh_sk(&s));
			v.sigs.push(ParticipantDataV4 {
				xs: PublicKey::from_secret_key(&s, &sk).unwrap(),
				nonce: PublicKey::from_secret_key(&s, &sn).unwrap(),
				part: None,
			});
			let sig = adv_part_sig(v, env, &sk, &sn)?;
			v.sigs.last_mut().unwrap().part = Some(sig);
		}
		// ---- commitments
		"out_add_adj" => {
			// a zero-value output of the adversary; the (unsigned) offset is adjusted so that
			// the kernel-sum equation still holds
			let (c, b) = adv_commit(0, false)?;
			v.coms.as_mut().ok_or("no coms")?.push(c);
			v.off = add_blind(&v.off, &b)?;
		}
		"out_add_noadj" => {
			let (c, _) = adv_commit(0, false)?;
			v.coms.as_mut().ok_or("no coms")?.push(c);
		}
		"in_add_adj" => {
			let (c, b) = adv_commit(0, true)?;
			v.coms.as_mut().ok_or("no coms")?.push(c);
			v.off = add_blind(&v.off, &b)?;
		}
		"inout_add_adj" => {
			// the adversary rides along: own input and own output of the same value
			let (ci, bi) = adv_commit(5 * env.unit, true)?;
			let (co, bo) = adv_commit(5 * env.unit, false)?;
			let cs = v.coms.as_mut().ok_or("no coms")?;
			cs.push(ci);
			cs.push(co);
			v.off = add_blind(&add_blind(&v.off, &bi)?, &bo)?;
		}
		"out_drop" => {
			let i = first_out(v).ok_or("no output")?;
			v.coms.as_mut().unwrap().remove(i);
		}
		"out_replace" => {
			let i = first_out(v).ok_or("no output")?;
			let (c, _) = adv_commit(env.amount, false)?;
			v.coms.as_mut().unwrap()[i] = c;
		}
		"out_dup" => {
			let i = first_out(v).ok_or("no output")?;
			let c = v.coms.as_ref().unwrap()[i];
			v.coms.as_mut().unwrap().push(c);
		}
		"out_to_in" => {
			let i = first_out(v).ok_or("no output")?;
			v.coms.as_mut().unwrap()[i].p = None;
		}
		"out_feat_cb" => {
			let i = first_out(v).ok_or("no output")?;
			v.coms.as_mut().unwrap()[i].f = OutputFeaturesV4(1);
		}
		"proof_swap" => {
			// the counterparty's output keeps its commitment but carries a (valid) range
			// proof made for another commitment
			let i = first_out(v).ok_or("no output")?;
			let (c, _) = adv_commit(env.amount, false)?;
			v.coms.as_mut().unwrap()[i].p = c.p;
		}
		"commit_swap" => {
			let i = first_out(v).ok_or("no output")?;
			let (c, _) = adv_commit(env.amount, false)?;
			v.coms.as_mut().unwrap()[i].c = c.c;
		}
		"coms_none" => {
			if v.coms.is_none() {
				return Err("no coms".into());
			}
			v.coms = None
		}
		"in_drop" => {
			let i = first_in(v).ok_or("no input")?;
			v.coms.as_mut().unwrap().remove(i);
		}
		"in_replace" => {
			let i = first_in(v).ok_or("no input")?;
			let (c, _) = adv_commit(env.amount, true)?;
			v.coms.as_mut().unwrap()[i] = c;
		}
		"in_to_out" => {
			let i = first_in(v).ok_or("no input")?;
			let (c, _) = adv_commit(env.amount, false)?;
			v.coms.as_mut().unwrap()[i].p = c.p;
		}
		// ---- payment proof
		"pp_drop" => {
			if v.proof.is_none() {
				return Err("no payment proof".into());
			}
			v.proof = None
		}
		"pp_rsig_none" => v.proof.as_mut().ok_or("no payment proof")?.rsig = None,
		"pp_rsig_fresh" => {
			let kp = dalek_keypair();
			v.proof.as_mut().ok_or("no payment proof")?.rsig = Some(kp.sign(b"not the payment proof message"));
		}
		"pp_raddr" => v.proof.as_mut().ok_or("no payment proof")?.raddr = dalek_keypair().public,
		"pp_saddr" => v.proof.as_mut().ok_or("no payment proof")?.saddr = dalek_keypair().public,
		"pp_add" => {
			if v.proof.is_some() {
				return Err("already has a payment proof".into());
			}
			let kp = dalek_keypair();
			v.proof = Some(PaymentInfoV4 {
				saddr: dalek_keypair().public,
				raddr: kp.public,
				rsig: Some(kp.sign(b"not the payment proof message")),
			})
		}
		other => return Err(format!("unknown tamper class {}", other)),
	}
	match class {
		"out_add_adj" | "out_add_noadj" | "in_add_adj" | "inout_add_adj" | "out_replace" | "out_dup" | "out_to_in" | "commit_swap" | "out_feat_cb"
		| "in_replace" | "in_to_out" => sort_coms(v),
		_ => {}
	}
	Ok(())
}

/// the message as the receiving wallet would parse it: JSON round trip when the
/// wire format can carry it (wire = true), the struct conversion otherwise
pub fn deliver(v: &SlateV4) -> (Slate, bool) {
	if let Ok(js) = serde_json::to_string(v) {
		if let Ok(s) = Slate::deserialize_upgrade(&js) {
			return (s, true);
		}
	}
	(Slate::from(v.clone()), false)
}
