//! replay_tamper --in cases.json --out events.ndjson [--jobs N] [--budget-ms B]
//!
//! --budget-ms: stop handing out new groups after B milliseconds (groups are taken in
//! the order given); the cases of groups not started are written as run = "skip:budget".
//!
//! Executes the C02 cases TLC generated from spec/MCSlateAlgebra.tla on REAL
//! wallets over a real in-process chain (vharness::world::World) and records
//! what happened, one ndjson line per case.  It never judges: the lines are read
//! back by TLC under spec/TraceTamper.tla.
//!
//! input : {"groups": [[case, ...], ...]}   every group runs in a fresh world; the
//!          cases of a group run one after the other on the same two wallets, so a
//!          case starts from whatever history the earlier ones left behind
//! case  : {id, flow: send|late|self|inv|invself, nin, nch, incfee, proof,
//!          stage: none|pre|post, tamper: <class of SlateAlgebra!Tamper>,
//!          tamper2: none | <a second class, applied to the reply after `tamper`>}
//!
//! One case = one complete exchange:
//!   initiation on the real wallet (amount chosen so that the selection has the
//!   requested shape), [lock], the counterparty's step on the (pre-tampered)
//!   slate, the genuine reply, the post-tamper on the wire form of the reply,
//!   finalize with the altered reply; then
//!     success: tx facts (validity by Transaction::validate, inputs / outputs / fee
//!              by name and value, stored copy equal), post + mine into the real
//!              chain, refresh;
//!     failure: [case.retry: the reply the counterparty really sent is delivered next and
//!              recorded the same way (`retry`, projected as `o2`)]; after the last refusal
//!              the pending transaction is cancelled by slate id (by log id in the self
//!              flows), refresh, balances.
mod tamper;

use grin_util as util;
use serde_json::{json, Value};
use std::io::Write;
use std::sync::atomic::{AtomicUsize, Ordering};
use std::sync::{Arc, Mutex};
use vharness::libwallet;
use vharness::world::{panic_msg, World, U};

use libwallet::slate_versions::v4::SlateV4;
use libwallet::Slate;
use util::secp::Signature;

struct Ctl {
	/// a genuine partial signature of a counterparty from an earlier exchange of this world
	stale_sig: Option<Signature>,
}

fn s(v: &Value) -> String {
	v.as_str().unwrap_or("").to_string()
}

fn info_of(ev: &Value) -> Value {
	if ev["res"] == "ok" {
		ev["info"].clone()
	} else {
		json!({"err": ev["res"]})
	}
}

/// eligible outputs of wallet `wn` (default account) at one confirmation, ascending by value
fn eligible(obs: &Value, wn: &str) -> Vec<(String, u64)> {
	let h = obs["height"].as_u64().unwrap_or(0);
	let mut v = vec![];
	if let Some(outs) = obs["w"][wn]["outs"].as_object() {
		for (k, o) in outs {
			if o["st"] == "Unspent" && o["acct"] == "a0" && o["lk"].as_u64().unwrap_or(0) <= h && o["h"].as_u64().unwrap_or(0) <= h {
				v.push((k.clone(), o["v"].as_u64().unwrap_or(0)));
			}
		}
	}
	// the wallet sorts by value (stable over its store order, which is the key order)
	v.sort_by_key(|x| x.1);
	v
}

/// entries of wallet `wn` that carry slate `name`: (log id, type, confirmed)
fn entries(obs: &Value, wn: &str, name: &str) -> Vec<(u32, String, bool)> {
	let mut v = vec![];
	if let Some(txs) = obs["w"][wn]["txs"].as_object() {
		for (_, t) in txs {
			if t["slate"] == name {
				v.push((t["id"].as_u64().unwrap_or(0) as u32, s(&t["ty"]), t["conf"].as_bool().unwrap_or(false)));
			}
		}
	}
	v.sort();
	v
}

/// outputs of `wn` linked to log entry `id` with status `st`: [{n: world-wide name, v}]
fn outs_of(obs: &Value, wn: &str, id: u32, st: &str) -> Vec<Value> {
	let seed = s(&obs["w"][wn]["seed"]);
	let mut v = vec![];
	if let Some(outs) = obs["w"][wn]["outs"].as_object() {
		for (k, o) in outs {
			if o["tx"].as_i64() == Some(id as i64) && o["st"] == st {
				v.push(json!({"n": format!("{}:{}", seed, k.trim_end_matches("+m")), "v": o["v"]}));
			}
		}
	}
	v
}

fn ctx_deal(obs: &Value, wn: &str, name: &str) -> Option<Value> {
	let c = obs["w"][wn]["ctxs"].get(name)?;
	let seed = s(&obs["w"][wn]["seed"]);
	let ins: Vec<Value> = c["ins"]
		.as_array()?
		.iter()
		.zip(c["invals"].as_array()?.iter())
		.map(|(k, v)| json!({"n": format!("{}:{}", seed, s(k)), "v": v}))
		.collect();
	let outs: Vec<Value> = c["outs"]
		.as_array()?
		.iter()
		.map(|o| json!({"n": format!("{}:{}", seed, s(&o["k"])), "v": o["v"]}))
		.collect();
	Some(json!({"ins": ins, "outs": outs, "amt": c["amt"], "fee": c["fee"], "late": c["late"]["on"]}))
}

/// an honest exchange w1 -> w2 that spends every small output of w1 completely
/// (keeps the smallest-first selection predictable); not a case, recorded as `sweep`
fn sweep(w: &mut World, small: &[(String, u64)]) -> Value {
	let total: u64 = small.iter().map(|x| x.1).sum();
	let fee = small.len() as u64 + 21 + 3;
	if total <= fee {
		return json!({"res": "skip:dust"});
	}
	let name = w.new_slate_name();
	let a = json!({"amt": total - fee, "minconf": 1, "nchange": 1});
	let i = w.init_send("w1", &name, &a);
	if i["res"] != "ok" {
		return json!({"res": format!("init:{}", s(&i["res"]))});
	}
	let l = w.lock("w1", &name, "S1", 0);
	let r = w.receive("w2", &name, "", None);
	let f = w.finalize("w1", &name, "S2", 0, None, false);
	let m = if f["res"] == "ok" { w.mine(None, &[name.clone()]) } else { json!({"res": "skip"}) };
	w.refresh("w1", 1);
	w.refresh("w2", 1);
	json!({"res": if m["res"] == "ok" {"ok".to_string()} else {format!("{}/{}/{}/{}", s(&l["res"]), s(&r["res"]), s(&f["res"]), s(&m["res"]))},
		"n": small.len()})
}

fn to_v4(sl: &Slate) -> SlateV4 {
	SlateV4::from(sl)
}

fn run_case(w: &mut World, c: &Value, ctl: &mut Ctl) -> Value {
	let flow = s(&c["flow"]);
	let nin = c["nin"].as_u64().unwrap_or(1) as usize;
	let nch = c["nch"].as_u64().unwrap_or(1);
	let incfee = c["incfee"].as_bool().unwrap_or(false);
	let proof = c["proof"].as_bool().unwrap_or(false);
	let stage = s(&c["stage"]);
	let class = s(&c["tamper"]);
	// a second alteration of the reply, applied after `tamper` ("none" = single alteration)
	let class2 = match c["tamper2"].as_str() {
		Some(x) if !x.is_empty() => x.to_string(),
		_ => "none".to_string(),
	};
	let invoice = flow == "inv" || flow == "invself";
	let late = flow == "late";
	let payer = "w1";
	let payee = if flow == "self" || flow == "invself" { "w1" } else { "w2" };
	let finw = if invoice { payee } else { payer };
	let mut ev = json!({"ev": "case", "c": c, "finw": finw, "payer": payer, "payee": payee});
	let mut steps: Vec<Value> = vec![];
	macro_rules! skip {
		($why:expr) => {{
			ev["run"] = json!(format!("skip:{}", $why));
			ev["steps"] = json!(steps);
			return ev;
		}};
	}

	let unrep0 = w.unrep.get();
	// ---- 0. a clean, refreshed start; small outputs swept away
	w.refresh("w1", 1);
	w.refresh("w2", 1);
	let mut obs = w.obs();
	let mut el = eligible(&obs, payer);
	let small: Vec<(String, u64)> = el.iter().filter(|x| x.1 < 5000).cloned().collect();
	if !small.is_empty() {
		let sw = sweep(w, &small);
		steps.push(json!({"sweep": sw}));
		obs = w.obs();
		el = eligible(&obs, payer);
	}
	if (class == "part_stale" || class2 == "part_stale") && ctl.stale_sig.is_none() {
		// an earlier, honest exchange whose reply signature can be replayed later
		let name0 = w.new_slate_name();
		let i0 = w.init_send("w1", &name0, &json!({"amt": 1000, "minconf": 1, "nchange": 1}));
		let l0 = w.lock("w1", &name0, "S1", 0);
		let r0 = w.receive("w2", &name0, "", None);
		ctl.stale_sig = w.pick(&name0, "S2", 0).and_then(|sl| sl.participant_data.get(0).and_then(|p| p.part_sig));
		let f0 = w.finalize("w1", &name0, "S2", 0, None, false);
		let m0 = w.mine(None, &[name0.clone()]);
		steps.push(json!({"warmup": [i0["res"], l0["res"], r0["res"], f0["res"], m0["res"]]}));
		w.refresh("w1", 1);
		w.refresh("w2", 1);
		obs = w.obs();
		el = eligible(&obs, payer);
	}
	if el.len() < nin + 1 {
		// fund the payer: one more coinbase, matured
		w.mine(Some("w1"), &[]);
		for _ in 0..3 {
			w.mine(None, &[]);
		}
		w.refresh("w1", 1);
		w.refresh("w2", 1);
		obs = w.obs();
		el = eligible(&obs, payer);
	}
	if el.len() < nin {
		skip!("funds");
	}
	let b1 = w.refresh(payer, 1);
	let b2 = w.refresh(payee, 1);
	ev["before"] = json!({ payer: info_of(&b1), payee: info_of(&b2) });
	let tip = obs["height"].as_u64().unwrap_or(0);

	// ---- 1. the amount that gives the selection the requested shape
	let total: u64 = el.iter().take(nin).map(|x| x.1).sum();
	let nout = nch.max(1);
	let fee_nochange = nin as u64 + 21 + 3;
	let fee_change = nin as u64 + 21 * (nch + 1) + 3;
	let arg_amt: u64 = if nch == 0 {
		if incfee {
			total
		} else {
			total - fee_nochange
		}
	} else {
		let base = if nin >= 2 { el[0..nin - 1].iter().map(|x| x.1).sum::<u64>() + 1000 } else { 1000 };
		let change = if incfee { total - base } else { total - base - fee_change };
		// an invoice whose amount is altered on the way shifts the payer's change by one unit
		let up = ["pre_amt_plus", "cc_amt_plus", "cc_both_rev"].contains(&class.as_str());
		let down = ["pre_amt_minus", "cc_amt_minus", "cc_both"].contains(&class.as_str());
		let shift: u64 = if invoice && up { 1 } else if invoice && down { nch - 1 } else { 0 };
		base + ((change + nch - shift % nch) % nch)
	};

	// ---- 2. initiation [+ lock] and the counterparty's step
	let name = w.new_slate_name();
	let mut env = tamper::Env {
		fee: 0,
		amount: 0,
		fin_part: None,
		other_id: None,
		stale_sig: ctl.stale_sig,
		tip,
		unit: U,
		fwd: None,
		invoice,
	};
	// consistent counterparty: the request is altered AND the reply comes back non-compact (echo)
	let is_cc = stage == "pre" && class.starts_with("cc_");
	let mut pre_wire = true;
	let reply_stage = if invoice { "I2" } else { "S2" };
	let mut agreed = json!({});
	let deal;
	let mut rout: Vec<Value> = vec![];
	if !invoice {
		let mut a = json!({"amt": arg_amt, "minconf": 1, "nchange": nout, "incfee": incfee, "late": late});
		if proof {
			a["proof"] = json!(payee);
		}
		let i = w.init_send(payer, &name, &a);
		steps.push(json!({"init_send": i["res"], "detail": i["detail"]}));
		if i["res"] != "ok" {
			skip!("init");
		}
		agreed = json!({"amt": i["ret"]["amt"], "fee": i["ret"]["fee"]});
		obs = w.obs();
		deal = ctx_deal(&obs, payer, &name);
		if !late {
			let l = w.lock(payer, &name, "S1", 0);
			steps.push(json!({"lock": l["res"], "detail": l["detail"]}));
			if l["res"] != "ok" {
				skip!("lock");
			}
		}
		let s1 = w.pick(&name, "S1", 0).unwrap();
		env.amount = s1.amount;
		env.fee = s1.fee_fields.fee();
		let mut v1 = to_v4(&s1);
		env.fin_part = v1.sigs.get(0).cloned();
		let fwd = if stage == "pre" {
			if let Err(e) = tamper::apply(&class, &mut v1, &env) {
				// undo the reservation before giving up on the case
				let _ = w.cancel(payer, None, Some(&name));
				skip!(format!("tamper:{}", e));
			}
			let (sl, wire) = tamper::deliver(&v1);
			pre_wire = wire;
			Some(sl)
		} else {
			None
		};
		env.fwd = Some((v1.amt, v1.fee));
		let r = w.receive(payee, &name, "", fwd);
		steps.push(json!({"receive": r["res"], "detail": r["detail"]}));
		if r["res"] != "ok" {
			ev["run"] = json!("noreply");
			ev["steps"] = json!(steps);
			cleanup(w, &mut ev, &name, payer, payee, None, false);
			return ev;
		}
		obs = w.obs();
		for (id, ty, _) in entries(&obs, payee, &name) {
			if ty == "TxReceived" {
				rout.extend(outs_of(&obs, payee, id, "Unconfirmed"));
			}
		}
	} else {
		let a = json!({"amt": arg_amt});
		let i = w.issue_invoice(payee, &name, &a);
		steps.push(json!({"issue_invoice": i["res"], "detail": i["detail"]}));
		if i["res"] != "ok" {
			skip!("issue");
		}
		obs = w.obs();
		let ictx = ctx_deal(&obs, payee, &name);
		if let Some(ic) = &ictx {
			rout = ic["outs"].as_array().cloned().unwrap_or_default();
		}
		let i1 = w.pick(&name, "I1", 0).unwrap();
		env.amount = i1.amount;
		let mut v1 = to_v4(&i1);
		env.fin_part = v1.sigs.get(0).cloned();
		let fwd = if stage == "pre" {
			if let Err(e) = tamper::apply(&class, &mut v1, &env) {
				cleanup(w, &mut ev, &name, payer, payee, None, false);
				skip!(format!("tamper:{}", e));
			}
			let (sl, wire) = tamper::deliver(&v1);
			pre_wire = wire;
			Some(sl)
		} else {
			None
		};
		env.fwd = Some((v1.amt, v1.fee));
		let pa = json!({"minconf": 1, "nchange": nout});
		let p = w.process_invoice(payer, &name, &pa, fwd);
		steps.push(json!({"process_invoice": p["res"], "detail": p["detail"]}));
		if p["res"] != "ok" {
			ev["run"] = json!("noreply");
			ev["steps"] = json!(steps);
			cleanup(w, &mut ev, &name, payer, payee, None, false);
			return ev;
		}
		agreed = json!({"amt": i["ret"]["amt"], "fee": p["ret"]["fee"]});
		obs = w.obs();
		// the payer's context; in a self-invoice it also lists the issuer's output
		deal = ctx_deal(&obs, payer, &name).map(|mut d| {
			let rn: Vec<String> = rout.iter().map(|x| s(&x["n"])).collect();
			let outs: Vec<Value> = d["outs"].as_array().cloned().unwrap_or_default().into_iter().filter(|o| !rn.contains(&s(&o["n"]))).collect();
			d["outs"] = json!(outs);
			d
		});
		let l = w.lock(payer, &name, "I2", 0);
		steps.push(json!({"lock": l["res"], "detail": l["detail"]}));
		if l["res"] != "ok" {
			ev["run"] = json!("skip:lock");
			ev["steps"] = json!(steps);
			cleanup(w, &mut ev, &name, payer, payee, None, false);
			return ev;
		}
		env.fee = p["ret"]["fee"].as_u64().unwrap_or(0) * U;
	}
	ev["agreed"] = agreed;
	ev["deal"] = deal.unwrap_or(json!({"ins": [], "outs": [], "amt": -1, "fee": -1, "late": false}));
	ev["rout"] = json!(rout);
	ev["pre_wire"] = json!(pre_wire);

	// ---- 3. the reply and its alteration
	let reply = w.pick(&name, reply_stage, 0).unwrap();
	let mut v2 = to_v4(&reply);
	let genuine_sig = v2.sigs.get(0).and_then(|p| p.part);
	let mut other: Option<String> = None;
	if class == "id_other" || class2 == "id_other" {
		// a second pending transaction of the finalizing wallet
		let on = w.new_slate_name();
		let r = if invoice {
			w.issue_invoice(finw, &on, &json!({"amt": 777}))
		} else {
			w.init_send(finw, &on, &json!({"amt": 777, "minconf": 1, "nchange": 1}))
		};
		steps.push(json!({"other": r["res"]}));
		env.other_id = w.slates.get(&on).and_then(|r| r.id);
		other = Some(on);
	}
	let mut post_wire = true;
	let delivered = if stage == "post" || class2 != "none" || is_cc {
		let first = if stage == "post" {
			tamper::apply(&class, &mut v2, &env)
		} else if is_cc {
			tamper::apply("echo", &mut v2, &env)
		} else {
			Ok(())
		};
		let both = first.and_then(|_| if class2 != "none" { tamper::apply(&class2, &mut v2, &env) } else { Ok(()) });
		if let Err(e) = both {
			ev["run"] = json!(format!("skip:tamper:{}", e));
			ev["steps"] = json!(steps);
			cleanup(w, &mut ev, &name, payer, payee, other.as_deref(), false);
			return ev;
		}
		let (sl, wire) = tamper::deliver(&v2);
		post_wire = wire;
		sl
	} else {
		tamper::deliver(&v2).0
	};
	ev["post_wire"] = json!(post_wire);
	ev["msg"] = json!({"feat": delivered.kernel_features, "lock": delivered.kernel_features_args.as_ref().map(|a| a.lock_height).unwrap_or(0),
		"hasargs": delivered.kernel_features_args.is_some()});
	ev["run"] = json!("ok");

	// ---- 4. finalize with the altered reply
	let genuine = tamper::deliver(&to_v4(&reply)).0;
	let f = w.finalize(finw, &name, reply_stage, 0, Some(delivered), false);
	ev["fin"] = json!({"res": f["res"], "detail": f["detail"], "state": f["ret"]["state"]});
	obs = w.obs();
	ev["resv"] = reservation(&obs, payer, &name, &rout);
	if ctl.stale_sig.is_none() {
		ctl.stale_sig = genuine_sig;
	}
	let by_slate = flow != "self" && flow != "invself";
	ev["cancel_by"] = json!(if by_slate { "slate" } else { "id" });
	if f["res"] == "ok" {
		let mut d = json!({});
		success(w, &mut d, &f, &obs, &name, payer, payee, finw, other.as_deref());
		for k in ["tx", "chain", "after", "cleanup", "abandon"].iter() {
			if !d[*k].is_null() {
				ev[*k] = d[*k].clone();
			}
		}
	} else if c["retry"].as_bool().unwrap_or(false) {
		// ---- 5. the refused reply is followed by the one the counterparty really sent
		let f2 = w.finalize(finw, &name, reply_stage, 0, Some(genuine), false);
		let mut d = json!({"fin": {"res": f2["res"], "detail": f2["detail"], "state": f2["ret"]["state"]}});
		obs = w.obs();
		d["resv"] = reservation(&obs, payer, &name, &rout);
		if f2["res"] == "ok" {
			success(w, &mut d, &f2, &obs, &name, payer, payee, finw, other.as_deref());
			ev["after"] = d["after"].clone();
			if d["abandon"] == true {
				ev["abandon"] = json!(true);
			}
		} else {
			cleanup(w, &mut ev, &name, payer, payee, other.as_deref(), by_slate);
		}
		ev["retry"] = d;
	} else {
		cleanup(w, &mut ev, &name, payer, payee, other.as_deref(), by_slate);
	}
	ev["steps"] = json!(steps);
	ev["o"] = project(&ev, &ev, unrep0, w.unrep.get());
	if !ev["retry"].is_null() {
		let d = ev["retry"].clone();
		ev["o2"] = project(&ev, &d, unrep0, w.unrep.get());
	}
	ev
}

/// what the payer's store holds for the slate right now: every output Locked / Unconfirmed under ANY
/// TxSent entry that carries the slate id, and the number of such (live) entries
fn reservation(obs: &Value, payer: &str, name: &str, rout: &[Value]) -> Value {
	let mut rins = vec![];
	let mut rchg = vec![];
	let mut nsent = 0;
	for (id, ty, _) in entries(obs, payer, name) {
		if ty == "TxSent" {
			nsent += 1;
			rins.extend(outs_of(obs, payer, id, "Locked"));
			rchg.extend(outs_of(obs, payer, id, "Unconfirmed"));
		}
	}
	let rn: Vec<String> = rout.iter().map(|x| s(&x["n"])).collect();
	let rchg: Vec<Value> = rchg.into_iter().filter(|o| !rn.contains(&s(&o["n"]))).collect();
	json!({"ins": rins, "chg": rchg, "nsent": nsent})
}

/// after a finalize that returned a transaction: its facts by name and value, then post, mine into the
/// real chain, refresh; recorded into `d` (tx, chain, after[, cleanup, abandon])
fn success(w: &mut World, d: &mut Value, f: &Value, obs: &Value, name: &str, payer: &str, payee: &str, finw: &str, other: Option<&str>) {
	let body = obs["body"][name].clone();
	let val = |n: &Value| -> Value { obs["reg"].get(n.as_str().unwrap_or("")).map(|r| r["v"].clone()).unwrap_or(json!(-1)) };
	let ins: Vec<Value> = body["ins"].as_array().cloned().unwrap_or_default();
	let outs: Vec<Value> = body["outs"].as_array().cloned().unwrap_or_default();
	let inv: Vec<Value> = ins.iter().map(|n| val(n)).collect();
	let outv: Vec<Value> = outs.iter().map(|n| val(n)).collect();
	let (nker, kfeat, klock) = match w.slates.get(name).and_then(|r| r.final_tx.as_ref()) {
		Some(tx) => {
			use grin_core::core::KernelFeatures::*;
			let k = tx.kernels();
			let (kf, kl) = match k.get(0).map(|k| k.features) {
				Some(Plain { .. }) => (0, 0),
				Some(Coinbase) => (1, 0),
				Some(HeightLocked { lock_height, .. }) => (2, lock_height),
				Some(NoRecentDuplicate { relative_height, .. }) => (3, u64::from(relative_height)),
				None => (-1, 0),
			};
			(k.len(), kf, kl)
		}
		None => (0, -1, 0),
	};
	d["tx"] = json!({"ins": ins, "outs": outs, "inv": inv, "outv": outv, "fee": body["fee"], "nker": nker, "kfeat": kfeat, "klock": klock,
		"valid": f["ret"]["valid"], "stored_equal": f["ret"]["stored_equal"]});
	let p = w.post(name);
	let m = w.mine(None, &[name.to_string()]);
	let a1 = w.refresh(payer, 1);
	let a2 = w.refresh(payee, 1);
	let o2 = w.obs();
	let utxo: Vec<String> = o2["utxo"].as_array().cloned().unwrap_or_default().iter().map(|x| s(x)).collect();
	let outs_in = outs.iter().all(|n| utxo.contains(&s(n)));
	let ins_out = ins.iter().all(|n| !utxo.contains(&s(n)));
	d["chain"] = json!({"post": p["res"], "mined": m["res"], "detail": m["detail"], "outs_unspent": outs_in, "ins_spent": ins_out});
	d["after"] = json!({ payer: info_of(&a1), payee: info_of(&a2) });
	if let Some(on) = other {
		cancel_all(w, finw, on);
	}
	// anything of this slate still pending in the payer after the transaction was mined (outputs left Locked
	// under a second entry, ...) or a refusal by the chain: release it and start afresh
	let left = entries(&o2, payer, name).iter().any(|(_, ty, conf)| !*conf && ty == "TxSent");
	if m["res"] != "ok" || left {
		let c1 = cancel_all(w, payer, name);
		let c2 = if payee != payer { cancel_all(w, payee, name) } else { vec![] };
		d["cleanup"] = json!({"payer": c1, "payee": c2});
		d["abandon"] = json!(true);
	}
}

/// the observed outcome in the vocabulary of SlateAlgebra!FinalTxBroken / StillCancellableBroken:
/// a pure projection of what was recorded above (nothing is decided here)
fn project(ev: &Value, d: &Value, unrep0: u64, unrep1: u64) -> Value {
	let finw = s(&ev["finw"]);
	let nv = |names: &Value, vals: &Value| -> Vec<Value> {
		names
			.as_array()
			.cloned()
			.unwrap_or_default()
			.iter()
			.zip(vals.as_array().cloned().unwrap_or_default().iter())
			.map(|(n, v)| json!({"n": n, "v": v}))
			.collect()
	};
	let ok = d["fin"]["res"] == "ok";
	let tx = if ok {
		let ch = &d["chain"];
		json!({"ins": nv(&d["tx"]["ins"], &d["tx"]["inv"]), "outs": nv(&d["tx"]["outs"], &d["tx"]["outv"]),
			"fee": d["tx"]["fee"].as_i64().unwrap_or(-1), "nker": d["tx"]["nker"].as_i64().unwrap_or(-1),
			"kfeat": d["tx"]["kfeat"].as_i64().unwrap_or(-1), "klock": d["tx"]["klock"].as_i64().unwrap_or(-1),
			"valid": d["tx"]["valid"].as_bool().unwrap_or(false), "stored_equal": d["tx"]["stored_equal"].as_bool().unwrap_or(false),
			"chain_ok": ch["post"] == "ok" && ch["mined"] == "ok" && ch["outs_unspent"] == true && ch["ins_spent"] == true})
	} else {
		json!({"ins": [], "outs": [], "fee": -1, "nker": 0, "kfeat": -1, "klock": 0, "valid": false, "stored_equal": false, "chain_ok": false})
	};
	let known = ev["deal"]["late"] == false && ev["deal"]["amt"].as_i64().unwrap_or(-1) >= 0;
	let deal = json!({"ins": ev["deal"]["ins"], "chg": ev["deal"]["outs"], "rout": ev["rout"],
		"amt": ev["agreed"]["amt"].as_i64().unwrap_or(-1), "fee": ev["agreed"]["fee"].as_i64().unwrap_or(-1), "known": known});
	let cancel: Vec<Value> = ev["cancel"]["fin"].as_array().cloned().unwrap_or_default().iter().map(|x| x["res"].clone()).collect();
	let pending_after = ev["pending"]["after"].as_u64().unwrap_or(0);
	json!({"res": d["fin"]["res"], "detail": d["fin"]["detail"].as_str().unwrap_or(""), "tx": tx, "deal": deal, "resv": d["resv"],
		"cancel": cancel, "pending_after": pending_after,
		"before": ev["before"][finw.as_str()], "after": ev["after"][finw.as_str()], "unrep": unrep1.saturating_sub(unrep0)})
}

/// cancel every pending (unconfirmed, not cancelled) entry of slate `name` in `wn`, by log id
fn cancel_all(w: &mut World, wn: &str, name: &str) -> Vec<Value> {
	let obs = w.obs();
	let mut res = vec![];
	for (id, ty, conf) in entries(&obs, wn, name) {
		if !conf && (ty == "TxSent" || ty == "TxReceived" || ty == "TxReverted") {
			let r = w.cancel(wn, Some(id), None);
			res.push(json!({"id": id, "ty": ty, "res": r["res"], "detail": r["detail"]}));
		}
	}
	res
}

/// after a failed finalize (or an exchange that could not be completed): cancel what is
/// pending, refresh, record the balances
fn cleanup(w: &mut World, ev: &mut Value, name: &str, payer: &str, payee: &str, other: Option<&str>, by_slate: bool) {
	let finw = s(&ev["finw"]);
	let otherw = if finw == payer { payee } else { payer };
	// the cancel that is judged: by slate id where the wallet keeps one entry per slate, by log id otherwise
	let obs0 = w.obs();
	let live = |obs: &Value, wn: &str| -> usize {
		entries(obs, wn, name).iter().filter(|(_, ty, conf)| !*conf && (ty == "TxSent" || ty == "TxReceived")).count()
	};
	let pending_before = live(&obs0, &finw);
	let cf = if !by_slate {
		cancel_all(w, &finw, name)
	} else if pending_before > 0 {
		let r = w.cancel(&finw, None, Some(name));
		vec![json!({"id": -1, "ty": "by-slate-id", "res": r["res"], "detail": r["detail"]})]
	} else {
		vec![]
	};
	// the second pending transaction some cases create is scaffolding of the harness, not part of the slate
	if let Some(on) = other {
		cancel_all(w, &finw, on);
	}
	let af = w.refresh(&finw, 1);
	let obs1 = w.obs();
	let pending_after = live(&obs1, &finw);
	// whatever is left (unjudged): release it so that the world can go on
	let left = cancel_all(w, &finw, name);
	let co = if otherw != finw { cancel_all(w, otherw, name) } else { vec![] };
	let ao = w.refresh(otherw, 1);
	let obs = w.obs();
	let still: Vec<Value> = [payer, payee]
		.iter()
		.flat_map(|wn| entries(&obs, wn, name).into_iter().map(move |(id, ty, conf)| json!({"w": wn, "id": id, "ty": ty, "conf": conf})))
		.collect();
	ev["cancel"] = json!({"fin": cf, "other": co, "left": left});
	ev["pending"] = json!({"before": pending_before, "after": pending_after});
	ev["entries_after"] = json!(still);
	let mut after = json!({});
	after[otherw] = info_of(&ao);
	after[finw.as_str()] = info_of(&af);
	ev["after"] = after;
	let bad = |v: &Vec<Value>| v.iter().any(|x| x["res"] != "ok");
	if bad(&cf) || bad(&co) || !left.is_empty() || ev["after"] != ev["before"] {
		ev["abandon"] = json!(true);
	}
}

/// Is the world still usable?  (its directories exist, an empty block can be mined, both wallets
/// refresh.)  Used only to tell a refusal by the code under test from a broken environment
/// (e.g. the scratch directory was removed under the running process): such a case is reported as
/// `skip:env` and re-run by the runner, never judged.
fn world_intact(w: &mut World) -> bool {
	let mut ok = std::path::Path::new(&w.dir).join(".grin").exists();
	for (_, h) in w.wallets.iter() {
		ok = ok && std::path::Path::new(&h.dir).join("wallet_data").exists();
	}
	if !ok {
		return false;
	}
	let m = w.mine(None, &[]);
	let r1 = w.refresh("w1", 1);
	let r2 = w.refresh("w2", 1);
	m["res"] == "ok" && r1["res"] == "ok" && r2["res"] == "ok"
}

/// TLC's JSON reader has no null: absent values become ""
fn denull(v: &mut Value) {
	match v {
		Value::Null => *v = json!(""),
		Value::Array(a) => a.iter_mut().for_each(denull),
		Value::Object(o) => o.iter_mut().for_each(|(_, x)| denull(x)),
		_ => {}
	}
}

/// every second group of cases runs through the API structs the wallet binary serves (World::via_api)
fn new_world(dir: &str, via_api: bool) -> World {
	let mut w = World::new(dir, U);
	w.via_api = via_api;
	w.create_wallet("w1", false, None);
	w.create_wallet("w2", false, None);
	for _ in 0..4 {
		w.mine(Some("w1"), &[]);
	}
	for _ in 0..3 {
		w.mine(None, &[]);
	}
	w.refresh("w1", 1);
	w.refresh("w2", 1);
	w
}

fn run_group(dir: &str, g: usize, cases: &[Value]) -> Vec<String> {
	let mut out = vec![];
	let mut gen = 0;
	let mut w = new_world(&format!("{}_{}", dir, gen), g % 2 == 1);
	let mut ctl = Ctl { stale_sig: None };
	for c in cases {
		let r = std::panic::catch_unwind(std::panic::AssertUnwindSafe(|| run_case(&mut w, c, &mut ctl)));
		let (mut line, broken) = match r {
			Ok(mut v) => {
				let run = s(&v["run"]);
				let skipped = run.starts_with("skip:") && !run.starts_with("skip:tamper:");
				let odd = v["abandon"] == true || skipped || (v["fin"]["res"] == "ok" && v["tx"]["stored_equal"] != true);
				if odd && !world_intact(&mut w) {
					v["run_was"] = json!(run);
					v["run"] = json!("skip:env");
				}
				(v, odd)
			}
			Err(p) => (json!({"ev": "case", "c": c, "run": format!("skip:harness-panic:{}", panic_msg(&p))}), true),
		};
		line["g"] = json!(g);
		denull(&mut line);
		out.push(line.to_string());
		if broken {
			let old = w.dir.clone();
			drop(w);
			let _ = std::fs::remove_dir_all(&old);
			gen += 1;
			w = new_world(&format!("{}_{}", dir, gen), g % 2 == 1);
			ctl = Ctl { stale_sig: None };
		}
	}
	let old = w.dir.clone();
	drop(w);
	let _ = std::fs::remove_dir_all(&old);
	out
}

fn main() {
	let args: Vec<String> = std::env::args().collect();
	let mut inp = String::new();
	let mut outp = String::new();
	let mut jobs = 12usize;
	let mut budget_ms: u64 = 0;
	let mut i = 1;
	while i < args.len() {
		match args[i].as_str() {
			"--in" => {
				inp = args[i + 1].clone();
				i += 1;
			}
			"--out" => {
				outp = args[i + 1].clone();
				i += 1;
			}
			"--jobs" => {
				jobs = args[i + 1].parse().unwrap();
				i += 1;
			}
			"--budget-ms" => {
				budget_ms = args[i + 1].parse().unwrap();
				i += 1;
			}
			_ => {}
		}
		i += 1;
	}
	// panics of the code under test are data
	std::panic::set_hook(Box::new(|_| {}));
	let v: Value = serde_json::from_str(&std::fs::read_to_string(&inp).expect("read input")).expect("json");
	let groups: Vec<Vec<Value>> = v["groups"]
		.as_array()
		.expect("groups")
		.iter()
		.map(|g| g.as_array().cloned().unwrap_or_default())
		.collect();
	let root = vharness::driver::tmp_root();
	let started = std::time::Instant::now();
	let next = Arc::new(AtomicUsize::new(0));
	let results: Arc<Mutex<Vec<Option<Vec<String>>>>> = Arc::new(Mutex::new(vec![None; groups.len()]));
	let groups = Arc::new(groups);
	let mut handles = vec![];
	for j in 0..jobs.max(1) {
		let next = next.clone();
		let results = results.clone();
		let groups = groups.clone();
		let root = root.clone();
		handles.push(
			std::thread::Builder::new()
				.stack_size(64 << 20)
				.spawn(move || loop {
					let g = next.fetch_add(1, Ordering::SeqCst);
					if g >= groups.len() {
						break;
					}
					let dir = format!("{}/j{}_g{}", root, j, g);
					if budget_ms > 0 && started.elapsed().as_millis() as u64 > budget_ms {
						let lines = groups[g]
							.iter()
							.map(|c| json!({"ev": "case", "c": c, "g": g, "run": "skip:budget"}).to_string())
							.collect();
						results.lock().unwrap()[g] = Some(lines);
						continue;
					}
					let lines = match std::panic::catch_unwind(std::panic::AssertUnwindSafe(|| run_group(&dir, g, &groups[g]))) {
						Ok(l) => l,
						Err(p) => groups[g]
							.iter()
							.map(|c| json!({"ev": "case", "c": c, "g": g, "run": format!("skip:harness-panic:{}", panic_msg(&p))}).to_string())
							.collect(),
					};
					results.lock().unwrap()[g] = Some(lines);
				})
				.unwrap(),
		);
	}
	for h in handles {
		let _ = h.join();
	}
	let _ = std::fs::remove_dir_all(&root);
	let mut f = std::io::BufWriter::new(std::fs::File::create(&outp).expect("create out"));
	let mut n = 0;
	for r in results.lock().unwrap().iter_mut() {
		if let Some(l) = r.take() {
			for x in l {
				writeln!(f, "{}", x).unwrap();
				n += 1;
			}
		}
	}
	eprintln!("replay_tamper: {} groups, {} cases", groups.len(), n);
}
