//! An INDEPENDENT opener for wallet.seed files: its own JSON field access, hex
//! decoding and PBKDF2-HMAC-SHA512 (written out over sha2::Sha512), and
//! ChaCha20-Poly1305 from ring.  Format (impls/src/lifecycle/seed.rs):
//!   {"encrypted_seed": hex(ciphertext || tag16), "salt": hex(8), "nonce": hex(12)}
//!   key = PBKDF2-HMAC-SHA512(password, salt, 100 iterations, 32 bytes), AAD empty.
//! Nothing of grin_wallet_impls is used here.
use ring::aead;
use sha2::{Digest, Sha512};

pub fn unhex(s: &str) -> Option<Vec<u8>> {
	let b = s.as_bytes();
	if b.len() % 2 != 0 {
		return None;
	}
	let v = |c: u8| -> Option<u8> {
		match c {
			b'0'..=b'9' => Some(c - b'0'),
			b'a'..=b'f' => Some(c - b'a' + 10),
			b'A'..=b'F' => Some(c - b'A' + 10),
			_ => None,
		}
	};
	let mut out = Vec::with_capacity(b.len() / 2);
	for i in (0..b.len()).step_by(2) {
		out.push(v(b[i])? * 16 + v(b[i + 1])?);
	}
	Some(out)
}

pub fn hex(b: &[u8]) -> String {
	let mut s = String::with_capacity(b.len() * 2);
	for x in b {
		s.push_str(&format!("{:02x}", x));
	}
	s
}

fn hmac_sha512(key: &[u8], msg: &[u8]) -> [u8; 64] {
	const B: usize = 128;
	let mut k = [0u8; B];
	if key.len() > B {
		let d = Sha512::digest(key);
		k[..64].copy_from_slice(&d);
	} else {
		k[..key.len()].copy_from_slice(key);
	}
	let mut ipad = [0x36u8; B];
	let mut opad = [0x5cu8; B];
	for i in 0..B {
		ipad[i] ^= k[i];
		opad[i] ^= k[i];
	}
	let mut h = Sha512::new();
	h.update(&ipad[..]);
	h.update(msg);
	let inner = h.finalize();
	let mut h = Sha512::new();
	h.update(&opad[..]);
	h.update(&inner);
	let mut out = [0u8; 64];
	out.copy_from_slice(&h.finalize());
	out
}

/// PBKDF2-HMAC-SHA512, dkLen = 32 (one block)
pub fn pbkdf2_sha512_32(password: &[u8], salt: &[u8], iterations: u32) -> [u8; 32] {
	let mut m = salt.to_vec();
	m.extend_from_slice(&1u32.to_be_bytes());
	let mut u = hmac_sha512(password, &m);
	let mut t = u;
	for _ in 1..iterations {
		u = hmac_sha512(password, &u);
		for i in 0..64 {
			t[i] ^= u[i];
		}
	}
	let mut key = [0u8; 32];
	key.copy_from_slice(&t[..32]);
	key
}

/// what the bytes of a seed file are, structurally
pub enum Parsed {
	/// not a complete {encrypted_seed, salt, nonce} JSON object with hex fields
	Unparsable,
	File { ct: Vec<u8>, salt: Vec<u8>, nonce: Vec<u8> },
}

pub fn parse(content: &[u8]) -> Parsed {
	let v: serde_json::Value = match serde_json::from_slice(content) {
		Ok(v) => v,
		Err(_) => return Parsed::Unparsable,
	};
	let f = |n: &str| v.get(n).and_then(|x| x.as_str()).and_then(unhex);
	match (f("encrypted_seed"), f("salt"), f("nonce")) {
		(Some(ct), Some(salt), Some(nonce)) => Parsed::File { ct, salt, nonce },
		_ => Parsed::Unparsable,
	}
}

/// Ok(seed bytes) iff the file authenticates under `password`
pub fn open(p: &Parsed, password: &str) -> Option<Vec<u8>> {
	let (ct, salt, nonce) = match p {
		Parsed::Unparsable => return None,
		Parsed::File { ct, salt, nonce } => (ct, salt, nonce),
	};
	if nonce.len() != 12 {
		return None;
	}
	let key = pbkdf2_sha512_32(password.as_bytes(), salt, 100);
	let mut n = [0u8; 12];
	n.copy_from_slice(nonce);
	let k = aead::LessSafeKey::new(aead::UnboundKey::new(&aead::CHACHA20_POLY1305, &key).ok()?);
	let mut buf = ct.clone();
	let pt = k
		.open_in_place(aead::Nonce::assume_unique_for_key(n), aead::Aad::empty(), &mut buf)
		.ok()?;
	Some(pt.to_vec())
}
