//! replay_seed --in schedules.json --out events.ndjson [--jobs N]
//!
//! Executes the crash schedules TLC generated from spec/MCSeedFile.tla on the REAL
//! `DefaultLCProvider::{create_wallet, change_password, recover_from_mnemonic}`:
//! the hook registry `grin_wallet_util::verif::set_handler` interrupts the call at
//! hook hit k (panic with `CrashSentinel` = crash; return true = the file operation
//! fails; "torn" = crash after the write, then the seed file is cut short), and
//! after every call the wallet directory is inspected
//!   * with an independent opener (opener.rs) for every password of the schedule, and
//!   * with the code's own opener (`open_wallet` / `get_mnemonic` on a copy of the file).
//! It only records: spec/TraceSeedFile.tla judges.
//!
//! schedules.json: {"seed": n, "npws": 3, "b0": 0, "behaviours": [[event,..],..], "trunc": [[seedlen, pwkind],..]}
mod opener;

use grin_keychain::{mnemonic, ExtKeychain, Keychain, SwitchCommitmentType};
use grin_util::ZeroingString;
use grin_wallet_impls::DefaultLCProvider;
use grin_wallet_libwallet::WalletLCProvider;
use grin_wallet_util::verif;
use rand::rngs::StdRng;
use rand::{Rng, SeedableRng};
use serde_json::{json, Map, Value};
use std::cell::RefCell;
use std::collections::BTreeMap;
use std::io::Write;
use std::panic::{catch_unwind, AssertUnwindSafe};
use std::rc::Rc;
use std::sync::atomic::{AtomicUsize, Ordering};
use std::sync::{Arc, Mutex};
use vharness::node::{self, DirectNode};
use vharness::world::{panic_msg, set_thread_globals, U};

type LC = DefaultLCProvider<'static, DirectNode, ExtKeychain>;

const PW_KINDS: [&str; 4] = ["empty", "ascii", "unicode", "long"];
const M4_LENS: [usize; 5] = [16, 20, 24, 28, 32];
const ODD_LENS: [usize; 12] = [17, 18, 19, 21, 22, 23, 25, 26, 27, 29, 30, 31];

fn concrete_pw(kind: &str) -> String {
	match kind {
		"empty" => "".to_string(),
		"ascii" => "correct horse 42!".to_string(),
		"unicode" => "пароль-密碼-🔑-é".to_string(),
		"long" => {
			let mut s = String::new();
			while s.len() < 1024 {
				s.push_str("0123456789abcdef-Long-Password/");
			}
			s.truncate(1024);
			s
		}
		_ => "never-used-password".to_string(),
	}
}

/// per worker thread: one node client (never called by the life-cycle code) and a probe directory
struct Worker {
	node: DirectNode,
	probe: String,
}

fn new_lc(w: &Worker, dir: &str) -> LC {
	let mut lc = LC::new(w.node.clone());
	lc.set_top_level_directory(dir).unwrap();
	lc
}

fn root_key_hex(seed: &[u8]) -> String {
	let kc = ExtKeychain::from_seed(seed, grin_core::global::is_testnet()).unwrap();
	let k = kc
		.derive_key(0, &ExtKeychain::root_key_id(), SwitchCommitmentType::Regular)
		.unwrap();
	opener::hex(&k.0)
}

/// one behaviour = one wallet directory
struct Beh {
	dir: String,
	/// password name -> (kind, concrete)
	pws: BTreeMap<String, (String, String)>,
	/// seed name -> bytes (given as phrase, or learnt after a random create)
	seeds: BTreeMap<String, Vec<u8>>,
	len4: BTreeMap<String, bool>,
	rng: StdRng,
	salt: u64,
	/// cache: seed name -> hex of the root key the keychain derives from it
	roots: RefCell<BTreeMap<String, String>>,
	/// seeds the independent opener could not read (a changed file format): named by the root
	/// key the code's own opener derived right after the create call that drew them
	learnt_roots: RefCell<BTreeMap<String, String>>,
	/// probe results of a file content under a password (a backup that did not change is not
	/// probed again); dropped whenever a seed gets its name
	cache: RefCell<std::collections::HashMap<(Vec<u8>, String), (String, String, String)>>,
	cache_names: RefCell<usize>,
}

impl Beh {
	fn seed_index(name: &str) -> u64 {
		name.trim_start_matches('s').parse().unwrap_or(0)
	}
	fn len_for(&self, name: &str, len4: bool) -> usize {
		let i = (self.salt + Self::seed_index(name) * 7) as usize;
		if len4 {
			M4_LENS[i % M4_LENS.len()]
		} else {
			ODD_LENS[i % ODD_LENS.len()]
		}
	}
	/// bytes of a seed that is typed in as a phrase (generated on first use)
	fn phrase_seed(&mut self, name: &str) -> Vec<u8> {
		if let Some(b) = self.seeds.get(name) {
			return b.clone();
		}
		let n = self.len_for(name, true);
		let b: Vec<u8> = (0..n).map(|_| self.rng.gen::<u8>()).collect();
		self.seeds.insert(name.to_string(), b.clone());
		self.len4.insert(name.to_string(), true);
		b
	}
	fn name_of_seed(&self, bytes: &[u8]) -> Option<String> {
		self.seeds
			.iter()
			.find(|(_, b)| &b[..] == bytes)
			.map(|(n, _)| n.clone())
			.or_else(|| {
				if self.learnt_roots.borrow().is_empty() {
					None
				} else {
					self.learnt_roots.borrow().get(&root_key_hex(bytes)).cloned()
				}
			})
	}
	fn pw(&self, name: &str) -> String {
		self.pws.get(name).map(|x| x.1.clone()).unwrap_or_else(|| concrete_pw("wrong"))
	}
}

fn file_name_abs(fname: &str) -> Option<String> {
	if fname == "wallet.seed" {
		Some("seed".into())
	} else if fname == "wallet.seed.bak" {
		Some("bak0".into())
	} else if let Some(n) = fname.strip_prefix("wallet.seed.bak.") {
		n.parse::<u32>().ok().map(|n| format!("bak{}", n))
	} else {
		None
	}
}

/// the code's own opener on `content` placed as wallet.seed of the probe directory
/// returns (open_wallet result, get_mnemonic result): name of the seed | "err" | "panic" | "other"
fn code_open(w: &Worker, b: &Beh, content: &[u8], pw: &str) -> (String, String) {
	let (a, m, _) = code_open_root(w, b, content, pw);
	(a, m)
}
/// as code_open, plus the hex of the root key when open_wallet succeeded
fn code_open_root(w: &Worker, b: &Beh, content: &[u8], pw: &str) -> (String, String, Option<String>) {
	let data = format!("{}/wallet_data", w.probe);
	std::fs::create_dir_all(&data).unwrap();
	std::fs::write(format!("{}/wallet.seed", data), content).unwrap();
	let known_roots: Vec<(String, String)> = b
		.seeds
		.iter()
		.map(|(n, s)| {
			let mut c = b.roots.borrow_mut();
			(n.clone(), c.entry(n.clone()).or_insert_with(|| root_key_hex(s)).clone())
		})
		.collect();
	let learnt = b.learnt_roots.borrow().clone();
	let root_seen: RefCell<Option<String>> = RefCell::new(None);
	let r = catch_unwind(AssertUnwindSafe(|| {
		let mut lc = new_lc(w, &w.probe);
		match lc.open_wallet(None, ZeroingString::from(pw), false, false) {
			Err(_) => "err".to_string(),
			Ok(_) => {
				let k = lc
					.wallet_inst()
					.and_then(|wi| wi.keychain(None))
					.and_then(|kc| {
						kc.derive_key(0, &ExtKeychain::root_key_id(), SwitchCommitmentType::Regular)
							.map_err(|e| e.into())
					});
				match k {
					Ok(k) => {
						let h = opener::hex(&k.0);
						*root_seen.borrow_mut() = Some(h.clone());
						known_roots
							.iter()
							.find(|(_, r)| *r == h)
							.map(|(n, _)| n.clone())
							.or_else(|| learnt.get(&h).cloned())
							.unwrap_or_else(|| "other".to_string())
					}
					Err(_) => "err:keychain".to_string(),
				}
			}
		}
	}));
	let ow = r.unwrap_or_else(|_| "panic".to_string());
	let r = catch_unwind(AssertUnwindSafe(|| {
		let lc = new_lc(w, &w.probe);
		match lc.get_mnemonic(None, ZeroingString::from(pw)) {
			Err(_) => "err".to_string(),
			Ok(p) => {
				let phrase: String = (&*p).to_string();
				match mnemonic::to_entropy(&phrase) {
					Ok(bytes) => b.name_of_seed(&bytes).unwrap_or_else(|| "other".to_string()),
					Err(_) => "other".to_string(),
				}
			}
		}
	}));
	let mn = r.unwrap_or_else(|_| "panic".to_string());
	let root = root_seen.borrow().clone();
	(ow, mn, root)
}

/// inspect the wallet directory: every wallet.seed* file with both openers under every password
fn probe_dir(w: &Worker, b: &mut Beh, learn: Option<(&str, &str)>) -> Value {
	let data = format!("{}/wallet_data", b.dir);
	let mut files = Map::new();
	let mut entries: Vec<(String, Vec<u8>)> = vec![];
	if let Ok(rd) = std::fs::read_dir(&data) {
		for e in rd.flatten() {
			let fname = e.file_name().to_string_lossy().to_string();
			if let Some(abs) = file_name_abs(&fname) {
				if let Ok(c) = std::fs::read(e.path()) {
					entries.push((abs, c));
				}
			}
		}
	}
	entries.sort();
	// a wallet created without a phrase draws its own seed: learn its bytes (and so its
	// name) from the independent opener under the password the call was given
	if let Some((sname, pwname)) = learn {
		if !b.seeds.contains_key(sname) {
			if let Some((_, c)) = entries.iter().find(|(n, _)| n == "seed") {
				let p = opener::parse(c);
				if let Some(bytes) = opener::open(&p, &b.pw(pwname)) {
					if b.name_of_seed(&bytes).is_none() {
						b.seeds.insert(sname.to_string(), bytes);
					}
				} else if !b.learnt_roots.borrow().values().any(|n| n == sname) {
					// the independent opener is blind (another file format?): name the seed by
					// the root key the code's opener derives under the password of the call
					let (_, _, root) = code_open_root(w, b, c, &b.pw(pwname));
					if let Some(h) = root {
						let known = b.roots.borrow().values().any(|r| *r == h) || b.learnt_roots.borrow().contains_key(&h);
						if !known {
							b.learnt_roots.borrow_mut().insert(h, sname.to_string());
						}
					}
				}
			}
		}
	}
	let pwnames: Vec<String> = b.pws.keys().cloned().chain(std::iter::once("px".to_string())).collect();
	for (abs, c) in entries.iter() {
		let p = opener::parse(c);
		let parse = match p {
			opener::Parsed::Unparsable => false,
			_ => true,
		};
		let mut indep = Map::new();
		let mut code = Map::new();
		let mut mn = Map::new();
		let names_now = b.seeds.len() + b.learnt_roots.borrow().len();
		if *b.cache_names.borrow() != names_now {
			b.cache.borrow_mut().clear();
			*b.cache_names.borrow_mut() = names_now;
		}
		for pn in pwnames.iter() {
			let pw = b.pw(pn);
			let key = (c.clone(), pn.clone());
			let hit = b.cache.borrow().get(&key).cloned();
			let (r, ow, m) = match hit {
				Some(x) => x,
				None => {
					let r = match opener::open(&p, &pw) {
						None => "err".to_string(),
						Some(bytes) => b.name_of_seed(&bytes).unwrap_or_else(|| "other".to_string()),
					};
					let (ow, m) = code_open(w, b, c, &pw);
					b.cache.borrow_mut().insert(key, (r.clone(), ow.clone(), m.clone()));
					(r, ow, m)
				}
			};
			indep.insert(pn.clone(), json!(r));
			code.insert(pn.clone(), json!(ow));
			mn.insert(pn.clone(), json!(m));
		}
		files.insert(abs.clone(), json!({"len": c.len(), "parse": parse, "indep": indep, "code": code, "mn": mn}));
	}
	Value::Object(files)
}

/// `b0`: offset added to the behaviour index for the rotation of passwords and seed lengths
/// (so that a single replayed behaviour sees the same concrete values as in the run it came from)
fn run_behaviour(w: &Worker, root: &str, beh: &[Value], bid: usize, seed: u64, npws: usize, b0: u64) -> Vec<String> {
	let dir = format!("{}/b{}", root, bid);
	let _ = std::fs::remove_dir_all(&dir);
	// DirExists (spec/SeedFile.tla): the data directory exists
	std::fs::create_dir_all(format!("{}/wallet_data", dir)).unwrap();
	let salt = seed.wrapping_add(bid as u64).wrapping_add(b0);
	let mut pws = BTreeMap::new();
	for i in 0..npws {
		let kind = PW_KINDS[(i + salt as usize) % PW_KINDS.len()];
		pws.insert(format!("p{}", i), (kind.to_string(), concrete_pw(kind)));
	}
	let mut b = Beh {
		dir: dir.clone(),
		pws,
		seeds: BTreeMap::new(),
		len4: BTreeMap::new(),
		rng: StdRng::seed_from_u64(seed.wrapping_mul(1_000_003).wrapping_add(bid as u64).wrapping_add(b0)),
		salt,
		roots: RefCell::new(BTreeMap::new()),
		learnt_roots: RefCell::new(BTreeMap::new()),
		cache: RefCell::new(std::collections::HashMap::new()),
		cache_names: RefCell::new(0),
	};
	let mut out = vec![];
	let pwk: Map<String, Value> = b.pws.iter().map(|(k, v)| (k.clone(), json!(v.0))).collect();
	out.push(json!({"ev": "reset", "b": bid, "res": "ok", "pws": pwk, "files": probe_dir(w, &mut b, None)}).to_string());
	for e in beh {
		let ev = e["ev"].as_str().unwrap_or("").to_string();
		let kind = e["inj"]["kind"].as_str().unwrap_or("none").to_string();
		let k = e["inj"]["k"].as_u64().unwrap_or(0) as usize;
		let hits: Rc<RefCell<Vec<String>>> = Rc::new(RefCell::new(vec![]));
		let h2 = hits.clone();
		let kind2 = kind.clone();
		verif::set_handler(Some(Box::new(move |name: &str| {
			h2.borrow_mut().push(name.to_string());
			let n = h2.borrow().len();
			match kind2.as_str() {
				"crash" if n == k => std::panic::panic_any(verif::CrashSentinel(name.to_string())),
				// crash inside the write at hit k: let the write happen, die at the next
				// hook (or at the end of the call); the file is cut short afterwards
				"torn" if n == k + 1 => std::panic::panic_any(verif::CrashSentinel(name.to_string())),
				"fail" if n == k => true,
				_ => false,
			}
		})));
		let mut seedlen = 0usize;
		let mut learn: Option<(String, String)> = None;
		let r = match ev.as_str() {
			"create" => {
				let sname = e["seed"].as_str().unwrap_or("s0").to_string();
				let phrase = e["phrase"].as_bool().unwrap_or(false);
				let len4 = e["len4"].as_bool().unwrap_or(true);
				let pw = b.pw(e["pw"].as_str().unwrap_or("p0"));
				let (mn, len) = if phrase {
					let bytes = b.phrase_seed(&sname);
					(Some(ZeroingString::from(mnemonic::from_entropy(&bytes).unwrap())), bytes.len())
				} else {
					b.len4.insert(sname.clone(), len4);
					learn = Some((sname.clone(), e["pw"].as_str().unwrap_or("p0").to_string()));
					(None, b.len_for(&sname, len4))
				};
				seedlen = len;
				catch_unwind(AssertUnwindSafe(|| {
					let mut lc = new_lc(w, &dir);
					lc.create_wallet(None, mn, len, ZeroingString::from(pw), false)
				}))
			}
			"chpw" => {
				let old = b.pw(e["old"].as_str().unwrap_or(""));
				let new = b.pw(e["new"].as_str().unwrap_or(""));
				catch_unwind(AssertUnwindSafe(|| {
					let lc = new_lc(w, &dir);
					lc.change_password(None, ZeroingString::from(old), ZeroingString::from(new))
				}))
			}
			"recover" => {
				let valid = e["valid"].as_bool().unwrap_or(true);
				let pw = b.pw(e["pw"].as_str().unwrap_or("p0"));
				let phrase = if valid {
					let bytes = b.phrase_seed(e["seed"].as_str().unwrap_or("s0"));
					seedlen = bytes.len();
					mnemonic::from_entropy(&bytes).unwrap()
				} else {
					"notaword ".repeat(12).trim().to_string()
				};
				catch_unwind(AssertUnwindSafe(|| {
					let lc = new_lc(w, &dir);
					lc.recover_from_mnemonic(ZeroingString::from(phrase), ZeroingString::from(pw))
				}))
			}
			_ => Ok(Ok(())),
		};
		verif::set_handler(None);
		let (mut res, detail) = match r {
			Ok(Ok(())) => ("ok".to_string(), "".to_string()),
			Ok(Err(e)) => ("err".to_string(), format!("{}", e)),
			Err(p) => {
				let m = panic_msg(&p);
				if m.starts_with("CRASH:") {
					("crash".to_string(), m)
				} else {
					("panic".to_string(), m)
				}
			}
		};
		// crash inside the write: cut the seed file short
		let mut torn_t: i64 = -1;
		if kind == "torn" && hits.borrow().len() >= k {
			let p = format!("{}/wallet_data/wallet.seed", dir);
			if let Ok(c) = std::fs::read(&p) {
				if !c.is_empty() {
					let t = b.rng.gen_range(0, c.len());
					std::fs::write(&p, &c[..t]).unwrap();
					torn_t = t as i64;
					if res == "ok" || res == "err" {
						// the call ran to its end after the write: the process is considered dead
						res = "crash".to_string();
					}
				}
			}
		}
		let learn_ref = learn.as_ref().map(|(a, b)| (a.as_str(), b.as_str()));
		let files = probe_dir(w, &mut b, learn_ref);
		let lens: Map<String, Value> = b.seeds.iter().map(|(k, v)| (k.clone(), json!(v.len()))).collect();
		let hits_v: Vec<String> = hits.borrow().clone();
		out.push(
			json!({"ev": ev, "b": bid, "seed": e["seed"], "pw": e["pw"], "phrase": e["phrase"], "len4": e["len4"],
				"valid": e["valid"], "old": e["old"], "new": e["new"], "inj": {"kind": kind, "k": k}, "res": res,
				"detail": detail, "hits": hits_v, "t": torn_t, "seedlen": seedlen, "lens": lens, "files": files})
			.to_string(),
		);
	}
	let _ = std::fs::remove_dir_all(&dir);
	out
}

/// every truncation length of a freshly created seed file through the code's opener
fn run_trunc(w: &Worker, root: &str, case: &Value, bid: usize) -> Vec<String> {
	let seedlen = case[0].as_u64().unwrap_or(32) as usize;
	let kind = case[1].as_str().unwrap_or("ascii").to_string();
	let pw = concrete_pw(&kind);
	let dir = format!("{}/t{}", root, bid);
	let _ = std::fs::remove_dir_all(&dir);
	let r = catch_unwind(AssertUnwindSafe(|| {
		let mut lc = new_lc(w, &dir);
		lc.create_wallet(None, None, seedlen, ZeroingString::from(pw.clone()), false)
	}));
	let created = match r {
		Ok(Ok(())) => "ok",
		Ok(Err(_)) => "err",
		Err(_) => "panic",
	};
	let content = std::fs::read(format!("{}/wallet_data/wallet.seed", dir)).unwrap_or_default();
	let mut b = Beh {
		dir: dir.clone(),
		pws: BTreeMap::new(),
		seeds: BTreeMap::new(),
		len4: BTreeMap::new(),
		rng: StdRng::seed_from_u64(bid as u64),
		salt: 0,
		roots: RefCell::new(BTreeMap::new()),
		learnt_roots: RefCell::new(BTreeMap::new()),
		cache: RefCell::new(std::collections::HashMap::new()),
		cache_names: RefCell::new(0),
	};
	let p = opener::parse(&content);
	let seed = opener::open(&p, &pw);
	if let Some(s) = &seed {
		b.seeds.insert("s0".to_string(), s.clone());
	} else {
		// the independent opener is blind: "s0" is what the code's opener derives under the right password
		let (_, _, root) = code_open_root(w, &b, &content, &pw);
		if let Some(h) = root {
			b.learnt_roots.borrow_mut().insert(h, "s0".to_string());
		}
	}
	let (full, _) = code_open(w, &b, &content, &pw);
	let mut wrong = Map::new();
	for k in PW_KINDS.iter().chain(["wrong"].iter()) {
		if *k != kind {
			let (r, _) = code_open(w, &b, &content, &concrete_pw(k));
			wrong.insert(k.to_string(), json!(r));
		}
	}
	// near misses of the right password
	let chars: Vec<char> = pw.chars().collect();
	let mut near: Vec<(&str, String)> = vec![
		("ext", format!("{}x", pw)),
		("blank", format!("{} ", pw)),
	];
	if !chars.is_empty() {
		near.push(("prefix", chars[..chars.len() / 2].iter().collect()));
		near.push(("butlast", chars[..chars.len() - 1].iter().collect()));
		near.push(("first", format!("{}{}", chars[0], "-something-else")));
		let flipped: String = chars
			.iter()
			.enumerate()
			.map(|(i, c)| {
				if i == chars.len() - 1 || i == 0 {
					if c.is_uppercase() { c.to_lowercase().next().unwrap_or(*c) } else { c.to_uppercase().next().unwrap_or(*c) }
				} else {
					*c
				}
			})
			.collect();
		near.push(("case", flipped));
	}
	for (k, p) in near {
		if p != pw {
			let (r, _) = code_open(w, &b, &content, &p);
			wrong.insert(format!("near:{}", k), json!(r));
		}
	}
	// NOT a wrong password in the sense of the property: HMAC pads a key shorter than its block
	// (128 bytes for SHA-512) with zero bytes, so `pw` and `pw\0` are the same PBKDF2 password.
	// Recorded for Layer M only (spec/SeedFile.tla, HmacKeyNorm).
	let (hmac_nul, _) = code_open(w, &b, &content, &format!("{}\u{0}", pw));
	let mut res = vec![];
	let mut indep = vec![];
	for t in 0..content.len() {
		let (r, _) = code_open(w, &b, &content[..t], &pw);
		res.push(json!(r));
		let pi = opener::parse(&content[..t]);
		indep.push(json!(match opener::open(&pi, &pw) {
			None => "err".to_string(),
			Some(x) => b.name_of_seed(&x).unwrap_or("other".to_string()),
		}));
	}
	let _ = std::fs::remove_dir_all(&dir);
	vec![json!({"ev": "trunc", "b": bid, "seedlen": seedlen, "pwkind": kind, "created": created, "n": content.len(),
		"indep_len": seed.map(|s| s.len() as i64).unwrap_or(-1), "full": full, "wrong": wrong, "res": res, "indep": indep,
		"pwlen": pw.len(), "hmac_nul": hmac_nul})
	.to_string()]
}

fn main() {
	let args: Vec<String> = std::env::args().collect();
	let mut inp = String::new();
	let mut out = String::new();
	let mut jobs = 12usize;
	let mut i = 1;
	while i < args.len() {
		match args[i].as_str() {
			"--in" => {
				inp = args[i + 1].clone();
				i += 1;
			}
			"--out" => {
				out = args[i + 1].clone();
				i += 1;
			}
			"--jobs" => {
				jobs = args[i + 1].parse().unwrap();
				i += 1;
			}
			_ => {}
		}
		i += 1;
	}
	std::panic::set_hook(Box::new(|_| {}));
	let v: Value = serde_json::from_str(&std::fs::read_to_string(&inp).expect("read input")).expect("json");
	let seed = v["seed"].as_u64().unwrap_or(1);
	let npws = v["npws"].as_u64().unwrap_or(3) as usize;
	let b0 = v["b0"].as_u64().unwrap_or(0);
	let behs: Vec<Vec<Value>> = v["behaviours"]
		.as_array()
		.cloned()
		.unwrap_or_default()
		.iter()
		.map(|b| b.as_array().cloned().unwrap_or_default())
		.collect();
	let truncs: Vec<Value> = v["trunc"].as_array().cloned().unwrap_or_default();
	let total = behs.len() + truncs.len();
	let root = vharness::driver::tmp_root();
	let next = Arc::new(AtomicUsize::new(0));
	let results: Arc<Mutex<Vec<Option<Vec<String>>>>> = Arc::new(Mutex::new(vec![None; total]));
	let behs = Arc::new(behs);
	let truncs = Arc::new(truncs);
	let mut handles = vec![];
	for j in 0..jobs.max(1) {
		let (next, results, behs, truncs, root) = (next.clone(), results.clone(), behs.clone(), truncs.clone(), root.clone());
		handles.push(
			std::thread::Builder::new()
				.stack_size(64 << 20)
				.spawn(move || {
					set_thread_globals(U);
					let wroot = format!("{}/j{}", root, j);
					let _ = std::fs::remove_dir_all(&wroot);
					std::fs::create_dir_all(&wroot).unwrap();
					let chain = node::init_chain(&wroot);
					let w = Worker {
						node: DirectNode::new(chain),
						probe: format!("{}/probe", wroot),
					};
					loop {
						let i = next.fetch_add(1, Ordering::SeqCst);
						if i >= total {
							break;
						}
						let lines = match catch_unwind(AssertUnwindSafe(|| {
							if i < behs.len() {
								run_behaviour(&w, &wroot, &behs[i], i, seed, npws, b0)
							} else {
								run_trunc(&w, &wroot, &truncs[i - behs.len()], i)
							}
						})) {
							Ok(l) => l,
							Err(p) => {
								verif::set_handler(None);
								vec![json!({"ev": "harness_panic", "b": i, "res": "panic", "detail": panic_msg(&p)}).to_string()]
							}
						};
						results.lock().unwrap()[i] = Some(lines);
					}
				})
				.unwrap(),
		);
	}
	for h in handles {
		let _ = h.join();
	}
	let _ = std::fs::remove_dir_all(&root);
	let mut f = std::io::BufWriter::new(std::fs::File::create(&out).expect("create out"));
	let mut n = 0;
	for r in results.lock().unwrap().iter_mut() {
		if let Some(l) = r.take() {
			for x in l {
				writeln!(f, "{}", x).unwrap();
				n += 1;
			}
		}
	}
	eprintln!("replayed {} schedules + {} truncation cases, {} events", behs.len(), truncs.len(), n);
}
