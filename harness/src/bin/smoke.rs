fn main() { println!("ok"); }
