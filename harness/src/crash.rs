//! Crash and fault enumeration (DESIGN 3.5): for an operation `op` in the state reached
//! by a prefix, count the persistent-effect boundaries it crosses (hook hits), then
//! for every boundary k re-run it from a directory snapshot with a crash (panic at the
//! hook, wallet instance dropped, store re-opened) or with a failing write (the hook
//! makes the site return its ordinary error), project the re-opened store and run the
//! recovery probe.
use crate::driver::step;
use crate::world::{Outcome, World};
use grin_wallet_util::verif;
use serde_json::{json, Value};
use std::cell::RefCell;
use std::rc::Rc;

#[derive(Clone, Copy, PartialEq)]
pub enum Mode {
	Count,
	Crash,
	Fail,
}

/// which hook points count as persistent-effect boundaries
fn is_boundary(name: &str) -> bool {
	name == "batch_commit" || name == "store_tx"
}

pub struct HookState {
	pub hits: Vec<String>,
	pub target: usize,
	pub mode: Mode,
	pub fired: bool,
}

pub fn install(mode: Mode, target: usize) -> Rc<RefCell<HookState>> {
	let st = Rc::new(RefCell::new(HookState {
		hits: vec![],
		target,
		mode,
		fired: false,
	}));
	let st2 = st.clone();
	verif::set_handler(Some(Box::new(move |name: &str| {
		if !is_boundary(name) {
			return false;
		}
		let mut s = st2.borrow_mut();
		s.hits.push(name.to_string());
		let n = s.hits.len();
		if s.mode != Mode::Count && n == s.target && !s.fired {
			s.fired = true;
			match s.mode {
				Mode::Crash => {
					drop(s);
					std::panic::panic_any(verif::CrashSentinel(format!("{}#{}", name, n)));
				}
				Mode::Fail => return true,
				Mode::Count => {}
			}
		}
		false
	})));
	st
}
pub fn uninstall() {
	verif::set_handler(None);
}

/// every query the API offers must answer without crashing
pub fn probe_queries(w: &mut World, wn: &str) -> Vec<Value> {
	use crate::libwallet::api_impl::owner;
	let mut out = vec![];
	if w.wallets[wn].inst.is_none() {
		return vec![json!({"q": "open", "res": "closed"})];
	}
	let inst = w.inst(wn);
	let mask = w.mask(wn);
	let r = crate::world::guarded(|| owner::retrieve_txs(inst.clone(), mask.as_ref(), &None, false, None, None, None));
	let mut slate_ids = vec![];
	if let Outcome::Ok((_, txs)) = &r {
		for t in txs {
			if let Some(id) = t.tx_slate_id {
				slate_ids.push((t.id, id));
			}
		}
	}
	out.push(json!({"q": "retrieve_txs", "res": r.res()}));
	let r = crate::world::guarded(|| owner::retrieve_outputs(inst.clone(), mask.as_ref(), &None, true, false, None));
	out.push(json!({"q": "retrieve_outputs", "res": r.res()}));
	let r = crate::world::guarded(|| owner::retrieve_summary_info(inst.clone(), mask.as_ref(), &None, false, 1));
	out.push(json!({"q": "retrieve_summary_info", "res": r.res()}));
	for (id, sid) in slate_ids {
		let r = w.with(wn, |wi, _| owner::get_stored_tx(wi, Some(id), Some(&sid)).map(|x| x.is_some()));
		let present = matches!(r, Outcome::Ok(true));
		out.push(json!({"q": "get_stored_tx", "id": id, "res": r.res(), "present": present}));
	}
	out
}

/// cancel every pending (unconfirmed sent / received / reverted) entry of the active
/// account of every wallet; returns the per-entry results and the spendable total after
pub fn probe_cancel_all(w: &mut World) -> Value {
	use crate::libwallet::api_impl::owner;
	use crate::libwallet::TxLogEntryType as T;
	let names: Vec<String> = w.wallets.keys().cloned().collect();
	let mut res = serde_json::Map::new();
	for wn in names {
		if w.wallets[&wn].inst.is_none() {
			continue;
		}
		let inst = w.inst(&wn);
		let mask = w.mask(&wn);
		let mut cancels = vec![];
		// refresh first: what the chain has confirmed meanwhile is not pending any more
		let txs = crate::world::guarded(|| owner::retrieve_txs(inst.clone(), mask.as_ref(), &None, true, None, None, None));
		if let Outcome::Ok((_, txs)) = txs {
			for t in txs {
				let pending = !t.confirmed
					&& (t.tx_type == T::TxSent || t.tx_type == T::TxReceived || t.tx_type == T::TxReverted);
				if pending {
					let r = crate::world::guarded(|| owner::cancel_tx(inst.clone(), mask.as_ref(), &None, Some(t.id), None));
					cancels.push(json!({"id": t.id, "res": r.res()}));
				}
			}
		}
		let info = crate::world::guarded(|| owner::retrieve_summary_info(inst.clone(), mask.as_ref(), &None, true, 1));
		let (spendable, locked, total) = match info {
			Outcome::Ok((_, i)) => (
				(i.amount_currently_spendable / w.unit) as i64,
				(i.amount_locked / w.unit) as i64,
				(i.total / w.unit) as i64,
			),
			_ => (-1, -1, -1),
		};
		res.insert(wn, json!({"cancels": cancels, "spendable": spendable, "locked": locked, "total": total}));
	}
	Value::Object(res)
}

/// TLC's Json module cannot read null: replace by "" (arrays for "reopen")
pub fn denull(v: Value) -> Value {
	match v {
		Value::Null => json!(""),
		Value::Array(a) => Value::Array(a.into_iter().map(denull).collect()),
		Value::Object(m) => Value::Object(
			m.into_iter()
				.map(|(k, x)| {
					let x2 = if x.is_null() && k == "reopen" { json!([]) } else { denull(x) };
					(k, x2)
				})
				.collect(),
		),
		x => x,
	}
}

/// run the crash / fault enumeration of `op` in the current state of `w`.
/// Emits: the normal run of op (event "op", with n = number of boundaries), then for
/// every k and mode an event "crash" with the projected state after re-opening, the
/// query probe, and the state after the cancel-all recovery probe.
pub fn enumerate(w: &mut World, op: &Value, bid: usize, modes: &[Mode], out: &mut Vec<String>) {
	let snap = w.snapshot("c");
	// baseline: what cancel-all gives from the pre-state
	let base_pre = probe_cancel_all(w);
	w.restore(&snap);
	// counting run
	let hs = install(Mode::Count, 0);
	let mut e0 = step(w, op);
	uninstall();
	let hits = hs.borrow().hits.clone();
	let n = hits.len();
	e0["b"] = json!(bid);
	e0["boundaries"] = json!(hits);
	e0["obs"] = w.obs();
	let e0_ok = e0["res"] == "ok";
	out.push(denull(e0).to_string());
	let regs_after = w.regs();
	// a torn stored-transaction file: every truncation length of the file the operation wrote
	if hits.iter().any(|h| h == "store_tx") && e0_ok {
		let wn = op["w"].as_str().unwrap_or("w1").to_string();
		let sl = op["sl"].as_str().unwrap_or("").to_string();
		if let Some(id) = w.slates.get(&sl).and_then(|r| r.id) {
			let path = format!("{}/wallet_data/saved_txs/{}.grintx", w.wallets[&wn].dir, id);
			if let Ok(full) = std::fs::read(&path) {
				let all = std::env::var("VERIF_TIER").map(|t| t == "thorough").unwrap_or(false);
				let n = full.len();
				let lens: Vec<usize> = if all {
					(0..n).collect()
				} else {
					let mut v = vec![0, 1, 2, 3, 7, n / 4, n / 2, n / 2 + 1, n - 3, n - 2, n - 1];
					v.retain(|x| *x < n);
					v.dedup();
					v
				};
				let (mut okc, mut errc, mut panicc, mut first_panic) = (0, 0, 0, -1i64);
				for l in lens.iter() {
					std::fs::write(&path, &full[..*l]).unwrap();
					let r = w.with(&wn, |wi, _| wi.get_stored_tx(&format!("{}", id)).map(|x| x.is_some()));
					match r {
						Outcome::Ok(_) => okc += 1,
						Outcome::Err(_) => errc += 1,
						Outcome::Panic(_) => {
							panicc += 1;
							if first_panic < 0 {
								first_panic = *l as i64;
							}
						}
					}
				}
				std::fs::write(&path, &full).unwrap();
				out.push(
					json!({"ev": "trunc", "b": bid, "w": wn, "sl": sl, "len_full": n, "lengths": lens.len(),
						"ok": okc, "err": errc, "panic": panicc, "first_panic_len": first_panic, "res": "ok",
						"op": op["ev"], "obs": w.obs()})
					.to_string(),
				);
			}
		}
	}
	let base_post = probe_cancel_all(w);
	for k in 1..=n {
		for mode in modes {
			w.restore(&snap);
			let hs = install(*mode, k);
			let mut e = step(w, op);
			uninstall();
			let fired = hs.borrow().fired;
			let crashed = e["res"] == "panic" && e["detail"].as_str().map(|d| d.starts_with("CRASH:")).unwrap_or(false);
			// slates the completed run learned about are needed to name what the
			// interrupted run wrote (contexts, stored transactions)
			w.set_regs(&regs_after);
			if *mode == Mode::Crash {
				// process death: every wallet instance goes away, then the store is re-opened
				w.close_wallets();
				let ro = w.reopen_all();
				e["reopen"] = json!(ro);
			}
			let obs = w.obs();
			let wn = op["w"].as_str().unwrap_or("w1").to_string();
			let q = probe_queries(w, &wn);
			let rec = probe_cancel_all(w);
			// C15: the next key handed out after the interruption must be a fresh one
			let h = w.chain.head().map(|x| x.height).unwrap_or(0);
			let nk = if w.wallets[&wn].inst.is_some() { w.build_coinbase(&wn, None, h + 1, 0) } else { json!({"retkey": "", "res": "closed"}) };
			let ev = json!({
				"ev": "crash", "b": bid, "k": k, "n": n, "mode": if *mode == Mode::Crash {"crash"} else {"fail"},
				"point": hits[k - 1], "fired": fired, "crashed": crashed, "w": wn,
				"op": op, "opres": e["res"], "opdetail": e["detail"], "reopen": e["reopen"], "res": "ok",
				"queries": q, "recover": rec, "base_pre": base_pre, "base_post": base_post,
				"next_key": nk["retkey"], "next_key_res": nk["res"],
				"obs": obs, "obs2": w.obs(),
			});
			out.push(denull(ev).to_string());
		}
	}
	// leave the world in the state after the completed operation
	w.restore(&snap);
	let _ = step(w, op);
}
