CONSTANTS
  GridA = {30, 50, 100, 120}
  MaxNA = 4
  GridS = {30, 50, 100}
  MaxNS = 2
  GridE = {100}
  EligHL <- HLFull
  MaxNE = 2
  MaxOutsSet = {0, 1, 2, 500}
  MinConfs = {0, 1, 2, 3}
  FlowsE = {"send", "late", "invoice"}
  ModA = 200
  ModS = 40
  ModE = 130
  LateFactor = 2
  Seed = 1
  NWide = 8000
  CheckFixed = TRUE
  CexScale = 4
INIT Init
NEXT Next
INVARIANT Inv
CHECK_DEADLOCK FALSE
