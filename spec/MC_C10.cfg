CONSTANTS
  Slates = {"s1", "s2", "s3"}
  MaxRecip = 4
  EditRs = {{}, {"k1"}, {"k3"}, {"k1", "k3"}, {"k1", "k2", "k3", "k4"}}
  MaxEdits = 1
SPECIFICATION Spec
INVARIANT Emit_Keys
INVARIANT Emit_Case
INVARIANT Emit_Label
INVARIANT TypeOK
INVARIANT Inv_NoClearAtomsArmor
INVARIANT Inv_NoClearAtomsBin
INVARIANT Inv_NoClearAtomsJson
INVARIANT Inv_PlainShowsAll
INVARIANT Inv_OpenIffRecipient
INVARIANT Inv_OpenedIsOriginal
INVARIANT Inv_PlainOpens
INVARIANT Inv_SenderFaithful
INVARIANT Inv_ApisAgree
INVARIANT Inv_EditSameOrErr
INVARIANT Inv_EditedEncryptedRejected
INVARIANT Inv_PredMatches
CHECK_DEADLOCK FALSE
