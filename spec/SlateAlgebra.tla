---------------------------- MODULE SlateAlgebra ----------------------------
(***************************************************************************)
(* The algebra of the grin-wallet slate exchange (property C02).           *)
(*                                                                         *)
(*   libwallet/src/slate.rs            add_participant_info, adjust_offset,*)
(*                                     fill_round_2, verify_part_sigs,     *)
(*                                     finalize_signature, check_fees,     *)
(*                                     finalize_transaction                *)
(*   libwallet/src/api_impl/foreign.rs receive_tx, finalize_tx             *)
(*   libwallet/src/api_impl/owner.rs   init_send_tx, issue_invoice_tx,     *)
(*                                     process_invoice_tx, tx_lock_outputs *)
(*   libwallet/src/internal/selection.rs repopulate_tx, lock_tx_context    *)
(*   libwallet/src/internal/tx.rs      complete_tx, update_stored_tx,      *)
(*                                     verify_slate_payment_proof          *)
(*                                                                         *)
(* ABSTRACT CRYPTOGRAPHY (DESIGN.md 2.1).  A secret scalar is an ATOM; a   *)
(* sum of secrets - hence also a public key x*G, a public nonce k*G, the   *)
(* blinding part of a Pedersen commitment and the kernel offset - is a     *)
(* signed BAG of atoms (generic-group reading: two group elements are      *)
(* equal iff their bags are equal).  A commitment is a pair (value, bag).  *)
(* A partial signature s = k + e*x with e = H(nonce sum, key sum, msg) is  *)
(* the TERM Sig(x, k, ks, xsum, msg); it verifies for a claimed public key *)
(* X under (KS, XS, M) iff x = X, ks = KS, xsum = XS, msg = M.  The        *)
(* aggregate of some partial signatures verifies for (KS, XS, M) iff every *)
(* part was made for exactly these three and the signers' nonces sum to KS *)
(* and their keys to XS ("all parts valid and present").  A range proof is *)
(* the commitment it was made for.  An ed25519 payment-proof signature is  *)
(* PSig(key, amount, excess, sender address).                              *)
(* This is the level at which the wallet's CHECKS can be wrong: which      *)
(* comparisons are made, in which order, against which stored values.  The *)
(* arithmetic of secp256k1 / bulletproofs is left to the real verifier,    *)
(* which the harness calls as an independent oracle on every success.      *)
(*                                                                         *)
(* The module has four parts, all pure operators (no variables):           *)
(*  1. ALGEBRA    bags, signatures, transactions, ConsensusValid, FeeOk.   *)
(*  2. CODE       the steps of the five flows transcribed from the pinned  *)
(*                commit: InitSend, Receive, IssueInvoice, ProcessInvoice, *)
(*                Finalize (both branches), with the checks in code order. *)
(*                `Skip` names checks left out (seeded spec mutants; {} is *)
(*                the pinned code).                                        *)
(*  3. TAMPER     ~60 classes of alteration of the wire slate, as the      *)
(*                harness (replay_tamper/tamper.rs) realises them.         *)
(*  4. PROPERTY   Verdict (must_fail / may_fail from the algebra alone),   *)
(*                Predict (what the transcribed code does), and the        *)
(*                Layer-P predicates FinalTxValidExact, TamperRefused,     *)
(*                StillCancellable used by MCSlateAlgebra (on the model)   *)
(*                and TraceTamper (on what the real code did).             *)
(*                                                                         *)
(* Named deviations / under-modelling: coin selection is bound, not        *)
(* transcribed (Selection.tla, C01): a case fixes the SHAPE (number of     *)
(* inputs and change outputs) and the model uses round values; the TTL is  *)
(* three-valued (none / reached / far); versions are opaque; the weight    *)
(* limit and NRD activation of Transaction::validate are "NRD is off";     *)
(* the SORT ORDER Transaction::validate demands of inputs and outputs is   *)
(* not modelled - the harness re-sorts an altered commitment list the way  *)
(* a wallet emits it, so that no class is refused for its order alone.     *)
(* A case may carry TWO alterations (tamper, then tamper2 on the reply);   *)
(* CanApply says whether the second still finds what it alters.            *)
(*                                                                         *)
(* Facts the algebra establishes that are worth knowing (all confirmed on  *)
(* the real code by the trace validation, none of them a C02 violation):   *)
(*  - in a self-invoice the reply may lose the payer-role participant      *)
(*    entry AND its offset together and still finalizes into a valid,      *)
(*    exact transaction (kernel excess = the issuer-role key alone);       *)
(*  - commitments of the reply that the finalizer also holds in its own    *)
(*    context (self-invoice) may be dropped or mangled: they are re-added; *)
(*  - in a late-locked send the payment-proof record is made from the      *)
(*    REPLY; until fix 2b7911c / 0c19747 a reply stripped of its proof     *)
(*    finalized without one (C11) - the transcription now has the checks   *)
(*    against the original send arguments / the context.                   *)
(***************************************************************************)
EXTENDS Integers, Sequences, FiniteSets, TLC

CONSTANT Skip      \* checks of the code left out: subset of CheckNames ({} = pinned code)

CheckNames == {"partsigs", "aggsig", "check_fees", "kernel_verify", "validate", "restore_fee", "restore_amount", "proof",
               "ctx_state_check",       \* NOT a mutant: absent from the pinned code (see Finalize); the runner puts it
                                        \* into Skip while known_findings lists C02/TamperRefused/self:pre:cc_both+st_swap as known
               "restore_fee_nonzero",   \* the fee is restored from the context only when the reply names none
               "late_take"}    \* late_take: the late-lock step leaves late_lock_args in the saved context (.clone() for .take())

\* ======================================================================
\* 1. ALGEBRA
\* ======================================================================
\* ---- signed bags of atoms
BZero == [a \in {} |-> 0]
At(a) == [x \in {a} |-> 1]
BGet(f, a) == IF a \in DOMAIN f THEN f[a] ELSE 0
BNorm(f) == [a \in {x \in DOMAIN f : f[x] # 0} |-> f[a]]
BAdd(f, g) == BNorm([a \in (DOMAIN f) \cup (DOMAIN g) |-> BGet(f, a) + BGet(g, a)])
BNeg(f) == [a \in DOMAIN f |-> 0 - f[a]]
BSub(f, g) == BAdd(f, BNeg(g))
RECURSIVE BSumSeq(_)
BSumSeq(s) == IF s = <<>> THEN BZero ELSE BAdd(Head(s), BSumSeq(Tail(s)))
RECURSIVE ISumSeq(_)
ISumSeq(s) == IF s = <<>> THEN 0 ELSE Head(s) + ISumSeq(Tail(s))
SeqSet(s) == {s[i] : i \in DOMAIN s}
NoDup(s) == \A i, j \in DOMAIN s : i # j => s[i] # s[j]

\* ---- kernel message: what the signatures commit to (Slate::kernel_features + kernel_sig_msg)
NoArgs == -1
BadMsg == [bad |-> TRUE]
Msg(feat, fee, args) ==
  CASE feat = 0 -> [f |-> 0, fee |-> fee, lock |-> 0]
    [] feat = 2 -> IF args = NoArgs THEN BadMsg ELSE [f |-> 2, fee |-> fee, lock |-> args]
    [] feat = 3 -> IF args = NoArgs \/ args < 1 \/ args > 10080 THEN BadMsg ELSE [f |-> 3, fee |-> fee, lock |-> args]
    [] OTHER -> BadMsg       \* 1 = coinbase (invalid), anything else unknown

\* ---- partial signatures
NoSig == [t |-> "none"]
Sig(x, k, ks, xsum, msg) == [t |-> "sig", x |-> x, k |-> k, ks |-> ks, xsum |-> xsum, msg |-> msg]
KSum(parts) == BSumSeq([i \in DOMAIN parts |-> parts[i].nonce])
XSum(parts) == BSumSeq([i \in DOMAIN parts |-> parts[i].xs])
\* aggsig::verify_partial_sig(sig, nonce sum, signer's public key, key sum, msg)
PartValid(p, ks, xsum, msg) ==
  /\ p.part.t = "sig" /\ msg # BadMsg
  /\ p.part.x = p.xs /\ p.part.ks = ks /\ p.part.xsum = xsum /\ p.part.msg = msg
Signed(parts) == SelectSeq(parts, LAMBDA p : p.part # NoSig)
\* aggsig::add_signatures + verify_completed_sig(final sig, key sum, key sum, msg)
AggOf(parts) == [r |-> KSum(parts), sigs |-> [i \in DOMAIN Signed(parts) |-> Signed(parts)[i].part]]
AggValid(agg, excess, msg) ==
  /\ agg.sigs # <<>> /\ msg # BadMsg
  /\ \A i \in DOMAIN agg.sigs : agg.sigs[i].ks = agg.r /\ agg.sigs[i].xsum = excess /\ agg.sigs[i].msg = msg
  /\ BSumSeq([i \in DOMAIN agg.sigs |-> agg.sigs[i].k]) = agg.r
  /\ BSumSeq([i \in DOMAIN agg.sigs |-> agg.sigs[i].x]) = excess

\* ---- commitments and transactions
\* com: [k: "in"|"out", v, b, pf: the commitment the range proof was made for, f: output features]
Cid(c) == [v |-> c.v, b |-> c.b]
In(v, a) == [k |-> "in", v |-> v, b |-> At(a), pf |-> [v |-> 0, b |-> BZero], f |-> 0]
Out(v, a) == [k |-> "out", v |-> v, b |-> At(a), pf |-> [v |-> v, b |-> At(a)], f |-> 0]
InsOf(coms) == SelectSeq(coms, LAMBDA c : c.k = "in")
OutsOf(coms) == SelectSeq(coms, LAMBDA c : c.k = "out")
SumV(cs) == ISumSeq([i \in DOMAIN cs |-> cs[i].v])
SumB(cs) == BSumSeq([i \in DOMAIN cs |-> cs[i].b])
\* TransactionBody::with_input / with_output: an element already present is not added again
AddCom(coms, c) == IF \E i \in DOMAIN coms : coms[i].k = c.k /\ Cid(coms[i]) = Cid(c) THEN coms ELSE Append(coms, c)
RECURSIVE AddComs(_, _)
AddComs(coms, cs) == IF cs = <<>> THEN coms ELSE AddComs(AddCom(coms, Head(cs)), Tail(cs))

Fee(i, o, k) == i + 21 * o + 3 * k           \* in units of the fee base (the traces' unit)

\* tx: [coms, msg, excess, agg, off]
\* Transaction::validate(AsTransaction) + TxKernel::verify: what consensus demands of a transaction
ConsensusValid(tx) ==
  LET ins == InsOf(tx.coms)
      outs == OutsOf(tx.coms) IN
  /\ tx.msg # BadMsg
  /\ tx.msg.f # 3                                                   \* NRD kernels are not enabled
  /\ AggValid(tx.agg, tx.excess, tx.msg)                            \* kernel signature
  /\ SumV(ins) = SumV(outs) + tx.msg.fee                            \* kernel sums: value part
  /\ BSub(SumB(outs), SumB(ins)) = BAdd(tx.excess, tx.off)          \* kernel sums: blinding part
  /\ \A i \in DOMAIN outs : outs[i].pf = Cid(outs[i]) /\ outs[i].v >= 0 /\ outs[i].f = 0   \* range proofs, no coinbase
  /\ NoDup([i \in DOMAIN ins |-> Cid(ins[i])]) /\ NoDup([i \in DOMAIN outs |-> Cid(outs[i])])
  /\ \A i \in DOMAIN ins, j \in DOMAIN outs : Cid(ins[i]) # Cid(outs[j])                  \* no cut-through
FeeOk(tx) == tx.msg # BadMsg /\ tx.msg.fee >= Fee(Len(InsOf(tx.coms)), Len(OutsOf(tx.coms)), 1)

\* ======================================================================
\* 2. CODE
\* ======================================================================
\* ---- a case and the honest deal it stands for
\* case: [flow: send|late|self|inv|invself, nin, nch, incfee, proof, stage: none|pre|post, tamper, tamper2]
Flows == {"send", "late", "self", "inv", "invself"}
IsInvoice(c) == c.flow \in {"inv", "invself"}
InVal == 1000
DealFee(c) == Fee(c.nin, c.nch + 1, 1)
DealArg(c) == IF c.nch = 0 THEN (IF c.incfee THEN InVal * c.nin ELSE InVal * c.nin - DealFee(c))
              ELSE 300 + InVal * (c.nin - 1)
\* the amount agreed at initiation (amount_includes_fee reduces it; not for a late lock, Appendix A)
DealAmt(c) == IF c.incfee /\ c.flow # "late" THEN DealArg(c) - DealFee(c) ELSE DealArg(c)
DealIns(c) == [i \in 1..c.nin |-> In(InVal, "i" \o ToString(i))]
\* inputs_and_change: n-1 equal parts, the last one takes the remainder
ChangeFor(c, amt) ==
  LET total == InVal * c.nin - amt - DealFee(c) IN
  IF c.nch = 0 \/ total = 0 THEN <<>>
  ELSE [i \in 1..c.nch |-> Out(IF i = c.nch THEN (total \div c.nch) + (total % c.nch) ELSE total \div c.nch, "c" \o ToString(i))]
DealChg(c) == ChangeFor(c, DealAmt(c))
\* the g-th selection a late lock makes for the same slate: the first one is the deal; a second one (which
\* only a wallet that forgot it had already selected would make) takes other outputs of the same shape
SelIns(c, g) == IF g = 1 THEN DealIns(c) ELSE [i \in 1..c.nin |-> In(InVal, "j" \o ToString(g) \o ToString(i))]
SelChg(c, g) == IF g = 1 THEN DealChg(c)
                ELSE [i \in DOMAIN DealChg(c) |-> Out(DealChg(c)[i].v, "d" \o ToString(g) \o ToString(i))]

TipH == 10            \* height the finalizing wallet has refreshed to (check_ttl)

NoPP == [on |-> FALSE]
NoPSig == [t |-> "none"]
PSig(key, amt, exc, saddr) == [t |-> "psig", key |-> key, amt |-> amt, exc |-> exc, saddr |-> saddr]

Part(x, k, sig) == [xs |-> x, nonce |-> k, part |-> sig]
NoLate == FALSE

\* ---- Slate::add_participant_info: my entry replaces any entry with my two public values,
\*      inheriting the first partial signature found on such an entry
AddPart(parts, x, k) ==
  LET mine == SelectSeq(parts, LAMBDA p : p.xs = x /\ p.nonce = k /\ p.part # NoSig)
      carried == IF mine = <<>> THEN NoSig ELSE mine[1].part IN
  Append(SelectSeq(parts, LAMBDA p : p.xs # x \/ p.nonce # k), Part(x, k, carried))
\* Slate::verify_part_sigs
PartSigsOk(parts, msg) ==
  \A i \in DOMAIN parts : parts[i].part # NoSig => PartValid(parts[i], KSum(parts), XSum(parts), msg)
NP(np) == IF np = 0 THEN 2 ELSE np
\* Slate::fill_round_2 after verify_part_sigs: `for i in 0..num_participants() { if participant_data[i] is mine
\* { set; break } }` - an index past the end panics
MyIndex(parts, np, x, k) ==
  LET hits == {i \in 1..NP(np) : i <= Len(parts) /\ parts[i].xs = x /\ parts[i].nonce = k} IN
  IF hits # {} THEN CHOOSE i \in hits : \A j \in hits : i <= j
  ELSE IF NP(np) > Len(parts) THEN -1      \* panic: index out of bounds
  ELSE 0                                   \* not found: nothing signed
SetSig(parts, i, sig) == [parts EXCEPT ![i].part = sig]

Err(why) == [res |-> "err", why |-> why]

\* ---- owner::init_send_tx (selection bound): the sender's context and S1
InitSend(c) ==
  LET late == c.flow = "late" IN
  [ctx |-> [sec |-> At("xF"), nonce |-> At("kF"), isec |-> At("xF"), inonce |-> At("kF"),
            ins |-> IF late THEN <<>> ELSE DealIns(c), outs |-> IF late THEN <<>> ELSE DealChg(c),
            amt |-> DealAmt(c), fee |-> DealFee(c), late |-> late, pidx |-> c.proof, locked |-> ~late,
            recv |-> c.flow = "self",      \* a TxReceived entry of this slate in the SAME wallet (self-send)
            nsel |-> 0, resv |-> IF late THEN <<>> ELSE DealIns(c), nsent |-> IF late THEN 0 ELSE 1,
            entrypp |-> IF c.proof THEN [on |-> TRUE, saddr |-> "aF", raddr |-> "aC"] ELSE NoPP],
   slate |-> [id |-> "s", st |-> "S1", amt |-> DealAmt(c), fee |-> DealFee(c), feat |-> 0, args |-> NoArgs, ttl |-> 0,
              np |-> 2, ver |-> 4, bhv |-> 3, off |-> BZero, parts |-> <<Part(At("xF"), At("kF"), NoSig)>>,
              hascoms |-> FALSE, coms |-> <<>>,
              pp |-> IF c.proof THEN [on |-> TRUE, saddr |-> "aF", raddr |-> "aC", rsig |-> NoPSig] ELSE NoPP]]

\* ---- foreign::receive_tx by the counterparty (atoms xC, kC, output r1)
Receive(s) ==
  LET msg == Msg(s.feat, s.fee, s.args)
      out == Out(s.amt, "r1")
      parts1 == AddPart(s.parts, At("xC"), At("kC"))
      sig == Sig(At("xC"), At("kC"), KSum(parts1), XSum(parts1), msg)
      i == MyIndex(parts1, s.np, At("xC"), At("kC"))
      parts2 == IF i > 0 THEN SetSig(parts1, i, sig) ELSE parts1
      \* adjust_offset: + offset - initial_sec_key - inputs + outputs
      off == BAdd(BSub(s.off, At("xC")), At("r1")) IN
  IF msg = BadMsg THEN Err("features")
  ELSE IF ~PartSigsOk(parts1, msg) THEN Err("partsig")
  ELSE IF i = -1 THEN Err("panic")
  ELSE [res |-> "ok",
        slate |-> [s EXCEPT !.amt = 0, !.fee = 0, !.st = "S2", !.off = off, !.hascoms = TRUE, !.coms = <<out>>,
                            !.parts = SelectSeq(parts2, LAMBDA p : p.xs = At("xC") /\ p.nonce = At("kC")),
                            !.pp = IF s.pp.on THEN [s.pp EXCEPT !.rsig = PSig("aC", s.amt, XSum(parts2), s.pp.saddr)] ELSE s.pp]]

\* ---- owner::issue_invoice_tx by the payee (the later finalizer)
IssueInvoice(c) ==
  [ctx |-> [sec |-> At("xF"), nonce |-> At("kF"), isec |-> At("xF"), inonce |-> At("kF"),
            ins |-> <<>>, outs |-> <<Out(DealAmt(c), "r1")>>, amt |-> DealAmt(c), fee |-> -1, late |-> FALSE,
            pidx |-> FALSE, locked |-> TRUE, recv |-> TRUE, nsel |-> 0, resv |-> <<>>, nsent |-> 0, entrypp |-> NoPP],
   slate |-> [id |-> "s", st |-> "I1", amt |-> DealAmt(c), fee |-> 0, feat |-> 0, args |-> NoArgs, ttl |-> 0,
              np |-> 2, ver |-> 4, bhv |-> 3, off |-> BZero, parts |-> <<Part(At("xF"), At("kF"), NoSig)>>,
              hascoms |-> FALSE, coms |-> <<>>, pp |-> NoPP]]

\* ---- owner::process_invoice_tx by the payer (atoms xC, kC); `own` = the issuer's context when the
\*      payer is the same wallet (self-invoice: the contexts are merged and stored under the same id)
ProcessInvoice(c, s, own, self) ==
  LET chg == ChangeFor(c, s.amt)
      ins == DealIns(c)
      fee == DealFee(c)
      msg == Msg(s.feat, fee, s.args)
      parts1 == AddPart(s.parts, At("xC"), At("kC"))
      sig == Sig(At("xC"), At("kC"), KSum(parts1), XSum(parts1), msg)
      i == MyIndex(parts1, s.np, At("xC"), At("kC"))
      parts2 == IF i > 0 THEN SetSig(parts1, i, sig) ELSE parts1
      off == IF self THEN BSub(s.off, At("xC"))
             ELSE BAdd(BSub(BSub(s.off, At("xC")), SumB(ins)), SumB(chg))
      payer == [sec |-> At("xC"), nonce |-> At("kC"), isec |-> At("xC"), inonce |-> At("kC"),
                ins |-> ins, outs |-> chg, amt |-> s.amt, fee |-> fee, late |-> FALSE, pidx |-> FALSE,
                locked |-> TRUE, recv |-> self, nsel |-> 0, resv |-> ins, nsent |-> 1, entrypp |-> NoPP]
      merged == [payer EXCEPT !.isec = own.isec, !.inonce = own.inonce, !.fee = own.fee, !.amt = own.amt,
                              !.outs = payer.outs \o own.outs, !.ins = payer.ins \o own.ins] IN
  IF msg = BadMsg THEN Err("features")
  ELSE IF InVal * c.nin - s.amt - fee < 0 THEN Err("funds")
  ELSE IF ~PartSigsOk(parts1, msg) THEN Err("partsig")
  ELSE IF i = -1 THEN Err("panic")
  ELSE [res |-> "ok", ctx |-> IF self THEN merged ELSE payer,
        slate |-> [s EXCEPT !.amt = 0, !.fee = fee, !.st = "I2", !.off = off, !.hascoms = TRUE,
                            !.coms = AddComs(AddComs(<<>>, ins), chg),
                            !.parts = SelectSeq(parts2, LAMBDA p : p.xs = At("xC") /\ p.nonce = At("kC"))]]

\* ---- foreign::finalize_tx.  `ctxs` = the contexts stored in the finalizing wallet (id -> ctx);
\*      `c` only supplies the selection a late lock would make now.
\*      Asm(.., "code"): what repopulate_tx + complete_tx put together, WITHOUT any check, exactly as
\*      the pinned code does it (branch taken from the reply's state, participant list and commitments
\*      taken as they come, own signature placed by the num_participants loop).
\*      Asm(.., "ideal"): the most LENIENT way any implementation could put the same material together
\*      (branch by the flow the context belongs to, duplicates in the reply ignored, own signature always
\*      placed, amount and fee as agreed) - used by Verdict, so that "must_fail" never depends on an
\*      implementation choice.
\*      Finalize: Asm(.., "code") with the checks in code order (used by Predict).
DedupSeq(s) == SelectSeq([i \in DOMAIN s |-> [x |-> s[i], first |-> \A j \in 1..(i - 1) : s[j] # s[i]]], LAMBDA e : e.first)
Dedup(s) == [i \in DOMAIN DedupSeq(s) |-> DedupSeq(s)[i].x]
\* the late-lock step of the S2 branch: select (bound: the next selection of the deal's shape), store the
\* context - WITHOUT late_lock_args (`.take()`) in the pinned code -, then lock_tx_context with the slate at
\* hand: a new TxSent entry, the selected inputs Locked, the proof info copied from that slate
LateStep(c, ctx0, r) ==
  LET g == ctx0.nsel + 1
      \* lock_tx_context refuses ("Payment proof derivation index required"), or tx_lock_outputs cannot even rebuild
      \* a slate that came without a transaction (repopulate_tx -> update_kernel -> kernel_features()): nothing locked
      lockok == ~(r.pp.on /\ ~ctx0.pidx) /\ (r.hascoms \/ Msg(r.feat, ctx0.fee, r.args) # BadMsg) IN
  [ctx0 EXCEPT !.ins = SelIns(c, g), !.outs = SelChg(c, g), !.late = ("late_take" \in Skip), !.nsel = g,
               !.locked = lockok, !.resv = IF lockok THEN ctx0.resv \o SelIns(c, g) ELSE ctx0.resv,
               !.nsent = IF lockok THEN ctx0.nsent + 1 ELSE ctx0.nsent,
               !.entrypp = IF lockok /\ r.pp.on THEN [on |-> TRUE, saddr |-> "aF", raddr |-> r.pp.raddr] ELSE NoPP]
Asm(c, ctx0, r, mode) ==
  LET ideal == mode = "ideal"
      inv == IF ideal THEN IsInvoice(c) ELSE r.st = "I2"
      \* late lock: the selection and lock_tx_context happen first
      ctx == IF ~inv /\ ctx0.late THEN LateStep(c, ctx0, r) ELSE ctx0
      off == BAdd(BSub(BSub(r.off, ctx.isec), SumB(ctx.ins)), SumB(ctx.outs))        \* adjust_offset
      amt == IF ~ideal /\ "restore_amount" \in Skip THEN r.amt ELSE ctx.amt          \* repopulate_tx
      fee == IF inv \/ (~ideal /\ "restore_fee" \in Skip) \/ (~ideal /\ "restore_fee_nonzero" \in Skip /\ r.fee # 0)
             THEN r.fee ELSE ctx.fee                                                 \* update_fee only in the S2 branch
      mx == IF inv THEN ctx.isec ELSE ctx.sec                                         \* temp_ctx in the I2 branch
      mk == IF inv THEN ctx.inonce ELSE ctx.nonce
      parts1 == AddPart(IF ideal THEN Dedup(r.parts) ELSE r.parts, mx, mk)
      \* repopulate_tx looks the context's inputs / outputs up in the wallet: change records exist once locked
      coms == AddComs(AddComs(IF ideal THEN AddComs(<<>>, r.coms) ELSE r.coms, ctx.ins), IF ctx.locked THEN ctx.outs ELSE <<>>)
      msg == Msg(r.feat, fee, r.args)
      \* complete_tx: the initiator's keys when both differ from the current ones (self-invoice)
      useinit == ctx.isec # ctx.sec /\ ctx.inonce # ctx.nonce
      sx == IF useinit THEN ctx.isec ELSE ctx.sec
      sk == IF useinit THEN ctx.inonce ELSE ctx.nonce
      sig == Sig(sx, sk, KSum(parts1), XSum(parts1), msg)
      i == MyIndex(parts1, IF ideal THEN Len(parts1) ELSE r.np, sx, sk)
      parts2 == IF i > 0 THEN SetSig(parts1, i, sig) ELSE parts1 IN
  [ctx |-> ctx, inv |-> inv, amt |-> amt, fee |-> fee, parts1 |-> parts1, parts2 |-> parts2, idx |-> i, msg |-> msg,
   tx |-> [coms |-> coms, msg |-> msg, excess |-> XSum(parts2), agg |-> AggOf(parts2), off |-> off]]

\* the recipient address the proof was requested from: Context.payment_proof_recipient_address and
\* InitTxArgs.payment_proof_recipient_address (kept in late_lock_args); set together with pidx
ReqAddr == "aC"
ProofCheck(ctx, a, r) ==
  \* tx::verify_slate_payment_proof against the proof info stored with the TxSent entry at lock time
  \* and (since 2b7911c / 0c19747) against what the context says was requested
  IF ~ctx.locked THEN "proof"                    \* no entry: "is account correct?"
  ELSE IF (ctx.entrypp.on \/ ctx.pidx) /\ ~r.pp.on THEN "proof"     \* proof_requested: entry OR context
  ELSE IF ~r.pp.on THEN "ok"
  ELSE IF ~ctx.entrypp.on THEN "proof"
  ELSE IF ~ctx.pidx THEN "proof"
  ELSE IF r.pp.saddr # "aF" THEN "proof"
  ELSE IF ctx.entrypp.raddr # r.pp.raddr THEN "proof"
  ELSE IF r.pp.raddr # ReqAddr THEN "proof"      \* context.payment_proof_recipient_address
  ELSE IF r.pp.rsig = NoPSig THEN "proof"
  ELSE IF r.pp.rsig # PSig(r.pp.raddr, a.amt, a.tx.excess, "aF") THEN "proof"
  ELSE "ok"

Finalize(c, ctxs, r) ==
  IF r.id \notin DOMAIN ctxs THEN Err("noctx")
  ELSE IF r.ttl # 0 /\ TipH >= r.ttl THEN Err("expired")
  ELSE IF r.st \notin {"S2", "I2"} THEN Err("state")
  ELSE
  LET ctx0 == ctxs[r.id]
      inv == r.st = "I2"
      a == Asm(c, ctx0, r, "code")
      tx == a.tx IN
  \* DEFECT of the pinned code (found by this model, confirmed on the real code, fixes/C02-1.patch): the branch
  \* is chosen by the REPLY's state alone.  A reply to a send relabelled I2 is finalized by the invoice branch,
  \* which takes the fee from the reply and checks no payment proof; in a two-wallet send it is only stopped at
  \* the very end (no TxReceived entry), in a self-send it goes through.  "ctx_state_check" \in Skip = the pinned
  \* code; without it = the repaired code: a context that records a fee belongs to a transaction this wallet pays.
  IF inv /\ "ctx_state_check" \notin Skip /\ ctx0.fee # -1 THEN Err("state")
  \* S2 branch, late lock (since 2b7911c): before anything is selected or locked the reply must carry a
  \* proof naming the recipient the original send arguments asked for
  ELSE IF ~inv /\ ctx0.late /\ ctx0.pidx /\ ~(r.pp.on /\ r.pp.raddr = ReqAddr) THEN Err("proof")
  \* S2 branch, late lock: tx_lock_outputs rebuilds a slate that has no transaction and needs its kernel features
  ELSE IF ~inv /\ ctx0.late /\ ~r.hascoms /\ Msg(r.feat, ctx0.fee, r.args) = BadMsg THEN Err("features")
  \* S2 branch, late lock: lock_tx_context wants the derivation index when the reply carries a proof
  ELSE IF ~inv /\ ctx0.late /\ r.pp.on /\ ~ctx0.pidx THEN Err("proof")
  ELSE IF ~inv /\ a.fee = -1 THEN Err("fee")                         \* "Missing fee fields"
  ELSE IF ~r.hascoms THEN Err("notx")                                \* update_kernel: SlateTransactionRequired
  ELSE IF a.msg = BadMsg THEN Err("features")                        \* update_kernel: kernel_features()
  ELSE IF "partsigs" \notin Skip /\ ~PartSigsOk(a.parts1, a.msg) THEN Err("partsig")   \* fill_round_2
  ELSE IF a.idx = -1 THEN Err("panic")
  ELSE IF "partsigs" \notin Skip /\ ~PartSigsOk(a.parts2, a.msg) THEN Err("partsig")   \* finalize_signature
  ELSE IF "aggsig" \notin Skip /\ ~AggValid(tx.agg, tx.excess, tx.msg) THEN Err("aggsig")
  ELSE IF tx.agg.sigs = <<>> THEN Err("aggsig")                      \* add_signatures of nothing
  ELSE IF "check_fees" \notin Skip /\ Fee(Len(InsOf(tx.coms)), Len(OutsOf(tx.coms)), 1) > a.fee THEN Err("fee")
  ELSE IF "check_fees" \notin Skip /\ Fee(Len(InsOf(tx.coms)), Len(OutsOf(tx.coms)), 1) > a.amt + a.fee THEN Err("fee")
  ELSE IF "kernel_verify" \notin Skip /\ ~AggValid(tx.agg, tx.excess, tx.msg) THEN Err("kernel")
  ELSE IF "validate" \notin Skip /\ ~ConsensusValid(tx) THEN Err("validate")
  ELSE IF ~inv /\ "proof" \notin Skip /\ ProofCheck(a.ctx, a, r) # "ok" THEN Err("proof")
  \* update_stored_tx: the S2 branch wants a TxSent entry of the slate, the I2 branch a TxReceived entry
  ELSE IF ~inv /\ ~a.ctx.locked THEN Err("notfound")
  ELSE IF inv /\ ~a.ctx.recv THEN Err("notfound")
  ELSE [res |-> "ok", why |-> "", tx |-> tx, a |-> a]

\* ======================================================================
\* 3. TAMPER
\* ======================================================================
\* what the adversary controls: atoms ax, ak (keys), ab1, ab2 (commitments), ad (offset shift).
\* env: [amt, fee, fin: the finalizer's public entry]
AdvOut(v, a) == Out(v, a)
FirstIdx(coms, kind) == LET s == {i \in DOMAIN coms : coms[i].k = kind} IN
                        IF s = {} THEN 0 ELSE CHOOSE i \in s : \A j \in s : i <= j
RemoveAt(s, i) == [j \in 1..(Len(s) - 1) |-> IF j < i THEN s[j] ELSE s[j + 1]]
\* a partial signature made with the adversary's keys over what the slate will show
AdvSig(parts, env, x, k) ==
  LET all == Append(parts, env.fin) IN
  Sig(At(x), At(k), KSum(all), XSum(all), Msg(0, env.fee, NoArgs))

PostClasses ==
  {"amt_set", "fee_set", "fee_minus", "fee_zero", "off_shift", "off_zero",
   "feat_hl", "feat_hl_noargs", "feat_nrd", "feat_cb", "feat_unk", "args_only",
   "ttl_past", "ttl_future", "id_fresh", "id_other",
   "st_S1", "st_S3", "st_I1", "st_I3", "st_UN", "st_swap", "np_0", "np_1", "np_3", "ver_3", "bhv_9",
   "xs_fresh", "nonce_fresh", "xs_other", "nonce_other", "both_other",
   "part_none", "part_fresh", "part_stale", "entry_drop", "entry_dup", "entry_add", "entry_add_signed",
   "out_add_adj", "out_add_noadj", "in_add_adj", "inout_add_adj", "out_drop", "out_replace", "out_dup",
   "out_to_in", "out_feat_cb", "proof_swap", "commit_swap", "coms_none", "in_drop", "in_replace", "in_to_out",
   "pp_drop", "pp_rsig_none", "pp_rsig_fresh", "pp_raddr", "pp_saddr", "pp_add",
   "echo"}      \* echo: the reply's amount and fee fields carry what the counterparty was asked (non-compact reply)
\* CONSISTENT COUNTERPARTY: the request (S1 / I1) is altered, the counterparty's REAL step answers it - its
\* output, its partial signature and its offset all agree with the altered terms - and the reply comes back
\* non-compact, naming the altered amount and fee in its own fields ("echo").  Nothing in such a reply
\* contradicts itself; only the finalizer's stored context knows what was agreed.
CCClasses == {"cc_amt_minus", "cc_amt_plus", "cc_fee_plus", "cc_fee_minus", "cc_both", "cc_both_rev"}
PreClasses == {"pre_amt_plus", "pre_amt_minus", "pre_fee_plus", "pre_fee_minus", "pre_feat_hl", "pre_off", "pre_xs", "pre_nonce"}
              \cup CCClasses

Tamper(s, class, env) ==
  LET p1 == s.parts[1]
      o == FirstIdx(s.coms, "out")
      n == FirstIdx(s.coms, "in") IN
  CASE class = "none" -> s
    [] class \in {"amt_set", "pre_amt_plus", "cc_amt_plus"} -> [s EXCEPT !.amt = env.amt + 1]
    [] class \in {"pre_amt_minus", "cc_amt_minus"} -> [s EXCEPT !.amt = env.amt - 1]
    [] class = "cc_both" -> [s EXCEPT !.amt = env.amt - 1, !.fee = env.fee + 1]
    [] class = "cc_both_rev" -> [s EXCEPT !.amt = env.amt + 1, !.fee = env.fee - 1]
    \* env.famt / env.ffee: amount and fee of the request as the counterparty received it; in an invoice the
    \* payer sets the fee itself and the reply already names it
    [] class = "echo" -> [s EXCEPT !.amt = env.famt, !.fee = IF env.inv THEN s.fee ELSE env.ffee]
    [] class \in {"fee_set", "pre_fee_plus", "cc_fee_plus"} -> [s EXCEPT !.fee = env.fee + 1]
    [] class \in {"fee_minus", "pre_fee_minus", "cc_fee_minus"} -> [s EXCEPT !.fee = env.fee - 1]
    [] class = "fee_zero" -> [s EXCEPT !.fee = 0]
    [] class \in {"off_shift", "pre_off"} -> [s EXCEPT !.off = BAdd(s.off, At("ad"))]
    [] class = "off_zero" -> [s EXCEPT !.off = BZero]
    [] class \in {"feat_hl", "pre_feat_hl"} -> [s EXCEPT !.feat = 2, !.args = 1]
    [] class = "feat_hl_noargs" -> [s EXCEPT !.feat = 2, !.args = NoArgs]
    [] class = "feat_nrd" -> [s EXCEPT !.feat = 3, !.args = 1]
    [] class = "feat_cb" -> [s EXCEPT !.feat = 1]
    [] class = "feat_unk" -> [s EXCEPT !.feat = 9]
    [] class = "args_only" -> [s EXCEPT !.args = 5]
    [] class = "ttl_past" -> [s EXCEPT !.ttl = 1]
    [] class = "ttl_future" -> [s EXCEPT !.ttl = TipH + 1000]
    [] class = "id_fresh" -> [s EXCEPT !.id = "z"]
    [] class = "id_other" -> [s EXCEPT !.id = "o"]
    [] class = "st_S1" -> [s EXCEPT !.st = "S1"]
    [] class = "st_S3" -> [s EXCEPT !.st = "S3"]
    [] class = "st_I1" -> [s EXCEPT !.st = "I1"]
    [] class = "st_I3" -> [s EXCEPT !.st = "I3"]
    [] class = "st_UN" -> [s EXCEPT !.st = "UN"]
    [] class = "st_swap" -> [s EXCEPT !.st = IF s.st = "S2" THEN "I2" ELSE "S2"]
    [] class = "np_0" -> [s EXCEPT !.np = 0]
    [] class = "np_1" -> [s EXCEPT !.np = 1]
    [] class = "np_3" -> [s EXCEPT !.np = 3]
    [] class = "ver_3" -> [s EXCEPT !.ver = 3]
    [] class = "bhv_9" -> [s EXCEPT !.bhv = 9]
    [] class \in {"xs_fresh", "pre_xs"} -> [s EXCEPT !.parts[1].xs = At("ax")]
    [] class \in {"nonce_fresh", "pre_nonce"} -> [s EXCEPT !.parts[1].nonce = At("ak")]
    [] class = "xs_other" -> [s EXCEPT !.parts[1].xs = env.fin.xs]
    [] class = "nonce_other" -> [s EXCEPT !.parts[1].nonce = env.fin.nonce]
    [] class = "both_other" -> [s EXCEPT !.parts[1].xs = env.fin.xs, !.parts[1].nonce = env.fin.nonce]
    [] class = "part_none" -> [s EXCEPT !.parts[1].part = NoSig]
    [] class = "part_fresh" -> [s EXCEPT !.parts[1].part = AdvSig(s.parts, env, "ax2", "ak2")]
    \* a genuine signature of the same counterparty from an EARLIER exchange: other key, nonce, sums
    [] class = "part_stale" -> [s EXCEPT !.parts[1].part = Sig(At("xC0"), At("kC0"), BAdd(At("kC0"), At("kF0")), BAdd(At("xC0"), At("xF0")), Msg(0, env.fee, NoArgs))]
    [] class = "entry_drop" -> [s EXCEPT !.parts = <<>>]
    [] class = "entry_dup" -> [s EXCEPT !.parts = Append(s.parts, p1)]
    [] class = "entry_add" -> [s EXCEPT !.parts = Append(s.parts, Part(At("ax"), At("ak"), NoSig))]
    [] class = "entry_add_signed" -> [s EXCEPT !.parts = Append(s.parts, Part(At("ax"), At("ak"), AdvSig(Append(s.parts, Part(At("ax"), At("ak"), NoSig)), env, "ax", "ak")))]
    [] class = "out_add_adj" -> [s EXCEPT !.coms = Append(s.coms, AdvOut(0, "ab1")), !.off = BAdd(s.off, At("ab1"))]
    [] class = "out_add_noadj" -> [s EXCEPT !.coms = Append(s.coms, AdvOut(0, "ab1"))]
    [] class = "in_add_adj" -> [s EXCEPT !.coms = Append(s.coms, In(0, "ab1")), !.off = BSub(s.off, At("ab1"))]
    [] class = "inout_add_adj" -> [s EXCEPT !.coms = Append(Append(s.coms, In(5, "ab1")), AdvOut(5, "ab2")),
                                           !.off = BAdd(BSub(s.off, At("ab1")), At("ab2"))]
    [] class = "out_drop" -> [s EXCEPT !.coms = RemoveAt(s.coms, o)]
    [] class = "out_replace" -> [s EXCEPT !.coms[o] = AdvOut(env.amt, "ab1")]
    [] class = "out_dup" -> [s EXCEPT !.coms = Append(s.coms, s.coms[o])]
    [] class = "out_to_in" -> [s EXCEPT !.coms[o].k = "in"]
    [] class = "out_feat_cb" -> [s EXCEPT !.coms[o].f = 1]
    [] class = "proof_swap" -> [s EXCEPT !.coms[o].pf = [v |-> env.amt, b |-> At("ab1")]]
    [] class = "commit_swap" -> [s EXCEPT !.coms[o].v = env.amt, !.coms[o].b = At("ab1")]
    [] class = "coms_none" -> [s EXCEPT !.hascoms = FALSE, !.coms = <<>>]
    [] class = "in_drop" -> [s EXCEPT !.coms = RemoveAt(s.coms, n)]
    [] class = "in_replace" -> [s EXCEPT !.coms[n] = In(env.amt, "ab1")]
    [] class = "in_to_out" -> [s EXCEPT !.coms[n].k = "out", !.coms[n].pf = [v |-> env.amt, b |-> At("ab1")]]
    [] class = "pp_drop" -> [s EXCEPT !.pp = NoPP]
    [] class = "pp_rsig_none" -> [s EXCEPT !.pp.rsig = NoPSig]
    [] class = "pp_rsig_fresh" -> [s EXCEPT !.pp.rsig = PSig("aA", 0, BZero, "aA")]
    [] class = "pp_raddr" -> [s EXCEPT !.pp.raddr = "aA"]
    [] class = "pp_saddr" -> [s EXCEPT !.pp.saddr = "aA"]
    [] class = "pp_add" -> [s EXCEPT !.pp = [on |-> TRUE, saddr |-> "aB", raddr |-> "aA", rsig |-> PSig("aA", 0, BZero, "aA")]]

ComPositional == {"out_drop", "out_replace", "out_dup", "out_to_in", "out_feat_cb", "proof_swap", "commit_swap",
                  "in_drop", "in_replace", "in_to_out"}
ComRewrite == ComPositional \cup {"out_add_adj", "out_add_noadj", "in_add_adj", "inout_add_adj"}

\* whether a class can be realised on a given slate (tamper.rs returns Err in exactly the other
\* situations); matters when two alterations are composed
CanApply(s, class) ==
  /\ (class \in {"xs_fresh", "pre_xs", "nonce_fresh", "pre_nonce", "xs_other", "nonce_other", "both_other", "part_none", "part_fresh",
                  "part_stale", "entry_drop", "entry_dup"} => Len(s.parts) >= 1)
  /\ (class \in {"out_add_adj", "out_add_noadj", "in_add_adj", "inout_add_adj", "coms_none"} => s.hascoms)
  /\ (class \in {"out_drop", "out_replace", "out_dup", "out_to_in", "out_feat_cb", "proof_swap", "commit_swap"} => FirstIdx(s.coms, "out") > 0)
  /\ (class \in {"in_drop", "in_replace", "in_to_out"} => FirstIdx(s.coms, "in") > 0)
  /\ (class = "off_zero" => s.off # BZero)
  /\ (class \in {"pp_drop", "pp_rsig_none", "pp_rsig_fresh", "pp_raddr", "pp_saddr"} => s.pp.on)
  /\ (class = "pp_add" => ~s.pp.on)
  /\ (class = "st_swap" => s.st \in {"S2", "I2"})

\* which classes exist for which case (the harness skips exactly the others).
\* case.tamper2: a second alteration of the reply ("none", or a PostClass applied after `tamper`)
StaticOk(c, t) ==
  /\ (t \in {"pp_drop", "pp_rsig_none", "pp_rsig_fresh", "pp_raddr", "pp_saddr"} => c.proof)
  /\ (t = "pp_add" => ~c.proof)
  /\ (t \in {"in_drop", "in_replace", "in_to_out"} => IsInvoice(c))
  /\ (t \in {"out_drop", "out_replace", "out_dup", "out_to_in", "out_feat_cb", "proof_swap", "commit_swap"}
        => (~IsInvoice(c) \/ c.nch > 0))
Applicable(c) ==
  /\ c.flow \in Flows /\ c.nin \in {1, 2} /\ c.nch \in {0, 1, 2}
  /\ (c.incfee => c.flow \in {"send", "self"})
  /\ (c.proof => c.flow \in {"send", "late"})
  /\ \/ c.stage = "none" /\ c.tamper = "none"
     \/ c.stage = "pre" /\ c.tamper \in PreClasses
     \/ c.stage = "post" /\ c.tamper \in PostClasses /\ StaticOk(c, c.tamper)
  /\ \/ c.tamper2 = "none"
     \/ /\ c.stage # "none" /\ c.tamper2 \in PostClasses /\ c.tamper2 # c.tamper /\ StaticOk(c, c.tamper2)
        \* the positional classes alter "the first output / input" of the list: after an alteration that
        \* adds or rewrites a commitment, which one is first depends on the sort order (not modelled)
        /\ ~(c.tamper \in ComRewrite /\ c.tamper2 \in ComPositional)
  \* an invoice whose amount was altered on the way changes the payer's selection: only with change to absorb it
  /\ (c.tamper \in {"pre_amt_plus", "pre_amt_minus", "cc_amt_plus", "cc_amt_minus", "cc_both", "cc_both_rev"} /\ IsInvoice(c) => c.nch > 0)

\* ======================================================================
\* 4. PROPERTY
\* ======================================================================
\* the whole exchange of a case: initiation, (pre-tamper), counterparty, (post-tamper), finalize
Exchange(c) ==
  LET inv == IsInvoice(c)
      self == c.flow = "invself"
      init == IF inv THEN IssueInvoice(c) ELSE InitSend(c)
      env0 == [amt |-> DealAmt(c), fee |-> IF inv THEN 0 ELSE DealFee(c), fin |-> init.slate.parts[1]]
      fwd == IF c.stage = "pre" THEN Tamper(init.slate, c.tamper, env0) ELSE init.slate
      step == IF inv THEN ProcessInvoice(c, fwd, init.ctx, self) ELSE Receive(fwd)
      \* a second transaction pending in the finalizing wallet (id "o"), never locked by the harness
      other == IF inv THEN [init.ctx EXCEPT !.sec = At("xO"), !.nonce = At("kO"), !.isec = At("xO"), !.inonce = At("kO"),
                                            !.outs = <<Out(7, "r9")>>, !.amt = 7]
               ELSE [sec |-> At("xO"), nonce |-> At("kO"), isec |-> At("xO"), inonce |-> At("kO"),
                     ins |-> <<In(InVal, "i9")>>, outs |-> <<Out(InVal - 7 - Fee(1, 2, 1), "c9")>>, amt |-> 7, fee |-> Fee(1, 2, 1),
                     late |-> FALSE, pidx |-> FALSE, locked |-> FALSE, recv |-> FALSE, nsel |-> 0, resv |-> <<>>, nsent |-> 0, entrypp |-> NoPP] IN
  IF step.res # "ok" THEN [reply |-> FALSE, why |-> step.why]
  ELSE
  LET env == [amt |-> DealAmt(c), fee |-> DealFee(c), fin |-> init.slate.parts[1],
              famt |-> fwd.amt, ffee |-> fwd.fee, inv |-> inv]
      can1 == c.stage # "post" \/ CanApply(step.slate, c.tamper)
      r1 == IF c.stage = "post" /\ can1 THEN Tamper(step.slate, c.tamper, env)
            ELSE IF c.tamper \in CCClasses THEN Tamper(step.slate, "echo", env)      \* consistent counterparty: non-compact reply
            ELSE step.slate
      can2 == c.tamper2 = "none" \/ CanApply(r1, c.tamper2)
      r == IF c.tamper2 # "none" /\ can2 THEN Tamper(r1, c.tamper2, env) ELSE r1
      mine == IF self THEN step.ctx ELSE init.ctx
      ctxs == IF "id_other" \in {c.tamper, c.tamper2} THEN [x \in {"s", "o"} |-> IF x = "s" THEN mine ELSE other]
              ELSE [x \in {"s"} |-> mine] IN
  IF ~(can1 /\ can2) THEN [reply |-> FALSE, why |-> "inapplicable"]
  ELSE [reply |-> TRUE, r |-> r, genuine |-> step.slate, ctxs |-> ctxs, fin |-> Finalize(c, ctxs, r)]

\* "exact": the inputs reserved, the change recorded, the amount and the fee agreed at initiation
Exact(c, tx) ==
  LET ins == InsOf(tx.coms)
      outs == OutsOf(tx.coms)
      chg == DealChg(c)
      rest == SelectSeq(outs, LAMBDA x : \A i \in DOMAIN chg : Cid(chg[i]) # Cid(x)) IN
  /\ tx.msg # BadMsg /\ tx.msg.fee = DealFee(c)
  /\ {Cid(ins[i]) : i \in DOMAIN ins} = {Cid(DealIns(c)[i]) : i \in 1..c.nin} /\ Len(ins) = c.nin
  /\ \A i \in DOMAIN chg : \E j \in DOMAIN outs : Cid(outs[j]) = Cid(chg[i])
  /\ Len(outs) = Len(chg) + Len(rest)
  /\ rest # <<>> /\ SumV(rest) = DealAmt(c)

\* what the finalizing wallet has locked for the slate = what the transaction spends; one live TxSent entry
\* (sender-side flows: in an invoice the reservation is the counterparty's)
ReservedExact(c, a) ==
  IsInvoice(c) \/ (/\ {Cid(InsOf(a.tx.coms)[i]) : i \in DOMAIN InsOf(a.tx.coms)} = {Cid(a.ctx.resv[i]) : i \in DOMAIN a.ctx.resv}
                    /\ a.ctx.nsent = 1)

\* ---- TWO DELIVERIES: a refused (altered) reply followed by the reply the counterparty really sent.
\* FirstEffect: what a refused first finalize leaves in the store.  Everything before the late-lock step
\* (no such context, ttl, state, the early proof check) and every non-late context: nothing.  A late-locked
\* context: the late-lock step has run - the context now holds the selection and (pinned code) no longer
\* says "late"; the inputs are Locked under a TxSent entry unless lock_tx_context itself refused.
\* (This is the known finding C07/ForeignOnlyAdds/finalize; C02 only needs its consequences.)
FirstEffect(c, ctxs, r) ==
  IF r.id \notin DOMAIN ctxs \/ (r.ttl # 0 /\ TipH >= r.ttl) \/ r.st # "S2" THEN ctxs
  ELSE LET ctx0 == ctxs[r.id] IN
       IF ~ctx0.late THEN ctxs
       ELSE IF ctx0.pidx /\ ~(r.pp.on /\ r.pp.raddr = "aC") THEN ctxs
       ELSE [ctxs EXCEPT ![r.id] = LateStep(c, ctx0, r)]
TwoDelivery(c) ==
  LET e == Exchange(c) IN
  IF ~e.reply \/ e.fin.res = "ok" THEN [retried |-> FALSE]
  ELSE LET ctxs1 == FirstEffect(c, e.ctxs, e.r) IN
       [retried |-> TRUE, ctxs |-> ctxs1, r |-> e.genuine, fin |-> Finalize(c, ctxs1, e.genuine)]
\* the algebra's verdict for the second delivery must not depend on what the implementation left behind
\* after the first one: it is the verdict of the genuine reply against the contexts as they were
Verdict2(c) ==
  LET t == TwoDelivery(c)
      e == Exchange(c) IN
  IF ~t.retried THEN "none"
  ELSE IF t.r.id \notin DOMAIN e.ctxs THEN "may_fail"
  ELSE LET a == Asm(c, e.ctxs[t.r.id], t.r, "ideal") IN
       IF ConsensusValid(a.tx) /\ FeeOk(a.tx) /\ Exact(c, a.tx) THEN "may_fail" ELSE "must_fail"
Predict2(c) ==
  LET t == TwoDelivery(c) IN
  IF ~t.retried THEN [res |-> "none", why |-> ""] ELSE [res |-> t.fin.res, why |-> t.fin.why]

\* The verdict of the ALGEBRA, independent of which checks the code makes and of how it puts the
\* pieces together: even the most lenient assembly of the finalizer's context with the altered reply is
\* invalid under consensus, under-paid in fee, or not the deal.  Where no context is named the reply has
\* changed none of the facts (nothing can be produced): either outcome is acceptable.  Fields that are
\* not facts of the transaction (state, num_participants, version, ttl, amount and fee echoed in an S2
\* reply, duplicates) never make a case must_fail.
Verdict(c) ==
  LET e == Exchange(c) IN
  IF ~e.reply THEN "no_reply"
  ELSE IF e.r.id \notin DOMAIN e.ctxs THEN "may_fail"
  ELSE LET a == Asm(c, e.ctxs[e.r.id], e.r, "ideal") IN
       IF ConsensusValid(a.tx) /\ FeeOk(a.tx) /\ Exact(c, a.tx) THEN "may_fail" ELSE "must_fail"

\* what the transcription of the pinned code does: "ok" / "err" (+ the failing check)
Predict(c) ==
  LET e == Exchange(c) IN
  IF ~e.reply THEN [res |-> "noreply", why |-> e.why] ELSE [res |-> e.fin.res, why |-> e.fin.why]

\* error classes the harness reports (world::err_class) for the checks whose error type is fixed
ErrClass(why) == CASE why = "expired" -> "err:expired" [] why = "state" -> "err:state" [] why = "fee" -> "err:fee"
                   [] why = "proof" -> "err:proof" [] why = "notfound" -> "err:notfound" [] why = "panic" -> "panic" [] OTHER -> "*"

\* ---- Layer-P predicates on a finished case, model or observed.
\* obs: [res, tx: [ins, outs: sequences of [n, v] (v = -1: unknown to the registry), fee, nker, valid, stored_equal, mined, chain_ok],
\*       deal: [ins, chg, rout: sequences of [n, v]; amt; fee; known: the context existed at initiation],
\*       resv: [ins, chg: what the payer's store holds Locked / Unconfirmed for the slate, nsent: its live TxSent entries]]
NamesOf(s) == {s[i].n : i \in DOMAIN s}
ValsOf(s) == ISumSeq([i \in DOMAIN s |-> s[i].v])
FinalTxBroken(o) ==
  LET tx == o.tx
      d == o.deal
      rest == SelectSeq(tx.outs, LAMBDA x : x.n \notin NamesOf(o.resv.chg)) IN
  {m \in {"valid", "stored", "balance", "inputs", "change", "amount", "fee", "minfee", "kernel", "chain", "entries"} :
     CASE m = "valid"   -> ~tx.valid                                        \* the real verifier: sums, signature, range proofs
       [] m = "stored"  -> ~tx.stored_equal                                 \* byte-for-byte the transaction stored for re-posting
       [] m = "balance" -> \/ \E i \in DOMAIN tx.ins : tx.ins[i].v < 0
                           \/ \E i \in DOMAIN tx.outs : tx.outs[i].v < 0
                           \/ ValsOf(tx.ins) # ValsOf(tx.outs) + tx.fee
       [] m = "inputs"  -> \/ NamesOf(tx.ins) # NamesOf(o.resv.ins) \/ Len(tx.ins) # Cardinality(NamesOf(tx.ins))
                           \/ (d.known /\ NamesOf(tx.ins) # NamesOf(d.ins))
       [] m = "change"  -> \/ ~(NamesOf(o.resv.chg) \subseteq NamesOf(tx.outs))
                           \/ (d.known /\ (NamesOf(d.chg) # NamesOf(o.resv.chg) \/ ValsOf(d.chg) # ValsOf(o.resv.chg)))
                           \/ Len(tx.outs) # Cardinality(NamesOf(tx.outs))
       [] m = "amount"  -> \/ rest = <<>> \/ \E i \in DOMAIN rest : rest[i].v < 0
                           \/ ValsOf(rest) # d.amt
                           \/ NamesOf(rest) # NamesOf(d.rout)
       [] m = "fee"     -> tx.fee # d.fee
       [] m = "minfee"  -> tx.fee < Fee(Len(tx.ins), Len(tx.outs), tx.nker)
       [] m = "kernel"  -> tx.nker # 1
       [] m = "chain"   -> ~tx.chain_ok
       \* o.resv is read from the payer's store right after finalize: EVERY output Locked under ANY TxSent entry
       \* of the slate (so "inputs" above also says: nothing else is left Locked for it); exactly one such entry
       [] m = "entries" -> o.resv.nsent # 1}

\* TamperRefused: a reply the algebra condemns must not produce a transaction
TamperRefusedBroken(verdict, res) == verdict = "must_fail" /\ res = "ok"

\* StillCancellable: after a failed finalize (the last delivery of the case) the pending transaction of the slate in
\* the finalizing wallet can be cancelled - BY SLATE ID where the wallet holds one entry per slate (send, late,
\* invoice), by log id in the self flows (two entries share the id by design) - nothing stays pending and the
\* wallet's balances are what they were before the exchange began
StillCancellableBroken(o) ==
  /\ o.res # "ok"
  /\ \/ \E i \in DOMAIN o.cancel : o.cancel[i] # "ok"
     \/ o.pending_after > 0
     \/ o.after # o.before
=============================================================================
