CONSTANTS
  Reward = 60000
  Maturity = 3
  Slates = {"s1", "s2", "s3"}
  Amounts = {1000, 1001}
  NFund = 3
  MaxH = 14
  MaxLog = 7
  UseLate = TRUE
  UseTtl = TRUE
  UseInvoice = TRUE
  UseAccounts = TRUE
  UseMineTo = TRUE
  UseCancelBySlate = TRUE
  MaxAdv = 2
  MaxFork = 0
  UseScan = FALSE
  UseAccounts2 = TRUE
  UseSelf = TRUE
  FundAcct2 = FALSE
  UseBuild = TRUE
  NChanges = {1, 2}
  QuietW2 = FALSE
  UseFarTtl = TRUE
  UseDiverge = FALSE
  UseAdv = TRUE
SPECIFICATION Spec
INVARIANT TypeOK
INVARIANT Inv_Exclusive
PROPERTY Prop_Replay
PROPERTY Prop_SelectAvoidsReserved
PROPERTY Prop_Cancel
PROPERTY Prop_Foreign
PROPERTY Prop_Paths
PROPERTY Prop_Ttl
PROPERTY EmitEdges
CONSTRAINT Bound
VIEW View
CHECK_DEADLOCK FALSE
