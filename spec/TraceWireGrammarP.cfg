CONSTANTS
  Depth = "thorough"
  OverflowChecks = FALSE
  CheckM = FALSE
  PanicSites <- PinnedPanicSites
SPECIFICATION TSpec
POSTCONDITION Consumed
CHECK_DEADLOCK FALSE
