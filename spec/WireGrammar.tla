----------------------------- MODULE WireGrammar -----------------------------
(***************************************************************************)
(* C09  Decoding untrusted input never crashes the wallet.                 *)
(*                                                                         *)
(* Every external format the wallet accepts is described here as a         *)
(* sequence of LEAVES (fields with a kind, a width, a reader role and the  *)
(* pipeline stage that consumes them), for a set of instance SHAPES.       *)
(* MUTATION operators are defined per leaf kind.  A CASE is                *)
(*     (chain of nested layers, instance, mutated layer, leaf, mutation)   *)
(* e.g. "the u32 metadata length of the encrypted metadata, set to max,    *)
(* inside a ciphertext validly encrypted to the wallet, inside a binary    *)
(* slatepack, base58-checked and armored".                                 *)
(*                                                                         *)
(* The decoders are transcribed as READERS per leaf kind (what the code    *)
(* does with a truncated / over-long / out-of-range / misaligned field -   *)
(* including the places where the pinned code slices or unwraps without a  *)
(* check: PanicSites) and composed into the staged decode pipeline of      *)
(* every ENTRY POINT (Step / Run below).  The only legal outcomes of a     *)
(* run are Ok(value) or Err with the store untouched: property Total.      *)
(*                                                                         *)
(* Used three ways (DESIGN.md 1):                                          *)
(*   MC   MCWireGrammar.tla explores the pipeline state machine for every  *)
(*        (case, entry point) and checks Total / Bounded on the model;     *)
(*   GEN  the same module prints the instances (leaf lists) and the cases; *)
(*        harness/src/bin/replay_decode materialises them as bytes from    *)
(*        real encodings produced by the real code and feeds the real      *)
(*        decoders;                                                        *)
(*   TV   TraceWireGrammar.tla judges the recorded outcomes: Layer P =     *)
(*        Total on the observed data; Layer M = observed outcome is the    *)
(*        one Run predicts, and the real encoder's output parses under     *)
(*        the leaf lists given here.                                       *)
(*                                                                         *)
(* Deliberate under-modelling is named: an effect "any" (Havoc_Misaligned, *)
(* Havoc_Semantics) says the model does not predict whether the decoder    *)
(* accepts; Layer P still applies to those cases.                          *)
(*                                                                         *)
(* Reading of the property for the two JSON-RPC listeners: a request is    *)
(* "decoded" once envelope and parameter types are read; a method's own    *)
(* Err (result.Err, owner code -32099) is outcome "errm" - accepted as far *)
(* as decoding goes, and not constrained by RejectLeavesStore (what a      *)
(* method that ran may leave behind is C07's business).  A panic, hang or  *)
(* allocation blow-up anywhere in the handler is a violation.              *)
(*                                                                         *)
(* PanicSites are the model's names of the unchecked slices / unwraps of   *)
(* the pinned code (file::function#kind); the harness reports the observed *)
(* location normalised from the panic's file:line, which is what the       *)
(* finding keys are made of.                                               *)
(***************************************************************************)
EXTENDS Integers, Sequences, FiniteSets, TLC

CONSTANTS Depth,          \* "quick" | "thorough" : how much of the grammar x mutation product is enumerated
          PanicSites,     \* reader sites that slice / unwrap without a check in the transcribed code
          OverflowChecks  \* TRUE: arithmetic overflow panics (debug build); the shipped build wraps

\* The unchecked sites of the code the model transcribes (model names: file::function#kind).  The MC and trace
\* configurations substitute this set for PanicSites.  The slices / unwraps of armor.rs, ser.rs, v4_bin.rs,
\* slatepack/types.rs, lmdb.rs, ov3.rs, v4.rs (offset), api_impl/types.rs (key_id) and api/src/types.rs (nonce) found
\* by this check were repaired in /repo (fix: commits 7f20db4 .. a441d49, 011642f); the readers below transcribe the repaired code.
\* What is left is upstream: grin_util::from_hex slices a &str at byte offsets and panics inside a multi-byte
\* character; the wallet guards its own callers, the serde helpers of grin_core::libtx::secp_ser do not.
PinnedPanicSites == { "grin_util::from_hex#char-boundary" }
\* (still unguarded: grin_core::libtx::secp_ser pubkey_serde, option_sig_serde, commitment_from_hex, option_seckey_serde
\* - classes secphex, sighex, commithex, tokenhex below)

RECURSIVE Flat(_)
Flat(ss) == IF ss = <<>> THEN <<>> ELSE Head(ss) \o Flat(Tail(ss))
Str(i) == ToString(i)
SeqRange(s) == {s[i] : i \in DOMAIN s}

\* ------------------------------------------------------------------ leaves
\* n name, k kind, w width in bytes (0 = variable), a role / check class / literal,
\* x numeric argument (enum maximum), bits known flag bits, of governed leaf, g stage
Lf(n, k, w, a, x, bits, of, g) == [n |-> n, k |-> k, w |-> w, a |-> a, x |-> x, bits |-> bits, of |-> of, g |-> g]
Fix(n, w, chk, g)      == Lf(n, "fix", w, chk, 0, {}, "", g)
UInt(n, w, role, g)    == Lf(n, "u", w, role, 0, {}, "", g)
Enum(n, w, role, mx, g) == Lf(n, "u", w, role, mx, {}, "", g)
Pres(n, role, of, g)   == Lf(n, "u", 1, role, 1, {}, of, g)     \* presence byte of the optional leaf `of`
Flags(n, w, known, g)  == Lf(n, "u", w, "flags", 0, known, "", g)
LenP(n, w, of, g)      == Lf(n, "u", w, "len", 0, {}, of, g)
Cnt(n, w, of, g)       == Lf(n, "u", w, "cnt", 0, {}, of, g)
Blob(n, cls, of, g)    == Lf(n, "blob", 0, cls, 0, {}, of, g)   \* bytes whose length is the value of leaf `of`
Rest(n, g)             == Lf(n, "rest", 0, "inner", 0, {}, "", g) \* everything up to the end of the layer
Lit(n, text, g)        == Lf(n, "lit", 0, text, 0, {}, "", g)    \* literal text
Until(n, delim, g)     == Lf(n, "until", 0, delim, 0, {}, "", g) \* text up to (excluding) the next delimiter
\* JSON member addressed by pointer n; a = value class; x = 1 required, 0 optional; of = "null" when null is accepted
J(n, cls, req, nul, g) == Lf(n, "j", 0, cls, IF req THEN 1 ELSE 0, {}, IF nul THEN "null" ELSE "", g)

\* ------------------------------------------------------------ slate shapes
\* the abstract content of a V4 slate that decides which optional fields exist
\* (v4_bin.rs status bytes / v4.rs skip_serializing_if rules)
SlateShapes ==
  [ MIN  |-> [off |-> FALSE, np |-> FALSE, amt |-> FALSE, fee |-> FALSE, feat |-> 0, ttl |-> FALSE, sigs |-> <<>>,
              coms |-> <<>>, hascoms |-> FALSE, proof |-> "none"],
    S1p  |-> [off |-> FALSE, np |-> FALSE, amt |-> TRUE,  fee |-> TRUE,  feat |-> 0, ttl |-> FALSE, sigs |-> <<FALSE>>,
              coms |-> <<>>, hascoms |-> FALSE, proof |-> "nosig"],
    S2p  |-> [off |-> TRUE,  np |-> FALSE, amt |-> FALSE, fee |-> FALSE, feat |-> 0, ttl |-> FALSE, sigs |-> <<TRUE>>,
              coms |-> <<TRUE>>, hascoms |-> TRUE, proof |-> "sig"],
    S3p  |-> [off |-> TRUE,  np |-> FALSE, amt |-> FALSE, fee |-> TRUE,  feat |-> 0, ttl |-> FALSE, sigs |-> <<TRUE, TRUE>>,
              coms |-> <<FALSE, TRUE, TRUE>>, hascoms |-> TRUE, proof |-> "sig"],
    I2p  |-> [off |-> TRUE,  np |-> FALSE, amt |-> TRUE,  fee |-> TRUE,  feat |-> 0, ttl |-> TRUE,  sigs |-> <<TRUE>>,
              coms |-> <<FALSE, TRUE>>, hascoms |-> TRUE, proof |-> "none"],
    BIG  |-> [off |-> TRUE,  np |-> TRUE,  amt |-> TRUE,  fee |-> TRUE,  feat |-> 0, ttl |-> TRUE,  sigs |-> <<TRUE, FALSE, TRUE>>,
              coms |-> <<FALSE, FALSE, TRUE, TRUE>>, hascoms |-> TRUE, proof |-> "sig"],
    FULL |-> [off |-> TRUE,  np |-> TRUE,  amt |-> TRUE,  fee |-> TRUE,  feat |-> 2, ttl |-> TRUE,  sigs |-> <<FALSE, TRUE>>,
              coms |-> <<FALSE, TRUE>>, hascoms |-> TRUE, proof |-> "sig"] ]

\* --- V4 binary slate (libwallet/src/slate_versions/v4_bin.rs, SlateV4Bin::read)
SigLeaves(i, part) ==
  LET p == "sigs." \o Str(i) \o "." IN
  <<Pres(p \o "has_part", "pres1", p \o "part", "sigs"), Fix(p \o "xs", 33, "secp", "sigs"), Fix(p \o "nonce", 33, "secp", "sigs")>>
  \o (IF part THEN <<Fix(p \o "part", 64, "none", "sigs")>> ELSE <<>>)
ComLeaves(i, isout) ==
  LET p == "coms." \o Str(i) \o "." IN
  <<Pres(p \o "is_output", "pres1", p \o "p_len", "structs"), Enum(p \o "f", 1, "enumS", 1, "structs"), Fix(p \o "c", 33, "none", "structs")>>
  \o (IF isout THEN <<LenP(p \o "p_len", 8, p \o "p", "structs"), Blob(p \o "p", "raw", p \o "p_len", "structs")>> ELSE <<>>)
SlateBinLeaves(sh) ==
  <<UInt("version", 2, "plain", "slatehdr"), UInt("bhv", 2, "plain", "slatehdr"), Fix("id", 16, "none", "slatehdr"),
    Enum("sta", 1, "enumT", 6, "slatehdr"), Fix("off", 32, "none", "slatehdr"),
    Flags("optflags", 1, {0, 1, 2, 3, 4}, "optfields")>>
  \o (IF sh.np THEN <<UInt("num_parts", 1, "plain", "optfields")>> ELSE <<>>)
  \o (IF sh.amt THEN <<UInt("amt", 8, "plain", "optfields")>> ELSE <<>>)
  \o (IF sh.fee THEN <<UInt("fee", 8, "plain", "optfields")>> ELSE <<>>)
  \o (IF sh.feat # 0 THEN <<UInt("feat", 1, "feat", "optfields")>> ELSE <<>>)
  \o (IF sh.ttl THEN <<UInt("ttl", 8, "plain", "optfields")>> ELSE <<>>)
  \o <<Cnt("sigs_n", 1, "sigs", "sigs")>>
  \o Flat([i \in 1..Len(sh.sigs) |-> SigLeaves(i, sh.sigs[i])])
  \o <<Flags("structflags", 1, {0, 1}, "structs")>>
  \o (IF sh.hascoms THEN <<Cnt("coms_n", 2, "coms", "structs")>> \o Flat([i \in 1..Len(sh.coms) |-> ComLeaves(i, sh.coms[i])]) ELSE <<>>)
  \o (IF sh.proof # "none"
      THEN <<Fix("proof.saddr", 32, "edpk", "structs"), Fix("proof.raddr", 32, "edpk", "structs"),
             Pres("proof.has_rsig", "presnz", "proof.rsig", "structs")>>
           \o (IF sh.proof = "sig" THEN <<Fix("proof.rsig", 64, "edsig", "structs")>> ELSE <<>>)
      ELSE <<>>)
  \o (IF sh.feat = 2 THEN <<UInt("lock_hgt", 8, "plain", "tail")>> ELSE <<>>)

\* --- V4 JSON slate (libwallet/src/slate_versions/v4.rs, serde attributes)
SlateJsonLeaves(sh) ==
  <<J("/ver", "verstr", TRUE, FALSE, "jsonfields"), J("/id", "uuid", TRUE, FALSE, "jsonfields"),
    J("/sta", "stastr", TRUE, FALSE, "jsonfields")>>
  \o (IF sh.off THEN <<J("/off", "blindhex", FALSE, FALSE, "jsonfields")>> ELSE <<>>)     \* skip_serializing_if offset_is_zero
  \o (IF sh.np THEN <<J("/num_parts", "u8", FALSE, FALSE, "jsonfields")>> ELSE <<>>)
  \o (IF sh.amt THEN <<J("/amt", "numstr", FALSE, FALSE, "jsonfields")>> ELSE <<>>)
  \o (IF sh.fee THEN <<J("/fee", "feenum", FALSE, FALSE, "jsonfields")>> ELSE <<>>)
  \o (IF sh.feat # 0 THEN <<J("/feat", "u8", FALSE, FALSE, "jsonfields")>> ELSE <<>>)
  \o (IF sh.ttl THEN <<J("/ttl", "numstr", FALSE, FALSE, "jsonfields")>> ELSE <<>>)
  \o <<J("/sigs", "arr", TRUE, FALSE, "jsonfields")>>
  \o Flat([i \in 1..Len(sh.sigs) |->
        LET p == "/sigs/" \o Str(i - 1) IN
        <<J(p \o "/xs", "secphex", TRUE, FALSE, "jsonfields"), J(p \o "/nonce", "secphex", TRUE, FALSE, "jsonfields")>>
        \o (IF sh.sigs[i] THEN <<J(p \o "/part", "sighex", FALSE, TRUE, "jsonfields")>> ELSE <<>>)])
  \o (IF sh.hascoms
      THEN <<J("/coms", "arr", FALSE, TRUE, "jsonfields")>>
           \o Flat([i \in 1..Len(sh.coms) |->
                LET p == "/coms/" \o Str(i - 1) IN
                <<J(p \o "/c", "commithex", TRUE, FALSE, "jsonfields")>>
                \o (IF sh.coms[i] THEN <<J(p \o "/p", "proofhex", FALSE, TRUE, "jsonfields")>> ELSE <<>>)])
      ELSE <<>>)
  \o (IF sh.proof # "none"
      THEN <<J("/proof", "obj", FALSE, TRUE, "jsonfields"),
             J("/proof/saddr", "edpkhex", TRUE, FALSE, "jsonfields"), J("/proof/raddr", "edpkhex", TRUE, FALSE, "jsonfields")>>
           \o (IF sh.proof = "sig" THEN <<J("/proof/rsig", "edsighex", FALSE, TRUE, "jsonfields")>> ELSE <<>>)
      ELSE <<>>)
  \o (IF sh.feat = 2 THEN <<J("/feat_args", "obj", FALSE, TRUE, "jsonfields"),
                            J("/feat_args/lock_hgt", "u64", TRUE, FALSE, "jsonfields")>> ELSE <<>>)

\* --- binary slatepack (libwallet/src/slatepack/types.rs, SlatepackBin::read)
PackBinLeaves(sh) ==
  <<UInt("ver_major", 1, "plain", "packhdr"), UInt("ver_minor", 1, "plain", "packhdr"),
    Enum("mode", 1, "enumS", 1, "packhdr"), Flags("opt_flags", 2, {0}, "packhdr"),
    LenP("opt_len", 4, "(opt)", "packhdr")>>
  \o (IF sh.sender THEN <<LenP("sender_len", 1, "sender", "packhdr"), Blob("sender", "bech32", "sender_len", "packhdr")>> ELSE <<>>)
  \o <<LenP("payload_len", 8, "payload", "payload"), Blob("payload", "inner", "payload_len", "payload")>>

\* --- JSON slatepack (serde derive on Slatepack)
PackJsonLeaves(sh) ==
  <<J("/slatepack", "packver", TRUE, FALSE, "jsonfields"), J("/mode", "u8", TRUE, FALSE, "jsonfields")>>
  \o (IF sh.sender THEN <<J("/sender", "bech32", FALSE, TRUE, "jsonfields")>> ELSE <<>>)
  \o <<J("/payload", "b64inner", TRUE, FALSE, "jsonfields")>>

\* --- encrypted metadata, the head of the age plaintext (SlatepackEncMetadataBin::read,
\*     Slatepack::try_decrypt_payload)
EncMetaLeaves(sh) ==
  <<LenP("meta_len", 4, "(meta)", "metalen"), Flags("meta_flags", 2, {0, 1}, "metadata")>>
  \o (IF sh.sender THEN <<LenP("msender_len", 1, "msender", "metadata"), Blob("msender", "bech32", "msender_len", "metadata")>> ELSE <<>>)
  \o (IF sh.nrec > 0
      THEN <<Cnt("rcount", 2, "recipients", "metadata")>>
           \o Flat([i \in 1..sh.nrec |-> <<LenP("r" \o Str(i) \o "_len", 1, "r" \o Str(i), "metadata"),
                                            Blob("r" \o Str(i), "bech32", "r" \o Str(i) \o "_len", "metadata")>>])
      ELSE <<>>)
  \o <<Rest("slate", "metadata")>>

\* --- armor (libwallet/src/slatepack/armor.rs) and its base58check body
ArmorLeaves ==
  <<Lit("hdr", "BEGINSLATEPACK", "frame"), Lit("dot1", ".", "frame"), Lit("sp1", " ", "frame"),
    Until("body", ".", "base58"), Lit("dot2", ".", "frame"), Lit("sp2", " ", "frame"),
    Lit("ftr", "ENDSLATEPACK", "frame"), Lit("dot3", ".", "frame"), Lit("nl", "\n", "frame")>>
B58Leaves == <<Fix("check", 4, "none", "check"), Rest("pack", "check")>>

\* --- age layer: one pseudo leaf, the ciphertext as a whole
AgeLeaves == <<Rest("ciphertext", "decrypt")>>

\* --- addresses
SpAddrLeaves == <<Until("hrp", "1", "bech32"), Lit("sep", "1", "bech32"), Rest("data", "bech32")>>
OnionLeaves  == <<Rest("b32", "onion")>>

\* --- payment proof JSON (libwallet/src/api_impl/types.rs PaymentProof)
ProofJsonLeaves ==
  <<J("/amount", "numstr", TRUE, FALSE, "jsonfields"), J("/excess", "commithex", TRUE, FALSE, "jsonfields"),
    J("/recipient_address", "bech32", TRUE, FALSE, "jsonfields"), J("/recipient_sig", "edsighexreq", TRUE, FALSE, "jsonfields"),
    J("/sender_address", "bech32", TRUE, FALSE, "jsonfields"), J("/sender_sig", "edsighexreq", TRUE, FALSE, "jsonfields")>>

\* --- stored transaction file <uuid>.grintx: hex text of the binary transaction
GrinTxLeaves == <<Rest("hex", "storedtx")>>

\* --- JSON-RPC envelopes (api/src/foreign_rpc.rs, owner_rpc.rs through easy_jsonrpc_mw)
RpcEnvLeaves ==
  <<J("/jsonrpc", "rpcver", FALSE, TRUE, "envelope"), J("/method", "method", TRUE, FALSE, "envelope"),
    J("/id", "rpcid", FALSE, TRUE, "envelope")>>
RpcLeaves(sh) ==
  RpcEnvLeaves \o <<J("/params", "params", sh.method # "check_version", sh.method = "check_version", "envelope")>> \o
  (CASE sh.method = "build_coinbase" ->
         <<J("/params/0/fees", "numstr", TRUE, FALSE, "paramfields"), J("/params/0/height", "numstr", TRUE, FALSE, "paramfields"),
           J("/params/0/key_id", "identhex", FALSE, TRUE, "paramfields")>>
     [] sh.method \in {"receive_tx"} ->
         <<J("/params/0", "innerjson", TRUE, FALSE, "params"), J("/params/1", "optstr", TRUE, TRUE, "params"),
           J("/params/2", "optstr", TRUE, TRUE, "params")>>
     [] sh.method = "finalize_tx" -> <<J("/params/0", "innerjson", TRUE, FALSE, "params")>>
     [] sh.method \in {"slate_from_slatepack_message", "decode_slatepack_message"} ->
         <<J("/params/token", "tokenhex", TRUE, TRUE, "params"), J("/params/message", "innertext", TRUE, FALSE, "params"),
           J("/params/secret_indices", "u32arr", TRUE, FALSE, "params")>>
     [] sh.method = "verify_payment_proof" ->
         <<J("/params/token", "tokenhex", TRUE, TRUE, "params"), J("/params/proof", "innerjson", TRUE, FALSE, "params")>>
     [] sh.method = "owner_finalize_tx" ->
         <<J("/params/token", "tokenhex", TRUE, TRUE, "params"), J("/params/slate", "innerjson", TRUE, FALSE, "params")>>
     [] sh.method = "get_stored_tx" ->
         <<J("/params/token", "tokenhex", TRUE, TRUE, "params"), J("/params/id", "optu32", TRUE, TRUE, "params"),
           J("/params/slate_id", "optuuid", TRUE, TRUE, "params")>>
     [] sh.method = "init_send_tx" ->      \* libwallet/src/api_impl/types.rs InitTxArgs (estimate_only: nothing is stored)
         <<J("/params/token", "tokenhex", TRUE, TRUE, "params"), J("/params/args", "obj", TRUE, FALSE, "params"),
           J("/params/args/src_acct_name", "optstr", FALSE, TRUE, "paramfields"), J("/params/args/amount", "numstr", TRUE, FALSE, "paramfields"),
           J("/params/args/minimum_confirmations", "numstr", TRUE, FALSE, "paramfields"), J("/params/args/max_outputs", "u32", TRUE, FALSE, "paramfields"),
           J("/params/args/num_change_outputs", "u32", TRUE, FALSE, "paramfields"),
           J("/params/args/selection_strategy_is_use_all", "bool", TRUE, FALSE, "paramfields"),
           J("/params/args/target_slate_version", "optu16", FALSE, TRUE, "paramfields"),
           J("/params/args/ttl_blocks", "optnumstr", FALSE, TRUE, "paramfields"),
           J("/params/args/payment_proof_recipient_address", "bech32", FALSE, TRUE, "paramfields"),
           J("/params/args/estimate_only", "bool", FALSE, TRUE, "paramfields"), J("/params/args/late_lock", "bool", FALSE, TRUE, "paramfields"),
           J("/params/args/send_args", "optobj", FALSE, TRUE, "paramfields")>>
     [] sh.method = "query_txs" ->         \* RetrieveTxQueryArgs
         <<J("/params/token", "tokenhex", TRUE, TRUE, "params"), J("/params/refresh_from_node", "bool", TRUE, FALSE, "params"),
           J("/params/query", "allopt", TRUE, FALSE, "params"),
           J("/params/query/min_id", "optu32", FALSE, TRUE, "paramfields"), J("/params/query/limit", "optu32", FALSE, TRUE, "paramfields"),
           J("/params/query/exclude_cancelled", "bool", FALSE, TRUE, "paramfields"),
           J("/params/query/min_amount", "optnumstr", FALSE, TRUE, "paramfields"),
           J("/params/query/min_creation_timestamp", "datetime", FALSE, TRUE, "paramfields"),
           J("/params/query/sort_field", "enumstr", FALSE, TRUE, "paramfields"), J("/params/query/sort_order", "enumstr", FALSE, TRUE, "paramfields")>>
     [] sh.method = "create_slatepack_message" ->
         <<J("/params/token", "tokenhex", TRUE, TRUE, "params"), J("/params/slate", "innerjson", TRUE, FALSE, "params"),
           J("/params/sender_index", "optu32", TRUE, TRUE, "params"), J("/params/recipients", "arr", TRUE, FALSE, "params"),
           J("/params/recipients/0", "bech32", FALSE, FALSE, "params")>>
     [] OTHER -> <<>>)
\* the encrypted owner envelope (api/src/types.rs EncryptedRequest)
EncReqLeaves ==
  <<J("/jsonrpc", "anystr", TRUE, FALSE, "encenv"), J("/method", "anystr", TRUE, FALSE, "encenv"),
    J("/id", "rpcid", TRUE, FALSE, "encenv"), J("/params/nonce", "noncehex", TRUE, FALSE, "encenv"),
    J("/params/body_enc", "b64inner", TRUE, FALSE, "encenv")>>

\* ---------------------------------------------------------- layers, chains
\* kind of reader per layer
LayerKind(ly) ==
  CASE ly \in {"packbin", "encmeta", "slatebin", "b58"} -> "bin"
    [] ly \in {"slatejson", "packjson", "proofjson", "rpcf", "rpco", "encreq"} -> "json"
    [] ly = "armor" -> "armor"
    [] ly = "age" -> "age"
    [] OTHER -> "text"      \* spaddr, onion, grintx

\* a chain is a nest of layers, outermost first; every layer below the mutated
\* one is re-wrapped validly by the harness (lengths, checksum, encryption)
Chains ==
  [ armor_plain |-> <<"armor", "b58", "packbin", "slatebin">>,
    armor_enc   |-> <<"armor", "b58", "packbin", "age", "encmeta", "slatebin">>,
    bin_plain   |-> <<"packbin", "slatebin">>,
    bin_enc     |-> <<"packbin", "age", "encmeta", "slatebin">>,
    json_plain  |-> <<"packjson", "slatebin">>,
    json_enc    |-> <<"packjson", "age", "encmeta", "slatebin">>,
    slatebin    |-> <<"slatebin">>,
    slatejson   |-> <<"slatejson">>,
    spaddr      |-> <<"spaddr">>,
    onion       |-> <<"onion">>,
    proofjson   |-> <<"proofjson">>,
    grintx      |-> <<"grintx">>,
    rpcf_recv   |-> <<"rpcf", "slatejson">>,
    rpcf_fin    |-> <<"rpcf", "slatejson">>,
    rpcf_cb     |-> <<"rpcf">>,
    rpcf_ver    |-> <<"rpcf">>,
    rpco_sfrom  |-> <<"encreq", "rpco", "armor", "b58", "packbin", "age", "encmeta", "slatebin">>,
    rpco_dec    |-> <<"encreq", "rpco", "armor", "b58", "packbin", "slatebin">>,
    rpco_proof  |-> <<"encreq", "rpco", "proofjson">>,
    rpco_fin    |-> <<"encreq", "rpco", "slatejson">>,
    rpco_stored |-> <<"encreq", "rpco">>,
    rpco_init   |-> <<"encreq", "rpco">>,
    rpco_query  |-> <<"encreq", "rpco">>,
    rpco_cspm   |-> <<"encreq", "rpco", "slatejson">> ]
ChainNames == DOMAIN Chains

\* instances: a name per chain and the shape of each of its layers
Shape(slate, packSender, metaSender, nrec, method) ==
  [slate |-> slate, pack |-> [sender |-> packSender], meta |-> [sender |-> metaSender, nrec |-> nrec], rpc |-> [method |-> method]]
Instances ==
  [ armor_plain |-> [a1 |-> Shape("S1p", TRUE, FALSE, 0, ""), a2 |-> Shape("S2p", FALSE, FALSE, 0, ""), a3 |-> Shape("FULL", TRUE, FALSE, 0, "")],
    armor_enc   |-> [e1 |-> Shape("S2p", FALSE, TRUE, 0, ""), e2 |-> Shape("S1p", FALSE, TRUE, 2, ""), e3 |-> Shape("S3p", FALSE, FALSE, 0, ""),
                     e4 |-> Shape("BIG", FALSE, TRUE, 3, "")],
    bin_plain   |-> [b1 |-> Shape("S1p", TRUE, FALSE, 0, ""), b2 |-> Shape("S3p", FALSE, FALSE, 0, "")],
    bin_enc     |-> [c1 |-> Shape("S2p", FALSE, TRUE, 1, ""), c2 |-> Shape("MIN", FALSE, FALSE, 0, "")],
    json_plain  |-> [j1 |-> Shape("S1p", TRUE, FALSE, 0, ""), j2 |-> Shape("S2p", FALSE, FALSE, 0, "")],
    json_enc    |-> [k1 |-> Shape("S2p", FALSE, TRUE, 0, "")],
    slatebin    |-> [MIN |-> Shape("MIN", FALSE, FALSE, 0, ""), S1p |-> Shape("S1p", FALSE, FALSE, 0, ""), S2p |-> Shape("S2p", FALSE, FALSE, 0, ""),
                     S3p |-> Shape("S3p", FALSE, FALSE, 0, ""), FULL |-> Shape("FULL", FALSE, FALSE, 0, ""),
                     I2p |-> Shape("I2p", FALSE, FALSE, 0, ""), BIG |-> Shape("BIG", FALSE, FALSE, 0, "")],
    slatejson   |-> [MIN |-> Shape("MIN", FALSE, FALSE, 0, ""), S1p |-> Shape("S1p", FALSE, FALSE, 0, ""), S2p |-> Shape("S2p", FALSE, FALSE, 0, ""),
                     S3p |-> Shape("S3p", FALSE, FALSE, 0, ""), FULL |-> Shape("FULL", FALSE, FALSE, 0, ""),
                     I2p |-> Shape("I2p", FALSE, FALSE, 0, ""), BIG |-> Shape("BIG", FALSE, FALSE, 0, "")],
    spaddr      |-> [ad |-> Shape("MIN", FALSE, FALSE, 0, "")],
    onion       |-> [on |-> Shape("MIN", FALSE, FALSE, 0, "")],
    proofjson   |-> [pp |-> Shape("MIN", FALSE, FALSE, 0, "")],
    grintx      |-> [tx |-> Shape("MIN", FALSE, FALSE, 0, "")],
    rpcf_recv   |-> [r1 |-> Shape("S1p", FALSE, FALSE, 0, "receive_tx")],
    rpcf_fin    |-> [f1 |-> Shape("S2p", FALSE, FALSE, 0, "finalize_tx")],
    rpcf_cb     |-> [cb |-> Shape("MIN", FALSE, FALSE, 0, "build_coinbase")],
    rpcf_ver    |-> [cv |-> Shape("MIN", FALSE, FALSE, 0, "check_version")],
    rpco_sfrom  |-> [o1 |-> Shape("S2p", FALSE, TRUE, 0, "slate_from_slatepack_message")],
    rpco_dec    |-> [o2 |-> Shape("S1p", TRUE, FALSE, 0, "decode_slatepack_message")],
    rpco_proof  |-> [o3 |-> Shape("MIN", FALSE, FALSE, 0, "verify_payment_proof")],
    rpco_fin    |-> [o4 |-> Shape("S2p", FALSE, FALSE, 0, "owner_finalize_tx")],
    rpco_stored |-> [o5 |-> Shape("MIN", FALSE, FALSE, 0, "get_stored_tx")],
    rpco_init   |-> [o6 |-> Shape("MIN", FALSE, FALSE, 0, "init_send_tx")],
    rpco_query  |-> [o7 |-> Shape("MIN", FALSE, FALSE, 0, "query_txs")],
    rpco_cspm   |-> [o8 |-> Shape("S1p", FALSE, FALSE, 0, "create_slatepack_message")] ]

LayerLeaves(ly, sh) ==
  CASE ly = "armor"     -> ArmorLeaves
    [] ly = "b58"       -> B58Leaves
    [] ly = "packbin"   -> PackBinLeaves(sh.pack)
    [] ly = "packjson"  -> PackJsonLeaves(sh.pack)
    [] ly = "age"       -> AgeLeaves
    [] ly = "encmeta"   -> EncMetaLeaves(sh.meta)
    [] ly = "slatebin"  -> SlateBinLeaves(SlateShapes[sh.slate])
    [] ly = "slatejson" -> SlateJsonLeaves(SlateShapes[sh.slate])
    [] ly = "spaddr"    -> SpAddrLeaves
    [] ly = "onion"     -> OnionLeaves
    [] ly = "proofjson" -> ProofJsonLeaves
    [] ly = "grintx"    -> GrinTxLeaves
    [] ly \in {"rpcf", "rpco"} -> RpcLeaves(sh.rpc)
    [] ly = "encreq"    -> EncReqLeaves

\* computed once by TLC (constant-level, no parameters)
LeavesTable ==
  [ch \in ChainNames |-> [i \in DOMAIN Instances[ch] |->
      [k \in 1..Len(Chains[ch]) |-> LayerLeaves(Chains[ch][k], Instances[ch][i])]]]

\* ---------------------------------------------------------------- mutations
Mu(m, a) == [m |-> m, a |-> a]
Thorough == Depth = "thorough"

BinStructural(lf, last) ==
  {Mu("trunc_before", ""), Mu("delete", ""), Mu("dup", "")}
  \cup (IF lf.w >= 2 \/ lf.k \in {"blob", "rest"} THEN {Mu("trunc_inside", "")} ELSE {})
  \cup (IF last THEN {Mu("extend", "1"), Mu("extend", "64")} \cup (IF Thorough THEN {Mu("extend", "256")} ELSE {}) ELSE {})
FlagBits(lf) ==
  IF Thorough THEN 0..(8 * lf.w - 1)
  ELSE lf.bits \cup {8 * lf.w - 1} \cup {CHOOSE b \in 0..(8 * lf.w - 1) : b \notin lf.bits}
BinValue(lf) ==
  CASE lf.k = "fix" /\ lf.a = "none"  -> {Mu("fill", "zero"), Mu("fill", "ones")} \cup (IF Thorough THEN {Mu("flip", "0"), Mu("flip", Str(8 * lf.w - 1))} ELSE {})
    [] lf.k = "fix" /\ lf.a = "secp"  -> {Mu("fill", "zero"), Mu("badpoint", "prefix"), Mu("badpoint", "offcurve")}
    [] lf.k = "fix" /\ lf.a = "edpk"  -> {Mu("badpoint", "nondecomp")}
    [] lf.k = "fix" /\ lf.a = "edsig" -> {Mu("badpoint", "highs")}
    [] lf.k = "u" /\ lf.a = "plain"   -> {Mu("set", "v0"), Mu("set", "max")} \cup (IF Thorough THEN {Mu("set", "v1"), Mu("set", "dec"), Mu("set", "inc")} ELSE {})
    [] lf.k = "u" /\ lf.a \in {"enumS", "enumT"} -> {Mu("set", "v" \o Str(lf.x + 1)), Mu("set", "max")}
    [] lf.k = "u" /\ lf.a \in {"pres1", "presnz"} -> {Mu("set", "v0"), Mu("set", "v1"), Mu("set", "v2"), Mu("set", "max")}
    [] lf.k = "u" /\ lf.a = "feat"    -> {Mu("set", "v0"), Mu("set", "v1"), Mu("set", "v2"), Mu("set", "v3"), Mu("set", "max")}
    [] lf.k = "u" /\ lf.a = "flags"   -> {Mu("flip", Str(b)) : b \in FlagBits(lf)}
    \* a length prefix: 0, one less, one more, the largest value, and the values around the END OF THE
    \* INPUT: "rem" = exactly the bytes that follow the prefix, "rem1" = one more than that, "tot" = the
    \* bytes that follow plus the prefix itself (the classic place for an off-by-the-prefix bounds check)
    [] lf.k = "u" /\ lf.a = "len"     -> {Mu("set", "v0"), Mu("set", "dec"), Mu("set", "inc"), Mu("set", "max"),
                                          Mu("set", "rem"), Mu("set", "rem1"), Mu("set", "tot")}
    [] lf.k = "u" /\ lf.a = "cnt"     -> {Mu("set", "v0"), Mu("set", "inc"), Mu("set", "max")}
    [] lf.k = "blob" /\ lf.a = "bech32" -> {Mu("nonutf8", ""), Mu("char", "flip"), Mu("fill", "zero")}
    [] lf.k = "blob" /\ lf.a = "raw"  -> {Mu("fill", "zero")}
    [] OTHER -> {}
BinMuts(lf, last) == BinStructural(lf, last) \cup BinValue(lf)

\* text frames of the armor: remove / duplicate a delimiter or a frame, change case,
\* cut the text, replace the body
ArmorMuts(lf, last) ==
  {Mu("trunc_before", ""), Mu("delete", ""), Mu("dup", "")}
  \cup (IF lf.n \in {"hdr", "ftr"} THEN {Mu("case", "lower"), Mu("nonutf8", ""), Mu("trunc_inside", ""), Mu("char", "ws")} ELSE {})
  \* filler: the frames tolerate runs of discardable characters (blank, tab, CR, LF, '>').  A run of k of them
  \* AHEAD of the header (a pasted, quoted message), an input that is NOTHING BUT filler, and a filler run followed
  \* by a cut header - with lengths around the size bound of deser_slatepack (min_size = 15 = Len(header) + 1)
  \cup (IF lf.n = "hdr" THEN {Mu("pad", "1"), Mu("pad", "14"), Mu("pad", "15"), Mu("pad", "64"),
                              Mu("padonly", "14"), Mu("padonly", "15"), Mu("padonly", "16"), Mu("padonly", "64"),
                              Mu("padcut", "15"), Mu("padcut", "20")} ELSE {})
  \cup (IF lf.n = "body" THEN {Mu("body", "empty"), Mu("body", "short"), Mu("char", "bad58"), Mu("char", "flip"),
                               Mu("char", "ws"), Mu("nonutf8", ""), Mu("trunc_inside", "")} ELSE {})
  \cup (IF last THEN {Mu("extend", "1"), Mu("extend", "64"), Mu("extend", "max")} ELSE {})

\* the ciphertext as a whole: corrupted, cut, encrypted to somebody else, a
\* passphrase-type age file, and plaintexts too short to hold the metadata length
AgeMuts == {Mu("char", "flip"), Mu("trunc_inside", ""), Mu("empty", ""), Mu("age", "otherkey"), Mu("age", "scrypt"),
            Mu("age", "plain0"), Mu("age", "plain3"), Mu("age", "noheader")}

JsonStrVariants(cls) ==
  CASE cls \in {"secphex", "sighex", "commithex", "proofhex", "edpkhex", "edsighex", "edsighexreq", "blindhex", "identhex",
                "tokenhex", "noncehex"} ->
         {"empty", "short", "long", "odd", "nonhex", "nonascii"} \cup (IF cls \in {"secphex", "edpkhex", "edsighex", "edsighexreq"} THEN {"badpoint"} ELSE {})
         \* the hex decoder underneath (grin_util::from_hex) is lenient: it trims blanks and strips any number of leading "0x".
         \* Texts of the RIGHT LENGTH that decode to FEWER bytes (a byte replaced by "0x", by "0x0x", by trailing blanks; nothing but
         \* blanks), and the right bytes behind a prefix:
         \cup {"lenient_0x", "lenient_0x0x", "lenient_tail", "lenient_blank", "lenient_prefixed"}
    [] cls \in {"uuid", "optuuid"} -> {"empty", "short", "nonhex", "nonascii"}
    [] cls = "verstr"  -> {"empty", "nosep", "twosep", "alpha", "big"}
    [] cls = "packver" -> {"empty", "nosep", "twosep", "alpha", "big"}
    [] cls \in {"stastr", "enumstr", "datetime"} -> {"empty", "unknown"}
    [] cls = "bech32"  -> {"empty", "short", "flip", "nosep", "upper", "nonascii"}
    [] cls = "b64inner" -> {"empty", "short", "badchar", "nonascii"}
    [] cls \in {"method", "anystr"} -> {"empty", "unknown"}
    [] cls = "rpcver"  -> {"empty", "unknown"}
    [] cls \in {"optstr"} -> {"empty", "nonascii", "spaddr"}    \* spaddr: a well-formed slatepack address (a reply destination?)
    [] OTHER -> {}
JsonNumVariants(cls) ==
  CASE cls \in {"numstr", "u64", "feenum", "optnumstr"} -> {"neg", "float", "big", "max", "zero", "asstr", "strbad"}
    [] cls \in {"u8", "optu32", "u32", "optu16"} -> {"neg", "float", "big", "v256", "zero", "asstr"}
    [] OTHER -> {}
JsonMuts(lf, last) ==
  {Mu("delkey", ""), Mu("dupkey", ""), Mu("null", ""), Mu("addkey", "")}
  \cup {Mu("type", t) : t \in {"num", "str", "arr", "obj", "bool"}}
  \cup {Mu("str", v) : v \in JsonStrVariants(lf.a)}
  \cup {Mu("num", v) : v \in JsonNumVariants(lf.a)}
  \cup (IF lf.a \in {"arr", "obj", "allopt", "params", "u32arr"} THEN {Mu("deep", "200"), Mu("deep", "100000"), Mu("arr", "empty"), Mu("arr", "long")} ELSE {})
  \cup (IF last THEN {Mu("doc", "trunc"), Mu("doc", "junk"), Mu("doc", "ws"), Mu("doc", "nonutf8"), Mu("doc", "empty"),
                      Mu("doc", "bom"), Mu("doc", "array"), Mu("doc", "bigstr")} ELSE {})

TextMuts(ly, lf, last) ==
  {Mu("trunc_inside", ""), Mu("empty", ""), Mu("char", "flip"), Mu("char", "bad"), Mu("nonutf8", ""), Mu("nonascii", ""),
   Mu("case", "upper"), Mu("extend", "1"), Mu("delete", ""), Mu("dup", "")}
  \cup (IF ly = "onion" THEN {Mu("onion", "http"), Mu("onion", "suffix"), Mu("onion", "hex"), Mu("onion", "hexshort"), Mu("onion", "hexlong")} ELSE {})
  \cup (IF ly = "grintx" THEN {Mu("grintx", "odd"), Mu("grintx", "cuttx"), Mu("grintx", "zeros")} ELSE {})

Muts(ly, lf, last) ==
  CASE LayerKind(ly) = "bin"   -> BinMuts(lf, last)
    [] LayerKind(ly) = "armor" -> ArmorMuts(lf, last)
    [] LayerKind(ly) = "age"   -> AgeMuts
    [] LayerKind(ly) = "json"  -> JsonMuts(lf, last)
    [] OTHER                   -> TextMuts(ly, lf, last)

\* -------------------------------------------------------------------- cases
\* which (chain, instance, layer index) triples are mutated at which depth: the
\* quick tier mutates every layer kind once, the thorough tier every layer of
\* every instance of every chain
QuickPlan ==
  { <<"armor_plain", "a1", 1>>, <<"armor_plain", "a1", 2>>, <<"armor_plain", "a1", 3>>,
    <<"armor_enc", "e1", 4>>, <<"armor_enc", "e1", 5>>, <<"armor_enc", "e1", 6>>, <<"bin_enc", "c1", 3>>,
    <<"bin_plain", "b1", 1>>, <<"json_plain", "j1", 1>>, <<"json_enc", "k1", 2>>,
    <<"slatebin", "FULL", 1>>, <<"slatebin", "S2p", 1>>, <<"slatejson", "FULL", 1>>, <<"slatejson", "S2p", 1>>,
    <<"spaddr", "ad", 1>>, <<"onion", "on", 1>>, <<"proofjson", "pp", 1>>, <<"grintx", "tx", 1>>,
    <<"rpcf_recv", "r1", 1>>, <<"rpcf_recv", "r1", 2>>, <<"rpcf_cb", "cb", 1>>, <<"rpcf_ver", "cv", 1>>,
    <<"rpco_sfrom", "o1", 1>>, <<"rpco_sfrom", "o1", 2>>, <<"rpco_sfrom", "o1", 3>>, <<"rpco_proof", "o3", 3>>,
    <<"rpco_stored", "o5", 2>>, <<"rpco_init", "o6", 2>>, <<"rpco_query", "o7", 2>>, <<"rpco_cspm", "o8", 2>> }
FullPlan == {<<ch, i, k>> : ch \in ChainNames, i \in UNION {DOMAIN Instances[c] : c \in ChainNames}, k \in 1..8}
Plan == {t \in (IF Thorough THEN FullPlan ELSE QuickPlan) :
           t[1] \in ChainNames /\ t[2] \in DOMAIN Instances[t[1]] /\ t[3] <= Len(Chains[t[1]])}

\* size class of the materialised input with respect to the bounds of deser_slatepack / PathToSlatepack
\* (min_size = 15, max_size = 32 x max_tx_weight + 30).  The model knows it for the mutations that aim at the
\* bounds; trace validation binds it from the logged length (a duplicated payload may or may not cross the bound).
ModelSz(ch, k, j, lf, mu) ==
  IF k = 1 /\ mu.m = "extend" /\ mu.a = "max" THEN "big"
  ELSE IF k = 1 /\ Chains[ch][1] = "armor" /\ mu.m = "trunc_before" /\ lf.n \in {"hdr", "dot1"} THEN "small"
  ELSE IF k = 1 /\ mu.m = "empty" THEN "small"
  ELSE IF k = 1 /\ mu.m = "padonly" /\ mu.a = "14" THEN "small"
  ELSE IF k = 1 /\ mu.m = "doc" /\ mu.a = "empty" THEN "small"
  ELSE IF k = 1 /\ Chains[ch][1] = "packbin" /\ mu.m \in {"trunc_before", "trunc_inside"} /\ j <= 5 THEN "small"
  ELSE "ok"
Case(ch, i, k, j, lf, mu) == [chain |-> ch, inst |-> i, layer |-> k, lname |-> Chains[ch][k], leaf |-> j, ln |-> lf.n, m |-> mu.m, a |-> mu.a,
                              sz |-> ModelSz(ch, k, j, lf, mu)]
Cases ==
  UNION { LET Ls == LeavesTable[t[1]][t[2]][t[3]] IN
          UNION { {Case(t[1], t[2], t[3], j, Ls[j], mu) : mu \in Muts(Chains[t[1]][t[3]], Ls[j], j = Len(Ls))} : j \in DOMAIN Ls }
        : t \in Plan }
CaseLeaf(c) == LeavesTable[c.chain][c.inst][c.layer][c.leaf]
CaseLeaves(c) == LeavesTable[c.chain][c.inst][c.layer]
CaseShape(c) == Instances[c.chain][c.inst]
IsInst(ch, i) == ch \in ChainNames /\ i \in DOMAIN Instances[ch]
IsCase(c) == /\ c.chain \in ChainNames /\ c.inst \in DOMAIN Instances[c.chain]
             /\ c.layer \in 1..Len(Chains[c.chain]) /\ c.lname = Chains[c.chain][c.layer]
             /\ c.leaf \in DOMAIN CaseLeaves(c) /\ CaseLeaf(c).n = c.ln
             /\ Mu(c.m, c.a) \in Muts(c.lname, CaseLeaf(c), c.leaf = Len(CaseLeaves(c)))

\* ------------------------------------------------------------------ effects
\* what the reader of the mutated layer does: t in
\*   cont      the layer decodes and nothing changes further in
\*   err       the reader returns Err
\*   panic     the reader unwinds (site names the place)
\*   any       Havoc: the model does not say (misaligned reads of attacker bytes)
\*   innererr  this layer decodes, the next layer in receives a damaged payload and errs
\*   innerany  this layer decodes, the next layer in is misaligned
E(t) == [t |-> t, site |-> ""]
PanicAt(site) == IF site \in PanicSites THEN [t |-> "panic", site |-> site] ELSE E("err")
Havoc_Misaligned == E("any")
Havoc_Semantics  == E("any")

\* u32 subtraction below zero: wraps in the shipped build (the skip loop then runs into EOF), panics with overflow checks
SubOverflow(site) == IF OverflowChecks THEN [t |-> "panic", site |-> site] ELSE E("err")

\* length prefixes
LenEff(ly, Ls, j, mu, sh) ==
  LET lf == Ls[j] IN
  CASE lf.n = "payload_len" ->        \* read_bytes_len_prefix; payload is the last field
         (CASE mu.a = "v0" -> E("innererr") [] mu.a = "dec" -> E("innererr") [] mu.a = "inc" -> E("err")
            [] mu.a = "rem" -> E("cont")     \* the payload is the last field: unchanged
            [] OTHER -> E("err"))
    [] lf.n = "opt_len" ->            \* bytes_to_payload (u32) minus the encoded sender, then skipped byte by byte
         LET orig0 == ~sh.pack.sender IN
         (CASE mu.a = "v0"  -> IF orig0 THEN E("cont") ELSE SubOverflow("types.rs::SlatepackBin::read#sub-overflow")
            [] mu.a = "dec" -> SubOverflow("types.rs::SlatepackBin::read#sub-overflow")
            [] mu.a = "inc" -> E("err")      \* one byte of the payload length is skipped: the length becomes >= 256 times too large
            [] OTHER        -> E("err"))     \* skips to the end of input
    [] lf.n = "meta_len" ->           \* try_decrypt_payload: decrypted.split_off(meta_len + 4), then SlatepackEncMetadataBin::read
         (CASE mu.a = "v0"  -> E("err")
            [] mu.a = "dec" -> E("err")      \* the last metadata field (an address, or the flags themselves) is cut: EOF
            [] mu.a = "inc" -> E("innerany")
            [] mu.a = "rem" -> E("innererr")  \* the metadata takes the whole plaintext (trailing bytes are not looked at): empty slate
            [] OTHER        -> E("err"))     \* meta_len + 4 beyond the plaintext (max, rem1, tot): "Invalid encrypted metadata length"
    [] lf.a = "len" /\ \E i \in DOMAIN Ls : Ls[i].n = lf.of /\ Ls[i].a = "bech32" ->
         \* bech32 text cut / extended / empty; an end-of-input value does not fit the one-byte prefix and wraps: no prediction
         IF mu.a \in {"rem", "rem1", "tot"} THEN Havoc_Misaligned ELSE E("err")
    [] lf.a = "len" /\ \E i \in DOMAIN Ls : Ls[i].n = lf.of /\ Ls[i].a = "raw" ->              \* RangeProof::read: min(len, MAX_PROOF_SIZE)
         (CASE mu.a \in {"inc", "max"} -> E("cont") [] OTHER -> Havoc_Misaligned)
    [] OTHER -> Havoc_Semantics
\* ---- binary readers (grin_core::ser BinReader: every read_* returns Err at EOF;
\*      read_fixed_bytes refuses more than 100_000 bytes; readers never look for EOF)
BinEff(ly, Ls, j, mu, sh) ==
  LET lf == Ls[j]
      last == j = Len(Ls)
      hasInner == lf.k \in {"blob", "rest"} /\ lf.a = "inner"
  IN
  CASE mu.m = "trunc_before" -> IF ly = "b58" /\ lf.n = "check" THEN E("err")                                   \* fewer than 4 decoded bytes: "Payload too short"
                                 ELSE IF ly = "b58" /\ lf.n = "pack" THEN E("innererr")                        \* 4 bytes: check of empty data mismatches
                                 ELSE IF ly = "encmeta" /\ lf.n = "slate" THEN E("innererr")
                                 ELSE E("err")          \* encmeta: plaintext shorter than 4 bytes / than meta_len + 4 is checked before split_off
    [] mu.m = "trunc_inside" -> IF ly = "encmeta" /\ lf.n = "slate" THEN E("innererr")
                                 ELSE E("err")          \* b58: too short / check mismatch; encmeta: length checks; elsewhere EOF
    [] mu.m = "extend"       -> IF ly = "b58" THEN E("err")                       \* check covers all of the data
                                 ELSE IF ly = "encmeta" THEN E("cont")            \* trailing bytes of the slate are not looked at
                                 ELSE E("cont")
    [] mu.m = "delete"       -> IF ly = "b58" THEN E("err")
                                 ELSE IF ly = "encmeta" /\ lf.n = "meta_len" THEN Havoc_Misaligned
                                 ELSE IF last THEN (IF hasInner /\ lf.k = "rest" THEN E("innererr") ELSE E("err"))   \* a blob's length prefix stays: EOF
                                 ELSE Havoc_Misaligned
    [] mu.m = "dup"          -> IF ly = "b58" THEN E("err")
                                 ELSE IF last THEN E("cont") ELSE Havoc_Misaligned
    [] mu.m = "fill"         -> IF ly = "b58" THEN E("err")
                                 ELSE IF lf.k = "fix" /\ lf.a = "secp" THEN E("err")               \* PublicKey::from_slice
                                 ELSE IF lf.k = "blob" /\ lf.a = "bech32" THEN E("err")
                                 ELSE E("cont")                                                   \* id, offset, commitments, signatures, proofs: any bytes
    [] mu.m = "badpoint"     -> IF lf.a = "secp" THEN E("err")
                                 ELSE E("err")                                                    \* ProofWrap::read maps both to CorruptedData
    [] mu.m \in {"nonutf8", "char"} -> E("err")                                                   \* address text: from_utf8 / bech32 checksum
    [] mu.m = "flip" /\ lf.k = "fix" -> IF ly = "b58" THEN E("err") ELSE E("cont")                   \* a bit of an unchecked fixed field
    [] mu.m = "flip"         -> IF mu.a \in {Str(b) : b \in lf.bits} THEN Havoc_Misaligned          \* an optional field appears / disappears
                                 ELSE E("cont")                                                   \* reserved bits are ignored
    [] mu.m = "set" /\ lf.a = "plain" -> E("cont")
    [] mu.m = "set" /\ lf.a = "enumT" -> E("cont")                                                \* slate state: unknown values map to Unknown
    [] mu.m = "set" /\ lf.a = "enumS" -> E("err")                                                 \* mode > 1, OutputFeatures::from_u8
    [] mu.m = "set" /\ lf.a = "pres1" ->                                                          \* `1 => Some(read), 0 | _ => None`
         LET wasPresent == \E i \in DOMAIN Ls : Ls[i].n = lf.of
             nowPresent == mu.a = "v1" IN
         IF wasPresent = nowPresent THEN E("cont") ELSE Havoc_Misaligned
    [] mu.m = "set" /\ lf.a = "presnz" ->                                                         \* `0 => None, 1 | _ => Some(read)`
         LET wasPresent == \E i \in DOMAIN Ls : Ls[i].n = lf.of
             nowPresent == mu.a # "v0" IN
         IF wasPresent = nowPresent THEN E("cont")
         ELSE IF nowPresent THEN E("err")     \* 64 bytes wanted, at most a lock height follows: EOF
         ELSE E("cont")                       \* the signature bytes stay unread; a lock height (feat = 2) is read from them
    [] mu.m = "set" /\ lf.a = "feat" ->
         LET was2 == sh.slateshape.feat = 2  now2 == mu.a = "v2" IN
         IF was2 = now2 THEN E("cont") ELSE IF now2 THEN E("err") ELSE E("cont")                   \* a lock height is read iff feat = 2
    [] mu.m = "set" /\ lf.a = "cnt" -> Havoc_Misaligned
    [] mu.m = "set" /\ lf.a = "len" -> LenEff(ly, Ls, j, mu, sh)
    [] OTHER -> Havoc_Semantics

\* ---- armor text (SlatepackArmor::decode after Slatepacker::deser_slatepack's test of the first 15 bytes)
ArmorEff(lf, mu) ==
  LET n == lf.n IN
  CASE mu.m = "trunc_before" ->
         (CASE n \in {"hdr", "dot1"} -> E("err")                                    \* shorter than min_size
            [] n \in {"sp1", "body", "dot2"} -> E("err")                            \* no second period: "Bad armor framing"
            [] n \in {"sp2", "ftr"} -> E("err")                                     \* footer does not match
            [] OTHER -> E("cont"))                                                  \* dot3, nl: the footer regex needs no period
    [] mu.m = "trunc_inside" ->
         E("err")
    [] mu.m = "delete" ->
         (CASE n \in {"hdr", "dot1"} -> E("err")                                    \* not recognised as armor, not binary, not JSON
            [] n = "body" -> E("err")                                               \* empty payload: "Payload too short"
            [] n \in {"dot2", "ftr"} -> E("err")
            [] OTHER -> E("cont"))                                                  \* whitespace, last period, newline
    [] mu.m = "dup" ->
         (CASE n \in {"hdr", "dot1", "dot2", "ftr"} -> E("err")
            [] n = "body" -> E("err")                                               \* check mismatch
            [] OTHER -> E("cont"))
    [] mu.m = "case" -> E("err")
    [] mu.m = "nonutf8" -> E("err")
    \* deser_slatepack looks for the header in the very first bytes: a message with filler ahead of it is not
    \* taken for armor, is neither a binary nor a JSON slatepack, and is refused (SlatepackArmor::decode itself would accept it)
    [] mu.m \in {"pad", "padonly", "padcut"} -> E("err")
    [] mu.m = "char" /\ mu.a = "ws" -> IF n = "body" THEN E("cont") ELSE E("err")    \* whitespace inside a frame word breaks the regex
    [] mu.m = "char" -> E("err")                                                    \* not base58 / check mismatch
    [] mu.m = "body" -> E("err")                                                    \* fewer than 4 decoded bytes
    [] mu.m = "extend" -> IF mu.a = "max" THEN E("err") ELSE E("cont")              \* max_size bound; anything after the footer is ignored
    [] OTHER -> Havoc_Semantics

\* ---- age (Slatepack::try_decrypt_payload)
AgeEff(mu) ==
  E("err")     \* corrupted / foreign / passphrase-type ciphertexts and plaintexts shorter than the length prefix are all refused

\* ---- JSON (serde derive + the with-modules of slate_versions/ser.rs and grin_core secp_ser)
\* carrier = "value" when the document went through serde_json::Value first (JSON-RPC params),
\* "text" when it is deserialised from text
FromHexPanic == PanicAt("grin_util::from_hex#char-boundary")
LenientVariants == {"lenient_0x", "lenient_0x0x", "lenient_tail", "lenient_blank", "lenient_prefixed"}
JsonStrEff(cls, v) ==
  \* named havoc: which helpers go through the lenient decoder, and what each makes of fewer bytes, is not transcribed -
  \* any outcome but a panic (the property monitors still judge the observed run)
  CASE v \in LenientVariants -> Havoc_Semantics
    [] cls = "secphex"  -> IF v = "nonascii" THEN FromHexPanic ELSE E("err")                    \* secp_ser::pubkey_serde
    [] cls = "sighex"   -> (CASE v = "long" -> E("cont") [] v = "nonascii" -> FromHexPanic [] OTHER -> E("err"))   \* secp_ser::option_sig_serde
    [] cls = "commithex" -> (CASE v \in {"empty", "short", "long"} -> E("cont")      \* Commitment::from_vec pads / truncates
                               [] v = "nonascii" -> FromHexPanic [] OTHER -> E("err"))
    [] cls = "proofhex" ->       \* ser.rs option_rangeproof_hex: checked hex, at most MAX_PROOF_SIZE bytes, shorter is padded
         (CASE v \in {"empty", "short"} -> E("cont") [] OTHER -> E("err"))
    [] cls = "edpkhex"  -> E("err")                                                  \* ser.rs dalek_pubkey_serde: checked hex, exactly 32 bytes, a curve point
    [] cls \in {"edsighex", "edsighexreq"} ->                                        \* ser.rs (option_)dalek_sig_serde: at least 64 bytes, TryFrom<&[u8]>
         (CASE v = "long" -> E("cont") [] OTHER -> E("err"))
    [] cls = "blindhex" -> (CASE v \in {"empty", "short", "long"} -> E("cont")       \* v4.rs blind_from_hex: checked hex, BlindingFactor::from_slice pads / truncates
                              [] OTHER -> E("err"))
    [] cls = "identhex" -> (CASE v \in {"empty", "short", "long"} -> E("cont")       \* api_impl/types.rs option_identifier_from_hex; Identifier::from_bytes pads / truncates
                              [] OTHER -> E("err"))
    [] cls = "tokenhex" ->       \* secp_ser::option_seckey_serde: at least 32 bytes, the first 32 are used
         (CASE v = "long" -> E("cont") [] v = "nonascii" -> FromHexPanic [] OTHER -> E("err"))
    [] cls = "noncehex" ->       \* EncryptedBody::decrypt: ASCII, hex, at least 12 bytes, the first 12 are used
         (CASE v = "long" -> E("cont") [] OTHER -> E("err"))
    [] cls = "anystr" -> E("cont")      \* EncryptedRequest.jsonrpc / .method are Strings nobody looks at
    [] cls \in {"verstr", "packver", "stastr", "uuid", "bech32", "rpcver", "enumstr", "datetime"} -> IF cls = "bech32" /\ v = "upper" THEN E("cont") ELSE E("err")   \* bech32 is case-insensitive as a whole
    [] cls = "optuuid" -> E("err")
    [] cls = "b64inner" -> IF v \in {"empty", "short"} THEN E("innererr") ELSE E("err")   \* decodes, the payload is cut
    [] cls = "method" -> E("err")
    [] cls = "optstr" -> E("cont")
    [] OTHER -> Havoc_Semantics
JsonNumEff(cls, v) ==
  CASE cls \in {"numstr", "feenum", "optnumstr"} -> (CASE v \in {"max", "zero", "asstr"} -> E("cont") [] OTHER -> E("err"))
    [] cls = "u64" -> (CASE v \in {"max", "zero"} -> E("cont") [] OTHER -> E("err"))
    [] cls = "u8" -> (CASE v = "zero" -> E("cont") [] OTHER -> E("err"))
    [] cls \in {"optu32", "u32", "optu16"} -> (CASE v \in {"zero", "v256"} -> E("cont") [] OTHER -> E("err"))
    [] OTHER -> Havoc_Semantics
JsonTypeEff(cls, t) ==
  CASE cls \in {"numstr", "feenum", "optnumstr"} /\ t \in {"num", "str"} -> E("cont")      \* string_or_u64 / FeeFields: a number or a string of digits
    [] cls \in {"u8", "u64", "optu32", "u32", "optu16"} /\ t = "num" -> E("cont")
    [] cls = "bool" /\ t = "bool" -> E("cont")
    [] cls = "rpcid" /\ t \in {"num", "str"} -> E("cont")
    [] cls = "optstr" /\ t = "str" -> E("cont")
    [] OTHER -> E("err")
JsonEff(ly, lf, mu, carrier) ==
  CASE mu.m = "delkey" -> IF lf.x = 1 THEN E("err") ELSE E("cont")
    [] mu.m = "dupkey" -> IF ly = "rpcf" /\ lf.g = "params" THEN E("err")        \* positional parameter list: one argument too many
                          ELSE IF carrier = "value" THEN E("cont") ELSE E("err")  \* serde_json::Value keeps the last; derive rejects duplicates
    [] mu.m = "null"   -> IF lf.of = "null" THEN E("cont") ELSE E("err")
    [] mu.m = "addkey" -> IF ly \in {"rpcf", "rpco"} /\ lf.g \in {"envelope", "params"} THEN E("err")   \* easy_jsonrpc: unknown members / named parameters
                          ELSE E("cont")                                           \* no deny_unknown_fields in the wallet's own types
    [] mu.m = "type"   -> JsonTypeEff(lf.a, mu.a)
    [] mu.m = "str"    -> IF ly = "encreq" /\ lf.a = "b64inner" THEN E("err")       \* AES-GCM tag fails
                          ELSE JsonStrEff(lf.a, mu.a)
    [] mu.m = "num"    -> JsonNumEff(lf.a, mu.a)
    [] mu.m = "deep"   -> E("err")                                                 \* wrong type, or serde_json's recursion limit
    [] mu.m = "arr"    -> IF lf.a = "arr" THEN E("cont")           \* sigs / coms: any number of well-formed elements
                          ELSE IF lf.a = "obj" THEN E("err")      \* an object emptied of its required members, or turned into a list
                          ELSE IF lf.a = "allopt" THEN (IF mu.a = "empty" THEN E("cont") ELSE E("err"))   \* every member is an Option
                          ELSE Havoc_Semantics
    [] mu.m = "doc"    -> (CASE mu.a = "ws" -> E("cont")
                             [] mu.a = "array" -> IF ly \in {"rpcf", "rpco"} THEN E("cont") ELSE E("err")   \* a JSON-RPC batch of one
                             [] OTHER -> E("err"))
    [] OTHER -> Havoc_Semantics

\* ---- single-token text formats
TextEff(ly, mu) ==
  CASE ly = "grintx" ->     \* LMDBBackend::get_stored_tx: non-ASCII content, from_hex and deserialize failures are all Error::StoredTx
         (CASE mu.m = "case" -> E("cont")
            [] mu.m = "dup" -> Havoc_Semantics
            [] mu.m = "char" /\ mu.a = "flip" -> Havoc_Semantics                   \* still hex, may still be a transaction
            [] OTHER -> E("err"))
    [] ly = "onion" ->        \* OnionV3Address::try_from: ASCII only, then hex, then base32 + checksum
         (CASE mu.m = "case" -> E("cont")
            [] mu.m = "onion" /\ mu.a \in {"http", "suffix", "hex"} -> E("cont")
            [] OTHER -> E("err"))
    [] ly = "spaddr" ->
         (CASE mu.m = "case" -> E("cont") [] OTHER -> E("err"))      \* bech32 is case-insensitive as a whole
    [] OTHER -> Havoc_Semantics

IsEnc(ch) == "age" \in SeqRange(Chains[ch])
\* the effect of a case on the reader of its own layer
CarrierOf(c) == IF c.layer > 1 /\ Chains[c.chain][c.layer - 1] \in {"rpcf", "rpco"} THEN "value"
                ELSE IF c.lname \in {"rpcf", "rpco", "encreq"} THEN "value" ELSE "text"
Eff(c) ==
  LET lf == CaseLeaf(c)
      mu == Mu(c.m, c.a)
      sh0 == CaseShape(c)
      sh == [pack |-> sh0.pack, meta |-> sh0.meta, slateshape |-> SlateShapes[sh0.slate]] IN
  IF c.m = "none" THEN E("cont") ELSE      \* the unmutated instance (baseline)
  \* a JSON slatepack that says mode 0 over an encrypted payload: nothing is decrypted, the ciphertext is the payload
  IF c.lname = "packjson" /\ c.ln = "/mode" /\ c.m = "num" /\ c.a = "zero" /\ IsEnc(c.chain) THEN E("innererr") ELSE
  CASE LayerKind(c.lname) = "bin"   -> BinEff(c.lname, CaseLeaves(c), c.leaf, mu, sh)
    [] LayerKind(c.lname) = "armor" -> ArmorEff(lf, mu)
    [] LayerKind(c.lname) = "age"   -> AgeEff(mu)
    [] LayerKind(c.lname) = "json"  -> JsonEff(c.lname, lf, mu, CarrierOf(c))
    [] OTHER                        -> TextEff(c.lname, mu)

\* ----------------------------------------------------- entry-point programs
\* stages of a layer, in the order its reader consumes them
LayerStages(ly) ==
  CASE ly = "armor"    -> <<"frame", "base58">>
    [] ly = "b58"      -> <<"check">>
    [] ly = "packbin"  -> <<"packhdr", "payload">>
    [] ly = "packjson" -> <<"jsontext", "jsonfields">>
    [] ly = "age"      -> <<"decrypt">>
    [] ly = "encmeta"  -> <<"metalen", "metadata">>
    [] ly = "slatebin" -> <<"slatehdr", "optfields", "sigs", "structs", "tail">>
    [] ly \in {"slatejson", "proofjson"} -> <<"jsontext", "jsonfields">>
    [] ly = "spaddr"   -> <<"bech32">>
    [] ly = "onion"    -> <<"onion">>
    [] ly = "grintx"   -> <<"storedtx">>
    [] ly \in {"rpcf", "rpco"} -> <<"jsontext", "envelope", "params", "paramfields">>
    [] ly = "encreq"   -> <<"jsontext", "encenv">>
Parse(ly) == [i \in 1..Len(LayerStages(ly)) |-> [op |-> "parse", ly |-> ly, g |-> LayerStages(ly)[i]]]
ParseAll(lys) == Flat([i \in 1..Len(lys) |-> Parse(lys[i])])
Op(o) == [op |-> o, ly |-> "", g |-> ""]
SubSeqTo(s, P(_)) == LET idx == {i \in DOMAIN s : P(s[i])} IN IF idx = {} THEN <<>> ELSE SubSeq(s, 1, CHOOSE i \in idx : \A k \in idx : k <= i)
TakeUntilIncl(s, x) == SubSeqTo(s, LAMBDA y : y = x)
DropThrough(s, x) == LET idx == {i \in DOMAIN s : s[i] = x} IN IF idx = {} THEN s ELSE SubSeq(s, (CHOOSE i \in idx : TRUE) + 1, Len(s))

EntryPoints ==
  { "pack_nokey", "pack_key", "owner_slate_noidx", "owner_slate_idx0", "owner_decode_noidx", "owner_decode_idx0", "file_pack",
    "bin_slate", "json_slate", "file_slate", "addr_try_from", "addr_serde", "onion_try_from", "proof_serde", "stored_tx",
    "post_foreign", "post_owner" }

PackOuter(ch) == LET lys == Chains[ch] IN
  IF "packbin" \in SeqRange(lys) THEN TakeUntilIncl(lys, "packbin") ELSE TakeUntilIncl(lys, "packjson")
EPsOfChain(ch) ==
  CASE ch \in {"armor_plain", "armor_enc", "json_plain", "json_enc"} ->
         {"pack_nokey", "pack_key", "owner_slate_noidx", "owner_slate_idx0", "owner_decode_noidx", "owner_decode_idx0", "file_pack"}
    [] ch \in {"bin_plain", "bin_enc"} -> {"pack_nokey", "pack_key", "file_pack"}
    [] ch = "slatebin"  -> {"bin_slate", "file_slate"}
    [] ch = "slatejson" -> {"json_slate", "file_slate"}
    [] ch = "spaddr"    -> {"addr_try_from", "addr_serde"}
    [] ch = "onion"     -> {"onion_try_from"}
    [] ch = "proofjson" -> {"proof_serde"}
    [] ch = "grintx"    -> {"stored_tx"}
    [] ch \in {"rpcf_recv", "rpcf_fin", "rpcf_cb", "rpcf_ver"} -> {"post_foreign"}
    [] OTHER -> {"post_owner"}
\* owner API entry points take a String: inputs that are not UTF-8 cannot be handed to them
EPsFor(c) == IF (c.m \in {"nonutf8"} /\ c.layer = 1 /\ c.lname \in {"armor", "packjson"}) \/ (c.m = "doc" /\ c.a = "nonutf8" /\ c.layer = 1)
             THEN EPsOfChain(c.chain) \ {"owner_slate_noidx", "owner_slate_idx0", "owner_decode_noidx", "owner_decode_idx0", "addr_serde"}
             ELSE EPsOfChain(c.chain)

\* main program and fallback program (run from scratch when the main one returns Err)
Prog(ch, ep) ==
  LET lys == Chains[ch]
      outer == PackOuter(ch)
      size == <<Op("size")>> IN
  CASE ep \in {"pack_nokey", "owner_slate_noidx"} ->
         [main |-> size \o ParseAll(outer) \o (IF IsEnc(ch) THEN <<Op("cipher_as_slate")>> ELSE Parse("slatebin")), fb |-> <<>>]
    [] ep \in {"pack_key", "owner_slate_idx0", "file_pack"} -> [main |-> size \o ParseAll(lys), fb |-> <<>>]
    [] ep = "owner_decode_noidx" -> [main |-> size \o ParseAll(outer), fb |-> <<>>]
    [] ep = "owner_decode_idx0" ->
         [main |-> size \o ParseAll(SubSeqTo(lys, LAMBDA y : y # "slatebin") ), fb |-> size \o ParseAll(outer)]
    [] ep \in {"post_foreign"} -> [main |-> ParseAll(lys) \o <<Op("execute")>>, fb |-> <<>>]
    [] ep = "post_owner" ->
         LET inner == DropThrough(lys, "rpco") IN
         [main |-> ParseAll(<<"encreq", "rpco">>)
                   \o (IF ch = "rpco_dec" THEN ParseAll(TakeUntilIncl(inner, "packbin"))          \* decode: no get_slate
                       ELSE ParseAll(inner))
                   \o <<Op("execute")>>, fb |-> <<>>]
    [] OTHER -> [main |-> ParseAll(lys), fb |-> <<>>]

\* --------------------------------------------------- the pipeline as a machine
\* state of one run: program counter, phase, pending damage handed to the next
\* layer in, result, panic site, the wallet store (decoders never write it)
Start == [pc |-> 1, phase |-> "main", pend |-> "none", res |-> "run", site |-> "", store |-> "S0", steps |-> 0]

\* size bounds of deser_slatepack / PathToSlatepack
SizeEff(c) == IF c.sz = "ok" THEN E("cont") ELSE E("err")

\* mutations that rewrite the whole document (JSON text level) act in stage jsontext
StageOfCase(c) ==
  IF LayerKind(c.lname) = "json" /\ c.m = "doc" THEN "jsontext" ELSE CaseLeaf(c).g

\* a message text that is not UTF-8 cannot be carried in a JSON string: the request body itself is rejected
CarrierBreaks(c, st) == /\ st.op = "parse" /\ st.ly \in {"rpco", "rpcf"} /\ st.g = "jsontext"
                        /\ c.m = "nonutf8" /\ c.lname = "armor" /\ c.layer > 1
StageEff(c, st, pend) ==
  CASE CarrierBreaks(c, st) -> [e |-> E("err"), pend |-> pend]
    [] st.op = "size" -> [e |-> SizeEff(c), pend |-> pend]
    [] st.op = "cipher_as_slate" -> [e |-> E("err"), pend |-> pend]     \* an age ciphertext read as a binary slate
    [] st.op = "execute" -> [e |-> E("cont"), pend |-> pend]
    [] st.op = "parse" /\ st.ly = c.lname /\ st.g = StageOfCase(c) ->
         LET e == Eff(c) IN
         IF e.t = "innererr" THEN [e |-> E("cont"), pend |-> "err"]
         ELSE IF e.t = "innerany" THEN [e |-> E("cont"), pend |-> "any"]
         ELSE [e |-> e, pend |-> pend]
    [] st.op = "parse" /\ st.ly # c.lname /\ pend = "err" -> [e |-> E("err"), pend |-> "none"]
    [] st.op = "parse" /\ st.ly # c.lname /\ pend = "any" -> [e |-> E("any"), pend |-> "none"]
    [] OTHER -> [e |-> E("cont"), pend |-> pend]

\* a listener has decoded the request once envelope and parameter types are read; what a method then
\* makes of a string parameter (a slatepack message) is the method's own error (result.Err / -32099)
MethodLevel(ep, st) == ep \in {"post_owner", "post_foreign"} /\ st.op = "parse"
                       /\ st.ly \in {"armor", "b58", "packbin", "packjson", "age", "encmeta", "slatebin"}

\* one step of the run of entry point ep on case c
Step(c, ep, s) ==
  LET P == IF s.phase = "main" THEN Prog(c.chain, ep).main ELSE Prog(c.chain, ep).fb IN
  IF s.res # "run" THEN s
  ELSE IF s.pc > Len(P) THEN [s EXCEPT !.res = "ok", !.steps = @ + 1]
  ELSE LET r == StageEff(c, P[s.pc], s.pend)
           e == r.e IN
       CASE e.t = "cont"  -> [s EXCEPT !.pc = @ + 1, !.pend = r.pend, !.steps = @ + 1]
         [] e.t = "err"   -> IF s.phase = "main" /\ Prog(c.chain, ep).fb # <<>>
                             THEN [s EXCEPT !.phase = "fb", !.pc = 1, !.pend = "none", !.steps = @ + 1]
                             ELSE IF MethodLevel(ep, P[s.pc])
                             THEN [s EXCEPT !.res = "errm", !.steps = @ + 1]
                             ELSE [s EXCEPT !.res = "err", !.steps = @ + 1]
         [] e.t = "panic" -> [s EXCEPT !.res = "panic", !.site = e.site, !.steps = @ + 1]
         [] OTHER         -> [s EXCEPT !.res = "any", !.steps = @ + 1]

RECURSIVE RunFrom(_, _, _)
RunFrom(c, ep, s) == IF s.res # "run" THEN s ELSE RunFrom(c, ep, Step(c, ep, s))
Run(c, ep) == RunFrom(c, ep, Start)
MaxSteps(c, ep) == Len(Prog(c.chain, ep).main) + Len(Prog(c.chain, ep).fb) + 2

\* --------------------------------------------------------------- the property
\* Total: a finished run returned a value or an error, and an error left the store alone
TotalState(s) == /\ s.res \in {"run", "ok", "err", "errm", "any"}
                 /\ s.store = "S0"
\* the same predicate on an OBSERVED run record (trace validation, Layer P)
ObsNoPanic(r)   == r.res # "panic"
ObsNoAbort(r)   == r.res # "abort"
ObsTerminates(r) == r.res # "hang"
ObsBoundedAlloc(r) == r.res # "alloc"
ObsRejectLeavesStore(r) == (r.res = "err") => (r.pre = r.post)
ObsTotal(r) == ObsNoPanic(r) /\ ObsNoAbort(r) /\ ObsTerminates(r) /\ ObsBoundedAlloc(r) /\ ObsRejectLeavesStore(r)

\* observed result class -> accepted?   (errm: a JSON-RPC method ran and returned its own error;
\* the request was decoded)
ObsAccepted(r) == r.res \in {"ok", "errm"}
ObsRejected(r) == r.res = "err"
\* Layer M: the observed outcome is the one the model predicts
Conforms(c, r) ==
  LET p == Run(c, r.ep) IN
  CASE p.res = "ok"    -> ObsAccepted(r)
    [] p.res = "err"   -> ObsRejected(r)
    [] p.res = "errm"  -> r.res = "errm"
    [] p.res = "panic" -> r.res = "panic"
    [] OTHER           -> TRUE
=============================================================================
