------------------------------ MODULE SeedFile ------------------------------
(***************************************************************************)
(* C12, seed-file part.  The life cycle of wallet_data/wallet.seed and its *)
(* backups, transcribed from                                               *)
(*    impls/src/lifecycle/seed.rs     (WalletSeed::init_file, backup_seed, *)
(*                                     recover_from_phrase, delete_seed_   *)
(*                                     file, from_file, EncryptedWallet-   *)
(*                                     Seed::from_seed / decrypt)          *)
(*    impls/src/lifecycle/default.rs  (DefaultLCProvider::create_wallet,   *)
(*                                     change_password, recover_from_      *)
(*                                     mnemonic)                           *)
(* at the pinned commit.                                                   *)
(*                                                                         *)
(* A file is  Absent | Partial | Sealed(seed, pw).  Sealed(s, p) is the    *)
(* JSON {encrypted_seed, salt, nonce} with ChaCha20-Poly1305 under         *)
(* PBKDF2-HMAC-SHA512(p, salt, 100): it opens with p and with nothing      *)
(* else (the AEAD tag).  Partial is anything that exists but is not a      *)
(* complete sealed file (created-but-empty, torn write).                   *)
(*                                                                         *)
(* An API call is a PROGRAM of steps.  A step ends just before the next    *)
(* file operation, i.e. exactly where the code has a hook                  *)
(* grin_wallet_util::verif::point(<name>) (seed_rename_bak, seed_delete,   *)
(* seed_create, seed_write, seed_remove_bak, batch_commit).  `Start` runs  *)
(* the code up to the first hook, `At` performs the file operation the     *)
(* program is parked at and runs on to the next hook.  At a hook the       *)
(* environment may instead                                                 *)
(*   "crash" : the process dies (files as they are),                       *)
(*   "torn"  : the process dies inside the write (wallet.seed Partial),    *)
(*   "fail"  : the file operation returns its ordinary Err.                *)
(* The same operators are used three ways: small-step model checking       *)
(* (MCSeedFile), generation of crash schedules (MCSeedFile), and           *)
(* prediction of the effect of a logged call (TraceSeedFile, via RunOp).   *)
(*                                                                         *)
(* Named deviations / under-modelling:                                     *)
(*  - DirExists: wallet_data exists (the harness creates it); the          *)
(*    WalletDoesntExist branch of recover_from_phrase is not modelled.     *)
(*  - LmdbOpaque: create_wallet's LMDB part is one step (batch_commit)     *)
(*    with no effect on the seed files.                                    *)
(*  - salt / nonce are not modelled (two sealings of the same seed under   *)
(*    the same password are the same abstract content).                    *)
(*  - HmacKeyNorm: a password is what PBKDF2-HMAC-SHA512 sees.  HMAC pads  *)
(*    a key shorter than the 128-byte block with zero bytes, so p and      *)
(*    p \o NUL are ONE password (observed on the real code: the seed file  *)
(*    of password "x" opens with "x\0").  This is a property of HMAC, not  *)
(*    of the wallet; "wrong password" is read modulo it (Layer M records   *)
(*    it, Layer P never probes it).                                        *)
(***************************************************************************)
EXTENDS Naturals, Sequences, FiniteSets, TLC

CONSTANT MaxBak            \* backup names bak0 (= wallet.seed.bak), bak1 (= .bak.1), ... bak<MaxBak>

\* ------------------------------------------------------------------ files
Absent  == [k |-> "absent"]
Partial == [k |-> "partial"]
Sealed(s, p) == [k |-> "sealed", seed |-> s, pw |-> p]

BakName(i) == "bak" \o ToString(i)
BakNames  == {BakName(i) : i \in 0..MaxBak}
FileNames == {"seed"} \cup BakNames
EmptyDir  == [f \in FileNames |-> Absent]
Exists(fs, f) == fs[f].k # "absent"                   \* Path::exists

\* EncryptedWalletSeed::decrypt after serde_json::from_str (WalletSeed::from_file):
\* Err for a missing file (WalletSeedDoesntExist), for unparsable content (Format)
\* and for a failed AEAD open (Encryption); Ok(seed) only under the sealing password
Open(c, pw) == IF c.k = "sealed" /\ c.pw = pw THEN [ok |-> TRUE, seed |-> c.seed]
               ELSE [ok |-> FALSE, seed |-> ""]

\* backup_seed: ".bak", then ".bak.1", ".bak.2", ... - the first name that does not exist
FirstFreeBak(fs) ==
  LET n == CHOOSE i \in 0..MaxBak : /\ ~Exists(fs, BakName(i))
                                     /\ \A j \in 0..(i - 1) : Exists(fs, BakName(j))
  IN BakName(n)
HasFreeBak(fs) == \E i \in 0..MaxBak : ~Exists(fs, BakName(i))

\* -------------------------------------------------------------- operations
\* an operation (all fields always present so that one record shape travels
\* through MC output, replay input and trace lines):
\*   ev      "create" | "chpw" | "recover"
\*   seed,pw create: the seed the wallet gets / recover: the seed of the phrase; the password
\*   phrase  create: TRUE = seed given as recovery phrase, FALSE = drawn by init_new
\*   valid   recover: the word list is a valid mnemonic
\*   len4    create: the seed's length is one of 16,20,24,28,32 bytes (always so for a phrase)
\*   old,new chpw
NoOp == [ev |-> "none", seed |-> "", pw |-> "", phrase |-> FALSE, len4 |-> FALSE, valid |-> FALSE, old |-> "", new |-> ""]
OpCreate(s, p, ph, l4) == [NoOp EXCEPT !.ev = "create", !.seed = s, !.pw = p, !.phrase = ph, !.len4 = l4]
OpChpw(o, n)        == [NoOp EXCEPT !.ev = "chpw", !.old = o, !.new = n]
OpRecover(s, p, v)  == [NoOp EXCEPT !.ev = "recover", !.seed = s, !.pw = p, !.valid = v]

\* locals of a running program
\*   pc   : the hook the program is parked at ("start", "done" outside)
\*   orig : change_password's orig_wallet_seed
\*   bak  : the backup file name computed by backup_seed
\*   hits : the hooks reached so far, in order (hit k = hits[k])
Loc0 == [pc |-> "start", orig |-> "", bak |-> "", hits |-> <<>>]
Park(fs, loc, pc, hook) == [fs |-> fs, loc |-> [loc EXCEPT !.pc = pc, !.hits = Append(@, hook)], res |-> "run", why |-> ""]
Done(fs, loc, res, why) == [fs |-> fs, loc |-> [loc EXCEPT !.pc = "done"], res |-> res, why |-> why]

\* ---- DefaultLCProvider::create_wallet -> WalletSeed::init_file(test_mode = false)
CreateStart(fs, loc, a) ==
  IF Exists(fs, "seed") THEN Done(fs, loc, "err", "WalletSeedExists")      \* checked twice, same answer
  ELSE Park(fs, loc, "c_create", "seed_create")                            \* seed drawn / parsed, sealed in memory
CreateAt(fs, loc, a, mode) ==
  CASE loc.pc = "c_create" ->                                              \* File::create
         IF mode = "fail" THEN Done(fs, loc, "err", "init_file:create")
         ELSE Park([fs EXCEPT !["seed"] = Partial], loc, "c_write", "seed_write")
    [] loc.pc = "c_write" ->                                               \* write_all
         IF mode = "fail" THEN Done(fs, loc, "err", "init_file:write")
         ELSE Park([fs EXCEPT !["seed"] = Sealed(a.seed, a.pw)], loc, "c_commit", "batch_commit")
    [] loc.pc = "c_commit" ->                                              \* LmdbOpaque: save_init_status, commit
         IF mode = "fail" THEN Done(fs, loc, "err", "batch_commit") ELSE Done(fs, loc, "ok", "")

\* ---- DefaultLCProvider::change_password
\* read back and compare; only then remove the backup
ChpwReadBack(fs, loc, a) ==
  LET r == Open(fs["seed"], a.new) IN
  IF ~r.ok THEN Done(fs, loc, "err", "readback:open")                      \* backup stays
  ELSE IF r.seed # loc.orig THEN Done(fs, loc, "err", "readback:differs")  \* "not removing backups"
  ELSE Park(fs, loc, "p_rmbak", "seed_remove_bak")
\* `let _ = WalletSeed::init_file(dir, 0, Some(orig_mnemonic), new, false);` - the result is IGNORED
ChpwInit(fs, loc, a) ==
  IF Exists(fs, "seed") THEN ChpwReadBack(fs, loc, a)                      \* WalletSeedExists, ignored
  ELSE Park(fs, loc, "p_create", "seed_create")
\* delete_seed_file: removes wallet.seed if it exists (after the rename it does not)
ChpwDelete(fs, loc, a) ==
  IF Exists(fs, "seed") THEN Park(fs, loc, "p_delete", "seed_delete") ELSE ChpwInit(fs, loc, a)
\* m4: the seeds whose length is one of 16,20,24,28,32 bytes (to_mnemonic is defined)
ChpwStart(fs, loc, a, m4) ==
  LET r == Open(fs["seed"], a.old) IN
  IF ~r.ok THEN Done(fs, loc, "err", "open:old")                           \* wrong password / no file / damaged
  ELSE IF r.seed \notin m4 THEN Done(fs, loc, "err", "to_mnemonic")        \* mnemonic::from_entropy InvalidLength
  ELSE IF ~HasFreeBak(fs) THEN Done(fs, loc, "err", "model:MaxBak")        \* bound of the model, not of the code
  ELSE Park(fs, [loc EXCEPT !.orig = r.seed, !.bak = FirstFreeBak(fs)], "p_rename", "seed_rename_bak")
ChpwAt(fs, loc, a, mode) ==
  CASE loc.pc = "p_rename" ->                                              \* fs::rename(wallet.seed, bak)
         IF mode = "fail" THEN Done(fs, loc, "err", "backup_seed")
         ELSE ChpwDelete([fs EXCEPT ![loc.bak] = fs["seed"], !["seed"] = Absent], loc, a)
    [] loc.pc = "p_delete" ->                                              \* fs::remove_file(wallet.seed)
         IF mode = "fail" THEN Done(fs, loc, "err", "delete_seed_file")
         ELSE ChpwInit([fs EXCEPT !["seed"] = Absent], loc, a)
    [] loc.pc = "p_create" ->                                              \* File::create
         IF mode = "fail" THEN ChpwReadBack(fs, loc, a)
         ELSE Park([fs EXCEPT !["seed"] = Partial], loc, "p_write", "seed_write")
    [] loc.pc = "p_write" ->                                               \* write_all
         IF mode = "fail" THEN ChpwReadBack(fs, loc, a)
         ELSE ChpwReadBack([fs EXCEPT !["seed"] = Sealed(loc.orig, a.new)], loc, a)
    [] loc.pc = "p_rmbak" ->                                               \* fs::remove_file(backup_name)
         IF mode = "fail" THEN Done(fs, loc, "err", "remove_bak")
         ELSE Done([fs EXCEPT ![loc.bak] = Absent], loc, "ok", "")

\* ---- DefaultLCProvider::recover_from_mnemonic -> WalletSeed::recover_from_phrase
\* NOTE (code-shaped): the existing seed file is renamed BEFORE the word list is
\* validated, so an invalid phrase leaves the wallet without wallet.seed
RecAfterBackup(fs, loc, a) ==
  IF ~a.valid THEN Done(fs, loc, "err", "from_mnemonic")
  ELSE Park(fs, loc, "r_create", "seed_create")
RecStart(fs, loc, a) ==
  IF Exists(fs, "seed")
  THEN IF ~HasFreeBak(fs) THEN Done(fs, loc, "err", "model:MaxBak")
       ELSE Park(fs, [loc EXCEPT !.bak = FirstFreeBak(fs)], "r_rename", "seed_rename_bak")
  ELSE RecAfterBackup(fs, loc, a)
RecAt(fs, loc, a, mode) ==
  CASE loc.pc = "r_rename" ->
         IF mode = "fail" THEN Done(fs, loc, "err", "backup_seed")
         ELSE RecAfterBackup([fs EXCEPT ![loc.bak] = fs["seed"], !["seed"] = Absent], loc, a)
    [] loc.pc = "r_create" ->
         IF mode = "fail" THEN Done(fs, loc, "err", "create")
         ELSE Park([fs EXCEPT !["seed"] = Partial], loc, "r_write", "seed_write")
    [] loc.pc = "r_write" ->
         IF mode = "fail" THEN Done(fs, loc, "err", "write")
         ELSE Done([fs EXCEPT !["seed"] = Sealed(a.seed, a.pw)], loc, "ok", "")

\* ---- dispatch
WritePcs == {"c_write", "p_write", "r_write"}
Start(fs, op, m4) ==
  CASE op.ev = "create"  -> CreateStart(fs, Loc0, op)
    [] op.ev = "chpw"    -> ChpwStart(fs, Loc0, op, m4)
    [] op.ev = "recover" -> RecStart(fs, Loc0, op)
\* mode: "go" | "fail" | "crash" | "torn"
At(fs, loc, op, mode) ==
  IF mode = "crash" THEN Done(fs, loc, "crash", "")
  ELSE IF mode = "torn" THEN Done([fs EXCEPT !["seed"] = Partial], loc, "crash", "torn")
  ELSE CASE op.ev = "create"  -> CreateAt(fs, loc, op, mode)
         [] op.ev = "chpw"    -> ChpwAt(fs, loc, op, mode)
         [] op.ev = "recover" -> RecAt(fs, loc, op, mode)

\* a whole call with at most one injection  inj = [kind |-> "none"|"crash"|"torn"|"fail", k |-> hit number]
NoInj == [kind |-> "none", k |-> 0]
RECURSIVE Drive(_, _, _)
Drive(r, op, inj) ==
  IF r.res # "run" THEN r
  ELSE LET mode == IF inj.kind # "none" /\ inj.k = Len(r.loc.hits) THEN inj.kind ELSE "go"
       IN Drive(At(r.fs, r.loc, op, mode), op, inj)
RunOp(fs, op, inj, m4) == Drive(Start(fs, op, m4), op, inj)

\* ------------------------------------------------------- property history
\* must  : the obligations "seed s is recoverable under one of the passwords P":
\*         - a password change that got past its password check puts its ORIGINAL
\*           seed (what wallet.seed held) under {old, new};
\*         - a phrase recovery puts the seed wallet.seed held under its password;
\*         - an interrupted call (crash, Err) never removes an obligation;
\*         - a COMPLETED call replaces all obligations by its own outcome (the user
\*           deliberately moved on; what older backups hold is no longer demanded).
\* legit : every (seed, password) pair some sealing operation was asked to write
Put(must, s, P) ==
  {m \in must : m.seed # s} \cup
  {[seed |-> s, pws |-> P \cup UNION {m.pws : m \in {x \in must : x.seed = s}}]}
MustBegin(must, pre, op) ==
  IF op.ev = "chpw" /\ Open(pre["seed"], op.old).ok THEN Put(must, pre["seed"].seed, {op.old, op.new})
  ELSE IF op.ev = "recover" /\ pre["seed"].k = "sealed" THEN Put(must, pre["seed"].seed, {pre["seed"].pw})
  ELSE must
MustEnd(must1, pre, op, res) ==          \* must1 already went through MustBegin
  IF res # "ok" THEN must1
  ELSE IF op.ev = "chpw"
       THEN (IF Open(pre["seed"], op.old).ok THEN {[seed |-> pre["seed"].seed, pws |-> {op.new}]} ELSE must1)
       ELSE {[seed |-> op.seed, pws |-> {op.pw}]}
LegitAfter(legit, op) ==
  IF op.ev = "chpw" THEN legit \cup {<<x[1], op.new>> : x \in {y \in legit : y[2] = op.old}}
  ELSE IF op.ev = "create" \/ (op.ev = "recover" /\ op.valid) THEN legit \cup {<<op.seed, op.pw>>}
  ELSE legit

\* --------------------------------------------------------- the properties
\* SeedRecoverable: in every file state, for every obligation, some file is that
\* seed sealed under the old or the new password
SeedRecoverable(fs, must) ==
  \A m \in must : \E f \in DOMAIN fs : fs[f].k = "sealed" /\ fs[f].seed = m.seed /\ fs[f].pw \in m.pws
\* WrongPwIsError (state form): whatever opens, opens to a seed under a password
\* it was sealed with - never to another seed, never under another password
OpenSound(fs, legit, pws) ==
  \A f \in DOMAIN fs : \A p \in pws : Open(fs[f], p).ok => <<Open(fs[f], p).seed, p>> \in legit
\* WrongPwIsError (call form): a password change given a password that does not
\* open wallet.seed is refused and touches nothing
WrongPwRefused(pre, post, op, res) ==
  (op.ev = "chpw" /\ ~Open(pre["seed"], op.old).ok) => (res # "ok" /\ post = pre)
\* "the seed file opens only with the password it was last saved under"
CompletedEffect(pre, post, op, res) ==
  res = "ok" =>
    CASE op.ev = "create"  -> post["seed"] = Sealed(op.seed, op.pw)
      [] op.ev = "recover" -> post["seed"] = Sealed(op.seed, op.pw)
      [] op.ev = "chpw"    -> /\ pre["seed"].k = "sealed" /\ pre["seed"].pw = op.old
                              /\ post["seed"] = Sealed(pre["seed"].seed, op.new)
=============================================================================
