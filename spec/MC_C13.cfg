CONSTANTS
  MaxGen = 3
  MaxAcct = 2
  MaxLen = 7
  TamperSet = {"none", "body", "tag", "nonce", "swapnonce", "trunc", "short", "empty", "nonce_short", "nonce_ext", "b64", "plainbody"}
  OuterSet = {"ok", "other", "init", "noid", "strid", "bigid", "seq"}
  RawSet = {"notjson", "empty", "string", "number", "null", "true", "nomethod", "emptyobj", "emptyarr", "nullmethod", "dup_init_last", "dup_init_first"}
  RepInner = {"new_account", "tld", "init", "open", "close", "set_active", "mnemonic"}
  FullProduct = TRUE
  Open0Set = {FALSE, TRUE}
  ForeignSet = {FALSE, TRUE}
SPECIFICATION Spec
INVARIANT TypeOK
PROPERTY Prop_Gate
PROPERTY EmitEdges
VIEW View
CHECK_DEADLOCK FALSE
