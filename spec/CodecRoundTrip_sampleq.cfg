CONSTANTS
  Mode = "sample"
  NSample = 300
  Wide = TRUE
SPECIFICATION Spec
INVARIANTS InvRoundTrip InvCrossEqual InvAux InvWire InvGen
CHECK_DEADLOCK FALSE
