--------------------------- MODULE TraceOwnerMask ---------------------------
(***************************************************************************)
(* Trace validation of the REAL grin_wallet_api::Owner (driven by          *)
(* harness/replay_mask) against OwnerMask.tla.                             *)
(*                                                                         *)
(* One line = one operation of a scenario, executed on a masked wallet     *)
(* (record `mw`) and, in lockstep, on its unmasked twin built from the     *)
(* same recovery phrase (record `tw`, has = FALSE when not run):           *)
(*   reset   a new pair of worlds in a named wallet state                  *)
(*   call    one Owner method with one token (mode hist: part of the       *)
(*           history; case: the store is put back afterwards; probe: not   *)
(*           expected to change anything)                                  *)
(*   close / reopen / node   life-cycle and environment steps              *)
(*   step    one event of a TLC-generated wallet behaviour (MCWallet)      *)
(* Per side: result class `res`, digest of the normalised return `ret`,    *)
(* before/after digests of all wallet files (`files`) and of every section *)
(* of the projected state (`proj`), `tokeq` (the token handed in equals    *)
(* the one the last open_wallet returned), `rr` (result of the same call   *)
(* with the right token in the same state).                                *)
(*                                                                         *)
(*   Layer P  MaskSound / MaskTransparent / ClosedIsDead of OwnerMask.tla  *)
(*            evaluated on the OBSERVED data.  A failure prints VIOL: the   *)
(*            verdict.                                                     *)
(*   Layer M  result class and "store touched" of both sides must be what  *)
(*            Exec(ms, m, v, token) predicts for the model wallet `ms`     *)
(*            carried along the scenario.  A mismatch prints NONCONF only. *)
(* The spec never blocks: every line is consumed.                          *)
(***************************************************************************)
EXTENDS OwnerMask, Json, IOUtils, TLCExt

CONSTANT CheckM     \* TRUE: evaluate Layer M as well as Layer P

VARIABLES l, ms, mu, st, np
tvars == <<l, ms, mu, st, np>>
PrintLimit == 2000

Rec == ndJsonDeserialize(IOEnv.TRACE)

\* ------------------------------------------------------------ observation
SameStore(a, b) == a.files = b.files /\ a.proj = b.proj
Obs(side) == [res |-> side.res, ret |-> side.ret, proj |-> side.post.proj,
              same |-> SameStore(side.pre, side.post)]

\* -------------------------------------------------------------- reporting
Viol(mon, e, info) ==
  PrintT(<<"VIOL", ToJson([p |-> "C14", m |-> mon, line |-> l, b |-> e.b, ev |-> e.cls, info |-> info])>>)
NonConf(e, what, exp, obs) ==
  PrintT(<<"NONCONF", ToJson([line |-> l, b |-> e.b, what |-> what, exp |-> exp, obs |-> obs, at |-> e.cls])>>)

IsEv(n) == l <= Len(Rec) /\ Rec[l].ev = n

\* ------------------------------------------------------------------ reset
\* the harness opens the wallets, then reopens them once (so that a stale token exists)
TReset ==
  /\ IsEv("reset")
  /\ LET e == Rec[l] IN
     /\ ms' = OpenWallet(CloseWallet(NewWallet(e.init, TRUE)), TRUE)
     /\ mu' = OpenWallet(CloseWallet(NewWallet(e.init, FALSE)), FALSE)
     /\ st' = [closed |-> FALSE, model |-> e.model]
  /\ l' = l + 1 /\ UNCHANGED np

\* ------------------------------------------------------------------- call
\* Layer P on one call: the list of <<monitor, holds>>
PList(e, cls, wrong, o, t) ==
  << <<Monitors[1], MaskSound_Refused(cls, wrong, o)>>,
     <<Monitors[2], MaskSound_InvalidMask(cls, wrong, o, e.mw.rr)>>,
     <<Monitors[3], MaskSound_StoreUnchanged(wrong, o)>>,
     <<Monitors[4], (~wrong /\ e.tw.has) => MaskTransparent(o, t)>>,
     <<Monitors[5], ClosedIsDead(cls, st.closed, o)>> >>
PBad(pl) == {i \in DOMAIN pl : ~pl[i][2]}

\* Layer M: <<what, agrees, expected, observed>>
MList(e, pm, pt) ==
  << <<"masked: result class", pm.res = e.mw.res, pm.res, e.mw.res>>,
     <<"masked: store touched", pm.touched = (e.mw.pre.files # e.mw.post.files), pm.touched, e.mw.pre.files # e.mw.post.files>>,
     <<"masked: active account", (pm.w.active = ms.active) = (e.mw.pre.proj.active = e.mw.post.proj.active), pm.w.active, "">>,
     <<"twin: result class", e.tw.has => pt.res = e.tw.res, pt.res, IF e.tw.has THEN e.tw.res ELSE "">>,
     <<"twin: store touched", e.tw.has => pt.touched = (e.tw.pre.files # e.tw.post.files), pt.touched, "">>,
     <<"harness: token kind", e.mw.tokeq = (e.tok = "right"), e.tok, e.mw.tokeq>> >>
MBad(ml) == {i \in DOMAIN ml : ~ml[i][2]}

\* the token the harness hands to the twin (OwnerMask!KindsFor)
TwinKind(k) == IF k \in {"right", "random", "other"} THEN k ELSE "right"

TCall ==
  /\ IsEv("call")
  /\ LET e     == Rec[l]
         wrong == ~e.mw.tokeq
         cls   == ClassOf(e.m, e.v, e.node)
         o     == Obs(e.mw)
         t     == IF e.tw.has THEN Obs(e.tw) ELSE o
         pl    == PList(e, cls, wrong, o, t)
         pm    == Exec(ms, e.m, e.v, Tok(ms, e.tok))
         pt    == Exec(mu, e.m, e.v, Tok(mu, TwinKind(e.tok)))
         doM   == CheckM /\ st.model
         ml    == MList(e, pm, pt) IN
     /\ \A i \in PBad(pl) :
          IF np.v >= PrintLimit THEN TRUE
          ELSE Viol(pl[i][1], e, [res |-> e.mw.res, rr |-> e.mw.rr, tok |-> e.tok, same |-> o.same,
                                  files_same |-> e.mw.pre.files = e.mw.post.files, closed |-> st.closed,
                                  twin |-> IF e.tw.has THEN e.tw.res ELSE "", ret_eq |-> o.ret = t.ret,
                                  proj_eq |-> o.proj = t.proj, class |-> cls])
     /\ IF doM THEN \A i \in MBad(ml) : IF np.m >= PrintLimit THEN TRUE ELSE NonConf(e, ml[i][1], ml[i][3], ml[i][4])
        ELSE TRUE
     \* history calls move the model wallets (only along what was observed)
     /\ ms' = IF e.mode = "hist" /\ pm.res = e.mw.res THEN pm.w ELSE ms
     /\ mu' = IF e.mode = "hist" /\ e.tw.has /\ pt.res = e.tw.res THEN pt.w ELSE mu
     /\ np' = [v |-> np.v + Cardinality(PBad(pl)), m |-> np.m + IF doM THEN Cardinality(MBad(ml)) ELSE 0]
  /\ l' = l + 1 /\ UNCHANGED st

\* ---------------------------------------------------------- close / reopen
TClose ==
  /\ IsEv("close")
  /\ LET e == Rec[l] IN
     /\ IF CheckM /\ e.mw.res # "ok" THEN NonConf(e, "close_wallet failed", "ok", e.mw.res) ELSE TRUE
     /\ st' = [st EXCEPT !.closed = (e.mw.res = "ok") \/ @]
     /\ ms' = CloseWallet(ms) /\ mu' = CloseWallet(mu)
  /\ l' = l + 1 /\ UNCHANGED np
TReopen ==
  /\ IsEv("reopen")
  /\ LET e == Rec[l] IN
     /\ IF CheckM /\ e.mw.res # "ok" THEN NonConf(e, "open_wallet failed", "ok", e.mw.res) ELSE TRUE
     /\ IF CheckM /\ ~e.mw.newtoken THEN NonConf(e, "open_wallet returned the previous token", "new", "same") ELSE TRUE
     /\ st' = [st EXCEPT !.closed = IF e.mw.res = "ok" THEN FALSE ELSE @]
     /\ ms' = OpenWallet(ms, TRUE) /\ mu' = OpenWallet(mu, FALSE)
  /\ l' = l + 1 /\ UNCHANGED np
TNode ==
  /\ IsEv("node")
  /\ ms' = [ms EXCEPT !.node = Rec[l].up] /\ mu' = [mu EXCEPT !.node = Rec[l].up]
  /\ l' = l + 1 /\ UNCHANGED <<st, np>>

\* ------------------------------------------------------------------- step
\* one event of a wallet behaviour, executed with the right token on both worlds:
\* MaskTransparent on the result and on the projections of BOTH wallets of the world
TStep ==
  /\ IsEv("step")
  /\ LET e == Rec[l]
         ok == /\ e.mw.res = e.tw.res /\ e.mw.ret = e.tw.ret
               /\ e.mw.post.proj = e.tw.post.proj /\ e.mw.post2.proj = e.tw.post2.proj IN
     /\ IF ok \/ np.v >= PrintLimit THEN TRUE
        ELSE Viol(Monitors[4], e, [res |-> e.mw.res, twin |-> e.tw.res, ret_eq |-> e.mw.ret = e.tw.ret,
                                   proj_eq |-> e.mw.post.proj = e.tw.post.proj, peer_eq |-> e.mw.post2.proj = e.tw.post2.proj])
     /\ np' = [np EXCEPT !.v = @ + IF ok THEN 0 ELSE 1]
  /\ l' = l + 1 /\ UNCHANGED <<ms, mu, st>>

\* anything else (a harness failure) is reported and skipped
TOther ==
  /\ l <= Len(Rec) /\ Rec[l].ev \notin {"reset", "call", "close", "reopen", "node", "step"}
  /\ PrintT(<<"NONCONF", ToJson([line |-> l, b |-> Rec[l].b, what |-> "harness: " \o Rec[l].ev, exp |-> "", obs |-> "", at |-> ""])>>)
  /\ l' = l + 1 /\ UNCHANGED <<ms, mu, st, np>>

TInit == /\ l = 1
         /\ ms = NewWallet("fresh", TRUE) /\ mu = NewWallet("fresh", FALSE)
         /\ st = [closed |-> FALSE, model |-> FALSE]
         /\ np = [v |-> 0, m |-> 0]
TNext == TReset \/ TCall \/ TClose \/ TReopen \/ TNode \/ TStep \/ TOther
TSpec == TInit /\ [][TNext]_tvars

Consumed == IF TLCGet("stats").diameter - 1 = Len(Rec) THEN PrintT(<<"CONSUMED", Len(Rec)>>)
            ELSE PrintT(<<"STUCK", TLCGet("stats").diameter>>)
=============================================================================
