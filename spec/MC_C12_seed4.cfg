CONSTANTS
  MaxBak = 5
  MaxOps = 4
  MaxSeeds = 2
  MaxPws = 3
  FirstOk = TRUE
SPECIFICATION Spec
INVARIANT TypeOK
INVARIANT Inv_Recoverable
INVARIANT Inv_OpenSound
PROPERTY Prop_Completed
PROPERTY Prop_WrongPwRefused
PROPERTY EmitSched
CHECK_DEADLOCK FALSE
