\* the pinned code: sites that slice / unwrap without a check
CONSTANTS
  Depth = "quick"
  OverflowChecks = FALSE
  Emit = TRUE
  PanicSites <- PinnedPanicSites
SPECIFICATION Spec
INVARIANT TypeOK
INVARIANT Report_Total
INVARIANT Inv_Bounded
INVARIANT Inv_Agrees
CHECK_DEADLOCK FALSE
