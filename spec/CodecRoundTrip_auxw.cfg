CONSTANTS
  Mode = "aux"
  NSample = 3000
  Wide = FALSE
SPECIFICATION Spec
INVARIANTS InvRoundTrip InvCrossEqual InvAux InvWire InvGen
CHECK_DEADLOCK FALSE
