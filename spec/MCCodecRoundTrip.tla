------------------------- MODULE MCCodecRoundTrip -------------------------
(***************************************************************************)
(* C08: model checking (MC) and stimulus generation (GEN) for              *)
(* CodecRoundTrip.tla.                                                     *)
(*                                                                         *)
(* A state is one case (an abstract slate with its slatepack envelope, or  *)
(* an address, or a stored record) in one of three phases:                 *)
(*     "case" --Encode(e)--> "wire" --Decode--> "decoded"                  *)
(* so that the wire form (which fields are present) is an explicit state   *)
(* of the model.  The invariants are the properties RoundTrip / CrossEqual *)
(* / AddrRoundTrip / OnionRoundTrip / RecRoundTrip of CodecRoundTrip.tla.  *)
(* The model is code-shaped, so on the unchanged tree it VIOLATES the      *)
(* properties where the code does; a violated invariant does not stop TLC: *)
(* it prints one CEX line per violation class, and the runner replays      *)
(* those cases on the real code, where the trace spec decides (DESIGN.md   *)
(* 3.7: a model counter-example is never reported by itself).              *)
(*                                                                         *)
(* Mode  "dev2"    all one- and two-field deviations from the base cases   *)
(*                 (every pair of values of two fields occurs: a pairwise- *)
(*                 covering set), phases explored, cases printed           *)
(*       "sample"  NSample cases drawn from the full product by the TLC    *)
(*                 seed (-seed VERIF_SEED), phases explored, cases printed *)
(*       "full"    the full product of a reduced domain, phases explored,  *)
(*                 nothing printed                                         *)
(*       "aux"     addresses (full product) and stored records (dev2 +     *)
(*                 sample), cases printed                                  *)
(***************************************************************************)
EXTENDS CodecRoundTrip, Json, Randomization

CONSTANTS Mode, NSample, Wide

VARIABLES phase, c, e, wire, d
vars == <<phase, c, e, wire, d>>

\* ------------------------------------------------- generic case builders ---
Pick(S) == CHOOSE x \in RandomSubset(1, S) : TRUE          \* seeded by -seed
Sample(N, FD) == {[f \in DOMAIN FD |-> Pick(FD[f])] : i \in 1..N}
\* <<field, value>> pairs (tuples of different fields are ordered by the field name alone)
FieldVals(FD) == UNION {{<<f, x>> : x \in FD[f]} : f \in DOMAIN FD}
Dev2(b, FD) == LET FV == FieldVals(FD) IN {[[b EXCEPT ![p[1]] = p[2]] EXCEPT ![q[1]] = q[2]] : p \in FV, q \in FV}

\* -------------------------------------------------------------- slates ----
SlateFD == IF Wide THEN CaseFD({0, 1, 2, 3, 255}, Tags, {NoArg} \cup Tags, 3, 3)
                   ELSE CaseFD({1, 2, 3}, Tags, {NoArg} \cup Tags, 2, 2)
SlateProduct ==
  [ver : SlateFD.ver, sta : SlateFD.sta, off : SlateFD.off, np : SlateFD.np, amt : SlateFD.amt, fee : SlateFD.fee,
   feat : SlateFD.feat, fargs : SlateFD.fargs, ttl : SlateFD.ttl, sigs : SlateFD.sigs, coms : SlateFD.coms,
   proof : SlateFD.proof, snd : SlateFD.snd, rk : SlateFD.rk]
\* reduced domains whose FULL product is model-checked (no case is printed in this mode)
SmallArgs == {NoArg, "0", "MAX"}
FullSet ==
  IF Wide
  THEN [ver : {"std"}, sta : StateSet, off : {"zero", "nz"}, np : {1, 2, 3}, amt : {"0", "MAX"}, fee : Tags,
        feat : 0..3, fargs : SmallArgs, ttl : {"0", "1"}, sigs : SeqsUpTo(SigItems, 1),
        coms : {NoComs, [some |-> TRUE, items |-> <<>>], [some |-> TRUE, items |-> <<[k |-> "in", cb |-> FALSE]>>],
                [some |-> TRUE, items |-> <<[k |-> "out", cb |-> TRUE], [k |-> "in", cb |-> TRUE]>>]},
        proof : ProofSet, snd : {TRUE}, rk : {"2of2"}]
  ELSE [ver : {"std"}, sta : {"S1", "NA"}, off : {"nz"}, np : {2, 3}, amt : {"0", "MAX"}, fee : Tags,
        feat : 0..3, fargs : SmallArgs, ttl : {"0", "1"}, sigs : {<<>>, <<[part |-> TRUE]>>},
        coms : {NoComs, [some |-> TRUE, items |-> <<[k |-> "in", cb |-> FALSE]>>],
                [some |-> TRUE, items |-> <<[k |-> "out", cb |-> TRUE], [k |-> "in", cb |-> TRUE]>>]},
        proof : {"none", "sig"}, snd : {TRUE}, rk : {"2of2"}]

Blank ==    \* Slate::blank as compacted: every optional field at its default
  [ver |-> "std", sta |-> "S1", off |-> "zero", np |-> 2, amt |-> "0", fee |-> "0", feat |-> 0, fargs |-> NoArg,
   ttl |-> "0", sigs |-> <<>>, coms |-> NoComs, proof |-> "none", snd |-> FALSE, rk |-> "1of1"]
Typical ==  \* an S1 slate as init_send_tx emits it, with payment proof and ttl
  [ver |-> "std", sta |-> "S1", off |-> "nz", np |-> 2, amt |-> "P32", fee |-> "P32", feat |-> 0, fargs |-> NoArg,
   ttl |-> "1", sigs |-> <<[part |-> FALSE]>>, coms |-> NoComs, proof |-> "nosig", snd |-> TRUE, rk |-> "1of1"]
Loaded ==   \* everything set
  [ver |-> "odd", sta |-> "I3", off |-> "nz", np |-> 3, amt |-> "MAX", fee |-> "MAX", feat |-> 2, fargs |-> "P32",
   ttl |-> "P40", sigs |-> <<[part |-> TRUE], [part |-> FALSE]>>,
   coms |-> [some |-> TRUE, items |-> <<[k |-> "out", cb |-> FALSE], [k |-> "in", cb |-> TRUE]>>],
   proof |-> "sig", snd |-> TRUE, rk |-> "2of2"]
Bases == {Blank, Typical, Loaded}
\* more participant entries than the one-byte count of the binary slate can carry
BigSigs(n) == [i \in 1..n |-> [part |-> FALSE]]
Oversize == {[b EXCEPT !.sigs = BigSigs(n)] : b \in {Blank, Typical}, n \in {256, 257}}

\* (operators with a parameter: TLC evaluates every parameterless constant definition eagerly, once per worker)
SlateCases(m) ==
  CASE m = "dev2"   -> UNION ({Dev2(b, SlateFD) : b \in Bases} \cup {Oversize})
    [] m = "sample" -> RandomSubset(NSample, SlateProduct)
    [] m = "full"   -> FullSet
    [] OTHER -> {}
Tag(kind, S) == {[kind |-> kind, a |-> x] : x \in S}

\* ----------------------------------------------- addresses and records ----
AddrCases  == [hrp : AddrFD.hrp, key : AddrFD.key]
OnionCases == [key : OnionFD.key]
OutputBase == [commit |-> "some", mmr |-> "1", value |-> "P32", status |-> "Unspent", height |-> "1", lockh |-> "0",
               cb |-> FALSE, txlog |-> "0", nchild |-> "1"]
TxLogNone  == [slate |-> "none", ty |-> "ConfirmedCoinbase", confts |-> "none", confirmed |-> FALSE, nin |-> "0",
               credited |-> "0", debited |-> "0", fee |-> "none", ttl |-> "none", stored |-> "none", excess |-> "none",
               minh |-> "none", proof |-> "none", reverted |-> "none"]
TxLogAll   == [slate |-> "some", ty |-> "TxSent", confts |-> "some", confirmed |-> TRUE, nin |-> "1",
               credited |-> "P32", debited |-> "P40", fee |-> "P32", ttl |-> "1", stored |-> "some", excess |-> "some",
               minh |-> "1", proof |-> "both", reverted |-> "whole"]
CtxNone    == [nout |-> 0, nin |-> 0, mmr |-> "none", amount |-> "0", fee |-> "none", pidx |-> "none", late |-> "none",
               excess |-> "none"]
CtxAll     == [nout |-> 2, nin |-> 2, mmr |-> "P32", amount |-> "P40", fee |-> "P32", pidx |-> "0", late |-> "full",
               excess |-> "some"]
AuxCases(n) ==
  UNION { Tag("addr", AddrCases), Tag("onion", OnionCases),
          Tag("output", UNION {Dev2(OutputBase, OutputFD), Sample(n, OutputFD)}),
          Tag("txlog", UNION {Dev2(TxLogNone, TxLogFD), Dev2(TxLogAll, TxLogFD), Sample(n, TxLogFD)}),
          Tag("context", UNION {Dev2(CtxNone, CtxFD), Dev2(CtxAll, CtxFD), Sample(n, CtxFD)}) }

Cases(m) == IF m = "aux" THEN AuxCases(NSample) ELSE Tag("slate", SlateCases(m))
AuxEncs(kind) == CASE kind = "addr" -> AddrEncs [] kind = "onion" -> OnionEncs [] OTHER -> {"store"}
EncsOf(x) == IF x.kind = "slate" THEN Encodings ELSE AuxEncs(x.kind)

\* ------------------------------------------------------- the state machine
NoVal == <<>>
Init == /\ c \in Cases(Mode) /\ phase = "case" /\ e = "-" /\ wire = NoVal /\ d = NoVal

EncodeAny(x, enc) ==
  CASE x.kind = "slate" -> Enc(enc, SlateOfCase(x.a), EnvOf(x.a))
    [] x.kind = "addr"  -> EncAddr(enc, x.a)
    [] x.kind = "onion" -> EncOnion(enc, x.a)
    [] OTHER -> EncRec(x.kind, x.a)
DecodeAny(x, enc, w) ==
  CASE x.kind = "slate" -> Dec(enc, w, EnvOf(x.a))
    [] x.kind = "addr"  -> DecAddr(enc, w)
    [] x.kind = "onion" -> DecOnion(enc, w)
    [] OTHER -> DecRec(w)

Encode == /\ phase = "case"
          /\ \E enc \in EncsOf(c) : /\ e' = enc /\ wire' = EncodeAny(c, enc)
          /\ phase' = "wire" /\ UNCHANGED <<c, d>>
Decode == /\ phase = "wire"
          /\ d' = DecodeAny(c, e, wire)
          /\ phase' = "decoded" /\ UNCHANGED <<c, e, wire>>
Next == Encode \/ Decode
Spec == Init /\ [][Next]_vars

\* ---------------------------------------------------------- reporting ----
\* a model counter-example is printed once per class (TLC register 1, per worker)
ASSUME TLCSet(1, {})
Once(class, rec) == IF class \in TLCGet(1) THEN TRUE
                    ELSE TLCSet(1, TLCGet(1) \cup {class}) /\ PrintT(<<"CEX", ToJson(rec)>>)
\* the differences a slatepack encoding inherits from the binary slate it carries (attributed to "bin")
ResDiff(r, s, env, enc) ==
  IF r.res = "ok" THEN DiffSet(s, r.slate) \cup (IF IsPack(enc) /\ r.sender # env.snd THEN {"sender"} ELSE {})
  ELSE {"res:" \o r.res}
Inherited(enc, s, env, diff) ==
  IF UsesBin(enc) /\ enc # "bin" THEN diff \cap ResDiff(DecEnc("bin", s, env), s, env, "bin") ELSE {}

CheckRoundTrip(x, enc, r) ==
  LET s == SlateOfCase(x.a)  env == EnvOf(x.a) IN
  IF RoundTripRes(r, s, env, enc) THEN TRUE
  ELSE LET diff == ResDiff(r, s, env, enc)
           inh  == Inherited(enc, s, env, diff) IN
       Once(<<"RoundTrip", IF diff = inh THEN "bin" ELSE enc, diff>>,
            [p |-> "RoundTrip", e |-> enc, inh |-> inh, diff |-> diff, case |-> x])

\* CrossEqual: every decoding equals the decoding of the V4 JSON form (equality is transitive, so this is
\* the pairwise statement of CodecRoundTrip!CrossEqual); evaluated on the decoded state of each other encoding
CheckCross(x, enc, r) ==
  LET s == SlateOfCase(x.a)  env == EnvOf(x.a)  j == DecEnc("json", s, env)  b == DecEnc("bin", s, env) IN
  IF (r.res = "ok" /\ j.res = "ok") => SlateEq(r.slate, j.slate) THEN TRUE
  ELSE LET diff == DiffSet(j.slate, r.slate)
           inh  == IF enc = "bin" \/ b.res # "ok" THEN {} ELSE diff \cap DiffSet(j.slate, b.slate) IN
       Once(<<"CrossEqual", IF diff = inh THEN "bin" ELSE enc, diff>>,
            [p |-> "CrossEqual", e |-> "json~" \o enc, inh |-> inh, diff |-> diff, case |-> x])

\* --------------------------------------------------------- invariants ----
InvRoundTrip ==
  IF c.kind # "slate" \/ phase # "decoded" \/ ~InScope(SlateOfCase(c.a)) THEN TRUE ELSE CheckRoundTrip(c, e, d)
InvCrossEqual ==
  IF c.kind # "slate" \/ phase # "decoded" \/ e = "json" \/ ~InScope(SlateOfCase(c.a)) THEN TRUE ELSE CheckCross(c, e, d)
InvAux ==
  IF c.kind = "slate" \/ phase # "decoded" THEN TRUE
  ELSE LET ok == CASE c.kind = "addr" -> d = c.a [] c.kind = "onion" -> d = c.a [] OTHER -> d = NormRec(c.kind, c.a) IN
       IF ok THEN TRUE ELSE Once(<<"Aux", c.kind, e>>, [p |-> "AuxRoundTrip", e |-> e, case |-> c])
\* the wire form agrees with the presence operators (sanity of the phase machine itself)
InvWire ==
  (phase = "wire" /\ c.kind = "slate") =>
     LET v == ToV4(SlateOfCase(c.a)) IN
     CASE e = "json" -> wire.keys = JsonKeys(v)
       [] e = "bin" -> wire.status = BinStatus(v) /\ wire.structs = BinStructs(v) /\ wire.len = BinLen(v)
       [] OTHER -> TRUE
\* GEN: every case is printed once, from its initial state
InvGen == (phase = "case" /\ Mode # "full") => PrintT(<<"CASE", ToJson(c)>>)

\* vacuity witnesses: these must be VIOLATED (reachable) in the dev2 config
WitnessNRD      == ~(c.kind = "slate" /\ c.a.feat = 3 /\ c.a.fargs # NoArg)
WitnessEncrypted == ~(phase = "decoded" /\ c.kind = "slate" /\ IsEnc(e) /\ d.res = "ok" /\ d.sender)
WitnessOversize == ~(c.kind = "slate" /\ Len(c.a.sigs) > 255)
=============================================================================
