----------------------------- MODULE MCSelection -----------------------------
(***************************************************************************)
(* MC + GEN for C01.  Every case of the bounded domain is a state: the     *)
(* initial states are the wallets (family, output table), one step picks   *)
(* the InitTxArgs (so that TLC's workers evaluate the cases in parallel).  *)
(* On every case TLC evaluates                                             *)
(*   - Contract(c, SelectRef(c, Orig)): the pinned code as transcribed;    *)
(*     a failure is a MODEL counter-example, printed as CEX (a few per     *)
(*     violation key and worker) and then executed on the real code;       *)
(*   - Contract(c, SelectRef(c, AllFixed)): the patched design must        *)
(*     satisfy the contract on the whole domain (FIXCEX otherwise);        *)
(* and prints the case as stimulus (CASE) when the seeded hash selects it. *)
(* The invariant itself is always TRUE: verdicts come from trace           *)
(* validation of what the real code did (TraceSelection.tla).              *)
(***************************************************************************)
EXTENDS Selection, TLC, Json

CONSTANTS
  GridA,      \* value grid of the arithmetic family
  MaxNA,      \* wallets of 1..MaxNA outputs there
  GridS,      \* value grid of the exhaustive-amount family
  MaxNS,
  GridE,      \* values of the eligibility family
  EligHL,     \* set of <<height, lock_height>> pairs used there
  MaxNE,      \* 1 or 2 free outputs (plus, when Pad, one plain output)
  MaxOutsSet, \* max_outputs values
  MinConfs,   \* minimum_confirmations values of the eligibility family
  FlowsE,     \* flows of the eligibility family
  ModA, ModS, ModE,   \* sampling moduli per family (1 = every case is stimulus)
  LateFactor,         \* late-lock cases (two calls, a full transaction) are sampled this much thinner
  Seed,
  NWide,      \* number of pseudo-random cases of the wide family (larger wallets, all replayed)
  CheckFixed, \* also evaluate the contract on the patched design (AllFixed)
  CexScale    \* scales the moduli that thin out the printed model counter-examples

VARIABLES pc, c
vars == <<pc, c>>

H0 == 3       \* the chain tip the node reports
\* <<height, lock_height>> of an output relative to the tip H0 = 3:
\*   <<1,0>> 3 confirmations   <<3,0>> 1 confirmation   <<4,0>> above the tip
\*   <<2,3>> matures exactly now   <<2,4>> still immature
\*   <<0,0>> a coinbase of that height matures exactly now (0 + CbMaturity = H0)
HLFull  == {<<0, 0>>, <<1, 0>>, <<2, 0>>, <<3, 0>>, <<4, 0>>, <<2, 3>>, <<2, 4>>}
HLSmall == {<<0, 0>>, <<1, 0>>, <<3, 0>>, <<2, 4>>}
\* The refresh that precedes every selection takes an output's height from the node and - for a coinbase - its
\* maturity from THAT height (fix: C04 HeightsFromChain): the records of the source account that the node reports
\* (Unspent / Locked) are injected consistent with it, so that the case says what the selection really sees.
CbMaturity == 3
NormOuts(outs, src) ==
  [i \in DOMAIN outs |->
     IF outs[i].cb /\ outs[i].st \in {"Unspent", "Locked"} /\ outs[i].acct = src
     THEN [outs[i] EXCEPT !.lk = outs[i].h + CbMaturity] ELSE outs[i]]
Statuses == {"Unconfirmed", "Unspent", "Locked", "Spent", "Reverted"}
Plain(v, a) == [v |-> v, st |-> "Unspent", h |-> 1, lk |-> 0, cb |-> FALSE, acct |-> a]

SeqsUpTo(S, n) == UNION {[1..k -> S] : k \in 1..n}

\* -------------------------------------------------------------- wallets
WalletsA == {[fam |-> "arith", outs |-> s] : s \in SeqsUpTo({Plain(v, "a0") : v \in GridA}, MaxNA)}
WalletsS == {[fam |-> "small", outs |-> s] : s \in SeqsUpTo({Plain(v, "a0") : v \in GridS}, MaxNS)}
KindsE   == {[v |-> v, st |-> st, h |-> hl[1], lk |-> hl[2], cb |-> cb, acct |-> a] :
               v \in GridE, st \in Statuses, hl \in EligHL, cb \in BOOLEAN, a \in {"a0", "a1"}}
WalletsE == {[fam |-> "elig", outs |-> s] : s \in SeqsUpTo(KindsE, MaxNE)}
Wallets  == WalletsA \cup WalletsS \cup WalletsE

\* -------------------------------------------------------------- amounts
RECURSIVE SumSet(_, _)
SumSet(outs, T) == IF T = {} THEN 0 ELSE LET i == CHOOSE i \in T : TRUE IN outs[i].v + SumSet(outs, T \ {i})
SubSums(outs) == {<<SumSet(outs, T), Cardinality(T)>> : T \in (SUBSET (1..Len(outs))) \ {{}}}
Total(outs) == SumSet(outs, 1..Len(outs))
\* amounts that put the change the wallet has to split at -1 .. n^2 (2 for n < 2)
\* for every conceivable input set and both fee shapes
Boundary(outs, nch, inc) ==
  LET dmax == IF nch >= 2 THEN nch * nch ELSE 2 IN
  {a \in {s[1] - (IF inc THEN 0 ELSE Fee(s[2], o, 1)) - d : s \in SubSums(outs), o \in {1, nch + 1}, d \in (-1)..dmax} : a >= 0}
\* amounts whose sum with a fee passes u64::MAX
NearTop(n, nch) == {TOP - k : k \in 0..1} \cup {TOP - Fee(i, o, 1) + e : i \in 1..n, o \in {1, nch + 1}, e \in 0..1}
AmtsA(outs, nch, inc) == Boundary(outs, nch, inc) \cup {0, 1, Total(outs), Total(outs) + 1} \cup NearTop(Len(outs), nch)
AmtsS(outs) == 0..(Total(outs) + 2)
AmtsE(outs) == {10, 60, 130}

\* ---------------------------------------------------------------- cases
MkCase(w, amt, inc, mc, mo, nch, ua, src, fl) ==
  [fam |-> w.fam, outs |-> NormOuts(w.outs, src), amt |-> amt, incfee |-> inc, height |-> H0, minconf |-> mc,
   maxouts |-> mo, nchange |-> nch, useall |-> ua, src |-> src, flow |-> fl]

\* (an invoice's amount is the issuer's: the payer's amount-includes-fee option cannot change what the issuer's
\*  output holds, so the option must be without effect there - the case is generated, the contract says amt = c.amt)
FlowInc == {<<"send", FALSE>>, <<"send", TRUE>>, <<"late", FALSE>>, <<"late", TRUE>>, <<"invoice", FALSE>>, <<"invoice", TRUE>>}

NextA == /\ c.fam \in {"arith", "small"}
         /\ \E ua \in BOOLEAN, nch \in 0..3, mo \in MaxOutsSet, fi \in FlowInc :
              \E a \in (IF c.fam = "arith" THEN AmtsA(c.outs, nch, fi[2]) ELSE AmtsS(c.outs)) :
                 c' = MkCase(c, a, fi[2], 1, mo, nch, ua, "a0", fi[1])
NextE == /\ c.fam = "elig"
         /\ \E ua \in BOOLEAN, mc \in MinConfs, src \in {"a0", "a1"}, fl \in FlowsE, a \in AmtsE(c.outs) :
                 c' = MkCase(c, a, FALSE, mc, 500, 1, ua, src, fl)

\* ------------------------------------------------------- the wide family
\* NWide pseudo-random cases over larger wallets (3..6 outputs, values 30..150
\* with many ties, every status, heights/locks around the tip, both accounts),
\* every parameter free, the amount placed so that the change lands at -2..12
\* around a prefix of the sorted eligible outputs.  The generator is a pure
\* function of (k, Seed) written here (a small quadratic hash), so the stimulus does not
\* depend on TLC's own random numbers.
\* (all products stay below 2^31: PW^2 < 2^31)
PW == 46337
Mix(x) == LET h1 == (x * 31337 + 911) % PW
              h2 == (h1 * h1 + 7) % PW
          IN  (h2 * 40503 + h1) % PW
Rn(k, j) == Mix(Mix((k * 131 + j * 7 + Seed * 1009) % PW))
Pick(seq, r) == seq[1 + (r % Len(seq))]
WideOut(k, i) ==
  LET hl == Pick(<< <<1, 0>>, <<1, 0>>, <<0, 0>>, <<2, 0>>, <<3, 0>>, <<4, 0>>, <<2, 3>>, <<2, 4>>, <<0, 0>> >>, Rn(k, 40 + i)) IN
  [v    |-> 10 * (3 + (Rn(k, 10 + i) % 13)),
   st   |-> Pick(<<"Unspent", "Unspent", "Unspent", "Unspent", "Unspent", "Unspent", "Unconfirmed", "Locked", "Spent", "Reverted">>, Rn(k, 20 + i)),
   h    |-> hl[1], lk |-> hl[2],
   cb   |-> Rn(k, 30 + i) % 6 = 0,
   acct |-> IF Rn(k, 50 + i) % 5 = 0 THEN "a1" ELSE "a0"]
RECURSIVE SumFirst(_, _)
SumFirst(s, j) == IF j = 0 \/ s = <<>> THEN 0 ELSE Head(s) + SumFirst(Tail(s), j - 1)
WideCase(k) ==
  LET n    == 3 + (Rn(k, 1) % 4)
      outs == [i \in 1..n |-> WideOut(k, i)]
      src  == IF Rn(k, 2) % 6 = 0 THEN "a1" ELSE "a0"
      mc   == Rn(k, 3) % 3
      nch  == Rn(k, 4) % 4
      inc  == Rn(k, 5) % 3 = 0
      fl   == Pick(<<"send", "send", "late", "invoice", "send">>, Rn(k, 6))
      mo   == Pick(<<1, 2, 3, 500, 500, 2, 0>>, Rn(k, 7))
      ua   == Rn(k, 8) % 2 = 0
      S    == {i \in 1..n : outs[i].acct = src /\ Eligible(outs[i], H0, mc)}
      Rank(i) == 1 + Cardinality({j \in S : outs[j].v < outs[i].v \/ (outs[j].v = outs[i].v /\ j < i)})
      vals == [p \in 1..Cardinality(S) |-> outs[CHOOSE i \in S : Rank(i) = p].v]
      j    == 1 + (Rn(k, 9) % Max2(1, Cardinality(S)))
      o    == IF Rn(k, 60) % 2 = 0 THEN 1 ELSE nch + 1
      d    == (Rn(k, 61) % 15) - 2
      base == SumFirst(vals, j) - (IF inc /\ fl = "send" THEN 0 ELSE Fee(j, o, 1)) - d
      amt  == IF Rn(k, 62) % 25 = 0 THEN TOP - (Rn(k, 63) % 60) ELSE Max2(0, base)
  IN [fam |-> "wide", outs |-> NormOuts(outs, src), amt |-> amt, incfee |-> inc, height |-> H0, minconf |-> mc,
      maxouts |-> mo, nchange |-> nch, useall |-> ua, src |-> src, flow |-> fl]
WideCases == {WideCase(k) : k \in 1..NWide}

Init == \/ pc = "w" /\ c \in Wallets
        \/ pc = "c" /\ c \in WideCases
Next == pc = "w" /\ pc' = "c" /\ (NextA \/ NextE)
Spec == Init /\ [][Next]_vars

\* ------------------------------------------------------------- sampling
StIdx(s) == CASE s = "Unconfirmed" -> 1 [] s = "Unspent" -> 2 [] s = "Locked" -> 3 [] s = "Spent" -> 4 [] OTHER -> 5
HOut(o) == o.v * 7 + StIdx(o.st) * 3 + o.h * 5 + o.lk * 11 + (IF o.cb THEN 13 ELSE 0) + (IF o.acct = "a0" THEN 0 ELSE 17)
RECURSIVE HSeq(_)
HSeq(s) == IF s = <<>> THEN 1 ELSE (HOut(Head(s)) + 31 * HSeq(Tail(s))) % 1000003
FlIdx(f) == CASE f = "send" -> 1 [] f = "late" -> 2 [] OTHER -> 3
Hash(x) == ( HSeq(x.outs) * 131 + (x.amt % 100003) * 17 + x.minconf * 3 + x.maxouts * 5 + x.nchange * 7
             + (IF x.useall THEN 11 ELSE 0) + (IF x.incfee THEN 13 ELSE 0) + FlIdx(x.flow) * 19
             + (IF x.src = "a0" THEN 0 ELSE 23) + Seed * 7919 ) % 1000003
ModOf(x) == CASE x.fam = "arith" -> ModA [] x.fam = "small" -> ModS [] x.fam = "wide" -> 1 [] OTHER -> ModE
Sampled(x) == x.fam = "wide" \/ (Hash(x) \div 7) % (ModOf(x) * (IF x.flow = "late" THEN LateFactor ELSE 1)) = 0

\* ------------------------------------------------------------ reporting
\* A model counter-example is printed when a second seeded hash selects it; the
\* modulus depends on how densely its input class populates the domain, so that
\* a handful of every class is printed (classes nobody anticipated: 1 in 20).
CexMod(cl) == CexScale *
  (CASE cl = "maxouts=0" -> 20000
     [] cl = "nchange=0,change>0" -> 4000
     [] cl \in {"0<change<nchange", "amount+fee>u64max", "nchange<=change<nchange^2"} -> 2000
     [] cl \in {"late,src#active", "late,incfee", "late,amount+fee>u64max", "late,nchange<=change<nchange^2"} -> 800
     [] OTHER -> 20)
Report(tag, x, i) ==
  LET cl == InputClass(x, Monitors[i]) IN
  IF (Hash(x) \div 3) % CexMod(cl) = 0
  THEN PrintT(<<tag, ToJson([m |-> Monitors[i], cl |-> cl, c |-> x])>>)
  ELSE TRUE

CheckCase ==
  LET fo == Failed(c, AsOutcome(c, SelectRef(c, Orig)))
      ff == IF CheckFixed THEN Failed(c, AsOutcome(c, SelectRef(c, AllFixed))) ELSE {}
  IN /\ \A i \in fo : Report("CEX", c, i)
     /\ \A i \in ff : Report("FIXCEX", c, i)
     /\ IF Sampled(c) THEN PrintT(<<"CASE", ToJson(c)>>) ELSE TRUE

Inv == pc = "c" => CheckCase
=============================================================================
