\* quick tier: the whole case space is model-checked; a stratified sample is emitted for replay
CONSTANTS
  Dev = {"LateLockTrustsReply", "StrippedUnnoticed", "LockTrustsSlate", "SenderKeyFromActive"}
  Amts = {1000, 1001, 59975, 60000, 70000}
  IncFees = {FALSE, TRUE}
  NChanges = {1, 2}
  QuietW2 = FALSE
  UseFarTtl = FALSE
  Srcs = {"", "a1"}
  ActIs = {"a0", "a1"}
  ActFs = {"a0", "a1"}
  LateLocks = {"late", "S1", "S2"}
  Reqs = {"w2:a0", "w2:a1"}
  Dests = {"", "a1"}
  ActRs = {"a0"}
  Tams = {"none", "strip", "nosig", "junk", "otherkey", "otherkey_raddr", "amount", "amount_slate", "exc_spart", "exc_rpart", "exc_cb", "sender", "raddr", "saddr", "saddr_sig"}
  FApis = {FALSE}
  Forks = TRUE
  MultiMut = TRUE
  NPer = 2
  NAny = 1
  NHonest = 2
SPECIFICATION Spec
INVARIANT Inv_Sound
INVARIANT Inv_Mutants
INVARIANT Inv_VerifyIff
INVARIANT Inv_Honest
INVARIANT Emit
CHECK_DEADLOCK FALSE
