CONSTANTS
  Mode = "dev2"
  NSample = 0
  Wide = FALSE
SPECIFICATION Spec
INVARIANTS InvRoundTrip InvCrossEqual InvAux InvWire InvGen
CHECK_DEADLOCK FALSE
