CONSTANTS
  MaxThreads = 3
  MaxPasses = 6
  MaxCmds = 7
SPECIFICATION MSpec
INVARIANT TypeOK
INVARIANT OneRunner
INVARIANT HolderRuns
INVARIANT StopWithinOnePass
INVARIANT FlagCoversRun
PROPERTY Emit
CONSTRAINT Bound
CHECK_DEADLOCK FALSE
