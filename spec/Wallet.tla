------------------------------- MODULE Wallet -------------------------------
(***************************************************************************)
(* The grin-wallet state machine, transcribed from the pinned commit       *)
(* (DESIGN.md Appendix A).  One record `s` holds the whole world:          *)
(*   s.w[w]   abstract content of wallet w's LMDB store and side files     *)
(*   s.chain  the node's best chain, s.orph blocks reorganised away         *)
(*   s.pool   transactions posted to the node                              *)
(*   s.body   public body of every transaction a finalize produced          *)
(* Every operation is a PURE operator  Op(s, args) == [steps, res, ...]     *)
(* where `steps` is the sequence of world states after each PERSISTENT      *)
(* EFFECT (LMDB batch commit, child-index bump, side-file write) of the     *)
(* operation, in code order.  The API-level effect is the last element; a   *)
(* crash before effect k leaves steps[k-1]; the same operators are used by  *)
(* the model-checking specs (MC*.tla), the crash specs and the trace        *)
(* validation spec (TraceWallet.tla).  Nothing here is idealised: where     *)
(* the code does something questionable the operator does it too and the    *)
(* property operators at the end of the module say what must hold.          *)
(***************************************************************************)
EXTENDS Naturals, Integers, Sequences, FiniteSets, TLC, SequencesExt

CONSTANTS Reward,      \* coinbase reward (in units)
          Maturity     \* coinbase maturity (blocks)

\* ---------------------------------------------------------------- helpers
Put(f, k, v) == [x \in (DOMAIN f) \cup {k} |-> IF x = k THEN v ELSE f[x]]
Del(f, K)    == [x \in (DOMAIN f) \ K |-> f[x]]
LastOf(q)      == q[Len(q)]
MaxOf(a, b)    == IF a >= b THEN a ELSE b
MinOf(a, b)    == IF a <= b THEN a ELSE b
RECURSIVE SumF(_, _)
SumF(f, S) == IF S = {} THEN 0 ELSE LET x == CHOOSE x \in S : TRUE IN f[x] + SumF(f, S \ {x})
AnySeq(S) == SetToSeq(S)    \* SequencesExt: some fixed enumeration of S
RangeOf(q) == {q[i] : i \in DOMAIN q}

\* Fee for a transaction shape, in units (fee base = 1 unit)
Fee(i, o, k) == i + 21 * o + 3 * k

\* ------------------------------------------------------------ identifiers
\* Accounts are "a0","a1",...; key ids are strings  "<acct>c<child>"; a record
\* restored by scan (keyed with an MMR index in the store) has m = TRUE.
\* A world-wide output id is "<seed>:<key>" where <seed> is the name of the wallet
\* that first owned the seed (a wallet restored from the same phrase shares it).
\* s.reg maps every output id ever created to [seed, key, pa, n, v, cb] - what the
\* chain (range proof rewind) reveals to the owner of the seed.  Log entries are keyed
\* "<acct>i<id>".  The harness builds the same strings.
KeyOf(a, c)   == a \o "c" \o ToString(c)
TxKeyOf(a, i) == a \o "i" \o ToString(i)
OutId(seed, k) == seed \o ":" \o k

NoTx == -1
Statuses == {"Unconfirmed", "Unspent", "Locked", "Spent", "Reverted"}
TxTypes  == {"ConfirmedCoinbase", "TxReceived", "TxSent", "TxReceivedCancelled",
             "TxSentCancelled", "TxReverted"}

\* ------------------------------------------------------------- empty world
NoCtxLate == [on |-> FALSE, minconf |-> 0, maxouts |-> 0, nchange |-> 0, useall |-> FALSE]
EmptyWallet(accts) ==
  [ seed   |-> "",       \* name of the seed (set by whoever creates the wallet)
    outs   |-> <<>>,     \* key  -> [v, st, h, lk, cb, tx, acct, pa, m]
    txs    |-> <<>>,     \* txkey-> [acct, id, ty, conf, cr, db, fee, slate, ttl, kern, minh, nin, nout, proof]
    ctxs   |-> <<>>,     \* slate-> [acct, ins, outs, amt, fee, late, pidx, calc]
    idx    |-> [a \in accts |-> [child |-> 0, log |-> 0, confh |-> 0]],
    files  |-> <<>>,     \* slate-> "part" | "final"   (saved_txs/<uuid>.grintx)
    active |-> "a0",
    labels |-> [default |-> "a0"],   \* account label -> account path
    scanned |-> 0 ]      \* height of the last scanned block

\* ------------------------------------------------------------------- chain
\* block == [cb |-> outid or "", cbv |-> value, txs |-> set of slates]
Height(s) == Len(s.chain)
MinedIn(s, sl) == {i \in 1..Height(s) : sl \in s.chain[i].txs}
Mined(s) == UNION {s.chain[i].txs : i \in 1..Height(s)}
MinedKnown(s) == Mined(s) \cap DOMAIN s.body
ChainOuts(s) == {s.chain[i].cb : i \in 1..Height(s)} \cup UNION {s.body[sl].outs : sl \in MinedKnown(s)}
ChainIns(s)  == UNION {s.body[sl].ins : sl \in MinedKnown(s)}
Utxo(s) == (ChainOuts(s) \ ChainIns(s)) \ {""}
HeightOfOut(s, o) ==
  LET hs == {i \in 1..Height(s) : s.chain[i].cb = o \/ \E sl \in s.chain[i].txs \cap DOMAIN s.body : o \in s.body[sl].outs}
  IN IF hs = {} THEN 0 ELSE CHOOSE i \in hs : \A j \in hs : i >= j
\* a transaction is still valid on the current chain iff its inputs are unspent
\* and mature; maturity is checked by the callers that mine
TxValid(s, sl) == s.body[sl].ins \subseteq Utxo(s)
\* Kernel identities.  A log entry's kernel_excess is abstracted to
\*   ""            none            "cb"     a coinbase kernel
\*   "part"        the initiator's public excess alone (S1 / I1 slate)
\*   "rpart"       the replier's public excess alone (an S2 reply not repopulated)
\*   "full:<sl>#n" the sum of the initiator's excess and that of the n-th reply
\*                 (receive / process_invoice) produced for slate <sl> in this world
\* s.nrep[sl] counts the replies produced so far; s.body[sl].kern names the kernel
\* of the finalized transaction.
FullK(sl, n) == "full:" \o sl \o "#" \o ToString(n)
Nrep(s, sl) == IF sl \in DOMAIN s.nrep THEN s.nrep[sl] ELSE 0
IsFull(k) == k \notin {"", "cb", "part", "rpart", "other"}
\* kernel `k` is on chain within [lo, hi]
KernelOnChain(s, k, lo, hi) ==
  \E i \in 1..Height(s) : i >= lo /\ i <= hi /\ \E sl \in s.chain[i].txs : sl \in DOMAIN s.body /\ s.body[sl].kern = k

\* ----------------------------------------------------------------- derived
W(s, w) == s.w[w]
Outs(s, w) == s.w[w].outs
Txs(s, w)  == s.w[w].txs
OutsOfAcct(s, w, a) == {k \in DOMAIN Outs(s, w) : Outs(s, w)[k].acct = a}
Conf(o, H) == IF o.h > H \/ o.st = "Unconfirmed" THEN 0 ELSE 1 + H - o.h
Eligible(o, H, m) ==
  /\ o.st \notin {"Spent", "Locked"}
  /\ ~(o.st = "Unconfirmed" /\ o.cb)
  /\ o.lk <= H
  /\ \/ o.st = "Unspent" /\ Conf(o, H) >= m
     \/ o.st = "Unconfirmed" /\ m = 0
EligibleKeys(s, w, a, H, m) == {k \in OutsOfAcct(s, w, a) : Eligible(Outs(s, w)[k], H, m)}
Outstanding(s, w, a) ==
  {t \in DOMAIN Txs(s, w) : /\ Txs(s, w)[t].acct = a
                            /\ ~Txs(s, w)[t].conf
                            /\ Txs(s, w)[t].ty \in {"TxReceived", "TxSent", "TxReverted"}}
TxBySlate(s, w, sl, accts) ==
  {t \in DOMAIN Txs(s, w) : Txs(s, w)[t].slate = sl /\ Txs(s, w)[t].acct \in accts}
AllAccts(s, w) == DOMAIN s.w[w].idx
NewTx(a, id, ty) ==
  [acct |-> a, id |-> id, ty |-> ty, conf |-> FALSE, cr |-> 0, db |-> 0, fee |-> -1,
   slate |-> "", ttl |-> 0, kern |-> "", minh |-> -1, nin |-> 0, nout |-> 0, proof |-> "none"]

SetW(s, w, wr) == [s EXCEPT !.w[w] = wr]
OID(s, w, k) == OutId(s.w[w].seed, k)
\* register a newly built output with the world (what its range proof will reveal)
Reg(s, w, k, n, v, cb) ==
  [s EXCEPT !.reg = Put(@, OID(s, w, k), [seed |-> s.w[w].seed, key |-> k, pa |-> s.w[w].active, n |-> n, v |-> v, cb |-> cb])]

\* ======================================================================
\* K : next_child — read-bump-commit on the ACTIVE account's child index
\* ======================================================================
NextChildKey(s, w) == KeyOf(s.w[w].active, s.w[w].idx[s.w[w].active].child)
BumpChild(s, w) == [s EXCEPT !.w[w].idx[s.w[w].active].child = @ + 1]

\* ======================================================================
\* Refresh1(a, all) — updater::refresh_outputs.  One batch (when the height
\* guard lets it through).  Returns the new state; node errors are handled
\* by the callers (nodeUp is an argument of the operations).
\* ======================================================================
R1Candidates(s, w, a, all) ==
  {k \in OutsOfAcct(s, w, a) :
     /\ Outs(s, w)[k].st # "Spent"
     /\ \/ all
        \/ Outs(s, w)[k].tx = NoTx
        \/ TxKeyOf(a, Outs(s, w)[k].tx) \in Outstanding(s, w, a)}
\* log entries (of account a) whose received output vanished and whose kernel is gone
R1Reverted(s, w, a, cand) ==
  LET u == Utxo(s)
      gone == {Outs(s, w)[k].tx : k \in {c \in cand : Outs(s, w)[c].st = "Unspent"
                                                   /\ Outs(s, w)[c].tx # NoTx
                                                   /\ OID(s, w, c) \notin u}}
  IN {id \in gone :
        LET t == TxKeyOf(a, id) IN
        /\ t \in DOMAIN Txs(s, w)
        /\ Txs(s, w)[t].ty = "TxReceived"
        /\ Txs(s, w)[t].kern # ""
        /\ ~KernelOnChain(s, Txs(s, w)[t].kern, MaxOf(Txs(s, w)[t].minh, 0), Height(s))}

Refresh1(s, w, a, all) ==
  LET wr   == s.w[w]
      H    == Height(s)
      cand == R1Candidates(s, w, a, all)
      u    == Utxo(s)
      rev  == R1Reverted(s, w, a, cand)
      newCb == {k \in cand : OID(s, w, k) \in u /\ wr.outs[k].cb /\ wr.outs[k].st = "Unconfirmed"}
      \* the code iterates a HashMap: log ids of several new coinbase entries are
      \* assigned in an unspecified order -> Havoc_CoinbaseLogOrder: we fix child
      \* order (by key string order is not available) through a CHOOSE-d sequence
      cbSeq == AnySeq(newCb)
      rank(k) == CHOOSE i \in 1..Len(cbSeq) : cbSeq[i] = k
      base == wr.idx[a].log
      confIds == {wr.outs[k].tx : k \in {c \in cand : OID(s, w, c) \in u /\ ~wr.outs[c].cb
                                           /\ wr.outs[c].st \in {"Unconfirmed", "Reverted"}}}
      txs1 == [t \in DOMAIN wr.txs |->
                 LET e == wr.txs[t] IN
                 IF e.acct = a /\ e.id \in confIds
                 THEN [e EXCEPT !.conf = TRUE, !.ty = IF @ = "TxReverted" THEN "TxReceived" ELSE @]
                 ELSE e]
      txs2 == [t \in (DOMAIN txs1) \cup {TxKeyOf(a, base + rank(k) - 1) : k \in newCb} |->
                 IF t \in DOMAIN txs1 THEN txs1[t]
                 ELSE LET k == CHOOSE c \in newCb : TxKeyOf(a, base + rank(c) - 1) = t IN
                      [NewTx(a, base + rank(k) - 1, "ConfirmedCoinbase") EXCEPT
                         !.conf = TRUE, !.cr = wr.outs[k].v, !.nout = 1, !.kern = "cb", !.minh = H]]
      txs3 == [t \in DOMAIN txs2 |->
                 IF txs2[t].acct = a /\ txs2[t].id \in rev
                 THEN [txs2[t] EXCEPT !.ty = "TxReverted", !.conf = FALSE] ELSE txs2[t]]
      outs1 == [k \in DOMAIN wr.outs |->
                 LET o == wr.outs[k] IN
                 IF k \notin cand THEN o
                 ELSE IF OID(s, w, k) \in u
                 THEN [o EXCEPT !.h  = HeightOfOut(s, OID(s, w, k)),
                                \* a coinbase matures relative to the block it is in (fix: C04 HeightsFromChain)
                                !.lk = IF o.cb THEN HeightOfOut(s, OID(s, w, k)) + Maturity ELSE @,
                                !.st = IF @ \in {"Unconfirmed", "Reverted"} THEN "Unspent" ELSE @,
                                !.tx = IF k \in newCb THEN base + rank(k) - 1 ELSE @]
                 ELSE IF ~o.cb /\ o.tx # NoTx /\ o.tx \in rev
                 THEN [o EXCEPT !.st = IF @ = "Unspent" THEN "Reverted" ELSE @]
                 ELSE [o EXCEPT !.st = IF @ \in {"Unspent", "Locked"} THEN "Spent" ELSE @]]
  IN IF H < wr.idx[wr.active].confh     \* guard reads the ACTIVE account's height
     THEN s
     ELSE SetW(s, w, [wr EXCEPT !.outs = outs1, !.txs = txs3,
                                !.idx[a].log = base + Cardinality(newCb),
                                !.idx[a].confh = H])

\* ======================================================================
\* Selection is bound, not transcribed, here: `sel` (set of keys) and
\* `chg` (sequence of change values) are arguments.  Selection.tla holds the
\* exact algorithm and the contract.
\* ======================================================================
\* an unknown label silently means the active account (transcribed)
AcctOf(s, w, name) == IF name \in DOMAIN s.w[w].labels THEN s.w[w].labels[name] ELSE s.w[w].active

\* sequence of states produced by bumping the child index n times
RECURSIVE BumpSteps(_, _, _)
BumpSteps(s, w, n) == IF n = 0 THEN <<>> ELSE <<BumpChild(s, w)>> \o BumpSteps(BumpChild(s, w), w, n - 1)
RECURSIVE ChildKeys(_, _, _)
ChildKeys(s, w, n) == IF n <= 0 THEN <<>> ELSE <<NextChildKey(s, w)>> \o ChildKeys(BumpChild(s, w), w, n - 1)

LastOr(q, d) == IF Len(q) = 0 THEN d ELSE LastOf(q)
\* register the change outputs planned by a selection: keys ks (sequence), values vs,
\* child numbers start at n0
RECURSIVE RegSeq(_, _, _, _, _, _)
RegSeq(s, w, ks, vs, n0, i) ==
  IF i > Len(ks) THEN s ELSE RegSeq(Reg(s, w, ks[i], n0 + i - 1, vs[i], FALSE), w, ks, vs, n0, i + 1)
ActiveChild(s, w) == s.w[w].idx[s.w[w].active].child

\* ---------------------------------------------------------------------
\* InitSend — owner::init_send_tx.
\*  args: [sl, src, amt, sel, chg, fee, late, incfee, ttl, proof, minconf,
\*         maxouts, nchange, useall]
\*  `amt` is the requested amount; with incfee the slate amount is amt - fee.
\*  Steps: B(refresh1) . K x |chg| . B(ctx)
\* ---------------------------------------------------------------------
InitSend(s, w, a) ==
  LET acct == AcctOf(s, w, a.src)
      s1   == Refresh1(s, w, acct, FALSE)
      ks   == ChildKeys(s1, w, Len(a.chg))
      bs   == BumpSteps(s1, w, Len(a.chg))
      s2   == LastOr(bs, s1)
      amt2 == IF a.incfee THEN a.amt - a.fee ELSE a.amt
      ctx  == IF a.late
              THEN [acct |-> acct, ins |-> {}, outs |-> <<>>, amt |-> a.amt, fee |-> a.fee,
                    late |-> [on |-> TRUE, minconf |-> a.minconf, maxouts |-> a.maxouts,
                              nchange |-> a.nchange, useall |-> a.useall],
                    pidx |-> IF a.proof THEN 0 ELSE -1, calc |-> ""]
              ELSE [acct |-> acct, ins |-> a.sel,
                    outs |-> [i \in 1..Len(a.chg) |-> [k |-> ks[i], v |-> a.chg[i]]],
                    amt |-> amt2, fee |-> a.fee, late |-> NoCtxLate,
                    pidx |-> IF a.proof THEN 0 ELSE -1, calc |-> ""]
      s3   == RegSeq([s2 EXCEPT !.w[w].ctxs = Put(@, a.sl, ctx)], w, ks, a.chg, ActiveChild(s1, w), 1)
  IN IF a.late THEN [steps |-> <<s1, [s1 EXCEPT !.w[w].ctxs = Put(@, a.sl, ctx)]>>, res |-> "ok"]
     ELSE [steps |-> <<s1>> \o bs \o <<s3>>, res |-> "ok"]

\* a failed InitSend (selection error): refresh batch, possibly child bumps
\* (incfee underflow is detected after the Ks), nothing else
InitSendErr(s, w, a, nbumps) ==
  LET acct == AcctOf(s, w, a.src)
      s1   == Refresh1(s, w, acct, FALSE)
  IN [steps |-> <<s1>> \o BumpSteps(s1, w, nbumps), res |-> "err"]

\* ---------------------------------------------------------------------
\* LockOutputs — owner::tx_lock_outputs -> selection::lock_tx_context
\*  args: [sl, stage ("S1"|"S2"|"I2"|"F" = the completed slate, late lock), ttl, hasproof, rep (stage F)]
\*  Steps: B(lock inputs + change outputs + TxSent entry) . F(store tx)
\*  Every input must still be Unspent/Unconfirmed, else the whole step is refused.
\* ---------------------------------------------------------------------
LockErr(s, w, a) ==
  IF a.sl \notin DOMAIN s.w[w].ctxs THEN "noctx"
  ELSE LET cx == s.w[w].ctxs[a.sl] IN
       IF \E k \in cx.ins : k \notin DOMAIN s.w[w].outs THEN "notfound"
       \* an input that is reserved, spent or reverted is refused (fix: C03)
       ELSE IF \E k \in cx.ins : s.w[w].outs[k].st \notin {"Unspent", "Unconfirmed"} THEN "inputstatus"
       ELSE IF a.hasproof /\ cx.pidx < 0 THEN "proofidx"
       ELSE "ok"

LockBatch(s, w, a) ==
  LET wr == s.w[w]
      cx == wr.ctxs[a.sl]
      id == wr.idx[cx.acct].log
      H  == Height(s)
      chgKeys == {cx.outs[i].k : i \in DOMAIN cx.outs}
      chgVal(k) == LET i == CHOOSE j \in DOMAIN cx.outs : cx.outs[j].k = k IN cx.outs[i].v
      \* S1 slate: the sender's own excess; S2 reply: it carries a transaction, so it is
      \* not repopulated and holds the recipient's excess only; I2: the stored full excess
      kern == IF cx.calc # "" /\ a.stage = "I2" THEN cx.calc
              ELSE IF a.stage = "S1" THEN "part"
              ELSE IF a.stage = "F" THEN FullK(a.sl, a.rep)    \* the completed slate
              ELSE IF a.stage = "X" THEN a.kern               \* whatever excess the given slate sums to
              ELSE "rpart"
      e  == [NewTx(cx.acct, id, "TxSent") EXCEPT
               !.slate = a.sl, !.fee = cx.fee, !.ttl = a.ttl, !.kern = kern, !.minh = H,
               !.nin = Cardinality(cx.ins),
               !.db = SumF([k \in cx.ins |-> wr.outs[k].v], cx.ins),
               !.nout = Len(cx.outs),
               !.cr = SumF([k \in chgKeys |-> chgVal(k)], chgKeys),
               !.proof = IF a.hasproof THEN "nosig" ELSE "none"]
      outs1 == [k \in (DOMAIN wr.outs) \cup chgKeys |->
                  IF k \in chgKeys
                  THEN [v |-> chgVal(k), st |-> "Unconfirmed", h |-> H, lk |-> 0, cb |-> FALSE,
                        tx |-> id, acct |-> cx.acct,
                        pa |-> IF OID(s, w, k) \in DOMAIN s.reg THEN s.reg[OID(s, w, k)].pa ELSE cx.acct, m |-> FALSE]
                  ELSE IF k \in cx.ins THEN [wr.outs[k] EXCEPT !.st = "Locked", !.tx = id]
                  ELSE wr.outs[k]]
  IN SetW(s, w, [wr EXCEPT !.outs = outs1, !.txs = Put(@, TxKeyOf(cx.acct, id), e),
                           !.idx[cx.acct].log = id + 1])

Lock(s, w, a) ==
  LET err == LockErr(s, w, a) IN
  IF err # "ok" THEN [steps |-> <<>>, res |-> err]
  ELSE LET s1 == LockBatch(s, w, a)
           s2 == [s1 EXCEPT !.w[w].files = Put(@, a.sl, IF a.stage = "F" THEN "final" ELSE "part")]
       IN [steps |-> <<s1, s2>>, res |-> "ok"]

\* ---------------------------------------------------------------------
\* Receive — foreign::receive_tx.  args: [sl, dest, amt, ttl, hasproof, kernin]
\*  kernin: the incoming slate carries the sender's excess ("part") or not ("")
\*  Steps: K . B(output + TxReceived) . B(kernel := full)
\* ---------------------------------------------------------------------
ReceiveErr(s, w, a) ==
  LET wr == s.w[w]
      acct == AcctOf(s, w, a.dest) IN
  IF a.ttl # 0 /\ wr.idx[wr.active].confh >= a.ttl THEN "expired"
  ELSE IF \E t \in TxBySlate(s, w, a.sl, {acct}) : wr.txs[t].ty = "TxReceived" THEN "already"
  ELSE "ok"

Receive(s, w, a) ==
  LET err == ReceiveErr(s, w, a) IN
  IF err # "ok" THEN [steps |-> <<>>, res |-> err, key |-> "", rep |-> 0]
  ELSE
  LET wr   == s.w[w]
      acct == AcctOf(s, w, a.dest)
      h    == wr.idx[wr.active].confh
      key  == NextChildKey(s, w)
      s1   == BumpChild(s, w)
      id   == wr.idx[acct].log
      e    == [NewTx(acct, id, "TxReceived") EXCEPT
                 !.slate = a.sl, !.cr = a.amt, !.nout = 1, !.ttl = a.ttl,
                 !.kern = a.kernin, !.minh = h]
      o    == [v |-> a.amt, st |-> "Unconfirmed", h |-> h, lk |-> 0, cb |-> FALSE,
               tx |-> id, acct |-> acct, pa |-> wr.active, m |-> FALSE]
      s2   == [Reg(s1, w, key, ActiveChild(s, w), a.amt, FALSE) EXCEPT !.w[w].outs = Put(@, key, o),
                         !.w[w].txs = Put(@, TxKeyOf(acct, id), e),
                         !.w[w].idx[acct].log = id + 1]
      nr   == Nrep(s, a.sl) + 1
      s3   == [s2 EXCEPT !.w[w].txs[TxKeyOf(acct, id)].kern = FullK(a.sl, nr),
                         !.nrep = Put(@, a.sl, nr)]
  IN [steps |-> <<s1, s2, s3>>, res |-> "ok", key |-> key, rep |-> nr]

\* ---------------------------------------------------------------------
\* IssueInvoice — owner::issue_invoice_tx.  args: [sl, dest, amt]
\*  Steps: K . B(output + TxReceived, no kernel) . B(ctx)
\* ---------------------------------------------------------------------
IssueInvoice(s, w, a) ==
  LET wr   == s.w[w]
      acct == AcctOf(s, w, a.dest)
      H    == Height(s)
      key  == NextChildKey(s, w)
      s1   == BumpChild(s, w)
      id   == wr.idx[acct].log
      e    == [NewTx(acct, id, "TxReceived") EXCEPT !.slate = a.sl, !.cr = a.amt, !.nout = 1, !.minh = H]
      o    == [v |-> a.amt, st |-> "Unconfirmed", h |-> H, lk |-> 0, cb |-> FALSE, tx |-> id, acct |-> acct,
               pa |-> wr.active, m |-> FALSE]
      s2   == [Reg(s1, w, key, ActiveChild(s, w), a.amt, FALSE) EXCEPT !.w[w].outs = Put(@, key, o),
                         !.w[w].txs = Put(@, TxKeyOf(acct, id), e),
                         !.w[w].idx[acct].log = id + 1]
      ctx  == [acct |-> acct, ins |-> {}, outs |-> <<[k |-> key, v |-> a.amt]>>, amt |-> a.amt,
               fee |-> -1, late |-> NoCtxLate, pidx |-> -1, calc |-> ""]
      s3   == [s2 EXCEPT !.w[w].ctxs = Put(@, a.sl, ctx)]
  IN [steps |-> <<s1, s2, s3>>, res |-> "ok", key |-> key]

\* ---------------------------------------------------------------------
\* ProcessInvoice — owner::process_invoice_tx.
\*  args as InitSend plus [ttl]; nothing is locked.
\*  Steps: B(refresh1) . K x |chg| . B(ctx)
\* ---------------------------------------------------------------------
ProcessInvoiceErr(s, w, a) ==
  LET wr == s.w[w]
      acct == AcctOf(s, w, a.src) IN
  IF a.ttl # 0 /\ wr.idx[wr.active].confh >= a.ttl THEN "expired"
  ELSE IF \E t \in TxBySlate(s, w, a.sl, {acct}) : wr.txs[t].ty = "TxSent" THEN "already"
  ELSE IF \E t \in TxBySlate(s, w, a.sl, {acct}) : wr.txs[t].ty = "TxSentCancelled" THEN "wascancelled"
  ELSE "ok"

ProcessInvoice(s, w, a) ==
  LET err == ProcessInvoiceErr(s, w, a) IN
  IF err # "ok" THEN [steps |-> <<>>, res |-> err, rep |-> 0]
  ELSE
  LET acct == AcctOf(s, w, a.src)
      s1   == Refresh1(s, w, acct, FALSE)
      ks   == ChildKeys(s1, w, Len(a.chg))
      bs   == BumpSteps(s1, w, Len(a.chg))
      s2   == LastOr(bs, s1)
      nr   == Nrep(s, a.sl) + 1
      self == a.sl \in DOMAIN s.w[w].ctxs        \* self-send: contexts merged
      old  == IF self THEN s.w[w].ctxs[a.sl] ELSE [acct |-> acct, ins |-> {}, outs |-> <<>>, amt |-> a.amt, fee |-> a.fee]
      ctx  == [acct |-> acct, ins |-> a.sel \cup old.ins,
               outs |-> [i \in 1..Len(a.chg) |-> [k |-> ks[i], v |-> a.chg[i]]] \o old.outs,
               amt |-> IF self THEN old.amt ELSE a.amt,
               fee |-> IF self THEN old.fee ELSE a.fee,
               late |-> NoCtxLate, pidx |-> -1, calc |-> FullK(a.sl, nr)]
      s3   == RegSeq([s2 EXCEPT !.w[w].ctxs = Put(@, a.sl, ctx), !.nrep = Put(@, a.sl, nr)],
                     w, ks, a.chg, ActiveChild(s1, w), 1)
  IN [steps |-> <<s1>> \o bs \o <<s3>>, res |-> "ok", rep |-> nr]

\* ---------------------------------------------------------------------
\* Finalize — foreign::finalize_tx / owner::finalize_tx.
\*  args: [sl, stage ("S2"|"I2"|other), rep (which reply), rkern (excess class of the slate as
\*         delivered: "rpart" for a genuine reply), ttl, valid (algebra: reply verifies),
\*         proofok, hasproof, rout (counter-party output ids, world-wide),
\*         lsel, lchg (late lock: selection made at finalize), post]
\*  Steps S2:  [late: K x n . B(ctx) . B(lock) . F(part)] . verify . F(final) . B(entry) . B(del ctx)
\*  NOTE (transcribed; known finding C07/ForeignOnlyAdds/finalize): late-lock selection,
\*  context save and locking happen BEFORE the reply is verified.
\* ---------------------------------------------------------------------
FinalizeS2(s, w, a) ==
  LET wr  == s.w[w]
      cx0 == wr.ctxs[a.sl]
      late == cx0.late.on
      \* --- late lock part (active account!)
      ks  == ChildKeys(s, w, Len(a.lchg))
      bs  == BumpSteps(s, w, Len(a.lchg))
      sK  == LastOr(bs, s)
      cx1 == IF late THEN [cx0 EXCEPT !.ins = a.lsel,
                                      !.outs = [i \in 1..Len(a.lchg) |-> [k |-> ks[i], v |-> a.lchg[i]]],
                                      !.late = NoCtxLate]
             ELSE cx0
      sC  == RegSeq([sK EXCEPT !.w[w].ctxs = Put(@, a.sl, cx1)], w, ks, a.lchg, ActiveChild(s, w), 1)
      lk  == Lock(sC, w, [sl |-> a.sl, stage |-> "X", kern |-> a.rkern, ttl |-> a.ttl, hasproof |-> a.hasproof])
      pre == IF late THEN bs \o <<sC>> \o lk.steps ELSE <<>>
      sL  == IF late /\ lk.res = "ok" THEN LastOf(lk.steps) ELSE IF late THEN sC ELSE s
      wl  == sL.w[w]
      \* --- verification: algebra says whether the aggregate verifies
      \* the proof check looks the entry up in the account of the context (fix: C01-4)
      sentAct == {t \in TxBySlate(sL, w, a.sl, {cx0.acct}) : TRUE}
      sentAny == {t \in TxBySlate(sL, w, a.sl, AllAccts(sL, w)) : wl.txs[t].ty = "TxSent"}
      \* update_stored_tx takes the FIRST TxSent entry with this slate id (any account)
      tgt == CHOOSE t \in sentAny : \A u \in sentAny : wl.txs[t].id <= wl.txs[u].id \/ wl.txs[t].acct # wl.txs[u].acct
      sF  == [sL EXCEPT !.w[w].files = Put(@, a.sl, "final"),
                        !.body = Put(@, a.sl, [ins |-> {OID(s, w, k) : k \in cx1.ins},
                                               outs |-> {OID(s, w, cx1.outs[i].k) : i \in DOMAIN cx1.outs} \cup a.rout,
                                               fee |-> cx1.fee, kern |-> FullK(a.sl, a.rep)])]
      sE  == [sF EXCEPT !.w[w].txs[tgt].kern = FullK(a.sl, a.rep),
                        !.w[w].txs[tgt].proof = IF a.hasproof THEN "both" ELSE wl.txs[tgt].proof]
      sD  == [sE EXCEPT !.w[w].ctxs = Del(@, {a.sl})]
  IN IF late /\ lk.res # "ok" THEN [steps |-> bs \o <<sC>>, res |-> lk.res]
     ELSE IF ~a.valid THEN [steps |-> pre, res |-> "invalid"]
     ELSE IF sentAct = {} THEN [steps |-> pre, res |-> "noentry"]
     ELSE IF ~a.proofok THEN [steps |-> pre, res |-> "proof"]
     ELSE IF sentAny = {} THEN [steps |-> pre, res |-> "noentry"]
     ELSE [steps |-> pre \o <<sF, sE, sD>>, res |-> "ok"]

FinalizeI2(s, w, a) ==
  LET wr  == s.w[w]
      cx  == wr.ctxs[a.sl]
      rcv == {t \in TxBySlate(s, w, a.sl, AllAccts(s, w)) : wr.txs[t].ty = "TxReceived"}
      tgt == CHOOSE t \in rcv : TRUE
      sF  == [s EXCEPT !.w[w].files = Put(@, a.sl, "final"),
                       !.body = Put(@, a.sl, [ins |-> a.rins,
                                              outs |-> {OID(s, w, cx.outs[i].k) : i \in DOMAIN cx.outs} \cup a.rout,
                                              fee |-> a.rfee, kern |-> FullK(a.sl, a.rep)])]
      sE  == [sF EXCEPT !.w[w].txs[tgt].kern = FullK(a.sl, a.rep)]
      sD  == [sE EXCEPT !.w[w].ctxs = Del(@, {a.sl})]
  IN IF ~a.valid THEN [steps |-> <<>>, res |-> "invalid"]
     ELSE IF rcv = {} THEN [steps |-> <<>>, res |-> "noentry"]
     ELSE [steps |-> <<sF, sE, sD>>, res |-> "ok"]

Finalize(s, w, a) ==
  LET wr == s.w[w] IN
  IF a.sl \notin DOMAIN wr.ctxs THEN [steps |-> <<>>, res |-> "noctx"]
  ELSE IF a.ttl # 0 /\ wr.idx[wr.active].confh >= a.ttl THEN [steps |-> <<>>, res |-> "expired"]
  ELSE IF a.stage = "S2" THEN FinalizeS2(s, w, a)
  ELSE IF a.stage = "I2" THEN FinalizeI2(s, w, a)
  ELSE [steps |-> <<>>, res |-> "state"]

\* ---------------------------------------------------------------------
\* Cancel body — tx::cancel_tx on the ACTIVE account.  args: [id | sl]
\*  (owner::cancel_tx runs the full Refresh program first; see RefreshFull)
\*  Steps: B(delete Unconfirmed/Reverted, unlock Locked, entry cancelled)
\* ---------------------------------------------------------------------
CancelMatches(s, w, a) ==
  LET wr == s.w[w] IN
  {t \in DOMAIN wr.txs : /\ wr.txs[t].acct = wr.active
                         /\ (a.id >= 0 => wr.txs[t].id = a.id)
                         /\ (a.sl # "" => wr.txs[t].slate = a.sl)}
CancelErr(s, w, a) ==
  LET wr == s.w[w]
      m  == CancelMatches(s, w, a) IN
  IF Cardinality(m) # 1 THEN "notfound"
  ELSE LET e == wr.txs[CHOOSE t \in m : TRUE] IN
       IF e.ty \notin {"TxSent", "TxReceived", "TxReverted"} THEN "notcancellable"
       ELSE IF e.conf THEN "notcancellable"
       ELSE "ok"
CancelBody(s, w, a) ==
  LET err == CancelErr(s, w, a) IN
  IF err # "ok" THEN [steps |-> <<>>, res |-> err]
  ELSE
  LET wr == s.w[w]
      t  == CHOOSE t \in CancelMatches(s, w, a) : TRUE
      e  == wr.txs[t]
      mine == {k \in DOMAIN wr.outs : wr.outs[k].st # "Spent" /\ wr.outs[k].tx = e.id /\ wr.outs[k].acct = wr.active}
      del  == {k \in mine : wr.outs[k].st \in {"Unconfirmed", "Reverted"}}
      outs1 == [k \in (DOMAIN wr.outs) \ del |->
                  IF k \in mine /\ wr.outs[k].st = "Locked" THEN [wr.outs[k] EXCEPT !.st = "Unspent"]
                  ELSE wr.outs[k]]
      e1 == [e EXCEPT !.ty = IF @ = "TxSent" THEN "TxSentCancelled" ELSE "TxReceivedCancelled"]
  IN [steps |-> <<SetW(s, w, [wr EXCEPT !.outs = outs1, !.txs[t] = e1])>>, res |-> "ok"]

\* ---------------------------------------------------------------------
\* BuildCoinbase — foreign::build_coinbase.  args: [fees, h, key ("" = none)]
\*  A supplied key is reused only when it names a still-Unconfirmed coinbase
\*  candidate (fix: C07); otherwise a fresh key is taken.
\*  Steps: [K] . B(candidate)
\* ---------------------------------------------------------------------
BuildCoinbase(s, w, a) ==
  LET wr == s.w[w]
      reuse == a.key # "" /\ a.key \in DOMAIN wr.outs /\ wr.outs[a.key].cb /\ wr.outs[a.key].st = "Unconfirmed"
                        /\ ~wr.outs[a.key].m
      key == IF reuse THEN a.key ELSE NextChildKey(s, w)
      s1  == IF reuse THEN s ELSE BumpChild(s, w)
      o   == [v |-> Reward + a.fees, st |-> "Unconfirmed", h |-> a.h, lk |-> a.h + Maturity,
              cb |-> TRUE, tx |-> NoTx, acct |-> wr.active,
              pa |-> IF reuse THEN wr.outs[key].pa ELSE wr.active, m |-> FALSE]
      n   == IF reuse /\ OID(s, w, key) \in DOMAIN s.reg THEN s.reg[OID(s, w, key)].n ELSE ActiveChild(s, w)
      s2  == [Reg(s1, w, key, n, Reward + a.fees, TRUE) EXCEPT !.w[w].outs = Put(@, key, o),
                                                             !.reg[OID(s, w, key)].pa = o.pa]
  IN [steps |-> IF reuse THEN <<s2>> ELSE <<s1, s2>>, res |-> "ok", key |-> key]

\* ---------------------------------------------------------------------
\* BuildOutput — owner::build_output.  Hands out the next key of the ACTIVE
\* account and builds an output with it; nothing else is stored (the caller
\* owns the output).  Steps: K
\* ---------------------------------------------------------------------
BuildOutput(s, w) ==
  [steps |-> <<BumpChild(s, w)>>, res |-> "ok", key |-> NextChildKey(s, w)]

\* ---------------------------------------------------------------------
\* MwixReq — owner::create_mwixnet_req.  args: [k (key of the record whose
\*  commitment is named), lock]
\*  The commitment is looked up among the non-Spent records of the ACTIVE
\*  account (whatever their status); a new output is built for the swapped
\*  value (K); with lock the record, re-read by its plain key (a record restored
\*  by a scan is keyed with its MMR index and is not found), is marked Locked in
\*  a batch of its own - a reservation WITHOUT a log entry (second reservation
\*  kind, released only by a scan that deletes unconfirmed transactions).
\*  Steps: K . [B(record Locked)]
\* ---------------------------------------------------------------------
MwixReq(s, w, a) ==
  LET wr == s.w[w]
      found == a.k \in DOMAIN wr.outs /\ wr.outs[a.k].acct = wr.active /\ wr.outs[a.k].st # "Spent"
      s1 == BumpChild(s, w)
      s2 == [s1 EXCEPT !.w[w].outs[a.k].st = "Locked"] IN
  IF ~found THEN [steps |-> <<>>, res |-> "notfound", key |-> ""]
  ELSE IF ~a.lock THEN [steps |-> <<s1>>, res |-> "ok", key |-> NextChildKey(s, w)]
  ELSE IF wr.outs[a.k].m THEN [steps |-> <<s1>>, res |-> "norecord", key |-> NextChildKey(s, w)]
  ELSE [steps |-> <<s1, s2>>, res |-> "ok", key |-> NextChildKey(s, w)]

\* ---------------------------------------------------------------------
\* Accounts
\* ---------------------------------------------------------------------
\* a.label: new label; a.name: the account path it gets (max existing + 1, chosen by the caller)
CreateAccount(s, w, a) ==
  IF a.label \in DOMAIN s.w[w].labels THEN [steps |-> <<>>, res |-> "exists"]
  ELSE [steps |-> <<[s EXCEPT !.w[w].idx = Put(@, a.name, [child |-> 0, log |-> 0, confh |-> 0]),
                              !.w[w].labels = Put(@, a.label, a.name)]>>, res |-> "ok"]
SetActive(s, w, a) ==
  IF a.label \notin DOMAIN s.w[w].labels THEN [steps |-> <<>>, res |-> "unknown"]
  ELSE [steps |-> <<[s EXCEPT !.w[w].active = s.w[w].labels[a.label]]>>, res |-> "ok"]

\* ---------------------------------------------------------------------
\* Environment: node and chain
\* ---------------------------------------------------------------------
Post(s, sl) == [s EXCEPT !.pool = @ \cup {sl}]
\* a block with coinbase output `cb` (world-wide id, "" if foreign) and txs
MineBlock(s, cb, txs) == [s EXCEPT !.chain = Append(@, [cb |-> cb, txs |-> txs]), !.pool = @ \ txs]

\* a reorganisation: the last d blocks are replaced by d + 1 new ones mined by
\* nobody we know; the first new block carries `keep` (transactions of the removed
\* blocks that the miner includes again - they must still be valid there); the other
\* removed transactions return to the pool
Fork(s, d, keep) ==
  LET H == Height(s)
      base == [s EXCEPT !.chain = SubSeq(s.chain, 1, H - d)]
      removed == UNION {s.chain[i].txs : i \in (H - d + 1)..H}
      first == [cb |-> "", txs |-> keep]
      rest == [i \in 1..d |-> [cb |-> "", txs |-> {}]] IN
  [base EXCEPT !.chain = @ \o <<first>> \o rest, !.pool = (s.pool \cup removed) \ keep]

\* a new wallet created from the recovery phrase of wallet `from`
Restore(s, w, from) ==
  [s EXCEPT !.w = Put(@, w, [EmptyWallet({"a0"}) EXCEPT !.seed = s.w[from].seed])]

\* divergences injected into the records (C16)
Diverge(s, w, kind, k) ==
  IF k \notin DOMAIN s.w[w].outs THEN s
  ELSE CASE kind = "delete"  -> [s EXCEPT !.w[w].outs = Del(@, {k})]
         [] kind = "spent"   -> [s EXCEPT !.w[w].outs[k].st = "Spent"]
         [] kind = "unspent" -> [s EXCEPT !.w[w].outs[k].st = "Unspent"]
         [] kind = "lock"    -> [s EXCEPT !.w[w].outs[k].st = "Locked"]
         [] OTHER -> s

\* ======================================================================
\* RefreshFull — owner::update_wallet_state(update_all = FALSE) on the
\* active account, as ONE atomic composition (Conc.tla interleaves the
\* sections).  Scan part with del = FALSE is ScanBody (Scan.tla section
\* below).  Returns [steps, res, refreshed].
\* ======================================================================
\* step 2: confirm outstanding entries by kernel.  Snapshot T is taken
\* after Refresh1; each found kernel is one batch writing the SNAPSHOT copy.
KernelConfirmable(s, w, T) ==
  {t \in T : LET e == s.w[w].txs[t] IN
        /\ ~e.conf /\ ~(e.db # 0 /\ e.cr # 0) /\ e.kern # ""
        /\ KernelOnChain(s, e.kern, MaxOf(e.minh, 0), Height(s))}
RECURSIVE KernelSteps(_, _, _, _)
\* the stored entry is re-read under the lock and confirmed only if it is still the
\* same outstanding transaction (fix: C20 stale write-back); else nothing is written
KernelSteps(s, w, snap, todo) ==
  IF todo = {} THEN <<>>
  ELSE LET t == CHOOSE x \in todo : \A y \in todo : snap[x].id <= snap[y].id
           ok == /\ t \in DOMAIN s.w[w].txs
                 /\ s.w[w].txs[t].ty = snap[t].ty /\ ~s.w[w].txs[t].conf /\ s.w[w].txs[t].kern = snap[t].kern
           s1 == IF ok THEN [s EXCEPT !.w[w].txs[t].conf = TRUE] ELSE s
       IN (IF ok THEN <<s1>> ELSE <<>>) \o KernelSteps(s1, w, snap, todo \ {t})

\* ======================================================================
\* Scan body (scan::scan) - restore / repair against the chain.
\*  The seed's outputs in the UTXO set at heights >= start are what the node and
\*  the range-proof rewind reveal: ScanOwned.  A chain output MATCHES a wallet
\*  record iff the commitments are equal, i.e. same key and same value.
\*  One state per batch, in code order (chain order inside a category).
\* ======================================================================
ScanOwned(s, w, start) ==
  {o \in Utxo(s) : o \in DOMAIN s.reg /\ s.reg[o].seed = s.w[w].seed /\ HeightOfOut(s, o) >= start}
Matches(s, w, o) == s.reg[o].key \in DOMAIN s.w[w].outs /\ s.w[w].outs[s.reg[o].key].v = s.reg[o].v
\* chain order: by height, then an arbitrary but fixed order inside a block
ChainOrder(s, O) ==
  SortSeq(AnySeq(O), LAMBDA x, y : HeightOfOut(s, x) < HeightOfOut(s, y))

\* cancel_tx_log_entry(o): entry `o.tx` of the KEY'S path account; always one batch
ScanCancelEntry(s, w, o) ==
  LET t == TxKeyOf(o.pa, o.tx) IN
  IF o.tx # NoTx /\ t \in DOMAIN s.w[w].txs
  THEN [s EXCEPT !.w[w].txs[t].ty = IF @ = "TxSent" THEN "TxSentCancelled"
                                    ELSE IF @ = "TxReceived" THEN "TxReceivedCancelled" ELSE @]
  ELSE s

\* records (snapshot copies!) found on chain that must become Unspent again
RECURSIVE ScanUnspend(_, _, _, _, _)
ScanUnspend(s, w, snap, q, i) ==
  IF i > Len(q) THEN <<>>
  ELSE LET k  == s.reg[q[i]].key
           s1 == ScanCancelEntry(s, w, snap[k])
           \* the repaired record takes the height the chain reports (fix: C16 ScanIdempotent)
           s2 == [s1 EXCEPT !.w[w].outs = Put(@, k, [snap[k] EXCEPT !.st = "Unspent", !.h = HeightOfOut(s, q[i])])]
       IN <<s1, s2>> \o ScanUnspend(s2, w, snap, q, i + 1)

\* a chain output of ours (o, at height h) with no matching record: restore + confirmed log entry
ScanRestoreOne(s, w, oid, h) ==
  LET c  == s.reg[oid]
      a  == c.pa
      idx0 == IF a \in AllAccts(s, w) THEN s.w[w].idx
              ELSE Put(s.w[w].idx, a, [child |-> 0, log |-> 0, confh |-> 0])
      id == idx0[a].log
      e  == [NewTx(a, id, IF c.cb THEN "ConfirmedCoinbase" ELSE "TxReceived") EXCEPT
               !.conf = TRUE, !.cr = c.v, !.nout = 1]
      o  == [v |-> c.v, st |-> "Unspent", h |-> h, lk |-> IF c.cb THEN h + Maturity ELSE h,
             cb |-> c.cb, tx |-> id, acct |-> a, pa |-> a, m |-> TRUE]
      \* a record with the same key but another value stays; the restored one is
      \* stored under (key, mmr index): abstract key "<key>+m"
      k2 == IF c.key \in DOMAIN s.w[w].outs THEN c.key \o "+m" ELSE c.key
  IN [s EXCEPT !.w[w].idx = [idx0 EXCEPT ![a].log = id + 1],
               !.w[w].outs = Put(@, k2, o),
               !.w[w].txs = Put(@, TxKeyOf(a, id), e)]
RECURSIVE ScanRestore(_, _, _, _)
ScanRestore(s, w, q, i) ==
  IF i > Len(q) THEN <<>>
  ELSE LET s1 == ScanRestoreOne(s, w, q[i], HeightOfOut(s, q[i]))
       IN <<s1>> \o ScanRestore(s1, w, q, i + 1)

\* del: every snapshot record that was Unconfirmed: entry cancelled, record deleted
RECURSIVE ScanDelUnconfirmed(_, _, _, _, _)
ScanDelUnconfirmed(s, w, snap, q, i) ==
  IF i > Len(q) THEN <<>>
  ELSE LET k  == q[i]
           s1 == ScanCancelEntry(s, w, snap[k])
           s2 == [s1 EXCEPT !.w[w].outs = Del(@, {k})]
       IN <<s1, s2>> \o ScanDelUnconfirmed(s2, w, snap, q, i + 1)

\* child indices of the accounts seen among the restored outputs (one batch each
\* when the index moves; unknown accounts get a label first - not a batch of ours)
RECURSIVE ScanFixChild(_, _, _, _)
ScanFixChild(s, w, accts, maxn) ==
  IF accts = {} THEN <<>>
  ELSE LET a == CHOOSE x \in accts : TRUE
           cur == s.w[w].idx[a].child IN
       IF maxn[a] >= cur
       THEN LET s1 == [s EXCEPT !.w[w].idx[a].child = maxn[a] + 1] IN <<s1>> \o ScanFixChild(s1, w, accts \ {a}, maxn)
       ELSE ScanFixChild(s, w, accts \ {a}, maxn)

ScanBody(s, w, start, del) ==
  LET snap  == s.w[w].outs
      owned == ScanOwned(s, w, start)
      acc   == ChainOrder(s, {o \in owned : Matches(s, w, o) /\ snap[s.reg[o].key].st = "Spent"})
      lck   == ChainOrder(s, {o \in owned : Matches(s, w, o) /\ snap[s.reg[o].key].st = "Locked"})
      mis   == ChainOrder(s, {o \in owned : ~Matches(s, w, o)})
      st1   == ScanUnspend(s, w, snap, acc, 1)
      s1    == LastOr(st1, s)
      st2   == ScanRestore(s1, w, mis, 1)
      s2    == LastOr(st2, s1)
      st3   == IF del THEN ScanUnspend(s2, w, snap, lck, 1) ELSE <<>>
      s3    == LastOr(st3, s2)
      \* (not the records whose commitment the node reported: those only wait for their account's refresh)
      unc   == AnySeq({k \in DOMAIN snap : snap[k].st = "Unconfirmed" /\ ~\E o \in owned : Matches(s, w, o) /\ s.reg[o].key = k})
      st4   == IF del THEN ScanDelUnconfirmed(s3, w, snap, unc, 1) ELSE <<>>
      s4    == LastOr(st4, s3)
      pas   == {s.reg[mis[i]].pa : i \in DOMAIN mis}
      maxn  == [a \in pas |-> LET ns == {s.reg[mis[i]].n : i \in {j \in DOMAIN mis : s.reg[mis[j]].pa = a}} IN
                              CHOOSE n \in ns : \A m \in ns : n >= m]
      st5   == ScanFixChild(s4, w, pas, maxn)
  IN st1 \o st2 \o st3 \o st4 \o st5

\* ---------------------------------------------------------------------
\* ViewScan — owner::get_rewind_hash / owner::scan_rewind_hash: what somebody holding the rewind hash of
\* wallet w's seed (a view wallet) is shown: every unspent output of that seed at or above the start height,
\* with value, height, coinbase flag and lock height, and their total.  Reads the chain only; no wallet
\* record is consulted or written.
\* ---------------------------------------------------------------------
ViewScan(s, w, start) ==
  LET O == ScanOwned(s, w, start) IN
  [outs  |-> {[o |-> o, v |-> s.reg[o].v, h |-> HeightOfOut(s, o), cb |-> s.reg[o].cb,
               lk |-> IF s.reg[o].cb THEN HeightOfOut(s, o) + Maturity ELSE HeightOfOut(s, o)] : o \in O},
   total |-> SumF([o \in O |-> s.reg[o].v], O)]

\* snapshot entries with an expired TTL are cancelled one by one; an error
\* propagates out of update_wallet_state (transcribed)
RECURSIVE TtlCancelSteps(_, _, _, _)
TtlCancelSteps(s, w, snap, todo) ==
  IF todo = {} THEN [steps |-> <<>>, res |-> "ok"]
  ELSE LET t == CHOOSE x \in todo : \A y \in todo : snap[x].id <= snap[y].id
           r == CancelBody(s, w, [id |-> snap[t].id, sl |-> ""]) IN
       IF r.res # "ok" THEN [steps |-> <<>>, res |-> r.res]
       ELSE LET rest == TtlCancelSteps(LastOf(r.steps), w, snap, todo \ {t}) IN
            [steps |-> r.steps \o rest.steps, res |-> rest.res]

\* the whole update_wallet_state(update_all = FALSE) on the active account; node reachable
RefreshFull(s, w) ==
  LET a   == s.w[w].active
      s1  == Refresh1(s, w, a, FALSE)
      T   == Outstanding(s1, w, a)
      snap == s1.w[w].txs
      ks  == KernelSteps(s1, w, snap, KernelConfirmable(s1, w, T))
      s2  == LastOr(ks, s1)
      start == IF s2.w[w].scanned > 100 THEN s2.w[w].scanned - 100 ELSE 0
      sc  == ScanBody(s2, w, start, FALSE)
      s2b == LastOr(sc, s2)
      s3  == [s2b EXCEPT !.w[w].scanned = Height(s)]
      exp == {t \in T : snap[t].ttl # 0 /\ Height(s) >= snap[t].ttl}
      tc  == TtlCancelSteps(s3, w, snap, exp)
  IN [steps |-> <<s1>> \o ks \o sc \o <<s3>> \o tc.steps, res |-> tc.res, refreshed |-> TRUE]

\* owner::scan(start, del): Refresh1(update_all = TRUE), the scan body, B(scanned)
Scan(s, w, start, del) ==
  LET a  == s.w[w].active
      s1 == Refresh1(s, w, a, TRUE)
      sc == ScanBody(s1, w, start, del)
      s2 == LastOr(sc, s1)
      s3 == [s2 EXCEPT !.w[w].scanned = Height(s)]
  IN [steps |-> <<s1>> \o sc \o <<s3>>, res |-> "ok"]
\* node unreachable: nothing happens, "not refreshed"
RefreshDown(s, w) == [steps |-> <<>>, res |-> "ok", refreshed |-> FALSE]

\* owner::cancel_tx = full refresh, then the cancel body
Cancel(s, w, a, nodeUp) ==
  IF ~nodeUp THEN [steps |-> <<>>, res |-> "nonode"]
  ELSE LET rf == RefreshFull(s, w) IN
       IF rf.res # "ok" THEN [steps |-> rf.steps, res |-> rf.res]
       ELSE LET c == CancelBody(LastOf(rf.steps), w, a) IN
            [steps |-> rf.steps \o c.steps, res |-> c.res]

=============================================================================
