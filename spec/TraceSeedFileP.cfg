CONSTANTS
  MaxBak = 8
  CheckM = FALSE
SPECIFICATION TSpec
POSTCONDITION Consumed
CHECK_DEADLOCK FALSE
