CONSTANTS
  Mode = "sample"
  NSample = 30000
  Wide = TRUE
SPECIFICATION Spec
INVARIANTS InvRoundTrip InvCrossEqual InvAux InvWire InvGen
CHECK_DEADLOCK FALSE
