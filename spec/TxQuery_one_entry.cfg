\* thorough tier, part 1: ALL one-entry logs x both active accounts x every single field value + legacy look-ups
CONSTANTS
  MaxLen = 5
  NLogs = 0
  ExhaustOne = TRUE
  Arity = 1
  NRand = 0
  Dev = {"CreationUpperBoundReadsMinConfirmed", "AdvancedIgnoresAccount"}
SPECIFICATION Spec
INVARIANT Inv_Reference
INVARIANT Inv_Repaired
INVARIANT Inv_Readings
INVARIANT Inv_CodeModel
INVARIANT Emit
CHECK_DEADLOCK FALSE
