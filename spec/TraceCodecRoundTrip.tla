----------------------- MODULE TraceCodecRoundTrip -----------------------
(***************************************************************************)
(* C08: validation of what the REAL encoders/decoders did (recorded by     *)
(* harness/src/bin/replay_codec, one ndjson line per case) against         *)
(* CodecRoundTrip.tla.                                                     *)
(*                                                                         *)
(* Every line carries the case TLC generated ("in"), the projection of the *)
(* value the wallet held ("orig", "h0") and, per encoding, the result      *)
(* class, the projection of the decoded value ("dec"), the hash of its     *)
(* concrete material ("h") and the shape of the wire form ("wire").        *)
(*                                                                         *)
(*   Layer P  the properties of CodecRoundTrip.tla evaluated on OBSERVED   *)
(*            data: RoundTripRes / SlateEq between the observed original   *)
(*            and the observed decoding (VIOL lines: the verdict);         *)
(*   Layer M  observed = predicted: the observed original is FromV4 of the *)
(*            case, each observed decoding is DecEnc of the model, the     *)
(*            JSON key sets and binary lengths are those of JsonKeys /     *)
(*            BinLen (NONCONF lines: reported, never a verdict).           *)
(*                                                                         *)
(* Lines are independent, so every line is an initial state and judging it *)
(* is its only step: TLC judges the lines on all its workers.              *)
(***************************************************************************)
EXTENDS CodecRoundTrip, Json, IOUtils, TLCExt, SequencesExt

CONSTANT CheckM     \* TRUE: evaluate Layer M as well as Layer P

VARIABLES l, phase
tvars == <<l, phase>>

Rec == ndJsonDeserialize(IOEnv.TRACE)
Has(r, f) == f \in DOMAIN r

\* ------------------------------------------------------------ reporting
\* (the case itself is not repeated: the runner looks it up by its index b)
\* diff: the differing field classes; inh: those of them that the binary V4 slate itself shows (a slatepack
\* carries the binary slate, so these are attributed to "bin", the rest to the encoding e)
Viol(x, m, e, inh, diff, info) ==
  PrintT(<<"VIOL", ToJson([p |-> "C08", m |-> m, line |-> l, b |-> x.b, ev |-> x.ev, e |-> e, inh |-> inh, diff |-> diff])>>)
NonConf(x, e, what, info) ==
  PrintT(<<"NONCONF", ToJson([line |-> l, b |-> x.b, ev |-> x.ev, e |-> e, what |-> what, info |-> info])>>)
CheckP(c, x, m, e, inh, diff, info) == IF c THEN TRUE ELSE Viol(x, m, e, inh, diff, info)
CheckMM(c, x, e, what, info) == IF ~CheckM THEN TRUE ELSE IF c THEN TRUE ELSE NonConf(x, e, what, info)

\* ----------------------------------------------------- observation -> model
ObsSlate(j) ==
  [ver |-> j.ver, sta |-> j.sta, off |-> j.off, np |-> j.np, amt |-> j.amt, fee |-> j.fee, feat |-> j.feat,
   fargs |-> j.fargs, ttl |-> j.ttl,
   sigs |-> [i \in DOMAIN j.sigs |-> [part |-> j.sigs[i].part]],
   coms |-> [some |-> j.coms.some, items |-> [i \in DOMAIN j.coms.items |-> [k |-> j.coms.items[i].k, cb |-> j.coms.items[i].cb]]],
   proof |-> j.proof, txk |-> j.txk]
ObsCase(j) ==
  [ver |-> j.ver, sta |-> j.sta, off |-> j.off, np |-> j.np, amt |-> j.amt, fee |-> j.fee, feat |-> j.feat,
   fargs |-> j.fargs, ttl |-> j.ttl,
   sigs |-> [i \in DOMAIN j.sigs |-> [part |-> j.sigs[i].part]],
   coms |-> [some |-> j.coms.some, items |-> [i \in DOMAIN j.coms.items |-> [k |-> j.coms.items[i].k, cb |-> j.coms.items[i].cb]]],
   proof |-> j.proof, snd |-> j.snd, rk |-> j.rk]
\* the observed result of one encoding, in the shape of CodecRoundTrip!Dec
ObsRes(o) == IF o.res = "ok" THEN [res |-> "ok", slate |-> ObsSlate(o.dec), sender |-> o.sender = "same"]
             ELSE [res |-> o.res, slate |-> NoSlate, sender |-> FALSE]

\* ----------------------------------------------------------- slate lines
\* a changed material hash is a class of its own unless a field that carries material (keys, commitments,
\* proofs, signatures, offset) already differs in the abstract
CarriesMaterial == {"sigs", "sigs[n>255]", "coms", "proof", "off"}
WithMaterial(diff, hashdiffers) == diff \cup (IF hashdiffers /\ diff \cap CarriesMaterial = {} THEN {"material"} ELSE {})
\* everything that makes the decoded slate differ from the original, as finding-key fragments
ObsDiff(x, e, s0, env) ==
  LET o == x.enc[e] IN
  IF o.res # "ok" THEN {"res:" \o o.res}
  ELSE WithMaterial(DiffSet(s0, ObsSlate(o.dec)), o.h # x.h0)
       \cup (IF IsPack(e) /\ ((o.sender = "same") # env.snd \/ o.sender = "diff") THEN {"sender"} ELSE {})
\* the differences a slatepack encoding inherits from the binary slate it carries
ObsInherited(x, e, s0, env, diff) ==
  IF UsesBin(e) /\ e # "bin" THEN diff \cap ObsDiff(x, "bin", s0, env) ELSE {}

JudgeSlate(x) ==
  LET cs   == ObsCase(x["in"])
      env  == EnvOf(cs)
      s0   == ObsSlate(x.orig)
      v0   == ToV4(s0)
      r(e) == ObsRes(x.enc[e])
      hrp  == IF x.hrplen = 4 THEN "grin" ELSE "tgrin" IN
  \* ---- Layer P: RoundTrip(e, s) on the observed original and the observed decoding
  /\ \A e \in Encodings :
       LET diff == ObsDiff(x, e, s0, env) IN
       CheckP(InScope(s0) => (/\ RoundTripRes(r(e), s0, env, e)
                              /\ (r(e).res = "ok" => (x.enc[e].h = x.h0 /\ (IsPack(e) => x.enc[e].sender # "diff")))),
              x, "RoundTrip", e, ObsInherited(x, e, s0, env, diff), diff, x["in"])
  \* ---- Layer P: CrossEqual(s): every decoding equals the decoding of the JSON form
  /\ \A e \in Encodings \ {"json"} :
       LET ok == r(e).res = "ok" /\ r("json").res = "ok"
           xd(f) == IF r(f).res = "ok" /\ r("json").res = "ok"
                    THEN WithMaterial(DiffSet(r("json").slate, r(f).slate), x.enc[f].h # x.enc.json.h)
                    ELSE {} IN
       CheckP((InScope(s0) /\ ok) => (SlateEq(r(e).slate, r("json").slate) /\ x.enc[e].h = x.enc.json.h),
              x, "CrossEqual", "json~" \o e, IF e = "bin" THEN {} ELSE xd(e) \cap xd("bin"), xd(e), x["in"])
  \* ---- Layer M: the model predicts everything that was observed
  /\ CheckMM(s0 = SlateOfCase(cs), x, "-", "Intake:FromV4", [exp |-> SlateOfCase(cs), obs |-> s0])
  /\ \A e \in Encodings :
       LET pr == DecEnc(e, s0, env)  ob == r(e) IN
       /\ CheckMM(pr.res = ob.res, x, e, "DecEnc:res", [exp |-> pr.res, obs |-> ob.res])
       /\ CheckMM(ob.res = "ok" => (pr.slate = ob.slate /\ pr.sender = ob.sender), x, e, "DecEnc:value",
                  [exp |-> pr.slate, obs |-> ob.slate, expsender |-> pr.sender, obssender |-> ob.sender])
  /\ LET w == x.enc.json.wire IN
     /\ CheckMM(ToSet(w.keys) = JsonKeys(v0), x, "json", "JsonKeys", [exp |-> JsonKeys(v0), obs |-> w.keys])
     /\ CheckMM(/\ Len(w.sigkeys) = Len(v0.sigs)
                /\ \A i \in DOMAIN w.sigkeys : ToSet(w.sigkeys[i]) = JsonSigKeys(v0.sigs[i]),
                x, "json", "JsonSigKeys", w.sigkeys)
     /\ CheckMM(/\ Len(w.comkeys) = Len(v0.coms.items)
                /\ \A i \in DOMAIN w.comkeys : ToSet(w.comkeys[i]) = JsonComKeys(v0.coms.items[i]),
                x, "json", "JsonComKeys", w.comkeys)
     /\ CheckMM(ToSet(w.proofkeys) = JsonProofKeys(v0.proof), x, "json", "JsonProofKeys", w.proofkeys)
  /\ CheckMM(Has(x.enc.bin, "wire") => x.enc.bin.wire.len = BinLen(v0), x, "bin", "BinLen", [exp |-> BinLen(v0), obs |-> x.enc.bin])
  /\ \A e \in {f \in Encodings \ {"json", "bin"} : Has(x.enc[f], "wire")} :
       LET w == x.enc[e].wire  p == Pack(v0, env, IsEnc(e)) IN
       /\ CheckMM(w.mode = p.mode /\ w.clearsender = p.sender, x, e, "Pack:header",
                  [expmode |-> p.mode, obsmode |-> w.mode, expsender |-> p.sender, obssender |-> w.clearsender])
       /\ CheckMM(~IsEnc(e) => w.paylen = BinLen(v0), x, e, "Pack:payload", w.paylen)
       /\ CheckMM(Layer(e) = "pkbin" => w.len = SpBinLen(p, hrp) + w.paylen, x, e, "SpBinLen",
                  [exp |-> SpBinLen(p, hrp) + w.paylen, obs |-> w.len])
       /\ CheckMM(Layer(e) = "pkjson" => ToSet(w.keys) = SpJsonKeys(p), x, e, "SpJsonKeys", w.keys)

\* ------------------------------------------------ address and record lines
NormIn(kind, a) == IF kind = "context" /\ a.nout + a.nin = 0 THEN [a EXCEPT !.mmr = "none"] ELSE a
JudgeAux(x) ==
  LET kind == x.ev
      encs == IF kind = "addr" THEN AddrEncs ELSE IF kind = "onion" THEN OnionEncs ELSE {"store"}
      isrec == kind \notin {"addr", "onion"}
      want == IF isrec THEN NormRec(kind, x.orig) ELSE x.orig IN
  /\ \A e \in encs :
       LET o == x.enc[e] IN
       \* Layer P: the value survives its own encode/decode unchanged
       /\ CheckP(o.res = "ok" /\ o.dec = want /\ o.h = x.h0, x,
                 IF isrec THEN "RecRoundTrip" ELSE "AddrRoundTrip", e, e,
                 IF o.res # "ok" THEN {"res:" \o o.res}
                 ELSE {f \in DOMAIN want : o.dec[f] # want[f]} \cup (IF o.h # x.h0 THEN {"material"} ELSE {}), x["in"])
       \* Layer M
       /\ CheckMM(o.res = "ok" => (IF isrec THEN o.dec = DecRec(EncRec(kind, x.orig))
                                   ELSE IF kind = "addr" THEN o.dec = DecAddr(e, EncAddr(e, x.orig))
                                   ELSE o.dec = DecOnion(e, EncOnion(e, x.orig))), x, e, "AuxDecEnc", o)
       /\ CheckMM((o.res = "ok" /\ isrec) => ToSet(o.wire.keys) = RecKeys(kind), x, e, "RecKeys", o.wire)
       /\ CheckMM((o.res = "ok" /\ kind = "addr") => o.wire.len = EncAddr(e, x.orig).len, x, e, "AddrLen", o.wire)
       /\ CheckMM((o.res = "ok" /\ kind = "onion") => o.wire.len = EncOnion(e, x.orig).len, x, e, "OnionLen", o.wire)
  /\ CheckMM(x.orig = NormIn(kind, x["in"]), x, "-", "Intake:aux", [exp |-> NormIn(kind, x["in"]), obs |-> x.orig])

\* ------------------------------------------------------------- the spec
Judge(x) ==
  IF Has(x, "harness_panic") THEN NonConf(x, "-", "harness-panic", x.harness_panic)
  ELSE IF x.ev = "slate" THEN JudgeSlate(x) ELSE JudgeAux(x)

TInit == l \in 1..Len(Rec) /\ phase = "todo"
TNext == /\ phase = "todo" /\ Judge(Rec[l]) /\ phase' = "done" /\ UNCHANGED l
TSpec == TInit /\ [][TNext]_tvars

\* every line has been judged: each has exactly its "todo" and its "done" state
Consumed == LET n == TLCGet("distinct") - Len(Rec) IN
            IF n = Len(Rec) THEN PrintT(<<"CONSUMED", n>>) ELSE PrintT(<<"STUCK", n>>)
=============================================================================
