---------------------------- MODULE TraceUpdater ----------------------------
(***************************************************************************)
(* Trace validation of the background updater's life cycle: the events     *)
(* harness/replay_updater OBSERVES on the real code (api::Owner::           *)
(* start_updater / stop_updater, the threads the wallet spawns parked at    *)
(* every wallet_lock! point) must be a behaviour of Updater.tla.  Every     *)
(* line is one action of the model with its thread number; an `obs` line   *)
(* carries the flag and the number of live updater threads read from the   *)
(* process and must agree with the model's state.  A line the model cannot *)
(* take prints NONCONF and the model is re-synchronised at the next reset. *)
(* None of the listed properties is decided here (conformance only).       *)
(***************************************************************************)
EXTENDS Updater, Json, IOUtils, TLCExt

VARIABLES l, ok
tvars == <<vars, l, ok>>
Rec == ndJsonDeserialize(IOEnv.TRACE)
E == Rec[l]
NonConf(what) == PrintT(<<"NONCONF", ToJson([line |-> l, b |-> E.b, ev |-> E.ev, what |-> what])>>)
Is(n) == l <= Len(Rec) /\ Rec[l].ev = n

Stay == UNCHANGED vars
\* take model action A if it is enabled and we are in step with the trace; otherwise report and lose step
Take(A, what) ==
  IF ok /\ ENABLED A THEN A /\ ok' = TRUE
  ELSE /\ (IF ok THEN NonConf(what) ELSE TRUE) /\ Stay /\ ok' = FALSE

TReset == /\ Is("reset") /\ l' = l + 1 /\ ok' = TRUE
          /\ running' = FALSE /\ holder' = 0 /\ th' = <<>> /\ open' = TRUE /\ passes' = 0 /\ stopSeen' = -1 /\ begunAfterStop' = 0
TStart == Is("start") /\ l' = l + 1 /\ Take(Start, "start")
TStop == Is("stop") /\ l' = l + 1 /\ Take(Stop, "stop")
\* close_wallet / open_wallet seen from the driver: the model's OpenClose, towards the logged state
TOpenClose == /\ l <= Len(Rec) /\ Rec[l].ev \in {"close", "open"} /\ l' = l + 1
              /\ Take(OpenClose /\ open' = (E.ev = "open"), E.ev)
TAcquire == Is("acquire") /\ l' = l + 1 /\ Take(Acquire(E.t), "acquire")
TBegin == Is("begin") /\ l' = l + 1 /\ Take(Begin(E.t), "begin")
TWake == Is("wake") /\ l' = l + 1 /\ Take(Wake(E.t), "wake")
TFail == Is("fail") /\ l' = l + 1 /\ Take(Fail(E.t), "fail")
\* the end of a pass, and where the thread went: the model decides from the flag, the log says what happened
TEnd == /\ Is("end") /\ l' = l + 1
        /\ Take(End(E.t) /\ th'[E.t] = E.to, "end:" \o E.to)
\* the flag and the number of live updater threads, read from the process
TObs == /\ Is("obs") /\ l' = l + 1 /\ Stay /\ ok' = ok
        /\ IF ~ok THEN TRUE
           ELSE /\ (IF running = E.running THEN TRUE ELSE NonConf("flag"))
                /\ (IF Cardinality(Live) = E.threads THEN TRUE ELSE NonConf("threads"))
                /\ (IF holder = E.runner THEN TRUE ELSE NonConf("runner"))
THang == /\ Is("hang") /\ l' = l + 1 /\ Stay /\ ok' = FALSE /\ NonConf("a released thread neither went on nor ended")
TOther == /\ l <= Len(Rec) /\ Rec[l].ev \in {"teardown", "pass", "harness_panic"} /\ l' = l + 1 /\ Stay /\ ok' = ok
          /\ (IF Rec[l].ev = "teardown" /\ Rec[l].threads_left # 0 THEN NonConf("threads left after stop") ELSE TRUE)

TInit == Init /\ l = 1 /\ ok = TRUE
TNext == TOpenClose \/ TReset \/ TStart \/ TStop \/ TAcquire \/ TBegin \/ TWake \/ TFail \/ TEnd \/ TObs \/ THang \/ TOther
TSpec == TInit /\ [][TNext]_tvars
\* the invariants of the model hold along every observed behaviour too
ObsInv == ok => (OneRunner /\ HolderRuns /\ StopWithinOnePass /\ FlagCoversRun)
Consumed == IF TLCGet("stats").diameter - 1 = Len(Rec) THEN PrintT(<<"CONSUMED", Len(Rec)>>)
            ELSE PrintT(<<"STUCK", TLCGet("stats").diameter>>)
=============================================================================
