CONSTANTS
  Slates = {"s1"}
  Kinds = {"send"}
  UseCancel = FALSE
  ApiModes = {FALSE}
  UseSecond = FALSE
  TestRng = FALSE
SPECIFICATION Spec
INVARIANT Inv_AtRestStrict
VIEW View
CHECK_DEADLOCK FALSE
