---------------------------- MODULE TraceEnvelope ----------------------------
(***************************************************************************)
(* Trace validation for C10: judges what the REAL slatepack code did       *)
(* (recorded by harness/src/bin/replay_envelope) with the operators of     *)
(* Envelope.tla.                                                           *)
(*                                                                         *)
(* One line of the trace = one step.  Line kinds:                          *)
(*   keys   the key table the harness derived (wallet, index, address)     *)
(*   pack   a case (slate, sender, recipient set) was packed through       *)
(*          owner::create_slatepack_message and Slatepacker; for every     *)
(*          encoded form: which needles (16-byte windows of the slate      *)
(*          encoding, the sender address) are visible in it                *)
(*   open   somebody tried to read the slate / the slatepack with a key    *)
(*          sequence: result, is it the original slate, reported sender    *)
(*   edits  all executed single-character (armored text) or single-byte    *)
(*          (binary form) edits of one label class of one message, with    *)
(*          the number that decoded to the same slate / a different slate  *)
(*          / an error / a panic                                           *)
(* Layer P (VIOL lines) = the operators of Part 4 of Envelope evaluated on *)
(* the observed facts.  Layer M (NONCONF lines) = the observed result is   *)
(* the one the transcribed operators predict.  The spec never stops at a   *)
(* failure, so the whole trace is examined.                                *)
(***************************************************************************)
EXTENDS Envelope, Json, IOUtils, TLCExt, SequencesExt

CONSTANT CheckM     \* TRUE: evaluate Layer M as well as Layer P

VARIABLES l, packed
tvars == <<l, packed>>

Rec == ndJsonDeserialize(IOEnv.TRACE)
MetaKept == IF "C10_META_KEPT" \in DOMAIN IOEnv THEN IOEnv.C10_META_KEPT # "0" ELSE TRUE
Has(r, f) == f \in DOMAIN r

\* ------------------------------------------------------------ reporting
Viol(m, e, key, info) ==
  PrintT(<<"VIOL", ToJson([p |-> "C10", m |-> m, line |-> l, c |-> e.c, ev |-> e.ev, key |-> key, info |-> info])>>)
NonConf(e, what, info) ==
  PrintT(<<"NONCONF", ToJson([line |-> l, c |-> e.c, ev |-> e.ev, what |-> what, info |-> info])>>)
Check(c, m, e, key, info) == IF c THEN TRUE ELSE Viol(m, e, key, info)
CheckMatch(c, e, what, info) == IF ~CheckM THEN TRUE ELSE IF c THEN TRUE ELSE NonConf(e, what, info)

IsEv(n) == l <= Len(Rec) /\ Rec[l].ev = n
E == Rec[l]
Adv == l' = l + 1

\* ------------------------------------------------------------------ keys
TKeys ==
  /\ IsEv("keys")
  /\ LET e == E  ks == DOMAIN e.keys IN
     \* names are distinct keys only if their addresses are (address_from_derivation_path)
     /\ CheckMatch(\A a, b \in ks : a # b => e.keys[a].addr # e.keys[b].addr, e, "KeysDistinct", "")
     /\ CheckMatch(\A k \in ks : k \in AllKeys /\ e.keys[k].w = KeyHome[k].w /\ e.keys[k].idx = KeyHome[k].idx,
                   e, "KeyHome", "")
  /\ Adv /\ UNCHANGED packed

\* ------------------------------------------------------------------ pack
\* alpha: the atoms an encoded form shows, from the recorded needle facts
ObsAtoms(e, f) ==
     (IF f.win > 0 THEN {<<"slate", e.s>>} ELSE {})
  \cup (IF f.snd_str \/ f.snd_pk THEN {<<"addr", e.snd>>} ELSE {})
\* the slate/sender atoms the model says each recorded form shows
\*   armor  the raw text: base58, nothing is readable as such
\*   dec    the text with frame and base58 removed  = the binary form
\*   bin    SlatepackBin bytes
\*   json   serde JSON text (the payload is base64 inside it: no raw slate bytes)
\*   jsonpl the base64-decoded payload field of the JSON form
Interesting(A) == {a \in A : a[1] \in {"slate", "addr"}}
PredAtoms(sp, form) ==
  CASE form = "armor"  -> {}
    [] form \in {"dec", "bin"} -> Interesting(ClearAtoms(BinForm(sp)))
    [] form = "json"   -> {a \in Interesting(ClearAtoms(JsonForm(sp))) : a[1] = "addr"}
    [] form = "jsonpl" -> {a \in Interesting(ClearAtoms(JsonForm(sp))) : a[1] = "slate"}
CaseOf(e) == [s |-> e.s, snd |-> e.snd, R |-> ToSet(e.R)]
TPack ==
  /\ IsEv("pack")
  /\ LET e == E  c == CaseOf(e)  sp == Pack(c.s, c.snd, c.R, MetaKept) IN
     /\ CheckMatch(e.res = "ok" /\ e.pres = "ok", e, "PackOk", e.res)
     /\ \A form \in DOMAIN e.forms :
          /\ Check(NoClearAtoms(c.s, c.snd, c.R, ObsAtoms(e, e.forms[form])), "NoClearAtoms", e, form,
                   [win |-> e.forms[form].win, snd_str |-> e.forms[form].snd_str, snd_pk |-> e.forms[form].snd_pk,
                    s |-> e.s, snd |-> e.snd, R |-> e.R])
          /\ CheckMatch(ObsAtoms(e, e.forms[form]) = PredAtoms(sp, form), e, "ClearAtoms:" \o form,
                        [win |-> e.forms[form].win, snd_str |-> e.forms[form].snd_str])
     \* the detector is not blind: every window of an unencrypted payload is found
     /\ CheckMatch((c.R = {} /\ Has(e.forms, "dec")) => e.forms.dec.win = e.nwin, e, "PlainShowsAll", "")
     \* what a reader without a key is told by decode_slatepack_message
     /\ Check(e.hdr.res = "ok" => SenderFaithful(c.snd, c.R, <<>>, e.hdr.sender), "NoClearAtoms", e, "header-sender",
              [sender |-> e.hdr.sender])
     /\ CheckMatch(e.hdr.res = "ok" /\ e.hdr.mode = sp.mode, e, "HeaderMode", e.hdr)
     /\ packed' = (e.c :> c) @@ packed
  /\ Adv

\* ------------------------------------------------------------------ open
ResClass(r) == IF r = "ok" THEN "ok" ELSE IF r = "panic" THEN "panic" ELSE "err"
\* the error classes the harness prints for the model's error results
RealRes(m) == CASE m = "ok" -> "ok"
                [] m = "err:decryption" -> "err:other:SlatepackDecryption"
                [] m = "err:deser" -> "err:other:SlatepackDeser"
                [] m = "err:age" -> "err:other:Age"
                [] OTHER -> m
ObsSender(e) == IF e.sender = "" THEN None ELSE e.sender
FirstOrNone(ks) == IF ks = <<>> THEN None ELSE ks[1]
TOpen ==
  /\ IsEv("open")
  /\ LET e == E IN
     IF e.c \notin DOMAIN packed THEN CheckMatch(FALSE, e, "OpenOfUnknownCase", "") ELSE
     LET c == packed[e.c]
         ks == e.by
         sp == Pack(c.s, c.snd, c.R, MetaKept)
         key == e.api \o ":" \o (IF c.R = {} THEN "plain" ELSE "enc")
         info == [by |-> e.by, R |-> SetToSeq(c.R), res |-> e.res, same |-> e.same, sender |-> e.sender] IN
     \* ---- Layer P
     /\ Check(OpenIffRecipient(c.R, ks, ResClass(e.res)), "CanOpenIffRecipient", e, key, info)
     /\ Check(OpenedIsOriginal(c.s, ResClass(e.res), e.same), "OpenedIsOriginal", e, key, info)
     /\ Check(PlainOpens(c.R, ResClass(e.res)), "PlainOpens", e, key, info)
     /\ (e.api # "slate") => Check(SenderFaithful(c.snd, c.R, ks, ObsSender(e)), "SenderFaithful", e, key, info)
     \* ---- Layer M
     /\ CASE e.api = "slate" ->
               CheckMatch(e.res = RealRes(SlateFromMessage(ArmorForm(sp), ks).res), e, "SlateFromMessage", info)
          [] e.api = "decode" ->
               LET d == DecodeMessage(ArmorForm(sp), ks) IN
               /\ CheckMatch(e.res = RealRes(SlateViaDecode(ArmorForm(sp), ks).res), e, "SlateViaDecode", info)
               /\ CheckMatch(e.dres = "ok" /\ e.mode = d.sp.mode /\ e.sender = d.sp.sender, e, "DecodeMessage", info)
          [] e.api \in {"packer_bin", "packer_json"} ->
               LET f == IF e.api = "packer_bin" THEN BinForm(sp) ELSE JsonForm(sp)
                   d == DeserSlatepack(f, FirstOrNone(ks))
                   r == IF d.res = "ok" THEN GetSlate(d.sp) ELSE SlateRes(d.res, None, None, -1) IN
               /\ CheckMatch(e.res = RealRes(r.res), e, "Packer:" \o e.api, info)
               /\ CheckMatch(d.res = "ok" => (e.mode = d.sp.mode /\ e.sender = d.sp.sender), e, "PackerSp:" \o e.api, info)
          [] OTHER -> TRUE
     /\ CheckMatch(e.res = "ok" => e.json_eq, e, "JsonEqualToo", info)
  /\ Adv /\ UNCHANGED packed

\* ------------------------------------------------- forged clear header of an encrypted pack
\* the header is outside the encryption: a sender planted there by whoever relays the message must not replace the one
\* sealed in the ciphertext - what a recipient opens is the original slate from the original sender, or nothing
TForgedOpen ==
  /\ IsEv("forged_open")
  /\ LET e == E IN
     IF e.c \notin DOMAIN packed THEN CheckMatch(FALSE, e, "OpenOfUnknownCase", "") ELSE
     LET c == packed[e.c]
         info == [by |-> e.by, res |-> e.res, same |-> e.same, sender |-> e.sender, form |-> e.form, edit |-> e.edit] IN
     /\ Check(ResClass(e.res) = "ok" => (e.same /\ ObsSender(e) = c.snd), "OpenedIsOriginal", e, "forged:" \o e.edit \o ":" \o e.form, info)
     /\ Check(e.res # "panic", "OpenedIsOriginal", e, "forged:panic:" \o e.form, info)
     \* Layer M: the pinned code reads the header, decrypts, and overwrites sender and recipients with the sealed ones
     /\ CheckMatch(ResClass(e.res) = "ok", e, "ForgedHeaderOpens", info)
  /\ Adv /\ UNCHANGED packed

\* ----------------------------------------------------------------- edits
LabelOf(j) == Lbl(j.k, j.r, j.r2, j.o, j.n, j.eq)
LKey(e) == LabelKey(e.form, LabelOf(e.lbl))
TEdits ==
  /\ IsEv("edits")
  /\ LET e == E IN
     IF e.c \notin DOMAIN packed THEN CheckMatch(FALSE, e, "EditsOfUnknownCase", "") ELSE
     LET c == packed[e.c]
         lb == LabelOf(e.lbl)
         sig == CASE e.form = "armor" -> Significant(lb) [] e.form = "bin" -> SignificantBin(lb)
                  [] e.form = "json" -> SignificantJson(lb)
         pred == CASE e.form = "armor" -> {PredEdit(lb)} [] e.form = "bin" -> PredBin(lb)
                   [] e.form = "json" -> PredJson(lb)
         info == [n |-> e.n, same |-> e.same, err |-> e.err, diff |-> e.diff, panic |-> e.panic, ex |-> e.ex]
         \* every executed edit of the class, by outcome: the class satisfies a predicate on
         \* outcomes iff no edit of it landed in an outcome that falsifies the predicate
         AllOutcomes(P(_)) == /\ (e.same > 0 => P("same")) /\ (e.err > 0 => P("err"))
                              /\ (e.diff > 0 => P("diff")) /\ (e.panic > 0 => P("panic")) IN
     \* ---- Layer P
     /\ IF c.R = {}
        THEN Check(AllOutcomes(SameOrErr), "PlainEditSameOrErr", e, LKey(e), info)
        ELSE /\ Check(AllOutcomes(SameOrErr), "EditedEncryptedRejected", e, "sameorerr:" \o LKey(e), info)
             /\ Check(AllOutcomes(LAMBDA o : EditedEncryptedRejected(c.R, sig, o)), "EditedEncryptedRejected", e,
                      LKey(e), info)
     \* ---- Layer M
     /\ CheckMatch(AllOutcomes(LAMBDA o : o \in pred), e, "PredEdit:" \o LKey(e), [pred |-> pred, obs |-> info])
     /\ CheckMatch(e.enc = (c.R # {}), e, "EncFlag", "")
  /\ Adv /\ UNCHANGED packed

\* ---- anything else: observe only ------------------------------------------
Known == {"keys", "pack", "open", "edits", "forged_open"}
TOther == /\ l <= Len(Rec) /\ Rec[l].ev \notin Known
          /\ Adv /\ UNCHANGED packed

TInit == l = 1 /\ packed = <<>>
TNext == TKeys \/ TPack \/ TOpen \/ TForgedOpen \/ TEdits \/ TOther
TSpec == TInit /\ [][TNext]_tvars

Consumed == IF TLCGet("stats").diameter - 1 = Len(Rec) THEN PrintT(<<"CONSUMED", Len(Rec)>>)
            ELSE PrintT(<<"STUCK", TLCGet("stats").diameter>>)
=============================================================================
