----------------------------- MODULE WalletProps -----------------------------
(***************************************************************************)
(* The listed properties as predicates over a world state `s` (Wallet.tla) *)
(* and a history record `hv` that the model-checking specs and the trace   *)
(* spec maintain identically:                                              *)
(*   hv.lockedBy[w] : txkey -> set of keys the lock step that created the  *)
(*                    entry reserved (Appendix B "live transaction")       *)
(*   hv.done[w]     : set of <<kind, slate>> protocol steps that completed *)
(*   hv.issued[w]   : set of keys ever handed out for a new output         *)
(* Each predicate is evaluated both by TLC on the bounded model and on the *)
(* states observed from the real code.                                     *)
(***************************************************************************)
EXTENDS Wallet

EmptyHist(ws) == [lockedBy |-> [w \in ws |-> <<>>],
                  done     |-> [w \in ws |-> {}],
                  issued   |-> [w \in ws |-> {}]]

Wallets(s) == DOMAIN s.w
LiveSent(s, w) == {t \in DOMAIN s.w[w].txs : s.w[w].txs[t].ty = "TxSent" /\ ~s.w[w].txs[t].conf}
LockedKeys(s, w) == {k \in DOMAIN s.w[w].outs : s.w[w].outs[k].st = "Locked"}

\* ---- C03 --------------------------------------------------------------
\* no two live sent transactions of a wallet hold the same input
ExclusiveReservation(s, hv) ==
  \A w \in Wallets(s) : \A a, b \in LiveSent(s, w) \cap DOMAIN hv.lockedBy[w] :
      a # b => hv.lockedBy[w][a] \cap hv.lockedBy[w][b] = {}
\* what a live sent transaction reserved stays reserved (or is spent on the chain) for as long as
\* the transaction is live: nothing - a cancel of ANOTHER transaction, a refresh, a repeated step -
\* hands it back to coin selection "until the first is cancelled or confirmed"
ReservationHeld(s, hv, w) ==
  \A t \in LiveSent(s, w) \cap DOMAIN hv.lockedBy[w] : \A k \in hv.lockedBy[w][t] :
      k \in DOMAIN s.w[w].outs => s.w[w].outs[k].st \in {"Locked", "Spent"}
\* a transaction is only ever completed from outputs that are reserved FOR IT: right after a successful
\* finalize every input of the wallet's own is Locked by a live sent entry of that slate (a cancelled
\* send, whose reservation was released, cannot come back to life when its reply arrives late)
FinalizeOwnReservation(s2, w, sl) ==
  sl \in DOMAIN s2.body =>
    LET live == {t \in LiveSent(s2, w) : s2.w[w].txs[t].slate = sl} IN
    \A k \in DOMAIN s2.w[w].outs :
       OutId(s2.w[w].seed, k) \in s2.body[sl].ins =>
          \E t \in live : /\ s2.w[w].outs[k].st \in {"Locked", "Spent"} /\ s2.w[w].outs[k].tx = s2.w[w].txs[t].id
                          /\ s2.w[w].outs[k].acct = s2.w[w].txs[t].acct
SharedInputs(s, hv) ==   \* witness for reports
  {<<w, a, b>> \in {<<w, a, b>> \in UNION {{w} \X LiveSent(s, w) \X LiveSent(s, w) : w \in Wallets(s)} : TRUE} :
      a # b /\ a \in DOMAIN hv.lockedBy[w] /\ b \in DOMAIN hv.lockedBy[w]
      /\ hv.lockedBy[w][a] \cap hv.lockedBy[w][b] # {}}

\* a slate never has two live sent entries in one wallet (a repeated or re-delivered step
\* never adds a second log entry / reservation for the same slate)
OneLiveEntryPerSlate(s) ==
  \A w \in Wallets(s) : \A a, b \in LiveSent(s, w) :
      (a # b /\ s.w[w].txs[a].slate # "") => s.w[w].txs[a].slate # s.w[w].txs[b].slate

\* a context created by a selecting step never contains an output that was
\* reserved (Locked) before the step and is still reserved after it
SelectAvoidsReserved(s, s2, w, sl) ==
  sl \in DOMAIN s2.w[w].ctxs =>
     \A k \in s2.w[w].ctxs[sl].ins :
        ~(k \in DOMAIN s.w[w].outs /\ s.w[w].outs[k].st = "Locked"
          /\ k \in DOMAIN s2.w[w].outs /\ s2.w[w].outs[k].st = "Locked")

\* is the effect of an earlier completed step of `kind` on `sl` still live?
\* (acct: the account the step addresses, "" = whichever; a delivery of the slate to ANOTHER account
\* of the wallet is not a repetition - the duplicate check of receive_tx is per destination account,
\* as the statement of C07 says)
StillLive(s, w, kind, sl, acct) ==
  \E t \in DOMAIN s.w[w].txs :
     /\ s.w[w].txs[t].slate = sl
     /\ s.w[w].txs[t].ty = (IF kind = "receive" THEN "TxReceived" ELSE "TxSent")
     /\ (acct # "" => s.w[w].txs[t].acct = acct)
\* a repeated protocol step adds no log entry, output or reservation
ReplayNoEffectA(s, s2, hv, w, kind, sl, res, acct) ==
  (<<kind, sl>> \in hv.done[w] /\ StillLive(s, w, kind, sl, acct)) =>
     \/ /\ DOMAIN s2.w[w].txs = DOMAIN s.w[w].txs
        /\ DOMAIN s2.w[w].outs = DOMAIN s.w[w].outs
        /\ LockedKeys(s2, w) = LockedKeys(s, w)
ReplayNoEffect(s, s2, hv, w, kind, sl, res) ==
  (<<kind, sl>> \in hv.done[w] /\ StillLive(s, w, kind, sl, "")) =>
     \/ /\ DOMAIN s2.w[w].txs = DOMAIN s.w[w].txs
        /\ DOMAIN s2.w[w].outs = DOMAIN s.w[w].outs
        /\ LockedKeys(s2, w) = LockedKeys(s, w)

\* ---- history maintenance (identical in MC and trace specs) ---------------
NewSent(s, s2, w, sl) ==
  {t \in (DOMAIN s2.w[w].txs) \ (DOMAIN s.w[w].txs) : s2.w[w].txs[t].ty = "TxSent" /\ s2.w[w].txs[t].slate = sl}
\* inputs reserved by a step that created the TxSent entry t: the context's inputs
\* (before or after the step) and every record the step turned into Locked-by-t
ReservedBy(s, s2, w, sl, t) ==
  LET e == s2.w[w].txs[t]
      fromCtx(x) == IF sl \in DOMAIN x.w[w].ctxs THEN x.w[w].ctxs[sl].ins ELSE {}
      changed == {k \in DOMAIN s2.w[w].outs :
                    /\ s2.w[w].outs[k].st = "Locked" /\ s2.w[w].outs[k].tx = e.id /\ s2.w[w].outs[k].acct = e.acct
                    /\ (k \notin DOMAIN s.w[w].outs \/ s.w[w].outs[k] # s2.w[w].outs[k])}
  IN fromCtx(s) \cup fromCtx(s2) \cup changed
PutAll(f, K, g(_)) == [x \in (DOMAIN f) \cup K |-> IF x \in K THEN g(x) ELSE f[x]]
HvLocks(s, s2, hv, w, sl) ==
  [hv EXCEPT !.lockedBy[w] = PutAll(@, NewSent(s, s2, w, sl), LAMBDA t : ReservedBy(s, s2, w, sl, t))]
HvDone(hv, w, kind, sl) == [hv EXCEPT !.done[w] = @ \cup {<<kind, sl>>}]
HvAfterLock(s, s2, hv, w, sl) == HvDone(HvLocks(s, s2, hv, w, sl), w, "lock", sl)
HvAfterReceive(s, s2, hv, w, sl) == HvDone(hv, w, "receive", sl)
HvAfterFinalize(s, s2, hv, w, sl, ok) ==
  LET h1 == HvLocks(s, s2, hv, w, sl) IN IF ok THEN HvDone(h1, w, "finalize", sl) ELSE h1
\* every key that ever named an output or a planned change output
KeysOf(s, w) == (DOMAIN s.w[w].outs) \cup
                UNION {{s.w[w].ctxs[c].outs[i].k : i \in DOMAIN s.w[w].ctxs[c].outs} : c \in DOMAIN s.w[w].ctxs}
HvIssued(hv, s2) == [hv EXCEPT !.issued = [w \in DOMAIN s2.w |-> (IF w \in DOMAIN @ THEN @[w] ELSE {}) \cup KeysOf(s2, w)]]

\* ---- C05 --------------------------------------------------------------
\* exact rollback of the cancel batch: `t` is the cancelled entry
CancelIsRollback(s, s2, w, t) ==
  LET wr == s.w[w]  wr2 == s2.w[w]  e == wr.txs[t]
      mine == {k \in DOMAIN wr.outs : wr.outs[k].tx = e.id /\ wr.outs[k].acct = e.acct /\ wr.outs[k].st # "Spent"} IN
  /\ wr2.txs[t].ty = (IF e.ty = "TxSent" THEN "TxSentCancelled" ELSE "TxReceivedCancelled")
  /\ \A u \in DOMAIN wr.txs : u # t => (u \in DOMAIN wr2.txs /\ wr2.txs[u] = wr.txs[u])
  /\ DOMAIN wr2.txs = DOMAIN wr.txs
  /\ \A k \in DOMAIN wr.outs :
       IF k \in mine /\ wr.outs[k].st \in {"Unconfirmed", "Reverted"} THEN k \notin DOMAIN wr2.outs
       ELSE IF k \in mine /\ wr.outs[k].st = "Locked"
            THEN k \in DOMAIN wr2.outs /\ wr2.outs[k] = [wr.outs[k] EXCEPT !.st = "Unspent"]
       ELSE k \in DOMAIN wr2.outs /\ wr2.outs[k] = wr.outs[k]
  /\ DOMAIN wr2.outs \subseteq DOMAIN wr.outs
  /\ wr2.ctxs = wr.ctxs
CancelRefusedUnchanged(s, s2, w) == s2.w[w] = s.w[w]

\* ---- C06 --------------------------------------------------------------
LiveOf(s, w) == {t \in DOMAIN s.w[w].txs : s.w[w].txs[t].ty \in {"TxSent", "TxReceived"} /\ ~s.w[w].txs[t].conf}
LinkedOuts(s, w, t, sts) ==
  {k \in DOMAIN s.w[w].outs : s.w[w].outs[k].tx = s.w[w].txs[t].id /\ s.w[w].outs[k].acct = s.w[w].txs[t].acct
                                /\ s.w[w].outs[k].st \in sts}
\* every reserved output belongs to a live logged transaction; every live sent
\* transaction has all the inputs and change outputs its entry counts: the reservation
\* step happened entirely or not at all
CrashConsistent(s, w) ==
  /\ \A k \in DOMAIN s.w[w].outs : s.w[w].outs[k].st = "Locked" =>
        \E t \in LiveOf(s, w) : s.w[w].txs[t].ty = "TxSent" /\ s.w[w].txs[t].id = s.w[w].outs[k].tx
                                  /\ s.w[w].txs[t].acct = s.w[w].outs[k].acct
  /\ \A t \in LiveOf(s, w) : s.w[w].txs[t].ty = "TxSent" =>
        /\ Cardinality(LinkedOuts(s, w, t, {"Locked", "Spent"})) >= s.w[w].txs[t].nin
        /\ Cardinality(LinkedOuts(s, w, t, {"Unconfirmed", "Unspent"})) >= s.w[w].txs[t].nout
  \* an output still awaited belongs to a logged transaction that has not been cancelled (a cancel
  \* removes what the transaction was to bring in together with flagging its entry)
  /\ \A k \in DOMAIN s.w[w].outs : (s.w[w].outs[k].st = "Unconfirmed" /\ ~s.w[w].outs[k].cb) =>
        /\ TxKeyOf(s.w[w].outs[k].acct, s.w[w].outs[k].tx) \in DOMAIN s.w[w].txs
        /\ s.w[w].txs[TxKeyOf(s.w[w].outs[k].acct, s.w[w].outs[k].tx)].ty \notin {"TxSentCancelled", "TxReceivedCancelled"}

\* ---- C16 / C18 ----------------------------------------------------------
\* what the chain holds for the seed of wallet w (ground truth: `utxo` is the real
\* chain's unspent set restricted to registered outputs, s.reg what each reveals)
TruthOuts(s, w, utxo) == {o \in utxo : o \in DOMAIN s.reg /\ s.reg[o].seed = s.w[w].seed}
\* after a scan: every chain output of the seed has a usable record of the right value;
\* every Unspent record of the active account is on the chain; with del nothing on the
\* chain stays reserved and no Unconfirmed record is left
\* (refreshing is per account: a record of ANOTHER account that is Unconfirmed while its output is
\* on the chain merely waits for that account's refresh - scan leaves it alone, and must not delete it)
ScanEqualsTruth(s, w, utxo, del, h) ==
  LET O == s.w[w].outs  T == TruthOuts(s, w, utxo)
      rec(o) == {k \in DOMAIN O : (k = s.reg[o].key \/ k = s.reg[o].key \o "+m") /\ O[k].v = s.reg[o].v}
      waits(k) == O[k].st = "Unconfirmed" /\ O[k].acct # s.w[w].active IN
  /\ \A o \in T : \E k \in rec(o) :
        /\ O[k].st \in (IF del THEN {"Unspent"} ELSE {"Unspent", "Locked"}) \/ waits(k)
        /\ O[k].cb = s.reg[o].cb
  \* ... and no record of such an output is left saying Spent (a wrongly spent record is repaired, not shadowed by a second one)
  /\ \A o \in T : \A k \in rec(o) : O[k].st # "Spent"
  /\ \A k \in DOMAIN O : (O[k].st = "Unspent" /\ O[k].acct = s.w[w].active) => OutId(s.w[w].seed, k) \in utxo
                                                                              \/ \E o \in T : k \in rec(o)
  /\ del => \A k \in DOMAIN O : O[k].st = "Unconfirmed" => (waits(k) /\ \E o \in T : k \in rec(o))
\* a freshly restored wallet holds exactly the truth, with the right height, maturity, account
RestoredExact(s, w, utxo, hOf(_)) ==
  LET O == s.w[w].outs  T == TruthOuts(s, w, utxo) IN
  /\ {k \in DOMAIN O : O[k].st = "Unspent"} = {s.reg[o].key : o \in T}
  /\ \A o \in T : LET r == s.reg[o]  k == r.key IN
        k \in DOMAIN O => /\ O[k].v = r.v /\ O[k].cb = r.cb /\ O[k].acct = r.pa
                           /\ O[k].h = hOf(o) /\ O[k].lk = (IF r.cb THEN hOf(o) + Maturity ELSE hOf(o))
  /\ \A a \in DOMAIN s.w[w].idx :
        \A o \in T : s.reg[o].pa = a => s.w[w].idx[a].child > s.reg[o].n     \* C15 RestoreBeyond
\* C18: a confirmed incoming payment whose output left the chain and whose kernel is gone
VanishedReceived(s, w, utxo) ==
  {t \in DOMAIN s.w[w].txs :
     LET e == s.w[w].txs[t] IN
     /\ e.ty = "TxReceived" /\ e.conf /\ e.acct = s.w[w].active /\ e.kern # ""
     /\ \E k \in DOMAIN s.w[w].outs : s.w[w].outs[k].tx = e.id /\ s.w[w].outs[k].acct = e.acct
                                       /\ s.w[w].outs[k].st = "Unspent" /\ ~s.w[w].outs[k].cb
                                       /\ OutId(s.w[w].seed, k) \notin utxo
     /\ ~KernelOnChain(s, e.kern, MaxOf(e.minh, 0), Height(s))}
RevertedReported(s, s2, w, utxo) ==
  \A t \in VanishedReceived([s EXCEPT !.chain = s2.chain, !.body = s2.body], w, utxo) :
     /\ s2.w[w].txs[t].ty = "TxReverted" /\ ~s2.w[w].txs[t].conf
     /\ \A k \in DOMAIN s2.w[w].outs :
          (s2.w[w].outs[k].tx = s2.w[w].txs[t].id /\ s2.w[w].outs[k].acct = s2.w[w].txs[t].acct /\ ~s2.w[w].outs[k].cb)
             => s2.w[w].outs[k].st \in {"Reverted", "Spent"}
\* a reverted output that is back on the chain is confirmed and spendable again after a refresh
RevertedRestored(s, s2, w, utxo) ==
  \A k \in DOMAIN s.w[w].outs :
     (s.w[w].outs[k].st = "Reverted" /\ s.w[w].outs[k].acct = s.w[w].active /\ OutId(s.w[w].seed, k) \in utxo)
        => /\ k \in DOMAIN s2.w[w].outs /\ s2.w[w].outs[k].st = "Unspent"
           /\ LET t == TxKeyOf(s.w[w].outs[k].acct, s.w[w].outs[k].tx) IN
              t \in DOMAIN s2.w[w].txs => (s2.w[w].txs[t].ty = "TxReceived" /\ s2.w[w].txs[t].conf)

\* ---- C15 --------------------------------------------------------------
\* a key handed out for a new output was never handed out before
PathFresh(hv, w, key) == key \notin hv.issued[w]

\* ---- C17 --------------------------------------------------------------
ObservedH(s, w) == s.w[w].idx[s.w[w].active].confh
MustRefuseTtl(s, w, ttl) == ttl # 0 /\ ObservedH(s, w) >= ttl
MustNotRefuseTtl(s, w, ttl) == ttl = 0 \/ ttl > Height(s)

\* ---- C07 --------------------------------------------------------------
Spendable(s, w, a, m) ==
  LET H == s.w[w].idx[s.w[w].active].confh
      ks == {k \in OutsOfAcct(s, w, a) : LET o == s.w[w].outs[k] IN
               o.st = "Unspent" /\ ~(o.cb /\ o.lk > H) /\ Conf(o, H) >= m}
  IN SumF([k \in ks |-> s.w[w].outs[k].v], ks)
\* a foreign step that is not a valid reply: existing outputs keep status and
\* value (exempt: key `ex`, a still-Unconfirmed coinbase candidate that may be
\* replaced), no context read-modified/deleted, nothing Locked/Spent/deleted
ForeignOnlyAdds(s, s2, w, ex) ==
  LET wr == s.w[w]  wr2 == s2.w[w] IN
  /\ \A k \in DOMAIN wr.outs :
        \/ (k = ex /\ wr.outs[k].st = "Unconfirmed" /\ wr.outs[k].cb)
        \/ (k \in DOMAIN wr2.outs /\ wr2.outs[k].st = wr.outs[k].st /\ wr2.outs[k].v = wr.outs[k].v)
  /\ wr2.ctxs = wr.ctxs
  /\ \A k \in DOMAIN wr2.outs : k \notin DOMAIN wr.outs => wr2.outs[k].st = "Unconfirmed"
  /\ \A t \in DOMAIN wr.txs : t \in DOMAIN wr2.txs /\ wr2.txs[t].ty = wr.txs[t].ty
                                 /\ wr2.txs[t].conf = wr.txs[t].conf
\* C18: a step that creates or changes a transaction context never puts a Reverted output among its
\* inputs.  A step may refresh first (init_send_tx as the harness and the CLI drive it), so the status
\* that counts is the one the output has when the step is over: still Reverted, or - for a step that
\* selects and locks at once without refreshing (norefresh) - Reverted before and Locked after.
NoRevertedSelected(s, s2, norefresh) ==
  \A w \in (DOMAIN s.w) \cap (DOMAIN s2.w) : \A sl \in DOMAIN s2.w[w].ctxs :
     \A k \in s2.w[w].ctxs[sl].ins \ (IF sl \in DOMAIN s.w[w].ctxs THEN s.w[w].ctxs[sl].ins ELSE {}) :
        (k \in DOMAIN s.w[w].outs /\ k \in DOMAIN s2.w[w].outs) =>
           /\ s2.w[w].outs[k].st # "Reverted"
           /\ ~(norefresh /\ s.w[w].outs[k].st = "Reverted" /\ s2.w[w].outs[k].st = "Locked")
ReceiveExactlyOnce(s, s2, w, sl, amt, acct) ==
  LET wr == s.w[w]  wr2 == s2.w[w]
      newO == (DOMAIN wr2.outs) \ (DOMAIN wr.outs)
      newT == (DOMAIN wr2.txs) \ (DOMAIN wr.txs) IN
  /\ Cardinality(newO) = 1 /\ Cardinality(newT) = 1
  /\ \A k \in newO : wr2.outs[k].st = "Unconfirmed" /\ wr2.outs[k].v = amt /\ wr2.outs[k].acct = acct
  /\ \A t \in newT : wr2.txs[t].ty = "TxReceived" /\ wr2.txs[t].slate = sl /\ wr2.txs[t].acct = acct
                       /\ wr2.txs[t].cr = amt
=============================================================================
