CONSTANTS
  Reward = 60000
  Maturity = 3
  Slates = {"s1", "s2", "s3"}
  Amounts = {1000, 1001}
  NFund = 3
  MaxH = 14
  MaxLog = 7
  UseLate = TRUE
  UseTtl = TRUE
  UseInvoice = TRUE
  UseAccounts = TRUE
  UseMineTo = FALSE
  UseCancelBySlate = TRUE
  MaxAdv = 2
  MaxFork = 0
  UseScan = FALSE
  UseAccounts2 = TRUE
  UseSelf = FALSE
  FundAcct2 = FALSE
  UseBuild = FALSE
  NChanges = {1, 2}
  QuietW2 = FALSE
  UseFarTtl = FALSE
  UseDiverge = FALSE
  UseAdv = FALSE
SPECIFICATION Spec
INVARIANT TypeOK
INVARIANT Inv_Exclusive
PROPERTY Prop_Replay
PROPERTY Prop_SelectAvoidsReserved
PROPERTY Prop_Cancel
PROPERTY Prop_Foreign
PROPERTY Prop_Paths
PROPERTY Prop_Ttl
PROPERTY EmitEdges
CONSTRAINT Bound
VIEW View
CHECK_DEADLOCK FALSE
