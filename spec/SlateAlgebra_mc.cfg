\* every applicable case of the bounded domain; the pinned code (no check skipped)
CONSTANTS
  \* "ctx_state_check": the pinned code lacks that check (fixes/C02-1.patch); lib/prop_C02.py writes the
  \* cfg it uses from the known-findings status, this file is the stand-alone form for the pinned tree
  Skip = {"ctx_state_check"}
  NinSet = {1, 2}
  NchSet = {0, 1, 2}
  Emit = TRUE
  PairFlows = {"send", "late", "self", "inv", "invself"}
  PairProof = {TRUE, FALSE}
  WithSingles = TRUE
SPECIFICATION Spec
INVARIANT Inv_Reply
INVARIANT Inv_Honest
INVARIANT Inv_FinalTxValidExact
INVARIANT Inv_TamperRefused
INVARIANT Inv_Reserved
INVARIANT Inv_Retry
INVARIANT Inv_RetrySucceeds
INVARIANT EmitCase
CHECK_DEADLOCK FALSE
