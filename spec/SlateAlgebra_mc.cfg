\* every applicable case of the bounded domain; the pinned code (no check skipped)
CONSTANTS
  Skip = {}
  NinSet = {1, 2}
  NchSet = {0, 1, 2}
  Emit = TRUE
  PairFlows = {"send", "late", "self", "inv", "invself"}
  WithSingles = TRUE
SPECIFICATION Spec
INVARIANT Inv_Reply
INVARIANT Inv_Honest
INVARIANT Inv_FinalTxValidExact
INVARIANT Inv_TamperRefused
INVARIANT Inv_Reserved
INVARIANT Inv_Retry
INVARIANT Inv_RetrySucceeds
INVARIANT EmitCase
CHECK_DEADLOCK FALSE
