----------------------------- MODULE MCSecrets -----------------------------
(***************************************************************************)
(* Bounded model of the transaction flows over the secrets state of        *)
(* Secrets.tla: two wallets (w1 funded and paying, w2), the slates of the  *)
(* config, each running one of the flows                                   *)
(*    send     w1 -> w2: init_send, receive, lock, finalize                *)
(*    late     the same with late_lock (no separate lock)                  *)
(*    self     w1 -> w1                                                    *)
(*    inv      w2 invoices w1: issue_invoice, process_invoice, lock,       *)
(*             finalize (foreign)                                          *)
(*    selfinv  w1 invoices itself (the context-merging path)               *)
(* in every interleaving, optionally with a recipient cancel followed by a *)
(* second receive of the same slate and a sender cancel.  TLC checks       *)
(* NoClearSecret (at rest, on the wire) and FreshNonces in every state /   *)
(* on every step and prints every transition's history as a behaviour in   *)
(* the event vocabulary of harness/src/driver.rs (GEN).                    *)
(* TestRng = TRUE transcribes use_test_rng (StepRng / [1;32] nonce): a     *)
(* seeded mutant of the spec under which FreshNonces MUST fail.  In the    *)
(* code the flag is Owner.doctest_mode / Foreign.doctest_mode (false in    *)
(* Owner::new and in the listeners); events with api = TRUE make the       *)
(* harness call through those structs so that the plumbing is exercised.   *)
(***************************************************************************)
EXTENDS Secrets, Integers, Json

CONSTANTS Slates, Kinds, UseCancel, TestRng,
          ApiModes      \* subset of BOOLEAN: TRUE = the slate's calls go through grin_wallet_api::{Owner, Foreign}

VARIABLES st, flow, seenN, seenX, bad, hist
vars == <<st, flow, seenN, seenX, bad, hist>>
View == <<st, flow, seenN, seenX, bad>>

WS == {"w1", "w2"}
NoFlow == [kind |-> "none", stage |-> "new", locked |-> FALSE, nrep |-> 0, rcan |-> FALSE, api |-> FALSE]

\* Context::new(secp, parent, use_test_rng, is_initiator)
AtomK(sl, role, g) == IF TestRng THEN "test.k." \o role ELSE sl \o "." \o role \o ToString(g) \o ".k"
AtomN(sl, role, g) == IF TestRng THEN "test.n" ELSE sl \o "." \o role \o ToString(g) \o ".n"

Recipient(kind) == IF kind = "self" THEN "w1" ELSE "w2"
Issuer(kind)    == IF kind = "selfinv" THEN "w1" ELSE "w2"
ReplyParts(sl, g) == {Part(AtomN(sl, "rsp", g), AtomK(sl, "rsp", g), TRUE)}

Init == /\ st = [ctx |-> [w \in WS |-> <<>>]]
        /\ flow = [sl \in Slates |-> NoFlow]
        /\ seenN = <<>> /\ seenX = <<>> /\ bad = {} /\ hist = <<>>

\* one API call: new secrets state r, events evs appended, flow of sl updated
Do(sl, r, evs, f2) ==
  /\ st' = r.st
  /\ flow' = [flow EXCEPT ![sl] = f2]
  /\ seenN' = SeenAfter(seenN, sl, {p.n : p \in r.out})
  /\ seenX' = SeenAfter(seenX, sl, {p.x : p \in r.out})
  /\ bad' = bad \cup (IF FreshNonces(seenN, seenX, sl, r.out) THEN {} ELSE {"FreshNonces"})
                 \cup (IF NoClearSecretOnWire(Msg(r.out), PendingSecrets(st) \cup PendingSecrets(r.st)) THEN {}
                       ELSE {"NoClearSecretOnWire"})
  /\ hist' = hist \o evs

AStart(sl) ==
  /\ flow[sl].kind = "none"
  /\ \E kind \in Kinds, api \in ApiModes :
       IF kind \in {"send", "late", "self"}
       THEN Do(sl, InitSend(st, "w1", sl, AtomK(sl, "ini", 0), AtomN(sl, "ini", 0)),
               <<[ev |-> "init_send", w |-> "w1", sl |-> sl, amt |-> 1000, late |-> (kind = "late"), api |-> api]>>,
               [NoFlow EXCEPT !.kind = kind, !.stage = "S1", !.api = api])
       ELSE Do(sl, IssueInvoice(st, Issuer(kind), sl, AtomK(sl, "ini", 0), AtomN(sl, "ini", 0)),
               <<[ev |-> "issue_invoice", w |-> Issuer(kind), sl |-> sl, amt |-> 1000, api |-> api]>>,
               [NoFlow EXCEPT !.kind = kind, !.stage = "I1", !.api = api])
AReceive(sl) ==
  LET f == flow[sl]  g == f.nrep + 1 IN
  /\ f.kind \in {"send", "late", "self"} /\ f.stage = "S1"
  /\ Do(sl, Receive(st, Recipient(f.kind), sl, AtomK(sl, "rsp", g), AtomN(sl, "rsp", g)),
        <<[ev |-> "receive", w |-> Recipient(f.kind), sl |-> sl, api |-> f.api]>>,
        [f EXCEPT !.stage = "S2", !.nrep = g])
ARCancel(sl) ==
  LET f == flow[sl] IN
  /\ UseCancel /\ f.kind \in {"send", "late"} /\ f.stage = "S2" /\ ~f.rcan
  /\ Do(sl, Unchanged(st), <<[ev |-> "cancel", w |-> "w2", by |-> sl, id |-> -1]>>, [f EXCEPT !.stage = "S1", !.rcan = TRUE])
AProcess(sl) ==
  LET f == flow[sl] IN
  /\ f.stage = "I1"
  /\ Do(sl, ProcessInvoice(st, "w1", sl, AtomK(sl, "rsp", 1), AtomN(sl, "rsp", 1)),
        <<[ev |-> "process_invoice", w |-> "w1", sl |-> sl, api |-> f.api]>>, [f EXCEPT !.stage = "I2", !.nrep = 1])
ALock(sl) ==
  LET f == flow[sl] IN
  /\ ~f.locked
  /\ \/ f.kind \in {"send", "self"} /\ f.stage \in {"S1", "S2"}
     \/ f.kind \in {"inv", "selfinv"} /\ f.stage = "I2"
  /\ Do(sl, Unchanged(st),
        <<[ev |-> "lock", w |-> "w1", sl |-> sl, stage |-> (IF f.stage = "I2" THEN "I2" ELSE "S1"), rep |-> 0, api |-> f.api]>>,
        [f EXCEPT !.locked = TRUE])
AFinalize(sl) ==
  LET f == flow[sl] IN
  \/ /\ f.stage = "S2" /\ (f.locked \/ f.kind = "late")
     /\ Do(sl, Finalize(st, "w1", sl, ReplyParts(sl, f.nrep)),
           <<[ev |-> "finalize", w |-> "w1", sl |-> sl, stage |-> "S2", rep |-> 0, foreign |-> FALSE, api |-> f.api]>>,
           [f EXCEPT !.stage = "S3"])
  \/ /\ f.stage = "I2" /\ f.locked
     /\ Do(sl, FinalizeInvoice(st, Issuer(f.kind), sl, ReplyParts(sl, 1)),
           <<[ev |-> "finalize", w |-> Issuer(f.kind), sl |-> sl, stage |-> "I2", rep |-> 0, foreign |-> TRUE, api |-> f.api]>>,
           [f EXCEPT !.stage = "I3"])
ASCancel(sl) ==
  LET f == flow[sl] IN
  /\ UseCancel /\ f.locked /\ f.kind \in {"send", "inv"} /\ f.stage \in {"S1", "S2", "I2"}
  /\ Do(sl, Unchanged(st), <<[ev |-> "cancel", w |-> "w1", by |-> sl, id |-> -1]>>, [f EXCEPT !.stage = "X"])
APost(sl) ==
  /\ flow[sl].stage \in {"S3", "I3"}
  /\ Do(sl, Unchanged(st), <<[ev |-> "post", sl |-> sl]>>, [flow[sl] EXCEPT !.stage = "P"])
AMine(sl) ==
  /\ flow[sl].stage = "P"
  /\ Do(sl, Unchanged(st), <<[ev |-> "mine", txs |-> <<sl>>], [ev |-> "refresh", w |-> "w1"], [ev |-> "refresh", w |-> "w2"]>>,
        [flow[sl] EXCEPT !.stage = "M"])

Next == \E sl \in Slates : AStart(sl) \/ AReceive(sl) \/ ARCancel(sl) \/ AProcess(sl) \/ ALock(sl) \/ AFinalize(sl)
                           \/ ASCancel(sl) \/ APost(sl) \/ AMine(sl)
Spec == Init /\ [][Next]_vars

\* ---------------------------------------------------------------- checks
Cex(name) == PrintT(<<"CEX", ToJson([inv |-> name, hist |-> hist])>>) /\ FALSE
CexA(name) == PrintT(<<"CEX", ToJson([inv |-> name, hist |-> hist'])>>) /\ FALSE
\* The at-rest predicate FAILS in this model - the model is code-shaped (Secrets.tla DiskForm) and
\* the code stores initial_sec_key / initial_sec_nonce unmasked.  The failure is printed as a
\* model counter-example (the runner replays it on the real code, where the byte scanner confirms
\* it) but does not stop TLC: every state would dump a trace.  Inv_AtRestStrict is the same
\* predicate as a plain invariant (MC_C12_sec_atrest.cfg: must be violated).
Inv_AtRest == IF NoClearSecretAtRest(st) THEN TRUE ELSE PrintT(<<"CEX", ToJson([inv |-> "NoClearSecretAtRest", hist |-> hist])>>)
Inv_AtRestStrict == NoClearSecretAtRest(st)
Inv_Fresh == IF "FreshNonces" \notin bad THEN TRUE ELSE Cex("FreshNonces")
Inv_Wire  == IF "NoClearSecretOnWire" \notin bad THEN TRUE ELSE Cex("NoClearSecretOnWire")
TypeOK == \A w \in WS : \A sl \in DOMAIN st.ctx[w] : DOMAIN st.ctx[w][sl] = Fields

\* GEN: the history of every transition (the runner keeps a prefix-maximal subset)
EmitEdges == [][PrintT(<<"REPLAY", ToJson(hist')>>)]_vars
=============================================================================
