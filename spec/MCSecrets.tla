----------------------------- MODULE MCSecrets -----------------------------
(***************************************************************************)
(* Bounded model of the transaction flows over the secrets state of        *)
(* Secrets.tla: two wallets (w1 funded and paying, w2), the slates of the  *)
(* config, each running one of the flows                                   *)
(*    send     w1 -> w2: init_send, receive, lock, finalize                *)
(*    late     the same with late_lock (no separate lock)                  *)
(*    self     w1 -> w1                                                    *)
(*    inv      w2 invoices w1: issue_invoice, process_invoice, lock,       *)
(*             finalize (foreign)                                          *)
(*    selfinv  w1 invoices itself (the context-merging path)               *)
(* in every interleaving, optionally with a recipient cancel followed by a *)
(* second receive of the same slate and a sender cancel.  TLC checks       *)
(* NoClearSecret (at rest, on the wire) and FreshNonces in every state /   *)
(* on every step and prints every transition's history as a behaviour in   *)
(* the event vocabulary of harness/src/driver.rs (GEN).                    *)
(* TestRng = TRUE transcribes use_test_rng (StepRng / [1;32] nonce): a     *)
(* seeded mutant of the spec under which FreshNonces MUST fail.  In the    *)
(* code the flag is Owner.doctest_mode / Foreign.doctest_mode (false in    *)
(* Owner::new and in the listeners); events with api = TRUE make the       *)
(* harness call through those structs so that the plumbing is exercised.   *)
(***************************************************************************)
EXTENDS Secrets, Integers, Json

CONSTANTS Slates, Kinds, UseCancel, TestRng,
          DropDelete,   \* seeded mutant of the spec: the invoice finalize forgets to commit the deletion of
                        \* its context (ContextConsumed and NonceSignsOnce MUST then fail in the model)
          UseSecond,    \* a third wallet w3 answers the same S1 / I1 as well (a second, different, valid
                        \* reply) and the finalizer is handed that reply AFTER it has finalized the first
          ApiModes      \* subset of BOOLEAN: TRUE = the slate's calls go through grin_wallet_api::{Owner, Foreign}

VARIABLES st, flow, seenN, seenX, sctx, bad, hist
vars == <<st, flow, seenN, seenX, sctx, bad, hist>>
View == <<st, flow, seenN, seenX, sctx, bad>>

WS == {"w1", "w2", "w3"}
\* r1: index of the reply the flow finalizes first; second: w3's reply exists (its index is nrep);
\* again: the finalizer has been handed w3's reply after finalizing
NoFlow == [kind |-> "none", stage |-> "new", locked |-> FALSE, nrep |-> 0, rcan |-> FALSE, api |-> FALSE,
           r1 |-> 0, second |-> FALSE, again |-> FALSE]

\* Context::new(secp, parent, use_test_rng, is_initiator)
AtomK(sl, role, g) == IF TestRng THEN "test.k." \o role ELSE sl \o "." \o role \o ToString(g) \o ".k"
AtomN(sl, role, g) == IF TestRng THEN "test.n" ELSE sl \o "." \o role \o ToString(g) \o ".n"

Recipient(kind) == IF kind = "self" THEN "w1" ELSE "w2"
Issuer(kind)    == IF kind = "selfinv" THEN "w1" ELSE "w2"
ReplyParts(sl, g) == {Part(AtomN(sl, "rsp", g), AtomK(sl, "rsp", g), TRUE)}
IniParts(sl) == {Part(AtomN(sl, "ini", 0), AtomK(sl, "ini", 0), FALSE)}
Finalizer(kind) == IF kind = "inv" THEN "w2" ELSE "w1"
FinI(s, w, sl, inp) == IF DropDelete THEN [FinalizeInvoice(s, w, sl, inp) EXCEPT !.st = s] ELSE FinalizeInvoice(s, w, sl, inp)

Init == /\ st = [ctx |-> [w \in WS |-> <<>>]]
        /\ flow = [sl \in Slates |-> NoFlow]
        /\ seenN = <<>> /\ seenX = <<>> /\ sctx = <<>> /\ bad = {} /\ hist = <<>>

\* one API call: new secrets state r, events evs appended, flow of sl updated;
\* all: the participant entries of the transaction a signature in r.out commits to;
\* consumed: FALSE iff the call is a successful finalize that leaves its context behind
DoS(sl, r, evs, f2, all, consumed) ==
  /\ st' = r.st
  /\ sctx' = SctxAfter(sctx, r.out, all)
  /\ flow' = [flow EXCEPT ![sl] = f2]
  /\ seenN' = SeenAfter(seenN, sl, {p.n : p \in r.out})
  /\ seenX' = SeenAfter(seenX, sl, {p.x : p \in r.out})
  /\ bad' = bad \cup (IF FreshNonces(seenN, seenX, sl, r.out) THEN {} ELSE {"FreshNonces"})
                 \cup (IF NoClearSecretOnWire(Msg(r.out), PendingSecrets(st) \cup PendingSecrets(r.st)) THEN {}
                       ELSE {"NoClearSecretOnWire"})
                 \cup (IF SignsOnce(sctx, r.out, all) THEN {} ELSE {"NonceSignsOnce"})
                 \cup (IF consumed THEN {} ELSE {"ContextConsumed"})
  /\ hist' = hist \o evs
Do(sl, r, evs, f2) == DoS(sl, r, evs, f2, {}, TRUE)

AStart(sl) ==
  /\ flow[sl].kind = "none"
  /\ \E kind \in Kinds, api \in ApiModes :
       IF kind \in {"send", "late", "self"}
       THEN Do(sl, InitSend(st, "w1", sl, AtomK(sl, "ini", 0), AtomN(sl, "ini", 0)),
               <<[ev |-> "init_send", w |-> "w1", sl |-> sl, amt |-> 1000, late |-> (kind = "late"), api |-> api]>>,
               [NoFlow EXCEPT !.kind = kind, !.stage = "S1", !.api = api])
       ELSE Do(sl, IssueInvoice(st, Issuer(kind), sl, AtomK(sl, "ini", 0), AtomN(sl, "ini", 0)),
               <<[ev |-> "issue_invoice", w |-> Issuer(kind), sl |-> sl, amt |-> 1000, api |-> api]>>,
               [NoFlow EXCEPT !.kind = kind, !.stage = "I1", !.api = api])
AReceive(sl) ==
  LET f == flow[sl]  g == f.nrep + 1 IN
  /\ f.kind \in {"send", "late", "self"} /\ f.stage = "S1"
  /\ LET r == Receive(st, Recipient(f.kind), sl, AtomK(sl, "rsp", g), AtomN(sl, "rsp", g)) IN
     DoS(sl, r, <<[ev |-> "receive", w |-> Recipient(f.kind), sl |-> sl, api |-> f.api]>>,
         [f EXCEPT !.stage = "S2", !.nrep = g, !.r1 = g], IniParts(sl) \cup r.out, TRUE)
ARCancel(sl) ==
  LET f == flow[sl] IN
  /\ UseCancel /\ f.kind \in {"send", "late"} /\ f.stage = "S2" /\ ~f.rcan /\ ~f.second
  /\ Do(sl, Unchanged(st), <<[ev |-> "cancel", w |-> "w2", by |-> sl, id |-> -1]>>, [f EXCEPT !.stage = "S1", !.rcan = TRUE])
AProcess(sl) ==
  LET f == flow[sl] IN
  /\ f.stage = "I1"
  /\ LET r == ProcessInvoice(st, "w1", sl, AtomK(sl, "rsp", 1), AtomN(sl, "rsp", 1)) IN
     DoS(sl, r, <<[ev |-> "process_invoice", w |-> "w1", sl |-> sl, api |-> f.api]>>,
         [f EXCEPT !.stage = "I2", !.nrep = 1, !.r1 = 1], IniParts(sl) \cup r.out, TRUE)
\* a second, different, valid reply to the same S1 / I1 from a third wallet
ASecond(sl) ==
  LET f == flow[sl]  g == f.nrep + 1 IN
  /\ UseSecond /\ f.kind \in {"send", "late", "inv"} /\ ~f.second /\ ~f.rcan
  /\ f.stage \in {"S2", "S3", "I2", "I3"}
  /\ LET r == IF f.kind = "inv" THEN ProcessInvoice(st, "w3", sl, AtomK(sl, "rsp", g), AtomN(sl, "rsp", g))
               ELSE Receive(st, "w3", sl, AtomK(sl, "rsp", g), AtomN(sl, "rsp", g)) IN
     DoS(sl, r, <<[ev |-> (IF f.kind = "inv" THEN "process_invoice" ELSE "receive"), w |-> "w3", sl |-> sl, api |-> f.api]>>,
         [f EXCEPT !.nrep = g, !.second = TRUE], IniParts(sl) \cup r.out, TRUE)
ALock(sl) ==
  LET f == flow[sl] IN
  /\ ~f.locked
  /\ \/ f.kind \in {"send", "self"} /\ f.stage \in {"S1", "S2"}
     \/ f.kind \in {"inv", "selfinv"} /\ f.stage = "I2"
  /\ Do(sl, Unchanged(st),
        <<[ev |-> "lock", w |-> "w1", sl |-> sl, stage |-> (IF f.stage = "I2" THEN "I2" ELSE "S1"),
          rep |-> (IF f.stage = "I2" THEN f.r1 ELSE 0), api |-> f.api]>>,
        [f EXCEPT !.locked = TRUE])
AFinalize(sl) ==
  LET f == flow[sl] IN
  \/ /\ f.stage = "S2" /\ (f.locked \/ f.kind = "late")
     /\ LET r == Finalize(st, "w1", sl, ReplyParts(sl, f.r1)) IN
        DoS(sl, r, <<[ev |-> "finalize", w |-> "w1", sl |-> sl, stage |-> "S2", rep |-> f.r1, foreign |-> FALSE, api |-> f.api]>>,
            [f EXCEPT !.stage = "S3"], r.out, ContextConsumed(r.st, "w1", sl))
  \/ /\ f.stage = "I2" /\ f.locked
     /\ LET r == FinI(st, Issuer(f.kind), sl, ReplyParts(sl, f.r1)) IN
        DoS(sl, r, <<[ev |-> "finalize", w |-> Issuer(f.kind), sl |-> sl, stage |-> "I2", rep |-> f.r1, foreign |-> TRUE, api |-> f.api]>>,
            [f EXCEPT !.stage = "I3"], r.out, ContextConsumed(r.st, Issuer(f.kind), sl))
\* the finalizer is handed the OTHER valid reply after it has finalized: no context, refused
AFinalizeAgain(sl) ==
  LET f == flow[sl]  w == Finalizer(f.kind) IN
  /\ UseSecond /\ f.second /\ ~f.again /\ f.stage \in {"S3", "I3", "P", "M"}
  /\ LET ok == HasCtx(st, w, sl)
         r == IF ~ok THEN Refused(st)
              ELSE IF f.kind = "inv" THEN FinI(st, w, sl, ReplyParts(sl, f.nrep)) ELSE Finalize(st, w, sl, ReplyParts(sl, f.nrep)) IN
     DoS(sl, r, <<[ev |-> "finalize", w |-> w, sl |-> sl, stage |-> (IF f.kind = "inv" THEN "I2" ELSE "S2"), rep |-> f.nrep,
                  foreign |-> (f.kind = "inv"), api |-> f.api, again |-> TRUE]>>,
         [f EXCEPT !.again = TRUE], r.out, ok => ContextConsumed(r.st, w, sl))
ASCancel(sl) ==
  LET f == flow[sl] IN
  /\ UseCancel /\ f.locked /\ f.kind \in {"send", "inv"} /\ f.stage \in {"S1", "S2", "I2"}
  /\ Do(sl, Unchanged(st), <<[ev |-> "cancel", w |-> "w1", by |-> sl, id |-> -1]>>, [f EXCEPT !.stage = "X"])
APost(sl) ==
  /\ flow[sl].stage \in {"S3", "I3"}
  /\ Do(sl, Unchanged(st), <<[ev |-> "post", sl |-> sl]>>, [flow[sl] EXCEPT !.stage = "P"])
AMine(sl) ==
  /\ flow[sl].stage = "P"
  /\ Do(sl, Unchanged(st), <<[ev |-> "mine", txs |-> <<sl>>], [ev |-> "refresh", w |-> "w1"], [ev |-> "refresh", w |-> "w2"]>>,
        [flow[sl] EXCEPT !.stage = "M"])

Next == \E sl \in Slates : AStart(sl) \/ AReceive(sl) \/ ARCancel(sl) \/ AProcess(sl) \/ ASecond(sl) \/ ALock(sl) \/ AFinalize(sl)
                           \/ AFinalizeAgain(sl) \/ ASCancel(sl) \/ APost(sl) \/ AMine(sl)
Spec == Init /\ [][Next]_vars

\* ---------------------------------------------------------------- checks
Cex(name) == PrintT(<<"CEX", ToJson([inv |-> name, hist |-> hist])>>) /\ FALSE
CexA(name) == PrintT(<<"CEX", ToJson([inv |-> name, hist |-> hist'])>>) /\ FALSE
\* The at-rest predicate FAILS in this model - the model is code-shaped (Secrets.tla DiskForm) and
\* the code stores initial_sec_key / initial_sec_nonce unmasked.  The failure is printed as a
\* model counter-example (the runner replays it on the real code, where the byte scanner confirms
\* it) but does not stop TLC: every state would dump a trace.  Inv_AtRestStrict is the same
\* predicate as a plain invariant (MC_C12_sec_atrest.cfg: must be violated).
Inv_AtRest == IF NoClearSecretAtRest(st) THEN TRUE ELSE PrintT(<<"CEX", ToJson([inv |-> "NoClearSecretAtRest", hist |-> hist])>>)
Inv_AtRestStrict == NoClearSecretAtRest(st)
Inv_Fresh == IF "FreshNonces" \notin bad THEN TRUE ELSE Cex("FreshNonces")
Inv_Wire  == IF "NoClearSecretOnWire" \notin bad THEN TRUE ELSE Cex("NoClearSecretOnWire")
Inv_SignsOnce == IF "NonceSignsOnce" \notin bad THEN TRUE ELSE Cex("NonceSignsOnce")
Inv_Consumed  == IF "ContextConsumed" \notin bad THEN TRUE ELSE Cex("ContextConsumed")
TypeOK == \A w \in WS : \A sl \in DOMAIN st.ctx[w] : DOMAIN st.ctx[w][sl] = Fields

\* GEN: the history of every transition (the runner keeps a prefix-maximal subset)
EmitEdges == [][PrintT(<<"REPLAY", ToJson(hist')>>)]_vars
=============================================================================
