------------------------------ MODULE Secrets ------------------------------
(***************************************************************************)
(* C12, protocol part: what becomes of the per-transaction secrets.        *)
(*                                                                         *)
(* Transcribed from the pinned commit:                                     *)
(*   libwallet/src/types.rs:570-616   Context::new / with_excess           *)
(*   libwallet/src/internal/tx.rs     add_inputs_to_slate, add_output_to_  *)
(*                                    slate, create_late_lock_context,     *)
(*                                    complete_tx                          *)
(*   libwallet/src/api_impl/owner.rs  init_send_tx, issue_invoice_tx,      *)
(*                                    process_invoice_tx, finalize_tx      *)
(*   libwallet/src/api_impl/foreign.rs receive_tx, finalize_tx             *)
(*   libwallet/src/slate.rs:237,281   compact, remove_other_sigdata,       *)
(*                                    add_participant_info                 *)
(*   impls/src/backends/lmdb.rs:68,341,734  private_ctx_xor_keys, get/     *)
(*                                    save_private_context                 *)
(*                                                                         *)
(* An ATOM stands for one 32-byte secret scalar; the same name stands for  *)
(* its public image k*G where it appears in a slate (the map is injective, *)
(* so "same public nonce" = "same secret nonce").  In the bounded model    *)
(* atoms are strings built from the slate name and the role; in trace      *)
(* validation they are the hex of the public image computed by the harness *)
(* from the stored context - the model's fresh choices are bound from the  *)
(* log.                                                                    *)
(*                                                                         *)
(* State  st = [ctx |-> [wallet -> [slate -> Ctx]]]   (LMDB table 'p')     *)
(* Ctx = [sec, nonce, isec, inonce]  = Context.{sec_key, sec_nonce,        *)
(*                                     initial_sec_key, initial_sec_nonce} *)
(* A step returns [st, out]: the new state and the participant entries     *)
(* {[n, x, sig]} of the slate handed back to the caller / the peer.        *)
(*                                                                         *)
(* Named deviations / under-modelling:                                     *)
(*  - FundsOpaque: amounts, inputs, outputs, fees are not modelled; a step *)
(*    the real wallet refuses is `unchanged` here (trace validation binds  *)
(*    the result from the log).                                            *)
(*  - FreshAtom: thread_rng / create_secnonce draw values never seen       *)
(*    before (the model's atoms are fresh by construction unless TestRng). *)
(***************************************************************************)
EXTENDS Naturals, Sequences, FiniteSets, TLC

Fields == {"sec", "nonce", "isec", "inonce"}

\* ------------------------------------------------------------- functions
PutF(f, k, v) == [x \in (DOMAIN f) \cup {k} |-> IF x = k THEN v ELSE f[x]]
RemF(f, k)    == [x \in (DOMAIN f) \ {k} |-> f[x]]

\* -------------------------------------------------------------- contexts
\* Context::with_excess: initial_sec_key = sec_key, initial_sec_nonce = sec_nonce
NewCtx(fk, fn) == [sec |-> fk, nonce |-> fn, isec |-> fk, inonce |-> fn]
HasCtx(st, w, sl) == sl \in DOMAIN st.ctx[w]
Save(st, w, sl, c) == [st EXCEPT !.ctx[w] = PutF(@, sl, c)]      \* batch.save_private_context + commit
Del(st, w, sl)     == [st EXCEPT !.ctx[w] = RemF(@, sl)]          \* batch.delete_private_context + commit
Part(n, x, sig) == [n |-> n, x |-> x, sig |-> sig]                \* ParticipantData{public_nonce, public_blind_excess, part_sig}
Unsigned(P) == {Part(p.n, p.x, FALSE) : p \in P}
Signed(P)   == {Part(p.n, p.x, TRUE) : p \in P}

\* complete_tx: "when self sending invoice tx, use initiator nonce to finalize"
SignerOf(c) == IF c.isec # c.sec /\ c.inonce # c.nonce THEN [k |-> c.isec, n |-> c.inonce]
               ELSE [k |-> c.sec, n |-> c.nonce]

\* ------------------------------------------------------------ the steps
\* owner::init_send_tx (late_lock or not: Context::new, fill_round_1, save, compact)
InitSend(st, w, sl, fk, fn) ==
  [st |-> Save(st, w, sl, NewCtx(fk, fn)), out |-> {Part(fn, fk, FALSE)}]
\* foreign::receive_tx: add_output_to_slate (Context::new, fill_round_1, fill_round_2);
\* the recipient's context is NOT stored; remove_other_sigdata keeps its own entry only
Receive(st, w, sl, fk, fn) ==
  [st |-> st, out |-> {Part(fn, fk, TRUE)}]
\* owner::tx_lock_outputs, owner::cancel_tx (cancel does not delete the context),
\* post_tx, refresh, mining: nothing happens to secrets
Unchanged(st) == [st |-> st, out |-> {}]
\* finalize_tx starts with get_private_context: without a stored context of that slate id it
\* returns Err before anything is signed (this is what makes a nonce single-use)
Refused(st) == Unchanged(st)
\* owner::finalize_tx / foreign::finalize_tx, Standard2 (a late-locked context is
\* saved once more with its selected inputs before): complete_tx signs with the
\* stored keys, the context is deleted, the slate carries both entries
Finalize(st, w, sl, inparts) ==
  LET c == st.ctx[w][sl]
      s == SignerOf(c) IN
  [st |-> Del(st, w, sl), out |-> Signed(inparts) \cup {Part(s.n, s.k, TRUE)}]
\* owner::issue_invoice_tx: add_output_to_slate as initiator, context saved
IssueInvoice(st, w, sl, fk, fn) ==
  [st |-> Save(st, w, sl, NewCtx(fk, fn)), out |-> {Part(fn, fk, FALSE)}]
\* owner::process_invoice_tx: add_inputs_to_slate (Context::new, round 1 and 2);
\* "if self-sending, merge contexts": the issuer's context stored under the same
\* slate id lends its initial_sec_key / initial_sec_nonce; saved; own entry only
ProcessInvoice(st, w, sl, fk, fn) ==
  LET c0 == NewCtx(fk, fn)
      c  == IF HasCtx(st, w, sl)
            THEN [c0 EXCEPT !.isec = st.ctx[w][sl].isec, !.inonce = st.ctx[w][sl].inonce]
            ELSE c0 IN
  [st |-> Save(st, w, sl, c), out |-> {Part(fn, fk, TRUE)}]
\* foreign::finalize_tx, Invoice2: repopulate with the initial keys, complete_tx, delete
FinalizeInvoice(st, w, sl, inparts) == Finalize(st, w, sl, inparts)

\* ------------------------------------------------------------ at rest
\* save_private_context: "ctx.sec_key ^= blind_xor_key; ctx.sec_nonce ^= nonce_xor_key"
\* and then the whole Context goes to LMDB as serde_json - initial_sec_key and
\* initial_sec_nonce are written AS THEY ARE (code-shaped; C12 suspects this)
DiskForm == [sec |-> "xor", nonce |-> "xor", isec |-> "clear", inonce |-> "clear"]
ClearAtRest(st, w) == {st.ctx[w][sl][f] : sl \in DOMAIN st.ctx[w], f \in {g \in Fields : DiskForm[g] = "clear"}}
\* a stored context's field whose bytes can be read from the database file
LeakedFields(st, w) == {<<sl, f>> \in (DOMAIN st.ctx[w]) \X Fields : st.ctx[w][sl][f] \in ClearAtRest(st, w)}

\* --------------------------------------------------------- the properties
\* NoClearSecret at rest: no file of the wallet directory holds a pending context's secret
NoClearSecretAtRest(st) == \A w \in DOMAIN st.ctx : LeakedFields(st, w) = {}
\* NoClearSecret on the wire, model form: a V4 slate has no field for a secret -
\* `clear` (secret atoms readable from the message) is empty for every message built
\* from participant entries
Msg(parts) == [parts |-> parts, clear |-> {}]
NoClearSecretOnWire(m, secrets) == m.clear \cap secrets = {}
PendingSecrets(st) ==
  UNION {UNION {{st.ctx[w][sl][f] : f \in Fields} : sl \in DOMAIN st.ctx[w]} : w \in DOMAIN st.ctx}
\* FreshNonces: `seen` maps a public nonce / excess to the slate it first appeared in;
\* an entry of slate sl may repeat one of the same slate (S1 -> S3, I1 -> I3), never
\* one of another slate
FreshPart(seenN, seenX, key, p) ==
  /\ (p.n \in DOMAIN seenN => seenN[p.n] = key)
  /\ (p.x \in DOMAIN seenX => seenX[p.x] = key)
FreshNonces(seenN, seenX, key, parts) == \A p \in parts : FreshPart(seenN, seenX, key, p)
\* ContextConsumed: "never reused" needs "consumed" - after a successful finalize_tx the
\* finalizer no longer holds a private context (secret nonce, secret excess) of that slate
ContextConsumed(post, w, sl) == ~HasCtx(post, w, sl)
\* NonceSignsOnce: a partial signature commits to the aggregate nonce, the aggregate excess and the
\* kernel message; `sctx` maps a public nonce that has signed to the participant set {<<n, x>>} it
\* signed for.  One nonce under two different participant sets = two partial signatures with one
\* nonce over two challenges, which discloses the signer's secret excess.
Pairs(P) == {<<p.n, p.x>> : p \in P}
SignsOnce(sctx, parts, all) == \A p \in parts : (p.sig /\ p.n \in DOMAIN sctx) => sctx[p.n] = Pairs(all)
SctxAfter(sctx, parts, all) ==
  LET new == {p.n : p \in {q \in parts : q.sig}} IN
  [a \in (DOMAIN sctx) \cup new |-> IF a \in DOMAIN sctx THEN sctx[a] ELSE Pairs(all)]
SeenAfter(seen, key, atoms) == [a \in (DOMAIN seen) \cup atoms |-> IF a \in DOMAIN seen THEN seen[a] ELSE key]
=============================================================================
