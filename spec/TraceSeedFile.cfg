CONSTANTS
  MaxBak = 8
  CheckM = TRUE
SPECIFICATION TSpec
POSTCONDITION Consumed
CHECK_DEADLOCK FALSE
