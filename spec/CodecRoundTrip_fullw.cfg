CONSTANTS
  Mode = "full"
  NSample = 0
  Wide = TRUE
SPECIFICATION Spec
INVARIANTS InvRoundTrip InvCrossEqual InvAux InvWire InvGen
CHECK_DEADLOCK FALSE
