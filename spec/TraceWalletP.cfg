CONSTANTS
  Reward = 60000
  Maturity = 3
  CheckM = FALSE
SPECIFICATION TSpec
POSTCONDITION Consumed
CHECK_DEADLOCK FALSE
