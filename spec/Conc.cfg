CONSTANTS
  NSections = 12
  NOps = 2
SPECIFICATION Spec
INVARIANT Emit
INVARIANT NoDeadlock
CHECK_DEADLOCK FALSE
