------------------------------ MODULE MCWallet ------------------------------
(***************************************************************************)
(* Bounded model of two wallets exchanging transactions over a shared      *)
(* chain, built from the step operators of Wallet.tla.  One spec, several  *)
(* configs (MC_C03.cfg, MC_C05.cfg, ...) that differ in constants and in   *)
(* which invariants / action properties are checked.  `hist` records the   *)
(* behaviour for replay on the real code and is hidden by the VIEW.        *)
(***************************************************************************)
EXTENDS WalletProps, SequencesExt, Json

CONSTANTS Slates,        \* slate names, e.g. {"s1","s2"}
          Amounts,       \* amounts a sender may ask for
          NFund,         \* number of coinbase outputs w1 starts with
          MaxH,          \* chain height bound
          MaxLog,        \* bound on log entries per wallet (state constraint)
          UseLate,       \* allow late-locked sends
          UseTtl,        \* allow a TTL of +1 block on sends
          UseInvoice,    \* allow invoice flows
          UseAccounts,   \* a second account on w1, account switching, send from a named account
          UseMineTo,     \* blocks mined to the wallets themselves
          UseCancelBySlate,
          UseAdv,        \* adversarial foreign calls on w1
          MaxAdv,        \* at most this many adversarial calls per behaviour
          MaxFork,       \* reorganisations of depth 1..MaxFork (0 = none)
          UseScan,       \* owner::scan (with and without delete_unconfirmed), restore from seed
          UseDiverge,    \* inject divergences into w1's records
          UseAccounts2,  \* a second account on the recipient w2, receives into it by name
          UseSelf,       \* w1 may receive its own slates (self-send), also into its second account
          FundAcct2,     \* w1 starts with a second account (a1 / "acct1") that holds NFund coinbases too
          UseBuild,      \* owner::build_output and owner::create_mwixnet_req (second reservation kind) on w1
          NChanges,      \* numbers of change outputs a send may ask for (a set, e.g. {1} or {1, 2})
          QuietW2,       \* TRUE: the peer wallet w2 does nothing (self-send configurations: everything happens in w1)
          UseFarTtl      \* deliveries claiming the largest cut-off height there is (u64::MAX)

VARIABLES st, hv, net, hist, mids   \* mids: the intermediate persistent states of the last step
vars == <<st, hv, net, hist, mids>>
WS0 == {"w1", "w2"}
WS == WS0

\* ---------------------------------------------------------------- init
Empty == [w |-> [w \in WS |-> [EmptyWallet({"a0"}) EXCEPT !.seed = w]], chain |-> <<>>, pool |-> {}, body |-> <<>>, reg |-> <<>>, nrep |-> <<>>]

FeesOf(s, txs) == SumF([sl \in txs |-> s.body[sl].fee], txs)
MineTo(s, w, txs) ==
  LET bc == BuildCoinbase(s, w, [fees |-> FeesOf(s, txs), h |-> Height(s) + 1, key |-> ""])
  IN MineBlock(LastOf(bc.steps), OID(s, w, bc.key), txs)
MineForeign(s, txs) == MineBlock(s, "", txs)
\* the node re-requests the coinbase under the key of a candidate it was given before (a block of ours
\* that lost the race): build_coinbase(key_id = Some(k)) for the NEW height, then the block
MineToKey(s, w, txs, k) ==
  LET bc == BuildCoinbase(s, w, [fees |-> FeesOf(s, txs), h |-> Height(s) + 1, key |-> k])
  IN MineBlock(LastOf(bc.steps), OID(s, w, bc.key), txs)

\* Refresh as the harness performs it between protocol steps: Refresh1 on the
\* active account followed by kernel confirmation of outstanding entries.
RefreshLite(s, w) == LET r == RefreshFull(s, w) IN LastOr(r.steps, s)

RECURSIVE Fund(_, _)
Fund(s, n) == IF n = 0 THEN s ELSE Fund(MineTo(s, "w1", {}), n - 1)
\* NFund blocks to w1, then Maturity foreign blocks so that everything is mature
RECURSIVE Pad(_, _)
Pad(s, n) == IF n = 0 THEN s ELSE Pad(MineForeign(s, {}), n - 1)
Act(s, lbl) == LastOf(SetActive(s, "w1", [label |-> lbl]).steps)
InitWorld1 == RefreshLite(RefreshLite(Pad(Fund(Empty, NFund), Maturity), "w1"), "w2")
\* two funded accounts: fund default, create acct1, fund it, pad, refresh both accounts (as the harness does)
InitWorld2 ==
  LET s1 == Fund(Empty, NFund)
      s2 == LastOf(CreateAccount(s1, "w1", [name |-> "a1", label |-> "acct1"]).steps)
      s3 == Act(Pad(Fund(Act(s2, "acct1"), NFund), Maturity), "default")
      s4 == Act(RefreshLite(Act(RefreshLite(s3, "w1"), "acct1"), "w1"), "default")
  IN RefreshLite(s4, "w2")
InitWorld == IF FundAcct2 THEN InitWorld2 ELSE InitWorld1
NFundAll == IF FundAcct2 THEN 2 * NFund ELSE NFund

Init == /\ st = InitWorld
        /\ hv = EmptyHist(WS)
        /\ net = {}
        /\ hist = <<>>
        /\ mids = <<>>

\* ------------------------------------------------- selection (smallest first)
\* simplified transcription of select_coins_and_fee for use_all = FALSE and
\* max_outputs >= number of eligible outputs; Selection.tla has the full one
SortedElig(s, w, a, H, m) ==
  SortSeq(AnySeq(EligibleKeys(s, w, a, H, m)),
          LAMBDA x, y : s.w[w].outs[x].v < s.w[w].outs[y].v)
\* ties: MC configs use distinct values
RECURSIVE TakeWhile(_, _, _, _, _)
TakeWhile(vals, keys, i, acc, target) ==
  IF i > Len(keys) \/ acc >= target THEN {}
  ELSE {keys[i]} \cup TakeWhile(vals, keys, i + 1, acc + vals[keys[i]], target)
SelectFrom(s, w, keys, target) ==
  LET vals == [k \in RangeOf(keys) |-> s.w[w].outs[k].v]
      tot  == SumF(vals, RangeOf(keys)) IN
  IF tot >= target THEN TakeWhile(vals, keys, 1, 0, target) ELSE RangeOf(keys)
RECURSIVE SelLoop(_, _, _, _, _, _, _)
SelLoop(s, w, keys, coins, amt, nchg, fuel) ==
  LET vals == [k \in RangeOf(keys) |-> s.w[w].outs[k].v]
      total == SumF(vals, coins)
      fee == Fee(Cardinality(coins), nchg + 1, 1)
      awf == amt + fee IN
  IF total >= awf THEN [ok |-> TRUE, sel |-> coins, fee |-> fee, chg |-> total - awf]
  ELSE IF Cardinality(coins) = Len(keys) \/ fuel = 0 THEN [ok |-> FALSE, sel |-> {}, fee |-> 0, chg |-> 0]
  ELSE SelLoop(s, w, keys, SelectFrom(s, w, keys, awf), amt, nchg, fuel - 1)
Select(s, w, a, amt, H, m, nchg) ==
  LET keys == SortedElig(s, w, a, H, m)
      vals == [k \in RangeOf(keys) |-> s.w[w].outs[k].v]
      coins == SelectFrom(s, w, keys, amt)
      total == SumF(vals, coins)
      fee0 == Fee(Cardinality(coins), 1, 1) IN
  IF total = 0 THEN [ok |-> FALSE, sel |-> {}, fee |-> 0, chg |-> 0]
  ELSE IF total < amt + fee0 /\ Cardinality(coins) = Len(keys) THEN [ok |-> FALSE, sel |-> {}, fee |-> 0, chg |-> 0]
  ELSE IF total = amt + fee0 THEN [ok |-> TRUE, sel |-> coins, fee |-> fee0, chg |-> 0]
  ELSE SelLoop(s, w, keys, coins, amt, nchg, Len(keys) + 1)

\* ------------------------------------------------------------- bookkeeping
\* the event carries how much the model's step changed (eff): 0 = nothing (a refused or idle step),
\* -1 = only the chain / pool / messages, n = number of output and log records of the wallets that
\* were added, removed or changed (capped at 4).  A refused step, a step touching one record and a step
\* touching several are different things to exercise; used when behaviours are selected for replay.
ChangedRecs(f, g) == Cardinality({k \in (DOMAIN f) \cup (DOMAIN g) : k \notin DOMAIN f \/ k \notin DOMAIN g \/ f[k] # g[k]})
EffSize ==
  IF st' = st THEN 0
  ELSE LET WW == (DOMAIN st.w) \cap (DOMAIN st'.w)
           n == SumF([x \in WW |-> ChangedRecs(st.w[x].outs, st'.w[x].outs) + ChangedRecs(st.w[x].txs, st'.w[x].txs)], WW)
       IN IF n = 0 THEN -1 ELSE IF n > 4 THEN 4 ELSE n
\* ... and in what kind of wallet state the step was taken: the output statuses (ost) and log entry
\* types (tty) present in the acting wallet before the step
ActW(e) == IF "w" \in DOMAIN e /\ e.w \in DOMAIN st.w THEN e.w ELSE ""
\* ... and how many OTHER transactions are pending (live sent / received entries of other slates) there
PendOthers(e) ==
  IF ActW(e) = "" THEN 0
  ELSE LET me == IF "sl" \in DOMAIN e THEN e.sl ELSE IF "by" \in DOMAIN e THEN e.by ELSE ""
           \* (cancel_tx refreshes first: what is pending is judged after that refresh)
           T == (IF e.ev = "cancel" THEN RefreshLite(st, ActW(e)) ELSE st).w[ActW(e)].txs
           n == Cardinality({t \in DOMAIN T : ~T[t].conf /\ T[t].ty \in {"TxSent", "TxReceived"} /\ T[t].slate # me})
       IN IF n > 2 THEN 2 ELSE n
\* ... and in which SITUATION the slate of the step is in the acting wallet: what has become of its sent entry
\* (none / live / confirmed / cancelled) and of the inputs its context names (no context / none chosen yet / gone / reserved
\* for ANOTHER transaction / reserved / spent / free).  The behaviour selection covers every (step kind, situation) class.
SitCls(e) ==
  IF ActW(e) # "" /\ e.ev \in {"refresh", "scan"}
  THEN \* a refresh / scan: has the wallet already looked at the chain at this height, and does it hold a record that
       \* says Unspent for an output the chain no longer has (what a reorganisation leaves behind)?
       LET wr == st.w[ActW(e)] IN
       (IF wr.idx[wr.active].confh = Height(st) THEN "uptodate" ELSE "behind") \o "/" \o
       (IF \E k \in DOMAIN wr.outs : wr.outs[k].st = "Unspent" /\ OID(st, ActW(e), k) \notin Utxo(st) THEN "stale-unspent" ELSE "consistent")
  ELSE
  IF ActW(e) = "" \/ "sl" \notin DOMAIN e THEN ""
  ELSE LET wr == st.w[ActW(e)]
           sl == e.sl
           ents == {t \in DOMAIN wr.txs : wr.txs[t].slate = sl /\ wr.txs[t].ty \in {"TxSent", "TxSentCancelled"}}
           est == IF ents = {} THEN "noentry"
                  ELSE IF \E t \in ents : wr.txs[t].ty = "TxSent" /\ ~wr.txs[t].conf THEN "live"
                  ELSE IF \E t \in ents : wr.txs[t].ty = "TxSent" THEN "confirmed" ELSE "cancelled"
           ins == IF sl \in DOMAIN wr.ctxs THEN wr.ctxs[sl].ins ELSE {}
           other(k) == /\ wr.outs[k].st = "Locked"
                       /\ LET t == TxKeyOf(wr.outs[k].acct, wr.outs[k].tx) IN t \in DOMAIN wr.txs /\ wr.txs[t].slate # sl
           ist == IF sl \notin DOMAIN wr.ctxs THEN "noctx"
                  ELSE IF ins = {} THEN "noins"
                  ELSE IF \E k \in ins : k \notin DOMAIN wr.outs THEN "gone"
                  ELSE IF \E k \in ins : other(k) THEN "other"
                  ELSE IF \E k \in ins : wr.outs[k].st = "Spent" THEN "spent"
                  ELSE IF \A k \in ins : wr.outs[k].st = "Locked" THEN "reserved" ELSE "free"
       IN est \o "/" \o ist
Log(e) == hist' = Append(hist, [f \in (DOMAIN e) \cup {"eff", "ost", "tty", "pend", "scls"} |->
                                  IF f = "scls" THEN SitCls(e) ELSE
                                  IF f = "eff" THEN EffSize
                                  ELSE IF f = "pend" THEN PendOthers(e)
                                  ELSE IF f = "ost" THEN (IF ActW(e) = "" THEN {} ELSE {st.w[ActW(e)].outs[k].st : k \in DOMAIN st.w[ActW(e)].outs})
                                  ELSE IF f = "tty" THEN (IF ActW(e) = "" THEN {} ELSE {st.w[ActW(e)].txs[t].ty : t \in DOMAIN st.w[ActW(e)].txs})
                                  ELSE e[f]])

\* ------------------------------------------------------------------ actions
\* every action: st' from the step operator, hv' maintained as in the trace spec,
\* one record appended to hist (the replay driver understands exactly these)
Upd(s2, hv2, net2, e) == /\ st' = s2 /\ hv' = HvIssued(hv2, s2) /\ net' = net2 /\ Log(e) /\ mids' = <<>>
\* the same for an operation with a step program: every state a crash could leave behind
\* is kept in `mids` (hidden by the VIEW, judged by Inv_Crash)
UpdS(steps, hv2, net2, e) == /\ st' = LastOr(steps, st) /\ hv' = HvIssued(hv2, LastOr(steps, st)) /\ net' = net2 /\ Log(e)
                             /\ mids' = steps /\ steps = steps
Msg(sl, stage, amt, ttl, rout, rep) == [sl |-> sl, stage |-> stage, amt |-> amt, ttl |-> ttl, rout |-> rout, rep |-> rep]
ChgSeq(sel) == IF sel.chg = 0 THEN <<>> ELSE <<sel.chg>>
ChgSeqN(sel, n) == IF sel.chg = 0 THEN <<>> ELSE [i \in 1..n |-> sel.chg \div n]

\* -- sender w1 initiates a send of amt to w2 from account src ("" = active)
InitSendActN(sl, amt, late, ttlb, src, nchg) ==
  /\ sl \notin DOMAIN st.w["w1"].ctxs
  /\ ~\E m \in net : m.sl = sl
  /\ LET acct == AcctOf(st, "w1", src)
         r1  == Refresh1(st, "w1", acct, FALSE)
         sel == Select(r1, "w1", acct, amt, Height(st), 1, nchg)
         ttl == IF ttlb = 0 THEN 0 ELSE Height(st) + ttlb
         args == [sl |-> sl, src |-> src, amt |-> amt, sel |-> sel.sel, chg |-> ChgSeqN(sel, nchg), fee |-> sel.fee,
                  late |-> late, incfee |-> FALSE, ttl |-> ttl, proof |-> FALSE,
                  minconf |-> 1, maxouts |-> 500, nchange |-> nchg, useall |-> FALSE]
         e0 == [ev |-> "init_send", w |-> "w1", sl |-> sl, amt |-> amt, late |-> late, ttlb |-> ttlb, src |-> src]
         e == IF nchg = 1 THEN e0 ELSE [f \in (DOMAIN e0) \cup {"nchange"} |-> IF f = "nchange" THEN nchg ELSE e0[f]]
     IN \* (several change outputs: the units scheme needs a change that splits evenly)
        /\ (sel.ok /\ nchg > 1) => (sel.chg % nchg = 0 /\ sel.chg >= nchg)
        /\ IF sel.ok
           THEN UpdS(InitSend(st, "w1", args).steps, hv, net \cup {Msg(sl, "S1", amt, ttl, "", 0)}, e)
           ELSE UpdS(InitSendErr(st, "w1", args, 0).steps, hv, net, e)
InitSendAct(sl, amt, late, ttlb, src) == \E n \in (IF late THEN {1} ELSE NChanges) : InitSendActN(sl, amt, late, ttlb, src, n)

LockAct(sl, m) ==
  /\ sl \in DOMAIN st.w["w1"].ctxs
  /\ ~st.w["w1"].ctxs[sl].late.on
  /\ m \in net /\ m.sl = sl /\ m.stage \in {"S1", "S2", "I2"}
  /\ LET r == Lock(st, "w1", [sl |-> sl, stage |-> m.stage, ttl |-> m.ttl, hasproof |-> FALSE])
         s2 == LastOr(r.steps, st) IN
     UpdS(r.steps, IF r.res = "ok" THEN HvAfterLock(st, s2, hv, "w1", sl) ELSE hv, net,
          [ev |-> "lock", w |-> "w1", sl |-> sl, stage |-> m.stage, rep |-> m.rep, mok |-> (r.res = "ok")])

\* deliver the S1 message of slate sl to wallet w (w2 normally; w1 = self-send), into the
\* account labelled dest ("" = the active one)
ReceiveActD(w, sl, dest) ==
  /\ \E m \in net : m.sl = sl /\ m.stage = "S1"
  /\ LET m == CHOOSE m \in net : m.sl = sl /\ m.stage = "S1"
         r == Receive(st, w, [sl |-> sl, dest |-> dest, amt |-> m.amt, ttl |-> m.ttl, hasproof |-> FALSE, kernin |-> "part"])
         e == [ev |-> "receive", w |-> w, sl |-> sl, dest |-> dest, mok |-> (r.res = "ok")] IN
     IF r.res = "ok"
     THEN UpdS(r.steps, HvAfterReceive(st, LastOf(r.steps), hv, w, sl),
               net \cup {Msg(sl, "S2", m.amt, m.ttl, OID(st, w, r.key), r.rep)}, e)
     ELSE Upd(st, hv, net, e)
ReceiveAct(w, sl) == ReceiveActD(w, sl, "")
\* the S1 message is delivered claiming the largest cut-off height there is (u64::MAX; TtlFar in the model and in the
\* trace): a cut-off that lies ahead is never a reason to refuse - the receive and everything after it go on as usual
TtlFar == 1000000000
ReceiveFarTtlAct(w, sl) ==
  /\ \E m \in net : m.sl = sl /\ m.stage = "S1" /\ m.ttl = 0
  /\ LET m == CHOOSE m \in net : m.sl = sl /\ m.stage = "S1"
         r == Receive(st, w, [sl |-> sl, dest |-> "", amt |-> m.amt, ttl |-> TtlFar, hasproof |-> FALSE, kernin |-> "part"])
         e == [ev |-> "receive", w |-> w, sl |-> sl, dest |-> "", tamper |-> "ttl_max", mok |-> (r.res = "ok")] IN
     IF r.res = "ok"
     THEN UpdS(r.steps, HvAfterReceive(st, LastOf(r.steps), hv, w, sl),
               net \cup {Msg(sl, "S2", m.amt, TtlFar, OID(st, w, r.key), r.rep)}, e)
     ELSE Upd(st, hv, net, e)
\* a second account on the recipient
CreateAccount2Act ==
  /\ "a1" \notin AllAccts(st, "w2")
  /\ Upd(LastOf(CreateAccount(st, "w2", [name |-> "a1", label |-> "acct1"]).steps), hv, net, [ev |-> "create_account", w |-> "w2", label |-> "acct1"])

FinalizeAct(sl, m) ==
  /\ m \in net /\ m.sl = sl /\ m.stage = "S2"
  /\ sl \in DOMAIN st.w["w1"].ctxs
  /\ LET cx == st.w["w1"].ctxs[sl]
         late == cx.late.on
         sel == Select(st, "w1", cx.acct, cx.amt, Height(st), 1, 1)
         r == Finalize(st, "w1", [sl |-> sl, stage |-> "S2", rep |-> m.rep, rkern |-> "rpart", ttl |-> m.ttl, valid |-> TRUE, proofok |-> TRUE,
                                  hasproof |-> FALSE, rout |-> {m.rout}, lsel |-> sel.sel, lchg |-> ChgSeq(sel)])
         s2 == LastOr(r.steps, st) IN
     /\ late => (sel.ok /\ sel.fee = cx.fee)
     /\ UpdS(r.steps, HvAfterFinalize(st, s2, hv, "w1", sl, r.res = "ok"), net,
             [ev |-> "finalize", w |-> "w1", sl |-> sl, stage |-> "S2", rep |-> m.rep, mok |-> (r.res = "ok")])

\* -- invoice flow: w2 issues (payee), w1 pays, w1 locks with the I2 slate, w2 finalizes
IssueInvoiceAct(sl, amt) ==
  /\ sl \notin DOMAIN st.w["w2"].ctxs
  /\ ~\E m \in net : m.sl = sl
  /\ LET r == IssueInvoice(st, "w2", [sl |-> sl, dest |-> "", amt |-> amt]) IN
     UpdS(r.steps, hv, net \cup {Msg(sl, "I1", amt, 0, OID(st, "w2", r.key), 0)},
         [ev |-> "issue_invoice", w |-> "w2", sl |-> sl, amt |-> amt])
\* the payer may attach a TTL (ttlb blocks from now) to the invoice it pays
ProcessInvoiceAct(sl, ttlb) ==
  /\ \E m \in net : m.sl = sl /\ m.stage = "I1"
  /\ Nrep(st, sl) < 1          \* (an invoice is paid once: a second process_invoice_tx of the same slate merges the
                               \*  stored context with itself - duplicate inputs, lock then refused - not modelled)
  /\ LET m == CHOOSE m \in net : m.sl = sl /\ m.stage = "I1"
         acct == st.w["w1"].active
         r1  == Refresh1(st, "w1", acct, FALSE)
         sel == Select(r1, "w1", acct, m.amt, Height(st), 1, 1)
         ttl == IF ttlb = 0 THEN 0 ELSE Height(st) + ttlb
         args == [sl |-> sl, src |-> "", amt |-> m.amt, sel |-> sel.sel, chg |-> ChgSeq(sel), fee |-> sel.fee, ttl |-> 0]
         pe == ProcessInvoiceErr(st, "w1", args)
         e == [ev |-> "process_invoice", w |-> "w1", sl |-> sl, ttlb |-> ttlb] IN
     IF pe # "ok" THEN Upd(st, hv, net, e)
     ELSE IF ~sel.ok THEN Upd(r1, hv, net, e)
     ELSE LET r == ProcessInvoice(st, "w1", args) IN
          UpdS(r.steps, hv, net \cup {Msg(sl, "I2", m.amt, ttl, m.rout, r.rep)}, e)
\* the invoice arrives carrying a cut-off height that has long passed (the counter-party writes that
\* field): paying it is refused without effect, whatever TTL the payer asks for on its own reply
ProcessInvoiceExpiredAct(sl, ttlb) ==
  /\ \E m \in net : m.sl = sl /\ m.stage = "I1"
  /\ Nrep(st, sl) < 1
  /\ Upd(st, hv, net, [ev |-> "process_invoice", w |-> "w1", sl |-> sl, ttlb |-> ttlb, tamper |-> "ttl_past", mok |-> FALSE])
FinalizeInvoiceAct(sl, m) ==
  /\ m \in net /\ m.sl = sl /\ m.stage = "I2"
  /\ sl \in DOMAIN st.w["w2"].ctxs
  /\ sl \in DOMAIN st.w["w1"].ctxs
  /\ LET cx1 == st.w["w1"].ctxs[sl]
         r == Finalize(st, "w2", [sl |-> sl, stage |-> "I2", rep |-> m.rep, rkern |-> "rpart", ttl |-> m.ttl, valid |-> TRUE, proofok |-> TRUE,
                                  hasproof |-> FALSE,
                                  rout |-> {OID(st, "w1", cx1.outs[i].k) : i \in DOMAIN cx1.outs},
                                  rins |-> {OID(st, "w1", k) : k \in cx1.ins}, rfee |-> cx1.fee,
                                  lsel |-> {}, lchg |-> <<>>])
         s2 == LastOr(r.steps, st) IN
     UpdS(r.steps, hv, net, [ev |-> "finalize", w |-> "w2", sl |-> sl, stage |-> "I2", rep |-> m.rep, mok |-> (r.res = "ok")])

PostAct(sl) ==
  /\ sl \in DOMAIN st.body /\ sl \notin st.pool /\ sl \notin Mined(st)
  /\ Upd(Post(st, sl), hv, net, [ev |-> "post", sl |-> sl])

\* a miner mines a block including every pool transaction still valid
\* (pairwise conflicting ones: first by CHOOSE); coinbase to `to` ("" = foreign)
RECURSIVE PickValid(_, _, _)
PickValid(s, cands, acc) ==
  IF cands = {} THEN acc
  ELSE LET sl == CHOOSE x \in cands : TRUE IN
       IF s.body[sl].ins \subseteq Utxo(s) /\ \A y \in acc : s.body[sl].ins \cap s.body[y].ins = {}
       THEN PickValid(s, cands \ {sl}, acc \cup {sl}) ELSE PickValid(s, cands \ {sl}, acc)
MineAct(to) ==
  /\ Height(st) < MaxH
  /\ st.pool # {} \/ to # ""
  /\ LET txs == PickValid(st, st.pool, {}) IN
     Upd(IF to = "" THEN MineForeign(st, txs) ELSE MineTo(st, to, txs), hv, net,
         [ev |-> "mine", to |-> to, txs |-> txs])
\* a coinbase candidate is requested for the next block, which somebody else then mines ...
CandidateAct ==
  /\ Height(st) < MaxH
  /\ ~\E k \in DOMAIN st.w["w1"].outs : st.w["w1"].outs[k].cb /\ st.w["w1"].outs[k].st = "Unconfirmed"
  /\ LET r == BuildCoinbase(st, "w1", [fees |-> 0, h |-> Height(st) + 1, key |-> ""]) IN
     Upd(LastOf(r.steps), hv, net, [ev |-> "build_coinbase", w |-> "w1", key |-> "", h |-> Height(st) + 1, fees |-> 0])
\* ... and the next block is ours after all, with the coinbase re-requested under the candidate's key
MineReuseAct ==
  /\ Height(st) < MaxH
  /\ \E k \in DOMAIN st.w["w1"].outs :
        /\ st.w["w1"].outs[k].cb /\ st.w["w1"].outs[k].st = "Unconfirmed" /\ st.w["w1"].outs[k].h <= Height(st)
        /\ HeightOfOut(st, OID(st, "w1", k)) = 0      \* a candidate that never made it into a block
        /\ LET txs == PickValid(st, st.pool, {}) IN
           Upd(MineToKey(st, "w1", txs, k), hv, net, [ev |-> "mine", to |-> "w1", txs |-> txs, key |-> k])
TickAct ==   \* an empty block, only while something can change by it (a pending TTL)
  /\ Height(st) < MaxH
  /\ \E m \in net : m.ttl # 0 /\ m.ttl < TtlFar /\ m.ttl + 1 > Height(st)
  /\ Upd(MineForeign(st, {}), hv, net, [ev |-> "mine", to |-> "", txs |-> {}])

RefreshAct(w) ==
  /\ LET r == RefreshFull(st, w) IN
     /\ LastOr(r.steps, st) # st
     /\ UpdS(r.steps, hv, net, [ev |-> "refresh", w |-> w])

\* cancel by log id (of the active account) or by slate id; refused cancels included
\* (kcls: the kind of entry the request names, judged after the refresh cancel_tx runs first - covered when behaviours are selected)
CancelCls(w, id, sl) ==
  LET s1 == RefreshLite(st, w)
      m == CancelMatches(s1, w, [id |-> id, sl |-> sl]) IN
  IF m = {} THEN "none" ELSE IF Cardinality(m) > 1 THEN "several"
  ELSE LET e == s1.w[w].txs[CHOOSE t \in m : TRUE] IN e.ty \o (IF e.conf THEN ":confirmed" ELSE ":unconfirmed")
CancelAct(w, id, sl) ==
  /\ LET r == Cancel(st, w, [id |-> id, sl |-> sl], TRUE) IN
     UpdS(r.steps, hv, net, [ev |-> "cancel", w |-> w, id |-> id, by |-> sl, mok |-> (r.res = "ok"), kcls |-> CancelCls(w, id, sl)])

\* accounts on w1
CreateAccountAct ==
  /\ "a1" \notin AllAccts(st, "w1")
  /\ Upd(LastOf(CreateAccount(st, "w1", [name |-> "a1", label |-> "acct1"]).steps), hv, net, [ev |-> "create_account", w |-> "w1", label |-> "acct1"])
SetActiveAct(a) ==
  /\ a \in AllAccts(st, "w1") /\ a # st.w["w1"].active
  /\ Upd(LastOf(SetActive(st, "w1", [label |-> IF a = "a0" THEN "default" ELSE "acct1"]).steps), hv, net,
         [ev |-> "set_active", w |-> "w1", label |-> IF a = "a0" THEN "default" ELSE "acct1"])

\* -- outputs built for the caller (owner::build_output): the key is handed out, nothing is stored
NBuilt == Cardinality({m \in net : m.stage = "BUILT"})
BuildOutputAct ==
  /\ NBuilt < 2
  /\ LET r == BuildOutput(st, "w1") IN
     UpdS(r.steps, [hv EXCEPT !.issued["w1"] = @ \cup {r.key}], net \cup {Msg("", "BUILT", NBuilt + 1, 0, "", 0)},
          [ev |-> "build_output", w |-> "w1", bkey |-> r.key])
\* a mwixnet swap request for an Unspent output of the active account, with or without reserving it
MwixReqAct(k, lock) ==
  /\ NBuilt < 2
  /\ k \in DOMAIN st.w["w1"].outs /\ st.w["w1"].outs[k].st = "Unspent" /\ st.w["w1"].outs[k].acct = st.w["w1"].active
  /\ LET r == MwixReq(st, "w1", [k |-> k, lock |-> lock]) IN
     UpdS(r.steps, [hv EXCEPT !.issued["w1"] = @ \cup {r.key}], net \cup {Msg("", "BUILT", NBuilt + 1, 0, "", 0)},
          [ev |-> "mwix_req", w |-> "w1", key |-> k, lock |-> lock, bkey |-> r.key, mok |-> (r.res = "ok")])

\* -- reorganisations, restore from seed, scan, injected divergences (C16, C18)
NFork == Cardinality({m \in net : m.stage = "FORK"})
ForkAct(d, keep) ==
  /\ Height(st) - d >= NFundAll + Maturity /\ Height(st) + 1 <= MaxH
  /\ NFork < 2
  /\ LET base == [st EXCEPT !.chain = SubSeq(st.chain, 1, Height(st) - d)]
         removed == UNION {st.chain[i].txs : i \in (Height(st) - d + 1)..Height(st)} IN
     /\ keep \subseteq removed
     /\ \A sl \in keep : st.body[sl].ins \subseteq Utxo(base)
     /\ \A a, b \in keep : a # b => st.body[a].ins \cap st.body[b].ins = {}
     /\ Upd(Fork(st, d, keep), hv, net \cup {Msg("", "FORK", NFork + 1, 0, "", 0)},
            [ev |-> "fork", depth |-> d, keep |-> keep])
RestoreAct ==
  /\ "w3" \notin DOMAIN st.w
  /\ Upd(Restore(st, "w3", "w1"),
         [hv EXCEPT !.lockedBy = Put(@, "w3", <<>>), !.done = Put(@, "w3", {}), !.issued = Put(@, "w3", {})], net,
         [ev |-> "restore", w |-> "w3", from |-> "w1"])
ScanAct(w, del) ==
  /\ LET r == Scan(st, w, 1, del) IN
     UpdS(r.steps, hv, net, [ev |-> "scan", w |-> w, start |-> 1, del |-> del])
NDiv == Cardinality({m \in net : m.stage = "DIV"})
DivergeAct(kind, k) ==
  /\ NDiv < 1
  /\ k \in DOMAIN st.w["w1"].outs
  /\ Diverge(st, "w1", kind, k) # st
  /\ Upd(Diverge(st, "w1", kind, k), hv, net \cup {Msg("", "DIV", 1, 0, "", 0)},
         [ev |-> "diverge", w |-> "w1", kind |-> kind, key |-> k])

\* -- adversarial use of the foreign API of w1 (C07); the number of adversarial
\* calls so far is kept as marker messages in `net`
AdvCount == Cardinality({m \in net : m.stage = "ADV"})
AdvMark == net \cup {Msg("", "ADV", AdvCount + 1, 0, "", 0)}
\* a bogus "reply": the S1 slate relabelled S2 (no counter-party signature)
ForeignFinalizeBogus(sl) ==
  /\ sl \in DOMAIN st.w["w1"].ctxs
  /\ \E m \in net : m.sl = sl /\ m.stage = "S1"
  /\ LET m == CHOOSE m \in net : m.sl = sl /\ m.stage = "S1"
         cx == st.w["w1"].ctxs[sl]
         sel == Select(st, "w1", cx.acct, cx.amt, Height(st), 1, 1)
         r == Finalize(st, "w1", [sl |-> sl, stage |-> "S2", rep |-> 0, rkern |-> "part", ttl |-> m.ttl, valid |-> FALSE, proofok |-> TRUE,
                                  hasproof |-> FALSE, rout |-> {}, lsel |-> sel.sel, lchg |-> ChgSeq(sel)])
         s2 == LastOr(r.steps, st) IN
     /\ cx.late.on => sel.ok
     /\ AdvCount < MaxAdv
     /\ Upd(s2, HvAfterFinalize(st, s2, hv, "w1", sl, FALSE), AdvMark,
            [ev |-> "finalize", w |-> "w1", sl |-> sl, stage |-> "S1", rep |-> 0, foreign |-> TRUE, tamper |-> "bogus"])
\* a genuine reply with the counter-party's partial signature removed (it carries the transaction body, so it gets
\* as far as the signature checks): refused, and a refusal leaves the pending transaction - its private context
\* included - alone
ForeignFinalizeNoSig(sl) ==
  /\ sl \in DOMAIN st.w["w1"].ctxs
  /\ \E m \in net : m.sl = sl /\ m.stage = "S2"
  /\ AdvCount < MaxAdv
  /\ LET m == CHOOSE m \in net : m.sl = sl /\ m.stage = "S2"
         cx == st.w["w1"].ctxs[sl]
         sel == Select(st, "w1", cx.acct, cx.amt, Height(st), 1, 1)
         r == Finalize(st, "w1", [sl |-> sl, stage |-> "S2", rep |-> m.rep, rkern |-> "rpart", ttl |-> m.ttl, valid |-> FALSE, proofok |-> TRUE,
                                  hasproof |-> FALSE, rout |-> {m.rout}, lsel |-> sel.sel, lchg |-> ChgSeq(sel)])
         s2 == LastOr(r.steps, st) IN
     /\ cx.late.on => (sel.ok /\ sel.fee = cx.fee)
     /\ Upd(s2, HvAfterFinalize(st, s2, hv, "w1", sl, FALSE), AdvMark,
            [ev |-> "finalize", w |-> "w1", sl |-> sl, stage |-> "S2", rep |-> m.rep, foreign |-> TRUE, tamper |-> "nosig"])
\* the same bogus reply claiming a cut-off height that has long passed: refused as expired,
\* and a refusal must leave the pending transaction (its private context included) alone
ForeignFinalizeExpired(sl) ==
  /\ sl \in DOMAIN st.w["w1"].ctxs
  /\ \E m \in net : m.sl = sl /\ m.stage = "S1"
  /\ AdvCount < MaxAdv
  /\ LET cx == st.w["w1"].ctxs[sl]
         r == Finalize(st, "w1", [sl |-> sl, stage |-> "S2", rep |-> 0, rkern |-> "part", ttl |-> 1, valid |-> FALSE, proofok |-> TRUE,
                                  hasproof |-> FALSE, rout |-> {}, lsel |-> {}, lchg |-> <<>>])
         s2 == LastOr(r.steps, st) IN
     Upd(s2, HvAfterFinalize(st, s2, hv, "w1", sl, FALSE), AdvMark,
         [ev |-> "finalize", w |-> "w1", sl |-> sl, stage |-> "S1", rep |-> 0, foreign |-> TRUE, tamper |-> "bogus_expired"])
\* a receive request that cannot be served (kernel features of a coinbase), naming a destination
\* account: refused - and a refusal leaves the wallet, the account it acts on included, as it was
ForeignReceiveBad(sl, dest) ==
  /\ \E m \in net : m.sl = sl /\ m.stage = "S1"
  /\ AdvCount < MaxAdv
  /\ (dest = "" \/ dest \in DOMAIN st.w["w1"].labels)
  \* (an expired slate is refused before anything else: no key is taken)
  /\ LET m == CHOOSE m \in net : m.sl = sl /\ m.stage = "S1"
         exp == m.ttl # 0 /\ st.w["w1"].idx[st.w["w1"].active].confh >= m.ttl IN
     Upd(IF exp THEN st ELSE BumpChild(st, "w1"), hv, AdvMark,
         [ev |-> "receive", w |-> "w1", sl |-> sl, dest |-> dest, tamper |-> "feat1", mok |-> FALSE])
\* a coinbase request naming the key of an existing record
ForeignCoinbaseKey(k) ==
  /\ k \in DOMAIN st.w["w1"].outs
  /\ AdvCount < MaxAdv
  /\ LET r == BuildCoinbase(st, "w1", [fees |-> 0, h |-> Height(st) + 1, key |-> k]) IN
     \* (kcls: what kind of record the request names - a class of situations to cover when behaviours are selected)
     Upd(LastOf(r.steps), hv, AdvMark, [ev |-> "build_coinbase", w |-> "w1", key |-> k, h |-> Height(st) + 1, fees |-> 0,
                                       kcls |-> st.w["w1"].outs[k].st \o (IF st.w["w1"].outs[k].cb THEN ":cb" ELSE ":plain")])
\* the victim's own S1 slate is delivered to its own foreign receive
ForeignReceiveOwn(sl) == AdvCount < MaxAdv /\ ReceiveAct("w1", sl)

Acting == IF QuietW2 THEN (DOMAIN st.w) \ {"w2"} ELSE DOMAIN st.w
Next ==
  \/ \E sl \in Slates, amt \in Amounts : InitSendAct(sl, amt, FALSE, 0, "")
  \/ UseLate /\ \E sl \in Slates, amt \in Amounts : InitSendAct(sl, amt, TRUE, 0, "")
  \/ UseTtl /\ \E sl \in Slates, amt \in Amounts : InitSendAct(sl, amt, FALSE, 1, "")
  \/ UseAccounts /\ (CreateAccountAct \/ \E a \in {"a0", "a1"} : SetActiveAct(a)
                     \/ \E sl \in Slates, amt \in Amounts : InitSendAct(sl, amt, FALSE, 0, "default"))
  \/ \E sl \in Slates : (~QuietW2 /\ ReceiveAct("w2", sl)) \/ PostAct(sl)
  \/ UseFarTtl /\ ~QuietW2 /\ \E sl \in Slates : ReceiveFarTtlAct("w2", sl)
  \/ UseSelf /\ \E sl \in Slates : ReceiveAct("w1", sl)
  \/ UseAccounts2 /\ (CreateAccount2Act \/ \E sl \in Slates : ReceiveActD("w2", sl, "acct1"))
  \/ \E sl \in Slates : \E m \in net : FinalizeAct(sl, m) \/ LockAct(sl, m)
  \/ UseInvoice /\ \E sl \in Slates : (\E amt \in Amounts : IssueInvoiceAct(sl, amt)) \/ ProcessInvoiceAct(sl, 0)
                                        \/ (UseTtl /\ ProcessInvoiceAct(sl, 1))
                                        \/ (UseTtl /\ \E tb \in {0, 1} : ProcessInvoiceExpiredAct(sl, tb))
                                        \/ \E m \in net : FinalizeInvoiceAct(sl, m)
  \/ MineAct("") \/ TickAct
  \/ UseMineTo /\ (MineAct("w1") \/ CandidateAct \/ MineReuseAct)
  \/ \E w \in Acting : RefreshAct(w)
  \/ MaxFork > 0 /\ \E d \in 1..MaxFork : \E keep \in SUBSET Mined(st) : ForkAct(d, keep)
  \/ UseScan /\ ((~UseSelf /\ RestoreAct) \/ \E w \in Acting : \E del \in BOOLEAN : ScanAct(w, del))
  \/ UseDiverge /\ \E kind \in {"delete", "spent", "unspent", "lock"} : \E k \in DOMAIN st.w["w1"].outs : DivergeAct(kind, k)
  \/ \E w \in WS \cap Acting : \E t \in DOMAIN st.w[w].txs :
        st.w[w].txs[t].acct = st.w[w].active /\ CancelAct(w, st.w[w].txs[t].id, "")
  \/ UseCancelBySlate /\ \E w \in WS \cap Acting, sl \in Slates : CancelAct(w, -1, sl)
  \/ UseAdv /\ \E sl \in Slates : ForeignFinalizeBogus(sl) \/ ForeignReceiveOwn(sl) \/ ForeignFinalizeExpired(sl) \/ ForeignFinalizeNoSig(sl)
  \/ UseAdv /\ \E k \in DOMAIN st.w["w1"].outs : ForeignCoinbaseKey(k)
  \/ UseAdv /\ \E sl \in Slates, dest \in {"", "acct1"} : ForeignReceiveBad(sl, dest)
  \/ UseBuild /\ (BuildOutputAct \/ \E k \in DOMAIN st.w["w1"].outs, lock \in BOOLEAN : MwixReqAct(k, lock))

Spec == Init /\ [][Next]_vars

\* ------------------------------------------------------------ constraints
Bound == \A w \in WS0 : /\ Cardinality(DOMAIN st.w[w].txs) <= MaxLog + (IF w = "w1" THEN NFundAll ELSE 0)
                        /\ Cardinality(DOMAIN st.w[w].outs) <= MaxLog + 1 + (IF w = "w1" THEN NFundAll ELSE 0)
View == <<st, hv, net>>

\* ------------------------------------------------------------- invariants
\* a violated invariant prints the history as a counter-example (replayed on the
\* real code by the runner before anything is reported) and fails
\* (soft: TLC goes on, the runner collects the CEX lines - with -continue TLC would dump a
\* full error trace per violation, which is far too slow when a defect is reachable often)
Cex(name) == PrintT(<<"CEX", ToJson([inv |-> name, hist |-> hist])>>)
Inv_Exclusive == IF ExclusiveReservation(st, hv) /\ OneLiveEntryPerSlate(st) THEN TRUE ELSE Cex("ExclusiveReservation")
\* (not in configurations with injected divergences or forks: those are repaired by a scan)
Inv_Held == IF \A w \in Wallets(st) : ReservationHeld(st, hv, w) THEN TRUE ELSE Cex("ReservationHeld")
\* C06: every state a crash can leave behind (after each persistent effect of the last
\* operation) is consistent
Inv_Crash == IF \A i \in DOMAIN mids : \A w \in DOMAIN mids[i].w : CrashConsistent(mids[i], w) THEN TRUE ELSE Cex("CrashConsistent")
TypeOK == \A w \in DOMAIN st.w : \A k \in DOMAIN st.w[w].outs : st.w[w].outs[k].st \in Statuses

\* action properties: evaluated on every transition; the event is the last
\* record of hist'.  A failure prints the history as a counter-example.
CexA(name) == PrintT(<<"CEX", ToJson([inv |-> name, hist |-> hist'])>>)
Ev == LastOf(hist')
Stepped == Len(hist') > Len(hist)
ChkA(c, name) == IF c THEN TRUE ELSE CexA(name)

Prop_Replay ==
  [][Stepped /\ Ev.ev \in {"lock", "receive", "finalize"} =>
       ChkA(ReplayNoEffectA(st, st', hv, Ev.w, Ev.ev, Ev.sl, "ok",
                            IF Ev.ev = "receive" THEN AcctOf(st, Ev.w, Ev.dest) ELSE ""), "ReplayNoEffect")]_vars
Prop_NoReverted == [][Stepped => ChkA(NoRevertedSelected(st, st', Ev.ev = "finalize"), "NeverSelectsReverted")]_vars
Prop_FinalizeOwn ==
  [][Stepped /\ Ev.ev = "finalize" /\ Ev.w = "w1" /\ Ev.stage = "S2" /\ "mok" \in DOMAIN Ev /\ Ev.mok =>
       ChkA(FinalizeOwnReservation(st', "w1", Ev.sl), "FinalizeOwnReservation")]_vars
Prop_SelectAvoidsReserved ==
  [][Stepped /\ Ev.ev \in {"init_send", "process_invoice"} =>
       ChkA(SelectAvoidsReserved(st, st', Ev.w, Ev.sl), "SelectAvoidsReserved")]_vars

\* C05
Prop_Cancel ==
  [][Stepped /\ Ev.ev = "cancel" =>
       LET w == Ev.w
           a == [id |-> Ev.id, sl |-> Ev.by]
           rf == RefreshFull(st, w)
           mid == LastOr(rf.steps, st)
           r == CancelBody(mid, w, a)
           m == CancelMatches(mid, w, a) IN
       IF rf.res # "ok" THEN TRUE
       ELSE IF r.res = "ok"
       THEN ChkA(CancelIsRollback(mid, st', w, CHOOSE t \in m : TRUE), "CancelIsRollback")
       ELSE ChkA(st'.w[w] = mid.w[w], "CancelRefusedUnchanged")]_vars

\* C07: foreign calls that are not a valid reply only add
Prop_Foreign ==
  [][Stepped /\ (Ev.ev = "receive" \/ Ev.ev = "build_coinbase" \/ (Ev.ev = "finalize" /\ "foreign" \in DOMAIN Ev)) =>
       ChkA(ForeignOnlyAdds(st, st', Ev.w, IF Ev.ev = "build_coinbase" THEN Ev.key ELSE ""), "ForeignOnlyAdds")]_vars

\* C15: a key handed to a NEW output was never handed out before
Prop_Paths ==
  [][Stepped /\ Ev.ev \in {"receive", "issue_invoice", "init_send", "process_invoice", "mine", "build_coinbase", "build_output", "mwix_req"} =>
       \A w \in WS :
         LET newK == (KeysOf(st', w) \ KeysOf(st, w))
                     \cup (IF "bkey" \in DOMAIN Ev /\ Ev.w = w /\ Ev.bkey # "" THEN {Ev.bkey} ELSE {}) IN
         ChkA(\A k \in newK : PathFresh(hv, w, k), "PathsUnique")]_vars

\* C04: after a successful refresh the books of the active account equal the chain
\* (for histories without cancel-after-broadcast; there are no forks in this model)
DirtyNow(s, w) == \E t \in DOMAIN s.w[w].txs :
                    /\ s.w[w].txs[t].ty \in {"TxSentCancelled", "TxReceivedCancelled"}
                    /\ s.w[w].txs[t].slate \in (s.pool \cup Mined(s)) \cap DOMAIN s.body
BooksOK(s, w) ==
  LET a == s.w[w].active
      mine == {k \in OutsOfAcct(s, w, a) : s.w[w].outs[k].st \in {"Unspent", "Locked"}}
      u == Utxo(s)
      T == {t \in DOMAIN s.w[w].txs : s.w[w].txs[t].acct = a /\ s.w[w].txs[t].conf}
      bal == SumF([k \in mine |-> s.w[w].outs[k].v], mine) IN
  /\ \A k \in mine : OID(s, w, k) \in u
  /\ \A k \in OutsOfAcct(s, w, a) : (OID(s, w, k) \in u /\ s.w[w].outs[k].st # "Unconfirmed") => k \in mine
  /\ SumF([t \in T |-> s.w[w].txs[t].cr], T) - SumF([t \in T |-> s.w[w].txs[t].db], T) = bal
\* (Appendix B "Reserved means reserved by the wallet": a broadcast transaction that spends an output of the wallet
\*  without the wallet having logged it as a sent transaction of its own - tx_lock_outputs was never called for it -
\*  takes the wallet out of the scope of C04, as in the trace spec's PostDirty)
UnloggedSpend(s, w) ==
  \E sl \in (s.pool \cup Mined(s)) \cap DOMAIN s.body :
     /\ \E k \in DOMAIN s.w[w].outs : OID(s, w, k) \in s.body[sl].ins
     /\ ~\E t \in DOMAIN s.w[w].txs : s.w[w].txs[t].slate = sl /\ s.w[w].txs[t].ty \in {"TxSent", "TxSentCancelled"}
Prop_Books ==
  [][Stepped /\ Ev.ev = "refresh" /\ ~UnloggedSpend(st', Ev.w)
       \* (... nor having reserved only AFTER the transaction was broadcast)
       /\ ~(\E i, j \in 1..Len(hist') : i < j /\ hist'[i].ev = "post" /\ hist'[j].ev = "lock" /\ hist'[j].sl = hist'[i].sl)
       /\ ~(\E i \in 1..Len(hist') : hist'[i].ev \in {"cancel", "fork", "diverge", "restore", "scan"}) =>
       ChkA(BooksOK(st', Ev.w), "BooksEqualChain")]_vars
\* account isolation: a step with source account a changes no output of another account
Prop_Isolation ==
  [][Stepped /\ Ev.ev \in {"init_send", "lock", "finalize", "cancel", "process_invoice"} /\ Ev.w = "w1" =>
       LET a == IF Ev.ev = "init_send" THEN AcctOf(st, "w1", Ev.src) ELSE
                IF "sl" \in DOMAIN Ev /\ Ev.sl \in DOMAIN st.w["w1"].ctxs THEN st.w["w1"].ctxs[Ev.sl].acct
                ELSE st.w["w1"].active IN
       ChkA(\A k \in DOMAIN st.w["w1"].outs :
              (st.w["w1"].outs[k].acct # a /\ st.w["w1"].outs[k].acct # st.w["w1"].active)
                 => (k \in DOMAIN st'.w["w1"].outs /\ st'.w["w1"].outs[k].st = st.w["w1"].outs[k].st),
            "AccountIsolation")]_vars

\* C16 / C18: what a scan must achieve, on the model
Prop_Scan ==
  [][Stepped /\ Ev.ev = "scan" =>
       LET w == Ev.w  u == Utxo(st')
           prevScan == Len(hist) >= 1 /\ LastOf(hist).ev = "scan" /\ LastOf(hist).w = w /\ LastOf(hist).del = Ev.del IN
       /\ ChkA(ScanEqualsTruth(st', w, u, Ev.del, Height(st')), "ScanEqualsTruth")
       /\ ChkA(RevertedReported(st, st', w, u), "RevertedReported")
       /\ prevScan => ChkA([st'.w[w] EXCEPT !.scanned = 0] = [st.w[w] EXCEPT !.scanned = 0], "ScanIdempotent")
       /\ (w = "w3" /\ ~\E i \in 1..Len(hist) : hist[i].ev \in {"scan", "refresh"} /\ hist[i].w = "w3")
             => ChkA(RestoredExact(st', w, u, LAMBDA o : HeightOfOut(st', o)), "RestoredExact")]_vars
Prop_RevertedRestored ==
  [][Stepped /\ Ev.ev = "refresh" => ChkA(RevertedRestored(st, st', Ev.w, Utxo(st')), "RevertedRestored")]_vars

\* C17
Prop_Ttl ==
  [][Stepped =>
       /\ (Ev.ev \in {"receive", "finalize", "process_invoice"}) =>
            LET ms == {m \in net : m.sl = Ev.sl}
                ttl == IF ms = {} THEN 0 ELSE (CHOOSE m \in ms : TRUE).ttl IN
            (MustRefuseTtl(st, Ev.w, ttl) /\ (Ev.ev # "finalize" \/ Ev.sl \in DOMAIN st.w[Ev.w].ctxs))
               => ChkA(st'.w[Ev.w] = st.w[Ev.w], "ExpiredRefused")
       /\ (Ev.ev = "refresh") =>
            LET w == Ev.w
                exp == {t \in Outstanding(st, w, st.w[w].active) :
                          st.w[w].txs[t].ttl # 0 /\ Height(st) >= st.w[w].txs[t].ttl} IN
            ChkA(\A t \in exp : st'.w[w].txs[t].conf \/ st'.w[w].txs[t].ty \in {"TxSentCancelled", "TxReceivedCancelled"},
                 "ExpiredReleased")]_vars

\* ------------------------------------------------------------- generation
\* every generated transition prints the history that ends with it - also the
\* transitions whose successor is a state already seen (refused replays, failed
\* locks: the steps that matter most for C03 leave the state unchanged)
EmitEdges == [][PrintT(<<"REPLAY", ToJson(hist')>>)]_vars
=============================================================================
