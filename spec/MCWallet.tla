------------------------------ MODULE MCWallet ------------------------------
(***************************************************************************)
(* Bounded model of two wallets exchanging transactions over a shared      *)
(* chain, built from the step operators of Wallet.tla.  One spec, several  *)
(* configs (MC_C03.cfg, MC_C05.cfg, ...) that differ in constants and in   *)
(* which invariants / action properties are checked.  `hist` records the   *)
(* behaviour for replay on the real code and is hidden by the VIEW.        *)
(***************************************************************************)
EXTENDS WalletProps, SequencesExt, Json

CONSTANTS Slates,        \* slate names, e.g. {"s1","s2"}
          Amounts,       \* amounts a sender may ask for
          NFund,         \* number of coinbase outputs w1 starts with
          MaxH,          \* chain height bound
          MaxLog,        \* bound on log entries per wallet (state constraint)
          UseLate,       \* allow late-locked sends
          UseTtl,        \* allow a TTL of +1 block on sends
          UseInvoice     \* allow invoice flows

VARIABLES st, hv, net, hist
vars == <<st, hv, net, hist>>
WS == {"w1", "w2"}

\* ---------------------------------------------------------------- init
Empty == [w |-> [w \in WS |-> [EmptyWallet({"a0"}) EXCEPT !.seed = w]], chain |-> <<>>, pool |-> {}, body |-> <<>>, reg |-> <<>>, nrep |-> <<>>]

FeesOf(s, txs) == SumF([sl \in txs |-> s.body[sl].fee], txs)
MineTo(s, w, txs) ==
  LET bc == BuildCoinbase(s, w, [fees |-> FeesOf(s, txs), h |-> Height(s) + 1, key |-> ""])
  IN MineBlock(LastOf(bc.steps), OID(s, w, bc.key), txs)
MineForeign(s, txs) == MineBlock(s, "", txs)

\* Refresh as the harness performs it between protocol steps: Refresh1 on the
\* active account followed by kernel confirmation of outstanding entries.
RefreshLite(s, w) == LET r == RefreshFull(s, w) IN LastOr(r.steps, s)

RECURSIVE Fund(_, _)
Fund(s, n) == IF n = 0 THEN s ELSE Fund(MineTo(s, "w1", {}), n - 1)
\* NFund blocks to w1, then Maturity foreign blocks so that everything is mature
RECURSIVE Pad(_, _)
Pad(s, n) == IF n = 0 THEN s ELSE Pad(MineForeign(s, {}), n - 1)
InitWorld == RefreshLite(RefreshLite(Pad(Fund(Empty, NFund), Maturity), "w1"), "w2")

Init == /\ st = InitWorld
        /\ hv = EmptyHist(WS)
        /\ net = {}
        /\ hist = <<>>

\* ------------------------------------------------- selection (smallest first)
\* simplified transcription of select_coins_and_fee for use_all = FALSE and
\* max_outputs >= number of eligible outputs; Selection.tla has the full one
SortedElig(s, w, a, H, m) ==
  SortSeq(AnySeq(EligibleKeys(s, w, a, H, m)),
          LAMBDA x, y : s.w[w].outs[x].v < s.w[w].outs[y].v)
\* ties: MC configs use distinct values
RECURSIVE TakeWhile(_, _, _, _, _)
TakeWhile(vals, keys, i, acc, target) ==
  IF i > Len(keys) \/ acc >= target THEN {}
  ELSE {keys[i]} \cup TakeWhile(vals, keys, i + 1, acc + vals[keys[i]], target)
SelectFrom(s, w, keys, target) ==
  LET vals == [k \in RangeOf(keys) |-> s.w[w].outs[k].v]
      tot  == SumF(vals, RangeOf(keys)) IN
  IF tot >= target THEN TakeWhile(vals, keys, 1, 0, target) ELSE RangeOf(keys)
RECURSIVE SelLoop(_, _, _, _, _, _, _)
SelLoop(s, w, keys, coins, amt, nchg, fuel) ==
  LET vals == [k \in RangeOf(keys) |-> s.w[w].outs[k].v]
      total == SumF(vals, coins)
      fee == Fee(Cardinality(coins), nchg + 1, 1)
      awf == amt + fee IN
  IF total >= awf THEN [ok |-> TRUE, sel |-> coins, fee |-> fee, chg |-> total - awf]
  ELSE IF Cardinality(coins) = Len(keys) \/ fuel = 0 THEN [ok |-> FALSE, sel |-> {}, fee |-> 0, chg |-> 0]
  ELSE SelLoop(s, w, keys, SelectFrom(s, w, keys, awf), amt, nchg, fuel - 1)
Select(s, w, a, amt, H, m, nchg) ==
  LET keys == SortedElig(s, w, a, H, m)
      vals == [k \in RangeOf(keys) |-> s.w[w].outs[k].v]
      coins == SelectFrom(s, w, keys, amt)
      total == SumF(vals, coins)
      fee0 == Fee(Cardinality(coins), 1, 1) IN
  IF total = 0 THEN [ok |-> FALSE, sel |-> {}, fee |-> 0, chg |-> 0]
  ELSE IF total < amt + fee0 /\ Cardinality(coins) = Len(keys) THEN [ok |-> FALSE, sel |-> {}, fee |-> 0, chg |-> 0]
  ELSE IF total = amt + fee0 THEN [ok |-> TRUE, sel |-> coins, fee |-> fee0, chg |-> 0]
  ELSE SelLoop(s, w, keys, coins, amt, nchg, Len(keys) + 1)

\* ------------------------------------------------------------- bookkeeping
Log(e) == hist' = Append(hist, e)
Done(w, kind, sl) == [hv EXCEPT !.done[w] = @ \cup {<<kind, sl>>}]

\* ------------------------------------------------------------------ actions
\* -- sender w1 initiates a send of amt to w2 (1 change output, min conf 1)
InitSendAct(sl, amt, late, ttlb) ==
  /\ sl \notin DOMAIN st.w["w1"].ctxs
  /\ ~\E m \in net : m.sl = sl
  /\ LET r1  == Refresh1(st, "w1", "a0", FALSE)
         sel == Select(r1, "w1", "a0", amt, Height(st), 1, 1)
         ttl == IF ttlb = 0 THEN 0 ELSE Height(st) + ttlb
         args == [sl |-> sl, src |-> "", amt |-> amt, sel |-> sel.sel,
                  chg |-> IF sel.chg = 0 THEN <<>> ELSE <<sel.chg>>, fee |-> sel.fee,
                  late |-> late, incfee |-> FALSE, ttl |-> ttl, proof |-> FALSE,
                  minconf |-> 1, maxouts |-> 500, nchange |-> 1, useall |-> FALSE]
     IN /\ sel.ok
        /\ LET r == InitSend(st, "w1", args) IN
           /\ st' = LastOf(r.steps)
           /\ net' = net \cup {[sl |-> sl, stage |-> "S1", amt |-> amt, ttl |-> ttl, rout |-> "", rep |-> 0]}
           /\ hv' = hv
           /\ Log([ev |-> "init_send", w |-> "w1", sl |-> sl, amt |-> amt, late |-> late, ttlb |-> ttlb])

LockAct(sl, m) ==
  /\ sl \in DOMAIN st.w["w1"].ctxs
  /\ ~st.w["w1"].ctxs[sl].late.on
  /\ m \in net /\ m.sl = sl
  /\ LET r == Lock(st, "w1", [sl |-> sl, stage |-> m.stage, ttl |-> m.ttl, hasproof |-> FALSE]) IN
     /\ st' = LastOr(r.steps, st)
     /\ hv' = IF r.res = "ok" THEN HvAfterLock(st, LastOf(r.steps), hv, "w1", sl) ELSE hv
     /\ UNCHANGED net
     /\ Log([ev |-> "lock", w |-> "w1", sl |-> sl, stage |-> m.stage, rep |-> m.rep])

ReceiveAct(sl) ==
  /\ \E m \in net : m.sl = sl /\ m.stage = "S1"
  /\ LET m == CHOOSE m \in net : m.sl = sl /\ m.stage = "S1"
         r == Receive(st, "w2", [sl |-> sl, dest |-> "", amt |-> m.amt, ttl |-> m.ttl,
                                 hasproof |-> FALSE, kernin |-> "part"]) IN
     IF r.res = "ok"
     THEN /\ st' = LastOf(r.steps)
          /\ net' = net \cup {[sl |-> sl, stage |-> "S2", amt |-> m.amt, ttl |-> m.ttl, rout |-> OID(st, "w2", r.key), rep |-> r.rep]}
          /\ hv' = HvAfterReceive(st, LastOf(r.steps), hv, "w2", sl)
          /\ Log([ev |-> "receive", w |-> "w2", sl |-> sl])
     ELSE /\ UNCHANGED <<st, net, hv>>
          /\ Log([ev |-> "receive", w |-> "w2", sl |-> sl])

FinalizeAct(sl, m) ==
  /\ m \in net /\ m.sl = sl /\ m.stage = "S2"
  /\ sl \in DOMAIN st.w["w1"].ctxs
  /\ LET cx == st.w["w1"].ctxs[sl]
         late == cx.late.on
         sel == Select(st, "w1", "a0", cx.amt, Height(st), 1, 1)
         r == Finalize(st, "w1", [sl |-> sl, stage |-> "S2", rep |-> m.rep, ttl |-> m.ttl, valid |-> TRUE, proofok |-> TRUE,
                                  hasproof |-> FALSE, rout |-> {m.rout},
                                  lsel |-> sel.sel, lchg |-> IF sel.chg = 0 THEN <<>> ELSE <<sel.chg>>]) IN
     /\ late => (sel.ok /\ sel.fee = cx.fee)
     /\ st' = LastOr(r.steps, st)
     /\ hv' = HvAfterFinalize(st, LastOr(r.steps, st), hv, "w1", sl, r.res = "ok")
     /\ UNCHANGED net
     /\ Log([ev |-> "finalize", w |-> "w1", sl |-> sl, rep |-> m.rep])

PostAct(sl) ==
  /\ sl \in DOMAIN st.body /\ sl \notin st.pool /\ sl \notin Mined(st)
  /\ st' = Post(st, sl)
  /\ UNCHANGED <<hv, net>>
  /\ Log([ev |-> "post", sl |-> sl])

\* a foreign miner mines a block including every pool transaction still valid
\* (pairwise conflicting ones: first by CHOOSE)
RECURSIVE PickValid(_, _, _)
PickValid(s, cands, acc) ==
  IF cands = {} THEN acc
  ELSE LET sl == CHOOSE x \in cands : TRUE IN
       IF s.body[sl].ins \subseteq Utxo(s) /\ \A y \in acc : s.body[sl].ins \cap s.body[y].ins = {}
       THEN PickValid(s, cands \ {sl}, acc \cup {sl}) ELSE PickValid(s, cands \ {sl}, acc)
MineAct ==
  /\ Height(st) < MaxH
  /\ st.pool # {}
  /\ LET txs == PickValid(st, st.pool, {}) IN
     /\ st' = MineForeign(st, txs)
     /\ UNCHANGED <<hv, net>>
     /\ Log([ev |-> "mine", txs |-> txs])
TickAct ==   \* an empty block, only while a TTL is pending
  /\ Height(st) < MaxH
  /\ \E m \in net : m.ttl # 0 /\ m.ttl > Height(st)
  /\ st' = MineForeign(st, {})
  /\ UNCHANGED <<hv, net>>
  /\ Log([ev |-> "mine", txs |-> {}])

RefreshAct(w) ==
  /\ st' = RefreshLite(st, w)
  /\ st' # st
  /\ UNCHANGED <<hv, net>>
  /\ Log([ev |-> "refresh", w |-> w])

CancelAct(w, t) ==
  /\ t \in DOMAIN st.w[w].txs
  /\ st.w[w].txs[t].acct = st.w[w].active
  /\ LET r == Cancel(st, w, [id |-> st.w[w].txs[t].id, sl |-> ""], TRUE) IN
     /\ r.res = "ok"
     /\ st' = LastOf(r.steps)
     /\ UNCHANGED <<hv, net>>
     /\ Log([ev |-> "cancel", w |-> w, id |-> st.w[w].txs[t].id])

Next ==
  \/ \E sl \in Slates, amt \in Amounts : InitSendAct(sl, amt, FALSE, 0)
  \/ UseLate /\ \E sl \in Slates, amt \in Amounts : InitSendAct(sl, amt, TRUE, 0)
  \/ UseTtl /\ \E sl \in Slates, amt \in Amounts : InitSendAct(sl, amt, FALSE, 1)
  \/ \E sl \in Slates : ReceiveAct(sl) \/ PostAct(sl)
  \/ \E sl \in Slates : \E m \in net : FinalizeAct(sl, m) \/ LockAct(sl, m)
  \/ MineAct \/ TickAct
  \/ \E w \in WS : RefreshAct(w)
  \/ \E w \in WS : \E t \in DOMAIN st.w[w].txs : CancelAct(w, t)

Spec == Init /\ [][Next]_vars

\* ------------------------------------------------------------ constraints
Bound == \A w \in WS : Cardinality(DOMAIN st.w[w].txs) <= MaxLog + (IF w = "w1" THEN NFund ELSE 0)
View == <<st, hv, net>>

\* ------------------------------------------------------------- invariants
\* a violated invariant prints the history as a counter-example (replayed on the
\* real code by the runner before anything is reported) and fails
Cex(name) == PrintT(<<"CEX", ToJson([inv |-> name, hist |-> hist])>>) /\ FALSE
Inv_Exclusive == IF ExclusiveReservation(st, hv) THEN TRUE ELSE Cex("ExclusiveReservation")
TypeOK == \A w \in WS : \A k \in DOMAIN st.w[w].outs : st.w[w].outs[k].st \in Statuses

\* action properties
Prop_Replay ==
  [][\A w \in WS : \A sl \in Slates : \A kind \in {"lock", "receive", "finalize"} :
       (Len(hist') > Len(hist) /\ LastOf(hist').ev = kind /\ LastOf(hist').sl = sl /\ LastOf(hist').w = w)
          => ReplayNoEffect(st, st', hv, w, kind, sl, "ok")]_vars

\* ------------------------------------------------------------- generation
\* every generated transition prints the history that ends with it - also the
\* transitions whose successor is a state already seen (refused replays, failed
\* locks: the steps that matter most for C03 leave the state unchanged)
EmitEdges == [][PrintT(<<"REPLAY", ToJson(hist')>>)]_vars
=============================================================================
