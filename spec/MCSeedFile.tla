----------------------------- MODULE MCSeedFile -----------------------------
(***************************************************************************)
(* Bounded model of the seed-file life cycle (SeedFile.tla) for TLC:       *)
(*  - small-step execution of create_wallet / change_password /            *)
(*    recover_from_mnemonic with Crash, Torn (crash inside the write) and  *)
(*    Fail (the file operation returns Err) at EVERY hook point, at most   *)
(*    one injection per call, up to MaxOps calls in a row (what a user     *)
(*    does after an interrupted call is part of the history);              *)
(*  - the C12 seed properties as invariants of every reachable file state  *)
(*    (i.e. also of every state between two file operations) and as action *)
(*    properties of every finished call;                                   *)
(*  - GEN: every complete history (calls with their injection) is printed  *)
(*    as JSON for harness/src/bin/replay_seed, which runs it on the real   *)
(*    DefaultLCProvider with the hook registry.                            *)
(* Seeds and passwords are named in order of first use ("s0","s1",..;      *)
(* "p0","p1",..): a symmetry reduction; the harness maps the names to      *)
(* concrete seeds (16..32 bytes) and passwords (empty, ASCII, unicode,     *)
(* 1 KiB) in every rotation.                                               *)
(***************************************************************************)
EXTENDS SeedFile, Json

CONSTANTS MaxOps, MaxSeeds, MaxPws,
          FirstOk    \* TRUE: histories start with an undisturbed create from a phrase (deeper histories at equal cost)

VARIABLES fs,      \* the files
          run,     \* the call in progress
          must,    \* property history: recoverability obligations (SeedFile.tla)
          legit,   \* property history: (seed, pw) pairs ever asked to be sealed
          m4,      \* seeds known to have a mnemonic-compatible length
          ns, np,  \* number of seed / password names introduced so far
          hist     \* finished calls: op + inj + res + hits
vars == <<fs, run, must, legit, m4, ns, np, hist>>

SeedName(i) == "s" \o ToString(i)
PwName(i)   == "p" \o ToString(i)
AllPws      == {PwName(i) : i \in 0..(MaxPws - 1)}
MinOf(a, b) == IF a < b THEN a ELSE b
PwChoices(n)   == {PwName(i) : i \in 0..MinOf(n, MaxPws - 1)}
BumpP(n, p)    == IF p = PwName(n) THEN n + 1 ELSE n
\* seeds that can be typed as a phrase: known mnemonic-compatible ones and a fresh one
PhraseSeeds == {s \in {SeedName(i) : i \in 0..MinOf(ns, MaxSeeds - 1)} : s \in m4 \/ s = SeedName(ns)}
BumpS(s)    == IF s = SeedName(ns) THEN ns + 1 ELSE ns

Idle == [on |-> FALSE, op |-> NoOp, loc |-> Loc0, inj |-> NoInj, pre |-> EmptyDir]
EvRec(op, inj, res, hits) ==
  [ev |-> op.ev, seed |-> op.seed, pw |-> op.pw, phrase |-> op.phrase, len4 |-> op.len4, valid |-> op.valid,
   old |-> op.old, new |-> op.new, inj |-> inj, res |-> res, hits |-> hits]

Init == /\ fs = EmptyDir /\ run = Idle /\ must = {} /\ legit = {} /\ m4 = {} /\ ns = 0 /\ np = 0 /\ hist = <<>>

\* the calls a user can make next: <<op, ns', np', m4'>>
Calls ==
     {<<OpCreate(SeedName(ns), p, FALSE, l4), ns + 1, BumpP(np, p), IF l4 THEN m4 \cup {SeedName(ns)} ELSE m4>> :
         p \in PwChoices(np), l4 \in (IF ns < MaxSeeds THEN BOOLEAN ELSE {})}
\cup {<<OpCreate(s, p, TRUE, TRUE), BumpS(s), BumpP(np, p), m4 \cup {s}>> : s \in PhraseSeeds, p \in PwChoices(np)}
\cup {<<OpRecover(s, p, TRUE), BumpS(s), BumpP(np, p), m4 \cup {s}>> : s \in PhraseSeeds, p \in PwChoices(np)}
\cup {<<OpRecover("", p, FALSE), ns, BumpP(np, p), m4>> : p \in PwChoices(np)}
\cup UNION {{<<OpChpw(o, n), ns, BumpP(BumpP(np, o), n), m4>> : n \in PwChoices(BumpP(np, o))} : o \in PwChoices(np)}

Finish(op, inj, r, c1, pre) ==
  /\ fs' = r.fs /\ run' = Idle
  /\ must' = MustEnd(c1, pre, op, r.res)
  /\ hist' = Append(hist, EvRec(op, inj, r.res, r.loc.hits))

Begin ==
  /\ ~run.on /\ Len(hist) < MaxOps
  /\ \E c \in {x \in Calls : (FirstOk /\ Len(hist) = 0) => (x[1].ev = "create" /\ x[1].phrase)} :
       LET op == c[1]
           r  == Start(fs, op, c[4])
           c1 == MustBegin(must, fs, op) IN
       /\ ns' = c[2] /\ np' = c[3] /\ m4' = c[4]
       /\ legit' = LegitAfter(legit, op)
       /\ IF r.res = "run"
          THEN /\ fs' = r.fs /\ must' = c1 /\ hist' = hist
               /\ run' = [on |-> TRUE, op |-> op, loc |-> r.loc, inj |-> NoInj, pre |-> fs]
          ELSE Finish(op, NoInj, r, c1, fs)

Modes == {"go", "fail", "crash", "torn"}
Step ==
  /\ run.on
  /\ \E mode \in Modes :
       /\ (mode # "go") => run.inj.kind = "none"              \* one injection per call
       /\ (FirstOk /\ Len(hist) = 0) => mode = "go"
       /\ (mode = "torn") => run.loc.pc \in WritePcs
       /\ LET r   == At(fs, run.loc, run.op, mode)
              inj == IF mode = "go" THEN run.inj ELSE [kind |-> mode, k |-> Len(run.loc.hits)] IN
          IF r.res = "run"
          THEN /\ fs' = r.fs /\ run' = [run EXCEPT !.loc = r.loc, !.inj = inj]
               /\ UNCHANGED <<must, hist>>
          ELSE Finish(run.op, inj, r, must, run.pre)
  /\ UNCHANGED <<legit, m4, ns, np>>

Next == Begin \/ Step
Spec == Init /\ [][Next]_vars

\* ---------------------------------------------------------------- checks
\* a violated check prints the history that leads to it (the in-flight call as
\* "crash here") so that the runner can replay it on the real code
CexHist == IF run.on THEN Append(hist, EvRec(run.op, IF run.inj.kind = "none"
                                                      THEN [kind |-> "crash", k |-> Len(run.loc.hits)] ELSE run.inj,
                                              "crash", run.loc.hits))
           ELSE hist
Cex(name) == PrintT(<<"CEX", ToJson([inv |-> name, hist |-> CexHist])>>) /\ FALSE
Inv_Recoverable == IF SeedRecoverable(fs, must) THEN TRUE ELSE Cex("SeedRecoverable")
Inv_OpenSound   == IF OpenSound(fs, legit, AllPws) THEN TRUE ELSE Cex("WrongPwIsError")
TypeOK == /\ \A f \in FileNames : fs[f].k \in {"absent", "partial", "sealed"}
          /\ run.on => run.loc.pc \notin {"start", "done"}

CexA(name) == PrintT(<<"CEX", ToJson([inv |-> name, hist |-> hist'])>>) /\ FALSE
Finished == Len(hist') > Len(hist)
LastEv == hist'[Len(hist')]
PreFs == IF run.on THEN run.pre ELSE fs
LastOp == [NoOp EXCEPT !.ev = LastEv.ev, !.seed = LastEv.seed, !.pw = LastEv.pw, !.old = LastEv.old, !.new = LastEv.new]
Prop_Completed == [][Finished => (IF CompletedEffect(PreFs, fs', LastOp, LastEv.res) THEN TRUE ELSE CexA("CompletedEffect"))]_vars
Prop_WrongPwRefused == [][Finished => (IF WrongPwRefused(PreFs, fs', LastOp, LastEv.res) THEN TRUE ELSE CexA("WrongPwRefused"))]_vars

\* GEN: every complete history
EmitSched == [][(Finished /\ Len(hist') = MaxOps) => PrintT(<<"SCHED", ToJson(hist')>>)]_vars
=============================================================================
