-------------------------- MODULE CodecRoundTrip --------------------------
(***************************************************************************)
(* C08  Slate and slatepack encodings round-trip and agree with each other *)
(*                                                                         *)
(* Pure (constant-level) operators.  Transcribed from the pinned commit:   *)
(*   libwallet/src/slate.rs                 From<&Slate> for SlateV4,      *)
(*                                          From<SlateV4> for Slate,       *)
(*                                          tx_from_slate_v4               *)
(*   libwallet/src/slate_versions/v4.rs     serde attributes (JSON)        *)
(*   libwallet/src/slate_versions/v4_bin.rs SlateV4Bin Writeable/Readable  *)
(*   libwallet/src/slatepack/{types,packer,armor,address}.rs               *)
(*   util/src/ov3.rs, libwallet/src/types.rs (stored records)              *)
(*                                                                         *)
(* Used three ways (DESIGN.md 1): MCCodecRoundTrip.tla model-checks the    *)
(* properties over enumerated abstract slates and prints the cases (GEN);  *)
(* harness/src/bin/replay_codec runs every case through the real encoders  *)
(* and decoders; TraceCodecRoundTrip.tla evaluates the SAME predicates     *)
(* (Layer P) on the observed results, and compares the observed results    *)
(* with what the operators below predict (Layer M).                        *)
(*                                                                         *)
(* The model is code-shaped: where the code loses information the model    *)
(* loses it too (BinStatus uses the masked fee, the lock height is only    *)
(* written for feat = 2), so the properties FAIL IN THE MODEL exactly      *)
(* where they fail in the code.                                            *)
(*                                                                         *)
(* Deliberate abstractions (named):                                        *)
(*  Abs_Material   key/commitment/proof/signature bytes, the uuid and the  *)
(*                 offset value are not modelled; the harness records a    *)
(*                 hash of that material and the trace spec requires it    *)
(*                 unchanged (field "h").                                  *)
(*  Abs_Tags       64-bit integers are the tags 0, 1, 2^32, 2^40, 2^64-1   *)
(*                 (TLC integers are 32 bit); the only arithmetic the code *)
(*                 does on them is "= 0" and "low 40 bits = 0".            *)
(*  Abs_Counts     the commitment list stays below its u16 binary count.   *)
(*                 The u8 count of the participant list IS modelled        *)
(*                 (CountU8, Havoc_Misparse below).                        *)
(*  Abs_Age        age encryption is Enc(R, plaintext), opened by k iff    *)
(*                 k \in R.                                                *)
(***************************************************************************)
EXTENDS Naturals, Sequences, FiniteSets, TLC

\* ------------------------------------------------------------- domains ---
Tags      == {"0", "1", "P32", "P40", "MAX"}     \* Abs_Tags
NoArg     == "none"                              \* Option::None of feat_args
IsZero(t) == t = "0"
\* FeeFields::fee() = value & (2^40 - 1): zero for 0 and for 2^40
FeeLowZero(t) == t \in {"0", "P40"}

StateSet == {"NA", "S1", "S2", "S3", "I1", "I2", "I3"}
\* v4_bin.rs: impl Writeable/Readable for SlateStateV4
StateByte(st) == CASE st = "NA" -> 0 [] st = "S1" -> 1 [] st = "S2" -> 2 [] st = "S3" -> 3
                   [] st = "I1" -> 4 [] st = "I2" -> 5 [] st = "I3" -> 6
ByteState(b)  == CASE b = 1 -> "S1" [] b = 2 -> "S2" [] b = 3 -> "S3" [] b = 4 -> "I1"
                   [] b = 5 -> "I2" [] b = 6 -> "I3" [] OTHER -> "NA"

SigItems  == [part : BOOLEAN]
ComItems  == [k : {"in", "out"}, cb : BOOLEAN]
SeqsUpTo(S, n) == UNION {[1..m -> S] : m \in 0..n}
NoComs    == [some |-> FALSE, items |-> <<>>]
ComShapes(n) == {NoComs} \cup {[some |-> TRUE, items |-> q] : q \in SeqsUpTo(ComItems, n)}
ProofSet  == {"none", "nosig", "sig"}
RkSet     == {"1of1", "1of2", "2of2"}            \* decryption key index "of" number of recipients
NRec(rk)  == IF rk = "1of1" THEN 1 ELSE 2
KeyIx(rk) == IF rk = "2of2" THEN 2 ELSE 1

(* A CASE is an abstract SlateV4 value plus the slatepack envelope arguments:
     ver    "std" = 4:3 (CURRENT_SLATE_VERSION:GRIN_BLOCK_HEADER_VERSION), "odd" = 65535:1
     sta    slate state            off   "zero" | "nz"       np   num_parts (u8)
     amt, fee, ttl  Tags           feat  0..3                fargs NoArg | Tags (feat_args.lock_hgt)
     sigs   Seq([part])            coms  [some, items: Seq([k, cb])]   proof  ProofSet
     snd    slatepack sender given?      rk  recipients/decryption key for the encrypted variants *)
\* domains are records of sets ("FD": field -> set of values); MCCodecRoundTrip builds
\* pairwise deviations, seeded samples and full products from them
CaseFD(npS, tagS, fargS, nSig, nCom) ==
  [ver |-> {"std", "odd"}, sta |-> StateSet, off |-> {"zero", "nz"}, np |-> npS, amt |-> tagS, fee |-> Tags,
   feat |-> 0..3, fargs |-> fargS, ttl |-> tagS, sigs |-> SeqsUpTo(SigItems, nSig), coms |-> ComShapes(nCom),
   proof |-> ProofSet, snd |-> BOOLEAN, rk |-> RkSet]

V4Fields == {"ver", "sta", "off", "np", "amt", "fee", "feat", "fargs", "ttl", "sigs", "coms", "proof"}
V4Of(c) == [f \in V4Fields |-> c[f]]
EnvOf(c) == [snd |-> c.snd, nrec |-> NRec(c.rk), key |-> KeyIx(c.rk)]

\* ------------------------------------------- SlateV4 <-> Slate (slate.rs) ---
Inputs(q)  == SelectSeq(q, LAMBDA x : x.k = "in")
Outputs(q) == SelectSeq(q, LAMBDA x : x.k = "out")

(* tx_from_slate_v4: the kernel of the reconstructed transaction.  NOTE the
   feature mapping differs from Slate::kernel_features: 1 -> HeightLocked,
   everything else (2 and 3 included) -> Plain.  Transcribed as is. *)
TxKernel(v) == IF ~v.coms.some THEN "none"
               ELSE IF v.feat = 1 THEN "HL:" \o (IF v.fargs = NoArg THEN "0" ELSE v.fargs)
               ELSE "Plain"

(* From<SlateV4> for Slate: every field is copied; tx = tx_from_slate_v4: a
   commitment with a proof is an output, one without is an input; both lists
   keep their order.  The abstract Slate is the V4 record with the commitments
   in the order From<&Slate> for Option<Vec<CommitsV4>> will emit them (inputs,
   then outputs) plus the kernel of slate.tx. *)
FromV4(v) ==
  [ver |-> v.ver, sta |-> v.sta, off |-> v.off, np |-> v.np, amt |-> v.amt, fee |-> v.fee,
   feat |-> v.feat, fargs |-> v.fargs, ttl |-> v.ttl, sigs |-> v.sigs,
   coms |-> IF v.coms.some THEN [some |-> TRUE, items |-> Inputs(v.coms.items) \o Outputs(v.coms.items)]
            ELSE NoComs,
   proof |-> v.proof, txk |-> TxKernel(v)]

\* From<&Slate> for SlateV4: field by field; coms from slate.tx (None iff tx is None)
ToV4(s) == [f \in V4Fields |-> s[f]]

SlateOfCase(c) == FromV4(V4Of(c))

\* ------------------------------------------------------------ V4 JSON -----
(* v4.rs skip_serializing_if / default attributes *)
JsonKeys(v) ==
  {"ver", "id", "sta", "sigs"}
  \cup (IF v.off # "zero" THEN {"off"} ELSE {})            \* offset_is_zero
  \cup (IF v.np # 2 THEN {"num_parts"} ELSE {})            \* num_parts_is_2
  \cup (IF ~IsZero(v.amt) THEN {"amt"} ELSE {})            \* u64_is_blank
  \cup (IF ~IsZero(v.fee) THEN {"fee"} ELSE {})            \* fee_is_zero: FeeFields::is_zero, the WHOLE word
  \cup (IF v.feat # 0 THEN {"feat"} ELSE {})               \* u8_is_blank
  \cup (IF ~IsZero(v.ttl) THEN {"ttl"} ELSE {})            \* u64_is_blank
  \cup (IF v.coms.some THEN {"coms"} ELSE {})              \* Option::is_none
  \cup (IF v.proof # "none" THEN {"proof"} ELSE {})        \* Option::is_none
  \cup (IF v.fargs # NoArg THEN {"feat_args"} ELSE {})     \* Option::is_none
JsonSigKeys(x)   == {"xs", "nonce"} \cup (IF x.part THEN {"part"} ELSE {})
JsonComKeys(x)   == {"c"} \cup (IF x.cb THEN {"f"} ELSE {}) \cup (IF x.k = "out" THEN {"p"} ELSE {})
JsonProofKeys(p) == IF p = "none" THEN {} ELSE {"saddr", "raddr"} \cup (IF p = "sig" THEN {"rsig"} ELSE {})

EncJsonSig(x) == [keys |-> JsonSigKeys(x)]
DecJsonSig(w) == [part |-> "part" \in w.keys]
EncJsonCom(x) == [keys |-> JsonComKeys(x), f |-> x.cb]
\* CommitsV4 has no kind: p present = output (tx_from_slate_v4); f defaults to Plain
DecJsonCom(w) == [k |-> IF "p" \in w.keys THEN "out" ELSE "in", cb |-> IF "f" \in w.keys THEN w.f ELSE FALSE]

EncJson(v) ==
  [fmt |-> "json", encres |-> "ok", keys |-> JsonKeys(v), val |-> v,
   sigs |-> [i \in DOMAIN v.sigs |-> EncJsonSig(v.sigs[i])],
   coms |-> [i \in DOMAIN v.coms.items |-> EncJsonCom(v.coms.items[i])],
   proofkeys |-> JsonProofKeys(v.proof)]
DecJson(w) ==
  LET has(k) == k \in w.keys IN
  [ver |-> w.val.ver, sta |-> w.val.sta,
   off   |-> IF has("off") THEN w.val.off ELSE "zero",            \* default_offset_zero
   np    |-> IF has("num_parts") THEN w.val.np ELSE 2,            \* default_num_participants_2
   amt   |-> IF has("amt") THEN w.val.amt ELSE "0",
   fee   |-> IF has("fee") THEN w.val.fee ELSE "0",
   feat  |-> IF has("feat") THEN w.val.feat ELSE 0,
   fargs |-> IF has("feat_args") THEN w.val.fargs ELSE NoArg,
   ttl   |-> IF has("ttl") THEN w.val.ttl ELSE "0",
   sigs  |-> [i \in DOMAIN w.sigs |-> DecJsonSig(w.sigs[i])],
   coms  |-> IF has("coms") THEN [some |-> TRUE, items |-> [i \in DOMAIN w.coms |-> DecJsonCom(w.coms[i])]]
             ELSE NoComs,
   proof |-> IF has("proof") THEN (IF "rsig" \in w.proofkeys THEN "sig" ELSE "nosig") ELSE "none"]

\* ---------------------------------------------------------- V4 binary -----
(* SlateOptFields::write: the first status byte.  Before fixes/C08-1.patch
   (/repo 8692f3c) bit 0x04 tested fee.fee() > 0, the fee masked to its low 40
   bits; since then it tests !fee.is_zero(), the whole word, like the JSON form.
   BinFeeTestMasked = TRUE transcribes the old writer, FALSE the current one (a
   wrong setting only shows as Layer-M NONCONFORMANCE on fee = 2^40). *)
BinFeeTestMasked == FALSE
BinFeePresent(t) == IF BinFeeTestMasked THEN ~FeeLowZero(t) ELSE ~IsZero(t)
BinStatus(v) ==
     (IF v.np # 2 THEN {"np"} ELSE {})
  \cup (IF ~IsZero(v.amt) THEN {"amt"} ELSE {})
  \cup (IF BinFeePresent(v.fee) THEN {"fee"} ELSE {})
  \cup (IF v.feat > 0 THEN {"feat"} ELSE {})
  \cup (IF ~IsZero(v.ttl) THEN {"ttl"} ELSE {})
\* SlateOptStructsRef::write: the second status byte
BinStructs(v) == (IF v.coms.some THEN {"coms"} ELSE {}) \cup (IF v.proof # "none" THEN {"proof"} ELSE {})

EncBinSig(x) == [flag |-> IF x.part THEN 1 ELSE 0]                          \* SigsWrapRef
DecBinSig(w) == [part |-> w.flag = 1]
EncBinCom(x) == [flag |-> IF x.k = "out" THEN 1 ELSE 0, f |-> IF x.cb THEN 1 ELSE 0]   \* ComsWrapRef
DecBinCom(w) == [k |-> IF w.flag = 1 THEN "out" ELSE "in", cb |-> w.f = 1]

\* number of bytes SlateV4Bin::write emits
BinSigLen(x) == 1 + 33 + 33 + (IF x.part THEN 64 ELSE 0)
BinComLen(x) == 1 + 1 + 33 + (IF x.k = "out" THEN 8 + 675 ELSE 0)
RECURSIVE SumSigLen(_), SumComLen(_)
SumSigLen(q) == IF q = <<>> THEN 0 ELSE BinSigLen(Head(q)) + SumSigLen(Tail(q))
SumComLen(q) == IF q = <<>> THEN 0 ELSE BinComLen(Head(q)) + SumComLen(Tail(q))
BinLen(v) ==
    2 + 2 + 16 + 1 + 32                                                     \* ver, id, sta, off
  + 1 + (IF "np" \in BinStatus(v) THEN 1 ELSE 0) + (IF "amt" \in BinStatus(v) THEN 8 ELSE 0)
      + (IF "fee" \in BinStatus(v) THEN 8 ELSE 0) + (IF "feat" \in BinStatus(v) THEN 1 ELSE 0)
      + (IF "ttl" \in BinStatus(v) THEN 8 ELSE 0)
  + 1 + SumSigLen(v.sigs)
  + 1 + (IF v.coms.some THEN 2 + SumComLen(v.coms.items) ELSE 0)
      + (IF v.proof # "none" THEN 32 + 32 + 1 + (IF v.proof = "sig" THEN 64 ELSE 0) ELSE 0)
  + (IF v.feat = 2 THEN 8 ELSE 0)

(* SigsWrapRef::write: "writer.write_u8(self.0.len() as u8)".  Before
   fixes/C08-2.patch (/repo 0c4a5e0) the participant count was truncated to one
   byte and all entries were written; since then the writer refuses (CountError)
   more entries than the count can carry.  BinCountChecked = FALSE transcribes
   the old writer, TRUE the current one. *)
BinCountChecked == TRUE
CountU8(n) == n % 256
\* what the patched WRITER checks (SigsWrapRef::write; the u16 count of ComsWrapRef is beyond Abs_Counts)
BinCountFits(v) == Len(v.sigs) <= 255
\* PROPERTY level: a slate the binary form can carry at all - the participant list fits its count, and a
\* height-locked kernel has its height (the format has no way to say "feat = 2 without feat_args").  The
\* writer does NOT check the second conjunct: it writes lock height 0 (see EncBin.lockhgt).
BinRepresentable(v) == BinCountFits(v) /\ ~(v.feat = 2 /\ v.fargs = NoArg)

(* SlateV4Bin::write.  The trailing lock height exists only for feat = 2
   ("Write lock height for height locked kernels"); a missing feat_args is
   written as 0. *)
EncBin(v) ==
  [fmt |-> "bin", encres |-> IF BinCountChecked /\ ~BinCountFits(v) THEN "enc-err" ELSE "ok",
   status |-> BinStatus(v), structs |-> BinStructs(v), val |-> v,
   sigcount |-> CountU8(Len(v.sigs)),
   sigs |-> [i \in DOMAIN v.sigs |-> EncBinSig(v.sigs[i])],
   coms |-> [i \in DOMAIN v.coms.items |-> EncBinCom(v.coms.items[i])],
   rsig |-> IF v.proof = "sig" THEN 1 ELSE 0,
   lockhgt |-> IF v.feat = 2 THEN <<IF v.fargs = NoArg THEN "0" ELSE v.fargs>> ELSE <<>>,
   len |-> BinLen(v)]
(* SlateV4Bin::read -> [res, v].  The reader takes sigcount entries.  If that is
   not all of them (count wrapped) it goes on reading inside the participant
   list - Havoc_Misparse: the flag byte of the next entry is taken for the
   optional-structs status byte; flag 0 (no partial signature) means "no coms,
   no proof", and unless feat = 2 the reader is then done and the remaining
   bytes are ignored (byte_ser does not look for trailing data).  Every other
   continuation reads key bytes as counts/lengths: modelled as a decode error. *)
DecBin(w) ==
  LET st(k) == k \in w.status
      feat  == IF st("feat") THEN w.val.feat ELSE 0
      n     == w.sigcount
      whole == n = Len(w.sigs)
      v == [ver |-> w.val.ver, sta |-> ByteState(StateByte(w.val.sta)), off |-> w.val.off,
            np    |-> IF st("np") THEN w.val.np ELSE 2,
            amt   |-> IF st("amt") THEN w.val.amt ELSE "0",
            fee   |-> IF st("fee") THEN w.val.fee ELSE "0",
            feat  |-> feat,
            fargs |-> IF feat = 2 /\ whole THEN w.lockhgt[1] ELSE NoArg,   \* "if opts.feat == 2 { Some(read_u64) } else { None }"
            ttl   |-> IF st("ttl") THEN w.val.ttl ELSE "0",
            sigs  |-> [i \in 1..n |-> DecBinSig(w.sigs[i])],
            coms  |-> IF whole /\ "coms" \in w.structs
                      THEN [some |-> TRUE, items |-> [i \in DOMAIN w.coms |-> DecBinCom(w.coms[i])]] ELSE NoComs,
            proof |-> IF whole /\ "proof" \in w.structs THEN (IF w.rsig = 1 THEN "sig" ELSE "nosig") ELSE "none"] IN
  IF whole \/ (w.sigs[n + 1].flag = 0 /\ feat # 2) THEN [res |-> "ok", v |-> v] ELSE [res |-> "dec-err", v |-> v]

\* ----------------------------------------------------------- slatepack ----
(* Slatepacker::create_slatepack: payload = binary V4 slate; sender from the
   args; try_encrypt_payload(recipients): no recipients -> unchanged; else the
   sender moves into encrypted_meta, the payload becomes age(R, meta-bin ++
   payload), mode = 1, and encrypted_meta is reset to its default (since the
   fix "do not keep a clear copy of the encrypted slatepack metadata"; before
   it the copy stayed in the struct and the JSON form showed it).  Abs_Age. *)
Pack(v, env, encrypted) ==
  IF ~encrypted
  THEN [mode |-> 0, sender |-> env.snd, metasender |-> FALSE,
        payload |-> [R |-> {}, innersender |-> FALSE, body |-> EncBin(v)]]
  ELSE [mode |-> 1, sender |-> FALSE, metasender |-> FALSE,
        payload |-> [R |-> 1..env.nrec, innersender |-> env.snd, body |-> EncBin(v)]]

\* bech32 of a 32 byte key: hrp + "1" + 52 data characters + 6 checksum characters
AddrStrLen(hrp) == Len(hrp) + 1 + 52 + 6
\* SlatepackEncMetadataBin: u32 length, u16 flags, optional sender; recipients are never filled in by create_slatepack
MetaBinLen(p, hrp) == 4 + 2 + (IF p.payload.innersender THEN 1 + AddrStrLen(hrp) ELSE 0)

\* SlatepackBin::write: version(2) mode(1) flags(2) optlen(4) [sender] payload(len-prefixed u64)
SpBin(p) == [fmt |-> "spbin", encres |-> p.payload.body.encres, mode |-> p.mode, flags |-> IF p.sender THEN {"sender"} ELSE {}, payload |-> p.payload]
SpBinLen(p, hrp) == 2 + 1 + 2 + 4 + (IF p.sender THEN 1 + AddrStrLen(hrp) ELSE 0) + 8
\* SlatepackBin::read: encrypted_meta = default
UnSpBin(w) == [mode |-> w.mode, sender |-> "sender" \in w.flags, metasender |-> FALSE, payload |-> w.payload]
\* serde derive on Slatepack: sender skipped if None, encrypted_meta skipped if empty
SpJsonKeys(p) == {"slatepack", "mode", "payload"} \cup (IF p.sender THEN {"sender"} ELSE {})
                 \cup (IF p.metasender THEN {"encrypted_meta"} ELSE {})
SpJson(p) == [fmt |-> "spjson", encres |-> p.payload.body.encres, keys |-> SpJsonKeys(p), mode |-> p.mode, payload |-> p.payload]
UnSpJson(w) == [mode |-> w.mode, sender |-> "sender" \in w.keys, metasender |-> "encrypted_meta" \in w.keys,
                payload |-> w.payload]
\* SlatepackArmor::encode/decode: framing + base58check of the binary slatepack
Armor(p) == [fmt |-> "armor", encres |-> p.payload.body.encres, inner |-> SpBin(p)]
UnArmor(w) == UnSpBin(w.inner)

\* Slatepack::try_decrypt_payload with the key of recipient k
Decrypt(p, k) ==
  IF p.mode = 0 THEN [res |-> "ok", p |-> p]
  ELSE IF k \in p.payload.R
       THEN [res |-> "ok", p |-> [mode |-> 0, sender |-> p.payload.innersender, metasender |-> p.metasender,
                                  payload |-> [R |-> {}, innersender |-> FALSE, body |-> p.payload.body]]]
       ELSE [res |-> "dec-err", p |-> p]

\* --------------------------------------------------------- encodings ------
Encodings  == {"json", "bin", "pkbin.plain", "pkbin.enc", "pkjson.plain", "pkjson.enc", "pkarmor.plain", "pkarmor.enc"}
IsPack(e)  == e \notin {"json", "bin"}
IsEnc(e)   == e \in {"pkbin.enc", "pkjson.enc", "pkarmor.enc"}
UsesBin(e) == e # "json"
Layer(e)   == CASE e \in {"pkbin.plain", "pkbin.enc"} -> "pkbin" [] e \in {"pkjson.plain", "pkjson.enc"} -> "pkjson"
                [] e \in {"pkarmor.plain", "pkarmor.enc"} -> "pkarmor" [] OTHER -> e

\* Enc_e: Slate + envelope -> wire form
Enc(e, s, env) ==
  LET v == ToV4(s) IN
  CASE e = "json" -> EncJson(v)
    [] e = "bin"  -> EncBin(v)
    [] Layer(e) = "pkbin"   -> SpBin(Pack(v, env, IsEnc(e)))
    [] Layer(e) = "pkjson"  -> SpJson(Pack(v, env, IsEnc(e)))
    [] Layer(e) = "pkarmor" -> Armor(Pack(v, env, IsEnc(e)))
\* Dec_e: wire form -> [res, slate, sender]  (Slatepacker::deser_slatepack(decrypt = TRUE) + get_slate);
\* res: "ok" | "enc-err" (the encoder refused) | "dec-err"
NoSlate == <<>>
Dec(e, w, env) ==
  IF w.encres # "ok" THEN [res |-> w.encres, slate |-> NoSlate, sender |-> FALSE]
  ELSE CASE e = "json" -> [res |-> "ok", slate |-> FromV4(DecJson(w)), sender |-> FALSE]
         [] e = "bin"  -> LET b == DecBin(w) IN [res |-> b.res, slate |-> IF b.res = "ok" THEN FromV4(b.v) ELSE NoSlate, sender |-> FALSE]
         [] OTHER ->
            LET p == CASE Layer(e) = "pkbin" -> UnSpBin(w) [] Layer(e) = "pkjson" -> UnSpJson(w) [] OTHER -> UnArmor(w)
                d == Decrypt(p, env.key) IN
            IF d.res # "ok" THEN [res |-> d.res, slate |-> NoSlate, sender |-> FALSE]
            ELSE LET b == DecBin(d.p.payload.body) IN
                 [res |-> b.res, slate |-> IF b.res = "ok" THEN FromV4(b.v) ELSE NoSlate, sender |-> IF b.res = "ok" THEN d.p.sender ELSE FALSE]
DecEnc(e, s, env) == Dec(e, Enc(e, s, env), env)

\* ---------------------------------------------------------- properties ----
(* Norm removes only what no wallet can distinguish (DESIGN.md Appendix B):
   feat_args where Slate::kernel_features ignores it (feat = 0). *)
Norm(s) == [s EXCEPT !.fargs = IF s.feat = 0 THEN NoArg ELSE @]
SlateEq(a, b) == Norm(a) = Norm(b)
\* the property quantifies over the supported kernel features: 1 (coinbase) is rejected by Slate::kernel_features
InScope(s) == s.feat \in {0, 2, 3}

(* RoundTrip(e, s): decoding the encoding gives the same slate (and, for a slatepack, the same sender).  A slate
   that has no binary form (~BinRepresentable) may be refused by the encoder ("enc-err"); what the encoder may
   never do is hand out bytes that decode to something else. *)
RoundTripRes(r, s, env, e) ==
  LET same == r.res = "ok" /\ SlateEq(r.slate, s) /\ (IsPack(e) => r.sender = env.snd) IN
  IF UsesBin(e) /\ ~BinRepresentable(ToV4(s)) THEN same \/ r.res = "enc-err" ELSE same
RoundTrip(e, s, env) == RoundTripRes(DecEnc(e, s, env), s, env, e)
CrossEqual(s, env) ==
   LET r == [x \in Encodings |-> DecEnc(x, s, env)] IN
   \A e1, e2 \in Encodings : (r[e1].res = "ok" /\ r[e2].res = "ok") => SlateEq(r[e1].slate, r[e2].slate)

\* which fields of the decoded slate differ from the original, with the value class: the key of a finding
SlateFields == {"ver", "sta", "off", "np", "amt", "fee", "feat", "fargs", "ttl", "sigs", "coms", "proof", "txk"}
ArgClass(a) == IF a = NoArg THEN "none" ELSE "some"
ArgClassDec(a) == IF a = NoArg THEN "none" ELSE IF a = "0" THEN "0" ELSE "some"
\* a = the original, b = the decoded slate
FieldDiff(a, b, f) ==
  CASE f = "fargs" -> "fargs[feat" \o ToString(a.feat) \o ":" \o ArgClass(a.fargs) \o "->" \o ArgClassDec(b.fargs) \o "]"
    [] f \in {"amt", "fee", "ttl"} -> f \o "[" \o a[f] \o "->" \o b[f] \o "]"
    [] OTHER -> f
\* (when the participant count wrapped, the loss of the structures behind the list is a consequence, not a class of its own)
DiffSet(a, b) ==
  LET x == Norm(a)  y == Norm(b)
      wrapped == Len(x.sigs) > 255 /\ x.sigs # y.sigs IN
  IF wrapped THEN {"sigs[n>255]"} \cup {FieldDiff(x, y, f) : f \in {g \in SlateFields \ {"sigs", "coms", "proof", "txk"} : x[g] # y[g]}}
  ELSE {FieldDiff(x, y, f) : f \in {g \in SlateFields : x[g] # y[g]}}

\* ---------------------------------------------------------- addresses -----
(* SlatepackAddress: bech32(hrp, 32 byte ed25519 key); all three encodings
   (String::try_from / TryFrom<&str>, serde, Writeable/Readable) go through that
   string.  OnionV3Address: 32 bytes; base32(key ++ checksum ++ 3), with or
   without "http://" / ".onion", any letter case, or the 64 digit hex key.
   Abs_Material: the key is a class name. *)
AddrFD     == [hrp |-> {"grin", "tgrin", "x"}, key |-> {"rand", "low", "high"}]
AddrEncs   == {"str", "json", "bin"}
EncAddr(e, a) == [hrp |-> a.hrp, data |-> a.key, len |-> IF e = "bin" THEN 1 + AddrStrLen(a.hrp)
                                                       ELSE IF e = "json" THEN AddrStrLen(a.hrp) + 2 ELSE AddrStrLen(a.hrp)]
DecAddr(e, w) == [hrp |-> w.hrp, key |-> w.data]
AddrRoundTrip(e, a) == DecAddr(e, EncAddr(e, a)) = a

\* lead<i>: the text form starts with the i-th character of the base32 alphabet (every letter that also
\* occurs in "http://", ".onion" or a digit: prefix / suffix stripping must not eat the address itself)
OnionFD    == [key |-> {"rand", "zero", "ones"} \cup {"lead" \o ToString(i) : i \in 0..31}]
OnionEncs  == {"ov3", "http", "upper", "hex", "json"}
EncOnion(e, a) == [data |-> a.key, len |-> CASE e = "ov3" -> 56 [] e = "upper" -> 56 [] e = "http" -> 7 + 56 + 6
                                             [] e = "hex" -> 64 [] OTHER -> 0]
DecOnion(e, w) == [key |-> w.data]
OnionRoundTrip(e, a) == DecOnion(e, EncOnion(e, a)) = a

\* ------------------------------------------------------ stored records ----
(* OutputData, TxLogEntry, Context (libwallet/src/types.rs) are stored as a
   length-prefixed serde_json document (impl Writeable/Readable).  None of
   their fields is skipped on output, so every key is always present; the
   only lossy codec is option_duration_as_secs (whole seconds).  "opt" fields
   are "none" or a tag. *)
OptTags == {"none"} \cup Tags
OutputFD == [commit |-> {"none", "some"}, mmr |-> OptTags, value |-> Tags, status |-> {"Unconfirmed", "Unspent", "Locked", "Spent", "Reverted"},
             height |-> Tags, lockh |-> Tags, cb |-> BOOLEAN, txlog |-> {"none", "0", "MAX32"}, nchild |-> {"0", "1", "MAX32"}]
TxLogFD == [slate |-> {"none", "some"}, ty |-> {"ConfirmedCoinbase", "TxReceived", "TxSent", "TxReceivedCancelled", "TxSentCancelled", "TxReverted"},
            confts |-> {"none", "some"}, confirmed |-> BOOLEAN, nin |-> {"0", "1", "MAX"}, credited |-> Tags, debited |-> Tags,
            fee |-> OptTags, ttl |-> OptTags, stored |-> {"none", "some"}, excess |-> {"none", "some"},
            minh |-> OptTags, proof |-> {"none", "bare", "rsig", "ssig", "both"}, reverted |-> {"none", "0", "whole", "frac"}]
CtxFD == [nout |-> 0..2, nin |-> 0..2, mmr |-> OptTags, amount |-> Tags, fee |-> OptTags, pidx |-> {"none", "0", "MAX32"},
          late |-> {"none", "min", "full"}, excess |-> {"none", "some"}]

\* option_duration_as_secs: Duration::as_secs on the way out
NormRec(kind, r) == IF kind = "txlog" THEN [r EXCEPT !.reverted = IF @ = "frac" THEN "whole" ELSE @] ELSE r
EncRec(kind, r) == [kind |-> kind, val |-> NormRec(kind, r)]
DecRec(w) == w.val
RecKeys(kind) ==
  CASE kind = "output" -> {"root_key_id", "key_id", "n_child", "commit", "mmr_index", "value", "status", "height", "lock_height",
                           "is_coinbase", "tx_log_entry"}
    [] kind = "txlog" -> {"parent_key_id", "id", "tx_slate_id", "tx_type", "creation_ts", "confirmation_ts", "confirmed", "num_inputs",
                          "num_outputs", "amount_credited", "amount_debited", "fee", "ttl_cutoff_height", "stored_tx", "kernel_excess",
                          "kernel_lookup_min_height", "payment_proof", "reverted_after"}
    [] kind = "context" -> {"parent_key_id", "sec_key", "sec_nonce", "initial_sec_key", "initial_sec_nonce", "output_ids", "input_ids",
                            "amount", "fee", "payment_proof_derivation_index", "payment_proof_recipient_address", "late_lock_args", "calculated_excess"}
\* a stored record survives its own encode/decode unchanged (up to whole seconds of reverted_after)
RecRoundTrip(kind, r) == DecRec(EncRec(kind, r)) = NormRec(kind, r)
=============================================================================
