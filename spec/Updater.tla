------------------------------ MODULE Updater ------------------------------
(***************************************************************************)
(* Life cycle of the background updater (api/src/owner.rs start_updater /  *)
(* stop_updater, libwallet/src/api_impl/owner_updater.rs Updater::run),    *)
(* transcribed from the pinned commit:                                     *)
(*                                                                         *)
(*   start_updater   spawns a thread that FIRST takes the updater mutex    *)
(*                   (Arc<Mutex<Updater>>) and keeps it for the whole run; *)
(*   Updater::run    running := TRUE; loop { if the wallet is open: one    *)
(*                   PASS of update_wallet_state (its sections take and    *)
(*                   release the wallet mutex, Conc.tla); if ~running:     *)
(*                   leave; sleep(frequency) }                             *)
(*   stop_updater    running := FALSE  (nothing else: the flag is looked   *)
(*                   at only AFTER a pass)                                 *)
(*   retrieve_* with refresh_from_node refresh the wallet themselves only  *)
(*                   while ~running (api/src/owner.rs:421)                 *)
(*                                                                         *)
(* A pass that fails (node error inside the scan part, invalid mask) ends  *)
(* the run with an error.  Threads: a set of thread ids; each start takes  *)
(* a fresh id.  The wallet lock is not modelled here (Conc.tla / Wallet.tla *)
(* do that): a pass is one abstract step pair Begin / End so that stop and  *)
(* start can fall inside it.                                               *)
(***************************************************************************)
EXTENDS Integers, FiniteSets, Sequences, TLC

CONSTANTS MaxThreads,   \* start_updater calls per behaviour
          MaxCmds,      \* bound on driver commands per generated script (MCUpdater)
          MaxPasses     \* bound on passes per behaviour (state constraint)

VARIABLES running,      \* the shared AtomicBool
          holder,       \* thread id holding the updater mutex, 0 = free
          th,           \* thread id -> "waiting" | "idle" | "pass" | "sleep" | "exited" | "failed"
          open,         \* wallet open?
          passes,       \* passes begun so far (history)
          stopSeen,     \* history: passes begun at the moment of the last stop_updater (-1 = none pending)
          begunAfterStop \* history: passes begun since the last stop_updater by the thread that was running then

vars == <<running, holder, th, open, passes, stopSeen, begunAfterStop>>
Ids == 1..MaxThreads
Live == {t \in DOMAIN th : th[t] \in {"waiting", "idle", "pass", "sleep"}}

Init == /\ running = FALSE /\ holder = 0 /\ th = <<>> /\ open = TRUE /\ passes = 0 /\ stopSeen = -1 /\ begunAfterStop = 0

\* owner::start_updater: a new thread, blocked on the updater mutex until it is free
Start == /\ Len(th) < MaxThreads
         /\ th' = Append(th, "waiting")
         /\ UNCHANGED <<running, holder, open, passes, stopSeen, begunAfterStop>>
\* the thread gets the updater mutex and enters Updater::run: running := TRUE
Acquire(t) == /\ t \in DOMAIN th /\ th[t] = "waiting" /\ holder = 0
              /\ holder' = t /\ running' = TRUE /\ th' = [th EXCEPT ![t] = "idle"]
              /\ stopSeen' = -1 /\ begunAfterStop' = 0      \* a new run: an earlier stop is spent
              /\ UNCHANGED <<open, passes>>
\* top of the loop: a pass begins if the wallet is open, otherwise the flag is looked at right away
Begin(t) == /\ t \in DOMAIN th /\ th[t] = "idle"
            /\ IF open
               THEN /\ th' = [th EXCEPT ![t] = "pass"] /\ passes' = passes + 1
                    /\ begunAfterStop' = IF stopSeen >= 0 THEN begunAfterStop + 1 ELSE begunAfterStop
                    /\ UNCHANGED <<running, holder, open, stopSeen>>
               ELSE /\ (IF running THEN th' = [th EXCEPT ![t] = "sleep"] /\ holder' = holder
                                   ELSE th' = [th EXCEPT ![t] = "exited"] /\ holder' = 0)
                    /\ UNCHANGED <<running, open, passes, stopSeen, begunAfterStop>>
\* the pass is over: leave if the flag is down, else sleep
End(t) == /\ t \in DOMAIN th /\ th[t] = "pass"
          /\ (IF running THEN th' = [th EXCEPT ![t] = "sleep"] /\ holder' = holder
                         ELSE th' = [th EXCEPT ![t] = "exited"] /\ holder' = 0)
          /\ UNCHANGED <<running, open, passes, stopSeen, begunAfterStop>>
\* the pass fails (node unreachable in the scan part, ...): run returns Err, the mutex is released,
\* the flag STAYS up (transcribed: nothing clears it)
Fail(t) == /\ t \in DOMAIN th /\ th[t] = "pass"
           /\ th' = [th EXCEPT ![t] = "failed"] /\ holder' = 0
           /\ UNCHANGED <<running, open, passes, stopSeen, begunAfterStop>>
Wake(t) == /\ t \in DOMAIN th /\ th[t] = "sleep"
           /\ th' = [th EXCEPT ![t] = "idle"]
           /\ UNCHANGED <<running, holder, open, passes, stopSeen, begunAfterStop>>
\* owner::stop_updater
Stop == /\ running' = FALSE
        /\ stopSeen' = IF holder # 0 THEN passes ELSE stopSeen
        /\ begunAfterStop' = IF holder # 0 THEN 0 ELSE begunAfterStop
        /\ UNCHANGED <<holder, th, open, passes>>
OpenClose == /\ open' = ~open /\ UNCHANGED <<running, holder, th, passes, stopSeen, begunAfterStop>>

Next == Start \/ Stop \/ OpenClose \/ \E t \in Ids : Acquire(t) \/ Begin(t) \/ End(t) \/ Fail(t) \/ Wake(t)
Fairness == \A t \in Ids : WF_vars(Acquire(t)) /\ WF_vars(Begin(t)) /\ WF_vars(End(t)) /\ WF_vars(Wake(t))
Spec == Init /\ [][Next]_vars
FairSpec == Spec /\ Fairness
Bound == passes <= MaxPasses

\* ------------------------------------------------------------ properties
TypeOK == /\ running \in BOOLEAN /\ holder \in 0..MaxThreads /\ open \in BOOLEAN
          /\ \A t \in DOMAIN th : th[t] \in {"waiting", "idle", "pass", "sleep", "exited", "failed"}
\* at most one updater is ever inside its run (the updater mutex): passes of two threads never overlap
OneRunner == Cardinality({t \in DOMAIN th : th[t] \in {"idle", "pass", "sleep"}}) <= 1
HolderRuns == (holder # 0) <=> (\E t \in DOMAIN th : th[t] \in {"idle", "pass", "sleep"} /\ holder = t)
\* stop_updater is honoured after at most one more pass of the run it stops (the flag is read only after a
\* pass: a stop that lands during the sleep lets one more pass begin)
StopWithinOnePass == begunAfterStop <= 1
\* the flag says TRUE whenever a run is under way - except between a stop and the end of the pass / sleep
\* under way; the API relies on the flag to decide whether retrieve_* must refresh themselves
FlagCoversRun == (running = FALSE /\ holder # 0) => stopSeen >= 0
\* liveness (under fairness, no new start): a stopped run eventually ends
StoppedEnds == [](~running /\ holder # 0 => <>(holder = 0 \/ running))
\* a finding of the model, stated so that TLC shows it: after a FAILED pass the flag stays up with nobody
\* running - retrieve_* then never refresh until somebody calls stop_updater.  (Not one of the listed
\* properties; recorded in DESIGN.md.)
FlagDownWhenNobodyRuns == (holder = 0 /\ \A t \in DOMAIN th : th[t] # "waiting") => ~running
=============================================================================
