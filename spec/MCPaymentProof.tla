--------------------------- MODULE MCPaymentProof ---------------------------
(***************************************************************************)
(* Bounded model and stimulus generator for PaymentProof.tla (C11).        *)
(*                                                                         *)
(* A behaviour is ONE case: a proof-carrying send of the case space        *)
(*   amounts (one input with change, exact amount without change, two      *)
(*   inputs) x fee included x change outputs x source account named or     *)
(*   not x sender's active account at init / at finalize x late lock /     *)
(*   lock with the sent slate / lock with the reply / never locked x       *)
(*   requested recipient address x recipient's destination and active      *)
(*   account x alteration of the reply x owner / foreign finalize          *)
(* run through its program step by step (init, lock, receive, tamper,      *)
(* finalize, export, and for unaltered replies the probes: verify off      *)
(* chain, mine, verify by three wallets, every mutation of the exported    *)
(* proof, fork the kernel away, mine it again).                            *)
(*                                                                         *)
(* TLC explores EVERY case of the configured space and checks on every     *)
(* step                                                                    *)
(*   Inv_Sound      with Dev = {} (the repaired code model) no monitor of  *)
(*                  ProofSound is ever broken;                             *)
(*   Inv_Mutants    every single-field mutation changes exactly one field  *)
(*                  and makes the proof invalid (so "must be refused" is   *)
(*                  never vacuous), every multi-field one changes several; *)
(*   Inv_VerifyIff  the verifier model says yes iff the proof is valid and *)
(*                  its kernel on the chain;                               *)
(*   Inv_Honest     an unaltered reply signed by the requested address in  *)
(*                  the right account finalizes, exports and verifies.     *)
(* With the deviations of the pinned code (Dev # {}) the monitors the      *)
(* model breaks are recorded per case (`mv`): model counter-examples the   *)
(* runner then confirms or refutes on the real code.                       *)
(* A -seed'ed stratified sample (per alteration x lock kind: NPer cases in *)
(* which the alteration is the only thing wrong, NHonest for the unaltered *)
(* reply, NAny of any shape) is printed as JSON (tag CASE) with its        *)
(* program: the stimulus of harness/replay_proof.                          *)
(***************************************************************************)
EXTENDS PaymentProof, Randomization, Json

CONSTANTS Amts, IncFees, NChanges, Srcs, ActIs, ActFs, LateLocks, Reqs, Dests, ActRs, Tams, FApis,
          Forks,        \* TRUE: the probes include the fork / re-mine phases
          MultiMut,     \* TRUE: the probes include the multi-field forgeries (Layer M only)
          NPer, NAny, NHonest \* sample sizes per stratum

VARIABLES ms, k, mv, wit
vars == <<ms, k, mv, wit>>

\* late/lock kinds: "late" | "S1" | "S2" | "none"
KindOf(c) == IF c.late THEN "late" ELSE c.lock
CasesOf(t, kd) ==
  {c \in [amt : Amts, incfee : IncFees, nchange : NChanges, src : Srcs, actI : ActIs, actF : ActFs,
           late : {kd = "late"}, lock : {IF kd = "late" THEN "none" ELSE kd},
           req : Reqs, dest : Dests, actR : ActRs, tam : {t}, fapi : FApis] : WellFormed(c)}
Strata == Tams \X LateLocks
CaseSpace == UNION {CasesOf(x[1], x[2]) : x \in Strata}

MutSeq == MutSeq1 \o (IF MultiMut THEN MutSeqN ELSE <<>>)
\* an altered reply is expected to be refused; should it be accepted, what the sender then exports
\* is mined and verified once (mine / verify are skipped after a refusal)
ShortProbe == <<I("mine", "", "", FALSE), I("export", "", "", TRUE), I("verify", "none", "w3", FALSE)>>
Prog(c) == SendProg(c) \o (IF c.tam = "none" THEN ProbeProg(MutSeq, Forks) ELSE ShortProbe)

\* --------------------------------------------------------------- behaviour
Init == /\ \E c \in CaseSpace : ms = Start(c)
        /\ k = 0
        /\ mv = {}
        /\ wit = {}

\* ProofSound on what the step just taken shows (exactly what TracePaymentProof evaluates on
\* the observed events)
SoundFin(m) == m.fin = "ok" /\ ReplySound(m.c.req, m.amt, "final", SenderAddr(m.c), m.rp)
Broken(m) ==
  LET o == m.last IN
  (IF o.op = "finalize" /\ o.res # "skip"
      /\ ~FinalizeSound(o.res, m.c.req, m.amt, o.kern, SenderAddr(m.c), o.reply) THEN {"FinalizeSound"} ELSE {})
  \cup (IF o.op = "export" /\ SoundFin(m) /\ o.res # "ok" THEN {"ExportVerifies"} ELSE {})
  \cup (IF o.op = "verify" /\ o.res # "skip"
        THEN (IF o.proof = m.exp /\ SoundFin(m) /\ ~ExportVerifies(o.res, o.onchain) THEN {"ExportVerifies"} ELSE {})
             \cup (IF ~MutantRefused(o.res, m.exp, o.proof) THEN {"MutantRefused"} ELSE {})
             \cup (IF ~OffChainRefused(o.res, o.onchain) THEN {"OffChainRefused"} ELSE {})
        ELSE {})

\* vacuity witnesses: things that must happen somewhere for the monitors to mean anything
Witnessed(m) ==
  LET o == m.last IN
  (IF m.fin = "ok" THEN {"FinalizeOk"} ELSE {})
  \cup (IF m.c.tam # "none" /\ m.fin = "err:proof" THEN {"ForgeryRefused"} ELSE {})
  \cup (IF o.op = "verify" /\ o.res = "ok" THEN {"VerifyOk"} ELSE {})
  \cup (IF o.op = "verify" /\ o.res = "err:proof" /\ o.onchain /\ o.proof # m.exp THEN {"MutantRefused"} ELSE {})
  \cup (IF o.op = "verify" /\ o.res = "err:proof" /\ ~o.onchain /\ o.proof = m.exp THEN {"OffChainRefused"} ELSE {})

Next == /\ k < Len(Prog(ms.c))
        /\ ms' = Step(ms, Prog(ms.c)[k + 1])
        /\ k' = k + 1
        /\ mv' = mv \cup Broken(ms')
        /\ wit' = wit \cup Witnessed(ms')
Spec == Init /\ [][Next]_vars

Done == k = Len(Prog(ms.c))

\* -------------------------------------------------------------- invariants
Inv_Sound == Dev = {} => mv = {}

Inv_Mutants ==
  (ms.hasexp /\ SoundFin(ms)) =>
     /\ \A m \in MutIds1 : /\ Cardinality(Changed(ms.exp, Mut(ms.exp, m))) = 1
                           /\ ~ProofValid(Mut(ms.exp, m), TRUE)
     /\ \A m \in MutIdsN : Cardinality(Changed(ms.exp, Mut(ms.exp, m))) > 1

Inv_VerifyIff ==
  (ms.last.op = "verify" /\ ms.last.res # "skip") =>
     (ms.last.res = "ok" <=> ProofValid(ms.last.proof, ms.last.proof.exc \in ms.chain))

\* the honest path is live: nothing but a wrong signer or a missing lock stops it
Clean(c) == c.req = SignerAddr(c) /\ KindOf(c) # "none"
HonestCase(c) == c.tam = "none" /\ Clean(c)
Inv_Honest ==
  (Dev = {} /\ HonestCase(ms.c)) =>
     /\ (ms.last.op = "finalize" => ms.last.res = "ok")
     /\ (ms.last.op = "export" => ms.last.res = "ok")
     /\ (ms.last.op = "verify" /\ ms.last.proof = ms.exp => (ms.last.res = "ok" <=> "final" \in ms.chain))

\* ------------------------------------------------------------- generation
Take(n, S) == IF n >= Cardinality(S) THEN S ELSE RandomSubset(n, S)
\* constant-level: evaluated once, deterministic under -seed.  Per stratum (alteration x lock
\* kind): NPer (NHonest for the unaltered reply) CLEAN cases - the alteration is the only thing
\* wrong, so a refusal is a refusal of the alteration - and NAny cases of any shape.
Sampled == UNION {Take(IF x[1] = "none" THEN NHonest ELSE NPer, {c \in CasesOf(x[1], x[2]) : Clean(c)})
                  \cup Take(NAny, CasesOf(x[1], x[2])) : x \in Strata}

Emit == (Done /\ ms.c \in Sampled) =>
  PrintT(<<"CASE", ToJson([c |-> ms.c, prog |-> Prog(ms.c), mv |-> mv, fin |-> ms.fin, clean |-> Clean(ms.c)])>>)

\* each witness must be REACHABLE: printed at the end of every case of the (small) witness
\* configuration; the runner requires the union to be complete
AllWitnesses == {"FinalizeOk", "ForgeryRefused", "VerifyOk", "MutantRefused", "OffChainRefused"}
WitEmit == Done => PrintT(<<"WIT", ToJson(wit)>>)
=============================================================================
