---------------------------- MODULE TraceTamper ----------------------------
(***************************************************************************)
(* Trace validation for C02.  Every line of the trace (harness/src/bin/    *)
(* replay_tamper) is one complete exchange executed on REAL wallets over a *)
(* real chain:                                                             *)
(*   {c: the case TLC generated (flow, shape, one or two alterations),     *)
(*    run: ok | noreply | skip:<why>,                                      *)
(*    o: the observed outcome: result class of finalize; for a success the *)
(*       produced transaction by name and value, the verdict of the real   *)
(*       verifier (Transaction::validate), byte equality with the stored   *)
(*       copy, acceptance by the real chain; the deal recorded at          *)
(*       initiation and the reservation found in the payer's store; for a  *)
(*       failure the results of cancelling and the balances before/after}. *)
(* For each line TLC evaluates                                             *)
(*   Layer P  FinalTxValidExact (SlateAlgebra!FinalTxBroken on the         *)
(*            observed transaction), TamperRefused (the ALGEBRA's verdict  *)
(*            for the case, recomputed here, against the observed result), *)
(*            StillCancellable - a failure prints VIOL: this, and only     *)
(*            this, is a verdict; and                                      *)
(*   Layer M  the observed result class is the one the transcription       *)
(*            SlateAlgebra!Finalize predicts and the realised deal has the *)
(*            shape the case asked for - a mismatch prints NONCONF only.   *)
(* The spec never stops at a failure, so the whole trace is examined.      *)
(***************************************************************************)
EXTENDS SlateAlgebra, Json, IOUtils, TLCExt

CONSTANT CheckM

VARIABLE l

Rec == ndJsonDeserialize(IOEnv.TRACE)

Case(j) == [flow |-> j.flow, nin |-> j.nin, nch |-> j.nch, incfee |-> j.incfee, proof |-> j.proof,
            stage |-> j.stage, tamper |-> j.tamper, tamper2 |-> j.tamper2]
Class(c) == c.flow \o ":" \o c.stage \o ":" \o c.tamper \o (IF c.tamper2 = "none" THEN "" ELSE "+" \o c.tamper2)

Viol(e, m, info) ==
  PrintT(<<"VIOL", ToJson([line |-> l, id |-> e.c.id, m |-> m, cl |-> Class(Case(e.c)), info |-> info])>>)
NonConf(e, what, info) ==
  PrintT(<<"NONCONF", ToJson([line |-> l, id |-> e.c.id, what |-> what, cl |-> Class(Case(e.c)), info |-> info])>>)

IsOk(res) == res = "ok"

LayerP(e, c) ==
  LET o == e.o
      v == Verdict(c) IN
  /\ IF IsOk(o.res)
     THEN \A m \in FinalTxBroken(o) : Viol(e, "FinalTxValidExact." \o m, [tx |-> o.tx, deal |-> o.deal, resv |-> o.resv])
     ELSE TRUE
  /\ IF TamperRefusedBroken(v, IF IsOk(o.res) THEN "ok" ELSE "err")
     THEN Viol(e, "TamperRefused", [verdict |-> v, res |-> o.res]) ELSE TRUE
  /\ IF StillCancellableBroken(o)
     THEN Viol(e, "StillCancellable", [res |-> o.res, cancel |-> o.cancel, pending_after |-> o.pending_after,
                                        before |-> o.before, after |-> o.after]) ELSE TRUE

LayerM(e, c) ==
  IF ~CheckM THEN TRUE
  ELSE LET o == e.o
           p == Predict(c)
           want == ErrClass(p.why) IN
       /\ IF o.res = "panic" THEN NonConf(e, "panic", [detail |-> o.detail]) ELSE TRUE
       /\ IF (p.res = "ok") = IsOk(o.res) /\ (p.res = "err" /\ want # "*" => o.res = want) THEN TRUE
          ELSE NonConf(e, "Predict", [exp |-> p, obs |-> o.res, detail |-> o.detail])
       \* the realised deal has the requested shape (selection is C01's business; here it only binds the case)
       /\ IF o.deal.known /\ (Len(o.deal.ins) # c.nin \/ Len(o.deal.chg) # c.nch)
          THEN NonConf(e, "shape", [nin |-> Len(o.deal.ins), nch |-> Len(o.deal.chg)]) ELSE TRUE
       /\ IF o.unrep # 0 THEN NonConf(e, "unrepresentable-values", [n |-> o.unrep]) ELSE TRUE

Step ==
  LET e == Rec[l]
      c == Case(e.c) IN
  IF e.run = "ok" THEN LayerP(e, c) /\ LayerM(e, c)
  ELSE IF e.run = "noreply"
       THEN (IF CheckM /\ Predict(c).res # "noreply" THEN NonConf(e, "noreply", [exp |-> Predict(c)]) ELSE TRUE)
       ELSE PrintT(<<"SKIP", ToJson([line |-> l, id |-> e.c.id, cl |-> Class(c), why |-> e.run])>>)

TInit == l = 1
TNext == l <= Len(Rec) /\ Step /\ l' = l + 1
TSpec == TInit /\ [][TNext]_l

Consumed == IF TLCGet("stats").diameter - 1 = Len(Rec) THEN PrintT(<<"CONSUMED", Len(Rec)>>)
            ELSE PrintT(<<"STUCK", TLCGet("stats").diameter>>)
=============================================================================
