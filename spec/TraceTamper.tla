---------------------------- MODULE TraceTamper ----------------------------
(***************************************************************************)
(* Trace validation for C02.  Every line of the trace (harness/src/bin/    *)
(* replay_tamper) is one complete exchange executed on REAL wallets over a *)
(* real chain:                                                             *)
(*   {c: the case TLC generated (flow, shape, one or two alterations),     *)
(*    run: ok | noreply | skip:<why>,                                      *)
(*    o: the observed outcome: result class of finalize; for a success the *)
(*       produced transaction by name and value, the verdict of the real   *)
(*       verifier (Transaction::validate), byte equality with the stored   *)
(*       copy, acceptance by the real chain; the deal recorded at          *)
(*       initiation and the reservation found in the payer's store; for a  *)
(*       failure the results of cancelling and the balances before/after}. *)
(* For each line TLC evaluates                                             *)
(*   Layer P  FinalTxValidExact (SlateAlgebra!FinalTxBroken on the         *)
(*            observed transaction), TamperRefused (the ALGEBRA's verdict  *)
(*            for the case, recomputed here, against the observed result), *)
(*            StillCancellable (by slate id) after the last delivery; when *)
(*            the case re-delivered the GENUINE reply after the refusal    *)
(*            (o2): the same monitors on that second delivery ("Retry."),  *)
(*            FinalTxValidExact including "what the wallet holds Locked    *)
(*            for the slate = the inputs spent, one live TxSent entry"     *)
(*            - a failure prints VIOL: this, and only this, is a verdict;  *)
(*   Layer M  the observed result class is the one the transcription       *)
(*            SlateAlgebra!Finalize predicts and the realised deal has the *)
(*            shape the case asked for - a mismatch prints NONCONF only.   *)
(* The spec never stops at a failure, so the whole trace is examined.      *)
(***************************************************************************)
EXTENDS SlateAlgebra, Json, IOUtils, TLCExt

CONSTANT CheckM

VARIABLE l

Rec == ndJsonDeserialize(IOEnv.TRACE)

Case(j) == [flow |-> j.flow, nin |-> j.nin, nch |-> j.nch, incfee |-> j.incfee, proof |-> j.proof,
            stage |-> j.stage, tamper |-> j.tamper, tamper2 |-> j.tamper2]
Class(c) == c.flow \o ":" \o c.stage \o ":" \o c.tamper \o (IF c.tamper2 = "none" THEN "" ELSE "+" \o c.tamper2)

Viol(e, m, info) ==
  PrintT(<<"VIOL", ToJson([line |-> l, id |-> e.c.id, m |-> m, cl |-> Class(Case(e.c)), info |-> info])>>)
NonConf(e, what, info) ==
  PrintT(<<"NONCONF", ToJson([line |-> l, id |-> e.c.id, what |-> what, cl |-> Class(Case(e.c)), info |-> info])>>)

IsOk(res) == res = "ok"

Retried(e) == "o2" \in DOMAIN e
\* the last delivery of the case: cancellation is judged after it
LastO(e) == IF Retried(e) THEN e.o2 ELSE e.o

LayerP(e, c) ==
  LET o == e.o
      v == Verdict(c) IN
  /\ IF IsOk(o.res)
     THEN \A m \in FinalTxBroken(o) : Viol(e, "FinalTxValidExact." \o m, [tx |-> o.tx, deal |-> o.deal, resv |-> o.resv])
     ELSE TRUE
  /\ IF TamperRefusedBroken(v, IF IsOk(o.res) THEN "ok" ELSE "err")
     THEN Viol(e, "TamperRefused", [verdict |-> v, res |-> o.res]) ELSE TRUE
  \* second delivery: the reply the counterparty really sent, after the altered one was refused
  /\ IF Retried(e) /\ IsOk(e.o2.res)
     THEN \A m \in FinalTxBroken(e.o2) : Viol(e, "Retry.FinalTxValidExact." \o m, [tx |-> e.o2.tx, deal |-> e.o2.deal, resv |-> e.o2.resv])
     ELSE TRUE
  /\ IF Retried(e) /\ TamperRefusedBroken(Verdict2(c), IF IsOk(e.o2.res) THEN "ok" ELSE "err")
     THEN Viol(e, "Retry.TamperRefused", [verdict |-> Verdict2(c), res |-> e.o2.res]) ELSE TRUE
  /\ IF StillCancellableBroken(LastO(e))
     THEN Viol(e, IF Retried(e) THEN "Retry.StillCancellable" ELSE "StillCancellable",
               [res |-> LastO(e).res, by |-> e.cancel_by, cancel |-> LastO(e).cancel, pending_after |-> LastO(e).pending_after,
                before |-> LastO(e).before, after |-> LastO(e).after]) ELSE TRUE

LayerM(e, c) ==
  IF ~CheckM THEN TRUE
  ELSE LET o == e.o
           p == Predict(c)
           want == ErrClass(p.why) IN
       /\ IF o.res = "panic" THEN NonConf(e, "panic", [detail |-> o.detail]) ELSE TRUE
       /\ IF (p.res = "ok") = IsOk(o.res) /\ (p.res = "err" /\ want # "*" => o.res = want) THEN TRUE
          ELSE NonConf(e, "Predict", [exp |-> p, obs |-> o.res, detail |-> o.detail])
       \* the second delivery is predicted from what the transcription says the first one left behind
       /\ IF ~Retried(e) THEN TRUE
          ELSE LET p2 == Predict2(c) IN
               IF (p2.res = "ok") = IsOk(e.o2.res) /\ (p2.res = "err" /\ ErrClass(p2.why) # "*" => e.o2.res = ErrClass(p2.why)) THEN TRUE
               ELSE NonConf(e, "Predict2", [exp |-> p2, obs |-> e.o2.res, detail |-> e.o2.detail])
       \* the realised deal has the requested shape (selection is C01's business; here it only binds the case)
       /\ IF o.deal.known /\ (Len(o.deal.ins) # c.nin \/ Len(o.deal.chg) # c.nch)
          THEN NonConf(e, "shape", [nin |-> Len(o.deal.ins), nch |-> Len(o.deal.chg)]) ELSE TRUE
       /\ IF o.unrep # 0 THEN NonConf(e, "unrepresentable-values", [n |-> o.unrep]) ELSE TRUE

Step ==
  LET e == Rec[l]
      c == Case(e.c) IN
  IF e.run = "ok" THEN LayerP(e, c) /\ LayerM(e, c)
  ELSE IF e.run = "noreply"
       THEN (IF CheckM /\ Predict(c).res # "noreply" THEN NonConf(e, "noreply", [exp |-> Predict(c)]) ELSE TRUE)
       ELSE PrintT(<<"SKIP", ToJson([line |-> l, id |-> e.c.id, cl |-> Class(c), why |-> e.run])>>)

TInit == l = 1
TNext == l <= Len(Rec) /\ Step /\ l' = l + 1
TSpec == TInit /\ [][TNext]_l

Consumed == IF TLCGet("stats").diameter - 1 = Len(Rec) THEN PrintT(<<"CONSUMED", Len(Rec)>>)
            ELSE PrintT(<<"STUCK", TLCGet("stats").diameter>>)
=============================================================================
