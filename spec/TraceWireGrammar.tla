-------------------------- MODULE TraceWireGrammar --------------------------
(***************************************************************************)
(* Trace validation of the decode runs recorded by harness/replay_decode   *)
(* on the REAL decoders of /repo.  One line per materialised input, with   *)
(* one record per entry point it was fed to:                               *)
(*    res  ok | err | errm | panic | hang | alloc | abort | skip           *)
(*    site normalised panic location, pre/post digest of the wallet store  *)
(*                                                                         *)
(* Layer P (verdict): the predicates of property Total of WireGrammar.tla  *)
(*   evaluated on the OBSERVED run: a decoder returns a value or an error; *)
(*   it does not panic, abort the process, hang, or allocate beyond the    *)
(*   cap; and a rejected input leaves the wallet store as it was.          *)
(* Layer M (NONCONFORMANCE only):                                          *)
(*   - the real encoders' output parses under the leaf lists of the        *)
(*     grammar with nothing left over (kind = "inst": walk),               *)
(*   - the executed case is a case of the grammar (IsCase) and was fed to  *)
(*     exactly the entry points the spec names (EPsFor),                   *)
(*   - the observed outcome is the one the pipeline machine predicts       *)
(*     (Conforms / Run).                                                   *)
(* Lines of kind "multi" (several mutations at once) and "junk" (seeded    *)
(* random input; the model's Junk) are judged by Layer P alone.            *)
(***************************************************************************)
EXTENDS WireGrammar, Json, IOUtils, TLCExt, SequencesExt

CONSTANT CheckM

VARIABLE l
Rec == ndJsonDeserialize(IOEnv.TRACE)

\* the size class is bound from the log: the logged length against the bounds the harness read from the code
CaseOf(r) == [chain |-> r.chain, inst |-> r.inst, layer |-> r.layer, lname |-> r.lname, leaf |-> r.leaf, ln |-> r.ln, m |-> r.m, a |-> r.a,
              sz |-> IF r.len > r.maxsize THEN "big" ELSE IF r.len < r.minsize THEN "small" ELSE "ok"]

Viol(mon, r, run) ==
  PrintT(<<"VIOL", ToJson([p |-> "C09", m |-> mon, line |-> l, i |-> r.i, kind |-> r.kind, ep |-> run.ep, res |-> run.res,
                           site |-> run.site, msg |-> run.msg, chain |-> r.chain, inst |-> r.inst, lname |-> r.lname, ln |-> r.ln,
                           mu |-> r.m, a |-> r.a, len |-> r.len, hex |-> r.hex])>>)
NonConf(what, r, ep, info) ==
  PrintT(<<"NONCONF", ToJson([line |-> l, i |-> r.i, kind |-> r.kind, what |-> what, ep |-> ep, info |-> info,
                              chain |-> r.chain, inst |-> r.inst, lname |-> r.lname, ln |-> r.ln, mu |-> r.m, a |-> r.a])>>)
Check(c, mon, r, run) == IF c THEN TRUE ELSE Viol(mon, r, run)
CheckM_(c, what, r, ep, info) == IF ~CheckM THEN TRUE ELSE IF c THEN TRUE ELSE NonConf(what, r, ep, info)

\* ---------------------------------------------------------------- Layer P
Executed(run) == run.res # "skip"
LayerP(r) ==
  \A k \in DOMAIN r.runs :
    LET run == r.runs[k] IN
    Executed(run) =>
      /\ Check(ObsNoPanic(run), "NoPanic", r, run)
      /\ Check(ObsNoAbort(run), "NoAbort", r, run)
      /\ Check(ObsTerminates(run), "Terminates", r, run)
      /\ Check(ObsBoundedAlloc(run), "BoundedAlloc", r, run)
      /\ Check(ObsRejectLeavesStore(run), "RejectLeavesStore", r, run)

\* ---------------------------------------------------------------- Layer M
EpSet(r) == {r.runs[k].ep : k \in DOMAIN r.runs}
LayerM(r) ==
  CASE r.kind = "inst" ->
         /\ \A k \in DOMAIN r.walk : CheckM_(r.walk[k].ok, "grammar-walk", r, "", r.walk[k].ly)
         /\ CheckM_(IsInst(r.chain, r.inst), "unknown-instance", r, "", "")
         /\ \A k \in DOMAIN r.runs :
              LET run == r.runs[k] IN
              Executed(run) => CheckM_(Conforms(CaseOf(r), run), "baseline-outcome", r, run.ep,
                                       [obs |-> run.res, exp |-> Run(CaseOf(r), run.ep).res, msg |-> run.msg])
    [] r.kind = "case" ->
         /\ CheckM_(r.mat = "ok", "not-materialised", r, "", r.mat)
         /\ CheckM_(IsCase(CaseOf(r)), "not-a-case", r, "", "")
         /\ (r.mat = "ok" /\ IsCase(CaseOf(r))) =>
              /\ CheckM_(EpSet(r) = EPsFor(CaseOf(r)), "entry-points", r, "", EpSet(r))
              /\ \A k \in DOMAIN r.runs :
                   LET run == r.runs[k] IN
                   Executed(run) => CheckM_(Conforms(CaseOf(r), run), "outcome", r, run.ep,
                                            [obs |-> run.res, exp |-> Run(CaseOf(r), run.ep).res, site |-> run.site, msg |-> run.msg])
    [] OTHER -> TRUE

TInit == l = 1
TNext == /\ l <= Len(Rec)
         /\ LayerP(Rec[l])
         /\ LayerM(Rec[l])
         /\ l' = l + 1
TSpec == TInit /\ [][TNext]_l

Consumed == IF TLCGet("stats").diameter - 1 = Len(Rec) THEN PrintT(<<"CONSUMED", Len(Rec)>>)
            ELSE PrintT(<<"STUCK", TLCGet("stats").diameter>>)
=============================================================================
