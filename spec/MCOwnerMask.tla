---------------------------- MODULE MCOwnerMask ----------------------------
(***************************************************************************)
(* Bounded model for C14.  A masked wallet `w` and its unmasked twin `u`   *)
(* (same seed, same history) start in one of the named wallet states and   *)
(* are driven through histories of at most MaxHist state-changing steps:   *)
(* right-token owner calls from HistOps, close_wallet, open_wallet, node   *)
(* outages.  In EVERY reachable state EVERY (method, variant) is invoked   *)
(* with EVERY kind of token.  TLC                                          *)
(*   MC   evaluates MaskSound / MaskTransparent / ClosedIsDead             *)
(*        (OwnerMask.tla) on every such transition of the model, and       *)
(*   GEN  prints every transition as a CASE line: the named start state,   *)
(*        the history that reaches the state, the call and its token.      *)
(*        The runner turns them into scenarios for harness/replay_mask.    *)
(* `hist` and `last` are hidden behind VIEW: the state graph is the graph  *)
(* of wallet states and every (state, call, token) is one edge.            *)
(***************************************************************************)
EXTENDS OwnerMask, Json

CONSTANTS Inits,      \* subset of InitNames
          MaxHist,    \* state-changing steps per history
          MaxGen,     \* masks a wallet may draw (1 + number of reopens)
          HistOps,    \* subset of MV: right-token calls that may extend a history
          UseNode,    \* node outages in histories
          UseClose    \* close_wallet / open_wallet in histories

\* choices for HistOps (a .cfg cannot write tuples): `HistOps <- HistOpsShort`
HistOpsShort == {<<"init_send_tx", "plain">>, <<"tx_lock_outputs", "ctx">>, <<"finalize_tx", "reply">>, <<"cancel_tx", "byid">>,
                 <<"set_active_account", "second">>}
HistOpsFull  == HistOpsShort \cup
                {<<"create_account_path", "new">>, <<"set_active_account", "default">>,
                 <<"issue_invoice_tx", "plain">>, <<"process_invoice_tx", "plain">>, <<"build_output", "plain">>,
                 <<"retrieve_summary_info", "refresh">>}

VARIABLES w, u, init, hist, last,
          closed     \* history: close_wallet was called and open_wallet has not been since
vars == <<w, u, init, hist, last, closed>>

Init == /\ init \in Inits
        /\ w = NewWallet(init, TRUE)
        /\ u = NewWallet(init, FALSE)
        /\ hist = <<>>
        /\ last = [k |-> "init"]
        /\ closed = FALSE

\* a right-token call that changes the wallet extends the history
HistCall ==
  /\ Len(hist) < MaxHist
  /\ \E mv \in HistOps :
       LET e == Exec(w, mv[1], mv[2], Tok(w, "right"))
           t == Exec(u, mv[1], mv[2], Tok(u, "right")) IN
       /\ e.w # w
       /\ e.w.f.nacct <= 2
       /\ w' = e.w /\ u' = t.w
       /\ hist' = Append(hist, [op |-> "call", m |-> mv[1], v |-> mv[2]])
       /\ last' = [k |-> "hist", m |-> mv[1], v |-> mv[2], tok |-> "right"]
  /\ UNCHANGED <<init, closed>>
Close ==
  /\ UseClose /\ ~closed /\ Len(hist) < MaxHist
  /\ w' = CloseWallet(w) /\ u' = CloseWallet(u)
  /\ hist' = Append(hist, [op |-> "close"])
  /\ last' = [k |-> "close"]
  /\ closed' = TRUE
  /\ UNCHANGED init
Reopen ==
  /\ UseClose /\ closed /\ Len(hist) < MaxHist /\ w.gen < MaxGen
  /\ w' = OpenWallet(w, TRUE) /\ u' = OpenWallet(u, FALSE)
  /\ hist' = Append(hist, [op |-> "reopen"])
  /\ last' = [k |-> "reopen"]
  /\ closed' = FALSE
  /\ UNCHANGED init
Node ==
  /\ UseNode /\ Len(hist) < MaxHist
  /\ w' = [w EXCEPT !.node = ~@] /\ u' = [u EXCEPT !.node = ~@]
  /\ hist' = Append(hist, [op |-> "node", up |-> ~w.node])
  /\ last' = [k |-> "node"]
  /\ UNCHANGED <<init, closed>>
\* every call with every token in the current state (the wallet is put back afterwards:
\* the harness restores a snapshot when the store changed)
Case ==
  /\ \E mv \in MV, kind \in KindsFor(w) :
       last' = [k |-> "case", m |-> mv[1], v |-> mv[2], tok |-> kind]
  /\ UNCHANGED <<w, u, init, hist, closed>>
Next == HistCall \/ Close \/ Reopen \/ Node \/ Case
Spec == Init /\ [][Next]_vars
View == <<w, u, init, closed>>

TypeOK == /\ w.inst \in BOOLEAN /\ w.masked /\ ~u.masked
          /\ w.gen \in 1..MaxGen /\ u.gen = 0
          /\ w.f.free \in 0..3 /\ w.f.nacct \in 1..2
          /\ w.active \in {"default", "acct1"}

\* --------------------------------------------------------------- checking
\* the twin never needs a token, and what both wallets hold is the same
Proj(x) == [f |-> x.f, ver |-> x.ver, active |-> x.active, inst |-> x.inst]
Inv_Twin == Proj(w) = Proj(u)
\* the right token always opens the masked wallet; no other kind ever does
Inv_Tokens == ~closed => \A k \in KindsFor(w) : (Keychain(w, Tok(w, k)) = "ok") <=> (k = "right")

IsCall == last'.k \in {"case", "hist"}
M == last'.m
V == last'.v
K == last'.tok
E == Exec(w, M, V, Tok(w, K))
T == Exec(u, M, V, Tok(u, "right"))
Wrong == ~IsRight(w, Tok(w, K))
Cls == ClassOf(M, V, w.node)
RR == Exec(w, M, V, Tok(w, "right")).res
O == [res |-> E.res, same |-> E.same, ret |-> E.res, proj |-> Proj(E.w)]
TO == [res |-> T.res, same |-> T.same, ret |-> T.res, proj |-> Proj(T.w)]
Holds(i) ==
  CASE i = 1 -> MaskSound_Refused(Cls, Wrong, O)
    [] i = 2 -> MaskSound_InvalidMask(Cls, Wrong, O, RR)
    [] i = 3 -> MaskSound_StoreUnchanged(Wrong, O)
    [] i = 4 -> (K = "right") => MaskTransparent(O, TO)
    [] i = 5 -> ClosedIsDead(Cls, closed, O)
Failing == {i \in 1..5 : ~Holds(i)}
Prop_Mask ==
  [][IsCall =>
       IF Failing = {} THEN TRUE
       ELSE PrintT(<<"CEX", ToJson([inv |-> Monitors[CHOOSE i \in Failing : TRUE], init |-> init, hist |-> hist,
                                    m |-> M, v |-> V, tok |-> K])>>) /\ FALSE]_vars

\* --------------------------------------------------------------- generation
\* the twin is invoked with: right -> no token; random / other -> the same kind (wrong for it)
TwinKind == IF K \in {"right", "random", "other"} THEN K ELSE "none"
EmitCases ==
  [][(last'.k = "case") =>
       PrintT(<<"CASE", ToJson([init |-> init, hist |-> hist, m |-> M, v |-> V, tok |-> K, cls |-> Cls,
                                closed |-> closed, node |-> w.node,
                                pred |-> E.res, touch |-> E.touched,
                                twin |-> IF TwinKind = "none" THEN "" ELSE Exec(u, M, V, Tok(u, TwinKind)).res])>>)]_vars

\* vacuity witnesses: each must be REACHABLE (the runner checks them as violated "invariants")
W_Closed    == ~closed                                  \* a closed wallet is reached
W_Reopened  == ~(w.inst /\ w.gen >= 2)                  \* ... and reopened with a new mask
W_Locked    == ~(w.f.sent /\ w.f.free = 0)              \* every coin reserved
W_Finalized == ~(w.f.fin /\ ~w.f.done)                  \* a send finalized by a history
W_Account   == ~(w.active = "acct1")                    \* volatile state changed
W_NodeDown  == w.node
=============================================================================
