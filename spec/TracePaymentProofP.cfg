\* trace validation, Layer P only (fallback when Layer M cannot be evaluated)
CONSTANTS
  CheckM = FALSE
  Dev = {}
SPECIFICATION TSpec
POSTCONDITION Consumed
CHECK_DEADLOCK FALSE
