----------------------------- MODULE ConcWallet -----------------------------
(***************************************************************************)
(* C20 - the multi-section operations at wallet-lock granularity.          *)
(*                                                                         *)
(* owner::update_wallet_state (behind every retrieve_*(refresh = true),    *)
(* cancel_tx and the updater thread) and owner::scan release the wallet    *)
(* mutex between their sections and keep LOCAL COPIES of what they read     *)
(* (the outstanding log entries, the chain's outputs, the wallet's output   *)
(* records).  This module transcribes them as an explicit program:          *)
(*   RInit(s, w, kind, del)   the locals before the first section           *)
(*   RStep(s, rl)             ONE lock acquisition: the section body under   *)
(*                            the lock, then the lock-free tail that follows *)
(*                            it (node look-ups made before the next lock)   *)
(* and interleaves it with the single-section operations of Wallet.tla      *)
(* (ApplyEv).  TLC checks                                                   *)
(*   Lemma_Alone      run without interleaving, the sections compose to     *)
(*                    RefreshFull / Scan of Wallet.tla                      *)
(*   Serializable     every interleaving ends in a state some serial order  *)
(*                    of the same operations produces                        *)
(* The real code is driven through the same schedules by replay_conc.       *)
(***************************************************************************)
EXTENDS MCWallet

\* ------------------------------------------------------------------ locals
NoLocals(w, kind, del) ==
  [pc |-> "p1", w |-> w, kind |-> kind, del |-> del, a |-> "a0",
   snap |-> <<>>,        \* copies of the outstanding entries (txkey -> entry)
   cands |-> <<>>,       \* txkeys in processing order
   kpos |-> 1, kfound |-> "",
   H1 |-> 0, H2 |-> 0, start |-> 0,
   chainOuts |-> {},     \* the seed's outputs the node reported (scan)
   chainH |-> <<>>,      \* outid -> height reported
   wouts |-> <<>>,       \* copy of the wallet's output records (scan)
   acc |-> <<>>, mis |-> <<>>, lck |-> <<>>, unc |-> <<>>, qi |-> 1,
   exp |-> <<>>,         \* expired snapshot entries still to cancel
   res |-> "run"]        \* "run" | "ok" | "notrefreshed" | "err"

RInit(s, w, kind, del) == [NoLocals(w, kind, del) EXCEPT !.a = s.w[w].active,
                                                       !.pc = IF kind = "scan" THEN "u1" ELSE "p1"]
RDone(rl) == rl.res # "run"

\* entries in the order update_txs_via_kernel walks them (creation order = id order)
OrderedKeys(f) == SortSeq(AnySeq(DOMAIN f), LAMBDA x, y : f[x].id < f[y].id)

\* lock-free: next snapshot entry (from position p) whose kernel the node has NOW
NextKernel(s, rl, p) ==
  LET ok(i) == LET e == rl.snap[rl.cands[i]] IN
               /\ ~e.conf /\ ~(e.db # 0 /\ e.cr # 0) /\ e.kern # ""
               /\ KernelOnChain(s, e.kern, MaxOf(e.minh, 0), rl.H1)
      hits == {i \in p..Len(rl.cands) : ok(i)} IN
  IF hits = {} THEN 0 ELSE CHOOSE i \in hits : \A j \in hits : i <= j

\* after the kernel loop: the tip is read, then section s7
AfterKernels(s, rl) == [rl EXCEPT !.pc = "s7", !.H2 = Height(s), !.kfound = ""]
KernelTail(s, rl, p) ==
  LET i == NextKernel(s, rl, p) IN
  IF i = 0 THEN AfterKernels(s, rl)
  ELSE [rl EXCEPT !.pc = "kw", !.kfound = rl.cands[i], !.kpos = i + 1]

\* lock-free classification after the wallet snapshot of scan
Classify(s, rl) ==
  LET w == rl.w
      m(o) == s.reg[o].key \in DOMAIN rl.wouts /\ rl.wouts[s.reg[o].key].v = s.reg[o].v
      ord(S) == SortSeq(AnySeq(S), LAMBDA x, y : rl.chainH[x] < rl.chainH[y]) IN
  [rl EXCEPT !.acc = ord({o \in rl.chainOuts : m(o) /\ rl.wouts[s.reg[o].key].st = "Spent"}),
             !.lck = ord({o \in rl.chainOuts : m(o) /\ rl.wouts[s.reg[o].key].st = "Locked"}),
             !.mis = ord({o \in rl.chainOuts : ~m(o)}),
             !.unc = AnySeq({k \in DOMAIN rl.wouts : rl.wouts[k].st = "Unconfirmed" /\ ~\E o \in rl.chainOuts : m(o) /\ s.reg[o].key = k}),
             !.qi = 1]
\* which repair section comes next
NextRepair(rl, after) ==
  LET seqs == <<"accC", "mis", "lckC", "uncC", "scF">>
      len(p) == CASE p = "accC" -> Len(rl.acc) [] p = "mis" -> Len(rl.mis)
                  [] p = "lckC" -> IF rl.del THEN Len(rl.lck) ELSE 0
                  [] p = "uncC" -> IF rl.del THEN Len(rl.unc) ELSE 0 [] OTHER -> 1
      idx == IF \E i \in 1..5 : seqs[i] = after THEN CHOOSE i \in 1..5 : seqs[i] = after ELSE 0
      later == {i \in (idx + 1)..5 : len(seqs[i]) > 0} IN
  seqs[CHOOSE i \in later : \A j \in later : i <= j]
Advance(rl, cur, n) ==    \* inside a repair list: next element or next list
  IF rl.qi < n THEN [rl EXCEPT !.qi = @ + 1, !.pc = cur]
  ELSE [rl EXCEPT !.qi = 1, !.pc = NextRepair(rl, cur)]

\* --------------------------------------------------------- one acquisition
RStep(s, rl) ==
  LET w == rl.w  a == rl.a IN
  CASE rl.pc = "p1" -> [st |-> s, rl |-> [rl EXCEPT !.pc = "p2"]]
    [] rl.pc = "p2" -> [st |-> s, rl |-> [rl EXCEPT !.pc = "r1"]]
    [] rl.pc = "r1" -> [st |-> Refresh1(s, w, a, FALSE), rl |-> [rl EXCEPT !.pc = "snapT"]]
    [] rl.pc = "snapT" ->
         LET T == Outstanding(s, w, a)
             snap == [t \in T |-> s.w[w].txs[t]] IN
         [st |-> s, rl |-> [rl EXCEPT !.snap = snap, !.cands = OrderedKeys(snap), !.pc = "k1"]]
    [] rl.pc = "k1" -> [st |-> s, rl |-> [rl EXCEPT !.pc = "k2"]]
    [] rl.pc = "k2" -> LET r1 == [rl EXCEPT !.H1 = Height(s)] IN [st |-> s, rl |-> KernelTail(s, r1, 1)]
    [] rl.pc = "kw" ->
         LET t == rl.kfound
             ok == /\ t \in DOMAIN s.w[w].txs
                   /\ s.w[w].txs[t].ty = rl.snap[t].ty /\ ~s.w[w].txs[t].conf /\ s.w[w].txs[t].kern = rl.snap[t].kern
             s1 == IF ok THEN [s EXCEPT !.w[w].txs[t].conf = TRUE] ELSE s IN
         [st |-> s1, rl |-> KernelTail(s1, rl, rl.kpos)]
    [] rl.pc = "s7" ->
         [st |-> s, rl |-> [rl EXCEPT !.start = IF s.w[w].scanned > 100 THEN s.w[w].scanned - 100 ELSE 0, !.pc = "sc1"]]
    \* --- owner::scan prologue
    [] rl.pc = "u1" -> [st |-> Refresh1(s, w, a, TRUE), rl |-> [rl EXCEPT !.pc = "t1"]]
    [] rl.pc = "t1" -> [st |-> s, rl |-> [rl EXCEPT !.H2 = Height(s), !.start = 1, !.pc = "sc1"]]
    \* --- scan::scan
    [] rl.pc = "sc1" ->     \* client + keychain; then the node is asked for the outputs (lock-free)
         LET owned == {o \in ScanOwned(s, w, rl.start) : HeightOfOut(s, o) <= rl.H2} IN
         [st |-> s, rl |-> [rl EXCEPT !.chainOuts = owned, !.chainH = [o \in owned |-> HeightOfOut(s, o)], !.pc = "sc2"]]
    [] rl.pc = "sc2" ->
         LET r1 == Classify(s, [rl EXCEPT !.wouts = s.w[w].outs]) IN
         [st |-> s, rl |-> [r1 EXCEPT !.pc = NextRepair(r1, "sc2x")]]
    [] rl.pc = "accC" -> [st |-> ScanCancelEntry(s, w, rl.wouts[s.reg[rl.acc[rl.qi]].key]), rl |-> [rl EXCEPT !.pc = "accS"]]
    [] rl.pc = "accS" ->
         LET o == rl.acc[rl.qi]  k == s.reg[o].key IN
         [st |-> [s EXCEPT !.w[w].outs = Put(@, k, [rl.wouts[k] EXCEPT !.st = "Unspent", !.h = rl.chainH[o]])],
          rl |-> Advance(rl, "accC", Len(rl.acc))]
    [] rl.pc = "mis" ->
         LET o == rl.mis[rl.qi]
             sx == [s EXCEPT !.chain = s.chain]     \* restore uses what the node reported
             r == ScanRestoreOne(s, w, o, rl.chainH[o]) IN
         [st |-> r, rl |-> Advance(rl, "mis", Len(rl.mis))]
    [] rl.pc = "lckC" -> [st |-> ScanCancelEntry(s, w, rl.wouts[s.reg[rl.lck[rl.qi]].key]), rl |-> [rl EXCEPT !.pc = "lckS"]]
    [] rl.pc = "lckS" ->
         LET o == rl.lck[rl.qi]  k == s.reg[o].key IN
         [st |-> [s EXCEPT !.w[w].outs = Put(@, k, [rl.wouts[k] EXCEPT !.st = "Unspent", !.h = rl.chainH[o]])],
          rl |-> Advance(rl, "lckC", Len(rl.lck))]
    [] rl.pc = "uncC" -> [st |-> ScanCancelEntry(s, w, rl.wouts[rl.unc[rl.qi]]), rl |-> [rl EXCEPT !.pc = "uncD"]]
    [] rl.pc = "uncD" -> [st |-> [s EXCEPT !.w[w].outs = Del(@, {rl.unc[rl.qi]})], rl |-> Advance(rl, "uncC", Len(rl.unc))]
    [] rl.pc = "scF" ->
         LET pas == {s.reg[rl.mis[i]].pa : i \in DOMAIN rl.mis}
             maxn == [x \in pas |-> LET ns == {s.reg[rl.mis[i]].n : i \in {j \in DOMAIN rl.mis : s.reg[rl.mis[j]].pa = x}} IN
                                    CHOOSE n \in ns : \A m \in ns : n >= m]
             fx == ScanFixChild(s, w, pas, maxn) IN
         [st |-> LastOr(fx, s), rl |-> [rl EXCEPT !.pc = "s8"]]
    [] rl.pc = "s8" ->
         LET s1 == [s EXCEPT !.w[w].scanned = rl.H2]
             ex == IF rl.kind = "scan" THEN <<>>
                   ELSE SelectSeq(rl.cands, LAMBDA t : rl.snap[t].ttl # 0 /\ rl.H2 >= rl.snap[t].ttl) IN
         [st |-> s1, rl |-> IF rl.kind = "scan" THEN [rl EXCEPT !.pc = "end", !.res = "ok"]
                            ELSE IF Len(ex) = 0 THEN [rl EXCEPT !.pc = "fin"]
                            ELSE [rl EXCEPT !.exp = ex, !.qi = 1, !.pc = "ttl"]]
    [] rl.pc = "ttl" ->
         LET r == CancelBody(s, w, [id |-> rl.snap[rl.exp[rl.qi]].id, sl |-> ""]) IN
         IF r.res # "ok" THEN [st |-> s, rl |-> [rl EXCEPT !.pc = "end", !.res = "err"]]
         ELSE [st |-> LastOf(r.steps),
               rl |-> IF rl.qi < Len(rl.exp) THEN [rl EXCEPT !.qi = @ + 1] ELSE [rl EXCEPT !.pc = "fin"]]
    [] rl.pc = "fin" -> [st |-> s, rl |-> [rl EXCEPT !.pc = "end", !.res = "ok"]]   \* the caller's own read section
    [] OTHER -> [st |-> s, rl |-> [rl EXCEPT !.res = "err"]]

\* run R to completion without interleaving
RECURSIVE RunR(_, _, _)
RunR(s, rl, fuel) == IF RDone(rl) \/ fuel = 0 THEN s ELSE LET x == RStep(s, rl) IN RunR(x.st, x.rl, fuel - 1)
RunAlone(s, w, kind, del) == RunR(s, RInit(s, w, kind, del), 200)

\* ----------------------------------------------------- the other operations
\* pure versions of the MCWallet actions: apply event e to (world, messages)
ApplyEv(s, n, e) ==
  CASE e.ev = "lock" ->
         LET ms == {m \in n : m.sl = e.sl /\ m.stage = e.stage}
             ttl == IF ms = {} THEN 0 ELSE (CHOOSE m \in ms : TRUE).ttl
             r == Lock(s, e.w, [sl |-> e.sl, stage |-> e.stage, ttl |-> ttl, hasproof |-> FALSE]) IN
         [st |-> LastOr(r.steps, s), net |-> n]
    [] e.ev = "finalize" ->
         LET ms == {m \in n : m.sl = e.sl /\ m.stage = "S2" /\ m.rep = e.rep} IN
         IF ms = {} \/ e.sl \notin DOMAIN s.w[e.w].ctxs THEN [st |-> s, net |-> n]
         ELSE LET m == CHOOSE x \in ms : TRUE
                  cx == s.w[e.w].ctxs[e.sl]
                  sel == Select(s, e.w, cx.acct, cx.amt, Height(s), 1, 1)
                  r == Finalize(s, e.w, [sl |-> e.sl, stage |-> "S2", rep |-> m.rep, rkern |-> "rpart", ttl |-> m.ttl,
                                         valid |-> TRUE, proofok |-> TRUE, hasproof |-> FALSE, rout |-> {m.rout},
                                         lsel |-> sel.sel, lchg |-> ChgSeq(sel)]) IN
              [st |-> LastOr(r.steps, s), net |-> n]
    [] e.ev = "cancel" ->
         LET r == Cancel(s, e.w, [id |-> e.id, sl |-> ""], TRUE) IN [st |-> LastOr(r.steps, s), net |-> n]
    [] e.ev = "mine" -> [st |-> MineForeign(s, PickValid(s, s.pool, {})), net |-> n]
    [] e.ev = "post" -> [st |-> IF e.sl \in DOMAIN s.body THEN Post(s, e.sl) ELSE s, net |-> n]
    [] e.ev = "receive" ->
         LET ms == {m \in n : m.sl = e.sl /\ m.stage = "S1"} IN
         IF ms = {} THEN [st |-> s, net |-> n]
         ELSE LET m == CHOOSE x \in ms : TRUE
                  r == Receive(s, e.w, [sl |-> e.sl, dest |-> "", amt |-> m.amt, ttl |-> m.ttl, hasproof |-> FALSE, kernin |-> "part"]) IN
              IF r.res = "ok" THEN [st |-> LastOf(r.steps), net |-> n \cup {Msg(e.sl, "S2", m.amt, m.ttl, OID(s, e.w, r.key), r.rep)}]
              ELSE [st |-> s, net |-> n]
    [] e.ev = "refreshall" -> [st |-> RunAlone(s, e.w, e.kind, e.del), net |-> n]
    [] OTHER -> [st |-> s, net |-> n]

RECURSIVE Fold(_, _, _, _)
Fold(s, n, es, i) == IF i > Len(es) THEN [st |-> s, net |-> n]
                     ELSE LET x == ApplyEv(s, n, es[i]) IN Fold(x.st, x.net, es, i + 1)

\* ------------------------------------------------------------- projection
\* what C20 compares (Appendix B): records, entries as a bag modulo log ids, contexts,
\* key indices; not timestamps, last confirmed height, scan bookkeeping
ProjW(wr) ==
  LET ent(a, id) == IF TxKeyOf(a, id) \in DOMAIN wr.txs THEN [wr.txs[TxKeyOf(a, id)] EXCEPT !.id = 0, !.minh = 0] ELSE [none |-> id] IN
  [outs |-> [k \in DOMAIN wr.outs |-> [st |-> wr.outs[k].st, v |-> wr.outs[k].v, acct |-> wr.outs[k].acct,
                                      e |-> IF wr.outs[k].tx = NoTx THEN [none |-> -1] ELSE ent(wr.outs[k].pa, wr.outs[k].tx)]],
   txs |-> {[wr.txs[t] EXCEPT !.id = 0, !.minh = 0] : t \in DOMAIN wr.txs},
   ctxs |-> DOMAIN wr.ctxs, files |-> wr.files,
   idx |-> [x \in DOMAIN wr.idx |-> [child |-> wr.idx[x].child, log |-> wr.idx[x].log]]]
Proj(s) == [w \in DOMAIN s.w |-> ProjW(s.w[w])]
=============================================================================
