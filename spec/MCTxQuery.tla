------------------------------ MODULE MCTxQuery ------------------------------
(***************************************************************************)
(* Bounded model / case generator for TxQuery.tla (property C19).          *)
(*                                                                         *)
(* A state is one CASE: a transaction log, the active account, one query   *)
(* and the answer the code model RunCode gives.  TLC                       *)
(*  - enumerates the logs (exhaustively for one-entry logs when            *)
(*    ExhaustOne; a -seed'ed random sample of logs of 1..MaxLen entries    *)
(*    over all six types x two accounts x confirmed/unconfirmed x three    *)
(*    creation times x four confirmation times x nine amount shapes x      *)
(*    three slate ids; plus one designed seven-entry log on which every    *)
(*    field discriminates), and for every log BOTH active accounts;        *)
(*  - enumerates the queries: every single field at every value of its     *)
(*    discriminating range (below / equal / above every id, time, amount   *)
(*    and length that occurs); with Arity >= 2 every PAIR of fields and    *)
(*    RetrieveTxQueryArgs::default() with every single field on top (ten   *)
(*    supplied fields); a -seed'ed random sample of up to six-field        *)
(*    combinations (three filters + sort field x order x limit; NRand per  *)
(*    log and account); and the legacy look-ups by id / slate id / both /  *)
(*    none, with and without query_args;                                   *)
(*  - model-checks on every case                                           *)
(*      Inv_Reference   the reference answer breaks no monitor             *)
(*      Inv_Repaired    the code model WITHOUT deviations breaks no        *)
(*                      monitor and equals the reference up to tie order   *)
(*      Inv_Readings    Must => Sat => May for every criterion and entry   *)
(*    and records which monitors the code model WITH the deviations `Dev`  *)
(*    breaks (model counter-examples; the runner replays them on the real  *)
(*    code before anything is reported);                                   *)
(*  - prints every case as JSON (tag CASE): the stimulus for               *)
(*    harness/replay_query.                                                *)
(***************************************************************************)
EXTENDS TxQuery, Randomization, Json

CONSTANTS MaxLen,       \* longest sampled log
          NLogs,        \* number of sampled logs
          ExhaustOne,   \* TRUE: additionally ALL one-entry logs (slate ids left out)
          Arity,        \* 1: single fields; 2: also all pairs of fields
          NRand,        \* random multi-field queries per (log, active)
          Dev           \* deviations switched on in the code model

VARIABLES log, active, q, out, rq
vars == <<log, active, q, out, rq>>

\* ------------------------------------------------------------------ logs
CrVals == {0, 2, 5}
DbVals == {0, 3, 4}
SlateOf(n) == IF n = 0 THEN NoSlate ELSE IF n = 1 THEN "s1" ELSE "s2"
Body == [ty : TxTypes, acct : Accounts, conf : BOOLEAN, cts : 1..3, fts : 0..3, cr : CrVals, db : DbVals, sl : 0..2]
BodyNoSlate == [ty : TxTypes, acct : Accounts, conf : BOOLEAN, cts : 1..3, fts : 0..3, cr : CrVals, db : DbVals, sl : {0}]
\* ids are handed out per account in order of arrival, as next_tx_log_id does
MkEntry(bs, i) ==
  [acct |-> bs[i].acct, id |-> Cardinality({j \in 1..(i - 1) : bs[j].acct = bs[i].acct}), ty |-> bs[i].ty,
   conf |-> bs[i].conf, cts |-> bs[i].cts, fts |-> bs[i].fts, cr |-> bs[i].cr, db |-> bs[i].db,
   slate |-> SlateOf(bs[i].sl)]
\* store order: account by account, ids ascending (= arrival order within an account)
MkLog(bs) == LET es == [i \in DOMAIN bs |-> MkEntry(bs, i)]
             IN SelectSeq(es, LAMBDA e : e.acct = "a0") \o SelectSeq(es, LAMBDA e : e.acct = "a1")

\* a seeded sample: NLogs logs, lengths spread over 1..MaxLen (constant-level: evaluated once)
PerLen == (NLogs + MaxLen - 1) \div MaxLen
SampledBodies == IF NLogs = 0 THEN {} ELSE UNION {RandomSubset(PerLen, [1..n -> Body]) : n \in 1..MaxLen}
OneEntryBodies == IF ExhaustOne THEN {<<b>> : b \in BodyNoSlate} ELSE {}
(* one designed log that is always part of the suite: all six types, both accounts, both   *)
(* confirmation states, creation order different from id order, amount orders that differ   *)
(* by key - so that every one of the 18 fields discriminates on it (the runner checks that) *)
RichBodies == <<
  [ty |-> "TxSent",              acct |-> "a0", conf |-> TRUE,  cts |-> 2, fts |-> 3, cr |-> 2, db |-> 4, sl |-> 1],
  [ty |-> "TxReceived",          acct |-> "a0", conf |-> FALSE, cts |-> 1, fts |-> 0, cr |-> 5, db |-> 0, sl |-> 1],
  [ty |-> "ConfirmedCoinbase",   acct |-> "a0", conf |-> TRUE,  cts |-> 3, fts |-> 3, cr |-> 2, db |-> 0, sl |-> 0],
  [ty |-> "TxSentCancelled",     acct |-> "a1", conf |-> FALSE, cts |-> 1, fts |-> 0, cr |-> 0, db |-> 3, sl |-> 2],
  [ty |-> "TxReverted",          acct |-> "a0", conf |-> FALSE, cts |-> 3, fts |-> 2, cr |-> 5, db |-> 3, sl |-> 2],
  [ty |-> "TxReceivedCancelled", acct |-> "a0", conf |-> FALSE, cts |-> 2, fts |-> 0, cr |-> 2, db |-> 0, sl |-> 0],
  [ty |-> "TxReceived",          acct |-> "a1", conf |-> TRUE,  cts |-> 2, fts |-> 1, cr |-> 5, db |-> 0, sl |-> 1] >>

\* --------------------------------------------------------------- queries
Fields == <<"min_id", "max_id", "exclude_cancelled", "include_outstanding_only", "include_confirmed_only",
            "include_sent_only", "include_received_only", "include_coinbase_only", "include_reverted_only",
            "min_amount", "max_amount", "min_creation_timestamp", "max_creation_timestamp",
            "min_confirmed_timestamp", "max_confirmed_timestamp", "limit", "sort_field", "sort_order">>
NF == Len(Fields)
NFilter == 15          \* Fields[1..15] are the filter criteria
SortFieldSeq == <<"Id", "CreationTimestamp", "ConfirmationTimestamp", "TotalAmount", "AmountCredited", "AmountDebited">>

MaxIdOf(lg) == LET ids == {lg[i].id : i \in DOMAIN lg} IN CHOOSE m \in ids : \A x \in ids : x <= m
UpTo(k) == [i \in 1..(k + 1) |-> i - 1]          \* <<0, 1, ..., k>>
\* the discriminating range of each field on a log: below / equal / above everything that occurs
ValSeq(f, lg) ==
  CASE f \in IdFields -> UpTo(MaxIdOf(lg) + 1)
    [] f \in FlagFields -> <<FALSE, TRUE>>
    [] f \in AmtFields -> UpTo(6)                  \* nets are in -4..5
    [] f \in TsFields -> UpTo(4)                   \* times are in 1..3
    [] f = "limit" -> UpTo(Len(lg) + 1)
    [] f = "sort_field" -> SortFieldSeq
    [] f = "sort_order" -> <<"Asc", "Desc">>
Vals(f, lg) == SeqToSet(ValSeq(f, lg))

Adv(args) == [id |-> NoId, slate |-> NoSlate, hasargs |-> TRUE, args |-> args, outstanding |-> FALSE]
Legacy(id, sl, hasargs, args) == [id |-> id, slate |-> sl, hasargs |-> hasargs, args |-> args, outstanding |-> FALSE]

\* a random multi-field query, decoded from a record of small integers (values taken
\* relative to the log: always inside the discriminating range)
RandSpace == [f1 : 1..NFilter, f2 : 1..NFilter, f3 : 1..NFilter, x1 : 0..6, x2 : 0..6, x3 : 0..6,
              sf : 0..6, so : 0..2, lim : 0..7]
Pick(f, lg, x) == LET s == ValSeq(f, lg) IN s[(x % Len(s)) + 1]
DecodeRand(r, lg) ==
  LET a1 == Fields[r.f1] :> Pick(Fields[r.f1], lg, r.x1)
      a2 == Fields[r.f2] :> Pick(Fields[r.f2], lg, r.x2)
      a3 == Fields[r.f3] :> Pick(Fields[r.f3], lg, r.x3)
      s1 == IF r.sf = 0 THEN NoArgs ELSE "sort_field" :> SortFieldSeq[r.sf]
      s2 == IF r.so = 0 THEN NoArgs ELSE "sort_order" :> (IF r.so = 1 THEN "Asc" ELSE "Desc")
      s3 == IF r.lim > Len(lg) + 1 THEN NoArgs ELSE "limit" :> r.lim
  IN Adv(a1 @@ a2 @@ a3 @@ s1 @@ s2 @@ s3)

\* ------------------------------------------------------------ behaviour
NoQ == [id |-> NoId, slate |-> NoSlate, hasargs |-> FALSE, args |-> NoArgs, outstanding |-> FALSE, none |-> TRUE]
IsCase == "none" \notin DOMAIN q

Init == /\ \E bs \in SampledBodies \cup OneEntryBodies \cup {RichBodies} : log = MkLog(bs)
        /\ active \in Accounts
        /\ q = NoQ
        /\ out = <<>>
        /\ rq = IF NRand = 0 THEN {} ELSE RandomSubset(NRand, RandSpace)

Ask(qq) == /\ q' = qq
           /\ out' = RunCode(log, active, qq, Dev)
           /\ rq' = {}
           /\ UNCHANGED <<log, active>>

AskEmpty  == Ask(Adv(NoArgs))
AskSingle == \E i \in 1..NF : \E v \in Vals(Fields[i], log) : Ask(Adv(Fields[i] :> v))
AskPair   == /\ Arity >= 2
             /\ \E i \in 1..NF : \E j \in (i + 1)..NF :
                  \E v \in Vals(Fields[i], log) : \E w \in Vals(Fields[j], log) :
                     Ask(Adv((Fields[i] :> v) @@ (Fields[j] :> w)))
\* RetrieveTxQueryArgs::default() (seven flags Some(false), sort by Id, Asc) with one field set on top:
\* how a caller of the Rust API typically builds its arguments; ten supplied fields at once
DefaultArgs == [exclude_cancelled |-> FALSE, include_outstanding_only |-> FALSE, include_confirmed_only |-> FALSE,
                include_sent_only |-> FALSE, include_received_only |-> FALSE, include_coinbase_only |-> FALSE,
                include_reverted_only |-> FALSE, sort_field |-> "Id", sort_order |-> "Asc"]
AskDefaultPlus == /\ Arity >= 2
                  /\ \/ Ask(Adv(DefaultArgs))
                     \/ \E i \in 1..NF : \E v \in Vals(Fields[i], log) : Ask(Adv((Fields[i] :> v) @@ DefaultArgs))
AskRand   == \E r \in rq : Ask(DecodeRand(r, log))
\* legacy look-ups; a supplied query_args must be ignored when an id or slate id is given
AskLegacy ==
  \/ Ask(Legacy(NoId, NoSlate, FALSE, NoArgs))                                            \* list everything
  \/ \E id \in 0..(MaxIdOf(log) + 1) : \E ha \in BOOLEAN :
        Ask(Legacy(id, NoSlate, ha, IF ha THEN ("min_id" :> (id + 1)) @@ ("limit" :> 0) ELSE NoArgs))
  \/ \E sl \in {"s1", "s2", "s3"} : \E ha \in BOOLEAN :
        Ask(Legacy(NoId, sl, ha, IF ha THEN ("include_coinbase_only" :> TRUE) @@ ("sort_order" :> "Desc") ELSE NoArgs))
  \/ \E id \in 0..MaxIdOf(log) : \E sl \in {"s1", "s2"} : Ask(Legacy(id, sl, FALSE, NoArgs))
\* the internal outstanding-only look-up (not reachable through the owner API: model only)
AskOutstanding == Ask([id |-> NoId, slate |-> NoSlate, hasargs |-> FALSE, args |-> NoArgs, outstanding |-> TRUE])

Next == /\ ~IsCase
        /\ (AskEmpty \/ AskSingle \/ AskPair \/ AskDefaultPlus \/ AskRand \/ AskLegacy \/ AskOutstanding)
Spec == Init /\ [][Next]_vars

\* ------------------------------------------------------------ properties
\* the repaired code differs from the reference only in the order of ties under Desc
\* (reverse of a stable ascending sort); under a limit a different tie may then be cut off
Inv_Reference == IsCase => Violated(log, active, q, "ok", RunRef(log, active, q)) = {}
Inv_Repaired  == IsCase => LET o == RunCode(log, active, q, {})
                               r == RunRef(log, active, q) IN
                           /\ Violated(log, active, q, "ok", o) = {}
                           /\ Len(o) = Len(r)
                           /\ (~Has(EffArgs(q), "limit") => SeqToSet(o) = SeqToSet(r))
                           /\ (~IsDesc(EffArgs(q)) => o = r)
Inv_Readings  == IsCase => \A i \in DOMAIN log : \A f \in (DOMAIN EffArgs(q)) \cap FilterFields :
                              /\ Must(f, q.args[f], log[i]) => Sat(f, q.args[f], log[i])
                              /\ Sat(f, q.args[f], log[i]) => May(f, q.args[f], log[i])
\* with every deviation switched off nothing may be violated in the model; with deviations the
\* violated monitors are model counter-examples, printed with the case
ModelViolated == Violated(log, active, q, "ok", out)
Inv_CodeModel == (IsCase /\ Dev = {}) => ModelViolated = {}

\* ------------------------------------------------------------ generation
Emit == IsCase =>
  PrintT(<<"CASE", ToJson([log |-> log, active |-> active, q |-> q,
                           mv |-> ModelViolated,
                           disc |-> DiscriminatingFields(log, active, q),
                           n |-> Len(out)])>>)
=============================================================================
