-------------------------------- MODULE Conc --------------------------------
(***************************************************************************)
(* C20 - concurrency at wallet-lock granularity.                           *)
(*                                                                         *)
(* One multi-section operation R (owner::update_wallet_state behind every  *)
(* retrieve_* / the updater thread, or owner::scan) releases the wallet    *)
(* mutex between its sections; the owner / foreign operations and the node *)
(* events of the scenario each take it once (api/src/owner.rs,             *)
(* api/src/foreign.rs).  A schedule therefore is: for every other          *)
(* operation i, the number at[i] of lock acquisitions R has completed when *)
(* operation i runs (NSections and beyond = after R returned).  This module *)
(* is the thread structure: TLC enumerates every schedule; the harness     *)
(* (replay_conc) executes each on the real code, parking R's real thread in *)
(* the wallet_lock! hook, and every serial order of the same operations;   *)
(* TraceConc.tla judges serializability of the observed outcomes.          *)
(* The section bodies themselves are the step programs of Wallet.tla       *)
(* (RefreshFull / Scan); the number of sections of a given run is observed *)
(* (it depends on the state: one more per repair) and passed as NSections. *)
(***************************************************************************)
EXTENDS Naturals, Sequences, FiniteSets, TLC, Json

CONSTANTS NSections,   \* lock acquisitions of R when it runs alone in this state
          NOps         \* number of other operations (they keep their relative order)

VARIABLES rpc,         \* acquisitions R has completed
          done,        \* how many of the other operations have run
          at           \* at[i]: value of rpc when operation i ran
vars == <<rpc, done, at>>

Init == rpc = 0 /\ done = 0 /\ at = <<>>
RStep == rpc < NSections /\ rpc' = rpc + 1 /\ UNCHANGED <<done, at>>
OpStep == done < NOps /\ done' = done + 1 /\ at' = Append(at, rpc) /\ UNCHANGED rpc
Next == RStep \/ OpStep
Spec == Init /\ [][Next]_vars

\* no interleaving deadlocks at this level: some thread can always move until all are done
NoDeadlock == (rpc < NSections \/ done < NOps) => ENABLED Next
Finished == rpc = NSections /\ done = NOps
\* every complete schedule is printed once (terminal states are in 1-1 correspondence)
Emit == Finished => PrintT(<<"SCHED", ToJson(at)>>)
=============================================================================
