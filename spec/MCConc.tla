------------------------------- MODULE MCConc -------------------------------
(***************************************************************************)
(* All interleavings, at wallet-lock granularity, of one multi-section     *)
(* operation R with 1..2 single-section operations, from directed          *)
(* scenarios (a prefix of events applied to the funded start state).       *)
(***************************************************************************)
EXTENDS ConcWallet

CONSTANT Scen          \* which scenarios to explore (subset of 1..NScen)

\* ---- scenarios: [prefix, w, kind, del, ops]

CEv(ev, w, sl) == [ev |-> ev, w |-> w, sl |-> sl, stage |-> "S1", rep |-> 1, id |-> 0]
EvLock == [CEv("lock", "w1", "s1") EXCEPT !.stage = "S1"]
EvRecv == CEv("receive", "w2", "s1")
EvFin == CEv("finalize", "w1", "s1")
EvPost == CEv("post", "", "s1")
EvMine == CEv("mine", "", "")
EvCancel(w, id) == [CEv("cancel", w, "") EXCEPT !.id = id]
Sent == <<EvLock, EvRecv, EvFin, EvPost>>     \* after InitS1: locked, received, finalized, posted
Scenarios ==
  << [prefix |-> Sent, w |-> "w2", kind |-> "refresh", del |-> FALSE, ops |-> <<EvMine>>],
     [prefix |-> Sent, w |-> "w2", kind |-> "refresh", del |-> FALSE, ops |-> <<EvMine, EvCancel("w2", 0)>>],
     [prefix |-> Sent, w |-> "w1", kind |-> "refresh", del |-> FALSE, ops |-> <<EvMine>>],
     [prefix |-> <<EvLock, EvRecv>>, w |-> "w1", kind |-> "refresh", del |-> FALSE, ops |-> <<EvFin, EvPost>>],
     [prefix |-> <<>>, w |-> "w1", kind |-> "refresh", del |-> FALSE, ops |-> <<EvLock, EvCancel("w1", 2)>>],
     [prefix |-> Sent, w |-> "w2", kind |-> "scan", del |-> TRUE, ops |-> <<EvMine>>],
     [prefix |-> Sent, w |-> "w1", kind |-> "scan", del |-> FALSE, ops |-> <<EvMine, EvCancel("w1", 2)>>],
     [prefix |-> Sent, w |-> "w2", kind |-> "refresh", del |-> FALSE, ops |-> <<EvCancel("w2", 0), EvMine>>] >>
NScen == Len(Scenarios)

\* the funded start state with an initiated send s1 of 1000 (context saved, S1 in flight)
Start ==
  LET sel == Select(InitWorld, "w1", "a0", 1000, Height(InitWorld), 1, 1)
      args == [sl |-> "s1", src |-> "", amt |-> 1000, sel |-> sel.sel, chg |-> ChgSeq(sel), fee |-> sel.fee,
               late |-> FALSE, incfee |-> FALSE, ttl |-> 0, proof |-> FALSE,
               minconf |-> 1, maxouts |-> 500, nchange |-> 1, useall |-> FALSE] IN
  [st |-> LastOf(InitSend(InitWorld, "w1", args).steps), net |-> {Msg("s1", "S1", 1000, 0, "", 0)}]
ScenStart(i) == Fold(Start.st, Start.net, Scenarios[i].prefix, 1)

VARIABLES sc, cst, cnet, rl, done, at, nr    \* nr: lock acquisitions R has completed
cvars == <<sc, cst, cnet, rl, done, at, nr>>

CInit == /\ sc \in Scen
         /\ cst = ScenStart(sc).st /\ cnet = ScenStart(sc).net
         /\ rl = RInit(ScenStart(sc).st, Scenarios[sc].w, Scenarios[sc].kind, Scenarios[sc].del)
         /\ done = 0 /\ at = <<>> /\ nr = 0
         \* the variables of MCWallet (EXTENDed for its operators) are not used here
         /\ st = InitWorld /\ hv = EmptyHist(WS) /\ net = {} /\ hist = <<>> /\ mids = <<>>
RAct == /\ ~RDone(rl)
        /\ LET x == RStep(cst, rl) IN cst' = x.st /\ rl' = x.rl
        /\ nr' = nr + 1
        /\ UNCHANGED <<sc, cnet, done, at>> /\ UNCHANGED vars
OpAct == /\ done < Len(Scenarios[sc].ops)
         /\ LET x == ApplyEv(cst, cnet, Scenarios[sc].ops[done + 1]) IN cst' = x.st /\ cnet' = x.net
         /\ done' = done + 1 /\ at' = Append(at, nr)
         /\ UNCHANGED <<sc, rl, nr>> /\ UNCHANGED vars
CNext == RAct \/ OpAct
CSpec == CInit /\ [][CNext]_<<cvars, vars>>

Finished == RDone(rl) /\ done = Len(Scenarios[sc].ops)

\* ---- serial outcomes: every permutation of R and the operations
RECURSIVE Perms(_)
Perms(S) == IF S = {} THEN {<<>>} ELSE UNION {{<<x>> \o p : p \in Perms(S \ {x})} : x \in S}
SerialOutcomes(i) ==
  LET sn == Scenarios[i]
      rev == [ev |-> "refreshall", w |-> sn.w, kind |-> sn.kind, del |-> sn.del]
      all == [j \in 1..(Len(sn.ops) + 1) |-> IF j <= Len(sn.ops) THEN sn.ops[j] ELSE rev]
      s0 == ScenStart(i) IN
  {Proj(Fold(s0.st, s0.net, [j \in 1..Len(p) |-> all[p[j]]], 1).st) : p \in Perms(1..(Len(sn.ops) + 1))}

Serializable == Finished => Proj(cst) \in SerialOutcomes(sc)
\* soft version: every finished schedule prints its verdict (at[i] = lock acquisitions R
\* had completed when operation i ran - the vocabulary of the harness' schedules)
Inv_Serializable ==
  Finished => PrintT(<<"SCHEDV", ToJson([scen |-> sc, at |-> at, ser |-> Proj(cst) \in SerialOutcomes(sc),
                                         sections |-> nr, kind |-> Scenarios[sc].kind])>>)
\* the sections, run alone, compose to the atomic operators of Wallet.tla
Lemma_Alone ==
  \A i \in Scen :
    LET sn == Scenarios[i]  s0 == ScenStart(i).st
        atomic == IF sn.kind = "scan" THEN Scan(s0, sn.w, 1, sn.del) ELSE RefreshFull(s0, sn.w) IN
    RunAlone(s0, sn.w, sn.kind, sn.del) = LastOr(atomic.steps, s0)
Inv_Lemma == IF Lemma_Alone THEN TRUE ELSE PrintT(<<"CEX", ToJson([inv |-> "Lemma_Alone", hist |-> <<>>])>>)
NoDeadlock == (~Finished) => ENABLED CNext
=============================================================================
