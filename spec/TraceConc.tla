------------------------------ MODULE TraceConc ------------------------------
(***************************************************************************)
(* Judges the interleavings executed by harness/replay_conc: each "conc"   *)
(* line carries the projected final state of one schedule and the          *)
(* projected final states of every serial order of the same operations     *)
(* (DESIGN Appendix B "Serial outcomes": outputs, reservations, log entry   *)
(* types, confirmation flags, kernel excesses, payment proofs, key and log  *)
(* indices; timestamps and scan bookkeeping are not compared).              *)
(***************************************************************************)
EXTENDS Naturals, Sequences, FiniteSets, TLC, Json, IOUtils, TLCExt

VARIABLE l
Rec == ndJsonDeserialize(IOEnv.TRACE)
Viol(m, e, info) == PrintT(<<"VIOL", ToJson([p |-> "C20", m |-> m, line |-> l, b |-> e.b, ev |-> e.ev, info |-> info])>>)
Check(c, m, e, info) == IF c THEN TRUE ELSE Viol(m, e, info)

Serializable(e) == \E i \in DOMAIN e.serials : e.serials[i] = e.final
\* "key indices ... in a state that some serial order could have produced": the next key path of every account is
\* the one some serial order leaves (in particular it never moves back behind a key an operation was given)
KeyIndexSerial(e) ==
  \A w \in DOMAIN e.final.w : \A a \in DOMAIN e.final.w[w].idx :
     \E i \in DOMAIN e.serials : /\ w \in DOMAIN e.serials[i].w /\ a \in DOMAIN e.serials[i].w[w].idx
                                 /\ e.serials[i].w[w].idx[a].child = e.final.w[w].idx[a].child
TConc ==
  /\ l <= Len(Rec) /\ Rec[l].ev = "conc"
  /\ LET e == Rec[l] IN
     /\ Check(~e.hang, "NoDeadlock", e, "")
     /\ (~e.hang) => Check(Serializable(e), "Serializable", e, "")
     /\ (~e.hang) => Check(KeyIndexSerial(e), "KeyIndexSerial", e, "")
  /\ l' = l + 1
TOther == l <= Len(Rec) /\ Rec[l].ev # "conc" /\ l' = l + 1
TSpec == l = 1 /\ [][TConc \/ TOther]_l
Consumed == IF TLCGet("stats").diameter - 1 = Len(Rec) THEN PrintT(<<"CONSUMED", Len(Rec)>>)
            ELSE PrintT(<<"STUCK", TLCGet("stats").diameter>>)
=============================================================================
