---------------------------- MODULE TraceTxQuery ----------------------------
(***************************************************************************)
(* Trace validation of transaction-log queries executed on the REAL wallet *)
(* code (recorded by harness/replay_query) against TxQuery.tla.            *)
(*                                                                         *)
(* Trace lines:                                                            *)
(*   log    a fresh wallet whose log was written straight into the store;  *)
(*          `log` = what was injected, `stored` = tx_log_iter() read back  *)
(*   query  one owner::retrieve_txs call: active account, the query, the   *)
(*          result class and the returned entries in order                 *)
(* Layer P: Violated(stored log, active, q, res, returned) - the monitors  *)
(*          of C19 on the OBSERVED answer; each broken monitor prints VIOL.*)
(* Layer M: returned = RunCode(stored log, active, q, Dev) exactly, and    *)
(*          stored = StoreOrder(injected); a mismatch prints NONCONF only. *)
(* The spec never stops at a failure, so the whole trace is examined.      *)
(***************************************************************************)
EXTENDS TxQuery, Json, IOUtils, TLCExt

CONSTANTS CheckM,    \* TRUE: evaluate Layer M as well as Layer P
          Dev        \* deviations of the code model the real code is expected to show

VARIABLES l, log
tvars == <<l, log>>

Rec == ndJsonDeserialize(IOEnv.TRACE)
E == Rec[l]
IsEv(n) == l <= Len(Rec) /\ Rec[l].ev = n
FieldOr(r, f, d) == IF f \in DOMAIN r THEN r[f] ELSE d

Keys(s) == [i \in DOMAIN s |-> <<s[i].acct, s[i].id>>]
Viol(e, m, info) ==
  PrintT(<<"VIOL", ToJson([p |-> "C19", m |-> m, line |-> l, b |-> e.b, c |-> FieldOr(e, "c", -1), ev |-> e.ev, info |-> info])>>)
NonConf(e, what, info) ==
  PrintT(<<"NONCONF", ToJson([line |-> l, b |-> e.b, c |-> FieldOr(e, "c", -1), ev |-> e.ev, what |-> what, info |-> info])>>)

\* ---- a wallet with an injected log
TLog ==
  /\ IsEv("log")
  /\ LET e == E IN
     /\ IF e.res = "ok" THEN TRUE ELSE NonConf(e, "inject:" \o e.res, FieldOr(e, "detail", ""))
     /\ IF ~CheckM \/ e.res # "ok" THEN TRUE
        ELSE IF e.stored = StoreOrder(SeqToSet(e.log)) /\ Len(e.stored) = Len(e.log) THEN TRUE
        ELSE NonConf(e, "StoreOrder", [exp |-> Keys(StoreOrder(SeqToSet(e.log))), obs |-> Keys(e.stored)])
     /\ log' = e.stored
     /\ l' = l + 1

\* ---- one query
TQuery ==
  /\ IsEv("query")
  /\ LET e == E
         qq == [id |-> e.q.id, slate |-> e.q.slate, hasargs |-> e.q.hasargs, args |-> e.q.args,
                outstanding |-> e.q.outstanding]
         obs == e.ret
         bad == Violated(log, e.active, qq, e.res, obs)
         exp == RunCode(log, e.active, qq, Dev) IN
     /\ \A m \in bad : Viol(e, m, [returned |-> Keys(obs), must |-> {<<x.acct, x.id>> : x \in MustSet(log, e.active, qq)}])
     /\ IF ~CheckM THEN TRUE
        ELSE IF e.res = "ok" /\ obs = exp THEN TRUE
        ELSE NonConf(e, "RunCode", [exp |-> Keys(exp), obs |-> Keys(obs), res |-> e.res])
     /\ UNCHANGED log
     /\ l' = l + 1

\* ---- anything else (a harness failure): reported, never silently skipped
TOther ==
  /\ l <= Len(Rec) /\ Rec[l].ev \notin {"log", "query"}
  /\ NonConf(E, "unexpected-line", FieldOr(E, "detail", ""))
  /\ UNCHANGED log
  /\ l' = l + 1

TInit == l = 1 /\ log = <<>>
TNext == TLog \/ TQuery \/ TOther
TSpec == TInit /\ [][TNext]_tvars

Consumed == IF TLCGet("stats").diameter - 1 = Len(Rec) THEN PrintT(<<"CONSUMED", Len(Rec)>>)
            ELSE PrintT(<<"STUCK", TLCGet("stats").diameter>>)
=============================================================================
