CONSTANTS
  MaxGen = 2
  MaxAcct = 1
  MaxLen = 6
  TamperSet = {"body"}
  OuterSet = {"ok"}
  RawSet = {"string"}
  RepInner = {"init"}
  FullProduct = FALSE
  Open0Set = {FALSE}
  ForeignSet = {FALSE}
SPECIFICATION Spec
INVARIANT W_Rotated
INVARIANT W_OpenActive
INVARIANT W_Stored
INVARIANT W_Desync
VIEW View
CHECK_DEADLOCK FALSE
