----------------------------- MODULE MCEnvelope -----------------------------
(***************************************************************************)
(* Bounded model for C10 built from Envelope.tla, used two ways by one TLC *)
(* run:                                                                    *)
(*  MC   every (slate, sender, recipient set) is packed; the message is    *)
(*       optionally damaged by ONE adversarial edit (every single-token    *)
(*       edit of the armored text, every class of single-byte edit of the  *)
(*       binary form); then somebody tries to open it with a sequence of   *)
(*       keys.  The invariants are the operators of Part 4 of Envelope.    *)
(*  GEN  every packed state prints the case with its openers ("CASE") and  *)
(*       every edited state prints the label of its edit ("ELABEL"): the   *)
(*       stimulus the harness executes on the real code, and the set of    *)
(*       edit classes it has to instantiate.                               *)
(* MetaKept comes from the environment (C10_META_KEPT=0 once the finding   *)
(* C10/NoClearAtoms/json is recorded as fixed); default: the pinned commit.*)
(***************************************************************************)
EXTENDS Envelope, SequencesExt, Json, IOUtils

CONSTANTS Slates,      \* slate names
          MaxRecip,    \* recipient sets up to this size, plus the full set
          EditRs,      \* recipient sets (as sets) whose messages get edited
          MaxEdits     \* 1: the property; 2: reaches the decoder's panics (witness only)

MetaKept == IF "C10_META_KEPT" \in DOMAIN IOEnv THEN IOEnv.C10_META_KEPT # "0" ELSE TRUE

VARIABLES pc, cs, txt, ed, nedits, ks, out
vars == <<pc, cs, txt, ed, nedits, ks, out>>

RecipSets == {R \in SUBSET RecipKeys : Cardinality(R) <= MaxRecip \/ R = RecipKeys}
Senders == {None} \cup SenderKeys
Case(s, snd, R) == [s |-> s, snd |-> snd, R |-> R]
NoCase == Case(None, None, {})
NoEd == [form |-> "none", l |-> Lbl("", "", "", "", "", FALSE), acc |-> FALSE]
NoOut == [res |-> "", slate |-> None, sender |-> None, mode |-> -1, cls |-> ""]

\* key sequences a single wallet can try (secret_indices of one call): one key,
\* two keys of the same wallet in both orders, or none
SameWallet(a, b) == KeyHome[a].w = KeyHome[b].w
KeySeqs == {<<>>} \cup {<<k>> : k \in AllKeys}
           \cup {<<a, b>> : <<a, b>> \in {p \in AllKeys \X AllKeys : p[1] # p[2] /\ SameWallet(p[1], p[2])}}
EditTarget(c) == c.R \in EditRs /\ c.snd \in {None, "k1"}
\* the key an edited message is opened with: a recipient (the smallest name), or none
Rank == ("k1" :> 1 @@ "k2" :> 2 @@ "k3" :> 3 @@ "k4" :> 4 @@ "k5" :> 5)
MinKey(S) == CHOOSE k \in S : \A j \in S : Rank[k] <= Rank[j]
SortedKeys(S) == SetToSortSeq(S, LAMBDA a, b : Rank[a] < Rank[b])
EditOpener(c) == IF c.R = {} THEN <<>> ELSE <<MinKey(c.R)>>

\* --- binary edit classes and their effect on the written record (field level)
AdjRegions == {<<"ver","ver">>, <<"ver","mode">>, <<"mode","fl_hi">>, <<"fl_hi","fl_lo">>, <<"fl_lo","optlen">>,
               <<"optlen","optlen">>, <<"optlen","plen">>, <<"plen","plen">>, <<"plen","age_v">>, <<"age_v","age_v">>,
               <<"age_v","age_st">>, <<"age_st","age_st">>, <<"age_st","age_sb">>, <<"age_sb","age_sb">>,
               <<"age_sb","age_st">>, <<"age_sb","age_dash">>, <<"age_dash","age_dash">>, <<"age_dash","age_mac">>,
               <<"age_mac","age_mac">>, <<"age_mac","age_nonce">>, <<"age_nonce","age_nonce">>,
               <<"age_nonce","age_body">>, <<"age_body","age_body">>}
\* pairs of adjacent bytes that are equal in every written record (zero padding)
AlwaysEqual == {<<"fl_hi","fl_lo">>, <<"fl_lo","optlen">>, <<"optlen","optlen">>, <<"optlen","plen">>}
\* ... and pairs that never are: 1.0 / mode 1 / flags 0, and the fixed text of the age header
\* (a line feed next to '-' or a base64 digit, the blank after "---", "age-encryption.org/v1")
NeverEqual  == {<<"ver","ver">>, <<"ver","mode">>, <<"mode","fl_hi">>, <<"age_v","age_v">>, <<"age_v","age_st">>,
                <<"age_st","age_sb">>, <<"age_sb","age_st">>, <<"age_sb","age_dash">>, <<"age_dash","age_mac">>}
BinLabels ==
       {Lbl("sub", r, "", "", "", FALSE) : r \in (HdrRegions \ {"mode", "fl_lo"}) \cup AgeRegions}
  \cup {Lbl("sub", "mode", "", "", n, FALSE) : n \in {"0", "big"}}
  \cup {Lbl("sub", "fl_lo", "", "", n, FALSE) : n \in {"odd", "even"}}
  \cup {Lbl("sub", r, "", "", "pad", FALSE) : r \in {"age_st", "age_sb", "age_mac"}}    \* a base64 digit replaced by '='
  \cup {Lbl("del", r, "", "", "", FALSE) : r \in HdrRegions \cup AgeRegions}
  \cup {Lbl("ins", r, "", "", "", FALSE) : r \in HdrRegions \cup AgeRegions \cup {"end"}}
  \cup {Lbl("swap", p[1], p[2], "", "", eq) : <<p, eq>> \in
          {q \in AdjRegions \X BOOLEAN : (q[1] \in AlwaysEqual => q[2]) /\ (q[1] \in NeverEqual => ~q[2])}}
PadMac == Lbl("sub", "age_mac", "", "", "pad", FALSE)
\* acc: the edit is Havoc_AgeMacPadding's accepted instance (last digit, MAC ending in a zero byte)
ApplyBinEdit(b, l, acc) ==
  CASE l.k = "sub" ->
         (CASE l = PadMac /\ acc -> b
            [] l.r = "ver" -> [b EXCEPT !.ver = "other"]
            [] l.r = "mode" -> [b EXCEPT !.mode = IF l.n = "0" THEN 0 ELSE 2]
            [] l.r = "fl_hi" -> b
            [] l.r = "fl_lo" -> [b EXCEPT !.fl_lo_odd = (l.n = "odd")]
            [] l.r = "optlen" -> [b EXCEPT !.optlen_ok = FALSE]
            [] l.r = "plen" -> [b EXCEPT !.plen_ok = FALSE]
            [] OTHER -> [b EXCEPT !.age_ok = FALSE])
    [] l.k = "del" -> IF l.r \in HdrRegions THEN [b EXCEPT !.aligned = FALSE] ELSE [b EXCEPT !.plen_ok = FALSE]
    [] l.k = "ins" -> IF l.r = "end" THEN b
                      ELSE IF l.r \in HdrRegions THEN [b EXCEPT !.aligned = FALSE]
                      ELSE [b EXCEPT !.age_ok = FALSE]     \* the last byte of the container falls off
    [] l.k = "swap" ->
         IF l.eq THEN b
         ELSE IF l.r = "ver" /\ l.r2 = "ver" THEN [b EXCEPT !.ver = "other"]
         ELSE IF "mode" \in {l.r, l.r2} THEN [b EXCEPT !.mode = 0]       \* its neighbours are zero bytes
         ELSE IF l.r \in {"optlen"} \/ l.r2 = "optlen" THEN [b EXCEPT !.optlen_ok = FALSE]
         ELSE IF l.r = "plen" THEN [b EXCEPT !.plen_ok = FALSE]
         ELSE [b EXCEPT !.age_ok = FALSE]

\* --- JSON edit classes (Part 3b)
JCls == {"g", "p", "w", "q", "x"}
JsonLabels ==
       {Lbl("sub", r, "", o, n, FALSE) : r \in JsonRegions, o \in JCls, n \in JCls}
  \cup {Lbl("del", r, "", o, "", FALSE) : r \in JsonRegions, o \in JCls}
  \cup {Lbl("ins", r, "", "", n, FALSE) : r \in JsonRegions, n \in JCls}
  \cup {Lbl("swap", r, r2, o, n, eq) : r \in JsonRegions, r2 \in JsonRegions, o \in JCls, n \in JCls, eq \in BOOLEAN}
\* classes that exist in a produced text: payload digits are "g", padding is "p"
JsonLabelOk(l) ==
  /\ (l.r \in {"j_pl", "j_last"} /\ l.k # "ins") => l.o = "g"
  /\ (l.k = "swap" /\ l.r2 = "j_last") => l.n = "g"
  /\ ~(l.k = "swap" /\ l.r = "j_last" /\ l.r2 = "j_last")
  /\ (l.r = "j_pad" /\ l.k # "ins") => l.o = "p"
  /\ (l.k = "swap" /\ l.r2 = "j_pl") => l.n = "g"
  /\ (l.k = "swap" /\ l.r2 = "j_pad") => l.n = "p"
  /\ (l.k = "swap" /\ l.eq) => l.o = l.n
  /\ (l.k = "swap") => \/ l.r = l.r2
                        \/ <<l.r, l.r2>> \in {<<"j_struct", "j_ver">>, <<"j_ver", "j_struct">>, <<"j_struct", "j_mode">>,
                                               <<"j_mode", "j_struct">>, <<"j_struct", "j_meta">>, <<"j_meta", "j_struct">>,
                                               <<"j_struct", "j_pl">>, <<"j_pl", "j_last">>, <<"j_last", "j_pad">>, <<"j_pl", "j_struct">>,
                                               <<"j_pad", "j_struct">>}

\* --- outcome of opening the (possibly edited) message with key sequence k
Cls4(r, s) == IF r.res = "ok" THEN (IF r.slate = s THEN "same" ELSE "diff") ELSE "err"
OpenResult(c, t, e, k) ==
  LET sp == Pack(c.s, c.snd, c.R, MetaKept)
      intact == SlateFromMessage(ArmorForm(sp), k) IN
  IF e.form = "none" THEN intact @@ [cls |-> Cls4(intact, c.s)]
  ELSE IF e.form = "armor"
       THEN LET o == TextOutcome(t) IN
            IF o = "same" THEN intact @@ [cls |-> Cls4(intact, c.s)]
            \* other bytes that got past the check: an encrypted pack's are rejected by age (A2)
            ELSE LET o2 == IF o = "diff" /\ c.R # {} THEN "err" ELSE o IN
                 [res |-> o2, slate |-> None, sender |-> None, mode |-> -1, cls |-> o2]
  ELSE LET o == IF e.form = "bin" THEN ReadBin(ApplyBinEdit(WrittenBin, e.l, e.acc))
                ELSE ReadJson(SignificantJson(e.l), e.acc) IN
       LET viaForm == IF e.form = "bin" THEN intact ELSE SlateFromMessage(JsonForm(sp), k) IN
       IF o = "same" THEN viaForm @@ [cls |-> Cls4(viaForm, c.s)]
       ELSE [res |-> o, slate |-> None, sender |-> None, mode |-> -1, cls |-> o]

Init == pc = "start" /\ cs = NoCase /\ txt = <<>> /\ ed = NoEd /\ nedits = 0 /\ ks = <<>> /\ out = NoOut

DoPack == /\ pc = "start"
          /\ \E s \in Slates, snd \in Senders, R \in RecipSets :
               /\ cs' = Case(s, snd, R)
               /\ txt' = OrigText          \* the armored text (its payload characters stand for this pack's bytes)
          /\ pc' = "packed"
          /\ UNCHANGED <<ed, nedits, ks, out>>

DoEditText == /\ pc \in {"packed", "edited"} /\ nedits < MaxEdits /\ EditTarget(cs) /\ ed.form \in {"none", "armor"}
              /\ \E e \in EditSet(txt) :
                   /\ RealEdit(txt, e)
                   /\ txt' = ApplyEdit(txt, e)
                   /\ ed' = [form |-> "armor", l |-> IF nedits = 0 THEN Label(txt, e) ELSE Lbl("multi", "", "", "", "", FALSE),
                             acc |-> FALSE]
              /\ pc' = "edited" /\ nedits' = nedits + 1
              /\ UNCHANGED <<cs, ks, out>>

DoEditBin == /\ pc = "packed" /\ nedits < 1 /\ EditTarget(cs) /\ cs.R # {}
             /\ \E l \in BinLabels, acc \in BOOLEAN :
                  /\ (acc => l = PadMac)
                  /\ ed' = [form |-> "bin", l |-> l, acc |-> acc]
             /\ pc' = "edited" /\ nedits' = 1
             /\ UNCHANGED <<cs, txt, ks, out>>

\* acc: Havoc_JsonSyntax's choice - the edited text still parses to the same slatepack
DoEditJson == /\ pc = "packed" /\ nedits < 1 /\ EditTarget(cs) /\ cs.R # {}
              /\ \E l \in {x \in JsonLabels : JsonLabelOk(x)}, acc \in BOOLEAN :
                   /\ (SignificantJson(l) => ~acc) /\ ((l.k = "swap" /\ l.eq) => acc)
                   /\ ed' = [form |-> "json", l |-> l, acc |-> acc]
              /\ pc' = "edited" /\ nedits' = 1
              /\ UNCHANGED <<cs, txt, ks, out>>

DoOpen == /\ pc \in {"packed", "edited"}
          /\ \E k \in (IF pc = "packed" THEN KeySeqs ELSE {EditOpener(cs)}) :
               /\ ks' = k
               /\ out' = OpenResult(cs, txt, ed, k)
          /\ pc' = "opened"
          /\ UNCHANGED <<cs, txt, ed, nedits>>

Next == DoPack \/ DoEditText \/ DoEditBin \/ DoEditJson \/ DoOpen
Spec == Init /\ [][Next]_vars

\* ------------------------------------------------------------ invariants
TypeOK == /\ pc \in {"start", "packed", "edited", "opened"}
          /\ ed.form \in {"none", "armor", "bin", "json"}
          /\ nedits \in 0..MaxEdits

ThePack == Pack(cs.s, cs.snd, cs.R, MetaKept)
Packed == pc = "packed"
\* a violated invariant prints the case as a model counter-example; the runner reports it
\* only if the real code reproduces it (the case is replayed like every other one)
Cex(name) == PrintT(<<"CEX", ToJson([inv |-> name, s |-> cs.s, snd |-> cs.snd, R |-> SortedKeys(cs.R)])>>) /\ FALSE
\* P3 per encoded form
Inv_NoClearAtomsArmor == Packed => (NoClearAtoms(cs.s, cs.snd, cs.R, ClearAtoms(ArmorForm(ThePack))) \/ Cex("NoClearAtoms/armor"))
Inv_NoClearAtomsBin   == Packed => (NoClearAtoms(cs.s, cs.snd, cs.R, ClearAtoms(BinForm(ThePack))) \/ Cex("NoClearAtoms/bin"))
Inv_NoClearAtomsJson  == Packed => (NoClearAtoms(cs.s, cs.snd, cs.R, ClearAtoms(JsonForm(ThePack))) \/ Cex("NoClearAtoms/json"))
\* ... and the detector is not blind: an unencrypted pack shows both
Inv_PlainShowsAll == (Packed /\ cs.R = {}) =>
   /\ <<"slate", cs.s>> \in ClearAtoms(ArmorForm(ThePack))
   /\ (cs.snd # None => <<"addr", cs.snd>> \in ClearAtoms(ArmorForm(ThePack)))

Intact == pc = "opened" /\ ed.form = "none"
Inv_OpenIffRecipient == Intact => OpenIffRecipient(cs.R, ks, out.res)
Inv_OpenedIsOriginal == Intact => OpenedIsOriginal(cs.s, out.res, out.cls = "same")
Inv_PlainOpens       == Intact => PlainOpens(cs.R, out.res)
\* the sender as decode_slatepack_message reports it
Inv_SenderFaithful ==
  Intact => LET r == DecodeMessage(ArmorForm(ThePack), ks) IN
            r.res = "ok" /\ SenderFaithful(cs.snd, cs.R, ks, r.sp.sender)
\* both ways to the slate agree (slate_from_slatepack_message vs decode + get_slate),
\* and so do the binary and JSON forms read with the same keys
Inv_ApisAgree ==
  Intact => /\ (SlateViaDecode(ArmorForm(ThePack), ks).res = "ok") = (out.res = "ok")
            /\ (SlateFromMessage(JsonForm(ThePack), ks).res = "ok") = (out.res = "ok")
            /\ (SlateFromMessage(BinForm(ThePack), ks).res = "ok") = (out.res = "ok")

Edited1 == pc = "opened" /\ ed.form # "none" /\ nedits = 1
SigOf(e) == CASE e.form = "armor" -> Significant(e.l) [] e.form = "bin" -> SignificantBin(e.l) [] e.form = "json" -> SignificantJson(e.l)
PredOf(e) == CASE e.form = "armor" -> {PredEdit(e.l)} [] e.form = "bin" -> PredBin(e.l) [] e.form = "json" -> PredJson(e.l)
Inv_EditSameOrErr == Edited1 => SameOrErr(out.cls)
Inv_EditedEncryptedRejected ==
  Edited1 => \/ EditedEncryptedRejected(cs.R, SigOf(ed), out.cls)
             \/ Cex("EditedEncryptedRejected/" \o LabelKey(ed.form, ed.l))
\* the label-level predictions used in trace validation are exactly the token/field-level model
Inv_PredMatches ==
  (pc = "edited" /\ nedits = 1) =>
     CASE ed.form = "armor" -> PredEdit(ed.l) = TextOutcome(txt)
       [] ed.form = "bin" -> ReadBin(ApplyBinEdit(WrittenBin, ed.l, ed.acc)) \in PredBin(ed.l)
       [] ed.form = "json" -> ReadJson(SignificantJson(ed.l), ed.acc) \in PredJson(ed.l)
\* witness (MaxEdits = 2 only): two edits reach the decoder's slicing panics - not a C10
\* matter (single edits cannot), listed so that the model's panic branches are not dead
Inv_NoPanicWitness == (pc = "edited" /\ ed.form = "armor") => TextOutcome(txt) # "panic"

\* ------------------------------------------------------------------- GEN
Emit_Case ==
  (pc = "packed") =>
     PrintT(<<"CASE", ToJson([s |-> cs.s, snd |-> cs.snd, R |-> SortedKeys(cs.R),
                              openers |-> SetToSeq(KeySeqs), edit |-> EditTarget(cs)])>>)
\* (the classes do not depend on slate and sender: printed for one of each)
Emit_Label ==
  (pc = "edited" /\ nedits = 1 /\ cs.snd = None /\ cs.s = CHOOSE x \in Slates : TRUE) =>
     PrintT(<<"ELABEL", ToJson([form |-> ed.form, enc |-> cs.R # {}, l |-> ed.l, pred |-> PredOf(ed)])>>)
Emit_Keys == (pc = "start") => PrintT(<<"KEYS", ToJson(KeyHome)>>)
=============================================================================
