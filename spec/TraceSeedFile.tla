--------------------------- MODULE TraceSeedFile ---------------------------
(***************************************************************************)
(* Trace validation of the seed-file life cycle: the events recorded by    *)
(* harness/src/bin/replay_seed (real DefaultLCProvider calls interrupted   *)
(* through the hook registry, then both openers on every wallet.seed* file *)
(* under every password of the schedule) against SeedFile.tla.             *)
(*                                                                         *)
(*  Layer P (verdict): SeedRecoverable, WrongPwIsError (OpenSound,         *)
(*     DiskSound, OpensWithSavedPw, OnePassword, WrongPwRefused,           *)
(*     TruncIsError), CompletedEffect - the predicates of SeedFile.tla on  *)
(*     OBSERVED files.  A file counts as Sealed(s, p) when EITHER opener   *)
(*     opens it under p to s: a change of the file format (which makes the *)
(*     independent opener blind) can therefore not raise an alarm - it     *)
(*     makes the independent opener's monitors vacuous and shows up in     *)
(*     Layer M.                                                            *)
(*  Layer M (report only): the files as the INDEPENDENT opener sees them   *)
(*     (the format of seed.rs), the result and the hook sequence are what  *)
(*     RunOp predicts for the logged call and injection.                   *)
(***************************************************************************)
EXTENDS SeedFile, Json, IOUtils, TLCExt, SequencesExt

CONSTANT CheckM

VARIABLES l, fs, fm, must, legit, m4     \* fs: files as Layer P sees them, fm: as Layer M sees them
tvars == <<l, fs, fm, must, legit, m4>>

Rec == ndJsonDeserialize(IOEnv.TRACE)
Has(r, f) == f \in DOMAIN r

\* ------------------------------------------------ observation -> abstract
\* Layer M view - what the INDEPENDENT opener found: the file is Sealed(s, p) iff it
\* authenticates under p to s; a file that exists and is no complete sealed file is Partial
Opens(j) == {p \in DOMAIN j.indep : j.indep[p] # "err"}
AbsFile(j) == IF Opens(j) = {} THEN (IF j.parse THEN Sealed("unknown", "unknown") ELSE Partial)
              ELSE LET p == CHOOSE p \in Opens(j) : TRUE IN Sealed(j.indep[p], p)
ObsFs(files) == [f \in FileNames |-> IF f \in DOMAIN files THEN AbsFile(files[f]) ELSE Absent]
\* Layer P view - either opener
NotASeed == {"err", "panic", "err:keychain"}
OpensP(j) == Opens(j) \cup {p \in DOMAIN j.code : j.code[p] \notin NotASeed}
AbsFileP(j) == IF OpensP(j) = {} THEN Partial
               ELSE LET p == CHOOSE p \in OpensP(j) : TRUE IN
                    Sealed(IF j.indep[p] # "err" THEN j.indep[p] ELSE j.code[p], p)
ObsFsP(files) == [f \in FileNames |-> IF f \in DOMAIN files THEN AbsFileP(files[f]) ELSE Absent]

Viol(m, e, cls, info) ==
  PrintT(<<"VIOL", ToJson([p |-> "C12", m |-> m, line |-> l, b |-> e.b, ev |-> e.ev, cls |-> cls, info |-> info])>>)
NonConf(e, what, info) ==
  PrintT(<<"NONCONF", ToJson([line |-> l, b |-> e.b, ev |-> e.ev, what |-> what, info |-> info])>>)
Check(c, m, e, cls, info) == IF c THEN TRUE ELSE Viol(m, e, cls, info)
CheckM_(c, e, what, info) == IF ~CheckM THEN TRUE ELSE IF c THEN TRUE ELSE NonConf(e, what, info)

E == Rec[l]
IsEv(n) == l <= Len(Rec) /\ Rec[l].ev = n
OpOf(e) == [NoOp EXCEPT !.ev = e.ev, !.seed = e.seed, !.pw = e.pw, !.phrase = e.phrase, !.len4 = e.len4,
                        !.valid = e.valid, !.old = e.old, !.new = e.new]
\* the input class of an event: call, kind of injection and the hook it hit
Cls(e) == e.ev \o ":" \o e.inj.kind \o "@" \o (IF e.inj.k \in 1..Len(e.hits) THEN e.hits[e.inj.k] ELSE "-")

\* ------------------------------------------------------- Layer P on files
\* code opener (open_wallet, get_mnemonic) on every file under every password
FileMonitors(e, files, legit2) ==
  /\ \A f \in DOMAIN files : \A p \in DOMAIN files[f].code :
        /\ Check(files[f].code[p] = "err" \/ <<files[f].code[p], p>> \in legit2,
                 "OpenSound", e, "open_wallet:" \o files[f].code[p], <<f, p>>)
        /\ Check(files[f].mn[p] = "err" \/ <<files[f].mn[p], p>> \in legit2,
                 "OpenSound", e, "get_mnemonic:" \o files[f].mn[p], <<f, p>>)
        /\ Check(files[f].indep[p] = "err" \/ <<files[f].indep[p], p>> \in legit2,
                 "DiskSound", e, Cls(e), <<f, p, files[f].indep[p]>>)
        \* a file sealed under p opens with p
        /\ Check(files[f].indep[p] = "err" \/ files[f].code[p] = files[f].indep[p],
                 "OpensWithSavedPw", e, "open_wallet:" \o files[f].code[p], <<f, p>>)
  \* at most one of the (distinct) passwords opens a file
  /\ \A f \in DOMAIN files :
        Check(Cardinality({p \in DOMAIN files[f].code : files[f].code[p] # "err"}) <= 1, "OnePassword", e, Cls(e), f)

\* ------------------------------------------------------------ the events
TReset == /\ IsEv("reset")
          /\ l' = l + 1 /\ fs' = ObsFsP(E.files) /\ fm' = ObsFs(E.files) /\ must' = {} /\ legit' = {} /\ m4' = {}

TOp ==
  /\ (IsEv("create") \/ IsEv("chpw") \/ IsEv("recover"))
  /\ LET e == E
         op == OpOf(e)
         post == ObsFsP(e.files)
         postm == ObsFs(e.files)
         res == e.res
         c1 == MustBegin(must, fs, op)
         c2 == MustEnd(c1, fs, op, res)
         lg == LegitAfter(legit, op)
         m42 == IF (op.ev = "create" /\ op.len4) \/ (op.ev = "recover" /\ op.valid) THEN m4 \cup {op.seed} ELSE m4
         r == RunOp(fm, op, [kind |-> e.inj.kind, k |-> e.inj.k], m42)
         nh == IF e.inj.kind = "torn" /\ Len(e.hits) > e.inj.k THEN e.inj.k ELSE Len(e.hits) IN
     /\ Check(SeedRecoverable(post, c2), "SeedRecoverable", e, Cls(e), [must |-> c2, files |-> post])
     /\ Check(WrongPwRefused(fs, post, op, res), "WrongPwRefused", e, Cls(e), "")
     /\ Check(CompletedEffect(fs, post, op, res), "CompletedEffect", e, Cls(e), post["seed"])
     /\ FileMonitors(e, e.files, lg)
     /\ CheckM_(DOMAIN e.files \subseteq FileNames, e, "files", DOMAIN e.files)
     /\ CheckM_(r.res = res, e, "res", [exp |-> r.res, why |-> r.why, obs |-> res, detail |-> e.detail])
     /\ CheckM_(r.loc.hits = SubSeq(e.hits, 1, nh), e, "hooks", [exp |-> r.loc.hits, obs |-> e.hits])
     /\ CheckM_(r.fs = postm, e, "files",
                [f \in {g \in FileNames : r.fs[g] # postm[g]} |-> [exp |-> r.fs[f], obs |-> postm[f]]])
     /\ CheckM_(op.ev # "create" \/ res # "ok" \/ (Has(e.lens, op.seed) /\ e.lens[op.seed] = e.seedlen), e, "seedlen", e.lens)
     /\ l' = l + 1 /\ fs' = post /\ fm' = postm /\ must' = c2 /\ legit' = lg /\ m4' = m42

\* every truncation length of a sealed file through the code's opener with the RIGHT password,
\* and the complete file with WRONG passwords: the other kinds and near misses of the right one
\* (a prefix, an extension, changed case, same first character, trailing blank / NUL)
TTrunc ==
  /\ IsEv("trunc")
  /\ LET e == E
         cls == "len" \o ToString(e.seedlen) \o ":" \o e.pwkind IN
     \* Err - or, should a format ever end in bytes the parser ignores, the SAME seed; never a panic, never another seed
     /\ \A i \in DOMAIN e.res : Check(e.res[i] \in {"err", "s0"}, "TruncIsError", e, "trunc:" \o e.res[i], <<cls, i - 1>>)
     /\ CheckM_(\A i \in DOMAIN e.res : e.res[i] = "err", e, "trunc", cls)
     /\ \A k \in DOMAIN e.wrong : Check(e.wrong[k] = "err", "OpenSound", e, "open_wallet:" \o e.wrong[k], <<cls, k>>)
     /\ Check(e.full = "s0", "OpensWithSavedPw", e, "open_wallet:" \o e.full, cls)
     /\ CheckM_(e.created = "ok" /\ e.indep_len = e.seedlen, e, "create", <<e.created, e.indep_len>>)
     /\ CheckM_(\A i \in DOMAIN e.indep : e.indep[i] = "err", e, "indep-trunc", cls)
     \* HmacKeyNorm (SeedFile.tla): pw and pw \o NUL are one PBKDF2-HMAC-SHA512 password below 128 bytes
     /\ CheckM_(e.hmac_nul = (IF e.pwlen < 128 THEN "s0" ELSE "err"), e, "hmac-key-normalisation", e.hmac_nul)
     /\ l' = l + 1 /\ UNCHANGED <<fs, fm, must, legit, m4>>

Known == {"reset", "create", "chpw", "recover", "trunc"}
TOther == /\ l <= Len(Rec) /\ Rec[l].ev \notin Known
          /\ CheckM_(FALSE, E, "unknown-event", E.ev)
          /\ l' = l + 1 /\ UNCHANGED <<fs, fm, must, legit, m4>>

TInit == l = 1 /\ fs = EmptyDir /\ fm = EmptyDir /\ must = {} /\ legit = {} /\ m4 = {}
TNext == TReset \/ TOp \/ TTrunc \/ TOther
TSpec == TInit /\ [][TNext]_tvars

Consumed == IF TLCGet("stats").diameter - 1 = Len(Rec) THEN PrintT(<<"CONSUMED", Len(Rec)>>)
            ELSE PrintT(<<"STUCK", TLCGet("stats").diameter>>)
=============================================================================
