---------------------------- MODULE TraceSecrets ----------------------------
(***************************************************************************)
(* Trace validation of protocol behaviours run on real wallets             *)
(* (harness/src/bin/replay_secrets) against Secrets.tla.                   *)
(*                                                                         *)
(*  Layer P (verdict):                                                     *)
(*    NoClearSecret - e.sec.leaks (every occurrence of a real secret: seed,*)
(*       phrase, a stored context's sec/nonce/isec/inonce bytes, in raw,   *)
(*       hex, base64 or JSON-array form, in any file under a wallet        *)
(*       directory or in any wire form of any slate produced so far) must  *)
(*       be empty;                                                         *)
(*    FreshNonces - a public nonce / public excess handed out under one    *)
(*       slate id never appears under another one, across the WHOLE run    *)
(*       (all behaviours, all wallets);                                    *)
(*    ContextConsumed - after every successful finalize_tx (any flow) the  *)
(*       finalizer holds no private context of that slate any more;        *)
(*    NonceSignsOnce - a public nonce that carries a partial signature is  *)
(*       only ever seen signing for ONE participant set (one challenge):   *)
(*       e.g. an invoice finalized twice against two different payers'     *)
(*       replies would sign twice with the issuer's nonce.                 *)
(*  Layer M (report only): the stored contexts, the entries of the slate   *)
(*    handed back and the set of at-rest leaks are what the Secrets.tla    *)
(*    step predicts, the fresh atoms being bound from the log.             *)
(***************************************************************************)
EXTENDS Secrets, Json, IOUtils, TLCExt, SequencesExt

CONSTANT CheckM

VARIABLES l, st, seenN, seenX, sctx, told     \* told: <<behaviour, leak class>> already reported (output volume)
tvars == <<l, st, seenN, seenX, sctx, told>>

Rec == ndJsonDeserialize(IOEnv.TRACE)
Has(r, f) == f \in DOMAIN r
E == Rec[l]
IsEv(n) == l <= Len(Rec) /\ Rec[l].ev = n
Ok(e) == e.res = "ok"

ObsCtx(sec) == [ctx |-> [w \in DOMAIN sec.ctx |->
                   [sl \in DOMAIN sec.ctx[w] |->
                      [sec |-> sec.ctx[w][sl].sec, nonce |-> sec.ctx[w][sl].nonce,
                       isec |-> sec.ctx[w][sl].isec, inonce |-> sec.ctx[w][sl].inonce]]]]
ObsParts(q) == {Part(q[i].n, q[i].x, q[i].sig) : i \in DOMAIN q}
LeakRec(k) == [owner |-> k.owner, holder |-> k.holder, where |-> k.where, field |-> k.field, sl |-> k.sl, enc |-> k.enc]
ObsLeaks(sec) == {LeakRec(sec.leaks[i]) : i \in DOMAIN sec.leaks}
PredLeaks(s) == UNION {{[owner |-> w, holder |-> w, where |-> "db", field |-> x[2], sl |-> x[1], enc |-> "jsonarr"] :
                          x \in LeakedFields(s, w)} : w \in DOMAIN s.ctx}

Viol(m, e, cls, info) ==
  PrintT(<<"VIOL", ToJson([p |-> "C12", m |-> m, line |-> l, b |-> e.b, ev |-> e.ev, cls |-> cls, info |-> info])>>)
NonConf(e, what, info) ==
  PrintT(<<"NONCONF", ToJson([line |-> l, b |-> e.b, ev |-> e.ev, what |-> what, info |-> info])>>)
Check(c, m, e, cls, info) == IF c THEN TRUE ELSE Viol(m, e, cls, info)
CheckM_(c, e, what, info) == IF ~CheckM THEN TRUE ELSE IF c THEN TRUE ELSE NonConf(e, what, info)

\* ------------------------------------------------------------- Layer P
\* one line per class of leak (where it is, which secret, which encoding)
LeakClasses(sec) == {<<k.holder = "wire", k.where, k.field, k.enc>> : k \in ObsLeaks(sec)}
\* every class of every event is a failure of the monitor; it is printed once per behaviour
NewLeaks(e) == {<<e.b, c>> : c \in LeakClasses(e.sec)} \ told
NoClearSecretMon(e) ==
  \A x \in NewLeaks(e) :
     LET c == x[2] IN
     Viol("NoClearSecret", e, c[2] \o ":" \o c[3] \o ":" \o c[4],
          CHOOSE k \in ObsLeaks(e.sec) : k.where = c[2] /\ k.field = c[3] /\ k.enc = c[4])
FreshMon(e) ==
  LET key == <<e.b, e.sec.outsl>> IN
  \A p \in ObsParts(e.sec.out) :
     /\ Check(p.n \in DOMAIN seenN => seenN[p.n] = key, "FreshNonces", e, "nonce:" \o e.ev,
              [atom |-> p.n, first |-> IF p.n \in DOMAIN seenN THEN seenN[p.n] ELSE key, now |-> key])
     /\ Check(p.x \in DOMAIN seenX => seenX[p.x] = key, "FreshNonces", e, "excess:" \o e.ev,
              [atom |-> p.x, first |-> IF p.x \in DOMAIN seenX THEN seenX[p.x] ELSE key, now |-> key])

\* the participant set a signature of this step commits to: the finished slate's entries,
\* or the entries the call was given plus its own
AllParts(e) == IF e.ev = "finalize" THEN ObsParts(e.sec.out) ELSE ObsParts(e.sec.inparts) \cup ObsParts(e.sec.out)
SignsOnceMon(e) ==
  \A p \in ObsParts(e.sec.out) :
     Check((p.sig /\ p.n \in DOMAIN sctx) => sctx[p.n] = Pairs(AllParts(e)), "NonceSignsOnce", e,
           e.ev \o ":" \o (IF "stage" \in DOMAIN e THEN e.stage ELSE ""),
           [nonce |-> p.n, before |-> IF p.n \in DOMAIN sctx THEN sctx[p.n] ELSE {}, now |-> Pairs(AllParts(e))])
ConsumedMon(e, obs) ==
  (e.ev = "finalize" /\ Ok(e) /\ e.w \in DOMAIN obs.ctx) =>
     Check(ContextConsumed(obs, e.w, e.sl), "ContextConsumed", e, "finalize:" \o e.stage, [w |-> e.w, sl |-> e.sl])

\* ------------------------------------------------------------- Layer M
\* the Secrets.tla step of the logged call, fresh atoms bound from the observation
Pred(e, obs) ==
  LET w == e.w  sl == e.sl
      hasobs == w \in DOMAIN obs.ctx /\ sl \in DOMAIN obs.ctx[w]
      out == ObsParts(e.sec.out) IN
  IF ~Ok(e) THEN Unchanged(st)
  ELSE CASE e.ev \in {"init_send", "issue_invoice"} /\ hasobs ->
              InitSend(st, w, sl, obs.ctx[w][sl].sec, obs.ctx[w][sl].nonce)
         [] e.ev = "receive" /\ Cardinality(out) = 1 ->
              LET p == CHOOSE p \in out : TRUE IN Receive(st, w, sl, p.x, p.n)
         [] e.ev = "process_invoice" /\ hasobs ->
              ProcessInvoice(st, w, sl, obs.ctx[w][sl].sec, obs.ctx[w][sl].nonce)
         [] e.ev = "finalize" /\ HasCtx(st, w, sl) ->
              Finalize(st, w, sl, ObsParts(e.sec.inparts))
         [] OTHER -> Unchanged(st)

TReset == /\ IsEv("reset")
          /\ NoClearSecretMon(E)
          /\ l' = l + 1 /\ st' = ObsCtx(E.sec) /\ told' = told \cup NewLeaks(E) /\ UNCHANGED <<seenN, seenX, sctx>>

Steps == {"init_send", "receive", "lock", "finalize", "cancel", "post", "mine", "refresh", "issue_invoice", "process_invoice"}
TStep ==
  /\ l <= Len(Rec) /\ Rec[l].ev \in Steps
  /\ LET e == E
         obs == ObsCtx(e.sec)
         out == ObsParts(e.sec.out)
         key == <<e.b, e.sec.outsl>>
         r == Pred(e, obs) IN
     /\ NoClearSecretMon(e)
     /\ FreshMon(e)
     /\ SignsOnceMon(e)
     /\ ConsumedMon(e, obs)
     /\ CheckM_(r.st = obs, e, "ctx", [exp |-> r.st, obs |-> obs])
     /\ CheckM_(r.out = out, e, "out", [exp |-> r.out, obs |-> out])
     /\ CheckM_(PredLeaks(obs) = ObsLeaks(e.sec), e, "leaks",
                [missing |-> PredLeaks(obs) \ ObsLeaks(e.sec), extra |-> ObsLeaks(e.sec) \ PredLeaks(obs)])
     /\ CheckM_(e.sec.probe.pub_found = e.sec.probe.pub_total, e, "scanner-control", e.sec.probe)
     /\ l' = l + 1 /\ st' = obs /\ told' = told \cup NewLeaks(e)
     /\ seenN' = SeenAfter(seenN, key, {p.n : p \in out})
     /\ seenX' = SeenAfter(seenX, key, {p.x : p \in out})
     /\ sctx' = SctxAfter(sctx, out, AllParts(e))

TOther == /\ l <= Len(Rec) /\ Rec[l].ev \notin (Steps \cup {"reset"})
          /\ CheckM_(FALSE, E, "unknown-event", E.ev)
          /\ l' = l + 1 /\ UNCHANGED <<st, seenN, seenX, sctx, told>>

TInit == l = 1 /\ st = [ctx |-> <<>>] /\ seenN = <<>> /\ seenX = <<>> /\ sctx = <<>> /\ told = {}
TNext == TReset \/ TStep \/ TOther
TSpec == TInit /\ [][TNext]_tvars

Consumed == IF TLCGet("stats").diameter - 1 = Len(Rec) THEN PrintT(<<"CONSUMED", Len(Rec)>>)
            ELSE PrintT(<<"STUCK", TLCGet("stats").diameter>>)
=============================================================================
