CONSTANTS
  Reward = 60000
  Maturity = 3
  Slates = {"s1"}
  Amounts = {1000}
  NFund = 1
  MaxH = 6
  MaxLog = 2
  UseLate = TRUE
  UseTtl = FALSE
  UseInvoice = FALSE
  UseAccounts = FALSE
  UseMineTo = FALSE
  UseCancelBySlate = FALSE
  MaxAdv = 2
  MaxFork = 0
  UseScan = FALSE
  UseAccounts2 = FALSE
  UseSelf = FALSE
  FundAcct2 = TRUE
  UseBuild = FALSE
  NChanges = {1}
  QuietW2 = FALSE
  UseFarTtl = FALSE
  UseDiverge = FALSE
  UseAdv = TRUE
SPECIFICATION Spec
INVARIANT TypeOK
INVARIANT Inv_Exclusive
INVARIANT Inv_Held
PROPERTY Prop_Replay
PROPERTY Prop_SelectAvoidsReserved
PROPERTY Prop_Cancel
PROPERTY Prop_Foreign
PROPERTY Prop_Paths
PROPERTY Prop_Ttl
PROPERTY EmitEdges
CONSTRAINT Bound
VIEW View
CHECK_DEADLOCK FALSE
