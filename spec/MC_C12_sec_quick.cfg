CONSTANTS
  Slates = {"s1", "s2"}
  Kinds = {"send", "late", "inv", "selfinv"}
  UseCancel = FALSE
  ApiModes = {FALSE, TRUE}
  UseSecond = TRUE
  DropDelete = FALSE
  TestRng = FALSE
SPECIFICATION Spec
INVARIANT TypeOK
INVARIANT Inv_AtRest
INVARIANT Inv_Fresh
INVARIANT Inv_Wire
INVARIANT Inv_SignsOnce
INVARIANT Inv_Consumed
PROPERTY EmitEdges
VIEW View
CHECK_DEADLOCK FALSE
