CONSTANTS
  Slates = {"s1", "s2"}
  Kinds = {"send", "late", "selfinv"}
  UseCancel = FALSE
  ApiModes = {FALSE, TRUE}
  TestRng = FALSE
SPECIFICATION Spec
INVARIANT TypeOK
INVARIANT Inv_AtRest
INVARIANT Inv_Fresh
INVARIANT Inv_Wire
PROPERTY EmitEdges
VIEW View
CHECK_DEADLOCK FALSE
