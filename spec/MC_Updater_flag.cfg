CONSTANTS
  MaxThreads = 2
  MaxPasses = 2
  MaxCmds = 6
SPECIFICATION Spec
INVARIANT FlagDownWhenNobodyRuns
CONSTRAINT Bound
CHECK_DEADLOCK FALSE
