CONSTANTS
  MaxThreads = 2
  MaxPasses = 2
SPECIFICATION Spec
INVARIANT FlagDownWhenNobodyRuns
CONSTRAINT Bound
CHECK_DEADLOCK FALSE
