CONSTANTS
  Slates = {"s1"}
  MaxRecip = 0
  EditRs = {{}}
  MaxEdits = 2
SPECIFICATION Spec
INVARIANT TypeOK
INVARIANT Inv_NoPanicWitness
CHECK_DEADLOCK FALSE
