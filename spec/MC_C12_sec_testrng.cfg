CONSTANTS
  Slates = {"s1", "s2"}
  Kinds = {"send", "inv"}
  UseCancel = FALSE
  ApiModes = {FALSE}
  UseSecond = FALSE
  DropDelete = FALSE
  TestRng = TRUE
SPECIFICATION Spec
INVARIANT Inv_Fresh
VIEW View
CHECK_DEADLOCK FALSE
