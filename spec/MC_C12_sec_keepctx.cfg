CONSTANTS
  Slates = {"s1"}
  Kinds = {"inv"}
  UseCancel = FALSE
  ApiModes = {FALSE}
  UseSecond = TRUE
  DropDelete = TRUE
  TestRng = FALSE
SPECIFICATION Spec
INVARIANT Inv_SignsOnce
INVARIANT Inv_Consumed
VIEW View
CHECK_DEADLOCK FALSE
