\* quick tier: 10 sampled logs (1..5 entries) + the designed log; singles and all pairs of fields
CONSTANTS
  MaxLen = 5
  NLogs = 10
  ExhaustOne = FALSE
  Arity = 2
  NRand = 0
  Dev = {"CreationUpperBoundReadsMinConfirmed", "AdvancedIgnoresAccount"}
SPECIFICATION Spec
INVARIANT Inv_Reference
INVARIANT Inv_Repaired
INVARIANT Inv_Readings
INVARIANT Inv_CodeModel
INVARIANT Emit
CHECK_DEADLOCK FALSE
