CONSTANTS
  Inits = {"fresh", "funded", "pendsend", "pendrecv", "done"}
  MaxHist = 2
  MaxGen = 3
  HistOps <- HistOpsShort
  UseNode = TRUE
  UseClose = TRUE
SPECIFICATION Spec
INVARIANT W_Closed
INVARIANT W_Reopened
INVARIANT W_Locked
INVARIANT W_Finalized
INVARIANT W_Account
INVARIANT W_NodeDown
VIEW View
CHECK_DEADLOCK FALSE
