CONSTANTS
  MaxThreads = 6
  MaxPasses = 50
  MaxCmds = 6
SPECIFICATION TSpec
INVARIANT ObsInv
POSTCONDITION Consumed
CHECK_DEADLOCK FALSE
