---------------------------- MODULE PaymentProof ----------------------------
(***************************************************************************)
(* Payment proofs, end to end (property C11).                              *)
(*                                                                         *)
(* One CASE is one proof-carrying send  w1 --> w2  followed by a fixed     *)
(* program of probes.  The module transcribes, step by step, what the      *)
(* pinned code does with the proof fields:                                 *)
(*                                                                         *)
(*   Init      owner::init_send_tx          slate.payment_proof, ctx index *)
(*   Lock      selection::lock_tx_context   StoredProofInfo of the entry   *)
(*   Receive   foreign::receive_tx          the recipient's signature      *)
(*   Tamper    (environment)                alterations of the reply       *)
(*   Finalize  foreign::finalize_tx  ->  tx::verify_slate_payment_proof,   *)
(*             tx::update_stored_tx         the sender's signature         *)
(*   Export    owner::retrieve_payment_proof                               *)
(*   Verify    owner::verify_payment_proof  on the exported proof and on   *)
(*             mutated copies, against the chain                           *)
(*   Mine / Fork / Remine  (environment)    kernel on / off the chain      *)
(*                                                                         *)
(* Abstract cryptography (DESIGN.md 2.1): an ed25519 proof signature is    *)
(* the term PSig(key, amount, excess, senderAddr); it verifies under key   *)
(* k over message m iff it IS the term PSig(k, m).  Addresses are named    *)
(* "<wallet>:<account>" (derivation index 0 of that account), excesses     *)
(* "final" (sum of both participants' excesses = the kernel), "spart"      *)
(* (sender only), "rpart" (recipient only), "cb" (kernel of a coinbase     *)
(* that is always on the chain).  Values are in units U (DESIGN.md 2.1).   *)
(*                                                                         *)
(* The PROPERTY is the set of operators of section "ProofSound"; they are  *)
(* evaluated by MCPaymentProof on the model and by TracePaymentProof on    *)
(* what the real code was observed to do (Layer P).  Everything else is    *)
(* the code model (Layer M).                                               *)
(*                                                                         *)
(* Named deviations (CONSTANT Dev) - behaviour of the pinned code that     *)
(* breaks the property; each is switched off once its repair is in:        *)
(*   "LateLockTrustsReply"  a late-locked send stores NO requested         *)
(*        recipient until finalize, where tx_lock_outputs is run on the    *)
(*        REPLY: the "original proof info" is copied from the very slate   *)
(*        it is then compared with (foreign.rs finalize_tx, late branch).  *)
(*        Repair (fixes/C11-1): compare the reply with the address kept    *)
(*        in ctx.late_lock_args before anything is selected or locked.     *)
(*   "StrippedUnnoticed"    verify_slate_payment_proof demands a proof     *)
(*        only if the ENTRY has proof info; an entry written from a reply  *)
(*        without proof (late lock, lock with the reply) has none, so a    *)
(*        stripped reply passes although ctx.payment_proof_derivation_index*)
(*        says a proof was requested.  Repair (fixes/C11-1): demand it     *)
(*        whenever the context requested one.                              *)
(*   "LockTrustsSlate"      lock_tx_context copies the requested recipient *)
(*        from whatever slate it is handed and the context does not        *)
(*        remember it; a sender that locks with the reply (allowed:        *)
(*        tx_lock_outputs only has to precede finalize_tx) compares the    *)
(*        reply with itself.  Repair (fixes/C11-2): the context remembers  *)
(*        the requested address (new optional field) and                   *)
(*        verify_slate_payment_proof compares the reply with it as well.   *)
(*   "SenderKeyFromActive"  tx::update_stored_tx signs the sender's half   *)
(*        with, and stores as sender address, address 0 of the ACTIVE      *)
(*        account, while the slate (and the recipient's signature) name    *)
(*        address 0 of the SOURCE account; since finalize_tx works from    *)
(*        any active account (it takes the account from the context) the   *)
(*        two can differ and the exported proof does not verify.  Repair   *)
(*        (fixes/C11-3): derive both from the entry's account.             *)
(* Named under-modelling: the coin selection is reduced to the shapes the  *)
(* cases use (Sel below; the algorithm itself is the business of C01), a   *)
(* funded account holds two coinbases of Reward each.                      *)
(***************************************************************************)
EXTENDS Integers, Sequences, FiniteSets, TLC

CONSTANT Dev

Reward == 60000
Fee(nin, nout) == nin + 21 * nout + 3          \* weight * U, one kernel
Addr(w, a) == w \o ":" \o a
SenderW == "w1"
RecipW == "w2"
ThirdAddr == "w3:a0"

\* ------------------------------------------------------------ signatures
PSig(k, amt, exc, sa) == [k |-> k, amt |-> amt, exc |-> exc, sa |-> sa]
NoSig  == PSig("none", 0, "", "")              \* Option::None
BadSig == PSig("invalid", 0, "", "")           \* 64 bytes that verify under no known key/message
Present(s) == s.k # "none"

\* the proof part of a slate (PaymentInfo) and of a log entry (StoredProofInfo)
SlateProof(sa, ra, rs) == [has |-> TRUE, sa |-> sa, ra |-> ra, rs |-> rs]
NoSlateProof == [has |-> FALSE, sa |-> "", ra |-> "", rs |-> NoSig]
Stored(ra, rs, sa, ss) == [ex |-> TRUE, ra |-> ra, rs |-> rs, sa |-> sa, ss |-> ss]
NoStored == [ex |-> FALSE, ra |-> "", rs |-> NoSig, sa |-> "", ss |-> NoSig]
\* an exported proof (api_impl::types::PaymentProof)
Proof(amt, exc, ra, rs, sa, ss) == [amt |-> amt, exc |-> exc, ra |-> ra, rs |-> rs, sa |-> sa, ss |-> ss]
NoProof == Proof(0, "", "", NoSig, "", NoSig)
ProofFields == {"amt", "exc", "ra", "rs", "sa", "ss"}

\* ------------------------------------------------------------------ cases
\* c : [amt, incfee, nchange, src, actI, actF, late, lock, req, dest, actR, tam, fapi]
\*   amt      the amount argument of init_send_tx (units)
\*   incfee   amount_includes_fee
\*   nchange  num_change_outputs
\*   src      src_acct_name: "" (none) or an account; actI / actF: w1's active account at
\*            init / at the lock-with-reply and finalize (the proof is exported from the
\*            source account, where the log entry lives)
\*   late     late_lock;  lock: "S1" (lock with the slate that is sent), "S2" (lock with the
\*            reply as received, just before finalize), "none" (never; always for late)
\*   req      the recipient address the sender asks a proof from
\*   dest     dest_acct_name of receive_tx ("" none), actR: w2's active account
\*   tam      alteration of the reply (TamperIds);  fapi: finalize through the foreign API
SrcEff(c) == IF c.src = "" THEN c.actI ELSE c.src
DstEff(c) == IF c.dest = "" THEN c.actR ELSE c.dest
SenderAddr(c) == Addr(SenderW, SrcEff(c))      \* "the sender's address" of this payment
SignerAddr(c) == Addr(RecipW, DstEff(c))       \* the key an honest w2 signs with

\* selection::select_coins_and_fee reduced to the shapes used (all coins are coinbases of
\* Reward): first attempt without change, otherwise with nchange change outputs
Sel(c) ==
  LET n0 == IF c.amt <= Reward THEN 1 ELSE 2
      tot == n0 * Reward
      f0 == Fee(n0, 1)
      w0 == IF c.incfee THEN c.amt ELSE c.amt + f0
      f1 == Fee(n0, c.nchange + 1)
      w1 == IF c.incfee THEN c.amt ELSE c.amt + f1
  IN IF tot = w0 THEN [ok |-> TRUE, nin |-> n0, fee |-> f0, chg |-> 0]
     ELSE IF tot >= w1 THEN [ok |-> TRUE, nin |-> n0, fee |-> f1, chg |-> tot - w1]
     ELSE [ok |-> FALSE, nin |-> n0, fee |-> f1, chg |-> 0]     \* re-selection loop: outside the case space
\* the amount the slate carries: reduced by the fee when the fee is included
SlateAmt(c) == IF c.incfee THEN c.amt - Sel(c).fee ELSE c.amt
WellFormed(c) ==
  /\ Sel(c).ok /\ SlateAmt(c) > 1
  /\ Sel(c).chg % c.nchange = 0                \* unit rule of DESIGN.md 2.1 (C01 owns the remainder)
  /\ (c.late => c.lock = "none")
  /\ (~c.late => c.lock \in {"S1", "S2", "none"})

\* ------------------------------------------------------------- model state
NoCtx == [ex |-> FALSE, acct |-> "", amt |-> 0, fee |-> 0, pidx |-> -1, late |-> FALSE, req |-> ""]
NoEnt == [ex |-> FALSE, acct |-> "", db |-> 0, cr |-> 0, fee |-> 0, kern |-> "", proof |-> NoStored]
NoObs == [op |-> "", res |-> ""]

Start(c) ==
  [c |-> c, ctx |-> NoCtx, ent |-> NoEnt,
   s1 |-> NoSlateProof, amt |-> 0,             \* the slate as sent (S1): proof part, amount
   rp |-> NoSlateProof, got |-> FALSE,         \* the reply's proof part (as received, then as tampered)
   fin |-> "",                                 \* result of finalize ("" = not run)
   exp |-> NoProof, hasexp |-> FALSE,          \* last exported proof
   chain |-> {"cb"},                           \* kernel excesses on the node's chain
   last |-> NoObs]                             \* what the step just taken lets the harness observe

\* ------------------------------------------------------------------- Init
\* owner::init_send_tx: sender address = address 0 of the SOURCE account; the context only
\* keeps the derivation index (and, when late-locked, the whole InitTxArgs)
DoInit(ms) ==
  LET c == ms.c
      p == SlateProof(SenderAddr(c), c.req, NoSig)
      cx == [ex |-> TRUE, acct |-> SrcEff(c), amt |-> SlateAmt(c),
             fee |-> Sel(c).fee, pidx |-> 0, late |-> c.late, req |-> c.req]
  IN [ms EXCEPT !.ctx = cx, !.s1 = p, !.amt = cx.amt,
                !.last = [op |-> "init", res |-> "ok", amt |-> cx.amt, fee |-> cx.fee, proof |-> p,
                          cacct |-> cx.acct, pidx |-> cx.pidx]]

\* ------------------------------------------------------------------- Lock
\* selection::lock_tx_context with slate proof part sp and kernel name kern: new TxSent entry
\* of ctx.acct; proof info stored iff the SLATE has one, recipient copied from the SLATE.
LockEntry(cx, sel, sp, kern) ==
  [ex |-> TRUE, acct |-> cx.acct, db |-> sel.nin * Reward, cr |-> sel.chg, fee |-> cx.fee, kern |-> kern,
   proof |-> IF sp.has THEN Stored(sp.ra, sp.rs, Addr(SenderW, cx.acct), NoSig) ELSE NoStored]

ObsEnt(e) == [ex |-> e.ex, acct |-> e.acct, kern |-> e.kern, proof |-> e.proof, db |-> e.db, cr |-> e.cr, fee |-> e.fee]

DoLock(ms, stage) ==
  LET sp == IF stage = "S1" THEN ms.s1 ELSE ms.rp
      \* Excess(slate as handed over): the sent slate carries the sender's entry only, the reply
      \* the recipient's only (receive_tx removes the other signature data)
      kern == IF stage = "S1" THEN "spart" ELSE "rpart"
  IN IF ~ms.ctx.ex \/ (stage = "S2" /\ ~ms.got)
     THEN [ms EXCEPT !.last = [op |-> "lock", res |-> "skip", ent |-> ObsEnt(ms.ent)]]
     ELSE LET e == LockEntry(ms.ctx, Sel(ms.c), sp, kern)
          IN [ms EXCEPT !.ent = e, !.last = [op |-> "lock", res |-> "ok", ent |-> ObsEnt(e)]]

\* ---------------------------------------------------------------- Receive
\* foreign::receive_tx: signs <<slate.amount, Excess(both), proof.sender_address>> with address 0
\* of the DESTINATION account - whatever proof.receiver_address says
DoReceive(ms) ==
  LET c == ms.c
      rp == [ms.s1 EXCEPT !.rs = PSig(SignerAddr(c), ms.amt, "final", ms.s1.sa)]
  IN [ms EXCEPT !.rp = rp, !.got = TRUE, !.last = [op |-> "receive", res |-> "ok", proof |-> rp]]

\* ----------------------------------------------------------------- Tamper
\* alterations of the reply's proof part; rk = the recipient's real key (a dishonest
\* recipient), ThirdAddr = a key of somebody else
TamperIds == {"none", "strip", "nosig", "junk",
              "otherkey",          \* signed by another key, addresses untouched
              "otherkey_raddr",    \* ... and that key named as the recipient: a self-consistent proof by somebody else
              "amount", "exc_spart", "exc_rpart", "exc_cb", "sender",   \* signed over other values by the real key
              "amount_slate",      \* ... over another amount which the reply ALSO carries in its amount field
              "raddr", "saddr",    \* an address replaced, signature untouched
              "saddr_sig"}         \* sender address replaced and the signature made over it
TamperProof(p, t, amt, rk) ==
  CASE t = "none"           -> p
    [] t = "strip"          -> NoSlateProof
    [] t = "nosig"          -> [p EXCEPT !.rs = NoSig]
    [] t = "junk"           -> [p EXCEPT !.rs = BadSig]
    [] t = "otherkey"       -> [p EXCEPT !.rs = PSig(ThirdAddr, amt, "final", p.sa)]
    [] t = "otherkey_raddr" -> [p EXCEPT !.ra = ThirdAddr, !.rs = PSig(ThirdAddr, amt, "final", p.sa)]
    [] t = "amount"         -> [p EXCEPT !.rs = PSig(rk, amt + 1, "final", p.sa)]
    \* a returned slate is compact (amount 0); selection::repopulate_tx overwrites the amount field
    \* with the context's amount before anything is verified, whatever the reply carries there
    [] t = "amount_slate"   -> [p EXCEPT !.rs = PSig(rk, amt + 1, "final", p.sa)]
    [] t = "exc_spart"      -> [p EXCEPT !.rs = PSig(rk, amt, "spart", p.sa)]
    [] t = "exc_rpart"      -> [p EXCEPT !.rs = PSig(rk, amt, "rpart", p.sa)]
    [] t = "exc_cb"         -> [p EXCEPT !.rs = PSig(rk, amt, "cb", p.sa)]
    [] t = "sender"         -> [p EXCEPT !.rs = PSig(rk, amt, "final", ThirdAddr)]
    [] t = "raddr"          -> [p EXCEPT !.ra = ThirdAddr]
    [] t = "saddr"          -> [p EXCEPT !.sa = ThirdAddr]
    [] t = "saddr_sig"      -> [p EXCEPT !.sa = ThirdAddr, !.rs = PSig(rk, amt, "final", ThirdAddr)]
DoTamper(ms, t) ==
  LET rp == IF ms.got THEN TamperProof(ms.rp, t, ms.amt, SignerAddr(ms.c)) ELSE ms.rp
  IN [ms EXCEPT !.rp = rp, !.last = [op |-> "tamper", res |-> IF ms.got THEN "ok" ELSE "skip", proof |-> rp]]

\* --------------------------------------------------------------- Finalize
\* tx::verify_slate_payment_proof(wallet, account, ctx, slate) on entry e
\* (e = the TxSent entry found by slate id IN THE GIVEN ACCOUNT, or NoEnt; finalize_tx passes the
\* context's account - the source account - whatever account is active)
VerifySlateProof(e, acct, cx, p) ==
  LET orig == e.proof
      mine == Addr(SenderW, acct)             \* address_from_derivation_path(account, ctx index)
  IN IF ~(e.ex /\ e.acct = acct) THEN "err:proof"                    \* "is account correct?"
     ELSE IF orig.ex /\ ~p.has THEN "err:proof"                      \* expected proof not present
     ELSE IF "StrippedUnnoticed" \notin Dev /\ cx.pidx >= 0 /\ ~p.has THEN "err:proof"   \* (fixes/C11-1)
     ELSE IF ~p.has THEN "ok"
     ELSE IF ~orig.ex THEN "err:proof"                               \* original proof info not stored
     ELSE IF cx.pidx < 0 THEN "err:proof"
     ELSE IF p.sa # mine THEN "err:proof"                            \* sender address differs from derived
     ELSE IF orig.ra # p.ra THEN "err:proof"                         \* recipient address differs from stored
     ELSE IF "LockTrustsSlate" \notin Dev /\ p.ra # cx.req THEN "err:proof"   \* ... from requested (fixes/C11-2)
     ELSE IF ~Present(p.rs) THEN "err:proof"                         \* no signature
     ELSE IF p.rs # PSig(p.ra, cx.amt, "final", mine) THEN "err:proof"   \* invalid signature
     ELSE "ok"

\* the check fixes/C11-1 adds to the late branch (before anything is selected or locked)
LateRequestOK(cx, p) == p.has /\ p.ra = cx.req

\* foreign::finalize_tx, state S2.  Late: select + lock (with the reply!) BEFORE any check.
\* tx::update_stored_tx: kernel := final excess; proof info rewritten from the slate with the
\* sender's signature over <<amount, final excess, SLATE's sender address>>; key and stored
\* sender address: address 0 of the ACTIVE account (code) / of the entry's account (repaired).
DoFinalize(ms, fapi) ==
  LET c == ms.c
      cx == ms.ctx
      p == ms.rp
      active == c.actF
      obs(res, e) == [op |-> "finalize", res |-> res, reply |-> p, ent |-> ObsEnt(e),
                      kern |-> IF res = "ok" THEN "final" ELSE ""]
  IN IF ~cx.ex \/ ~ms.got THEN [ms EXCEPT !.last = obs("skip", ms.ent)]
     ELSE IF cx.late /\ "LateLockTrustsReply" \notin Dev /\ ~LateRequestOK(cx, p)
     THEN [ms EXCEPT !.fin = "err:proof", !.last = obs("err:proof", ms.ent)]
     \* never locked: the change outputs were never stored, repopulate_tx silently skips them and
     \* the rebuilt transaction does not balance (tx::complete_tx, before the proof is looked at)
     ELSE IF ~cx.late /\ ~ms.ent.ex /\ Sel(c).chg > 0
     THEN [ms EXCEPT !.fin = "err:other:Transaction", !.last = obs("err:other:Transaction", ms.ent)]
     ELSE
       LET e1 == IF cx.late THEN LockEntry(cx, Sel(c), p, "rpart") ELSE ms.ent
           cx1 == [cx EXCEPT !.late = FALSE]
           v == VerifySlateProof(e1, cx.acct, cx1, p)
           ka == IF "SenderKeyFromActive" \in Dev THEN active ELSE e1.acct
       IN IF v # "ok"
          THEN [ms EXCEPT !.ent = e1, !.ctx = cx1, !.fin = v, !.last = obs(v, e1)]
          ELSE
            LET e2 == [e1 EXCEPT !.kern = "final",
                         !.proof = IF p.has
                                   THEN Stored(p.ra, p.rs, Addr(SenderW, ka),
                                               PSig(Addr(SenderW, ka), cx.amt, "final", p.sa))
                                   ELSE e1.proof]
            IN [ms EXCEPT !.ent = e2, !.ctx = NoCtx, !.fin = "ok", !.last = obs("ok", e2)]

\* ----------------------------------------------------------------- Export
\* owner::retrieve_payment_proof by slate id: exactly one entry in the ACTIVE account; the
\* sender exports from the source account (the harness activates it first)
DoExport(ms) ==
  LET e == ms.ent
      active == SrcEff(ms.c)
      amount == IF e.cr >= e.db THEN e.cr - e.db ELSE e.db - e.cr - e.fee
      bad == \/ ~(e.ex /\ e.acct = active) \/ ~e.proof.ex \/ e.kern = ""
             \/ ~Present(e.proof.rs) \/ ~Present(e.proof.ss)
      p == Proof(amount, e.kern, e.proof.ra, e.proof.rs, e.proof.sa, e.proof.ss)
  IN IF bad THEN [ms EXCEPT !.last = [op |-> "export", res |-> "err:retrieval", proof |-> NoProof]]
     ELSE [ms EXCEPT !.exp = p, !.hasexp = TRUE, !.last = [op |-> "export", res |-> "ok", proof |-> p]]

\* ------------------------------------------------------------------ chain
DoMine(ms)   == IF ms.fin = "ok"
              THEN [ms EXCEPT !.chain = @ \cup {"final"}, !.last = [op |-> "mine", res |-> "ok", onchain |-> TRUE]]
              ELSE [ms EXCEPT !.last = [op |-> "mine", res |-> "skip", onchain |-> FALSE]]
\* a longer fork from the block before the one that holds the transaction
DoFork(ms)   == [ms EXCEPT !.chain = @ \ {"final"}, !.last = [op |-> "fork", res |-> "ok", onchain |-> FALSE]]

\* ----------------------------------------------------------------- Verify
\* single-field mutations of an exported proof (MutFields names the changed fields)
MutSeq1 == <<"amt_plus", "amt_minus", "exc_cb", "exc_spart", "ra_third", "ra_sender", "sa_third", "sa_recipient",
             "rs_swap", "rs_third", "rs_msg", "rs_junk", "rs_noncanon",
             "ss_swap", "ss_third", "ss_msg", "ss_junk", "ss_noncanon">>
MutIds1 == {MutSeq1[i] : i \in DOMAIN MutSeq1}
\* several fields at once (Layer M only: outside the property statement)
MutSeqN == <<"forge_recipient",  \* recipient address and signature replaced consistently by a third key
             "forge_both",       \* both addresses and both signatures replaced consistently by a third key
             "forge_amount">>    \* amount raised and the SENDER's signature redone over it
MutIdsN == {MutSeqN[i] : i \in DOMAIN MutSeqN}
MutIds == {"none"} \cup MutIds1 \cup MutIdsN
Mut(p, m) ==
  CASE m = "none"         -> p
    [] m = "amt_plus"     -> [p EXCEPT !.amt = @ + 1]
    [] m = "amt_minus"    -> [p EXCEPT !.amt = @ - 1]
    [] m = "exc_cb"       -> [p EXCEPT !.exc = "cb"]
    [] m = "exc_spart"    -> [p EXCEPT !.exc = "spart"]
    [] m = "ra_third"     -> [p EXCEPT !.ra = ThirdAddr]
    [] m = "ra_sender"    -> [p EXCEPT !.ra = p.sa]
    [] m = "sa_third"     -> [p EXCEPT !.sa = ThirdAddr]
    [] m = "sa_recipient" -> [p EXCEPT !.sa = p.ra]
    [] m = "rs_swap"      -> [p EXCEPT !.rs = p.ss]
    [] m = "rs_third"     -> [p EXCEPT !.rs = PSig(ThirdAddr, p.amt, p.exc, p.sa)]
    [] m = "rs_msg"       -> [p EXCEPT !.rs = PSig(p.ra, p.amt + 1, p.exc, p.sa)]
    [] m = "rs_junk"      -> [p EXCEPT !.rs = BadSig]
    [] m = "rs_noncanon"  -> [p EXCEPT !.rs = BadSig]
    [] m = "ss_swap"      -> [p EXCEPT !.ss = p.rs]
    [] m = "ss_third"     -> [p EXCEPT !.ss = PSig(ThirdAddr, p.amt, p.exc, p.sa)]
    [] m = "ss_msg"       -> [p EXCEPT !.ss = PSig(p.sa, p.amt + 1, p.exc, p.sa)]
    [] m = "ss_junk"      -> [p EXCEPT !.ss = BadSig]
    [] m = "ss_noncanon"  -> [p EXCEPT !.ss = BadSig]
    [] m = "forge_recipient" -> [p EXCEPT !.ra = ThirdAddr, !.rs = PSig(ThirdAddr, p.amt, p.exc, p.sa)]
    [] m = "forge_both"   -> [p EXCEPT !.ra = ThirdAddr, !.rs = PSig(ThirdAddr, p.amt, p.exc, ThirdAddr),
                                       !.sa = ThirdAddr, !.ss = PSig(ThirdAddr, p.amt, p.exc, ThirdAddr)]
    [] m = "forge_amount" -> [p EXCEPT !.amt = @ + 1, !.ss = PSig(p.sa, p.amt + 1, p.exc, p.sa)]

\* owner::verify_payment_proof(p) against the kernels on the chain
VerifyProof(p, chain) ==
  IF p.exc \notin chain THEN "err:proof"                               \* kernel not found on chain
  ELSE IF p.rs # PSig(p.ra, p.amt, p.exc, p.sa) THEN "err:proof"       \* invalid recipient signature
  ELSE IF p.ss # PSig(p.sa, p.amt, p.exc, p.sa) THEN "err:proof"       \* invalid sender signature
  ELSE "ok"

\* verifier v = <<wallet, active account>>: the result also says whose address 0 it is
DoVerify(ms, m, vaddr) ==
  IF ~ms.hasexp THEN [ms EXCEPT !.last = [op |-> "verify", res |-> "skip", proof |-> NoProof, onchain |-> FALSE,
                                          smine |-> FALSE, rmine |-> FALSE]]
  ELSE LET p == Mut(ms.exp, m)
           r == VerifyProof(p, ms.chain)
       IN [ms EXCEPT !.last = [op |-> "verify", res |-> r, proof |-> p, onchain |-> p.exc \in ms.chain,
                               smine |-> r = "ok" /\ vaddr = p.sa, rmine |-> r = "ok" /\ vaddr = p.ra]]

\* ---------------------------------------------------------------- programs
\* an instruction: [op, a, v, b]  (a: stage / tamper id / mutation id; v: verifying wallet; b: flag)
I(op, a, v, b) == [op |-> op, a |-> a, v |-> v, b |-> b]
VerifierAddr(v) == Addr(v, "a0")               \* verifying wallets other than w1 stay on their default account
VAddr(ms, v) == IF v = SenderW THEN Addr(SenderW, SrcEff(ms.c)) ELSE IF v = RecipW THEN Addr(RecipW, ms.c.actR) ELSE VerifierAddr(v)

Step(ms, i) ==
  CASE i.op = "init"     -> DoInit(ms)
    [] i.op = "lock"     -> DoLock(ms, i.a)
    [] i.op = "receive"  -> DoReceive(ms)
    [] i.op = "tamper"   -> DoTamper(ms, i.a)
    [] i.op = "finalize" -> DoFinalize(ms, i.b)
    [] i.op = "export"   -> DoExport(ms)
    [] i.op = "mine"     -> DoMine(ms)
    [] i.op = "fork"     -> DoFork(ms)
    [] i.op = "remine"   -> DoMine(ms)
    [] i.op = "verify"   -> DoVerify(ms, i.a, VAddr(ms, i.v))

\* the send itself
SendProg(c) ==
  <<I("init", "", "", FALSE)>>
  \o (IF c.lock = "S1" THEN <<I("lock", "S1", "", FALSE)>> ELSE <<>>)
  \o <<I("receive", "", "", FALSE), I("tamper", c.tam, "", FALSE)>>
  \o (IF c.lock = "S2" THEN <<I("lock", "S2", "", FALSE)>> ELSE <<>>)
  \o <<I("finalize", "", "", c.fapi), I("export", "", "", FALSE)>>

\* the probes of an exported proof: off chain, mined (every mutation; every verifier), forked
\* away, mined again on the new branch.  `muts`: mutation ids tried while the kernel is on chain.
ProbeProg(mutseq, forks) ==
  <<I("verify", "none", "w3", FALSE),                                    \* not yet mined
    I("mine", "", "", FALSE), I("export", "", "", TRUE),
    I("verify", "none", "w1", FALSE), I("verify", "none", "w2", FALSE), I("verify", "none", "w3", FALSE)>>
  \o [k \in 1..Len(mutseq) |-> I("verify", mutseq[k], "w3", FALSE)]
  \o (IF forks THEN <<I("fork", "", "", FALSE), I("export", "", "", TRUE),       \* the sender refreshes against the new branch
                      I("verify", "none", "w3", FALSE), I("verify", "exc_cb", "w3", FALSE),
                      I("remine", "", "", FALSE), I("export", "", "", TRUE),
                      I("verify", "none", "w2", FALSE), I("verify", "amt_plus", "w2", FALSE)>>
      ELSE <<>>)

\* ============================================================= ProofSound
\* The property, as predicates over OBSERVABLE data (the same operators judge the model in
\* MCPaymentProof and the real code in TracePaymentProof).
\*
\* (1) finalization succeeds only if the reply carries the requested recipient's valid
\*     signature over the actual amount, the final kernel excess and the sender's address
ReplySound(req, amt, kern, sender, p) == p.has /\ p.rs = PSig(req, amt, kern, sender)
FinalizeSound(res, req, amt, kern, sender, p) == res = "ok" => ReplySound(req, amt, kern, sender, p)
\* (2) the proof the sender then exports verifies (once its kernel is on the chain)
ExportVerifies(res, onchain) == onchain => res = "ok"
\* (3) changing exactly one of amount, excess, either address, either signature makes
\*     verification fail;  (4) so does a kernel that is not on the chain
Changed(p, q) == {f \in ProofFields : p[f] # q[f]}
MutantRefused(res, honest, p) == Cardinality(Changed(honest, p)) = 1 => res # "ok"
OffChainRefused(res, onchain) == ~onchain => res # "ok"
\* what verify_payment_proof must establish before it may say yes (DESIGN.md 4 C11, S)
ProofValid(p, onchain) == /\ onchain
                          /\ p.rs = PSig(p.ra, p.amt, p.exc, p.sa)
                          /\ p.ss = PSig(p.sa, p.amt, p.exc, p.sa)
=============================================================================
