CONSTANTS
  Reward = 60000
  Maturity = 3
  CheckM = TRUE
SPECIFICATION TSpec
POSTCONDITION Consumed
CHECK_DEADLOCK FALSE
