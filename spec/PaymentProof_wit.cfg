\* vacuity: every witness must be REACHABLE (the WIT lines printed at the end of each case must cover all of them)
CONSTANTS
  Dev = {}
  Amts = {1000}
  IncFees = {FALSE}
  NChanges = {1}
  QuietW2 = FALSE
  UseFarTtl = FALSE
  Srcs = {""}
  ActIs = {"a0"}
  ActFs = {"a0"}
  LateLocks = {"late", "S1", "S2"}
  Reqs = {"w2:a0"}
  Dests = {""}
  ActRs = {"a0"}
  Tams = {"none", "strip", "otherkey_raddr", "amount"}
  FApis = {FALSE}
  Forks = TRUE
  MultiMut = FALSE
  NPer = 0
  NAny = 0
  NHonest = 0
SPECIFICATION Spec
INVARIANT WitEmit
CHECK_DEADLOCK FALSE
