------------------------------ MODULE Selection ------------------------------
(***************************************************************************)
(* C01  Sender-side transaction construction conserves value.              *)
(*                                                                         *)
(* Part 1 (SelectRef) is a line-by-line transcription of                   *)
(*   libwallet/src/internal/selection.rs  (select_coins, select_from,      *)
(*   select_coins_and_fee, inputs_and_change, build_send_tx),              *)
(*   libwallet/src/types.rs OutputData::eligible_to_spend, and of the way  *)
(*   owner::init_send_tx / tx::create_late_lock_context /                  *)
(*   foreign::finalize_tx (late lock) / owner::process_invoice_tx call     *)
(*   them.  It does what the code does, including what we believe is wrong.*)
(*   Every repair we propose (fixes/C01-*.patch) is a named flag of the    *)
(*   variant record `ver`, so the same text describes the pinned code      *)
(*   (Orig) and the patched code.                                          *)
(* Part 2 (Contract) is the property, written independently of part 1:     *)
(*   predicates over a case and an OBSERVED (or predicted) outcome.        *)
(*                                                                         *)
(* Numbers.  TLC integers are 32 bit, the code computes in u64 with        *)
(* wrap-around (the harness is built with overflow-checks off, as the      *)
(* shipped binary).  Values are either small (< HALF) or near the limit;   *)
(* TOP stands for u64::MAX and TOP-k for u64::MAX-k (k < HALF).  The map   *)
(*     phi(x) = x  (x < HALF),   phi(x) = 2^64 - (WRAP - x)  (x >= HALF)   *)
(* is monotone and commutes with +,- modulo WRAP resp. 2^64 as long as the *)
(* signed magnitudes stay below HALF, which holds for every case of the    *)
(* bounded domains (wallet values and fees are tiny).  The code never      *)
(* multiplies a user amount; it divides only the change, which is small.   *)
(* Named deviation: Div/Mod of a value >= HALF is not faithful (unreached).*)
(***************************************************************************)
EXTENDS Integers, Sequences, FiniteSets

TOP  == 268435455          \* 2^28 - 1, stands for u64::MAX
WRAP == 268435456          \* 2^28,     stands for 2^64
HALF == 134217728          \* 2^27
WAdd(a, b) == (a + b) % WRAP                \* u64 wrapping_add
WSub(a, b) == ((a - b) + WRAP) % WRAP       \* u64 wrapping_sub
Min2(a, b) == IF a < b THEN a ELSE b
Max2(a, b) == IF a > b THEN a ELSE b

\* grin_core::libtx::tx_fee with accept_fee_base = 1 (set_local_accept_fee_base(1)):
\* weight_by_iok = inputs*1 + outputs*21 + kernels*3
Fee(i, o, k) == i + 21 * o + 3 * k

Active == "a0"    \* the backend's parent_key_id during every case (never switched)

(***************************************************************************)
(* A case.  outs is the output table in LMDB key order (= iteration order  *)
(* of WalletBackend::iter()); an output is                                 *)
(*   [v, st, h, lk, cb, acct]  value, status, height, lock_height,         *)
(*                             is_coinbase, root_key_id (account).         *)
(* amt, incfee, minconf, maxouts, nchange, useall, src are the InitTxArgs; *)
(* height is the chain tip the node reports; flow is "send" | "late" |     *)
(* "invoice".                                                              *)
(***************************************************************************)

\* ----------------------------------------------------------------- variants
FixNames == {"split", "wrap", "win0", "lateacct", "lateinc"}
Orig     == [f \in FixNames |-> FALSE]     \* the pinned commit
AllFixed == [f \in FixNames |-> TRUE]      \* every patch of fixes/C01-*.patch applied
Variants == [FixNames -> BOOLEAN]

\* ======================================================================
\*  Part 1.  Transcription
\* ======================================================================

\* types.rs OutputData::num_confirmations
NumConf(o, H) == IF o.h > H THEN 0
                 ELSE IF o.st = "Unconfirmed" THEN 0
                 ELSE 1 + (H - o.h)

\* types.rs OutputData::eligible_to_spend
Eligible(o, H, m) ==
  IF o.st \in {"Spent", "Locked"} \/ (o.st = "Unconfirmed" /\ o.cb) \/ o.lk > H
  THEN FALSE
  ELSE (o.st = "Unspent" /\ NumConf(o, H) >= m) \/ (o.st = "Unconfirmed" /\ m = 0)

\* sum of the values of the outputs named by the index sequence s:
\* `iter().map(|c| c.value).sum()` / `fold(0, |acc, x| acc + x.value)` in u64
RECURSIVE SumV(_, _)
SumV(outs, s) == IF s = <<>> THEN 0 ELSE WAdd(outs[Head(s)].v, SumV(outs, Tail(s)))

\* selection.rs select_from: take_while with the running sum BEFORE the element
RECURSIVE TakeWhileLess(_, _, _, _)
TakeWhileLess(outs, s, selected, amount) ==
  IF s = <<>> THEN <<>>
  ELSE IF selected < amount
       THEN <<Head(s)>> \o TakeWhileLess(outs, Tail(s), WAdd(selected, outs[Head(s)].v), amount)
       ELSE <<>>

SelectFrom(outs, amount, selectAll, s) ==
  IF SumV(outs, s) >= amount
  THEN [some |-> TRUE, sel |-> IF selectAll THEN s ELSE TakeWhileLess(outs, s, 0, amount)]
  ELSE [some |-> FALSE, sel |-> <<>>]

\* selection.rs select_coins.  P carries outs, height, minconf, maxouts, useall.
\* Result: panic (slice::windows(0)), avail (= max_available), coins (index sequence).
SelectCoins(P, acct, amount, ver) ==
  LET outs   == P.outs
      S      == {i \in 1..Len(outs) : outs[i].acct = acct /\ Eligible(outs[i], P.height, P.minconf)}
      n      == Cardinality(S)
      \* eligible.sort_by_key(|out| out.value): stable, ties keep LMDB key order
      Rank(i) == 1 + Cardinality({j \in S : outs[j].v < outs[i].v \/ (outs[j].v = outs[i].v /\ j < i)})
      sorted == [p \in 1..n |-> CHOOSE i \in S : Rank(i) = p]
      mo     == P.maxouts
      Win(k) == SubSeq(sorted, k, k + mo - 1)
      winOK  == {k \in 1..(n - mo + 1) : SelectFrom(outs, amount, P.useall, Win(k)).some}
      firstW == CHOOSE k \in winOK : \A k2 \in winOK : k <= k2
      soft   == SelectFrom(outs, amount, FALSE, sorted)
      plain  == SelectFrom(outs, amount, P.useall, sorted)
      \* eligible.reverse(); take(max_outputs)
      largest == [p \in 1..Min2(mo, n) |-> sorted[n + 1 - p]]
  IN  IF n > mo
      THEN IF mo = 0 /\ ~ver.win0
           THEN [panic |-> TRUE, avail |-> n, coins |-> <<>>]      \* eligible.windows(0) panics
           ELSE IF mo > 0 /\ winOK # {}
                THEN [panic |-> FALSE, avail |-> n,
                      coins |-> SelectFrom(outs, amount, P.useall, Win(firstW)).sel]
                ELSE IF soft.some                                   \* soft limit: go over max_outputs
                     THEN [panic |-> FALSE, avail |-> n, coins |-> soft.sel]
                     ELSE [panic |-> FALSE, avail |-> n, coins |-> largest]
      ELSE IF plain.some
           THEN [panic |-> FALSE, avail |-> n, coins |-> plain.sel]
           ELSE [panic |-> FALSE, avail |-> n, coins |-> largest]

\* results of select_coins_and_fee
SOk(coins, total, amt, fee) == [res |-> "ok", errc |-> "", coins |-> coins, total |-> total, amt |-> amt, fee |-> fee]
SErr(class)  == [res |-> "err", errc |-> class, coins |-> <<>>, total |-> 0, amt |-> 0, fee |-> 0]
SPanic(what) == [res |-> "panic", errc |-> what, coins |-> <<>>, total |-> 0, amt |-> 0, fee |-> 0]
SHang        == [res |-> "hang", errc |-> "", coins |-> <<>>, total |-> 0, amt |-> 0, fee |-> 0]

\* `amount + fee` (u64, wraps) -- with fix "wrap": checked_add, -1 = overflow
AmountWithFee(amount, fee, incFee, ver) ==
  IF incFee THEN amount
  ELSE IF ver.wrap /\ amount + fee > TOP THEN -1
  ELSE WAdd(amount, fee)

\* tail of select_coins_and_fee: `new_amount = amount.checked_sub(fee)` when incFee
SFinish(coins, total, amount, fee, incFee) ==
  IF incFee THEN (IF amount < fee THEN SErr("generic") ELSE SOk(coins, total, amount - fee, fee))
  ELSE SOk(coins, total, amount, fee)

\* the `while total < amount_with_fee` loop.  NOTE the re-selection is called
\* with the SHADOWED max_outputs (`let (max_outputs, mut coins) = select_coins(..)`
\* rebinds the name to max_available = eligible.len()), so inside the loop the
\* user's max_outputs no longer limits anything: eligible.len() > max_outputs is
\* false, the whole sorted list is offered to select_from, and the fallback
\* returns every eligible coin, which ends the loop with NotEnoughFunds.
\* Every iteration is a function of amount_with_fee alone, and amount_with_fee
\* is a function of coins.len() in 0..avail, so if the loop has not left after
\* avail+2 iterations a value of amount_with_fee has repeated and the loop never
\* ends: fuel exhaustion is exactly non-termination, not an artefact of the bound.
RECURSIVE SLoop(_, _, _, _, _, _, _, _, _, _, _)
SLoop(P, acct, amount, incFee, ver, avail, coins, total, fee, awf, fuel) ==
  IF awf = -1 THEN SErr("generic")                       \* fix "wrap": checked_add failed
  ELSE IF ~(total < awf) THEN SFinish(coins, total, amount, fee, incFee)
  ELSE IF Len(coins) = avail THEN SErr("notenough")      \* coins.len() == max_outputs (shadowed: max_available)
  ELSE IF fuel = 0 THEN SHang
  ELSE LET sel    == SelectCoins([P EXCEPT !.maxouts = avail], acct, awf, ver)   \* shadowed max_outputs
           coins2 == sel.coins
           fee2   == Fee(Len(coins2), P.nchange + 1, 1)
           total2 == SumV(P.outs, coins2)
           awf2   == AmountWithFee(amount, fee2, incFee, ver)
       IN  IF sel.panic THEN SPanic("windows0")
           ELSE SLoop(P, acct, amount, incFee, ver, avail, coins2, total2, fee2, awf2, fuel - 1)

\* selection.rs select_coins_and_fee
SelectCoinsAndFee(P, acct, amount, incFee, ver) ==
  LET sel    == SelectCoins(P, acct, amount, ver)
      coins  == sel.coins
      avail  == sel.avail                                 \* shadows max_outputs
      fee0   == Fee(Len(coins), 1, 1)                     \* first attempt: no change
      total  == SumV(P.outs, coins)
      awf0   == AmountWithFee(amount, fee0, incFee, ver)
      fee1   == Fee(Len(coins), P.nchange + 1, 1)
      awf1   == AmountWithFee(amount, fee1, incFee, ver)
  IN  IF sel.panic THEN SPanic("windows0")
      ELSE IF awf0 = -1 THEN SErr("generic")
      ELSE IF total = 0 THEN SErr("notenough")
      ELSE IF total < awf0 /\ Len(coins) = avail THEN SErr("notenough")
      ELSE IF total = awf0 THEN SFinish(coins, total, amount, fee0, incFee)
      ELSE SLoop(P, acct, amount, incFee, ver, avail, coins, total, fee1, awf1, avail + 2)

\* selection.rs inputs_and_change (the change split).  Result: res, change (values)
InputsAndChange(P, coins, amount, fee, ver) ==
  LET total  == SumV(P.outs, coins)
      change == WSub(WSub(total, amount), fee)            \* total - amount - fee
      n      == P.nchange
  IN  IF change = 0 THEN [res |-> "ok", errc |-> "", change |-> <<>>]
      ELSE IF ver.split
      THEN \* patched: refuse what cannot be split, exact remainder
           IF n = 0 \/ change < n THEN [res |-> "err", errc |-> "generic", change |-> <<>>]
           ELSE [res |-> "ok", errc |-> "",
                 change |-> [x \in 1..n |-> IF x = n THEN (change \div n) + (change % n) ELSE change \div n]]
      ELSE IF n = 0 THEN [res |-> "panic", errc |-> "div0", change |-> <<>>]      \* change / 0
      ELSE LET part == change \div n IN
           IF part = 0 THEN [res |-> "panic", errc |-> "rem0", change |-> <<>>]   \* change % 0
           ELSE LET rem == change % part IN                                       \* sic: % part_change
                [res |-> "ok", errc |-> "",
                 change |-> [x \in 1..n |-> IF x = n THEN part + rem ELSE part]]

\* outcome of one sender-side construction
BOk(ins, change, fee, amt) == [res |-> "ok", errc |-> "", ins |-> ins, change |-> change, fee |-> fee, amt |-> amt]
BFail(res, errc)           == [res |-> res, errc |-> errc, ins |-> <<>>, change |-> <<>>, fee |-> 0, amt |-> 0]

\* selection.rs build_send_tx (select_send_tx = select_coins_and_fee ; inputs_and_change),
\* then the slate amount is reduced when incFee, then the fixed-fee comparison.
\* fixedFee = -1: none.
BuildSend(P, acct, amount, incFee, fixedFee, ver) ==
  LET S == SelectCoinsAndFee(P, acct, amount, incFee, ver) IN
  IF S.res # "ok" THEN BFail(S.res, S.errc)
  ELSE LET IC == InputsAndChange(P, S.coins, S.amt, S.fee, ver) IN
       IF IC.res # "ok" THEN BFail(IC.res, IC.errc)
       ELSE IF incFee /\ amount < S.fee THEN BFail("err", "generic")   \* slate.amount.checked_sub(fee)
       ELSE IF fixedFee # -1 /\ S.fee # fixedFee THEN BFail("err", "fee")
       ELSE BOk(S.coins, IC.change, S.fee, S.amt)

NoFin == [on |-> FALSE, res |-> "", errc |-> "", ins |-> <<>>, change |-> <<>>, fee |-> 0, kept |-> TRUE]

RECURSIVE SumNat(_)
SumNat(s) == IF s = <<>> THEN 0 ELSE Head(s) + SumNat(Tail(s))
ValsOf(outs, s) == [i \in DOMAIN s |-> outs[s[i]].v]

(***************************************************************************)
(* SelectRef(c, ver): what the API call(s) of case c do.                   *)
(*  send    owner::init_send_tx -> tx::add_inputs_to_slate ->              *)
(*          build_send_tx(src account, args.amount, args.incfee, no fixed  *)
(*          fee); the context (inputs, change, amount, fee) is saved.      *)
(*  invoice owner::process_invoice_tx: the same with amount = the          *)
(*          invoice's amount and amount_includes_fee = false.              *)
(*  late    owner::init_send_tx(late_lock): tx::create_late_lock_context   *)
(*          runs select_coins_and_fee only for the fee; the context keeps  *)
(*          amount = args.amount (NOT reduced when incfee) and the args.   *)
(*          Then the recipient answers and foreign::finalize_tx runs       *)
(*          build_send_tx on the ACTIVE account (w.parent_key_id(), not    *)
(*          the context's) with amount = ctx.amount, incfee = false and    *)
(*          the fee fixed to ctx.fee, saves the context and LOCKS (inputs  *)
(*          Locked, change outputs and a TxSent entry of the context's     *)
(*          account written) - and only then completes the transaction     *)
(*          (fails when it does not balance: errc "*" = some error) and    *)
(*          looks the TxSent entry up in the ACTIVE account (PaymentProof   *)
(*          error "is account correct?" when the context's account is      *)
(*          another one).  Both failures come after the lock: kept = FALSE. *)
(*          Fixes: "lateacct" uses the context's account for the selection *)
(*          and the look-up; "lateinc" makes the late context and slate    *)
(*          carry amount - fee.                                            *)
(***************************************************************************)
SelectRef(c, ver) ==
  IF c.flow = "send" THEN
      LET B == BuildSend(c, c.src, c.amt, c.incfee, -1, ver) IN
      [res |-> B.res, errc |-> B.errc, ins |-> B.ins, change |-> B.change, fee |-> B.fee, amt |-> B.amt, fin |-> NoFin]
  ELSE IF c.flow = "invoice" THEN
      LET B == BuildSend(c, c.src, c.amt, FALSE, -1, ver) IN
      [res |-> B.res, errc |-> B.errc, ins |-> B.ins, change |-> B.change, fee |-> B.fee, amt |-> B.amt, fin |-> NoFin]
  ELSE \* late
      LET S == SelectCoinsAndFee(c, c.src, c.amt, c.incfee, ver) IN
      IF S.res # "ok"
      THEN [res |-> S.res, errc |-> S.errc, ins |-> <<>>, change |-> <<>>, fee |-> 0, amt |-> 0, fin |-> NoFin]
      ELSE LET camt  == IF ver.lateinc THEN S.amt ELSE c.amt          \* context.amount = slate.amount
               facct == IF ver.lateacct THEN c.src ELSE Active
               B     == BuildSend(c, facct, camt, FALSE, S.fee, ver)
               balanced == SumNat(ValsOf(c.outs, B.ins)) = camt + B.fee + SumNat(B.change)
               fin   == IF B.res # "ok"
                        THEN [on |-> TRUE, res |-> B.res, errc |-> B.errc, ins |-> <<>>, change |-> <<>>, fee |-> 0, kept |-> TRUE]
                        ELSE IF ~balanced
                        THEN [on |-> TRUE, res |-> "err", errc |-> "*", ins |-> <<>>, change |-> <<>>, fee |-> 0, kept |-> FALSE]
                        ELSE IF facct # c.src
                        THEN [on |-> TRUE, res |-> "err", errc |-> "proof", ins |-> <<>>, change |-> <<>>, fee |-> 0, kept |-> FALSE]
                        ELSE [on |-> TRUE, res |-> "ok", errc |-> "", ins |-> B.ins, change |-> B.change, fee |-> B.fee, kept |-> TRUE]
           IN [res |-> "ok", errc |-> "", ins |-> <<>>, change |-> <<>>, fee |-> S.fee, amt |-> camt, fin |-> fin]

\* ======================================================================
\*  Part 2.  The property (independent of part 1)
\* ======================================================================
(***************************************************************************)
(* An outcome r (observed on the real code, or predicted by SelectRef):    *)
(*   res    "ok" | "err" | "panic" | "hang"   of the first call            *)
(*   amt    the amount the wallet agreed to pay the recipient              *)
(*          (Slate.amount / Context.amount), fee (Slate.fee_fields =       *)
(*          Context.fee)                                                   *)
(*   ins    selected inputs as indices into c.outs (0: not an output of    *)
(*          the wallet), invals their values as the context records them   *)
(*   change values of the change outputs                                   *)
(*   kept   TRUE iff, as far as the store shows, nothing that reserves     *)
(*          funds was persisted by the call (no context, no new output or  *)
(*          log entry, no output record changed)                           *)
(*   fin    the late-lock finalisation: on, res, ins, invals, change, fee, *)
(*          valid (the final transaction validates), kept                  *)
(*          ntxin/ntxout (shape of the final transaction), kept            *)
(* Sums are taken in the naturals (no wrap): every term is checked to lie  *)
(* in 0..TOP and the number of terms is bounded (7 inputs, 4 change        *)
(* outputs) before summing, so no sum passes 2^31.                         *)
(***************************************************************************)
RECURSIVE SumSeq(_)
SumSeq(s) == IF s = <<>> THEN 0 ELSE Head(s) + SumSeq(Tail(s))

\* "currently spendable" (DESIGN Appendix A, derived notions), written from the
\* statement: confirmed on chain deep enough, or an unconfirmed non-coinbase
\* output when zero confirmations are asked for; mature; not reserved, spent
\* or reverted
Confs(o, H) == IF o.st = "Unconfirmed" \/ o.h > H THEN 0 ELSE H - o.h + 1
Spendable(o, H, m) ==
  /\ o.lk <= H
  /\ \/ o.st = "Unspent" /\ Confs(o, H) >= m
     \/ o.st = "Unconfirmed" /\ ~o.cb /\ m = 0

Representable(s) == \A i \in DOMAIN s : s[i] >= 0 /\ s[i] <= TOP

\* every input is a distinct, currently spendable output of the source account,
\* recorded with its true value
InputsEligible(c, ins, invals) ==
  /\ Len(ins) = Len(invals)
  /\ \A i \in DOMAIN ins :
       /\ ins[i] \in 1..Len(c.outs)
       /\ c.outs[ins[i]].acct = c.src
       /\ Spendable(c.outs[ins[i]], c.height, c.minconf)
       /\ invals[i] = c.outs[ins[i]].v
  /\ \A i, j \in DOMAIN ins : i # j => ins[i] # ins[j]

\* total = A' + fee + change, A' = A (or A - fee and total = A + change)
Conservation(c, invals, change, fee, amt) ==
  /\ Len(invals) <= 7 /\ Len(change) <= 4 /\ Representable(invals) /\ Representable(change)
  /\ fee >= 0 /\ fee <= TOP /\ amt >= 0 /\ amt <= TOP
  /\ SumSeq(invals) = amt + fee + SumSeq(change)
AmountAgreed(c, fee, amt) ==
  IF c.incfee /\ c.flow # "invoice" THEN amt = c.amt - fee ELSE amt = c.amt
FeeMin(ins, change, fee) == fee >= Fee(Len(ins), Len(change) + 1, 1)
ChangeCount(c, change)   == Len(change) <= Max2(1, c.nchange)

\* the monitors, by name; TRUE = holds
Monitors == <<"NoPanic", "NoHang", "InputsEligible", "Conservation", "AmountAgreed", "FeeMin",
              "ChangeCount", "ErrPersistsNothing">>

\* which stage carries the construction: the call itself, or the late finalisation
Built(c, r) ==
  IF c.flow = "late"
  THEN IF r.res = "ok" /\ r.fin.on /\ r.fin.res = "ok"
       THEN [on |-> TRUE, ins |-> r.fin.ins, invals |-> r.fin.invals, change |-> r.fin.change, fee |-> r.fin.fee]
       ELSE [on |-> FALSE, ins |-> <<>>, invals |-> <<>>, change |-> <<>>, fee |-> 0]
  ELSE IF r.res = "ok"
       THEN [on |-> TRUE, ins |-> r.ins, invals |-> r.invals, change |-> r.change, fee |-> r.fee]
       ELSE [on |-> FALSE, ins |-> <<>>, invals |-> <<>>, change |-> <<>>, fee |-> 0]

Holds(c, r, mon) ==
  LET b == Built(c, r) IN
  CASE mon = "NoPanic" -> r.res # "panic" /\ (r.fin.on => r.fin.res # "panic")
    [] mon = "NoHang"  -> r.res # "hang" /\ (r.fin.on => r.fin.res # "hang")
    [] mon = "InputsEligible" -> b.on => InputsEligible(c, b.ins, b.invals)
    [] mon = "Conservation" ->
         /\ b.on => Conservation(c, b.invals, b.change, b.fee, r.amt)
         \* the final transaction is exactly these inputs, the change and the payment, and validates
         /\ (b.on /\ c.flow = "late") => r.fin.valid /\ r.fin.ntxin = Len(b.ins) /\ r.fin.ntxout = Len(b.change) + 1
         \* what the wallet announced (slate) is what it committed to (context) and what it pays
         /\ r.res = "ok" => r.camt = r.amt /\ r.cfee = r.fee
         /\ b.on => b.fee = r.fee
    [] mon = "AmountAgreed" -> r.res = "ok" => AmountAgreed(c, r.fee, r.amt)
    [] mon = "FeeMin" -> b.on => FeeMin(b.ins, b.change, b.fee)
    [] mon = "ChangeCount" -> b.on => ChangeCount(c, b.change)
    [] mon = "ErrPersistsNothing" ->
         /\ r.res = "err" => r.kept
         /\ (r.fin.on /\ r.fin.res = "err") => r.fin.kept

Failed(c, r) == {i \in DOMAIN Monitors : ~Holds(c, r, Monitors[i])}
Contract(c, r) == Failed(c, r) = {}

\* a predicted outcome in the vocabulary of an observed one: values are the true
\* values, the context agrees with the slate, the final transaction is valid
\* (a finalisation that returns Ok has verified it)
AsOutcome(c, x) ==
  [res |-> x.res, errc |-> x.errc, amt |-> x.amt, camt |-> x.amt, fee |-> x.fee, cfee |-> x.fee,
   ins |-> x.ins, invals |-> ValsOf(c.outs, x.ins), change |-> x.change, kept |-> TRUE,
   fin |-> [on |-> x.fin.on, res |-> x.fin.res, errc |-> x.fin.errc, ins |-> x.fin.ins,
            invals |-> ValsOf(c.outs, x.fin.ins), change |-> x.fin.change, fee |-> x.fin.fee,
            kept |-> x.fin.kept, valid |-> TRUE, ntxin |-> Len(x.fin.ins), ntxout |-> Len(x.fin.change) + 1]]

\* ----------------------------------------------------------------------
\* Input classes: the part of a violation key that names WHERE in the input
\* space a monitor failed (used for known findings; classification only,
\* never a verdict).  They are phrased on the case and on the reference
\* quantities of the pinned code.
\* ----------------------------------------------------------------------
\* the change the pinned code would have to split, -1 if it does not get there
RefChange(c) ==
  LET S == SelectCoinsAndFee(c, c.src, c.amt, c.incfee /\ c.flow = "send", Orig)
  IN IF c.flow = "late"
     THEN LET S1 == SelectCoinsAndFee(c, c.src, c.amt, c.incfee, Orig) IN
          IF S1.res # "ok" THEN -1
          ELSE LET S2 == SelectCoinsAndFee(c, Active, c.amt, FALSE, Orig) IN
               IF S2.res # "ok" THEN -1 ELSE WSub(WSub(S2.total, S2.amt), S2.fee)
     ELSE IF S.res # "ok" THEN -1 ELSE WSub(WSub(S.total, S.amt), S.fee)

InputClass(c, mon) ==
  LET ch == RefChange(c) IN
  IF mon = "NoPanic" THEN
       IF c.maxouts = 0 THEN "maxouts=0"
       ELSE IF c.nchange = 0 THEN "nchange=0,change>0"
       ELSE IF ch > 0 /\ ch < c.nchange THEN "0<change<nchange"
       ELSE "other"
  ELSE IF mon = "Conservation" THEN
       IF c.amt >= HALF THEN "amount+fee>u64max"
       ELSE IF c.nchange >= 2 /\ ch >= c.nchange /\ ch < c.nchange * c.nchange THEN "nchange<=change<nchange^2"
       ELSE "other"
  ELSE IF mon = "InputsEligible" THEN
       IF c.flow = "late" /\ c.src # Active THEN "late,src#active" ELSE "other"
  ELSE IF mon = "AmountAgreed" THEN
       IF c.flow = "late" /\ c.incfee THEN "late,incfee" ELSE "other"
  ELSE IF mon = "ErrPersistsNothing" THEN
       IF c.flow = "late" /\ c.src # Active THEN "late,src#active"
       ELSE IF c.flow = "late" /\ c.amt >= HALF THEN "late,amount+fee>u64max"
       ELSE IF c.flow = "late" /\ c.nchange >= 2 /\ ch >= c.nchange /\ ch < c.nchange * c.nchange THEN "late,nchange<=change<nchange^2"
       ELSE "other"
  ELSE "any"
=============================================================================
