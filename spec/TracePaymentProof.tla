------------------------- MODULE TracePaymentProof -------------------------
(***************************************************************************)
(* Trace validation of payment-proof cases executed on the REAL wallet     *)
(* code (recorded by harness/replay_proof) against PaymentProof.tla.       *)
(*                                                                         *)
(* Trace lines (one per program step, see harness/src/bin/replay_proof):   *)
(*   case      a fresh world; `c` = the case record TLC generated          *)
(*   init lock receive tamper finalize export mine fork remine verify      *)
(*             the step, its result class and the OBSERVED proof data in   *)
(*             the vocabulary of the spec (addresses and excesses by name, *)
(*             signatures as the terms that verify - established by the    *)
(*             harness with an independent ed25519 verification)           *)
(*                                                                         *)
(* Layer P (decides VIOLATION): the operators of section ProofSound of     *)
(*   PaymentProof.tla evaluated on the observed data only:                 *)
(*     FinalizeSound   finalize = ok  =>  the reply handed to finalize     *)
(*                     carries PSig(requested address, amount of the sent  *)
(*                     slate, kernel excess of the final transaction,      *)
(*                     sender address of the sent slate)                   *)
(*     ExportVerifies  after a sound finalize the export succeeds and the  *)
(*                     exported proof verifies whenever the chain holds    *)
(*                     its kernel                                          *)
(*     MutantRefused   a proof that differs from the exported one in       *)
(*                     exactly one field is refused                        *)
(*     OffChainRefused a proof whose kernel the chain does not hold is     *)
(*                     refused                                             *)
(*   Each failure prints VIOL with its input class (the key).              *)
(* Layer M (prints NONCONF only): every observation equals what the code   *)
(*   model Step(ms, instruction) predicts, field by field.                 *)
(* The spec never stops at a failure, so the whole trace is examined.      *)
(***************************************************************************)
EXTENDS PaymentProof, Json, IOUtils, TLCExt

CONSTANT CheckM      \* TRUE: evaluate Layer M as well as Layer P

VARIABLES l,        \* next trace line
          cur,      \* the case in force (stimulus)
          ms,       \* model state (Layer M)
          fin,      \* observed: [res, sound] of the finalize of this case
          exp,      \* observed: last exported proof, [has, p]
          stat      \* witness counters
tvars == <<l, cur, ms, fin, exp, stat>>

Rec == ndJsonDeserialize(IOEnv.TRACE)
E == Rec[l]
FieldOr(r, f, d) == IF f \in DOMAIN r THEN r[f] ELSE d
Ops == {"init", "lock", "receive", "tamper", "finalize", "export", "mine", "fork", "remine", "verify"}

NoCase == [none |-> TRUE]
KindOfCase(c) == IF "none" \in DOMAIN c THEN "?" ELSE IF c.late THEN "late" ELSE c.lock
Viol(e, m, cls, info) ==
  PrintT(<<"VIOL", ToJson([p |-> "C11", m |-> m, cls |-> cls, kind |-> KindOfCase(cur), line |-> l, b |-> e.b,
                           ev |-> e.ev, a |-> FieldOr(e, "a", ""), c |-> cur, info |-> info])>>)
NonConf(e, what, info) ==
  PrintT(<<"NONCONF", ToJson([line |-> l, b |-> e.b, ev |-> e.ev, a |-> FieldOr(e, "a", ""), what |-> what, info |-> info])>>)
Bump(f) == [stat EXCEPT ![f] = @ + 1]

\* the case record with exactly the fields of the spec
CaseOf(j) == [amt |-> j.amt, incfee |-> j.incfee, nchange |-> j.nchange, src |-> j.src, actI |-> j.actI, actF |-> j.actF,
              late |-> j.late, lock |-> j.lock, req |-> j.req, dest |-> j.dest, actR |-> j.actR, tam |-> j.tam, fapi |-> j.fapi]

TCase ==
  /\ l <= Len(Rec) /\ E.ev = "case"
  /\ cur' = CaseOf(E.c)
  /\ ms' = IF CheckM THEN Start(CaseOf(E.c)) ELSE ms
  /\ fin' = [res |-> "", sound |-> FALSE, want |-> NoProof]
  /\ exp' = [has |-> FALSE, p |-> NoProof]
  /\ stat' = Bump("cases")
  /\ l' = l + 1

\* ------------------------------------------------------------- Layer P
\* which way the reply fails to be what the statement asks for (the input class of the key)
ReplyClass(e) ==
  LET p == e.reply IN
  IF ~p.has THEN "proof-stripped"
  ELSE IF p.rs.k = "none" THEN "rsig-absent"
  ELSE IF p.rs.k = "invalid" THEN "rsig-invalid"
  ELSE IF p.rs.k # e.req THEN "rsig-by-other-key"
  ELSE IF p.rs.amt # e.amt THEN "rsig-over-other-amount"
  ELSE IF p.rs.sa # e.sender THEN "rsig-over-other-sender"
  ELSE "rsig-over-other-excess"

\* input class of an ExportVerifies failure: was the payment finalized under its source account, and
\* in which fields does the exported proof differ from the one the finalized reply determines
FieldSeq == <<"amt", "exc", "ra", "rs", "sa", "ss">>
RECURSIVE JoinFields(_, _)
JoinFields(S, i) == IF i > Len(FieldSeq) THEN ""
                    ELSE LET rest == JoinFields(S, i + 1) IN
                         IF FieldSeq[i] \notin S THEN rest
                         ELSE IF rest = "" THEN FieldSeq[i] ELSE FieldSeq[i] \o "+" \o rest
DiffClass(p, q) == LET d == Changed(p, q) IN IF d = {} THEN "same" ELSE JoinFields(d, 1)
AcctClass == IF SrcEff(cur) = cur.actF THEN "src=active" ELSE "src#active"

PFinalize(e) ==
  IF FinalizeSound(e.res, e.req, e.amt, e.kern, e.sender, e.reply) THEN TRUE
  ELSE Viol(e, "FinalizeSound", ReplyClass(e), [reply |-> e.reply, req |-> e.req, amt |-> e.amt, kern |-> e.kern, sender |-> e.sender])

PExport(e) ==
  IF fin.sound /\ e.res # "ok" THEN Viol(e, "ExportVerifies", "export-" \o e.res \o "/" \o AcctClass, [detail |-> FieldOr(e, "detail", "")])
  ELSE TRUE

ChangedField(p, q) == LET d == Changed(p, q) IN IF Cardinality(d) = 1 THEN CHOOSE f \in d : TRUE ELSE "multi"
PVerify(e) ==
  LET honest == e.proof = exp.p IN
  /\ IF honest /\ fin.sound /\ ~ExportVerifies(e.res, e.onchain)
     THEN Viol(e, "ExportVerifies", "verify-" \o e.res \o "/" \o AcctClass \o "/" \o DiffClass(fin.want, e.proof),
               [proof |-> e.proof, expected |-> fin.want, verifier |-> e.v]) ELSE TRUE
  /\ IF ~MutantRefused(e.res, exp.p, e.proof)
     THEN Viol(e, "MutantRefused", ChangedField(exp.p, e.proof), [honest |-> exp.p, proof |-> e.proof]) ELSE TRUE
  /\ IF ~OffChainRefused(e.res, e.onchain)
     THEN Viol(e, "OffChainRefused", IF honest THEN "exported" ELSE "mutated", [proof |-> e.proof]) ELSE TRUE

\* ------------------------------------------------------------- Layer M
EntOf(j) == [ex |-> j.ex, acct |-> j.acct, kern |-> j.kern, proof |-> j.proof,
            db |-> FieldOr(j, "db", 0), cr |-> FieldOr(j, "cr", 0), fee |-> FieldOr(j, "fee", 0)]
\* the fields of an observation that the model predicts, per operation
Seen(e) ==
  CASE e.ev = "init"     -> [op |-> "init", res |-> e.res, amt |-> FieldOr(e, "amt", -1), fee |-> FieldOr(e, "fee", -1),
                             proof |-> FieldOr(e, "proof", NoSlateProof), cacct |-> FieldOr(e, "cacct", ""), pidx |-> FieldOr(e, "pidx", -1)]
    [] e.ev = "lock"     -> [op |-> "lock", res |-> e.res, ent |-> EntOf(e.ent)]
    [] e.ev = "receive"  -> [op |-> "receive", res |-> e.res, proof |-> FieldOr(e, "proof", NoSlateProof)]
    [] e.ev = "tamper"   -> [op |-> "tamper", res |-> e.res, proof |-> FieldOr(e, "proof", NoSlateProof)]
    [] e.ev = "finalize" -> [op |-> "finalize", res |-> e.res, reply |-> FieldOr(e, "reply", NoSlateProof),
                             ent |-> IF "ent" \in DOMAIN e THEN EntOf(e.ent) ELSE ObsEnt(NoEnt), kern |-> FieldOr(e, "kern", "")]
    [] e.ev = "export"   -> [op |-> "export", res |-> e.res, proof |-> FieldOr(e, "proof", NoProof)]
    [] e.ev \in {"mine", "fork", "remine"} -> [op |-> IF e.ev = "remine" THEN "mine" ELSE e.ev, res |-> e.res, onchain |-> FieldOr(e, "onchain", FALSE)]
    [] e.ev = "verify"   -> [op |-> "verify", res |-> e.res, proof |-> FieldOr(e, "proof", NoProof), onchain |-> FieldOr(e, "onchain", FALSE),
                             smine |-> FieldOr(e, "smine", FALSE), rmine |-> FieldOr(e, "rmine", FALSE)]
Differing(a, b) == {f \in DOMAIN a : f \notin DOMAIN b \/ a[f] # b[f]}

TStep ==
  /\ l <= Len(Rec) /\ E.ev \in Ops
  /\ LET e == E
         i == I(e.ev, e.a, e.v, e.bf)
         m2 == IF CheckM THEN Step(ms, i) ELSE ms
     IN
     \* Layer P
     /\ CASE e.ev = "finalize" /\ e.res # "skip" -> PFinalize(e)
          [] e.ev = "export" -> PExport(e)
          [] e.ev = "verify" /\ exp.has /\ e.res \notin {"skip", "unknown-mutation"} -> PVerify(e)
          [] OTHER -> TRUE
     \* Layer M
     /\ IF ~CheckM THEN TRUE
        ELSE IF Seen(e) = m2.last THEN TRUE
        ELSE NonConf(e, "Step", [fields |-> Differing(m2.last, Seen(e)), exp |-> m2.last, obs |-> Seen(e)])
     /\ ms' = m2
     /\ fin' = IF e.ev = "finalize" /\ e.res # "skip"
               THEN [res |-> e.res, sound |-> e.res = "ok" /\ ReplySound(e.req, e.amt, e.kern, e.sender, e.reply),
                     \* the proof this payment determines: requested recipient and its signature, sender
                     \* address of the sent slate and its signature, over the same message
                     want |-> Proof(e.amt, e.kern, e.req, e.reply.rs, e.sender, PSig(e.sender, e.amt, e.kern, e.sender))]
               ELSE fin
     /\ exp' = IF e.ev = "export" /\ e.res = "ok" THEN [has |-> TRUE, p |-> e.proof] ELSE exp
     /\ stat' = CASE e.ev = "finalize" /\ e.res = "ok" -> Bump("finalize_ok")
                  [] e.ev = "finalize" /\ e.res = "err:proof" /\ cur.tam # "none" -> Bump("forgery_refused")
                  [] e.ev = "export" /\ e.res = "ok" -> Bump("export_ok")
                  [] e.ev = "verify" /\ e.res = "ok" /\ exp.has /\ e.proof = exp.p -> Bump("verify_ok")
                  [] e.ev = "verify" /\ e.res = "ok" /\ exp.has /\ e.proof # exp.p -> Bump("forged_accepted")
                  [] e.ev = "verify" /\ e.res = "err:proof" /\ exp.has /\ e.onchain /\ Cardinality(Changed(exp.p, e.proof)) = 1 -> Bump("mutant_refused")
                  [] e.ev = "verify" /\ e.res = "err:proof" /\ exp.has /\ ~e.onchain /\ e.proof = exp.p -> Bump("offchain_refused")
                  [] OTHER -> stat
     /\ UNCHANGED cur
     /\ l' = l + 1

\* anything else (a harness failure): reported, never silently skipped
TOther ==
  /\ l <= Len(Rec) /\ E.ev \notin Ops \cup {"case"}
  /\ NonConf(E, "unexpected-line", FieldOr(E, "detail", ""))
  /\ UNCHANGED <<cur, ms, fin, exp, stat>>
  /\ l' = l + 1

TDone ==
  /\ l = Len(Rec) + 1
  /\ PrintT(<<"STAT", ToJson(stat)>>)
  /\ UNCHANGED <<cur, ms, fin, exp, stat>>
  /\ l' = l + 1

Stat0 == [cases |-> 0, finalize_ok |-> 0, forgery_refused |-> 0, export_ok |-> 0, verify_ok |-> 0, forged_accepted |-> 0,
          mutant_refused |-> 0, offchain_refused |-> 0]
TInit == /\ l = 1 /\ cur = NoCase /\ ms = [none |-> TRUE] /\ fin = [res |-> "", sound |-> FALSE, want |-> NoProof]
         /\ exp = [has |-> FALSE, p |-> NoProof] /\ stat = Stat0
TNext == TCase \/ TStep \/ TOther \/ TDone
TSpec == TInit /\ [][TNext]_tvars

Consumed == IF TLCGet("stats").diameter - 2 = Len(Rec) THEN PrintT(<<"CONSUMED", Len(Rec)>>)
            ELSE PrintT(<<"STUCK", TLCGet("stats").diameter>>)
=============================================================================
